import TypVerif.Lemmas.PubSubSafeChan
/-
`Safe` is preserved by the sender steps (PubSync loop, sendAsync, sendWaitGroup).
-/
namespace TypVerif.Lemmas.PubSubSafe
open TypVerif TypVerif.Model.PubSub

theorem objs_eq {s : State} (hs : Safe s) : ∃ r, s.objs = [r] := by
  have h := hs.objs1
  match hobjs : s.objs, h with
  | [r], _ => exact ⟨r, rfl⟩

theorem safe_frame {s s1 : State} (hs : Safe s) (f : SendFrame s s1) : Safe s1 := by
  have hobj : s1.obj 0 = s.obj 0 := by simp [State.obj, f.objs]
  constructor
  · rw [f.objs]; exact hs.objs1
  · rw [f.tasks]; exact hs.obj0
  · rw [hobj, f.tasks]; exact hs.readers
  · intro c hc; rw [f.closed]; exact hs.opn c (hobj ▸ hc)
  · rw [hobj]; exact hs.nodup
  · intro c hc; rw [f.has]; exact hs.exist c (hobj ▸ hc)
  · rw [hobj, f.tasks]; exact hs.targ
  · rw [f.wgs, f.tasks]; exact hs.wgc
  · rw [f.wgs, f.tasks]; exact hs.wgw
  · rw [f.panicked]; exact hs.nopanic

theorem frame_logTimeout (s : State) (it : Item) : SendFrame s (s.logTimeout it) :=
  ⟨rfl, rfl, rfl, rfl, fun _ => rfl, fun _ => rfl⟩

/-- a send by a task whose target is subscribed cannot hit a closed channel -/
theorem no_send_panic {s : State} {i : Nat} {t : Task} {it : Item} (hs : Safe s) (hi : s.tasks[i]? = some t)
    (ht : it.c ∈ targets t) : sendTo s it ≠ .panic := by
  intro h
  have h1 := sendTo_panic h
  have h2 := hs.opn it.c (hs.targ t (List.mem_of_getElem? hi) it.c ht)
  rw [h1] at h2; cases h2

theorem safe_async_fin {s : State} {i : Nat} {it : Item} {cb : Bool} (hs : Safe s)
    (hi : s.tasks[i]? = some (.asyncSend 0 it cb)) : Safe ((s.runlock 0).setTask i .done) := by
  obtain ⟨r, hr⟩ := objs_eq hs
  have hpos := readers_pos hs hi rfl
  refine safe_replace (t' := .done) hs hi rfl ?_ ?_ ?_ (fun _ => rfl) (fun _ h => h) ?_ ?_ ?_ trivial ?_ hs.nopanic
  · simp [State.setTask, State.runlock, State.setObj, hr]
  · simp [State.setTask, State.runlock, State.setObj, State.obj, hr]
  · simp [State.obj, hr] at hpos
    simp [State.setTask, State.runlock, State.setObj, State.obj, hr, holdsRead, RW.runlock]
    omega
  · intro w; simp [State.setTask, State.runlock, State.setObj, isWgSend]
  · intro w h; simp [isWgSend] at h
  · intro w h; simp [isWaitWg] at h
  · intro c h; simp [targets] at h

theorem safe_async_cb {s : State} {i : Nat} {it : Item} (hs : Safe s)
    (hi : s.tasks[i]? = some (.asyncSend 0 it false)) : Safe (s.setTask i (.asyncSend 0 it true)) := by
  refine safe_replace (t' := .asyncSend 0 it true) hs hi rfl hs.objs1 rfl rfl (fun _ => rfl) (fun _ h => h)
    (fun _ => rfl) (fun _ h => h) ?_ rfl ?_ hs.nopanic
  · intro w h; simp [isWaitWg] at h
  · intro c h
    exact hs.targ _ (List.mem_of_getElem? hi) c h


theorem getD_set_nat (l : List Nat) (w w' v : Nat) :
    (l.set w v).getD w' 0 = if w = w' ∧ w < l.length then v else l.getD w' 0 := by
  simp only [List.getD_eq_getElem?_getD, List.getElem?_set]
  by_cases h : w = w'
  · subst h
    by_cases h2 : w < l.length
    · simp [h2]
    · simp [h2]
  · simp [h]

theorem lt_length_of_getD_pos (l : List Nat) (w : Nat) (h : 0 < l.getD w 0) : w < l.length := by
  rcases Nat.lt_or_ge w l.length with h1 | h1
  · exact h1
  · simp [List.getD_eq_getElem?_getD, List.getElem?_eq_none h1] at h

theorem safe_wg_fin {s : State} {i w : Nat} {it : Item} {cb : Bool} (hs : Safe s)
    (hi : s.tasks[i]? = some (.wgSend 0 w it cb)) : Safe ((wgDone s w).setTask i .done) := by
  have hpos : 0 < s.wgs.getD w 0 := wg_pos hs hi (by simp [isWgSend])
  have hlt := lt_length_of_getD_pos _ _ hpos
  have hne : (s.wgs.getD w 0 == 0) = false := by
    rw [beq_eq_false_iff_ne]; omega
  have hwd : wgDone s w = { s with wgs := s.wgs.set w (s.wgs.getD w 0 - 1) } := by
    simp only [wgDone, hne, Bool.false_eq_true, ↓reduceIte]
  rw [hwd]
  refine safe_replace (t' := .done) hs hi rfl hs.objs1 rfl rfl (fun _ => rfl) (fun _ h => h) ?_ ?_ ?_ trivial ?_ hs.nopanic
  · intro w'
    simp only [State.setTask, getD_set_nat, isWgSend]
    by_cases h : w = w'
    · subst h
      simp only [hlt, and_self, beq_self_eq_true, Bool.false_eq_true, ↓reduceIte]
      omega
    · have : (w == w') = false := by simp [h]
      simp only [h, this, false_and, ↓reduceIte, Bool.false_eq_true]
  · intro w' h; simp [isWgSend] at h
  · intro w' h; simp [isWaitWg] at h
  · intro c h; simp [targets] at h

theorem safe_wg_cb {s : State} {i w : Nat} {it : Item} (hs : Safe s)
    (hi : s.tasks[i]? = some (.wgSend 0 w it false)) : Safe (s.setTask i (.wgSend 0 w it true)) := by
  refine safe_replace (t' := .wgSend 0 w it true) hs hi rfl hs.objs1 rfl rfl (fun _ => rfl) (fun _ h => h)
    (fun _ => rfl) (fun _ h => h) ?_ rfl ?_ hs.nopanic
  · intro w h; simp [isWaitWg] at h
  · intro c h
    exact hs.targ _ (List.mem_of_getElem? hi) c h


theorem safe_sync_fin {s : State} {i p : Nat} {it : Item} {rest : List Item} {cb : Bool} (hs : Safe s)
    (hi : s.tasks[i]? = some (.syncLoop p 0 (it :: rest) cb)) : Safe (syncAdvance i p 0 rest s) := by
  obtain ⟨r, hr⟩ := objs_eq hs
  have hpos := readers_pos hs hi rfl
  cases rest with
  | nil =>
    refine safe_replace (t' := .pubRet p) hs hi rfl ?_ ?_ ?_ (fun _ => rfl) (fun _ h => h) ?_ ?_ ?_ trivial ?_ hs.nopanic
    · simp [syncAdvance, State.setTask, State.runlock, State.setObj, hr]
    · simp [syncAdvance, State.setTask, State.runlock, State.setObj, State.obj, hr]
    · simp [State.obj, hr] at hpos
      simp [syncAdvance, State.setTask, State.runlock, State.setObj, State.obj, hr, holdsRead, RW.runlock]
      omega
    · intro w; simp [syncAdvance, State.setTask, State.runlock, State.setObj, isWgSend]
    · intro w h; simp [isWgSend] at h
    · intro w h; simp [isWaitWg] at h
    · intro c h; simp [targets] at h
  | cons it2 rest2 =>
    refine safe_replace (t' := .syncLoop p 0 (it2 :: rest2) false) hs hi rfl hs.objs1 rfl rfl (fun _ => rfl)
      (fun _ h => h) (fun _ => rfl) (fun _ h => h) ?_ rfl ?_ hs.nopanic
    · intro w h; simp [isWaitWg] at h
    · intro c h
      refine hs.targ _ (List.mem_of_getElem? hi) c ?_
      simp only [targets, List.map_cons, List.mem_cons] at h ⊢
      exact Or.inr h

theorem safe_sync_cb {s : State} {i p : Nat} {work : List Item} (hs : Safe s)
    (hi : s.tasks[i]? = some (.syncLoop p 0 work false)) : Safe (s.setTask i (.syncLoop p 0 work true)) := by
  refine safe_replace (t' := .syncLoop p 0 work true) hs hi rfl hs.objs1 rfl rfl (fun _ => rfl) (fun _ h => h)
    (fun _ => rfl) (fun _ h => h) ?_ rfl ?_ hs.nopanic
  · intro w h; simp [isWaitWg] at h
  · intro c h
    exact hs.targ _ (List.mem_of_getElem? hi) c h


theorem safe_stepSyncLoop {cfg : Cfg} {s s' : State} {i p : Nat} {work : List Item} {cb : Bool} {l : Option Event}
    (hs : Safe s) (hi : s.tasks[i]? = some (.syncLoop p 0 work cb))
    (h : (l, s') ∈ stepSyncLoop cfg s i p 0 work cb) : Safe s' := by
  cases work with
  | nil => simp [stepSyncLoop] at h
  | cons it rest =>
    simp only [stepSyncLoop] at h
    rcases mem_stepSend h with ⟨_, rfl⟩ | ⟨_, s1, hst, rfl⟩ | ⟨_, hpan⟩ | ⟨hcb, rfl⟩
    · exact safe_sync_fin hs hi
    · have f := sendTo_sent hst
      exact safe_sync_fin (safe_frame hs f) (f.tasks ▸ hi)
    · exact absurd hpan (no_send_panic hs hi (by simp [targets]))
    · subst hcb
      exact safe_sync_cb (safe_frame hs (frame_logTimeout s it)) hi

theorem safe_stepAsyncSend {cfg : Cfg} {s s' : State} {i : Nat} {it : Item} {cb : Bool} {l : Option Event}
    (hs : Safe s) (hi : s.tasks[i]? = some (.asyncSend 0 it cb))
    (h : (l, s') ∈ stepAsyncSend cfg s i 0 it cb) : Safe s' := by
  simp only [stepAsyncSend] at h
  rcases mem_stepSend h with ⟨_, rfl⟩ | ⟨_, s1, hst, rfl⟩ | ⟨_, hpan⟩ | ⟨hcb, rfl⟩
  · exact safe_async_fin hs hi
  · have f := sendTo_sent hst
    exact safe_async_fin (safe_frame hs f) (f.tasks ▸ hi)
  · exact absurd hpan (no_send_panic hs hi (by simp [targets]))
  · subst hcb
    exact safe_async_cb (safe_frame hs (frame_logTimeout s it)) hi

theorem safe_stepWgSend {cfg : Cfg} {s s' : State} {i w : Nat} {it : Item} {cb : Bool} {l : Option Event}
    (hs : Safe s) (hi : s.tasks[i]? = some (.wgSend 0 w it cb))
    (h : (l, s') ∈ stepWgSend cfg s i 0 w it cb) : Safe s' := by
  simp only [stepWgSend] at h
  rcases mem_stepSend h with ⟨_, rfl⟩ | ⟨_, s1, hst, rfl⟩ | ⟨_, hpan⟩ | ⟨hcb, rfl⟩
  · exact safe_wg_fin hs hi
  · have f := sendTo_sent hst
    exact safe_wg_fin (safe_frame hs f) (f.tasks ▸ hi)
  · exact absurd hpan (no_send_panic hs hi (by simp [targets]))
  · subst hcb
    exact safe_wg_cb (safe_frame hs (frame_logTimeout s it)) hi

end TypVerif.Lemmas.PubSubSafe
