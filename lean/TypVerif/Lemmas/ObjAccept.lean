import TypVerif.Lemmas.ConcAccept
import TypVerif.Lemmas.AtomicObj
/-
Acceptance soundness for the judges that step the generic atomic-object system `Model.AtomicObj.sys` with a state-set
construction (`Drv.C18.stepObj`, `Drv.ObjLin.stepObj`): after every event they erase the ghost log, before every event
they pad every state with idle goroutines up to the current number of goroutines `n` (which grows while the trace is
read), and they run `Conc.stepEvent` on the system whose menu is just the operation of the event.

Facts used (all about `AtomicObj.succ`):
* `succ` never reads the ghost log                          (`eraseLog_bisim`);
* `succ` of goroutine `t` does not look at the other goroutines: appending idle goroutines is a simulation (`exec_pad`);
* a larger menu allows more steps                           (`exec_menu_mono`);
* the number of goroutines `n` of `sys S menu n` occurs only in its initial state (`exec_n_irrelevant`).
All four are instances of one lemma, `exec_sim`, about the relation `Sim k s t` (`t` = `s` with `k` more idle goroutines,
up to the log).

`stepObjF S fuel n` is the judges' `stepObj` with the closure fuel as a parameter (`Drv.C18.stepObj S n = stepObjF S 16 n`,
`Drv.ObjLin.stepObj S n = stepObjF S 24 n`, both by `rfl`: see `Props/C18accept.lean`, `Props/C04accept.lean`).
`Acc S tr ss`: every state of the set `ss` is the log-erasure of a state reached by an execution, from the initial state of
some `sys S menu N`, whose visible trace is `tr`.  `acc_step`: `stepObjF` (with ANY `n`) preserves `Acc`, appending the event.
-/
namespace TypVerif.Lemmas.ObjAccept
open TypVerif TypVerif.Conc TypVerif.Model.AtomicObj TypVerif.Lemmas.AtomicObj

variable {σ Op Res : Type}

/-! ### the judges' state transformations -/

def eraseLog (s : State σ Op Res) : State σ Op Res := { s with log := [] }

def padObj (n : Nat) (s : State σ Op Res) : State σ Op Res :=
  { s with pcs := s.pcs ++ List.replicate (n - s.pcs.length) .idle }

/-- `k` more idle goroutines -/
def padBy (k : Nat) (s : State σ Op Res) : State σ Op Res :=
  { s with pcs := s.pcs ++ List.replicate k .idle }

theorem padObj_eq_padBy (n : Nat) (s : State σ Op Res) : padObj n s = padBy (n - s.pcs.length) s := rfl

theorem padBy_init (S : Spec) (n k : Nat) : padBy k (init S n) = init S (n + k) := by
  simp [padBy, init]

theorem eraseLog_init (S : Spec) (n : Nat) : eraseLog (init S n) = init S n := rfl

theorem eraseLog_padBy (k : Nat) (s : State σ Op Res) : eraseLog (padBy k s) = padBy k (eraseLog s) := rfl

/-- `t` is `s` with `k` more idle goroutines; nothing is said about the ghost logs -/
def Sim (k : Nat) (s t : State σ Op Res) : Prop :=
  t.pcs = s.pcs ++ List.replicate k .idle ∧ t.obj = s.obj

theorem sim_zero_iff (s t : State σ Op Res) : Sim 0 s t ↔ eraseLog t = eraseLog s := by
  unfold Sim eraseLog
  constructor
  · intro h
    obtain ⟨h1, h2⟩ := h
    simp only [List.replicate_zero, List.append_nil] at h1
    rw [h1, h2]
  · intro h
    injection h with h1 h2 _
    exact ⟨by simpa using h1, h2⟩

theorem sim_padBy (k : Nat) (s : State σ Op Res) : Sim k s (padBy k s) := ⟨rfl, rfl⟩

theorem eq_padBy_of_sim {k : Nat} {s t : State σ Op Res} (h : Sim k s t) (hl : t.log = s.log) : t = padBy k s := by
  obtain ⟨h1, h2⟩ := h
  cases t
  simp only [padBy] at *
  subst h1; subst h2; subst hl
  rfl

/-! ### one step -/

theorem pc_of_sim {k : Nat} {s t : State σ Op Res} (h : Sim k s t) {u : Nat} (hu : u < s.pcs.length) :
    t.pc u = s.pc u := by
  unfold State.pc
  rw [h.1]
  simp only [List.getD_eq_getElem?_getD]
  rw [List.getElem?_append_left hu]

/-- a step of `s` is a step of every `t` that has more (idle) goroutines, a larger menu and any log; the log grows by the
same entry -/
theorem succ_sim {apply : σ → Op → List (σ × Res)} {menu menu' : List Op} (hm : ∀ op ∈ menu, op ∈ menu')
    {k : Nat} {s t : State σ Op Res} (h : Sim k s t) {l : Option (Event Op Res)} {s' : State σ Op Res}
    (hs : (l, s') ∈ succ apply menu s) :
    ∃ t', (l, t') ∈ succ apply menu' t ∧ Sim k s' t' ∧ (t.log = s.log → t'.log = s'.log) := by
  obtain ⟨u, hu, hcase⟩ := step_shape hs
  have hpc := pc_of_sim h hu
  have hu' : u < t.pcs.length := by
    rw [h.1, List.length_append]
    exact Nat.lt_of_lt_of_le hu (Nat.le_add_right _ _)
  have hset : ∀ p : TPc Op Res, t.pcs.set u p = s.pcs.set u p ++ List.replicate k .idle := by
    intro p
    rw [h.1, List.set_append_left u p hu]
  rcases hcase with ⟨op, hpcs, rfl, hop, rfl⟩ | ⟨op, o, r, hpcs, rfl, happ, rfl⟩ | ⟨op, r, hpcs, rfl, rfl⟩
  · refine ⟨⟨t.pcs.set u (.pending op), t.obj, .inv u op :: t.log⟩, ?_, ⟨hset _, h.2⟩, ?_⟩
    · refine mem_succ.2 ⟨u, hu', ?_⟩
      unfold stepT
      rw [hpc, hpcs]
      exact List.mem_map.2 ⟨op, hm op hop, rfl⟩
    · intro hl
      show Entry.inv u op :: t.log = Entry.inv u op :: s.log
      rw [hl]
  · refine ⟨⟨t.pcs.set u (.done op r), o, .lin u op r :: t.log⟩, ?_, ⟨hset _, rfl⟩, ?_⟩
    · refine mem_succ.2 ⟨u, hu', ?_⟩
      unfold stepT
      rw [hpc, hpcs, h.2]
      exact List.mem_map.2 ⟨(o, r), happ, rfl⟩
    · intro hl
      show Entry.lin u op r :: t.log = Entry.lin u op r :: s.log
      rw [hl]
  · refine ⟨⟨t.pcs.set u .idle, t.obj, .res u r :: t.log⟩, ?_, ⟨hset _, h.2⟩, ?_⟩
    · refine mem_succ.2 ⟨u, hu', ?_⟩
      unfold stepT
      rw [hpc, hpcs]
      exact List.mem_singleton.2 rfl
    · intro hl
      show Entry.res u r :: t.log = Entry.res u r :: s.log
      rw [hl]

/-! ### executions -/

/-- the master simulation: more idle goroutines, larger menu, any number of goroutines in the (irrelevant) initial state,
any ghost log -/
theorem exec_sim (S : Spec) {menu menu' : List S.Op} (hm : ∀ op ∈ menu, op ∈ menu') (n n' k : Nat)
    {a b : (sys S menu n).State} {ls : List (Option (sys S menu n).Event)}
    (he : Exec (sys S menu n) a ls b) :
    ∀ a' : State S.σ S.Op S.Res, Sim k a a' →
      ∃ b' : State S.σ S.Op S.Res, Exec (sys S menu' n') a' ls b' ∧ Sim k b b' ∧ (a'.log = a.log → b'.log = b.log) := by
  induction he with
  | nil s => intro a' h; exact ⟨a', Exec.nil _, h, id⟩
  | @cons s s1 s2 l ls hmem _ ih =>
    intro a' h
    obtain ⟨t1, hmem', hsim1, hlog1⟩ := succ_sim (menu' := menu') hm h hmem
    obtain ⟨b', hex, hsim2, hlog2⟩ := ih t1 hsim1
    exact ⟨b', Exec.cons hmem' hex, hsim2, fun hl => hlog2 (hlog1 hl)⟩

/-- **the ghost log is never read**: `eraseLog` is a bisimulation quotient of `AtomicObj.sys` — states that agree up to the
log have the same executions, ending in states that agree up to the log.  (The relation is symmetric, so this one
statement is both directions.) -/
theorem eraseLog_bisim (S : Spec) (menu : List S.Op) (n : Nat) {a a' b : State S.σ S.Op S.Res}
    {ls : List (Option (Event S.Op S.Res))} (he : Exec (sys S menu n) a ls b) (h : eraseLog a' = eraseLog a) :
    ∃ b' : State S.σ S.Op S.Res, Exec (sys S menu n) a' ls b' ∧ eraseLog b' = eraseLog b := by
  obtain ⟨b', hex, hsim, _⟩ := exec_sim S (fun _ h => h) n n 0 he a' ((sim_zero_iff _ _).2 h)
  exact ⟨b', hex, (sim_zero_iff _ _).1 hsim⟩

/-- in particular the judge may erase the log of the state it continues from -/
theorem exec_of_eraseLog (S : Spec) (menu : List S.Op) (n : Nat) {a b : State S.σ S.Op S.Res}
    {ls : List (Option (Event S.Op S.Res))} (he : Exec (sys S menu n) (eraseLog a) ls b) :
    ∃ b' : State S.σ S.Op S.Res, Exec (sys S menu n) a ls b' ∧ eraseLog b' = eraseLog b :=
  eraseLog_bisim S menu n he rfl

/-- **padding is a simulation** (lifting): an execution lifts to the states with `k` more idle goroutines -/
theorem exec_pad (S : Spec) (menu : List S.Op) (n n' k : Nat) {a b : State S.σ S.Op S.Res}
    {ls : List (Option (Event S.Op S.Res))} (he : Exec (sys S menu n) a ls b) :
    Exec (sys S menu n') (padBy k a) ls (padBy k b) := by
  obtain ⟨b', hex, hsim, hlog⟩ := exec_sim S (fun _ h => h) n n' k he (padBy k a) (sim_padBy k a)
  rw [eq_padBy_of_sim hsim (hlog rfl)] at hex
  exact hex

/-- … in particular an execution from the initial state with `n` goroutines lifts to one from the initial state with
`n + k` goroutines -/
theorem exec_pad_init (S : Spec) (menu : List S.Op) (n k : Nat) {b : State S.σ S.Op S.Res}
    {ls : List (Option (Event S.Op S.Res))} (he : Exec (sys S menu n) (init S n) ls b) :
    Exec (sys S menu (n + k)) (init S (n + k)) ls (padBy k b) := by
  have := exec_pad S menu n (n + k) k he
  rw [padBy_init] at this
  exact this

/-- **menu monotonicity** -/
theorem exec_menu_mono (S : Spec) {menu menu' : List S.Op} (hm : ∀ op ∈ menu, op ∈ menu') (n : Nat)
    {a b : State S.σ S.Op S.Res} {ls : List (Option (Event S.Op S.Res))} (he : Exec (sys S menu n) a ls b) :
    Exec (sys S menu' n) a ls b := by
  obtain ⟨b', hex, hsim, hlog⟩ := exec_sim S hm n n 0 he a ((sim_zero_iff _ _).2 rfl)
  have : b' = b := by
    have h1 := (sim_zero_iff _ _).1 hsim
    have h2 := hlog rfl
    cases b; cases b'
    simp only [eraseLog, State.mk.injEq] at h1 h2 ⊢
    exact ⟨h1.1, h1.2.1, h2⟩
  rw [this] at hex
  exact hex

/-- the `n` of `sys S menu n` matters only for the initial state -/
theorem exec_n_irrelevant (S : Spec) (menu : List S.Op) (n n' : Nat)
    {a b : (sys S menu n).State} {ls : List (Option (sys S menu n).Event)} (he : Exec (sys S menu n) a ls b) :
    Exec (sys S menu n') a ls b := by
  induction he with
  | nil s => exact Exec.nil _
  | cons hmem _ ih => exact Exec.cons hmem ih

/-! ### the judges' step -/

/-- the menu the judge steps an event with -/
def evMenu : Event Op Res → List Op
  | .inv _ op => [op]
  | .res _ _ => []

section Judge
variable (S : Spec) [DecidableEq S.σ] [DecidableEq S.Op] [DecidableEq S.Res]

/-- `Drv.C18.stepObj` / `Drv.ObjLin.stepObj` with the closure fuel as a parameter -/
def stepObjF (fuel n : Nat) (ss : List (State S.σ S.Op S.Res)) (e : Event S.Op S.Res) :
    List (State S.σ S.Op S.Res) :=
  let menu : List S.Op := match e with | .inv _ op => [op] | _ => []
  let ss' : List (State S.σ S.Op S.Res) := Conc.stepEvent (sys S menu n) fuel (ss.map (padObj n)) e
  Conc.dedup (ss'.map eraseLog)

theorem stepObjF_eq (fuel n : Nat) (ss : List (State S.σ S.Op S.Res)) (e : Event S.Op S.Res) :
    stepObjF S fuel n ss e =
      Conc.dedup ((Conc.stepEvent (sys S (evMenu e) n) fuel (ss.map (padObj n)) e).map eraseLog) := by
  cases e <;> rfl

/-- every state in `stepObj S n ss e` is `eraseLog` of a state reached from the padding of some state of `ss` by an
execution with visible trace `[e]` -/
theorem stepObj_sound (fuel n : Nat) (ss : List (State S.σ S.Op S.Res)) (e : Event S.Op S.Res) :
    ∀ s' ∈ stepObjF S fuel n ss e, ∃ s ∈ ss, ∃ (ls : List (Option (Event S.Op S.Res))) (s1 : State S.σ S.Op S.Res),
      Exec (sys S (evMenu e) n) (padObj n s) ls s1 ∧ visible ls = [e] ∧ s' = eraseLog s1 := by
  intro s' h
  rw [stepObjF_eq] at h
  obtain ⟨s1, hs1, rfl⟩ := List.mem_map.1 (mem_of_mem_dedup h)
  obtain ⟨s0, hs0, ls, hex, hv⟩ := stepEvent_sound (sys S (evMenu e) n) fuel _ e s1 hs1
  obtain ⟨s, hs, rfl⟩ := List.mem_map.1 hs0
  exact ⟨s, hs, ls, s1, hex, hv, rfl⟩

/-- every state of `ss` is the log-erasure of a state reached, with visible trace `tr`, from the initial state of some
`sys S menu N` -/
def Acc (tr : List (Event S.Op S.Res)) (ss : List (State S.σ S.Op S.Res)) : Prop :=
  ∀ s ∈ ss, ∃ (N : Nat) (menu : List S.Op) (ls : List (Option (Event S.Op S.Res))) (s0 : State S.σ S.Op S.Res),
    Exec (sys S menu N) (init S N) ls s0 ∧ visible ls = tr ∧ eraseLog s0 = s

omit [DecidableEq S.σ] [DecidableEq S.Op] [DecidableEq S.Res] in
theorem acc_init (n : Nat) : Acc S [] [init S n] := by
  intro s hs
  rw [List.mem_singleton.1 hs]
  exact ⟨n, [], [], init S n, Exec.nil _, rfl, rfl⟩

omit [DecidableEq S.σ] [DecidableEq S.Op] [DecidableEq S.Res] in
theorem acc_nil (tr : List (Event S.Op S.Res)) : Acc S tr [] := by
  intro s hs
  cases hs

/-- one step of the judge (with any number of goroutines `n`, any fuel) -/
theorem acc_step (fuel n : Nat) {tr : List (Event S.Op S.Res)} {ss : List (State S.σ S.Op S.Res)}
    (h : Acc S tr ss) (e : Event S.Op S.Res) : Acc S (tr ++ [e]) (stepObjF S fuel n ss e) := by
  intro s' hs'
  obtain ⟨s, hs, ls1, s1, hex1, hv1, rfl⟩ := stepObj_sound S fuel n ss e s' hs'
  obtain ⟨N, menu, ls0, s0, hex0, hv0, herase⟩ := h s hs
  -- the number of goroutines added by the padding
  let k := n - s.pcs.length
  -- the execution so far, lifted to `N + k` goroutines and to the larger menu
  have hex0' : Exec (sys S (menu ++ evMenu e) (N + k)) (init S (N + k)) ls0 (padBy k s0) :=
    exec_menu_mono S (fun op h => List.mem_append_left _ h) (N + k) (exec_pad_init S menu N k hex0)
  -- the judge's execution for this event, replayed from the real (log-carrying) state
  have hsim : Sim 0 (padObj n s) (padBy k s0) := by
    rw [sim_zero_iff, padObj_eq_padBy, eraseLog_padBy, eraseLog_padBy, herase]
    subst herase
    rfl
  obtain ⟨b', hex1', hsim', _⟩ :=
    exec_sim S (menu' := menu ++ evMenu e) (fun op h => List.mem_append_right _ h) n (N + k) 0 hex1 _ hsim
  refine ⟨N + k, menu ++ evMenu e, ls0 ++ ls1, b', Exec.append hex0' hex1', ?_, (sim_zero_iff _ _).1 hsim'⟩
  rw [visible_append, hv0, hv1]

omit [DecidableEq S.σ] [DecidableEq S.Op] [DecidableEq S.Res] in
theorem acc_nonempty {tr : List (Event S.Op S.Res)} {ss : List (State S.σ S.Op S.Res)} (h : Acc S tr ss)
    (hne : ss ≠ []) :
    ∃ (N : Nat) (menu : List S.Op) (ls : List (Option (Event S.Op S.Res))) (s : State S.σ S.Op S.Res),
      Exec (sys S menu N) (sys S menu N).init ls s ∧ visible ls = tr := by
  cases ss with
  | nil => exact absurd rfl hne
  | cons s rest =>
    obtain ⟨N, menu, ls, s0, hex, hv, _⟩ := h s List.mem_cons_self
    exact ⟨N, menu, ls, s0, hex, hv⟩

omit [DecidableEq S.σ] in
/-- … hence (with `Lemmas.AtomicObj.linearizable`) the history read so far is linearizable -/
theorem acc_linearizable {tr : List (Event S.Op S.Res)} {ss : List (State S.σ S.Op S.Res)} (h : Acc S tr ss)
    (hne : ss ≠ []) : Linearizable S tr := by
  obtain ⟨N, menu, ls, s, hex, hv⟩ := acc_nonempty S h hne
  rw [← hv]
  exact Lemmas.AtomicObj.linearizable S menu N hex

/-- the judges' fold: `nf` computes the number of goroutines used for an event from the previous one and the event
(`Drv.C18.step`: `if t + 1 > n then t + 1 else n`; `Drv.ObjLin.stepMap`: `max n (t + 1)` at `inv`, `n` at `res`) -/
def foldObj (fuel : Nat) (nf : Nat → Event S.Op S.Res → Nat) (j : Nat × List (State S.σ S.Op S.Res))
    (tr : List (Event S.Op S.Res)) : Nat × List (State S.σ S.Op S.Res) :=
  tr.foldl (fun j e => (nf j.1 e, stepObjF S fuel (nf j.1 e) j.2 e)) j

theorem foldObj_acc (fuel : Nat) (nf : Nat → Event S.Op S.Res → Nat) (tr : List (Event S.Op S.Res)) :
    ∀ (tr0 : List (Event S.Op S.Res)) (j : Nat × List (State S.σ S.Op S.Res)),
      Acc S tr0 j.2 → Acc S (tr0 ++ tr) (foldObj S fuel nf j tr).2 := by
  induction tr with
  | nil => intro tr0 j h; simpa [foldObj] using h
  | cons e tr ih =>
    intro tr0 j h
    have := ih (tr0 ++ [e]) (nf j.1 e, stepObjF S fuel (nf j.1 e) j.2 e) (acc_step S fuel _ h e)
    simpa [foldObj] using this

/-- if folding `stepObj` over the events `tr`, with the judge's growing number of goroutines, from the initial state set
leaves a non-empty set, `tr` is the visible trace of an execution of some `AtomicObj.sys S menu N` from its initial state -/
theorem fold_stepObj_sound (fuel : Nat) (nf : Nat → Event S.Op S.Res → Nat) (n0 : Nat) (tr : List (Event S.Op S.Res))
    (hne : (foldObj S fuel nf (n0, [init S n0]) tr).2 ≠ []) :
    ∃ (N : Nat) (menu : List S.Op) (ls : List (Option (Event S.Op S.Res))) (s : State S.σ S.Op S.Res),
      Exec (sys S menu N) (sys S menu N).init ls s ∧ visible ls = tr := by
  have := foldObj_acc S fuel nf tr [] (n0, [init S n0]) (acc_init S n0)
  rw [List.nil_append] at this
  exact acc_nonempty S this hne

theorem fold_stepObj_linearizable (fuel : Nat) (nf : Nat → Event S.Op S.Res → Nat) (n0 : Nat)
    (tr : List (Event S.Op S.Res)) (hne : (foldObj S fuel nf (n0, [init S n0]) tr).2 ≠ []) :
    Linearizable S tr := by
  obtain ⟨N, menu, ls, s, hex, hv⟩ := fold_stepObj_sound S fuel nf n0 tr hne
  rw [← hv]
  exact Lemmas.AtomicObj.linearizable S menu N hex

end Judge

end TypVerif.Lemmas.ObjAccept

#print axioms TypVerif.Lemmas.ObjAccept.eraseLog_bisim
#print axioms TypVerif.Lemmas.ObjAccept.exec_pad
#print axioms TypVerif.Lemmas.ObjAccept.exec_menu_mono
#print axioms TypVerif.Lemmas.ObjAccept.stepObj_sound
#print axioms TypVerif.Lemmas.ObjAccept.acc_step
#print axioms TypVerif.Lemmas.ObjAccept.fold_stepObj_sound
#print axioms TypVerif.Lemmas.ObjAccept.fold_stepObj_linearizable
