import TypVerif.Lemmas.PubSubLogCall
/-
PubSync / PubSliceSync: the order invariant.  From the snapshot on, task `i` is the loop of the call (or has
returned); `keys = pre ++ (keys of the items still to do)`; the entries of `p` in `delivered` and in `timedOut`
are sublists of `pre` (so they appear in publication order) and together they are exactly `pre` (as multisets);
no other task holds an item of `p`.  No reachability / clone hypothesis is needed.
-/
namespace TypVerif.Lemmas.PubSubLog
open TypVerif TypVerif.Model.PubSub TypVerif.Lemmas.PubSubSafe

/-- entries of publisher `p` in `delivered` / `timedOut`, in log order -/
def dP (p : Nat) (s : State) : List Key := s.delivered.filter (fun k => k.1 == p)
def tP (p : Nat) (s : State) : List Key := s.timedOut.filter (fun k => k.1 == p)

/-- the shapes task `i` of a PubSync call of `p` on `o` goes through after the snapshot -/
def callTask (p o : Nat) : Task → Bool
  | .syncLoop p' o' _ _ => p' == p && o' == o
  | .pubRet p' => p' == p
  | t => isCtl t

theorem pend_syncNext (p o : Nat) (w : List Item) : pend (syncNext p o w) = w := by
  cases w <;> rfl

theorem pend_ctl {t : Task} (h : isCtl t = true) : pend t = [] := by
  cases t <;> first | rfl | simp [isCtl] at h

/-- a transition of a task that holds no item of `p` (and is not the snapshot of `p`) creates no item of `p`
and logs no entry of `p` -/
theorem tstep_other {cfg : Cfg} {s : State} {t t' : Task} {new : List Task} {dl tl : List Key}
    (h : TStep cfg s t t' new dl tl) (p : Nat) (hq : isPubStart p t = false) (hp : ∀ it ∈ pend t, it.pid ≠ p) :
    (∀ it ∈ pend t', it.pid ≠ p) ∧ (∀ x ∈ new, ∀ it ∈ pend x, it.pid ≠ p) ∧
    (∀ k ∈ dl, k.1 ≠ p) ∧ (∀ k ∈ tl, k.1 ≠ p) := by
  have hnil : ∀ (P : Task → Prop), ∀ x ∈ ([] : List Task), P x := fun _ _ hx => by cases hx
  have hnk : ∀ k ∈ ([] : List Key), k.1 ≠ p := fun _ hk => by cases hk
  have hni : ∀ it ∈ ([] : List Item), it.pid ≠ p := fun _ hk => by cases hk
  cases h with
  | stuck _ hn => exact ⟨hp, hnil _, hnk, hnk⟩
  | ctl h1 h2 => rw [pend_ctl h2]; exact ⟨hni, hnil _, hnk, hnk⟩
  | ret p' => exact ⟨hni, hnil _, hnk, hnk⟩
  | waitRet p' o w hz => exact ⟨hni, hnil _, hnk, hnk⟩
  | pubSync p' o v evs hv =>
    have hne : p' ≠ p := by simpa [isPubStart] using hq
    rw [pend_syncNext]
    exact ⟨fun it hit => by rw [mkItems_pid hit]; exact hne, hnil _, hnk, hnk⟩
  | pubWait p' o v evs hv hw =>
    have hne : p' ≠ p := by simpa [isPubStart] using hq
    refine ⟨hni, ?_, hnk, hnk⟩
    intro x hx it hit
    simp only [List.mem_map] at hx; obtain ⟨it', hit', rfl⟩ := hx
    simp only [pend, Bool.false_eq_true, if_false, List.mem_singleton] at hit
    subst hit; rw [mkItems_pid hit']; exact hne
  | pubAsync p' o v evs hv hw =>
    have hne : p' ≠ p := by simpa [isPubStart] using hq
    refine ⟨hni, ?_, hnk, hnk⟩
    intro x hx it hit
    simp only [List.mem_map] at hx; obtain ⟨it', hit', rfl⟩ := hx
    simp only [pend, List.mem_singleton] at hit
    subst hit; rw [mkItems_pid hit']; exact hne
  | syncCb p' o it rest =>
    rw [pend_syncNext]
    exact ⟨fun x hx => hp x (by simpa [pend] using hx), hnil _, hnk, hnk⟩
  | syncSent p' o it rest =>
    rw [pend_syncNext]
    refine ⟨fun x hx => hp x (by simp [pend, hx]), hnil _, ?_, hnk⟩
    intro k hk
    simp only [List.mem_singleton] at hk; subst hk
    exact hp it (by simp [pend])
  | syncTmo p' o it rest htm =>
    refine ⟨fun x hx => hp x (by simp only [pend] at hx ⊢; simp at hx ⊢; exact Or.inr hx), hnil _, hnk, ?_⟩
    intro k hk
    simp only [List.mem_singleton] at hk; subst hk
    exact hp it (by simp [pend])
  | asyncGo o it hm => exact ⟨fun x hx => hp x (by simpa [pend] using hx), hnil _, hnk, hnk⟩
  | asyncDrop o it hm => exact ⟨hni, hnil _, hnk, hnk⟩
  | asyncCb o it => exact ⟨hni, hnil _, hnk, hnk⟩
  | asyncSent o it =>
    refine ⟨hni, hnil _, ?_, hnk⟩
    intro k hk
    simp only [List.mem_singleton] at hk; subst hk
    exact hp it (by simp [pend])
  | asyncTmo o it htm =>
    refine ⟨fun _ h => by simp [pend] at h, hnil _, hnk, ?_⟩
    intro k hk
    simp only [List.mem_singleton] at hk; subst hk
    exact hp it (by simp [pend])
  | wgCb o w it => exact ⟨hni, hnil _, hnk, hnk⟩
  | wgSent o w it =>
    refine ⟨hni, hnil _, ?_, hnk⟩
    intro k hk
    simp only [List.mem_singleton] at hk; subst hk
    exact hp it (by simp [pend])
  | wgTmo o w it htm =>
    refine ⟨fun _ h => by simp [pend] at h, hnil _, hnk, ?_⟩
    intro k hk
    simp only [List.mem_singleton] at hk; subst hk
    exact hp it (by simp [pend])

/-- a transition of the call's own task: it spawns nothing, keeps its shape, and moves at most its head item into
exactly one of the two logs -/
theorem tstep_mine {cfg : Cfg} {s : State} {t t' : Task} {new : List Task} {dl tl : List Key} {p o : Nat}
    (h : TStep cfg s t t' new dl tl) (hc : callTask p o t = true) :
    new = [] ∧ callTask p o t' = true ∧ ∃ moved : List Key, pk t = moved ++ pk t' ∧
      ((dl = moved ∧ tl = []) ∨ (dl = [] ∧ tl = moved ∧ (moved ≠ [] → cfg.timeout > 0))) := by
  cases h with
  | stuck _ hn => exact ⟨rfl, hc, [], rfl, Or.inl ⟨rfl, rfl⟩⟩
  | ctl h1 h2 =>
    refine ⟨rfl, ?_, [], ?_, Or.inl ⟨rfl, rfl⟩⟩
    · cases t' <;> simp [isCtl] at h2 <;> rfl
    · simp [pk, pend_ctl h1, pend_ctl h2]
  | ret p' => exact ⟨rfl, rfl, [], rfl, Or.inl ⟨rfl, rfl⟩⟩
  | syncCb p' o' it rest =>
    simp only [callTask, Bool.and_eq_true, beq_iff_eq] at hc
    obtain ⟨rfl, rfl⟩ := hc
    refine ⟨rfl, ?_, [], ?_, Or.inl ⟨rfl, rfl⟩⟩
    · cases rest <;> simp [syncNext, callTask]
    · rw [pk_syncNext]; simp [pk, pend]
  | syncSent p' o' it rest =>
    simp only [callTask, Bool.and_eq_true, beq_iff_eq] at hc
    obtain ⟨rfl, rfl⟩ := hc
    refine ⟨rfl, ?_, [key it], ?_, Or.inl ⟨rfl, rfl⟩⟩
    · cases rest <;> simp [syncNext, callTask]
    · rw [pk_syncNext]; simp [pk, pend]
  | syncTmo p' o' it rest htm =>
    simp only [callTask, Bool.and_eq_true, beq_iff_eq] at hc
    obtain ⟨rfl, rfl⟩ := hc
    refine ⟨rfl, by simp [callTask], [key it], by simp [pk, pend], Or.inr ⟨rfl, rfl, fun _ => htm⟩⟩
  | _ => simp [callTask, isCtl] at hc

theorem getElem?_set_append_cases {α} {l new : List α} {j j' : Nat} {t' x : α}
    (h : (l.set j t' ++ new)[j']? = some x) :
    (j' = j ∧ x = t') ∨ (j' ≠ j ∧ l[j']? = some x) ∨ (x ∈ new) := by
  by_cases hlt : j' < l.length
  · rw [List.getElem?_append_left (by simpa using hlt), List.getElem?_set] at h
    by_cases hjj : j = j'
    · subst hjj
      simp [hlt] at h
      exact Or.inl ⟨rfl, h.symm⟩
    · simp [hjj] at h
      exact Or.inr (Or.inl ⟨fun h' => hjj h'.symm, h⟩)
  · rw [List.getElem?_append_right (by simpa using hlt)] at h
    exact Or.inr (Or.inr (List.mem_of_getElem? h))

theorem filter_pid_eq_nil {p : Nat} {l : List Key} (h : ∀ k ∈ l, k.1 ≠ p) : l.filter (fun k => k.1 == p) = [] := by
  rw [List.filter_eq_nil_iff]
  intro k hk hq
  exact h k hk (by simpa using hq)

theorem filter_pid_eq_self {p : Nat} {l : List Key} (h : ∀ k ∈ l, k.1 = p) : l.filter (fun k => k.1 == p) = l := by
  rw [List.filter_eq_self]
  intro k hk
  simpa using h k hk

theorem count_eq_zero_of_pid {p : Nat} {l : List Key} {k : Key} (h : ∀ k ∈ l, k.1 ≠ p) (hk : k.1 = p) :
    l.count k = 0 := by
  rw [List.count_eq_zero]; intro hm; exact h k hm hk

structure SyncInv (i p o : Nat) (keys : List Key) (s : State) : Prop where
  used : p ∈ s.pids
  started : nPS p s = 0
  others : ∀ j t, j ≠ i → s.tasks[j]? = some t → ∀ it ∈ pend t, it.pid ≠ p
  mine : ∃ t pre, s.tasks[i]? = some t ∧ callTask p o t = true ∧ keys = pre ++ pk t ∧
    (dP p s).Sublist pre ∧ (tP p s).Sublist pre ∧ (∀ k : Key, k.1 = p → cL k s = pre.count k)

theorem cL_append {s s' : State} {dl tl : List Key} (hd : s'.delivered = s.delivered ++ dl)
    (ht : s'.timedOut = s.timedOut ++ tl) (k : Key) : cL k s' = cL k s + dl.count k + tl.count k := by
  simp only [cL, logs, hd, ht, List.count_append]; omega

theorem syncInv_bstep {cfg : Cfg} {i p o : Nat} {keys : List Key} {s s' : State} (hkeys : ∀ k ∈ keys, k.1 = p)
    (hI : SyncInv i p o keys s) (h : BStep cfg s s') : SyncInv i p o keys s' := by
  obtain ⟨t, pre, hi, hct, hk, hd, hto, hcl⟩ := hI.mine
  have hlt := lt_length_of_getElem? hi
  refine ⟨bstep_pids h hI.used, bstep_nPS_zero h hI.used hI.started, ?_, ?_⟩
  · -- the other tasks
    intro j x hji hx
    cases h with
    | same h1 h2 h3 h4 => rw [h1] at hx; exact hI.others j x hji hx
    | spawnCtl t0 hc h1 h2 h3 h4 =>
      rw [h1] at hx
      by_cases hjl : j < s.tasks.length
      · rw [List.getElem?_append_left hjl] at hx; exact hI.others j x hji hx
      · rw [List.getElem?_append_right (by omega)] at hx
        have : x ∈ [t0] := List.mem_of_getElem? hx
        simp only [List.mem_singleton] at this; subst this
        rw [pend_ctl hc]; intro _ h; cases h
    | invoke p0 o0 v evs hp0 h0 h1 h2 h3 =>
      rw [h1] at hx
      by_cases hjl : j < s.tasks.length
      · rw [List.getElem?_append_left hjl] at hx; exact hI.others j x hji hx
      · rw [List.getElem?_append_right (by omega)] at hx
        have : x ∈ [Task.pubStart p0 o0 v evs] := List.mem_of_getElem? hx
        simp only [List.mem_singleton] at this; subst this
        intro _ h; cases h
    | task j0 t0 t' new dl tl hj0 hT h1 h2 h3 h4 =>
      rw [h1] at hx
      by_cases hj0i : j0 = i
      · subst hj0i
        rw [hi] at hj0; cases hj0
        obtain ⟨hnew, _, _⟩ := tstep_mine hT hct
        subst hnew
        rcases getElem?_set_append_cases hx with ⟨hjj, _⟩ | ⟨_, hx'⟩ | hx'
        · exact absurd hjj hji
        · exact hI.others j x hji hx'
        · cases hx'
      · have hq : isPubStart p t0 = false := countP_zero_getElem? hI.started hj0
        obtain ⟨a, b, _, _⟩ := tstep_other hT p hq (hI.others j0 t0 hj0i hj0)
        rcases getElem?_set_append_cases hx with ⟨_, rfl⟩ | ⟨_, hx'⟩ | hx'
        · exact a
        · exact hI.others j x hji hx'
        · exact b x hx'
  · -- the call's own task
    cases h with
    | same h1 h2 h3 h4 =>
      exact ⟨t, pre, by rw [h1]; exact hi, hct, hk, by simpa [dP, h2] using hd, by simpa [tP, h3] using hto,
        fun k hkp => by rw [← hcl k hkp]; simp [cL, logs, h2, h3]⟩
    | spawnCtl t0 hc h1 h2 h3 h4 =>
      exact ⟨t, pre, by rw [h1, List.getElem?_append_left hlt]; exact hi, hct, hk, by simpa [dP, h2] using hd,
        by simpa [tP, h3] using hto, fun k hkp => by rw [← hcl k hkp]; simp [cL, logs, h2, h3]⟩
    | invoke p0 o0 v evs hp0 h0 h1 h2 h3 =>
      exact ⟨t, pre, by rw [h1, List.getElem?_append_left hlt]; exact hi, hct, hk, by simpa [dP, h2] using hd,
        by simpa [tP, h3] using hto, fun k hkp => by rw [← hcl k hkp]; simp [cL, logs, h2, h3]⟩
    | task j0 t0 t' new dl tl hj0 hT h1 h2 h3 h4 =>
      by_cases hj0i : j0 = i
      · subst hj0i
        rw [hi] at hj0; cases hj0
        obtain ⟨hnew, hct', moved, hpk, hlog⟩ := tstep_mine hT hct
        subst hnew
        have hmk : ∀ k ∈ moved, k.1 = p := by
          intro k hkm
          apply hkeys k
          rw [hk, hpk]
          exact List.mem_append_right _ (List.mem_append_left _ hkm)
        refine ⟨t', pre ++ moved, ?_, hct', by rw [hk, hpk, List.append_assoc], ?_, ?_, ?_⟩
        · rw [h1]; simp [hlt]
        · rcases hlog with ⟨rfl, rfl⟩ | ⟨rfl, rfl, _⟩
          · simp only [dP, h2, List.filter_append]
            rw [filter_pid_eq_self hmk]
            exact List.Sublist.append hd (List.Sublist.refl _)
          · simp only [dP, h2, List.append_nil]
            exact hd.trans (List.sublist_append_left _ _)
        · rcases hlog with ⟨rfl, rfl⟩ | ⟨rfl, rfl, _⟩
          · simp only [tP, h3, List.append_nil]
            exact hto.trans (List.sublist_append_left _ _)
          · simp only [tP, h3, List.filter_append]
            rw [filter_pid_eq_self hmk]
            exact List.Sublist.append hto (List.Sublist.refl _)
        · intro k hkp
          rw [cL_append h2 h3 k, hcl k hkp, List.count_append]
          rcases hlog with ⟨rfl, rfl⟩ | ⟨rfl, rfl, _⟩ <;> simp
      · have hq : isPubStart p t0 = false := countP_zero_getElem? hI.started hj0
        obtain ⟨_, _, c, d⟩ := tstep_other hT p hq (hI.others j0 t0 hj0i hj0)
        refine ⟨t, pre, ?_, hct, hk, ?_, ?_, ?_⟩
        · rw [h1, getElem?_set_append_ne _ _ _ _ _ hj0i hlt]; exact hi
        · simp only [dP, h2, List.filter_append, filter_pid_eq_nil c, List.append_nil]; exact hd
        · simp only [tP, h3, List.filter_append, filter_pid_eq_nil d, List.append_nil]; exact hto
        · intro k hkp
          rw [cL_append h2 h3 k, hcl k hkp, count_eq_zero_of_pid c hkp, count_eq_zero_of_pid d hkp]
          rfl

/-- the snapshot step of a PubSync / PubSliceSync call establishes `SyncInv` -/
theorem Snapshot.syncInv {cfg : Cfg} {s0 s1 : State} {i p o : Nat} {v : Variant} {evs : List Int}
    (h : Snapshot cfg s0 s1 i p o v evs) (hv : v.isSync = true) :
    SyncInv i p o (callKeys p evs (s0.obj o).subs) s1 := by
  obtain ⟨a, b, c⟩ := h.counts
  obtain ⟨t', new, hT, h1, hne⟩ := h.trans
  have hlt := lt_length_of_getElem? h.at0
  -- nothing of `p` is pending or logged in `s0`
  have hz : ∀ t ∈ s0.tasks, ∀ it ∈ pend t, it.pid ≠ p := by
    intro t ht it hit hp
    have h0 := h.zero0 (key it) hp
    have : cP (key it) s0 = 0 := by omega
    rw [cP, List.count_eq_zero] at this
    apply this
    simp only [pendKeys, List.mem_flatMap]
    exact ⟨t, ht, by simp only [pk, List.mem_map]; exact ⟨it, hit, rfl⟩⟩
  have hlog0 : ∀ k ∈ logs s0, k.1 ≠ p := by
    intro k hk hp
    have h0 := h.zero0 k hp
    have : cL k s0 = 0 := by omega
    rw [cL, List.count_eq_zero] at this
    exact this hk
  have hshape : new = [] ∧ t' = syncNext p o (mkItems p evs (s0.obj o).subs) := by
    cases hT with
    | stuck _ hn => simp [isPub] at hn
    | ctl c1 c2 => simp [isCtl] at c1
    | pubSync => exact ⟨rfl, rfl⟩
    | pubWait _ _ _ _ hv' => rw [hv] at hv'; cases hv'
    | pubAsync _ _ _ _ hv' => rw [hv] at hv'; cases hv'
  obtain ⟨rfl, rfl⟩ := hshape
  refine ⟨b, a, ?_, ?_⟩
  · intro j x hji hx
    rw [h1] at hx
    rcases getElem?_set_append_cases hx with ⟨hjj, _⟩ | ⟨_, hx'⟩ | hx'
    · exact absurd hjj hji
    · exact hz x (List.mem_of_getElem? hx')
    · cases hx'
  · refine ⟨syncNext p o (mkItems p evs (s0.obj o).subs), [], by rw [h1]; simp [hlt], ?_,
      by rw [pk_syncNext]; rfl, ?_, ?_, ?_⟩
    · cases hm : mkItems p evs (s0.obj o).subs <;> simp [syncNext, callTask]
    · rw [dP, h.delivered, filter_pid_eq_nil (fun k hk => hlog0 k (List.mem_append_left _ hk))]
      exact List.Sublist.refl _
    · rw [tP, h.timedOut, filter_pid_eq_nil (fun k hk => hlog0 k (List.mem_append_right _ hk))]
      exact List.Sublist.refl _
    · intro k hk; simp [(c k hk).2]

/-- what `SyncInv` says once the call has returned (its task is `pubRet p` or finished) -/
theorem SyncInv.returned {i p o : Nat} {keys : List Key} {s : State} (hI : SyncInv i p o keys s)
    (hret : s.tasks[i]? = some (.pubRet p) ∨ s.tasks[i]? = some .done) :
    (dP p s).Sublist keys ∧ (tP p s).Sublist keys ∧ ∀ k : Key, k.1 = p → cL k s = keys.count k := by
  obtain ⟨t, pre, hi, hct, hk, hd, hto, hcl⟩ := hI.mine
  have hpk : pk t = [] := by
    rcases hret with h | h <;> (rw [hi] at h; cases h; rfl)
  rw [hpk, List.append_nil] at hk
  subst hk
  exact ⟨hd, hto, hcl⟩

/-- a sublist with the same multiset of elements is the whole list -/
theorem sublist_eq_of_count {l₁ l₂ : List Key} (h : l₁.Sublist l₂) (hc : ∀ k, l₂.count k ≤ l₁.count k) : l₁ = l₂ := by
  induction h with
  | slnil => rfl
  | cons a h ih =>
    rename_i l₁ l₂
    exfalso
    have h1 := hc a
    have h2 := h.count_le a
    simp at h1
    omega
  | cons_cons a h ih =>
    rename_i l₁ l₂
    congr 1
    apply ih
    intro k
    have := hc k
    simp only [List.count_cons] at this
    omega

end TypVerif.Lemmas.PubSubLog
