import TypVerif.Model.RelObj
import TypVerif.Lemmas.AtomicObj
/-
Linearizability of the generic *relaxed* atomic object (`Model.RelObj`): an operation either takes effect at one
step (`lin`), or returns a result that the sequential object would have given, without changing the object, at
SOME instant between invocation and response (`observe` … `resSeen`).  Every history of that system is
`Linearizable` in the sense of `Model.AtomicObj`.

Proof: a prophecy-quantified invariant.  For every choice `f` of "which pending effect-free operations are
regarded as already linearized, and with which of their seen results", there is a completed log whose visible
part is the history, whose linearization part is a legal sequential run ending in the current object, and in
which every goroutine's protocol automaton is in the state that `f` prescribes.
-/
namespace TypVerif.Lemmas.RelObj
open TypVerif TypVerif.Model.AtomicObj TypVerif.Model.RelObj
open TypVerif.Lemmas.AtomicObj (runThread_cons_self runThread_cons_other histOf_inv histOf_res histOf_lin
  linsOf_inv linsOf_res linsOf_lin)

variable {Op Res : Type}

/-- the protocol state a goroutine with relaxed pc `p` must have in the completed log, given the prophecy `o` -/
def expPc : RPc Op Res → Option Res → TPc Op Res
  | .idle, _ => .idle
  | .done op r, _ => .done op r
  | .pending op _, none => .pending op
  | .pending op _, some r => .done op r

def expected (pcs : Nat → RPc Op Res) (f : Nat → Option Res) (t : Nat) : TPc Op Res := expPc (pcs t) (f t)

/-- `expected` in the form of the design note -/
theorem expected_eq (pcs : Nat → RPc Op Res) (f : Nat → Option Res) (t : Nat) :
    expected pcs f t =
      (match pcs t with
       | .idle => TPc.idle
       | .done op r => TPc.done op r
       | .pending op _ => match f t with | none => TPc.pending op | some r => TPc.done op r) := by
  unfold expected
  cases pcs t with
  | idle => rfl
  | done op r => rfl
  | pending op seen => cases f t <;> rfl

/-- a prophecy may only pick results that have been seen by a still-pending operation -/
def Valid (pcs : Nat → RPc Op Res) (f : Nat → Option Res) : Prop :=
  ∀ t r, f t = some r → ∃ op seen, pcs t = .pending op seen ∧ r ∈ seen

/-- the invariant -/
def Inv (S : Spec) [DecidableEq S.Op] [DecidableEq S.Res] (s : RState S.σ S.Op S.Res) : Prop :=
  ∀ f : Nat → Option S.Res, Valid s.pcs f →
    ∃ log : List (Entry S.Op S.Res),
      histOf log = s.hist ∧ SeqRun S (linsOf log) s.obj ∧ ∀ t, runThread t log = some (expected s.pcs f t)

theorem valid_pre {pcs : Nat → RPc Op Res} {t : Nat} {p : RPc Op Res} {f' f : Nat → Option Res}
    (hv : Valid (update pcs t p) f') (hoth : ∀ t', t' ≠ t → f t' = f' t')
    (ht : ∀ r, f t = some r → ∃ op seen, pcs t = .pending op seen ∧ r ∈ seen) : Valid pcs f := by
  intro t' r hr
  by_cases h : t' = t
  · subst h; exact ht r hr
  · rw [hoth t' h] at hr
    obtain ⟨op, seen, h1, h2⟩ := hv t' r hr
    rw [update_other _ _ _ h] at h1
    exact ⟨op, seen, h1, h2⟩

theorem expected_other {pcs : Nat → RPc Op Res} {t : Nat} {p : RPc Op Res} {f' f : Nat → Option Res}
    {t' : Nat} (h : t' ≠ t) (hf : f t' = f' t') : expected (update pcs t p) f' t' = expected pcs f t' := by
  unfold expected
  rw [update_other _ _ _ h, hf]

theorem expected_same {pcs : Nat → RPc Op Res} {t : Nat} {p : RPc Op Res} {f' : Nat → Option Res} :
    expected (update pcs t p) f' t = expPc p (f' t) := by
  unfold expected
  rw [update_same]

variable [DecidableEq Op] [DecidableEq Res]

/-- extend a completed log by one entry of goroutine `t` -/
theorem runThread_extend {log : List (Entry Op Res)} {g g' : Nat → TPc Op Res}
    (e : Entry Op Res) (t : Nat) (he : e.tid = t)
    (h : ∀ t', runThread t' log = some (g t'))
    (hadv : advance (g t) e = some (g' t))
    (hoth : ∀ t', t' ≠ t → g' t' = g t') :
    ∀ t', runThread t' (e :: log) = some (g' t') := by
  intro t'
  by_cases ht : t' = t
  · subst ht
    rw [runThread_cons_self _ _ _ _ (h t') he, hadv]
  · have hne : e.tid ≠ t' := by rw [he]; exact fun x => ht x.symm
    rw [runThread_cons_other _ _ _ _ (h t') hne, hoth t' ht]

/-- keep the log, change the prophecy -/
theorem runThread_same {log : List (Entry Op Res)} {g g' : Nat → TPc Op Res}
    (h : ∀ t', runThread t' log = some (g t')) (heq : ∀ t', g' t' = g t') :
    ∀ t', runThread t' log = some (g' t') := by
  intro t'; rw [h t', heq t']

theorem inv_init (S : Spec) [DecidableEq S.Op] [DecidableEq S.Res] : Inv S (RState.init S) := by
  intro f _
  exact ⟨[], rfl, SeqRun.nil, fun _ => rfl⟩

theorem inv_step (S : Spec) [DecidableEq S.Op] [DecidableEq S.Res] {s s' : RState S.σ S.Op S.Res}
    (hI : Inv S s) (hs : RStep S s s') : Inv S s' := by
  cases hs with
  | inv t op hpc =>
    intro f' hv
    have hv : Valid (update s.pcs t (.pending op [])) f' := hv
    have hft : f' t = none := by
      cases hx : f' t with
      | none => rfl
      | some r =>
        obtain ⟨op', seen', h1, h2⟩ := hv t r hx
        rw [update_same] at h1
        injection h1 with _ hseen
        subst hseen
        simp at h2
    have hvs : Valid s.pcs f' := valid_pre hv (fun _ _ => rfl) (fun r hr => by rw [hft] at hr; cases hr)
    obtain ⟨log, hh, hseq, hthr⟩ := hI f' hvs
    refine ⟨Entry.inv t op :: log, ?_, ?_, ?_⟩
    · show histOf (Entry.inv t op :: log) = s.hist ++ [Event.inv t op]
      rw [histOf_inv, hh]
    · show SeqRun S (linsOf (Entry.inv t op :: log)) s.obj
      rw [linsOf_inv]; exact hseq
    · show ∀ t', runThread t' (Entry.inv t op :: log)
          = some (expected (update s.pcs t (.pending op [])) f' t')
      refine runThread_extend _ t rfl hthr ?_ (fun t' h => expected_other h rfl)
      rw [expected_same, hft]
      unfold expected
      rw [hpc]
      rfl
  | lin t op seen σ' r hpc happ =>
    intro f' hv
    have hv : Valid (update s.pcs t (.done op r)) f' := hv
    have hft : f' t = none := by
      cases hx : f' t with
      | none => rfl
      | some r0 =>
        obtain ⟨op', seen', h1, _⟩ := hv t r0 hx
        rw [update_same] at h1
        cases h1
    have hvs : Valid s.pcs f' := valid_pre hv (fun _ _ => rfl) (fun r hr => by rw [hft] at hr; cases hr)
    obtain ⟨log, hh, hseq, hthr⟩ := hI f' hvs
    refine ⟨Entry.lin t op r :: log, ?_, ?_, ?_⟩
    · show histOf (Entry.lin t op r :: log) = s.hist
      rw [histOf_lin, hh]
    · show SeqRun S (linsOf (Entry.lin t op r :: log)) σ'
      rw [linsOf_lin]; exact SeqRun.cons hseq happ
    · show ∀ t', runThread t' (Entry.lin t op r :: log)
          = some (expected (update s.pcs t (.done op r)) f' t')
      refine runThread_extend _ t rfl hthr ?_ (fun t' h => expected_other h rfl)
      rw [expected_same]
      unfold expected
      rw [hpc, hft]
      simp [expPc, advance]
  | observe t op seen r hpc happ =>
    intro f' hv
    have hv : Valid (update s.pcs t (.pending op (r :: seen))) f' := hv
    show ∃ log, histOf log = s.hist ∧ SeqRun S (linsOf log) s.obj ∧
      ∀ t', runThread t' log = some (expected (update s.pcs t (.pending op (r :: seen))) f' t')
    cases hx : f' t with
    | none =>
      have hvs : Valid s.pcs f' := valid_pre hv (fun _ _ => rfl) (fun r hr => by rw [hx] at hr; cases hr)
      obtain ⟨log, hh, hseq, hthr⟩ := hI f' hvs
      refine ⟨log, hh, hseq, runThread_same hthr ?_⟩
      intro t'
      by_cases h : t' = t
      · subst h
        rw [expected_same, hx]
        unfold expected
        rw [hpc, hx]
        rfl
      · exact expected_other h rfl
    | some r' =>
      obtain ⟨op', seen', h1, h2⟩ := hv t r' hx
      rw [update_same] at h1
      injection h1 with hop hseen
      subst hop
      subst hseen
      rcases List.mem_cons.mp h2 with hr | hr
      · -- the freshly observed result: linearize `t` now (effect-free)
        subst hr
        have hvs : Valid s.pcs (update f' t none) :=
          valid_pre hv (fun t' h => update_other _ _ _ h) (fun r0 hr0 => by rw [update_same] at hr0; cases hr0)
        obtain ⟨log, hh, hseq, hthr⟩ := hI _ hvs
        refine ⟨Entry.lin t op r' :: log, ?_, ?_, ?_⟩
        · rw [histOf_lin, hh]
        · rw [linsOf_lin]; exact SeqRun.cons hseq happ
        · refine runThread_extend _ t rfl hthr ?_ (fun t' h => expected_other h (update_other _ _ _ h))
          rw [expected_same, hx]
          unfold expected
          rw [hpc, update_same]
          simp [expPc, advance]
      · -- a result seen earlier: the prophecy was already valid
        have hvs : Valid s.pcs f' := valid_pre hv (fun _ _ => rfl) (fun r0 hr0 => by
          rw [hx] at hr0
          injection hr0 with hr0
          subst hr0
          exact ⟨op, seen, hpc, hr⟩)
        obtain ⟨log, hh, hseq, hthr⟩ := hI f' hvs
        refine ⟨log, hh, hseq, runThread_same hthr ?_⟩
        intro t'
        by_cases h : t' = t
        · subst h
          rw [expected_same, hx]
          unfold expected
          rw [hpc, hx]
          rfl
        · exact expected_other h rfl
  | resDone t op r hpc =>
    intro f' hv
    have hv : Valid (update s.pcs t .idle) f' := hv
    have hft : f' t = none := by
      cases hx : f' t with
      | none => rfl
      | some r0 =>
        obtain ⟨op', seen', h1, _⟩ := hv t r0 hx
        rw [update_same] at h1
        cases h1
    have hvs : Valid s.pcs f' := valid_pre hv (fun _ _ => rfl) (fun r hr => by rw [hft] at hr; cases hr)
    obtain ⟨log, hh, hseq, hthr⟩ := hI f' hvs
    refine ⟨Entry.res t r :: log, ?_, ?_, ?_⟩
    · show histOf (Entry.res t r :: log) = s.hist ++ [Event.res t r]
      rw [histOf_res, hh]
    · show SeqRun S (linsOf (Entry.res t r :: log)) s.obj
      rw [linsOf_res]; exact hseq
    · show ∀ t', runThread t' (Entry.res t r :: log) = some (expected (update s.pcs t .idle) f' t')
      refine runThread_extend _ t rfl hthr ?_ (fun t' h => expected_other h rfl)
      rw [expected_same]
      unfold expected
      rw [hpc]
      simp [expPc, advance]
  | resSeen t op seen r hpc hmem =>
    intro f' hv
    have hv : Valid (update s.pcs t .idle) f' := hv
    have hvs : Valid s.pcs (update f' t (some r)) :=
      valid_pre hv (fun t' h => update_other _ _ _ h) (fun r0 hr0 => by
        rw [update_same] at hr0
        injection hr0 with hr0
        subst hr0
        exact ⟨op, seen, hpc, hmem⟩)
    obtain ⟨log, hh, hseq, hthr⟩ := hI _ hvs
    refine ⟨Entry.res t r :: log, ?_, ?_, ?_⟩
    · show histOf (Entry.res t r :: log) = s.hist ++ [Event.res t r]
      rw [histOf_res, hh]
    · show SeqRun S (linsOf (Entry.res t r :: log)) s.obj
      rw [linsOf_res]; exact hseq
    · show ∀ t', runThread t' (Entry.res t r :: log) = some (expected (update s.pcs t .idle) f' t')
      refine runThread_extend _ t rfl hthr ?_ (fun t' h => expected_other h (update_other _ _ _ h))
      rw [expected_same]
      unfold expected
      rw [hpc, update_same]
      simp [expPc, advance]

theorem inv_reach (S : Spec) [DecidableEq S.Op] [DecidableEq S.Res] {s : RState S.σ S.Op S.Res}
    (h : RReach S s) : Inv S s := by
  induction h with
  | init => exact inv_init S
  | step _ hs ih => exact inv_step S ih hs

/-- `RStar` preserves the invariant -/
theorem inv_star (S : Spec) [DecidableEq S.Op] [DecidableEq S.Res] {s s' : RState S.σ S.Op S.Res}
    (hI : Inv S s) (h : RStar S s s') : Inv S s' := by
  induction h with
  | refl => exact hI
  | tail _ hs ih => exact inv_step S ih hs

theorem rreach_star {S : Spec} {s s' : RState S.σ S.Op S.Res} : RReach S s → RStar S s s' → RReach S s' := by
  intro hr h
  induction h with
  | refl => exact hr
  | tail _ hs ih => exact RReach.step ih hs

theorem rstar_trans {S : Spec} {s s' s'' : RState S.σ S.Op S.Res} :
    RStar S s s' → RStar S s' s'' → RStar S s s'' := by
  intro h1 h2
  induction h2 with
  | refl => exact h1
  | tail _ hs ih => exact RStar.tail ih hs

theorem rstar_single {S : Spec} {s s' : RState S.σ S.Op S.Res} (h : RStep S s s') : RStar S s s' :=
  RStar.tail (RStar.refl s) h

/-- MAIN: every history of the relaxed object is linearizable -/
theorem linearizable (S : Spec) [DecidableEq S.Op] [DecidableEq S.Res] {s : RState S.σ S.Op S.Res}
    (h : RReach S s) : TypVerif.Model.AtomicObj.Linearizable S s.hist := by
  obtain ⟨log, hh, hseq, hthr⟩ := inv_reach S h (fun _ => none) (fun _ _ hr => by cases hr)
  refine ⟨log, hh, ⟨s.obj, hseq⟩, ?_⟩
  intro t
  rw [hthr t]
  rfl

end TypVerif.Lemmas.RelObj

/-
#print axioms TypVerif.Lemmas.RelObj.linearizable
'TypVerif.Lemmas.RelObj.linearizable' depends on axioms: [propext]
-/
