import TypVerif.Lemmas.ConcAccept
import TypVerif.Drv.C10
namespace TypVerif.Lemmas.ConcAcceptC10
open TypVerif TypVerif.Conc TypVerif.Model.PubSub TypVerif.Drv.C10

/-- prefix the ghost logs -/
def pre (d o : List (Nat × Nat × Chan)) (s : State) : State :=
  { s with delivered := d ++ s.delivered, timedOut := o ++ s.timedOut }

def preP (d o : List (Nat × Nat × Chan)) (p : Option Event × State) : Option Event × State := (p.1, pre d o p.2)

/-- split every `if`/`match` on both sides; equal branches are closed by `rfl`, crossed ones by contradiction -/
macro "psplit" : tactic =>
  `(tactic| ((repeat' split) <;> first | rfl | contradiction | (simp_all; done)))

/-! ### fields -/
section
variable (d o : List (Nat × Nat × Chan)) (s : State)

@[simp] theorem pre_objs : (pre d o s).objs = s.objs := rfl
@[simp] theorem pre_chans : (pre d o s).chans = s.chans := rfl
@[simp] theorem pre_wgs : (pre d o s).wgs = s.wgs := rfl
@[simp] theorem pre_tasks : (pre d o s).tasks = s.tasks := rfl
@[simp] theorem pre_pids : (pre d o s).pids = s.pids := rfl
@[simp] theorem pre_panicked : (pre d o s).panicked = s.panicked := rfl
@[simp] theorem pre_exited : (pre d o s).exited = s.exited := rfl
@[simp] theorem pre_obj (x : Nat) : (pre d o s).obj x = s.obj x := rfl
@[simp] theorem pre_validObj (x : Nat) : (pre d o s).validObj x = s.validObj x := rfl
@[simp] theorem pre_nameTaken (c : Chan) : nameTaken (pre d o s) c = nameTaken s c := rfl

/-- replace the fields of `pre d o s` by those of `s` everywhere (also inside `Decidable` instances) -/
macro "pnorm" : tactic =>
  `(tactic| repeat (first
      | rw [pre_wgs] | rw [pre_obj] | rw [pre_chans] | rw [pre_tasks] | rw [pre_objs]
      | rw [pre_pids] | rw [pre_panicked] | rw [pre_exited] | rw [pre_validObj] | rw [pre_nameTaken]))

theorem pre_setTask (i : Nat) (t : Task) : (pre d o s).setTask i t = pre d o (s.setTask i t) := rfl
theorem pre_setObj (i : Nat) (x : ObjSt) : (pre d o s).setObj i x = pre d o (s.setObj i x) := rfl
theorem pre_spawn (ts : List Task) : (pre d o s).spawn ts = pre d o (s.spawn ts) := rfl
theorem pre_rlock (x : Nat) : (pre d o s).rlock x = pre d o (s.rlock x) := rfl
theorem pre_runlock (x : Nat) : (pre d o s).runlock x = pre d o (s.runlock x) := rfl
theorem pre_announce (x : Nat) : (pre d o s).announce x = pre d o (s.announce x) := rfl
theorem pre_panic (m : String) : (pre d o s).panic m = pre d o (s.panic m) := rfl
theorem pre_logTimeout (it : Item) : (pre d o s).logTimeout it = pre d o (s.logTimeout it) := by
  simp [pre, State.logTimeout, List.append_assoc]
theorem pre_wgDone (w : Nat) : wgDone (pre d o s) w = pre d o (wgDone s w) := by
  unfold wgDone
  pnorm
  psplit

theorem sendTo_pre (it : Item) :
    sendTo (pre d o s) it = match sendTo s it with
      | .blocked => .blocked | .panic => .panic | .sent s' => .sent (pre d o s') := by
  unfold sendTo
  pnorm
  split
  · rfl
  · split
    · rfl
    · split
      · simp [pre, List.append_assoc]
      · split
        · simp [pre, List.append_assoc]
        · rfl

theorem stepSend_pre (cfg : Cfg) (it : Item) (cb : Bool) (fin setCb : State → State)
    (hfin : ∀ x, fin (pre d o x) = pre d o (fin x)) (hcb : ∀ x, setCb (pre d o x) = pre d o (setCb x)) :
    stepSend cfg (pre d o s) it cb fin setCb = (stepSend cfg s it cb fin setCb).map (preP d o) := by
  unfold stepSend
  split
  · simp [preP, hfin]
  · rw [sendTo_pre, List.map_append]
    congr 1
    · cases sendTo s it <;> simp [preP, hfin, pre_panic]
    · split <;> simp [preP, hcb, pre_logTimeout]

theorem stepPubStart_pre (i p ob : Nat) (v : Variant) (evs : List Int) :
    stepPubStart (pre d o s) i p ob v evs = (stepPubStart s i p ob v evs).map (preP d o) := by
  unfold stepPubStart
  pnorm
  generalize mkItems p evs (s.obj ob).subs = items
  cases items <;> psplit

theorem syncAdvance_pre (i p ob : Nat) (rest : List Item) :
    syncAdvance i p ob rest (pre d o s) = pre d o (syncAdvance i p ob rest s) := by
  cases rest <;> rfl

theorem stepSyncLoop_pre (cfg : Cfg) (i p ob : Nat) (work : List Item) (cb : Bool) :
    stepSyncLoop cfg (pre d o s) i p ob work cb = (stepSyncLoop cfg s i p ob work cb).map (preP d o) := by
  unfold stepSyncLoop
  cases work with
  | nil => rfl
  | cons it rest =>
    exact stepSend_pre d o s cfg it cb _ _ (fun x => syncAdvance_pre d o x i p ob rest) (fun _ => rfl)

theorem stepWaitWg_pre (i p ob w : Nat) :
    stepWaitWg (pre d o s) i p ob w = (stepWaitWg s i p ob w).map (preP d o) := by
  unfold stepWaitWg
  pnorm
  psplit

theorem stepAsyncStart_pre (i ob : Nat) (it : Item) :
    stepAsyncStart (pre d o s) i ob it = (stepAsyncStart s i ob it).map (preP d o) := by
  unfold stepAsyncStart
  pnorm
  psplit

theorem stepAsyncSend_pre (cfg : Cfg) (i ob : Nat) (it : Item) (cb : Bool) :
    stepAsyncSend cfg (pre d o s) i ob it cb = (stepAsyncSend cfg s i ob it cb).map (preP d o) := by
  unfold stepAsyncSend
  exact stepSend_pre d o s cfg it cb _ _ (fun _ => rfl) (fun _ => rfl)

theorem stepWgSend_pre (cfg : Cfg) (i ob w : Nat) (it : Item) (cb : Bool) :
    stepWgSend cfg (pre d o s) i ob w it cb = (stepWgSend cfg s i ob w it cb).map (preP d o) := by
  unfold stepWgSend
  exact stepSend_pre d o s cfg it cb _ _ (fun x => by simp only [pre_wgDone, pre_setTask]) (fun _ => rfl)

theorem stepSubWait_pre (i ob : Nat) (c : Chan) (cap : Nat) :
    stepSubWait (pre d o s) i ob c cap = (stepSubWait s i ob c cap).map (preP d o) := by
  unfold stepSubWait
  pnorm
  psplit

theorem stepUnsubWait_pre (i u ob : Nat) (c : Chan) :
    stepUnsubWait (pre d o s) i u ob c = (stepUnsubWait s i u ob c).map (preP d o) := by
  unfold stepUnsubWait
  pnorm
  psplit

theorem stepUaWait_pre (i u ob : Nat) :
    stepUaWait (pre d o s) i u ob = (stepUaWait s i u ob).map (preP d o) := by
  unfold stepUaWait
  pnorm
  psplit

theorem stepWoStart_pre (i w ob : Nat) (c : Chan) :
    stepWoStart (pre d o s) i w ob c = (stepWoStart s i w ob c).map (preP d o) := by
  unfold stepWoStart
  pnorm
  psplit

theorem stepTask_pre (cfg : Cfg) (i : Nat) (t : Task) :
    stepTask cfg (pre d o s) i t = (stepTask cfg s i t).map (preP d o) := by
  cases t with
  | pubStart p ob v evs => exact stepPubStart_pre d o s i p ob v evs
  | syncLoop p ob work cb => exact stepSyncLoop_pre d o s cfg i p ob work cb
  | waitWg p ob w => exact stepWaitWg_pre d o s i p ob w
  | pubRet p => rfl
  | asyncStart ob it => exact stepAsyncStart_pre d o s i ob it
  | asyncSend ob it cb => exact stepAsyncSend_pre d o s cfg i ob it cb
  | wgSend ob w it cb => exact stepWgSend_pre d o s cfg i ob w it cb
  | subStart ob c cap => rfl
  | subWait ob c cap => exact stepSubWait_pre d o s i ob c cap
  | subRet c => rfl
  | unsubStart u ob c => cases c <;> rfl
  | unsubWait u ob c => exact stepUnsubWait_pre d o s i u ob c
  | unsubRet u code => rfl
  | uaStart u ob => rfl
  | uaWait u ob => exact stepUaWait_pre d o s i u ob
  | uaRet u => rfl
  | woStart w ob c => exact stepWoStart_pre d o s i w ob c
  | done => rfl

end

theorem taskSteps_pre (cfg : Cfg) (d o) (s : State) (i : Nat) :
    taskSteps cfg (pre d o s) i = (taskSteps cfg s i).map (preP d o) := by
  unfold taskSteps
  pnorm
  split
  · rfl
  · exact stepTask_pre d o s cfg i _

theorem recvSteps_pre (d o) (s : State) (ch : ChanSt) :
    recvSteps (pre d o s) ch = (recvSteps s ch).map (preP d o) := by
  unfold recvSteps
  pnorm
  psplit

theorem envStep_pre (cfg : Cfg) (d o) (s : State) (e : Event) :
    envStep cfg (pre d o s) e = (envStep cfg s e).map (pre d o) := by
  cases e <;> unfold envStep <;> pnorm <;>
    first
      | rfl
      | psplit

theorem envSteps_pre (cfg : Cfg) (d o) (s : State) :
    envSteps cfg (pre d o s) = (envSteps cfg s).map (preP d o) := by
  unfold envSteps
  rw [List.map_filterMap]
  congr 1
  funext e
  rw [envStep_pre]
  cases envStep cfg s e <;> rfl

theorem exitSteps_pre (d o) (s : State) :
    exitSteps (pre d o s) = (exitSteps s).map (preP d o) := rfl

theorem map_flatMap' {α β γ : Type} (f : β → γ) (g : α → List β) (l : List α) :
    (l.flatMap g).map f = l.flatMap (fun a => (g a).map f) := by
  induction l with
  | nil => rfl
  | cons a l ih => simp [List.flatMap_cons, ih]

theorem succ_pre (cfg : Cfg) (d o) (s : State) : succ cfg (pre d o s) = (succ cfg s).map (preP d o) := by
  unfold succ
  pnorm
  split
  · rfl
  · split
    · rfl
    · rw [show taskSteps cfg (pre d o s) = fun a => (taskSteps cfg s a).map (preP d o) from
            funext (taskSteps_pre cfg d o s),
          show recvSteps (pre d o s) = fun a => (recvSteps s a).map (preP d o) from
            funext (recvSteps_pre d o s)]
      simp only [List.map_append, map_flatMap', envSteps_pre, exitSteps_pre]

theorem norm_pre (d o) (s : State) : norm (pre d o s) = norm s := rfl
theorem pre_norm (s : State) : pre s.delivered s.timedOut (norm s) = s := by
  cases s; simp [pre, norm]
theorem norm_norm (s : State) : norm (norm s) = norm s := rfl

/-- `norm` is a bisimulation quotient -/
theorem succ_norm_eq {cfg : Cfg} {a a' b : State} {l : Option Event} (h : norm a = norm a')
    (hs : (l, b) ∈ succ cfg a) : ∃ b', (l, b') ∈ succ cfg a' ∧ norm b' = norm b := by
  rw [← pre_norm a, succ_pre, List.mem_map] at hs
  obtain ⟨⟨l0, b0⟩, hm, heq⟩ := hs
  simp only [preP, Prod.mk.injEq] at heq
  obtain ⟨rfl, rfl⟩ := heq
  refine ⟨pre a'.delivered a'.timedOut b0, ?_, ?_⟩
  · have e := succ_pre cfg a'.delivered a'.timedOut (norm a')
    rw [pre_norm] at e
    rw [e, List.mem_map]
    refine ⟨(l0, b0), ?_, rfl⟩
    rw [← h]; exact hm
  · rw [norm_pre, norm_pre]

theorem succ_norm (cfg : Cfg) (s t : State) (l : Option Event) (h : (l, t) ∈ succ cfg (norm s)) :
    ∃ t', (l, t') ∈ succ cfg s ∧ norm t' = norm t :=
  succ_norm_eq (norm_norm s) h

theorem succ_norm_conv (cfg : Cfg) (s t : State) (l : Option Event) (h : (l, t) ∈ succ cfg s) :
    ∃ t', (l, t') ∈ succ cfg (norm s) ∧ norm t' = norm t :=
  succ_norm_eq (norm_norm s).symm h

theorem taskSteps_norm_eq {cfg : Cfg} {a a' b : State} {l : Option Event} {i : Nat} (h : norm a = norm a')
    (hs : (l, b) ∈ taskSteps cfg a i) : ∃ b', (l, b') ∈ taskSteps cfg a' i ∧ norm b' = norm b := by
  rw [← pre_norm a, taskSteps_pre, List.mem_map] at hs
  obtain ⟨⟨l0, b0⟩, hm, heq⟩ := hs
  simp only [preP, Prod.mk.injEq] at heq
  obtain ⟨rfl, rfl⟩ := heq
  refine ⟨pre a'.delivered a'.timedOut b0, ?_, ?_⟩
  · have e := taskSteps_pre cfg a'.delivered a'.timedOut (norm a') i
    rw [pre_norm] at e
    rw [e, List.mem_map]
    refine ⟨(l0, b0), ?_, rfl⟩
    rw [← h]; exact hm
  · rw [norm_pre, norm_pre]

theorem exec_norm_eq {cfg : Cfg} {a a' b : State} {ls : List (Option Event)} (h : norm a = norm a')
    (hex : Exec (sys cfg) a ls b) : ∃ b', Exec (sys cfg) a' ls b' ∧ norm b' = norm b := by
  have key := Exec.rel_induct (sys' := sys cfg)
    (fun (a : State) (ls : List (Option Event)) (b : State) =>
      ∀ a' : State, norm a = norm a' → ∃ b' : State, Exec (sys cfg) a' ls b' ∧ norm b' = norm b) ?_ ?_ hex
  · exact key a' h
  · intro s a' h
    exact ⟨a', Exec.nil _, h.symm⟩
  · intro s l s' ls s'' hm ih a' h
    obtain ⟨m', hm', hn'⟩ := succ_norm_eq (cfg := cfg) h hm
    obtain ⟨b', hex', hb'⟩ := ih m' hn'.symm
    exact ⟨b', Exec.cons hm' hex', hb'⟩

#print axioms taskSteps_pre
#print axioms succ_pre
#print axioms norm_pre
#print axioms pre_norm
#print axioms norm_norm
#print axioms succ_norm_eq
#print axioms succ_norm
#print axioms succ_norm_conv
#print axioms taskSteps_norm_eq
#print axioms exec_norm_eq

end TypVerif.Lemmas.ConcAcceptC10
