import TypVerif.Model.SyncMapConc
/-
C04, the label-level control-flow graph of the step-level model of `sync2.Map` (`Model/SyncMapConc.lean`).

* `Pc.kind`            the operation a program counter belongs to.
* `modelFlow`          the graph, written out: (operation, hook label a, hook label b) = "in a call of that operation the model
                       can go, in one step (`exec`) or one choice of a loop head (`picks`), from a program counter labelled a to
                       one labelled b".
* `flow_sound`, `flow_sound_picks`   the model has no other label successions (all `K`, `V`, shared states, program counters).
* `flowWitnesses`, `realised`, `flow_complete`   every edge of `modelFlow` is realised by a step / a pick of the model
                       (`K = V = Nat`), by computation over an explicit list of (shared state, program counter) pairs.
* `staticOnly`, `expectedGen`, `tie_of_eq`   what the statically extracted graph (`Gen/MapFlow.lean`) has to look like.

What this is about: control flow between hook labels, per operation, over ALL paths.  What it is not about: data, and the
conditions under which an edge is taken (that is the dynamic tie: real step traces replayed in the model, judge `C04conc`).
-/
namespace TypVerif.Model.SyncMapConc

def NewCtx.kind : NewCtx → String
  | .store => "store"
  | .los => "loadorstore"

/-- `LoadAndDelete` (`d = false`) / `Delete` (`d = true`) -/
def ladKind : Bool → String
  | true => "delete"
  | false => "loadanddelete"

def Op.kind {K V : Type} : Op K V → String
  | .load _ => "load"
  | .store _ _ => "store"
  | .loadOrStore _ _ => "loadorstore"
  | .loadAndDelete _ => "loadanddelete"
  | .delete _ => "delete"
  | .range => "range"

/-- the operation (name as in the hook `op:<name>`) a program counter belongs to; `""` for `idle` and for `ret _` (a
returned call: no operation — an edge INTO `ret` is attributed to the operation of its source).  The program counters of
the new-key tail (`dirtyLocked` and the `X.readStore1` after it) are shared between `Store` and `LoadOrStore` through
their `NewCtx`, those of `LoadAndDelete`/`Delete` through their `Bool`; `LosCtx` only distinguishes call sites inside
`LoadOrStore`. -/
def Pc.kind {K V : Type} : Pc K V → String
  | .idle => ""
  | .ret _ => ""
  | .start op => op.kind
  | .loadRead1 _ => "load"
  | .loadLock _ => "load"
  | .loadRead2 _ => "load"
  | .loadMiss _ _ => "load"
  | .loadPtr _ _ => "load"
  | .storeRead1 _ _ => "store"
  | .tryStoreLoad _ _ _ => "store"
  | .tryStoreCas _ _ _ _ => "store"
  | .storeLock _ _ => "store"
  | .storeRead2 _ _ => "store"
  | .storeUnexp _ _ _ => "store"
  | .storeLocked _ _ _ => "store"
  | .dirtyRead c _ _ _ => c.kind
  | .dirtyPick c _ _ _ _ => c.kind
  | .expLoad c _ _ _ _ _ _ => c.kind
  | .expCas c _ _ _ _ _ _ => c.kind
  | .expLoad2 c _ _ _ _ _ _ => c.kind
  | .readStore c _ _ _ => c.kind
  | .losRead1 _ _ => "loadorstore"
  | .losLoad _ _ _ _ => "loadorstore"
  | .losCas _ _ _ _ => "loadorstore"
  | .losLoad2 _ _ _ _ => "loadorstore"
  | .losLock _ _ => "loadorstore"
  | .losRead2 _ _ => "loadorstore"
  | .losUnexp _ _ _ => "loadorstore"
  | .losMiss _ _ => "loadorstore"
  | .ladRead1 d _ => ladKind d
  | .ladLock d _ => ladKind d
  | .ladRead2 d _ => ladKind d
  | .ladMiss d _ _ => ladKind d
  | .delLoad d _ _ => ladKind d
  | .delCas d _ _ _ => ladKind d
  | .rangeRead1 => "range"
  | .rangeLock => "range"
  | .rangeRead2 => "range"
  | .rangeStore _ => "range"
  | .rangePick _ _ => "range"
  | .rangeLoad _ _ _ _ => "range"

end TypVerif.Model.SyncMapConc

namespace TypVerif.Lemmas.Smc
open TypVerif.Model.SyncMapConc
open TypVerif.Model.SyncMap (alookup ainsert aerase akeys)

set_option linter.unusedSectionVars false

abbrev FlowEdge := String × String × String

/-- the label-level control-flow graph of the model, per operation; sorted like `Gen.MapFlow.edges` (operations in the order
load, store, loadorstore, loadanddelete, delete, range; inside an operation lexicographically, bytewise) -/
def modelFlow : List FlowEdge := [
  ("load", "Load.readLoad1", "load.loadPtr1"),
  ("load", "Load.readLoad1", "lock"),
  ("load", "Load.readLoad1", "ret"),
  ("load", "Load.readLoad2", "load.loadPtr1"),
  ("load", "Load.readLoad2", "missLocked.readStore1"),
  ("load", "Load.readLoad2", "ret"),
  ("load", "load.loadPtr1", "ret"),
  ("load", "lock", "Load.readLoad2"),
  ("load", "missLocked.readStore1", "load.loadPtr1"),
  ("load", "missLocked.readStore1", "ret"),
  ("load", "op:load", "Load.readLoad1"),
  ("store", "Store.readLoad1", "lock"),
  ("store", "Store.readLoad1", "tryStore.loadPtr1"),
  ("store", "Store.readLoad2", "Store.readStore1"),
  ("store", "Store.readLoad2", "dirtyLocked.readLoad1"),
  ("store", "Store.readLoad2", "ret"),
  ("store", "Store.readLoad2", "storeLocked.storePtr1"),
  ("store", "Store.readLoad2", "unexpungeLocked.casPtr1"),
  ("store", "Store.readStore1", "ret"),
  ("store", "dirtyLocked.readLoad1", "Store.readStore1"),
  ("store", "dirtyLocked.readLoad1", "pick"),
  ("store", "lock", "Store.readLoad2"),
  ("store", "op:store", "Store.readLoad1"),
  ("store", "pick", "tryExpungeLocked.loadPtr1"),
  ("store", "storeLocked.storePtr1", "ret"),
  ("store", "tryExpungeLocked.casPtr1", "Store.readStore1"),
  ("store", "tryExpungeLocked.casPtr1", "pick"),
  ("store", "tryExpungeLocked.casPtr1", "tryExpungeLocked.loadPtr2"),
  ("store", "tryExpungeLocked.loadPtr1", "Store.readStore1"),
  ("store", "tryExpungeLocked.loadPtr1", "pick"),
  ("store", "tryExpungeLocked.loadPtr1", "tryExpungeLocked.casPtr1"),
  ("store", "tryExpungeLocked.loadPtr2", "Store.readStore1"),
  ("store", "tryExpungeLocked.loadPtr2", "pick"),
  ("store", "tryExpungeLocked.loadPtr2", "tryExpungeLocked.casPtr1"),
  ("store", "tryStore.casPtr1", "ret"),
  ("store", "tryStore.casPtr1", "tryStore.loadPtr1"),
  ("store", "tryStore.loadPtr1", "lock"),
  ("store", "tryStore.loadPtr1", "tryStore.casPtr1"),
  ("store", "unexpungeLocked.casPtr1", "storeLocked.storePtr1"),
  ("loadorstore", "LoadOrStore.readLoad1", "lock"),
  ("loadorstore", "LoadOrStore.readLoad1", "tryLoadOrStore.loadPtr1"),
  ("loadorstore", "LoadOrStore.readLoad2", "LoadOrStore.readStore1"),
  ("loadorstore", "LoadOrStore.readLoad2", "dirtyLocked.readLoad1"),
  ("loadorstore", "LoadOrStore.readLoad2", "ret"),
  ("loadorstore", "LoadOrStore.readLoad2", "tryLoadOrStore.loadPtr1"),
  ("loadorstore", "LoadOrStore.readLoad2", "unexpungeLocked.casPtr1"),
  ("loadorstore", "LoadOrStore.readStore1", "ret"),
  ("loadorstore", "dirtyLocked.readLoad1", "LoadOrStore.readStore1"),
  ("loadorstore", "dirtyLocked.readLoad1", "pick"),
  ("loadorstore", "lock", "LoadOrStore.readLoad2"),
  ("loadorstore", "missLocked.readStore1", "ret"),
  ("loadorstore", "op:loadorstore", "LoadOrStore.readLoad1"),
  ("loadorstore", "pick", "tryExpungeLocked.loadPtr1"),
  ("loadorstore", "tryExpungeLocked.casPtr1", "LoadOrStore.readStore1"),
  ("loadorstore", "tryExpungeLocked.casPtr1", "pick"),
  ("loadorstore", "tryExpungeLocked.casPtr1", "tryExpungeLocked.loadPtr2"),
  ("loadorstore", "tryExpungeLocked.loadPtr1", "LoadOrStore.readStore1"),
  ("loadorstore", "tryExpungeLocked.loadPtr1", "pick"),
  ("loadorstore", "tryExpungeLocked.loadPtr1", "tryExpungeLocked.casPtr1"),
  ("loadorstore", "tryExpungeLocked.loadPtr2", "LoadOrStore.readStore1"),
  ("loadorstore", "tryExpungeLocked.loadPtr2", "pick"),
  ("loadorstore", "tryExpungeLocked.loadPtr2", "tryExpungeLocked.casPtr1"),
  ("loadorstore", "tryLoadOrStore.casPtr1", "missLocked.readStore1"),
  ("loadorstore", "tryLoadOrStore.casPtr1", "ret"),
  ("loadorstore", "tryLoadOrStore.casPtr1", "tryLoadOrStore.loadPtr2"),
  ("loadorstore", "tryLoadOrStore.loadPtr1", "lock"),
  ("loadorstore", "tryLoadOrStore.loadPtr1", "missLocked.readStore1"),
  ("loadorstore", "tryLoadOrStore.loadPtr1", "ret"),
  ("loadorstore", "tryLoadOrStore.loadPtr1", "tryLoadOrStore.casPtr1"),
  ("loadorstore", "tryLoadOrStore.loadPtr2", "lock"),
  ("loadorstore", "tryLoadOrStore.loadPtr2", "missLocked.readStore1"),
  ("loadorstore", "tryLoadOrStore.loadPtr2", "ret"),
  ("loadorstore", "tryLoadOrStore.loadPtr2", "tryLoadOrStore.casPtr1"),
  ("loadorstore", "unexpungeLocked.casPtr1", "tryLoadOrStore.loadPtr1"),
  ("loadanddelete", "LoadAndDelete.readLoad1", "delete.loadPtr1"),
  ("loadanddelete", "LoadAndDelete.readLoad1", "lock"),
  ("loadanddelete", "LoadAndDelete.readLoad1", "ret"),
  ("loadanddelete", "LoadAndDelete.readLoad2", "delete.loadPtr1"),
  ("loadanddelete", "LoadAndDelete.readLoad2", "missLocked.readStore1"),
  ("loadanddelete", "LoadAndDelete.readLoad2", "ret"),
  ("loadanddelete", "delete.casPtr1", "delete.loadPtr1"),
  ("loadanddelete", "delete.casPtr1", "ret"),
  ("loadanddelete", "delete.loadPtr1", "delete.casPtr1"),
  ("loadanddelete", "delete.loadPtr1", "ret"),
  ("loadanddelete", "lock", "LoadAndDelete.readLoad2"),
  ("loadanddelete", "missLocked.readStore1", "delete.loadPtr1"),
  ("loadanddelete", "missLocked.readStore1", "ret"),
  ("loadanddelete", "op:loadanddelete", "LoadAndDelete.readLoad1"),
  ("delete", "LoadAndDelete.readLoad1", "delete.loadPtr1"),
  ("delete", "LoadAndDelete.readLoad1", "lock"),
  ("delete", "LoadAndDelete.readLoad1", "ret"),
  ("delete", "LoadAndDelete.readLoad2", "delete.loadPtr1"),
  ("delete", "LoadAndDelete.readLoad2", "missLocked.readStore1"),
  ("delete", "LoadAndDelete.readLoad2", "ret"),
  ("delete", "delete.casPtr1", "delete.loadPtr1"),
  ("delete", "delete.casPtr1", "ret"),
  ("delete", "delete.loadPtr1", "delete.casPtr1"),
  ("delete", "delete.loadPtr1", "ret"),
  ("delete", "lock", "LoadAndDelete.readLoad2"),
  ("delete", "missLocked.readStore1", "delete.loadPtr1"),
  ("delete", "missLocked.readStore1", "ret"),
  ("delete", "op:delete", "LoadAndDelete.readLoad1"),
  ("range", "Range.readLoad1", "lock"),
  ("range", "Range.readLoad1", "pick"),
  ("range", "Range.readLoad1", "ret"),
  ("range", "Range.readLoad2", "Range.readStore1"),
  ("range", "Range.readLoad2", "pick"),
  ("range", "Range.readLoad2", "ret"),
  ("range", "Range.readStore1", "pick"),
  ("range", "Range.readStore1", "ret"),
  ("range", "load.loadPtr1", "pick"),
  ("range", "load.loadPtr1", "ret"),
  ("range", "lock", "Range.readLoad2"),
  ("range", "op:range", "Range.readLoad1"),
  ("range", "pick", "load.loadPtr1")]

/-! ### soundness -/

section sound
variable {K V : Type} [DecidableEq K] [Inhabited V]

/-- every step of the model from `pc` (in the shared state `sh`, by goroutine `t`) is an edge of `modelFlow` and stays in the
operation (or returns) -/
def FlowOK (sh : Shared K V) (t : Tid) (pc : Pc K V) : Prop :=
  ∀ sh' pc', exec sh t pc = some (sh', pc') →
    (pc.kind, pc.label, pc'.label) ∈ modelFlow ∧ (pc'.label = "ret" ∨ pc'.kind = pc.kind)

/-- unfold one step of the model down to `if`/`match`, split, and close every leaf by evaluating the labels -/
local macro "flow_auto" : tactic => `(tactic| (
  intro sh' pc' h
  simp only [exec, lockStep, newTail, finishNew, missTail, losFail, losOk, losLoaded, expLoaded, dirtyNext, rangeNext,
    loadAfter, ladAfter] at h
  repeat' split at h
  all_goals first
    | (cases h; done)
    | (simp only [Option.some.injEq, Prod.mk.injEq] at h
       obtain ⟨_, hpc⟩ := h
       subst hpc
       simp only [Pc.kind, Pc.label, NewCtx.kind, ladKind, Op.kind]
       decide)))

variable (sh : Shared K V) (t : Tid)

private theorem ok_idle : FlowOK sh t (.idle : Pc K V) := by
  flow_auto

private theorem ok_ret : ∀ r, FlowOK sh t (.ret r : Pc K V) := by
  intro r
  flow_auto

private theorem ok_start : ∀ op, FlowOK sh t (.start op : Pc K V) := by
  intro op
  cases op <;> flow_auto

private theorem ok_loadRead1 : ∀ k, FlowOK sh t (.loadRead1 k : Pc K V) := by
  intro k
  flow_auto

private theorem ok_loadLock : ∀ k, FlowOK sh t (.loadLock k : Pc K V) := by
  intro k
  flow_auto

private theorem ok_loadRead2 : ∀ k, FlowOK sh t (.loadRead2 k : Pc K V) := by
  intro k
  flow_auto

private theorem ok_loadMiss : ∀ k e, FlowOK sh t (.loadMiss k e : Pc K V) := by
  intro k e
  flow_auto

private theorem ok_loadPtr : ∀ k e, FlowOK sh t (.loadPtr k e : Pc K V) := by
  intro k e
  flow_auto

private theorem ok_storeRead1 : ∀ k v, FlowOK sh t (.storeRead1 k v : Pc K V) := by
  intro k v
  flow_auto

private theorem ok_tryStoreLoad : ∀ k v e, FlowOK sh t (.tryStoreLoad k v e : Pc K V) := by
  intro k v e
  flow_auto

private theorem ok_tryStoreCas : ∀ k v e p, FlowOK sh t (.tryStoreCas k v e p : Pc K V) := by
  intro k v e p
  flow_auto

private theorem ok_storeLock : ∀ k v, FlowOK sh t (.storeLock k v : Pc K V) := by
  intro k v
  flow_auto

private theorem ok_storeRead2 : ∀ k v, FlowOK sh t (.storeRead2 k v : Pc K V) := by
  intro k v
  flow_auto

private theorem ok_storeUnexp : ∀ k v e, FlowOK sh t (.storeUnexp k v e : Pc K V) := by
  intro k v e
  flow_auto

private theorem ok_storeLocked : ∀ k v e, FlowOK sh t (.storeLocked k v e : Pc K V) := by
  intro k v e
  flow_auto

private theorem ok_dirtyRead : ∀ c k v rm, FlowOK sh t (.dirtyRead c k v rm : Pc K V) := by
  intro c k v rm
  cases c <;> flow_auto

private theorem ok_dirtyPick : ∀ c k v rm todo, FlowOK sh t (.dirtyPick c k v rm todo : Pc K V) := by
  intro c k v rm todo
  flow_auto

private theorem ok_expLoad : ∀ c k v rm todo k' e', FlowOK sh t (.expLoad c k v rm todo k' e' : Pc K V) := by
  intro c k v rm todo k' e'
  cases c <;> flow_auto

private theorem ok_expCas : ∀ c k v rm todo k' e', FlowOK sh t (.expCas c k v rm todo k' e' : Pc K V) := by
  intro c k v rm todo k' e'
  cases c <;> flow_auto

private theorem ok_expLoad2 : ∀ c k v rm todo k' e', FlowOK sh t (.expLoad2 c k v rm todo k' e' : Pc K V) := by
  intro c k v rm todo k' e'
  cases c <;> flow_auto

private theorem ok_readStore : ∀ c k v rm, FlowOK sh t (.readStore c k v rm : Pc K V) := by
  intro c k v rm
  cases c <;> flow_auto

private theorem ok_losRead1 : ∀ k v, FlowOK sh t (.losRead1 k v : Pc K V) := by
  intro k v
  flow_auto

private theorem ok_losLoad : ∀ c k v e, FlowOK sh t (.losLoad c k v e : Pc K V) := by
  intro c k v e
  cases c <;> flow_auto

private theorem ok_losCas : ∀ c k v e, FlowOK sh t (.losCas c k v e : Pc K V) := by
  intro c k v e
  cases c <;> flow_auto

private theorem ok_losLoad2 : ∀ c k v e, FlowOK sh t (.losLoad2 c k v e : Pc K V) := by
  intro c k v e
  cases c <;> flow_auto

private theorem ok_losLock : ∀ k v, FlowOK sh t (.losLock k v : Pc K V) := by
  intro k v
  flow_auto

private theorem ok_losRead2 : ∀ k v, FlowOK sh t (.losRead2 k v : Pc K V) := by
  intro k v
  flow_auto

private theorem ok_losUnexp : ∀ k v e, FlowOK sh t (.losUnexp k v e : Pc K V) := by
  intro k v e
  flow_auto

private theorem ok_losMiss : ∀ k r, FlowOK sh t (.losMiss k r : Pc K V) := by
  intro k r
  flow_auto

private theorem ok_ladRead1 : ∀ d k, FlowOK sh t (.ladRead1 d k : Pc K V) := by
  intro d k
  cases d <;> flow_auto

private theorem ok_ladLock : ∀ d k, FlowOK sh t (.ladLock d k : Pc K V) := by
  intro d k
  cases d <;> flow_auto

private theorem ok_ladRead2 : ∀ d k, FlowOK sh t (.ladRead2 d k : Pc K V) := by
  intro d k
  cases d <;> flow_auto

private theorem ok_ladMiss : ∀ d k e, FlowOK sh t (.ladMiss d k e : Pc K V) := by
  intro d k e
  cases d <;> flow_auto

private theorem ok_delLoad : ∀ d k e, FlowOK sh t (.delLoad d k e : Pc K V) := by
  intro d k e
  cases d <;> flow_auto

private theorem ok_delCas : ∀ d k e p, FlowOK sh t (.delCas d k e p : Pc K V) := by
  intro d k e p
  cases d <;> flow_auto

private theorem ok_rangeRead1 : FlowOK sh t (.rangeRead1 : Pc K V) := by
  flow_auto

private theorem ok_rangeLock : FlowOK sh t (.rangeLock : Pc K V) := by
  flow_auto

private theorem ok_rangeRead2 : FlowOK sh t (.rangeRead2 : Pc K V) := by
  flow_auto

private theorem ok_rangeStore : ∀ dm, FlowOK sh t (.rangeStore dm : Pc K V) := by
  intro dm
  flow_auto

private theorem ok_rangePick : ∀ todo acc, FlowOK sh t (.rangePick todo acc : Pc K V) := by
  intro todo acc
  flow_auto

private theorem ok_rangeLoad : ∀ todo acc k' e', FlowOK sh t (.rangeLoad todo acc k' e' : Pc K V) := by
  intro todo acc k' e'
  flow_auto


theorem flow_sound (sh : Shared K V) (t : Tid) (pc : Pc K V) (sh' : Shared K V) (pc' : Pc K V)
    (h : exec sh t pc = some (sh', pc')) :
    (pc.kind, pc.label, pc'.label) ∈ modelFlow ∧ (pc'.label = "ret" ∨ pc'.kind = pc.kind) := by
  revert sh' pc'
  show FlowOK sh t pc
  cases pc with
  | idle  => exact ok_idle sh t
  | ret r => exact ok_ret sh t r
  | start op => exact ok_start sh t op
  | loadRead1 k => exact ok_loadRead1 sh t k
  | loadLock k => exact ok_loadLock sh t k
  | loadRead2 k => exact ok_loadRead2 sh t k
  | loadMiss k e => exact ok_loadMiss sh t k e
  | loadPtr k e => exact ok_loadPtr sh t k e
  | storeRead1 k v => exact ok_storeRead1 sh t k v
  | tryStoreLoad k v e => exact ok_tryStoreLoad sh t k v e
  | tryStoreCas k v e p => exact ok_tryStoreCas sh t k v e p
  | storeLock k v => exact ok_storeLock sh t k v
  | storeRead2 k v => exact ok_storeRead2 sh t k v
  | storeUnexp k v e => exact ok_storeUnexp sh t k v e
  | storeLocked k v e => exact ok_storeLocked sh t k v e
  | dirtyRead c k v rm => exact ok_dirtyRead sh t c k v rm
  | dirtyPick c k v rm todo => exact ok_dirtyPick sh t c k v rm todo
  | expLoad c k v rm todo k' e' => exact ok_expLoad sh t c k v rm todo k' e'
  | expCas c k v rm todo k' e' => exact ok_expCas sh t c k v rm todo k' e'
  | expLoad2 c k v rm todo k' e' => exact ok_expLoad2 sh t c k v rm todo k' e'
  | readStore c k v rm => exact ok_readStore sh t c k v rm
  | losRead1 k v => exact ok_losRead1 sh t k v
  | losLoad c k v e => exact ok_losLoad sh t c k v e
  | losCas c k v e => exact ok_losCas sh t c k v e
  | losLoad2 c k v e => exact ok_losLoad2 sh t c k v e
  | losLock k v => exact ok_losLock sh t k v
  | losRead2 k v => exact ok_losRead2 sh t k v
  | losUnexp k v e => exact ok_losUnexp sh t k v e
  | losMiss k r => exact ok_losMiss sh t k r
  | ladRead1 d k => exact ok_ladRead1 sh t d k
  | ladLock d k => exact ok_ladLock sh t d k
  | ladRead2 d k => exact ok_ladRead2 sh t d k
  | ladMiss d k e => exact ok_ladMiss sh t d k e
  | delLoad d k e => exact ok_delLoad sh t d k e
  | delCas d k e p => exact ok_delCas sh t d k e p
  | rangeRead1  => exact ok_rangeRead1 sh t
  | rangeLock  => exact ok_rangeLock sh t
  | rangeRead2  => exact ok_rangeRead2 sh t
  | rangeStore dm => exact ok_rangeStore sh t dm
  | rangePick todo acc => exact ok_rangePick sh t todo acc
  | rangeLoad todo acc k' e' => exact ok_rangeLoad sh t todo acc k' e'

theorem flow_sound_picks (pc : Pc K V) (c : K × Pc K V) (h : c ∈ picks pc) :
    (pc.kind, pc.label, c.2.label) ∈ modelFlow ∧ c.2.kind = pc.kind := by
  cases pc with
  | dirtyPick x k v rm todo =>
    simp only [picks, List.mem_map] at h
    obtain ⟨p, _, hc⟩ := h
    subst hc
    cases x <;> simp only [Pc.kind, Pc.label, NewCtx.kind] <;> decide
  | rangePick todo acc =>
    simp only [picks, List.mem_map] at h
    obtain ⟨p, _, hc⟩ := h
    subst hc
    simp only [Pc.kind, Pc.label]
    decide
  | _ => simp [picks] at h

end sound

/-! ### completeness: every edge is realised (`K = V = Nat`) -/

/-- the edge `e` is a step (`exec`) or a choice at a loop head (`picks`) of the model over `Nat` keys and values, from SOME
shared state (not necessarily a reachable one) -/
def Realises (e : FlowEdge) : Prop :=
  ∃ (sh : Shared Nat Nat) (t : Tid) (pc : Pc Nat Nat),
    (∃ sh' pc', exec sh t pc = some (sh', pc') ∧ e = (pc.kind, pc.label, pc'.label)) ∨
    (∃ c ∈ picks pc, e = (pc.kind, pc.label, c.2.label))

/-- the edges realised from the shared state `w.1` at the program counter `w.2` (goroutine 0) -/
def realisedBy (w : Shared Nat Nat × Pc Nat Nat) : List FlowEdge :=
  (match exec w.1 0 w.2 with
   | some r => [(w.2.kind, w.2.label, r.2.label)]
   | none => []) ++
  (picks w.2).map (fun c => (w.2.kind, w.2.label, c.2.label))

theorem realises_of_mem_realisedBy {w : Shared Nat Nat × Pc Nat Nat} {e : FlowEdge} (h : e ∈ realisedBy w) :
    Realises e := by
  simp only [realisedBy, List.mem_append, List.mem_map] at h
  rcases h with h | ⟨c, hc, rfl⟩
  · split at h
    · next r hr =>
      simp only [List.mem_singleton] at h
      exact ⟨w.1, 0, w.2, Or.inl ⟨r.1, r.2, hr, h⟩⟩
    · simp at h
  · exact ⟨w.1, 0, w.2, Or.inr ⟨c, hc, rfl⟩⟩

/-! shared states: key 1 lives in `read.m` (entry 0), keys 2.. only in `dirty` -/

/-- the zero map -/
def sh0 : Shared Nat Nat := {}
/-- `read.m = {1 ↦ e0}`, `e0.p = p`, not amended, `dirty = nil` -/
def shR (p : Ptr Nat) : Shared Nat Nat := { entries := [p], readM := [(1, 0)] }
/-- as `shR`, with an (empty) dirty map allocated -/
def shRd (p : Ptr Nat) : Shared Nat Nat := { entries := [p], readM := [(1, 0)], dirty := some [] }
/-- `read.m = {}`, amended, `dirty = {2 ↦ e0}`, `e0.p = p`: one more miss promotes -/
def shA (p : Ptr Nat) : Shared Nat Nat := { entries := [p], amended := true, dirty := some [(2, 0)] }
/-- `read.m = {}`, not amended, but `dirty` allocated -/
def shD : Shared Nat Nat := { dirty := some [] }

/-- the witnesses of one run through the new-key tail (`dirtyLocked` loop, `X.readStore1`) -/
def tailWitnesses (c : NewCtx) : List (Shared Nat Nat × Pc Nat Nat) :=
  [(shD, .readStore c 2 5 []),
   (sh0, .dirtyRead c 2 5 []), (shR (.val 0 7), .dirtyRead c 2 5 [(1, 0)]),
   (sh0, .dirtyPick c 2 5 [(1, 0)] [(1, 0)]),
   (shRd (.val 0 7), .expLoad c 2 5 [(1, 0)] [] 1 0), (shRd (.val 0 7), .expLoad c 2 5 [(1, 0)] [(3, 1)] 1 0),
   (shRd .nil, .expLoad c 2 5 [(1, 0)] [] 1 0),
   (shRd .nil, .expCas c 2 5 [(1, 0)] [] 1 0), (shRd .nil, .expCas c 2 5 [(1, 0)] [(3, 1)] 1 0),
   (shRd (.val 0 7), .expCas c 2 5 [(1, 0)] [] 1 0),
   (shRd (.val 0 7), .expLoad2 c 2 5 [(1, 0)] [] 1 0), (shRd (.val 0 7), .expLoad2 c 2 5 [(1, 0)] [(3, 1)] 1 0),
   (shRd .nil, .expLoad2 c 2 5 [(1, 0)] [] 1 0)]

/-- the witnesses of `LoadAndDelete` (`d = false`) / `Delete` (`d = true`) -/
def ladWitnesses (d : Bool) : List (Shared Nat Nat × Pc Nat Nat) :=
  [(shR (.val 0 7), .ladRead1 d 1), (shA (.val 0 7), .ladRead1 d 1), (sh0, .ladRead1 d 1),
   (sh0, .ladLock d 1),
   (shR (.val 0 7), .ladRead2 d 1), (shA (.val 0 7), .ladRead2 d 2), (sh0, .ladRead2 d 1),
   (shA (.val 0 7), .ladMiss d 2 (some 0)), (shA (.val 0 7), .ladMiss d 2 none),
   (shR (.val 0 7), .delLoad d 1 0), (shR .nil, .delLoad d 1 0),
   (shR (.val 0 7), .delCas d 1 0 (.val 0 7)), (shR (.val 0 7), .delCas d 1 0 (.val 9 7))]

/-- (shared state, program counter) pairs whose steps and picks realise every edge of `modelFlow` -/
def flowWitnesses : List (Shared Nat Nat × Pc Nat Nat) :=
  -- Load
  [(sh0, .start (.load 1)),
   (shR (.val 0 7), .loadRead1 1), (shA (.val 0 7), .loadRead1 1), (sh0, .loadRead1 1),
   (sh0, .loadLock 1),
   (shR (.val 0 7), .loadRead2 1), (shA (.val 0 7), .loadRead2 2), (sh0, .loadRead2 1),
   (shA (.val 0 7), .loadMiss 2 (some 0)), (shA (.val 0 7), .loadMiss 2 none),
   (shR (.val 0 7), .loadPtr 1 0),
  -- Store
   (sh0, .start (.store 1 5)),
   (sh0, .storeRead1 1 5), (shR (.val 0 7), .storeRead1 1 5),
   (shR .expunged, .tryStoreLoad 1 5 0), (shR (.val 0 7), .tryStoreLoad 1 5 0),
   (shR (.val 0 7), .tryStoreCas 1 5 0 (.val 0 7)), (shR (.val 0 7), .tryStoreCas 1 5 0 .nil),
   (sh0, .storeLock 1 5),
   (shD, .storeRead2 1 5), (sh0, .storeRead2 1 5), (shA (.val 0 7), .storeRead2 1 5), (shA (.val 0 7), .storeRead2 2 5),
   (shR (.val 0 7), .storeRead2 1 5),
   (shR (.val 0 7), .storeUnexp 1 5 0), (shR (.val 0 7), .storeLocked 1 5 0)] ++
  tailWitnesses .store ++
  -- LoadOrStore
  [(sh0, .start (.loadOrStore 1 5)),
   (sh0, .losRead1 1 5), (shR (.val 0 7), .losRead1 1 5),
   (sh0, .losLock 1 5),
   (shD, .losRead2 1 5), (sh0, .losRead2 1 5), (shA (.val 0 7), .losRead2 1 5), (shA (.val 0 7), .losRead2 2 5),
   (shR (.val 0 7), .losRead2 1 5),
   (shR (.val 0 7), .losUnexp 1 5 0),
   (shA (.val 0 7), .losMiss 2 (.pair 7 true)),
   (shR .expunged, .losLoad .fast 1 5 0), (shA (.val 0 7), .losLoad .slowDirty 2 5 0), (shR (.val 0 7), .losLoad .fast 1 5 0),
   (shR .nil, .losLoad .fast 1 5 0),
   (shA .nil, .losCas .slowDirty 2 5 0), (shR .nil, .losCas .fast 1 5 0), (shR (.val 0 7), .losCas .fast 1 5 0),
   (shR .expunged, .losLoad2 .fast 1 5 0), (shA (.val 0 7), .losLoad2 .slowDirty 2 5 0), (shR (.val 0 7), .losLoad2 .fast 1 5 0),
   (shR .nil, .losLoad2 .fast 1 5 0)] ++
  tailWitnesses .los ++
  -- LoadAndDelete, Delete
  [(sh0, .start (.loadAndDelete 1))] ++ ladWitnesses false ++
  [(sh0, .start (.delete 1))] ++ ladWitnesses true ++
  -- Range
  [(sh0, .start .range),
   (shA (.val 0 7), .rangeRead1), (shR (.val 0 7), .rangeRead1), (sh0, .rangeRead1),
   (sh0, .rangeLock),
   (shA (.val 0 7), .rangeRead2), (shR (.val 0 7), .rangeRead2), (sh0, .rangeRead2),
   (shA (.val 0 7), .rangeStore [(2, 0)]), (shA (.val 0 7), .rangeStore []),
   (sh0, .rangePick [(1, 0)] []),
   (shR (.val 0 7), .rangeLoad [(3, 1)] [] 1 0), (shR (.val 0 7), .rangeLoad [] [] 1 0)]

/-- all edges realised by the witnesses -/
def realised : List FlowEdge := flowWitnesses.flatMap realisedBy

theorem realises_of_mem_realised {e : FlowEdge} (h : e ∈ realised) : Realises e := by
  simp only [realised, List.mem_flatMap] at h
  obtain ⟨w, _, hw⟩ := h
  exact realises_of_mem_realisedBy hw

set_option maxRecDepth 100000 in
theorem modelFlow_subset_realised : ∀ e ∈ modelFlow, e ∈ realised := by decide

set_option maxRecDepth 100000 in
/-- the witnesses realise nothing but `modelFlow` (also a consequence of `flow_sound`; here by computation) -/
theorem realised_subset_modelFlow : ∀ e ∈ realised, e ∈ modelFlow := by decide

theorem flow_complete : ∀ e ∈ modelFlow, Realises e :=
  fun e he => realises_of_mem_realised (modelFlow_subset_realised e he)

/-! ### the shape of the statically extracted graph -/

/-- the operations, in the order of `Gen.MapFlow.edges` -/
def flowOps : List String := ["load", "store", "loadorstore", "loadanddelete", "delete", "range"]

/-- the order of `Gen.MapFlow.edges`: by operation (position in `flowOps`), then by the two labels, lexicographically -/
def flowLt (x y : FlowEdge) : Bool :=
  decide (flowOps.idxOf x.1 < flowOps.idxOf y.1) ||
  (x.1 == y.1 && (decide (x.2.1 < y.2.1) || (x.2.1 == y.2.1 && decide (x.2.2 < y.2.2))))

/-- strictly sorted (hence duplicate-free) -/
def flowSorted : List FlowEdge → Bool
  | x :: y :: l => flowLt x y && flowSorted (y :: l)
  | _ => true

def flowInsert (e : FlowEdge) : List FlowEdge → List FlowEdge
  | [] => [e]
  | x :: xs => if flowLt e x then e :: x :: xs else x :: flowInsert e xs

/-- sorted merge (of a sorted list `xs` with the elements of `ys`) -/
def flowMerge (xs ys : List FlowEdge) : List FlowEdge := ys.foldr flowInsert xs

/-- the edges of one operation -/
def flowOf (op : String) (l : List FlowEdge) : List FlowEdge := l.filter (fun e => e.1 == op)

/-- Edges the static analysis of map.go must produce although the model (and the code) cannot take them: artefacts of its
over-approximation (it does not track values).

* `("loadorstore", "tryLoadOrStore.casPtr1", "lock")`: in `tryLoadOrStore` a successful `CompareAndSwapPointer` at
  `casPtr1` is followed by `return i, false, true`, i.e. `ok = true`, so the caller `LoadOrStore` (fast path:
  `actual, loaded, ok := e.tryLoadOrStore(value); if ok { return actual, loaded }`) returns; a failed CAS goes on to
  `tryLoadOrStore.loadPtr2`.  The analysis does not know the value of `ok` and lets `if ok` fall through to
  `verifMuLock` (`lock`).  (The fall-through is real after `loadPtr1`/`loadPtr2`, which can return `ok = false` on an
  expunged entry: those two edges to `lock` are edges of the model.) -/
def staticOnly : List FlowEdge := [("loadorstore", "tryLoadOrStore.casPtr1", "lock")]

/-- what `Gen.MapFlow.edges` has to be: the sorted merge of the model's graph and the artefacts -/
def expectedGen : List FlowEdge := flowMerge modelFlow staticOnly

theorem modelFlow_sorted : flowSorted modelFlow = true := by decide

theorem expectedGen_sorted : flowSorted expectedGen = true := by decide

theorem staticOnly_not_model : ∀ e ∈ staticOnly, e ∉ modelFlow := by decide

theorem mem_flowInsert {a e : FlowEdge} {l : List FlowEdge} : a ∈ flowInsert e l ↔ a = e ∨ a ∈ l := by
  induction l with
  | nil => simp [flowInsert]
  | cons x xs ih =>
    simp only [flowInsert]
    split
    · simp
    · simp only [List.mem_cons, ih]
      constructor
      · rintro (h | h | h)
        · exact Or.inr (Or.inl h)
        · exact Or.inl h
        · exact Or.inr (Or.inr h)
      · rintro (h | h | h)
        · exact Or.inr (Or.inl h)
        · exact Or.inl h
        · exact Or.inr (Or.inr h)

theorem mem_flowMerge {a : FlowEdge} {xs ys : List FlowEdge} : a ∈ flowMerge xs ys ↔ a ∈ xs ∨ a ∈ ys := by
  induction ys with
  | nil => simp [flowMerge]
  | cons y ys ih =>
    have : flowMerge xs (y :: ys) = flowInsert y (flowMerge xs ys) := rfl
    rw [this, mem_flowInsert, ih, List.mem_cons]
    constructor
    · rintro (h | h | h)
      · exact Or.inr (Or.inl h)
      · exact Or.inl h
      · exact Or.inr (Or.inr h)
    · rintro (h | h | h)
      · exact Or.inr (Or.inl h)
      · exact Or.inl h
      · exact Or.inr (Or.inr h)

/-- a generated graph equal to the merge covers the model's graph and has nothing beyond it but the artefacts -/
theorem tie_of_eq {g : List FlowEdge} (h : g = flowMerge modelFlow staticOnly) :
    (∀ e ∈ modelFlow, e ∈ g) ∧ (∀ e ∈ g, e ∈ modelFlow ∨ e ∈ staticOnly) := by
  subst h
  exact ⟨fun e he => mem_flowMerge.2 (Or.inl he), fun e he => mem_flowMerge.1 he⟩

theorem mem_flowOf {op : String} {l : List FlowEdge} {e : FlowEdge} : e ∈ flowOf op l ↔ e ∈ l ∧ e.1 = op := by
  simp [flowOf]

end TypVerif.Lemmas.Smc
