import TypVerif.Model.GoSlice
/-
Pointwise characterisations (`(cells b)[j]?`) of the Go slice primitives.
-/
namespace TypVerif.Lemmas.GoSlice
open TypVerif.Model.GoSlice

variable {α : Type}

/-- closes index goals left after case splitting -/
macro "idx" : tactic =>
  `(tactic| first | rfl | omega | (congr 1; omega) | (exfalso; omega) | (simp only [List.getElem?_eq_none_iff]; omega) | (symm; simp only [List.getElem?_eq_none_iff]; omega))

theorem length_writeAt {m data : List α} {pos : Nat} (hp : pos + data.length ≤ m.length) :
    (writeAt m pos data).length = m.length := by
  unfold writeAt
  simp only [List.length_append, List.length_take, List.length_drop]
  omega

theorem getElem?_writeAt {m data : List α} {pos : Nat} (hp : pos ≤ m.length) (j : Nat) :
    (writeAt m pos data)[j]? =
      if j < pos then m[j]? else if j < pos + data.length then data[j - pos]? else m[j]? := by
  unfold writeAt
  have hl : (m.take pos).length = pos := by rw [List.length_take]; omega
  rw [List.append_assoc, List.getElem?_append, hl]
  split
  · rw [List.getElem?_take, if_pos (by assumption)]
  · rw [List.getElem?_append]
    split
    · rw [if_pos (by omega)]
    · rw [if_neg (by omega), List.getElem?_drop]
      congr 1; omega

theorem getElem?_contents (h : Heap α) (s : Slice) (k : Nat) :
    (contents h s)[k]? = if k < s.len then (h.cells s.bid)[s.off + k]? else none := by
  unfold contents
  rw [List.getElem?_take]
  split
  · rw [List.getElem?_drop]
  · rfl

theorem length_contents {h : Heap α} {s : Slice} (hl : s.off + s.len ≤ (h.cells s.bid).length) :
    (contents h s).length = s.len := by
  unfold contents
  rw [List.length_take, List.length_drop]; omega

/-- two lists of the same length with the same `getElem?` are equal; handy form -/
theorem ext_of_getElem? {l1 l2 : List α} (h : ∀ k : Nat, l1[k]? = l2[k]?) : l1 = l2 := List.ext_getElem? h

@[simp] theorem write_cells_same (h : Heap α) (b : Nat) (m : List α) : (h.write b m).cells b = m := by
  simp [Heap.write]

theorem write_cells (h : Heap α) (b b' : Nat) (m : List α) :
    (h.write b m).cells b' = if b' = b then m else h.cells b' := rfl

@[simp] theorem write_next (h : Heap α) (b : Nat) (m : List α) : (h.write b m).next = h.next := rfl

/-! ### copy -/

theorem copy_fst (h : Heap α) (dst src : Slice) :
    (copy h dst src).1 = h.write dst.bid
      (writeAt (h.cells dst.bid) dst.off ((contents h src).take (min dst.len (contents h src).length))) := rfl

theorem copy_next (h : Heap α) (dst src : Slice) : (copy h dst src).1.next = h.next := rfl

theorem copy_length (h : Heap α) (dst src : Slice)
    (hd : dst.off + dst.len ≤ (h.cells dst.bid).length) (b : Nat) :
    ((copy h dst src).1.cells b).length = (h.cells b).length := by
  unfold copy copyData
  simp only [write_cells]
  split
  · rename_i hb; subst hb
    apply length_writeAt
    rw [List.length_take]; omega
  · rfl

theorem copy_cells (h : Heap α) (dst src : Slice)
    (hs : src.off + src.len ≤ (h.cells src.bid).length)
    (hd : dst.off + dst.len ≤ (h.cells dst.bid).length) (b j : Nat) :
    ((copy h dst src).1.cells b)[j]? =
      if b = dst.bid ∧ dst.off ≤ j ∧ j < dst.off + min dst.len src.len
      then (h.cells src.bid)[src.off + (j - dst.off)]? else (h.cells b)[j]? := by
  have hc := length_contents hs
  rw [copy_fst]
  simp only [write_cells]
  by_cases hb : b = dst.bid
  · subst hb
    rw [if_pos rfl, getElem?_writeAt (by omega)]
    simp only [List.length_take, hc, List.getElem?_take, getElem?_contents, true_and]
    repeat' split
    all_goals idx
  · rw [if_neg hb, if_neg (fun hh => hb hh.1)]

/-! ### set / get -/

theorem set_ok (h : Heap α) (s : Slice) (i : Nat) (v : α) (hi : i < s.len) :
    setIdx h s i v = .ok (h.write s.bid ((h.cells s.bid).set (s.off + i) v)) := by
  unfold setIdx; rw [if_pos hi]

theorem set_cells (h : Heap α) (s : Slice) (i : Nat) (v : α)
    (hl : s.off + i < (h.cells s.bid).length) (b j : Nat) :
    ((h.write s.bid ((h.cells s.bid).set (s.off + i) v)).cells b)[j]? =
      if b = s.bid ∧ j = s.off + i then some v else (h.cells b)[j]? := by
  simp only [write_cells]
  by_cases hb : b = s.bid
  · subst hb
    rw [if_pos rfl, List.getElem?_set]
    repeat' split
    all_goals first | rfl | omega | (exfalso; omega) | skip
    all_goals (rename_i h1 h2; exact absurd ⟨rfl, h1.symm⟩ h2)
  · rw [if_neg hb, if_neg (fun hh => hb hh.1)]

theorem set_length (h : Heap α) (s : Slice) (i : Nat) (v : α) (b : Nat) :
    ((h.write s.bid ((h.cells s.bid).set (s.off + i) v)).cells b).length = (h.cells b).length := by
  simp only [write_cells]
  split
  · rename_i hb; subst hb; simp
  · rfl

theorem get_ok (h : Heap α) (s : Slice) (i : Nat) (hi : i < s.len)
    (hl : s.off + s.len ≤ (h.cells s.bid).length) :
    ∃ v, getIdx h s i = .ok v ∧ (h.cells s.bid)[s.off + i]? = some v := by
  unfold getIdx
  rw [if_pos hi]
  have : s.off + i < (h.cells s.bid).length := by omega
  rw [List.getElem?_eq_getElem this]
  exact ⟨_, rfl, rfl⟩

/-! ### slicing -/

theorem sliceFrom_ok (s : Slice) (lo : Nat) (h : lo ≤ s.len) (hc : s.len ≤ s.cap) :
    sliceFrom s lo = .ok { bid := s.bid, off := s.off + lo, len := s.len - lo, cap := s.cap - lo } := by
  unfold sliceFrom slice; rw [if_pos ⟨h, hc⟩]

theorem sliceFrom_panic (s : Slice) (lo : Nat) (h : s.len < lo) : sliceFrom s lo = panicBounds := by
  unfold sliceFrom slice; rw [if_neg (by omega)]

theorem sliceTo_ok (s : Slice) (hi : Nat) (h : hi ≤ s.cap) :
    sliceTo s hi = .ok { bid := s.bid, off := s.off, len := hi, cap := s.cap } := by
  unfold sliceTo slice; rw [if_pos ⟨Nat.zero_le _, h⟩]; rfl

/-! ### append -/

theorem append_inplace (h : Heap α) (s : Slice) (vs spare : List α) (hfit : s.len + vs.length ≤ s.cap) :
    append h s vs spare =
      (h.write s.bid (writeAt (h.cells s.bid) (s.off + s.len) vs), { s with len := s.len + vs.length }) := by
  unfold append; rw [if_pos hfit]

theorem append_realloc (h : Heap α) (s : Slice) (vs spare : List α) (hfit : ¬ s.len + vs.length ≤ s.cap) :
    append h s vs spare =
      ({ cells := fun x => if x = h.next then contents h s ++ vs ++ spare else h.cells x, next := h.next + 1 },
       { bid := h.next, off := 0, len := s.len + vs.length, cap := s.len + vs.length + spare.length }) := by
  unfold append; rw [if_neg hfit]; rfl

end TypVerif.Lemmas.GoSlice
