import TypVerif.Lemmas.PubSubLogSync
/-
PubWait / PubSliceWait: every pending item of the call sits in a `sendWaitGroup` goroutine of the call's WaitGroup
`w`; the call returns only when the counter of `w` is 0, i.e. (counting invariant `Safe.wgc`, system without clones)
when no such goroutine is alive — so nothing of the call is pending any more, and by `CallEq` everything is logged.
-/
namespace TypVerif.Lemmas.PubSubLog
open TypVerif TypVerif.Model.PubSub TypVerif.Lemmas.PubSubSafe

theorem tstep_wg {cfg : Cfg} {s : State} {t t' : Task} {new : List Task} {dl tl : List Key}
    (h : TStep cfg s t t' new dl tl) (p w : Nat) (hq : isPubStart p t = false)
    (hp : ∀ it ∈ pend t, it.pid = p → isWgSend w t = true) :
    (∀ it ∈ pend t', it.pid = p → isWgSend w t' = true) ∧
    (∀ x ∈ new, ∀ it ∈ pend x, it.pid = p → isWgSend w x = true) := by
  have hnil : ∀ x ∈ ([] : List Task), ∀ it ∈ pend x, it.pid = p → isWgSend w x = true := fun _ hx => by cases hx
  have hni : ∀ (t' : Task), ∀ it ∈ ([] : List Item), it.pid = p → isWgSend w t' = true := fun _ _ hk => by cases hk
  cases h with
  | stuck _ hn => exact ⟨hp, hnil⟩
  | ctl h1 h2 => rw [pend_ctl h2]; exact ⟨hni _, hnil⟩
  | ret p' => exact ⟨hni _, hnil⟩
  | waitRet p' o w' hz => exact ⟨hni _, hnil⟩
  | pubSync p' o v evs hv =>
    have hne : p' ≠ p := by simpa [isPubStart] using hq
    rw [pend_syncNext]
    exact ⟨fun it hit hpid => absurd ((mkItems_pid hit).symm.trans hpid) hne, hnil⟩
  | pubWait p' o v evs hv hw =>
    have hne : p' ≠ p := by simpa [isPubStart] using hq
    refine ⟨hni _, ?_⟩
    intro x hx it hit hpid
    simp only [List.mem_map] at hx; obtain ⟨it', hit', rfl⟩ := hx
    simp only [pend, Bool.false_eq_true, if_false, List.mem_singleton] at hit
    subst hit; exact absurd ((mkItems_pid hit').symm.trans hpid) hne
  | pubAsync p' o v evs hv hw =>
    have hne : p' ≠ p := by simpa [isPubStart] using hq
    refine ⟨hni _, ?_⟩
    intro x hx it hit hpid
    simp only [List.mem_map] at hx; obtain ⟨it', hit', rfl⟩ := hx
    simp only [pend, List.mem_singleton] at hit
    subst hit; exact absurd ((mkItems_pid hit').symm.trans hpid) hne
  | syncCb p' o it rest =>
    rw [pend_syncNext]
    refine ⟨fun x hx hpid => ?_, hnil⟩
    have := hp x (by simpa [pend] using hx) hpid
    simp [isWgSend] at this
  | syncSent p' o it rest =>
    rw [pend_syncNext]
    refine ⟨fun x hx hpid => ?_, hnil⟩
    have := hp x (by simp [pend, hx]) hpid
    simp [isWgSend] at this
  | syncTmo p' o it rest htm =>
    refine ⟨fun x hx hpid => ?_, hnil⟩
    have := hp x (by simp only [pend] at hx ⊢; simp at hx ⊢; exact Or.inr hx) hpid
    simp [isWgSend] at this
  | asyncGo o it hm =>
    refine ⟨fun x hx hpid => ?_, hnil⟩
    have := hp x (by simpa [pend] using hx) hpid
    simp [isWgSend] at this
  | asyncDrop o it hm => exact ⟨hni _, hnil⟩
  | asyncCb o it => exact ⟨hni _, hnil⟩
  | asyncSent o it => exact ⟨hni _, hnil⟩
  | asyncTmo o it htm => exact ⟨fun _ h => by simp [pend] at h, hnil⟩
  | wgCb o w' it => exact ⟨hni _, hnil⟩
  | wgSent o w' it => exact ⟨hni _, hnil⟩
  | wgTmo o w' it htm => exact ⟨fun _ h => by simp [pend] at h, hnil⟩

theorem getElem?_set_append_self {α} (l new : List α) (i : Nat) (x : α) (hi : i < l.length) :
    (l.set i x ++ new)[i]? = some x := by
  rw [List.getElem?_append_left (by simpa using hi), List.getElem?_set]
  simp [hi]

theorem cP_zero_of_no_pending {p : Nat} {s : State} (h : ∀ t ∈ s.tasks, ∀ it ∈ pend t, it.pid ≠ p) (k : Key)
    (hk : k.1 = p) : cP k s = 0 := by
  rw [cP, List.count_eq_zero]
  intro hm
  simp only [pendKeys, List.mem_flatMap, pk, List.mem_map] at hm
  obtain ⟨t, ht, it, hit, rfl⟩ := hm
  exact h t ht it hit hk

structure WaitInv (i p o w : Nat) (s : State) : Prop where
  started : nPS p s = 0
  wg : ∀ t ∈ s.tasks, ∀ it ∈ pend t, it.pid = p → isWgSend w t = true
  mine : s.tasks[i]? = some (.waitWg p o w) ∨
    ∃ t, s.tasks[i]? = some t ∧ (t = .pubRet p ∨ isCtl t = true) ∧ ∀ k : Key, k.1 = p → cP k s = 0

theorem mem_set_append {α} {l new : List α} {j : Nat} {t' x : α} (h : x ∈ l.set j t' ++ new) :
    x = t' ∨ x ∈ l ∨ x ∈ new := by
  rcases List.mem_append.mp h with h | h
  · rcases List.mem_or_eq_of_mem_set h with h | h
    · exact Or.inr (Or.inl h)
    · exact Or.inl h
  · exact Or.inr (Or.inr h)

theorem waitInv_bstep {cfg : Cfg} {i p o w : Nat} {s s' : State} (hs : Safe s) (hused : p ∈ s.pids)
    (hI : WaitInv i p o w s) (h : BStep cfg s s') : WaitInv i p o w s' := by
  have hcP : ∀ k : Key, k.1 = p → cP k s' ≤ cP k s := fun k hk => by
    subst hk; exact (bstep_counts h k hI.started).2.2.1
  refine ⟨bstep_nPS_zero h hused hI.started, ?_, ?_⟩
  · intro x hx
    cases h with
    | same h1 h2 h3 h4 => rw [h1] at hx; exact hI.wg x hx
    | spawnCtl t0 hc h1 h2 h3 h4 =>
      rw [h1] at hx
      rcases List.mem_append.mp hx with hx | hx
      · exact hI.wg x hx
      · simp only [List.mem_singleton] at hx; subst hx
        rw [pend_ctl hc]; intro _ h; cases h
    | invoke p0 o0 v evs hp0 h0 h1 h2 h3 =>
      rw [h1] at hx
      rcases List.mem_append.mp hx with hx | hx
      · exact hI.wg x hx
      · simp only [List.mem_singleton] at hx; subst hx
        intro _ h; cases h
    | task j0 t0 t' new dl tl hj0 hT h1 h2 h3 h4 =>
      rw [h1] at hx
      have hq : isPubStart p t0 = false := countP_zero_getElem? hI.started hj0
      obtain ⟨a, b⟩ := tstep_wg hT p w hq (hI.wg t0 (List.mem_of_getElem? hj0))
      rcases mem_set_append hx with rfl | hx | hx
      · exact a
      · exact hI.wg x hx
      · exact b x hx
  · rcases hI.mine with hi | ⟨t, hi, hshape, hz⟩
    · rcases bstep_other h hi with hi' | ⟨t', new, dl, tl, hT, h1, h2, h3, h4⟩
      · exact Or.inl hi'
      · have hlt := lt_length_of_getElem? hi
        cases hT with
        | stuck _ hn => left; rw [h1]; simp [hlt]
        | ctl c1 c2 => simp [isCtl] at c1
        | waitRet _ _ _ hz =>
          right
          refine ⟨.pubRet p, by rw [h1]; simp [hlt], Or.inl rfl, fun k hk => ?_⟩
          have hc := hs.wgc w
          rw [hz] at hc
          have hnone : ∀ t ∈ s.tasks, ∀ it ∈ pend t, it.pid ≠ p := by
            intro t ht it hit hpid
            have h1 := hI.wg t ht it hit hpid
            have h2 := (List.countP_eq_zero.mp hc.symm) t ht
            exact h2 h1
          have := hcP k hk
          have := cP_zero_of_no_pending hnone k hk
          omega
    · right
      have hz' : ∀ k : Key, k.1 = p → cP k s' = 0 := fun k hk => by
        have := hcP k hk; have := hz k hk; omega
      rcases bstep_other h hi with hi' | ⟨t', new, dl, tl, hT, h1, h2, h3, h4⟩
      · exact ⟨t, hi', hshape, hz'⟩
      · have hlt := lt_length_of_getElem? hi
        refine ⟨t', by rw [h1]; exact getElem?_set_append_self _ _ _ _ hlt, ?_, hz'⟩
        rcases hshape with rfl | hc
        · cases hT with
          | stuck _ hn => exact Or.inl rfl
          | ctl c1 c2 => simp [isCtl] at c1
          | ret => exact Or.inr rfl
        · cases hT with
          | stuck _ hn => exact Or.inr hc
          | ctl c1 c2 => exact Or.inr c2
          | _ => simp [isCtl] at hc

/-- the snapshot step of a PubWait / PubSliceWait call establishes `WaitInv` for a fresh WaitGroup -/
theorem Snapshot.waitInv {cfg : Cfg} {s0 s1 : State} {i p o : Nat} {v : Variant} {evs : List Int}
    (h : Snapshot cfg s0 s1 i p o v evs) (hv : v.isSync = false) (hw : v.isWait = true) :
    WaitInv i p o s0.wgs.length s1 := by
  obtain ⟨a, b, c⟩ := h.counts
  obtain ⟨t', new, hT, h1, hne⟩ := h.trans
  have hlt := lt_length_of_getElem? h.at0
  have hz : ∀ t ∈ s0.tasks, ∀ it ∈ pend t, it.pid ≠ p := by
    intro t ht it hit hp
    have h0 := h.zero0 (key it) hp
    have : cP (key it) s0 = 0 := by omega
    rw [cP, List.count_eq_zero] at this
    apply this
    simp only [pendKeys, List.mem_flatMap]
    exact ⟨t, ht, by simp only [pk, List.mem_map]; exact ⟨it, hit, rfl⟩⟩
  have hshape : t' = .waitWg p o s0.wgs.length ∧
      new = (mkItems p evs (s0.obj o).subs).map (fun it => Task.wgSend o s0.wgs.length it false) := by
    cases hT with
    | stuck _ hn => simp [isPub] at hn
    | ctl c1 c2 => simp [isCtl] at c1
    | pubSync _ _ _ _ hv' => rw [hv] at hv'; cases hv'
    | pubWait => exact ⟨rfl, rfl⟩
    | pubAsync _ _ _ _ _ hw' => rw [hw] at hw'; cases hw'
  obtain ⟨rfl, rfl⟩ := hshape
  refine ⟨a, ?_, Or.inl (by rw [h1]; exact getElem?_set_append_self _ _ _ _ hlt)⟩
  intro x hx it hit hpid
  rw [h1] at hx
  rcases mem_set_append hx with rfl | hx | hx
  · cases hit
  · exact absurd hpid (hz x hx it hit)
  · simp only [List.mem_map] at hx; obtain ⟨_, _, rfl⟩ := hx
    simp [isWgSend]

theorem WaitInv.returned {i p o w : Nat} {s : State} (hI : WaitInv i p o w s)
    (hret : s.tasks[i]? = some (.pubRet p) ∨ s.tasks[i]? = some .done) : ∀ k : Key, k.1 = p → cP k s = 0 := by
  rcases hI.mine with hi | ⟨t, _, _, hz⟩
  · rcases hret with h | h <;> (rw [hi] at h; cases h)
  · exact hz

end TypVerif.Lemmas.PubSubLog
