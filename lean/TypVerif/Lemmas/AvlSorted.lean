import TypVerif.Lemmas.AvlBasic
/-
C01 one-step lemmas: comparator facts, sorted lists, BST ↔ sorted in-order, `add` = ordered insertion,
`find`/`contains` = membership, `remove` = erase one occurrence, uniqueness of sorted permutations.
-/
set_option linter.unusedSectionVars false
namespace TypVerif.Lemmas.Avl
open TypVerif.Model.Avl TypVerif.Model.Avl.Node TypVerif.Spec.Avl

variable {α : Type} {cmp : α → α → Int}

/-! ### comparator -/

theorem _root_.TypVerif.Spec.Avl.CmpOK.refl (ok : CmpOK cmp) (a : α) : cmp a a ≤ 0 := by
  have := (ok.eq0 a a).mpr rfl; omega

theorem _root_.TypVerif.Spec.Avl.CmpOK.not_lt (ok : CmpOK cmp) {a b : α} : ¬ cmp a b < 0 ↔ cmp b a ≤ 0 := by
  have := ok.antisym a b; omega

theorem _root_.TypVerif.Spec.Avl.CmpOK.lt_iff (ok : CmpOK cmp) {a b : α} : cmp a b < 0 ↔ ¬ cmp b a ≤ 0 := by
  have := ok.antisym a b; omega

theorem _root_.TypVerif.Spec.Avl.CmpOK.antisymm (ok : CmpOK cmp) {a b : α} (h1 : cmp a b ≤ 0) (h2 : cmp b a ≤ 0) : a = b := by
  apply (ok.eq0 a b).mp
  have := ok.antisym a b; omega

theorem _root_.TypVerif.Spec.Avl.CmpOK.total (ok : CmpOK cmp) (a b : α) : cmp a b ≤ 0 ∨ cmp b a ≤ 0 := by
  have := ok.antisym b a; omega

/-- the three comparators of the correspondence are total orders consistent with `==` -/
theorem natCmp_ok : CmpOK natCmp := by
  refine ⟨?_, ?_, ?_⟩
  · intro a b; unfold natCmp; repeat' split
    all_goals omega
  · intro a b; unfold natCmp; repeat' split
    all_goals omega
  · intro a b c; unfold natCmp; intro h1 h2
    by_cases e1 : a > b
    · simp [e1] at h1
    · by_cases e2 : b > c
      · simp [e2] at h2
      · have : ¬ a > c := by omega
        simp only [this, if_false]; split <;> omega

theorem revCmp_ok : CmpOK revCmp := by
  have ok := natCmp_ok
  refine ⟨?_, ?_, ?_⟩
  · intro a b; unfold revCmp; rw [ok.eq0]; exact eq_comm
  · intro a b; unfold revCmp; exact ok.antisym b a
  · intro a b c h1 h2; unfold revCmp at *; exact ok.trans c b a h2 h1

theorem lexCmp_ok (f : Int → Int) : CmpOK (lexCmp f) := by
  refine ⟨?_, ?_, ?_⟩
  · intro a b; unfold lexCmp natCmp
    constructor
    · intro h; split at h <;> (try split at h) <;> (try split at h) <;> (try split at h) <;> omega
    · intro h; subst h; simp
  · intro a b; unfold lexCmp natCmp
    split <;> split <;> (try split) <;> (try split) <;> (try split) <;> (try split) <;> omega
  · intro a b c; unfold lexCmp natCmp; intro h1 h2
    by_cases e1 : f a < f b
    · by_cases e2 : f b < f c
      · have : f a < f c := by omega
        simp [this]
      · by_cases e3 : f b > f c
        · simp [e2, e3] at h2
        · have : f a < f c := by omega
          simp [this]
    · by_cases e1' : f a > f b
      · simp [e1, e1'] at h1
      · have eab : f a = f b := by omega
        by_cases e2 : f b < f c
        · have : f a < f c := by omega
          simp [this]
        · by_cases e3 : f b > f c
          · simp [e2, e3] at h2
          · have ebc : f b = f c := by omega
            have n1 : ¬ f a < f c := by omega
            have n2 : ¬ f a > f c := by omega
            simp only [e1, e1', e2, e3, n1, n2, if_false] at h1 h2 ⊢
            split at h1 <;> (try split at h1) <;> split at h2 <;> (try split at h2) <;> split <;> (try split) <;> omega

theorem mod7Cmp_ok : CmpOK mod7Cmp := lexCmp_ok _

theorem cmpOfId_ok (c : Int) : CmpOK (cmpOfId c) := by
  unfold cmpOfId; split
  · exact revCmp_ok
  · split
    · exact mod7Cmp_ok
    · exact natCmp_ok

/-! ### sorted lists and ordered insertion -/

theorem sorted_nil : Sorted cmp ([] : List α) := List.Pairwise.nil

theorem sorted_cons {a : α} {l : List α} :
    Sorted cmp (a :: l) ↔ (∀ b ∈ l, cmp a b ≤ 0) ∧ Sorted cmp l := List.pairwise_cons

theorem sorted_append {l1 l2 : List α} :
    Sorted cmp (l1 ++ l2) ↔ Sorted cmp l1 ∧ Sorted cmp l2 ∧ ∀ a ∈ l1, ∀ b ∈ l2, cmp a b ≤ 0 :=
  List.pairwise_append

theorem mem_sinsert {x y : α} {l : List α} : y ∈ sinsert cmp x l ↔ y = x ∨ y ∈ l := by
  induction l with
  | nil => simp [sinsert]
  | cons a l ih =>
    simp only [sinsert]; split
    · simp
    · simp only [List.mem_cons, ih]
      constructor
      · rintro (h | h | h) <;> simp [h]
      · rintro (h | h | h) <;> simp [h]

theorem perm_sinsert (x : α) (l : List α) : (sinsert cmp x l).Perm (x :: l) := by
  induction l with
  | nil => exact List.Perm.refl _
  | cons a l ih =>
    simp only [sinsert]; split
    · exact List.Perm.refl _
    · exact (List.Perm.cons a ih).trans (List.Perm.swap x a l)

theorem length_sinsert (x : α) (l : List α) : (sinsert cmp x l).length = l.length + 1 := by
  simpa using (perm_sinsert (cmp := cmp) x l).length_eq

theorem sorted_sinsert (ok : CmpOK cmp) (x : α) {l : List α} (h : Sorted cmp l) : Sorted cmp (sinsert cmp x l) := by
  induction l with
  | nil => simp [sinsert, Sorted]
  | cons a l ih =>
    rw [sorted_cons] at h
    simp only [sinsert]; split
    · rename_i hlt
      have hxa : cmp x a ≤ 0 := by omega
      rw [sorted_cons]
      refine ⟨?_, sorted_cons.mpr h⟩
      intro b hb
      rcases List.mem_cons.mp hb with rfl | hb
      · exact hxa
      · exact ok.trans _ _ _ hxa (h.1 b hb)
    · rename_i hnlt
      have hax : cmp a x ≤ 0 := ok.not_lt.mp hnlt
      rw [sorted_cons]
      refine ⟨?_, ih h.2⟩
      intro b hb
      rcases mem_sinsert.mp hb with rfl | hb
      · exact hax
      · exact h.1 b hb

/-- insertion stops before `b` when `x < b` -/
theorem sinsert_append_lt (x b : α) (A B : List α) (h : cmp x b < 0) :
    sinsert cmp x (A ++ b :: B) = sinsert cmp x A ++ b :: B := by
  induction A with
  | nil => simp [sinsert, h]
  | cons a A ih => simp only [List.cons_append, sinsert]; split <;> simp [ih]

/-- insertion passes a prefix of elements `≤ x` -/
theorem sinsert_append_ge (ok : CmpOK cmp) (x : α) (A B : List α) (h : ∀ a ∈ A, cmp a x ≤ 0) :
    sinsert cmp x (A ++ B) = A ++ sinsert cmp x B := by
  induction A with
  | nil => rfl
  | cons a A ih =>
    have h1 : ¬ cmp x a < 0 := ok.not_lt.mpr (h a (by simp))
    simp only [List.cons_append, sinsert, h1, if_false]
    rw [ih (fun a' ha' => h a' (by simp [ha']))]

/-! ### BST = sorted in-order -/

theorem bst_iff_sorted (ok : CmpOK cmp) (t : Node α) : BST cmp t ↔ Sorted cmp (inorder t) := by
  induction t with
  | nil => simp [BST, Sorted]
  | node l v h r ihl ihr =>
    simp only [BST, inorder_node, sorted_append, sorted_cons, ihl, ihr]
    constructor
    · rintro ⟨h1, h2, h3, h4⟩
      refine ⟨h1, ⟨h4, h2⟩, ?_⟩
      intro a ha b hb
      rcases List.mem_cons.mp hb with rfl | hb
      · exact h3 a ha
      · exact ok.trans _ _ _ (h3 a ha) (h4 b hb)
    · rintro ⟨h1, ⟨h4, h2⟩, h5⟩
      exact ⟨h1, h2, fun x hx => h5 x hx v (by simp), h4⟩

/-! ### add -/

section
variable [DecidableEq α]

/-- C01.inorder_add (multiset part; no hypothesis needed) -/
theorem inorder_add_perm (cmp : α → α → Int) (x : α) (t : Node α) : (inorder (add cmp x t)).Perm (x :: inorder t) := by
  induction t with
  | nil => exact List.Perm.refl _
  | node l v h r ihl ihr =>
    simp only [add]; split
    · simp only [inorder_rebalance, inorder_mk, inorder_node]
      exact (List.Perm.append_right _ ihl)
    · simp only [inorder_rebalance, inorder_mk, inorder_node]
      refine (List.Perm.append_left _ (List.Perm.cons v ihr)).trans ?_
      refine (List.Perm.append_left _ (List.Perm.swap x v _)).trans ?_
      exact List.perm_middle

/-- `add` is ordered insertion on the in-order walk -/
theorem inorder_add_eq (ok : CmpOK cmp) (x : α) (t : Node α) (ht : BST cmp t) :
    inorder (add cmp x t) = sinsert cmp x (inorder t) := by
  induction t with
  | nil => rfl
  | node l v h r ihl ihr =>
    simp only [BST] at ht
    obtain ⟨bl, br, hl, hr⟩ := ht
    simp only [add]; split
    · rename_i hlt
      simp only [inorder_rebalance, inorder_mk, inorder_node, ihl bl]
      rw [sinsert_append_lt x v _ _ hlt]
    · rename_i hnlt
      have hvx : cmp v x ≤ 0 := ok.not_lt.mp hnlt
      simp only [inorder_rebalance, inorder_mk, inorder_node, ihr br]
      rw [sinsert_append_ge ok x _ _ (fun a ha => ok.trans _ _ _ (hl a ha) hvx)]
      simp only [sinsert, hnlt, if_false]

/-- C01.sorted_add -/
theorem bst_add (ok : CmpOK cmp) (x : α) (t : Node α) (ht : BST cmp t) : BST cmp (add cmp x t) := by
  rw [bst_iff_sorted ok, inorder_add_eq ok x t ht]
  exact sorted_sinsert ok x ((bst_iff_sorted ok t).mp ht)

/-! ### find / contains -/

/-- C01.find_iff -/
theorem contains_iff (ok : CmpOK cmp) (x : α) (t : Node α) (ht : BST cmp t) :
    contains cmp x t = true ↔ x ∈ inorder t := by
  unfold contains
  induction t with
  | nil => simp [find]
  | node l v h r ihl ihr =>
    simp only [BST] at ht
    obtain ⟨bl, br, hl, hr⟩ := ht
    unfold find
    simp only [inorder_node, List.mem_append, List.mem_cons]
    split
    · rename_i e; simp [e]
    · rename_i hne
      have hne' : x ≠ v := fun e => hne e.symm
      have hne0 : cmp x v ≠ 0 := fun e => hne' ((ok.eq0 x v).mp e)
      split
      · rename_i hc
        simp only [Bool.and_eq_true, decide_eq_true_eq] at hc
        rw [ihl bl]
        constructor
        · intro h; exact Or.inl h
        · rintro (h | h | h)
          · exact h
          · exact absurd h hne'
          · have := hr x h; have := ok.antisym x v; omega
      · rename_i hc
        simp only [Bool.and_eq_true, decide_eq_true_eq, not_and, Bool.not_eq_eq_eq_not,
          Bool.not_true] at hc
        have notl : x ∉ inorder l := by
          intro hx
          cases l with
          | nil => simp at hx
          | node ll lv lh lr =>
            have := hc (by simp [isNil])
            have := hl x hx
            omega
        split
        · rw [ihr br]
          constructor
          · intro h; exact Or.inr (Or.inr h)
          · rintro (h | h | h)
            · exact absurd h notl
            · exact absurd h hne'
            · exact h
        · rename_i hrn
          have : r = nil := by cases r <;> simp [isNil] at hrn ⊢
          subst this
          simp [notl, hne']

/-! ### remove -/

theorem inorder_popLeftMost (l : Node α) (v : α) (r : Node α) :
    (popLeftMost l v r).2 :: inorder (popLeftMost l v r).1 = inorder l ++ v :: inorder r := by
  induction l generalizing v r with
  | nil => rfl
  | node ll lv lh lr ihl _ =>
    simp only [popLeftMost, inorder_rebalance, inorder_mk, inorder_node]
    rw [← ihl lv lr]; simp

/-- `remove` follows the search path of `find` -/
theorem remove_snd_eq_contains (cmp : α → α → Int) (x : α) (t : Node α) :
    (remove cmp x t).2 = contains cmp x t := by
  unfold contains
  induction t with
  | nil => rfl
  | node l v h r ihl ihr =>
    unfold remove find
    split
    · cases l <;> cases r <;> rfl
    · split
      · rw [← ihl]
        rcases remove cmp x l with ⟨n, ok⟩
        cases ok <;> rfl
      · split
        · rw [← ihr]
          rcases remove cmp x r with ⟨n, ok⟩
          cases ok <;> rfl
        · rfl

/-- C01.remove_absent (first half): a failed `remove` returns the very same tree -/
theorem remove_false (cmp : α → α → Int) (x : α) (t : Node α) (h : (remove cmp x t).2 = false) :
    (remove cmp x t).1 = t := by
  induction t with
  | nil => rfl
  | node l v c r ihl ihr =>
    unfold remove at h ⊢
    split
    · rename_i e
      simp only [e, if_true] at h
      cases l <;> cases r <;> simp at h
    · rename_i e
      simp only [e, if_false] at h
      split
      · rename_i hc
        simp only [hc, if_true] at h
        rcases hrem : remove cmp x l with ⟨n, ok⟩
        rw [hrem] at h
        cases ok
        · rfl
        · simp at h
      · rename_i hc
        simp only [hc] at h
        split
        · rename_i hr
          simp only [hr, if_true] at h
          rcases hrem : remove cmp x r with ⟨n, ok⟩
          rw [hrem] at h
          cases ok
          · rfl
          · simp at h
        · rfl

/-- a successful `remove` deletes exactly one occurrence from the in-order walk -/
theorem remove_true (cmp : α → α → Int) (x : α) (t : Node α) (h : (remove cmp x t).2 = true) :
    ∃ A B, inorder t = A ++ x :: B ∧ inorder (remove cmp x t).1 = A ++ B := by
  induction t with
  | nil => simp [remove] at h
  | node l v c r ihl ihr =>
    unfold remove at h ⊢
    split
    · rename_i e
      subst e
      cases l with
      | nil =>
        cases r with
        | nil => exact ⟨[], [], by simp, by simp⟩
        | node rl rv rh rr => exact ⟨[], inorder (node rl rv rh rr), by simp, by simp⟩
      | node ll lv lh lr =>
        cases r with
        | nil => exact ⟨inorder (node ll lv lh lr), [], by simp, by simp⟩
        | node rl rv rh rr =>
          refine ⟨inorder (node ll lv lh lr), inorder (node rl rv rh rr), by simp, ?_⟩
          simp only [inorder_rebalance, inorder_mk]
          rw [inorder_popLeftMost]; simp
    · rename_i e
      simp only [e, if_false] at h
      split
      · rename_i hc
        simp only [hc, if_true] at h
        rcases hrem : remove cmp x l with ⟨n, ok⟩
        rw [hrem] at h ihl
        cases ok
        · simp at h
        · obtain ⟨A, B, e1, e2⟩ := ihl rfl
          simp only at e2
          refine ⟨A, B ++ v :: inorder r, by simp [e1], ?_⟩
          simp [e2]
      · rename_i hc
        simp only [hc] at h
        split
        · rename_i hr
          simp only [hr, if_true] at h
          rcases hrem : remove cmp x r with ⟨n, ok⟩
          rw [hrem] at h ihr
          cases ok
          · simp at h
          · obtain ⟨A, B, e1, e2⟩ := ihr rfl
            simp only at e2
            refine ⟨inorder l ++ v :: A, B, by simp [e1], ?_⟩
            simp [e2]
        · rename_i hr
          simp [hr] at h

end

/-! ### uniqueness of the sorted arrangement -/

/-- C01.sorted_unique -/
theorem sorted_unique (ok : CmpOK cmp) {l1 l2 : List α} (s1 : Sorted cmp l1) (s2 : Sorted cmp l2)
    (p : l1.Perm l2) : l1 = l2 := by
  induction l1 generalizing l2 with
  | nil => exact (List.Perm.nil_eq p)
  | cons a l1 ih =>
    cases l2 with
    | nil => exact absurd p.length_eq (by simp)
    | cons b l2 =>
      rw [sorted_cons] at s1 s2
      have hab : a = b := by
        have ha : a ∈ b :: l2 := p.subset (by simp)
        have hb : b ∈ a :: l1 := p.symm.subset (by simp)
        rcases List.mem_cons.mp ha with e | ha
        · exact e
        · rcases List.mem_cons.mp hb with e | hb
          · exact e.symm
          · exact ok.antisymm (s1.1 b hb) (s2.1 a ha)
      subst hab
      rw [ih s1.2 s2.2 (List.Perm.cons_inv p)]

end TypVerif.Lemmas.Avl
