import TypVerif.Lemmas.SetConc
/-
C05, the clause "the counts returned by AddSet and RemoveSet add up the same way": counting lemmas.

`AddSet(set)` is a loop of element `Add`s returning the number of those that reported `true` (`C05.gen_addset_is_a_loop_of_adds`),
`RemoveSet` likewise with `Remove`.  So the clause is a statement about the TOTAL numbers of successful Adds and Removes in a
sequential history of the set specification (`okAdds`, `okRemoves`) and the number of members of the final set
(`List.countP final vs` for a duplicate-free list `vs` of all the values the history mentions), plus the (trivial) fact that
the totals are the sums of the per-call counts for any partition of the element operations into calls.
-/
namespace TypVerif.Lemmas.SetCounts
open TypVerif TypVerif.Spec.AtomicSet

set_option linter.unusedSectionVars false
set_option linter.unusedVariables false
set_option linter.unusedSimpArgs false

variable {α : Type} [DecidableEq α]

/-- a successful `Add` (one that reported `true`) -/
def isOkAdd : SOp α × Bool → Bool
  | (.add _, true) => true
  | _ => false

/-- a successful `Remove` (one that reported `true`) -/
def isOkRemove : SOp α × Bool → Bool
  | (.remove _, true) => true
  | _ => false

/-- number of successful Adds in a history -/
def okAdds (l : List (SOp α × Bool)) : Nat := l.countP isOkAdd

/-- number of successful Removes in a history -/
def okRemoves (l : List (SOp α × Bool)) : Nat := l.countP isOkRemove

/-- the value a call is about -/
def opValue : SOp α → α
  | .add v => v
  | .remove v => v
  | .has v => v

/-- a duplicate-free list of all the values mentioned by `ops` -/
def touched (ops : List (SOp α)) : List α := (ops.map opValue).eraseDups

/-- the count a (Add/Remove)Set call returns: the number of `true` results among its element operations -/
def callCount (g : List (SOp α × Bool)) : Nat := g.countP (fun x => x.2)

/-! ### `eraseDups` is duplicate-free -/

theorem nodup_eraseDups_aux : ∀ (n : Nat) (l : List α), l.length ≤ n → l.eraseDups.Nodup := by
  intro n
  induction n with
  | zero =>
    intro l hl
    have : l = [] := List.length_eq_zero_iff.mp (Nat.le_zero.mp hl)
    subst this
    simp
  | succ n ih =>
    intro l hl
    cases l with
    | nil => simp
    | cons a as =>
      rw [List.eraseDups_cons, List.nodup_cons]
      constructor
      · intro hm
        have hm' := List.mem_eraseDups.mp hm
        have := (List.mem_filter.mp hm').2
        simp at this
      · apply ih
        have h1 : (List.filter (fun b => !b == a) as).length ≤ as.length := List.length_filter_le _ _
        have h2 : as.length + 1 ≤ n + 1 := hl
        omega

theorem nodup_eraseDups (l : List α) : l.eraseDups.Nodup := nodup_eraseDups_aux l.length l (Nat.le_refl _)

theorem touched_nodup (ops : List (SOp α)) : (touched ops).Nodup := nodup_eraseDups _

theorem mem_touched {ops : List (SOp α)} {op : SOp α} (h : op ∈ ops) : opValue op ∈ touched ops :=
  List.mem_eraseDups.mpr (List.mem_map.mpr ⟨op, h, rfl⟩)

theorem mem_touched_iff {ops : List (SOp α)} {v : α} : v ∈ touched ops ↔ ∃ op ∈ ops, opValue op = v := by
  unfold touched
  rw [List.mem_eraseDups, List.mem_map]

/-! ### updating one point of a membership function changes the member count of a duplicate-free list by one -/

theorem countP_upd_notMem (m : α → Bool) (v : α) (b : Bool) : ∀ (vs : List α), v ∉ vs →
    vs.countP (fun x => if x = v then b else m x) = vs.countP m := by
  intro vs
  induction vs with
  | nil => intro _; rfl
  | cons a as ih =>
    intro h
    have ha : a ≠ v := fun e => h (e ▸ List.mem_cons_self)
    have has : v ∉ as := fun e => h (List.mem_cons_of_mem _ e)
    rw [List.countP_cons, List.countP_cons, ih has]
    simp [ha]

theorem countP_upd_true (m : α → Bool) (v : α) (hm : m v = false) : ∀ (vs : List α), vs.Nodup → v ∈ vs →
    vs.countP (fun x => if x = v then true else m x) = vs.countP m + 1 := by
  intro vs
  induction vs with
  | nil => intro _ h; cases h
  | cons a as ih =>
    intro hnd hmem
    obtain ⟨hna, hnd'⟩ := List.nodup_cons.mp hnd
    rw [List.countP_cons, List.countP_cons]
    by_cases ha : a = v
    · subst ha
      rw [countP_upd_notMem m a true as hna]
      simp [hm]
    · have hv : v ∈ as := by
        cases List.mem_cons.mp hmem with
        | inl e => exact absurd e.symm ha
        | inr e => exact e
      rw [ih hnd' hv]
      simp [ha]
      omega

theorem countP_upd_false (m : α → Bool) (v : α) (hm : m v = true) : ∀ (vs : List α), vs.Nodup → v ∈ vs →
    vs.countP (fun x => if x = v then false else m x) + 1 = vs.countP m := by
  intro vs
  induction vs with
  | nil => intro _ h; cases h
  | cons a as ih =>
    intro hnd hmem
    obtain ⟨hna, hnd'⟩ := List.nodup_cons.mp hnd
    rw [List.countP_cons, List.countP_cons]
    by_cases ha : a = v
    · subst ha
      rw [countP_upd_notMem m a false as hna]
      simp [hm]
    · have hv : v ∈ as := by
        cases List.mem_cons.mp hmem with
        | inl e => exact absurd e.symm ha
        | inr e => exact e
      have := ih hnd' hv
      simp only [ha, ↓reduceIte]
      omega

/-- a no-op update -/
theorem upd_same (m : α → Bool) (v : α) (b : Bool) (hm : m v = b) : (fun x => if x = v then b else m x) = m := by
  funext x
  by_cases hx : x = v
  · subst hx; simp [hm]
  · simp [hx]

/-- **One call.**  (1 if the call is a successful Add) + #members before = (1 if it is a successful Remove) + #members after,
the members being counted over any duplicate-free list containing the call's value. -/
theorem step_counts (m : SState α) (op : SOp α) (vs : List α) (hnd : vs.Nodup) (hv : opValue op ∈ vs) :
    (if isOkAdd (op, (sstep m op).2) = true then 1 else 0) + vs.countP m =
      (if isOkRemove (op, (sstep m op).2) = true then 1 else 0) + vs.countP (sstep m op).1 := by
  cases op with
  | has w => simp [sstep, isOkAdd, isOkRemove]
  | add w =>
    cases hm : m w with
    | true =>
      have h1 : (sstep m (.add w)).2 = false := by simp [sstep, hm]
      have h2 : (sstep m (.add w)).1 = m := upd_same m w true hm
      rw [h1, h2]
      simp [isOkAdd, isOkRemove]
    | false =>
      have h1 : (sstep m (.add w)).2 = true := by simp [sstep, hm]
      have h2 : vs.countP (sstep m (.add w)).1 = vs.countP m + 1 := countP_upd_true m w hm vs hnd hv
      rw [h1, h2]
      simp [isOkAdd, isOkRemove]
      omega
  | remove w =>
    cases hm : m w with
    | false =>
      have h1 : (sstep m (.remove w)).2 = false := by simp [sstep, hm]
      have h2 : (sstep m (.remove w)).1 = m := upd_same m w false hm
      rw [h1, h2]
      simp [isOkAdd, isOkRemove]
    | true =>
      have h1 : (sstep m (.remove w)).2 = true := by simp [sstep, hm]
      have h2 : vs.countP (sstep m (.remove w)).1 + 1 = vs.countP m := countP_upd_false m w hm vs hnd hv
      rw [h1]
      simp [isOkAdd, isOkRemove]
      omega

/-- **A whole sequential history, from any starting set.**  #okAdd + #members at the start = #okRemove + #members at the end
(members counted over any duplicate-free `vs` containing every value the history mentions). -/
theorem counts_from (vs : List α) (hnd : vs.Nodup) : ∀ (ops : List (SOp α)) (m : SState α),
    (∀ op ∈ ops, opValue op ∈ vs) →
    okAdds (srunFrom m ops).2 + vs.countP m = okRemoves (srunFrom m ops).2 + vs.countP (srunFrom m ops).1 := by
  intro ops
  induction ops with
  | nil => intro m _; simp [srunFrom, okAdds, okRemoves]
  | cons op rest ih =>
    intro m hcov
    have hrun : srunFrom m (op :: rest) =
        ((srunFrom (sstep m op).1 rest).1, (op, (sstep m op).2) :: (srunFrom (sstep m op).1 rest).2) := rfl
    have i := ih (sstep m op).1 (fun o ho => hcov o (List.mem_cons_of_mem _ ho))
    have s := step_counts m op vs hnd (hcov op List.mem_cons_self)
    rw [hrun]
    unfold okAdds okRemoves at *
    simp only [List.countP_cons]
    omega

/-- values never mentioned keep their membership -/
theorem srunFrom_untouched (v : α) : ∀ (ops : List (SOp α)) (m : SState α), (∀ op ∈ ops, opValue op ≠ v) →
    (srunFrom m ops).1 v = m v := by
  intro ops
  induction ops with
  | nil => intro m _; rfl
  | cons op rest ih =>
    intro m h
    have hrun : (srunFrom m (op :: rest)).1 = (srunFrom (sstep m op).1 rest).1 := rfl
    rw [hrun, ih (sstep m op).1 (fun o ho => h o (List.mem_cons_of_mem _ ho))]
    have hne := h op List.mem_cons_self
    cases op with
    | has w => rfl
    | add w =>
      have : ¬ v = w := fun e => hne e.symm
      simp [sstep, this]
    | remove w =>
      have : ¬ v = w := fun e => hne e.symm
      simp [sstep, this]

/-! ### grouping into calls -/

theorem sum_map_add {γ : Type} (f g : γ → Nat) : ∀ ids : List γ,
    (ids.map (fun c => f c + g c)).sum = (ids.map f).sum + (ids.map g).sum := by
  intro ids
  induction ids with
  | nil => rfl
  | cons a as ih => simp only [List.map_cons, List.sum_cons, ih]; omega

theorem sum_map_zero {γ : Type} : ∀ ids : List γ, (ids.map (fun _ => 0)).sum = 0 := by
  intro ids
  induction ids with
  | nil => rfl
  | cons a as ih => simp only [List.map_cons, List.sum_cons, ih]

theorem sum_indicator_notMem {γ : Type} [DecidableEq γ] (c0 : γ) : ∀ ids : List γ, c0 ∉ ids →
    (ids.map (fun c => if c0 = c then 1 else 0)).sum = 0 := by
  intro ids
  induction ids with
  | nil => intro _; rfl
  | cons a as ih =>
    intro h
    have ha : c0 ≠ a := fun e => h (e ▸ List.mem_cons_self)
    have has : c0 ∉ as := fun e => h (List.mem_cons_of_mem _ e)
    simp only [List.map_cons, List.sum_cons, ih has]
    simp [ha]

theorem sum_indicator {γ : Type} [DecidableEq γ] (c0 : γ) : ∀ ids : List γ, ids.Nodup → c0 ∈ ids →
    (ids.map (fun c => if c0 = c then 1 else 0)).sum = 1 := by
  intro ids
  induction ids with
  | nil => intro _ h; cases h
  | cons a as ih =>
    intro hnd hmem
    obtain ⟨hna, hnd'⟩ := List.nodup_cons.mp hnd
    simp only [List.map_cons, List.sum_cons]
    by_cases ha : c0 = a
    · subst ha
      rw [sum_indicator_notMem c0 as hna]
      simp
    · have hv : c0 ∈ as := by
        cases List.mem_cons.mp hmem with
        | inl e => exact absurd e ha
        | inr e => exact e
      rw [ih hnd' hv]
      simp [ha]

/-- **Grouping by a labelling.**  If every element of `l` satisfying `p` carries a call identifier `call x` from the
duplicate-free list `ids`, the per-call counts sum to the total count. -/
theorem countP_by_call {β γ : Type} [DecidableEq γ] (p : β → Bool) (call : β → γ) (ids : List γ) (hnd : ids.Nodup) :
    ∀ l : List β, (∀ x ∈ l, p x = true → call x ∈ ids) →
    (ids.map (fun c => l.countP (fun x => p x && decide (call x = c)))).sum = l.countP p := by
  intro l
  induction l with
  | nil =>
    intro _
    exact sum_map_zero ids
  | cons a as ih =>
    intro hcov
    have i := ih (fun x hx => hcov x (List.mem_cons_of_mem _ hx))
    have hfun : (fun c => (a :: as).countP (fun x => p x && decide (call x = c))) =
        (fun c => as.countP (fun x => p x && decide (call x = c)) +
          (if p a = true then (if call a = c then 1 else 0) else 0)) := by
      funext c
      rw [List.countP_cons]
      congr 1
      cases hp : p a <;> simp
    rw [hfun, sum_map_add, i, List.countP_cons]
    congr 1
    cases hp : p a with
    | false => simpa using sum_map_zero ids
    | true =>
      simp only [if_true]
      exact sum_indicator (call a) ids hnd (hcov a List.mem_cons_self hp)

/-- counting over the indexed list is counting over the list -/
theorem countP_zipIdx {β : Type} (p : β → Bool) : ∀ (l : List β) (k : Nat),
    (l.zipIdx k).countP (fun x => p x.1) = l.countP p := by
  intro l
  induction l with
  | nil => intro _; rfl
  | cons a as ih =>
    intro k
    rw [List.zipIdx_cons, List.countP_cons, List.countP_cons, ih]

theorem mem_zipIdx_lt {β : Type} : ∀ (l : List β) (k : Nat) (x : β × Nat), x ∈ l.zipIdx k → x.2 < k + l.length := by
  intro l
  induction l with
  | nil => intro k x h; cases h
  | cons a as ih =>
    intro k x h
    rw [List.zipIdx_cons] at h
    cases List.mem_cons.mp h with
    | inl e => subst e; simp
    | inr e =>
      have := ih (k + 1) x e
      simp only [List.length_cons]
      omega

/-- the number of elements satisfying `p` among those at the positions that `call` assigns to the call `c` -/
def countIn {β γ : Type} [DecidableEq γ] (p : β → Bool) (call : Nat → γ) (c : γ) (l : List β) : Nat :=
  l.zipIdx.countP (fun x => p x.1 && decide (call x.2 = c))

/-- **Grouping by positions.**  For any assignment `call` of the positions of `l` to call identifiers from a duplicate-free
list `ids`, the per-call counts sum to the total. -/
theorem sum_countIn {β γ : Type} [DecidableEq γ] (p : β → Bool) (call : Nat → γ) (ids : List γ) (hnd : ids.Nodup)
    (l : List β) (hcov : ∀ i, i < l.length → call i ∈ ids) :
    (ids.map (fun c => countIn p call c l)).sum = l.countP p := by
  have h := countP_by_call (fun x : β × Nat => p x.1) (fun x => call x.2) ids hnd l.zipIdx
    (fun x hx _ => hcov x.2 (by have := mem_zipIdx_lt l 0 x hx; omega))
  rw [countP_zipIdx p l 0] at h
  exact h

/-- **Grouping of a history cut into consecutive pieces** (`countP_flatten`): totals are sums of per-piece counts -/
theorem okAdds_flatten (gs : List (List (SOp α × Bool))) : okAdds gs.flatten = (gs.map okAdds).sum :=
  List.countP_flatten

theorem okRemoves_flatten (gs : List (List (SOp α × Bool))) : okRemoves gs.flatten = (gs.map okRemoves).sum :=
  List.countP_flatten

/-- for a group consisting of Adds only (the element operations of one `AddSet` call, or a single `Add`) the returned
count — the number of `true` results — is the number of successful Adds -/
theorem callCount_adds : ∀ (g : List (SOp α × Bool)), (∀ x ∈ g, ∃ v, x.1 = SOp.add v) → callCount g = okAdds g := by
  intro g
  induction g with
  | nil => intro _; rfl
  | cons a as ih =>
    intro h
    have i := ih (fun x hx => h x (List.mem_cons_of_mem _ hx))
    obtain ⟨v, hv⟩ := h a List.mem_cons_self
    unfold callCount okAdds at *
    rw [List.countP_cons, List.countP_cons, i]
    obtain ⟨o, b⟩ := a
    simp only at hv
    subst hv
    cases b <;> simp [isOkAdd]

/-- the same for a group of Removes (one `RemoveSet` call, or a single `Remove`) -/
theorem callCount_removes : ∀ (g : List (SOp α × Bool)), (∀ x ∈ g, ∃ v, x.1 = SOp.remove v) →
    callCount g = okRemoves g := by
  intro g
  induction g with
  | nil => intro _; rfl
  | cons a as ih =>
    intro h
    have i := ih (fun x hx => h x (List.mem_cons_of_mem _ hx))
    obtain ⟨v, hv⟩ := h a List.mem_cons_self
    unfold callCount okRemoves at *
    rw [List.countP_cons, List.countP_cons, i]
    obtain ⟨o, b⟩ := a
    simp only at hv
    subst hv
    cases b <;> simp [isOkRemove]

/-- a group of Adds contains no successful Remove, and conversely -/
theorem okRemoves_adds : ∀ (g : List (SOp α × Bool)), (∀ x ∈ g, ∃ v, x.1 = SOp.add v) → okRemoves g = 0 := by
  intro g
  induction g with
  | nil => intro _; rfl
  | cons a as ih =>
    intro h
    have i := ih (fun x hx => h x (List.mem_cons_of_mem _ hx))
    obtain ⟨v, hv⟩ := h a List.mem_cons_self
    unfold okRemoves at *
    rw [List.countP_cons, i]
    obtain ⟨o, b⟩ := a
    simp only at hv
    subst hv
    cases b <;> simp [isOkRemove]

theorem okAdds_removes : ∀ (g : List (SOp α × Bool)), (∀ x ∈ g, ∃ v, x.1 = SOp.remove v) → okAdds g = 0 := by
  intro g
  induction g with
  | nil => intro _; rfl
  | cons a as ih =>
    intro h
    have i := ih (fun x hx => h x (List.mem_cons_of_mem _ hx))
    obtain ⟨v, hv⟩ := h a List.mem_cons_self
    unfold okAdds at *
    rw [List.countP_cons, i]
    obtain ⟨o, b⟩ := a
    simp only at hv
    subst hv
    cases b <;> simp [isOkAdd]

end TypVerif.Lemmas.SetCounts
