import TypVerif.Drv.C09conc
/-
The judge `C09conc` (`Drv/C09conc.lean`) only takes steps of the composed model `Model/KeyedMutexConc.lean`: every accepted
`inv` / `step` / `iter` / `res` line moves the judge's model state along a step of `KeyedMutexConc.stepT` with the matching label
(`pad` only creates idle goroutines).  So the transition system real step traces are replayed in is the one the `C09.conc_*`
theorems (`Props/C09conc.lean`) are about.
-/
namespace TypVerif.Lemmas.KeyedMutexConc
open TypVerif TypVerif.Model TypVerif.Model.SyncMapConc
open TypVerif.Drv.C09conc (St KS doStep doInv doIter doRes mapStep pad resStr)

theorem mapStep_sound {s s' : KS} {t : Nat} {kind : KeyedMutexConc.Kind} {k : Int} {label : String}
    (h : mapStep s t kind k label = some s') :
    ∃ ms' ∈ KeyedMutexConc.mapSteps s.map t, s' = KeyedMutexConc.contMap s t kind k ms' ∧ (s.map.pc t).label = label := by
  unfold mapStep at h
  simp only at h
  split at h
  · cases h
  · rename_i hl
    cases he : exec s.map.sh t (s.map.pc t) with
    | none => rw [he] at h; cases h
    | some p =>
      rw [he] at h
      cases h
      refine ⟨_, ?_, rfl, ?_⟩
      · unfold KeyedMutexConc.mapSteps
        rw [he]
        exact List.mem_append_left _ (List.mem_singleton.mpr rfl)
      · simpa using hl

/-- an accepted `step` line is an internal step of the model -/
theorem doStep_sound (menu : List (KeyedMutexConc.Op Int)) {st : St} {t : Nat} {label : String} {s' : KS}
    (h : doStep st t label = some s') : (none, s') ∈ KeyedMutexConc.stepT menu st.s t := by
  unfold doStep at h
  unfold KeyedMutexConc.stepT
  cases hp : st.s.phase t with
  | idle => rw [hp] at h; cases h
  | ret r => rw [hp] at h; cases h
  | inMap kind k =>
    rw [hp] at h
    obtain ⟨ms', hms, heq, _⟩ := mapStep_sound h
    exact List.mem_map.mpr ⟨ms', hms, by rw [heq]⟩
  | atHook kind k m =>
    simp only [hp] at h ⊢
    split at h
    · cases h
    · rw [h]; exact List.mem_singleton.mpr rfl

/-- an accepted `iter` line is an internal step of the model (a choice of the map's `range read.m` loop) -/
theorem doIter_sound (menu : List (KeyedMutexConc.Op Int)) {st : St} {t : Nat} {k : Int} {s' : KS}
    (h : doIter st t k = some s') : (none, s') ∈ KeyedMutexConc.stepT menu st.s t := by
  unfold doIter at h
  unfold KeyedMutexConc.stepT
  cases hp : st.s.phase t with
  | idle => rw [hp] at h; cases h
  | ret r => rw [hp] at h; cases h
  | atHook kind k m => rw [hp] at h; cases h
  | inMap kind k' =>
    simp only [hp] at h ⊢
    cases hf : (picks (st.s.map.pc t)).find? (·.1 == k) with
    | none => rw [hf] at h; cases h
    | some c =>
      rw [hf] at h
      cases h
      refine List.mem_map.mpr ⟨setPc st.s.map t st.s.map.sh c.2, ?_, rfl⟩
      unfold KeyedMutexConc.mapSteps
      exact List.mem_append_right _ (List.mem_map.mpr ⟨c, List.mem_of_find?_eq_some hf, rfl⟩)

/-- an accepted `inv` line is an invocation step of the model (discipline `invOk` included), after creating goroutines -/
theorem doInv_sound {st : St} {t : Nat} {kind : KeyedMutexConc.Kind} {k : Int} {s' : KS}
    (h : doInv st t kind k = some s') :
    (some (.inv t ⟨kind, k⟩), s') ∈ KeyedMutexConc.stepT [⟨kind, k⟩] (pad st.s (t + 1)) t := by
  unfold doInv at h
  unfold KeyedMutexConc.stepT
  simp only at h
  cases hp : (pad st.s (t + 1)).phase t with
  | ret r => rw [hp] at h; cases h
  | atHook kind k m => rw [hp] at h; cases h
  | inMap kind k' => rw [hp] at h; cases h
  | idle =>
    simp only [hp] at h ⊢
    split at h
    · rename_i hok
      cases h
      exact List.mem_map.mpr ⟨⟨kind, k⟩, List.mem_filter.mpr ⟨List.mem_singleton.mpr rfl, hok⟩, rfl⟩
    · cases h

/-- an accepted `res` line is the response step of the model with that result -/
theorem doRes_sound (menu : List (KeyedMutexConc.Op Int)) {st : St} {t : Nat} {r : String} {s' : KS}
    (h : doRes st t r = some s') :
    ∃ r', r = resStr r' ∧ (some (.res t r'), s') ∈ KeyedMutexConc.stepT menu st.s t := by
  unfold doRes at h
  unfold KeyedMutexConc.stepT
  cases hp : st.s.phase t with
  | idle => rw [hp] at h; cases h
  | atHook kind k m => rw [hp] at h; cases h
  | inMap kind k' => rw [hp] at h; cases h
  | ret r' =>
    simp only [hp] at h ⊢
    split at h
    · rename_i hr
      cases h
      exact ⟨r', by simpa using hr, List.mem_singleton.mpr rfl⟩
    · cases h

/-- creating goroutines: the initial state with more goroutines -/
theorem pad_init (n m : Nat) : pad (KeyedMutexConc.init n) m = KeyedMutexConc.init (n + (m - n)) := by
  simp [pad, KeyedMutexConc.init, SyncMapConc.init, List.replicate_append_replicate]

end TypVerif.Lemmas.KeyedMutexConc
