import TypVerif.Lemmas.Sets
/-
The binary `sets.Set` methods (receiver of either implementation, argument of either implementation or
the receiver itself) against set algebra (C03).
-/
namespace TypVerif.Lemmas.Sets
open TypVerif.Model.Sets
open TypVerif

set_option linter.unusedSectionVars false
set_option linter.unusedVariables false
set_option linter.unusedSimpArgs false

variable {α : Type} [DecidableEq α]

/-- both operands are well-formed -/
def TwoOK (t : Two α) : Prop := SetOK t.recv ∧ ∀ b, t.arg = some b → SetOK b

theorem TwoOK.argSet_ok {t : Two α} (h : TwoOK t) : SetOK t.argSet := by
  unfold Two.argSet
  cases ha : t.arg with
  | none => exact h.1
  | some b => exact h.2 b ha

/-- writing back a receiver with unchanged membership -/
theorem putRecv_keep {t : Two α} (h : TwoOK t) (a : AnySet α) (ha : SetOK a) (hm : ∀ x, mem a x = mem t.recv x) :
    TwoOK (t.putRecv a) ∧ (t.putRecv a).recv = a ∧ (∀ x, mem (t.putRecv a).argSet x = mem t.argSet x) ∧
    (t.putRecv a).arg = t.arg := by
  refine ⟨⟨ha, h.2⟩, rfl, fun x => ?_, rfl⟩
  unfold Two.argSet Two.putRecv
  cases t.arg with
  | none => exact hm x
  | some b => rfl

/-- writing back an argument with unchanged membership -/
theorem putArg_keep {t : Two α} (h : TwoOK t) (a : AnySet α) (ha : SetOK a) (hm : ∀ x, mem a x = mem t.argSet x) :
    TwoOK (t.putArg a) ∧ (t.putArg a).argSet = a ∧ (∀ x, mem (t.putArg a).recv x = mem t.recv x) ∧
    (∀ b, t.arg = some b → (t.putArg a).arg = some a) ∧ (t.arg = none → (t.putArg a).arg = none) := by
  obtain ⟨recv, arg⟩ := t
  cases arg with
  | none =>
    refine ⟨⟨ha, ?_⟩, rfl, hm, ?_, fun _ => rfl⟩
    · intro b hb; cases hb
    · intro b hb; cases hb
  | some b0 =>
    refine ⟨⟨h.1, ?_⟩, rfl, fun _ => rfl, fun _ _ => rfl, ?_⟩
    · intro b hb
      have : a = b := by simpa [Two.putArg] using hb
      subst this; exact ha
    · intro hb; cases hb

/-! ### AddSet / RemoveSet -/

theorem addSet_ok (t : Two α) (h : TwoOK t) :
    TwoOK (addSet t).1 ∧
    (∀ x, mem (addSet t).1.recv x = (mem t.recv x || mem t.argSet x)) ∧
    (∀ b, t.arg = some b → ∃ b', (addSet t).1.arg = some b' ∧ ∀ x, mem b' x = mem b x) ∧
    (t.arg = none → (addSet t).1.arg = none) ∧
    (∀ keys : List α, keys.Nodup → (∀ x, x ∈ keys ↔ mem t.argSet x = true) →
      (addSet t).2 = (keys.filter (fun v => !mem t.recv v)).length) := by
  obtain ⟨r1, r2, r3, r4⟩ := rangeAll_ok t.argSet h.argSet_ok
  obtain ⟨p1, p2, p3, p4, p5⟩ := putArg_keep h (rangeAll t.argSet).1 r1 r2
  obtain ⟨a1, a2, a3⟩ := addLoop_ok (rangeAll t.argSet).2 (t.putArg (rangeAll t.argSet).1).recv 0 p1.1
  have hcontains : ∀ x, (rangeAll t.argSet).2.contains x = mem t.argSet x := by
    intro x
    rw [Bool.eq_iff_iff, List.contains_iff_mem]; exact r4 x
  refine ⟨⟨a1, ?_⟩, fun x => ?_, ?_, ?_, ?_⟩
  · exact p1.2
  · show mem (addLoop _ _ 0).1 x = _
    rw [a2, p3, hcontains, Bool.or_comm]
  · intro b hb
    refine ⟨(rangeAll t.argSet).1, p4 b hb, fun x => ?_⟩
    rw [r2]; unfold Two.argSet; rw [hb]; rfl
  · intro hn; exact p5 hn
  · intro keys hk hkm
    show (addLoop _ _ 0).2 = _
    rw [a3 r3, Nat.zero_add]
    have : (rangeAll t.argSet).2.filter (fun v => !mem (t.putArg (rangeAll t.argSet).1).recv v) =
        (rangeAll t.argSet).2.filter (fun v => !mem t.recv v) := by
      apply List.filter_congr; intro w _; rw [p3]
    rw [this]
    exact filter_length_enum r3 hk (fun x => by rw [r4, hkm]) _

theorem removeSet_ok (t : Two α) (h : TwoOK t) :
    TwoOK (removeSet t).1 ∧
    (∀ x, mem (removeSet t).1.recv x = (mem t.recv x && !mem t.argSet x)) ∧
    (∀ b, t.arg = some b → ∃ b', (removeSet t).1.arg = some b' ∧ ∀ x, mem b' x = mem b x) ∧
    (t.arg = none → (removeSet t).1.arg = none) ∧
    (∀ keys : List α, keys.Nodup → (∀ x, x ∈ keys ↔ mem t.argSet x = true) →
      (removeSet t).2 = (keys.filter (fun v => mem t.recv v)).length) := by
  obtain ⟨r1, r2, r3, r4⟩ := rangeAll_ok t.argSet h.argSet_ok
  obtain ⟨p1, p2, p3, p4, p5⟩ := putArg_keep h (rangeAll t.argSet).1 r1 r2
  obtain ⟨a1, a2, a3⟩ := removeLoop_ok (rangeAll t.argSet).2 (t.putArg (rangeAll t.argSet).1).recv 0 p1.1
  have hcontains : ∀ x, (rangeAll t.argSet).2.contains x = mem t.argSet x := by
    intro x
    rw [Bool.eq_iff_iff, List.contains_iff_mem]; exact r4 x
  refine ⟨⟨a1, ?_⟩, fun x => ?_, ?_, ?_, ?_⟩
  · exact p1.2
  · show mem (removeLoop _ _ 0).1 x = _
    rw [a2, p3, hcontains, Bool.and_comm]
  · intro b hb
    refine ⟨(rangeAll t.argSet).1, p4 b hb, fun x => ?_⟩
    rw [r2]; unfold Two.argSet; rw [hb]; rfl
  · intro hn; exact p5 hn
  · intro keys hk hkm
    show (removeLoop _ _ 0).2 = _
    rw [a3 r3, Nat.zero_add]
    have : (rangeAll t.argSet).2.filter (fun v => mem (t.putArg (rangeAll t.argSet).1).recv v) =
        (rangeAll t.argSet).2.filter (fun v => mem t.recv v) := by
      apply List.filter_congr; intro w _; rw [p3]
    rw [this]
    exact filter_length_enum r3 hk (fun x => by rw [r4, hkm]) _

/-! ### Intersect / SetDiff -/

/-- what a binary operation returning a new set guarantees -/
structure BinOK (t : Two α) (r : Two α × AnySet α) (f : Bool → Bool → Bool) : Prop where
  two : TwoOK r.1
  res : SetOK r.2
  memRes : ∀ x, mem r.2 x = f (mem t.recv x) (mem t.argSet x)
  memRecv : ∀ x, mem r.1.recv x = mem t.recv x
  memArg : ∀ x, mem r.1.argSet x = mem t.argSet x
  alias : r.1.arg.isSome = t.arg.isSome

theorem filterOp_ok (keep : Bool) (t : Two α) (h : TwoOK t) :
    BinOK t (filterOp keep t) (fun a b => a && (b == keep)) := by
  obtain ⟨r1, r2, r3, r4⟩ := rangeAll_ok t.recv h.1
  obtain ⟨p1, p2, p3, p4⟩ := putRecv_keep h (rangeAll t.recv).1 r1 r2
  obtain ⟨e1, e2⟩ := emptyLike_ok t.recv
  obtain ⟨f1, f2, f3, f4⟩ := filterLoop_ok keep (rangeAll t.recv).2 (t.putRecv (rangeAll t.recv).1).argSet
    (emptyLike t.recv) p1.argSet_ok e1
  obtain ⟨q1, q2, q3, q4, q5⟩ := putArg_keep p1 (filterLoop keep (t.putRecv (rangeAll t.recv).1).argSet
    (emptyLike t.recv) (rangeAll t.recv).2).1 f1 f3
  have hcontains : ∀ x, (rangeAll t.recv).2.contains x = mem t.recv x := by
    intro x
    rw [Bool.eq_iff_iff, List.contains_iff_mem]; exact r4 x
  exact
    { two := q1, res := f2,
      memRes := fun x => by
        show mem (filterLoop keep _ _ _).2 x = _
        rw [f4, e2, hcontains, p3]; simp
      memRecv := fun x => by
        show mem ((t.putRecv (rangeAll t.recv).1).putArg _).recv x = _
        rw [q3, p2, r2]
      memArg := fun x => by
        show mem ((t.putRecv (rangeAll t.recv).1).putArg _).argSet x = _
        rw [q2, f3, p3]
      alias := by
        show ((t.putRecv (rangeAll t.recv).1).putArg _).arg.isSome = _
        rw [← p4]
        cases hta : (t.putRecv (rangeAll t.recv).1).arg with
        | none => rw [q5 hta]
        | some b => rw [q4 b hta]; rfl }

theorem intersect_ok (t : Two α) (h : TwoOK t) : BinOK t (intersect t) (fun a b => a && b) := by
  have f := filterOp_ok true t h
  have hm : ∀ x, mem (intersect t).2 x = (mem t.recv x && mem t.argSet x) := by
    intro x; rw [show intersect t = filterOp true t from rfl, f.memRes]; simp
  exact { two := f.two, res := f.res, memRes := hm, memRecv := f.memRecv, memArg := f.memArg, alias := f.alias }

theorem setDiff_ok (t : Two α) (h : TwoOK t) : BinOK t (setDiff t) (fun a b => a && !b) := by
  have f := filterOp_ok false t h
  have hm : ∀ x, mem (setDiff t).2 x = (mem t.recv x && !mem t.argSet x) := by
    intro x; rw [show setDiff t = filterOp false t from rfl, f.memRes]
    cases mem t.argSet x <;> simp
  exact { two := f.two, res := f.res, memRes := hm, memRecv := f.memRecv, memArg := f.memArg, alias := f.alias }

/-! ### Clone / Union / SymDiff -/

theorem clone_ok (s : AnySet α) (hs : SetOK s) :
    SetOK (clone s).1 ∧ SetOK (clone s).2 ∧ (∀ x, mem (clone s).1 x = mem s x) ∧ (∀ x, mem (clone s).2 x = mem s x) := by
  obtain ⟨r1, r2, r3, r4⟩ := rangeAll_ok s hs
  obtain ⟨e1, e2⟩ := emptyLike_ok s
  obtain ⟨a1, a2, _⟩ := addLoop_ok (rangeAll s).2 (emptyLike s) 0 e1
  refine ⟨r1, a1, r2, fun x => ?_⟩
  show mem (addLoop _ _ 0).1 x = _
  rw [a2, e2, Bool.or_false, Bool.eq_iff_iff, List.contains_iff_mem]; exact r4 x

theorem union_ok (t : Two α) (h : TwoOK t) : BinOK t (union t) (fun a b => a || b) := by
  obtain ⟨c1, c2, c3, c4⟩ := clone_ok t.recv h.1
  obtain ⟨p1, p2, p3, p4⟩ := putRecv_keep h (clone t.recv).1 c1 c3
  obtain ⟨r1, r2, r3, r4⟩ := rangeAll_ok (t.putRecv (clone t.recv).1).argSet p1.argSet_ok
  obtain ⟨q1, q2, q3, q4, q5⟩ := putArg_keep p1 (rangeAll (t.putRecv (clone t.recv).1).argSet).1 r1 r2
  obtain ⟨a1, a2, _⟩ := addLoop_ok (rangeAll (t.putRecv (clone t.recv).1).argSet).2 (clone t.recv).2 0 c2
  exact
    { two := q1, res := a1,
      memRes := fun x => by
        show mem (addLoop _ _ 0).1 x = _
        rw [a2, c4]
        have : (rangeAll (t.putRecv (clone t.recv).1).argSet).2.contains x = mem t.argSet x := by
          rw [Bool.eq_iff_iff, List.contains_iff_mem, r4, p3]
        rw [this, Bool.or_comm]
      memRecv := fun x => by
        show mem ((t.putRecv (clone t.recv).1).putArg _).recv x = _
        rw [q3, p2, c3]
      memArg := fun x => by
        show mem ((t.putRecv (clone t.recv).1).putArg _).argSet x = _
        rw [q2, r2, p3]
      alias := by
        show ((t.putRecv (clone t.recv).1).putArg _).arg.isSome = _
        rw [← p4]
        cases hta : (t.putRecv (clone t.recv).1).arg with
        | none => rw [q5 hta]
        | some b => rw [q4 b hta]; rfl }

theorem symDiff_ok (t : Two α) (h : TwoOK t) : BinOK t (symDiff t) (fun a b => a != b) := by
  have d := setDiff_ok t h
  obtain ⟨r1, r2, r3, r4⟩ := rangeAll_ok (setDiff t).1.argSet d.two.argSet_ok
  obtain ⟨q1, q2, q3, q4, q5⟩ := putArg_keep d.two (rangeAll (setDiff t).1.argSet).1 r1 r2
  obtain ⟨f1, f2, f3, f4⟩ := filterLoop_ok false (rangeAll (setDiff t).1.argSet).2
    ((setDiff t).1.putArg (rangeAll (setDiff t).1.argSet).1).recv (setDiff t).2 q1.1 d.res
  obtain ⟨p1, p2, p3, p4⟩ := putRecv_keep q1 (filterLoop false
    ((setDiff t).1.putArg (rangeAll (setDiff t).1.argSet).1).recv (setDiff t).2 (rangeAll (setDiff t).1.argSet).2).1 f1 f3
  exact
    { two := p1, res := f2,
      memRes := fun x => by
        show mem (filterLoop false _ _ _).2 x = _
        rw [f4, d.memRes, q3, d.memRecv]
        have : (rangeAll (setDiff t).1.argSet).2.contains x = mem t.argSet x := by
          rw [Bool.eq_iff_iff, List.contains_iff_mem, r4, d.memArg]
        rw [this]
        cases mem t.recv x <;> cases mem t.argSet x <;> rfl
      memRecv := fun x => by
        show mem (((setDiff t).1.putArg _).putRecv _).recv x = _
        rw [p2, f3, q3, d.memRecv]
      memArg := fun x => by
        show mem (((setDiff t).1.putArg _).putRecv _).argSet x = _
        rw [p3, q2, r2, d.memArg]
      alias := by
        show (((setDiff t).1.putArg _).putRecv _).arg.isSome = _
        rw [p4, ← d.alias]
        cases hta : (setDiff t).1.arg with
        | none => rw [q5 hta]
        | some b => rw [q4 b hta]; rfl }

/-! ### Len, constructors -/

theorem enum_length_eq {l₁ l₂ : List α} (h1 : l₁.Nodup) (h2 : l₂.Nodup) (h : ∀ x, x ∈ l₁ ↔ x ∈ l₂) :
    l₁.length = l₂.length :=
  ((List.perm_ext_iff_of_nodup h1 h2).mpr h).length_eq

theorem len_ok (s : AnySet α) (hs : SetOK s) :
    SetOK (len s).1 ∧ (∀ x, mem (len s).1 x = mem s x) ∧
    (∀ keys : List α, keys.Nodup → (∀ x, x ∈ keys ↔ mem s x = true) → (len s).2 = keys.length) := by
  cases s with
  | mapSet l =>
    refine ⟨hs, fun _ => rfl, fun keys hk hkm => ?_⟩
    show l.length = keys.length
    exact enum_length_eq hs hk (fun x => by rw [hkm]; show _ ↔ l.contains x = true; simp)
  | syncSet m =>
    obtain ⟨r1, r2, r3, r4⟩ := rangeAll_ok (.syncSet m) hs
    refine ⟨r1, r2, fun keys hk hkm => ?_⟩
    show (rangeAll (AnySet.syncSet m)).2.length = keys.length
    exact enum_length_eq r3 hk (fun x => by rw [r4, hkm])

theorem fromSlice_ok (kind : Nat) (l : List α) :
    SetOK (fromSlice kind l) ∧ ∀ x, mem (fromSlice kind l) x = l.contains x := by
  obtain ⟨e1, e2⟩ := emptyOfKind_ok (α := α) kind
  obtain ⟨a1, a2, _⟩ := addLoop_ok l (AnySet.emptyOfKind kind) 0 e1
  exact ⟨a1, fun x => by show mem (addLoop _ _ 0).1 x = _; rw [a2, e2, Bool.or_false]⟩

/-! ### CartesianProduct -/

theorem prodLoop_ok : ∀ (as : List α) (b : AnySet α) (acc : List (α × α)), SetOK b →
    SetOK (prodLoop b as acc).1 ∧ (∀ x, mem (prodLoop b as acc).1 x = mem b x) ∧
    ∃ L, (prodLoop b as acc).2 = acc ++ L ∧ (as.Nodup → L.Nodup) ∧
      (∀ p, p ∈ L ↔ p.1 ∈ as ∧ mem b p.2 = true) ∧
      (∀ keys : List α, keys.Nodup → (∀ x, x ∈ keys ↔ mem b x = true) → L.length = as.length * keys.length) := by
  intro as
  induction as with
  | nil =>
    intro b acc hb
    exact ⟨hb, fun _ => rfl, [], by simp [prodLoop], fun _ => List.nodup_nil, fun p => by simp, fun _ _ _ => by simp⟩
  | cons va rest ih =>
    intro b acc hb
    obtain ⟨r1, r2, r3, r4⟩ := rangeAll_ok b hb
    obtain ⟨i1, i2, L', i3, i4, i5, i6⟩ := ih (rangeAll b).1 (acc ++ (rangeAll b).2.map (fun vb => (va, vb))) r1
    refine ⟨i1, fun x => by rw [show prodLoop b (va :: rest) acc = prodLoop (rangeAll b).1 rest _ from rfl, i2, r2],
      (rangeAll b).2.map (fun vb => (va, vb)) ++ L', ?_, ?_, ?_, ?_⟩
    · rw [show prodLoop b (va :: rest) acc = prodLoop (rangeAll b).1 rest _ from rfl, i3, List.append_assoc]
    · intro hn
      rw [List.nodup_cons] at hn
      rw [List.nodup_append]
      refine ⟨List.Pairwise.map _ (fun a b hab h2 => hab (by injection h2)) r3, i4 hn.2, ?_⟩
      intro p hp q hq hpq
      subst hpq
      obtain ⟨vb, _, hvb⟩ := List.mem_map.mp hp
      have h1 : p.1 = va := by rw [← hvb]
      have h2 := ((i5 p).mp hq).1
      exact hn.1 (h1 ▸ h2)
    · intro p
      rw [List.mem_append, i5, List.mem_map, List.mem_cons]
      constructor
      · rintro (⟨vb, hvb, rfl⟩ | ⟨h1, h2⟩)
        · exact ⟨Or.inl rfl, (r4 vb).mp hvb⟩
        · exact ⟨Or.inr h1, by rw [← r2]; exact h2⟩
      · rintro ⟨h1 | h1, h2⟩
        · left; exact ⟨p.2, (r4 p.2).mpr h2, by rw [← h1]⟩
        · right; exact ⟨h1, by rw [r2]; exact h2⟩
    · intro keys hk hkm
      rw [List.length_append, List.length_map, i6 keys hk (fun x => by rw [r2]; exact hkm x)]
      rw [enum_length_eq r3 hk (fun x => by rw [r4, hkm])]
      simp [Nat.succ_mul, Nat.add_comm]

theorem product_ok (t : Two α) (h : TwoOK t) :
    TwoOK (product t).1 ∧ (∀ x, mem (product t).1.recv x = mem t.recv x) ∧
    (∀ x, mem (product t).1.argSet x = mem t.argSet x) ∧
    (product t).2.Nodup ∧
    (∀ a b, (a, b) ∈ (product t).2 ↔ mem t.recv a = true ∧ mem t.argSet b = true) ∧
    (∀ ka kb : List α, ka.Nodup → (∀ x, x ∈ ka ↔ mem t.recv x = true) → kb.Nodup → (∀ x, x ∈ kb ↔ mem t.argSet x = true) →
      (product t).2.length = ka.length * kb.length) := by
  obtain ⟨r1, r2, r3, r4⟩ := rangeAll_ok t.recv h.1
  obtain ⟨p1, p2, p3, p4⟩ := putRecv_keep h (rangeAll t.recv).1 r1 r2
  obtain ⟨l1, l2, L, l3, l4, l5, l6⟩ := prodLoop_ok (rangeAll t.recv).2 (t.putRecv (rangeAll t.recv).1).argSet [] p1.argSet_ok
  obtain ⟨q1, q2, q3, _, _⟩ := putArg_keep p1 (prodLoop (t.putRecv (rangeAll t.recv).1).argSet (rangeAll t.recv).2 []).1 l1 l2
  have hL : (product t).2 = L := by
    show (prodLoop _ _ []).2 = L
    rw [l3]; rfl
  refine ⟨q1, fun x => ?_, fun x => ?_, ?_, ?_, ?_⟩
  · show mem ((t.putRecv (rangeAll t.recv).1).putArg _).recv x = _
    rw [q3, p2, r2]
  · show mem ((t.putRecv (rangeAll t.recv).1).putArg _).argSet x = _
    rw [q2, l2, p3]
  · rw [hL]; exact l4 r3
  · intro a b; rw [hL, l5, r4, p3]
  · intro ka kb hka hkam hkb hkbm
    rw [hL, l6 kb hkb (fun x => by rw [p3]; exact hkbm x), enum_length_eq r3 hka (fun x => by rw [r4, hkam])]

end TypVerif.Lemmas.Sets
