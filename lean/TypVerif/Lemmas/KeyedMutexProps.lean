import TypVerif.Lemmas.KeyedMutexInv
/-
Consequences of the invariant `Good` (agreement, exclusion) and the step-local facts
(independence of keys, Try* never block) for the KeyedMutex system.
-/
namespace TypVerif.Lemmas.KeyedMutex
open TypVerif TypVerif.Conc TypVerif.Model.KeyedMutex

/-! ### agreement -/

theorem loc_get {s : State} (hg : Good s) {t k m : Nat} (h : loc (s.pc t) = some (k, m)) :
    Model.KeyedMutex.get s.map k = some m := by
  have hT := hg.thread t
  unfold ThreadOk at hT
  split at hT <;> simp_all [loc]

theorem agree_of_good {s : State} (hg : Good s) :
    (∀ t k m, loc (s.pc t) = some (k, m) → Model.KeyedMutex.get s.map k = some m) ∧
    (∀ t₁ t₂ k m₁ m₂, loc (s.pc t₁) = some (k, m₁) → loc (s.pc t₂) = some (k, m₂) → m₁ = m₂) ∧
    (∀ k₁ k₂ m, Model.KeyedMutex.get s.map k₁ = some m → Model.KeyedMutex.get s.map k₂ = some m → k₁ = k₂) ∧
    (∀ t k, s.holdsW t k → ∃ m, Model.KeyedMutex.get s.map k = some m ∧ (s.mu m).writer = some t) ∧
    (∀ t k, s.holdsR t k → ∃ m, Model.KeyedMutex.get s.map k = some m ∧ t ∈ (s.mu m).readers) := by
  refine ⟨fun t k m h => loc_get hg h, ?_, hg.mapInj, hg.whOk, hg.rhOk⟩
  intro t₁ t₂ k m₁ m₂ h₁ h₂
  have e₁ := loc_get hg h₁
  have e₂ := loc_get hg h₂
  rw [e₁] at e₂
  cases e₂; rfl

/-! ### exclusion -/

theorem mutex_of_good {s : State} (hg : Good s) {t₁ t₂ k : Nat} (h₁ : s.holdsW t₁ k) (h₂ : s.holdsW t₂ k) :
    t₁ = t₂ := by
  obtain ⟨m₁, a₁, b₁⟩ := hg.whOk _ _ h₁
  obtain ⟨m₂, a₂, b₂⟩ := hg.whOk _ _ h₂
  rw [a₁] at a₂; cases a₂
  rw [b₁] at b₂; cases b₂; rfl

theorem rw_of_good {s : State} (hg : Good s) {t₁ t₂ k : Nat} (h₁ : s.holdsW t₁ k) (h₂ : s.holdsR t₂ k) : False := by
  obtain ⟨m₁, a₁, b₁⟩ := hg.whOk _ _ h₁
  obtain ⟨m₂, a₂, b₂⟩ := hg.rhOk _ _ h₂
  rw [a₁] at a₂; cases a₂
  have := hg.excl m₁ (by rw [b₁]; simp)
  rw [this] at b₂
  cases b₂

/-! ### independence of keys: enabledness is a function of the key's own mutex -/

theorem los_enabled (rw g : Bool) (ops : List Op) {s : State} {t : Nat} {kd : Kind} {k : Nat}
    (hpc : s.pc t = .los kd k) (hkd : kd ≠ .clear) : enabled rw g ops s t := by
  unfold enabled stepT
  rw [hpc]
  simp only [losStep, if_neg hkd]
  split <;> simp

theorem ret_enabled (rw g : Bool) (ops : List Op) {s : State} {t : Nat} {r : Res}
    (hpc : s.pc t = .ret r) : enabled rw g ops s t := by
  unfold enabled stepT
  rw [hpc]
  simp

theorem enabled_iff_mu (rw g : Bool) (ops : List Op) {s : State} {t k m : Nat}
    (hloc : loc (s.pc t) = some (k, m)) :
    enabled rw g ops s t ↔ muEnabled rw (s.pc t) (s.mu m) = true := by
  unfold enabled stepT
  cases hp : s.pc t with
  | idle => rw [hp] at hloc; cases hloc
  | los kd k' => rw [hp] at hloc; cases hloc
  | ret r => rw [hp] at hloc; cases hloc
  | wait k' m' =>
    rw [hp] at hloc; cases hloc
    simp only [muEnabled]
    split <;> simp_all
  | ann k' m' =>
    rw [hp] at hloc; cases hloc
    simp [muEnabled]
  | rel k' m' =>
    rw [hp] at hloc; cases hloc
    simp [muEnabled]
  | act kd k' m' =>
    rw [hp] at hloc; cases hloc
    cases kd <;> simp only [actStep, muEnabled]
    · cases rw <;> simp
    · split <;> simp
    · split <;> simp
    · split <;> simp_all
    · split <;> simp
    · simp
    · simp

theorem independent_step (rw g : Bool) (ops : List Op) {s₁ s₂ : State} {t k m : Nat}
    (hpc : s₁.pc t = s₂.pc t) (hloc : loc (s₁.pc t) = some (k, m)) (hmu : s₁.mu m = s₂.mu m) :
    (enabled rw g ops s₁ t ↔ enabled rw g ops s₂ t) := by
  rw [enabled_iff_mu rw g ops hloc, enabled_iff_mu rw g ops (hpc ▸ hloc), hpc, hmu]

/-- a free, uncontended mutex never blocks its caller (whatever the rest of the state) -/
theorem free_enabled (rw g : Bool) (ops : List Op) {s : State} {t k m : Nat} {kd : Kind}
    (hpc : s.pc t = .act kd k m ∨ s.pc t = .wait k m) (hkd : kd ≠ .clear)
    (hfree : Mu.isFree (s.mu m)) : enabled rw g ops s t := by
  obtain ⟨h1, h2, h3⟩ := hfree
  rcases hpc with hpc | hpc
  · rw [enabled_iff_mu rw g ops (k := k) (m := m) (by rw [hpc]; rfl), hpc]
    cases kd <;> simp_all [muEnabled]
  · rw [enabled_iff_mu rw g ops (k := k) (m := m) (by rw [hpc]; rfl), hpc]
    simp_all [muEnabled]

/-- releases never block -/
theorem release_enabled (rw g : Bool) (ops : List Op) {s : State} {t k m : Nat} {kd : Kind}
    (hpc : s.pc t = .act kd k m) (hkd : kd = .unlock ∨ kd = .runlock) : enabled rw g ops s t := by
  rw [enabled_iff_mu rw g ops (k := k) (m := m) (by rw [hpc]; rfl), hpc]
  rcases hkd with rfl | rfl <;> simp [muEnabled]

/-- the entry/exit sections of RWMutex.Lock/Unlock never block -/
theorem queue_enabled (rw g : Bool) (ops : List Op) {s : State} {t k m : Nat}
    (hpc : s.pc t = .ann k m ∨ s.pc t = .rel k m) : enabled rw g ops s t := by
  rcases hpc with hpc | hpc
  · rw [enabled_iff_mu rw g ops (k := k) (m := m) (by rw [hpc]; rfl), hpc]; rfl
  · rw [enabled_iff_mu rw g ops (k := k) (m := m) (by rw [hpc]; rfl), hpc]; rfl

/-! ### Try* -/

theorem trylock_step (rw g : Bool) (ops : List Op) {s : State} {t k m : Nat}
    (hpc : s.pc t = .act .trylock k m) :
    stepT rw g ops s t =
      if Mu.isFree (s.mu m) then [(none, acqW s t k m .tt)] else [(none, s.setPc t (.ret .ff))] := by
  unfold stepT
  rw [hpc]
  simp only [actStep, Mu.isFree]

theorem tryrlock_step (rw g : Bool) (ops : List Op) {s : State} {t k m : Nat}
    (hpc : s.pc t = .act .tryrlock k m) :
    stepT rw g ops s t =
      if Mu.readable (s.mu m) then [(none, acqR s t k m .tt)] else [(none, s.setPc t (.ret .ff))] := by
  unfold stepT
  rw [hpc]
  simp only [actStep, Mu.readable]

theorem lt_of_pc_ne_idle {s : State} {t : Nat} (h : s.pc t ≠ .idle) : t < s.pcs.length := by
  apply Classical.byContradiction
  intro hn
  apply h
  unfold State.pc
  simp [List.getD_eq_getElem?_getD, List.getElem?_eq_none (Nat.le_of_not_lt hn)]

theorem acqW_holds {s : State} (hg : Good s) {t k m : Nat} (r : Res) (ht : t < s.pcs.length)
    (hk : Model.KeyedMutex.get s.map k = some m) :
    (acqW s t k m r).pc t = .ret r ∧ (acqW s t k m r).holdsW t k ∧ ((acqW s t k m r).mu m).writer = some t := by
  have hm := hg.mapLt _ _ hk
  unfold acqW State.holdsW
  refine ⟨by rw [pc_mk _ _ _ _ ht, if_pos rfl], List.mem_cons_self, ?_⟩
  rw [mu_mk_set _ _ _ _ hm, if_pos rfl]

theorem acqR_holds {s : State} (hg : Good s) {t k m : Nat} (r : Res) (ht : t < s.pcs.length)
    (hk : Model.KeyedMutex.get s.map k = some m) :
    (acqR s t k m r).pc t = .ret r ∧ (acqR s t k m r).holdsR t k ∧ t ∈ ((acqR s t k m r).mu m).readers := by
  have hm := hg.mapLt _ _ hk
  unfold acqR State.holdsR
  refine ⟨by rw [pc_mk _ _ _ _ ht, if_pos rfl], List.mem_cons_self, ?_⟩
  rw [mu_mk_set _ _ _ _ hm, if_pos rfl]
  exact List.mem_cons_self

/-- TryLockKey: the step exists, is unique, and its outcome is decided by the key's own mutex -/
theorem trylock_of_good (rw g : Bool) (ops : List Op) {s : State} (hg : Good s) {t k m : Nat}
    (hpc : s.pc t = .act .trylock k m) :
    enabled rw g ops s t ∧
    ∀ l s', (l, s') ∈ stepT rw g ops s t →
      l = none ∧
      (Mu.isFree (s.mu m) → s'.pc t = .ret .tt ∧ s'.holdsW t k ∧ (s'.mu m).writer = some t) ∧
      (¬ Mu.isFree (s.mu m) → s'.pc t = .ret .ff ∧ s'.wh = s.wh ∧ s'.rh = s.rh ∧ s'.heap = s.heap ∧ s'.map = s.map) := by
  have ht : t < s.pcs.length := lt_of_pc_ne_idle (by rw [hpc]; simp)
  have hk := (act_ok (hg.thread t) hpc).1
  rw [enabled, trylock_step rw g ops hpc]
  by_cases hf : Mu.isFree (s.mu m)
  · simp only [if_pos hf]
    refine ⟨by simp, ?_⟩
    intro l s' hmem
    simp only [List.mem_singleton, Prod.mk.injEq] at hmem
    obtain ⟨rfl, rfl⟩ := hmem
    exact ⟨rfl, fun _ => acqW_holds hg .tt ht hk, fun h => absurd hf h⟩
  · simp only [if_neg hf]
    refine ⟨by simp, ?_⟩
    intro l s' hmem
    simp only [List.mem_singleton, Prod.mk.injEq] at hmem
    obtain ⟨rfl, rfl⟩ := hmem
    exact ⟨rfl, fun h => absurd h hf, fun _ => ⟨by rw [pc_setPc _ _ _ _ ht, if_pos rfl], rfl, rfl, rfl, rfl⟩⟩

theorem tryrlock_of_good (rw g : Bool) (ops : List Op) {s : State} (hg : Good s) {t k m : Nat}
    (hpc : s.pc t = .act .tryrlock k m) :
    enabled rw g ops s t ∧
    ∀ l s', (l, s') ∈ stepT rw g ops s t →
      l = none ∧
      (Mu.readable (s.mu m) → s'.pc t = .ret .tt ∧ s'.holdsR t k ∧ t ∈ (s'.mu m).readers) ∧
      (¬ Mu.readable (s.mu m) → s'.pc t = .ret .ff ∧ s'.wh = s.wh ∧ s'.rh = s.rh ∧ s'.heap = s.heap ∧ s'.map = s.map) := by
  have ht : t < s.pcs.length := lt_of_pc_ne_idle (by rw [hpc]; simp)
  have hk := (act_ok (hg.thread t) hpc).1
  rw [enabled, tryrlock_step rw g ops hpc]
  by_cases hf : Mu.readable (s.mu m)
  · simp only [if_pos hf]
    refine ⟨by simp, ?_⟩
    intro l s' hmem
    simp only [List.mem_singleton, Prod.mk.injEq] at hmem
    obtain ⟨rfl, rfl⟩ := hmem
    exact ⟨rfl, fun _ => acqR_holds hg .tt ht hk, fun h => absurd hf h⟩
  · simp only [if_neg hf]
    refine ⟨by simp, ?_⟩
    intro l s' hmem
    simp only [List.mem_singleton, Prod.mk.injEq] at hmem
    obtain ⟨rfl, rfl⟩ := hmem
    exact ⟨rfl, fun h => absurd h hf, fun _ => ⟨by rw [pc_setPc _ _ _ _ ht, if_pos rfl], rfl, rfl, rfl, rfl⟩⟩

/-- a held key is not free / not readable -/
theorem not_free_of_held {s : State} (hg : Good s) {k m t' : Nat} (hk : Model.KeyedMutex.get s.map k = some m)
    (h : s.holdsW t' k ∨ s.holdsR t' k) : ¬ Mu.isFree (s.mu m) := by
  intro hf
  rcases h with h | h
  · obtain ⟨m0, h0, h1⟩ := hg.whOk _ _ h
    rw [hk] at h0; cases h0
    rw [hf.1] at h1; cases h1
  · obtain ⟨m0, h0, h1⟩ := hg.rhOk _ _ h
    rw [hk] at h0; cases h0
    rw [hf.2.1] at h1; cases h1

theorem not_readable_of_held {s : State} (hg : Good s) {k m t' : Nat} (hk : Model.KeyedMutex.get s.map k = some m)
    (h : s.holdsW t' k) : ¬ Mu.readable (s.mu m) := by
  intro hf
  obtain ⟨m0, h0, h1⟩ := hg.whOk _ _ h
  rw [hk] at h0; cases h0
  rw [hf.1] at h1; cases h1

/-! ### concrete executions (for the non-vacuity examples) -/

/-- follow the successor with the given index at every step -/
def exec (rw g : Bool) (ops : List Op) : List Nat → State → State
  | [], s => s
  | c :: cs, s =>
    match (succ rw g ops s)[c]? with
    | some p => exec rw g ops cs p.2
    | none => s

theorem reachable_exec (rw : Bool) (n : Nat) (ops : List Op) (cs : List Nat) :
    ∀ s, Reachable (sys rw n ops) s → Reachable (sys rw n ops) (exec rw true ops cs s) := by
  induction cs with
  | nil => intro s h; exact h
  | cons c cs ih =>
    intro s h
    simp only [exec]
    split
    · next p hp => exact ih _ (Reachable.step (sys := sys rw n ops) (l := p.1) h (List.mem_of_getElem? hp))
    · exact h

theorem reachable_exec_raw (rw : Bool) (n : Nat) (ops : List Op) (cs : List Nat) :
    ∀ s, Reachable (sysRaw rw n ops) s → Reachable (sysRaw rw n ops) (exec rw false ops cs s) := by
  induction cs with
  | nil => intro s h; exact h
  | cons c cs ih =>
    intro s h
    simp only [exec]
    split
    · next p hp => exact ih _ (Reachable.step (sys := sysRaw rw n ops) (l := p.1) h (List.mem_of_getElem? hp))
    · exact h

end TypVerif.Lemmas.KeyedMutex
