import TypVerif.Lemmas.GoSlice
import TypVerif.Model.Splice
import TypVerif.Spec.Splice
/-
Lemmas for C12: each Go function of `Model/Splice.lean` is executed symbolically over the slice primitive and
its resulting heap is characterised cell by cell.
-/
namespace TypVerif.Lemmas.Splice
open TypVerif TypVerif.Model TypVerif.Model.GoSlice TypVerif.Lemmas.GoSlice

variable {α : Type}

/-! ### Insert -/

/-- the part of `Insert` after the `append` -/
def insertTail (h : Heap α) (s : Slice) (index : Nat) (value : α) : Except String (Heap α × Slice) := do
  let dst ← sliceFrom s (index + 1)
  let src ← sliceFrom s index
  let (h, _) := copy h dst src
  let h ← setIdx h s index value
  pure (h, s)

theorem insert_eq (h : Heap α) (s : Slice) (index : Nat) (v : α) (spare : List α) :
    Splice.insert h s index v spare =
      insertTail (append h s [v] spare).1 (append h s [v] spare).2 index v := rfl

/-- shifting `s[index:len-1]` one to the right and storing `v` at `index` -/
theorem insertTail_spec (h1 : Heap α) (s1 : Slice) (index : Nat) (v : α)
    (hl : s1.off + s1.len ≤ (h1.cells s1.bid).length) (hc : s1.len ≤ s1.cap) (hi : index < s1.len) :
    ∃ h3, insertTail h1 s1 index v = .ok (h3, s1) ∧ h3.next = h1.next ∧
      (∀ b, (h3.cells b).length = (h1.cells b).length) ∧
      ∀ b j, (h3.cells b)[j]? =
        if b = s1.bid ∧ s1.off + index ≤ j ∧ j < s1.off + s1.len
        then (if j = s1.off + index then some v else (h1.cells s1.bid)[j - 1]?)
        else (h1.cells b)[j]? := by
  unfold insertTail
  rw [sliceFrom_ok _ (index + 1) (by omega) hc, sliceFrom_ok _ index (by omega) hc]
  simp only [bind, Except.bind]
  rw [set_ok _ _ _ _ hi]
  simp only [pure, Except.pure]
  refine ⟨_, rfl, rfl, ?_, ?_⟩
  · intro b
    rw [set_length, copy_length _ _ _ (by simp only []; omega)]
  · intro b j
    rw [set_cells _ _ _ _ (by rw [copy_length _ _ _ (by simp only []; omega)]; omega)]
    rw [copy_cells _ _ _ (by simp only []; omega) (by simp only []; omega)]
    simp only []
    by_cases hb : b = s1.bid
    · subst hb
      simp only [true_and]
      repeat' split
      all_goals idx
    · simp only [hb, false_and, if_false]

theorem getElem?_append_inplace (h : Heap α) (s : Slice) (vs spare : List α)
    (hfit : s.len + vs.length ≤ s.cap) (hl : s.off + s.cap ≤ (h.cells s.bid).length) (b j : Nat) :
    ((append h s vs spare).1.cells b)[j]? =
      if b = s.bid ∧ s.off + s.len ≤ j ∧ j < s.off + s.len + vs.length then vs[j - (s.off + s.len)]?
      else (h.cells b)[j]? := by
  rw [append_inplace h s vs spare hfit]
  simp only [write_cells]
  by_cases hb : b = s.bid
  · subst hb
    rw [if_pos rfl, getElem?_writeAt (by omega)]
    simp only [true_and]
    repeat' split
    all_goals idx
  · simp only [hb, false_and, if_false]

theorem length_append_inplace (h : Heap α) (s : Slice) (vs spare : List α)
    (hfit : s.len + vs.length ≤ s.cap) (hl : s.off + s.cap ≤ (h.cells s.bid).length) (b : Nat) :
    ((append h s vs spare).1.cells b).length = (h.cells b).length := by
  rw [append_inplace h s vs spare hfit]
  simp only [write_cells]
  split
  · rename_i hb; subst hb; exact length_writeAt (by omega)
  · rfl

/-- everything `Insert` does, when the appended value fits into the spare capacity -/
theorem insert_inplace (h : Heap α) (s : Slice) (index : Nat) (v : α) (spare : List α)
    (hwf : WF h s) (hfit : s.len < s.cap) (hi : index ≤ s.len) :
    ∃ h', Splice.insert h s index v spare = .ok (h', { s with len := s.len + 1 }) ∧
      h'.next = h.next ∧ (∀ b, (h'.cells b).length = (h.cells b).length) ∧
      ∀ b j, (h'.cells b)[j]? =
        if b = s.bid ∧ s.off + index ≤ j ∧ j < s.off + s.len + 1
        then (if j = s.off + index then some v else (h.cells s.bid)[j - 1]?)
        else (h.cells b)[j]? := by
  obtain ⟨hlc, hlen, _⟩ := hwf
  have hfit' : s.len + [v].length ≤ s.cap := by simp only [List.length_singleton]; omega
  have hs1 : (append h s [v] spare).2 = { s with len := s.len + 1 } := by
    rw [append_inplace h s [v] spare hfit']; rfl
  have hnext : (append h s [v] spare).1.next = h.next := by
    rw [append_inplace h s [v] spare hfit']; rfl
  rw [insert_eq, hs1]
  obtain ⟨h3, he, hn, hlen3, hcells⟩ := insertTail_spec (append h s [v] spare).1 { s with len := s.len + 1 } index v
    (by simp only []; rw [length_append_inplace h s [v] spare hfit' hlen]; omega)
    (by simp only []; omega) (by simp only []; omega)
  refine ⟨h3, he, by rw [hn, hnext], ?_, ?_⟩
  · intro b; rw [hlen3, length_append_inplace h s [v] spare hfit' hlen]
  · intro b j
    rw [hcells]
    simp only [getElem?_append_inplace h s [v] spare hfit' hlen, List.length_singleton,
      List.getElem?_singleton]
    by_cases hb : b = s.bid
    · subst hb
      simp only [true_and]
      repeat' split
      all_goals idx
    · simp only [hb, false_and, if_false]


theorem append_realloc_cells (h : Heap α) (s : Slice) (vs spare : List α) (hfit : ¬ s.len + vs.length ≤ s.cap)
    (b : Nat) :
    (append h s vs spare).1.cells b = if b = h.next then contents h s ++ vs ++ spare else h.cells b := by
  rw [append_realloc h s vs spare hfit]

theorem append_realloc_snd (h : Heap α) (s : Slice) (vs spare : List α) (hfit : ¬ s.len + vs.length ≤ s.cap) :
    (append h s vs spare).2 =
      { bid := h.next, off := 0, len := s.len + vs.length, cap := s.len + vs.length + spare.length } := by
  rw [append_realloc h s vs spare hfit]

theorem append_realloc_next (h : Heap α) (s : Slice) (vs spare : List α) (hfit : ¬ s.len + vs.length ≤ s.cap) :
    (append h s vs spare).1.next = h.next + 1 := by
  rw [append_realloc h s vs spare hfit]

/-- everything `Insert` does when `append` has to reallocate: the old heap is untouched, the new backing array
holds exactly the spliced sequence (followed by the runtime's spare cells) -/
theorem insert_realloc (h : Heap α) (s : Slice) (index : Nat) (v : α) (spare : List α)
    (hwf : WF h s) (hfit : ¬ s.len < s.cap) (hi : index ≤ s.len) :
    ∃ h', Splice.insert h s index v spare =
        .ok (h', { bid := h.next, off := 0, len := s.len + 1, cap := s.len + 1 + spare.length }) ∧
      h'.next = h.next + 1 ∧ (∀ b, b ≠ h.next → h'.cells b = h.cells b) ∧
      h'.cells h.next = Spec.Splice.insert (contents h s) index v ++ spare := by
  obtain ⟨hlc, hlen, _⟩ := hwf
  have hfit' : ¬ s.len + [v].length ≤ s.cap := by simp only [List.length_singleton]; omega
  have hcl : (contents h s).length = s.len := length_contents (by omega)
  have hs1 := append_realloc_snd h s [v] spare hfit'
  simp only [List.length_singleton] at hs1
  rw [insert_eq, hs1]
  obtain ⟨h3, he, hn, hlen3, hcells⟩ := insertTail_spec (append h s [v] spare).1
    { bid := h.next, off := 0, len := s.len + 1, cap := s.len + 1 + spare.length } index v
    (by simp only []; rw [append_realloc_cells h s [v] spare hfit', if_pos rfl]
        simp only [List.length_append, List.length_singleton, hcl]; omega)
    (by simp only []; omega) (by simp only []; omega)
  refine ⟨h3, he, by rw [hn, append_realloc_next h s [v] spare hfit'], ?_, ?_⟩
  · intro b hb
    apply List.ext_getElem?
    intro j
    simp only [hcells, append_realloc_cells h s [v] spare hfit', hb, false_and, if_false]
  · apply List.ext_getElem?
    intro j
    rw [hcells, append_realloc_cells h s [v] spare hfit', if_pos rfl]
    simp only [Spec.Splice.insert, List.getElem?_append, List.length_append, List.length_take,
      List.length_singleton, List.length_drop, hcl, List.getElem?_take, List.getElem?_drop,
      List.getElem?_singleton, true_and, Nat.zero_add]
    repeat' split
    all_goals idx

/-- `Insert`: the live contents afterwards are the spliced sequence, for every capacity -/
theorem insert_contents (h : Heap α) (s : Slice) (index : Nat) (v : α) (spare : List α)
    (hwf : WF h s) (hi : index ≤ s.len) :
    ∃ h' s', Splice.insert h s index v spare = .ok (h', s') ∧ WF h' s' ∧
      contents h' s' = Spec.Splice.insert (contents h s) index v := by
  have hcl : (contents h s).length = s.len := length_contents (by have := hwf.1; have := hwf.2.1; omega)
  by_cases hfit : s.len < s.cap
  · obtain ⟨h', he, hn, hlen, hcells⟩ := insert_inplace h s index v spare hwf hfit hi
    refine ⟨h', _, he, ⟨by simp only []; omega, by simp only []; rw [hlen]; exact hwf.2.1,
      by simp only []; rw [hn]; exact hwf.2.2⟩, ?_⟩
    apply List.ext_getElem?
    intro k
    rw [getElem?_contents]
    simp only [hcells, Spec.Splice.insert, List.getElem?_append, List.length_append, List.length_take,
      List.length_singleton, hcl, List.getElem?_take, List.getElem?_drop,
      List.getElem?_singleton, true_and, getElem?_contents]
    repeat' split
    all_goals idx
  · obtain ⟨h', he, hn, hother, hnew⟩ := insert_realloc h s index v spare hwf hfit hi
    have hsl : (Spec.Splice.insert (contents h s) index v).length = s.len + 1 := by
      simp only [Spec.Splice.insert, List.length_append, List.length_take, List.length_drop,
        List.length_singleton, hcl]; omega
    refine ⟨h', _, he, ⟨by simp only []; omega, by simp only []; rw [hnew, List.length_append, hsl]; omega,
      by simp only []; omega⟩, ?_⟩
    rw [show contents h' { bid := h.next, off := 0, len := s.len + 1, cap := s.len + 1 + spare.length }
        = ((h'.cells h.next).drop 0).take (s.len + 1) from rfl, hnew, List.drop_zero, List.take_left' hsl]

end TypVerif.Lemmas.Splice
