import TypVerif.Lemmas.SyncMapDirty
/-
One-step simulation: every call of the sequential `sync2.Map` model preserves `SeqInv`, acts on the
abstraction `abs` as the ordinary map of `Spec/PMap.lean` does, and returns what that map returns.
-/
namespace TypVerif.Lemmas.SyncMap
open TypVerif.Model.SyncMap
open TypVerif.Spec.PMap (Op Out)
open TypVerif.Spec

set_option linter.unusedSectionVars false
set_option linter.unusedVariables false
set_option linter.unusedSimpArgs false

variable {K V : Type} [DecidableEq K]

theorem dirty_ne_of_dt {s : State K V} {k : K} {e : EId} (hk : dt s k = some e) : s.dirty ≠ none := by
  intro hd; rw [SeqInv.dt_none_of_clean hd] at hk; cases hk

theorem cur_ref {s : State K V} {k : K} {e : EId} (hc : cur s k = some e) : rd s k = some e ∨ dt s k = some e := by
  unfold cur at hc
  cases hr : rd s k with
  | some e0 => rw [hr] at hc; simp only at hc; left; exact hc
  | none => rw [hr] at hc; simp only at hc; split at hc; right; exact hc; cases hc

theorem missLocked_ref {s : State K V} {k : K} {e : EId}
    (h : rd (missLocked s) k = some e ∨ dt (missLocked s) k = some e) : rd s k = some e ∨ dt s k = some e := by
  rw [missLocked_eq] at h
  split at h
  · exact h
  · rcases h with h | h
    · right; exact h
    · cases h

/-! ### Load -/

theorem load_ok {s : State K V} (h : SeqInv s) (k : K) :
    SeqInv (load s k).1 ∧ (∀ k', abs (load s k).1 k' = abs s k') ∧ (load s k).2 = abs s k := by
  cases hr : rd s k with
  | some e =>
    have hr' : alookup k s.read = some e := hr
    have : load s k = (s, loadEntry s e) := by simp only [load, hr']
    rw [this]
    refine ⟨h, fun _ => rfl, ?_⟩
    simp [abs, cur_of_rd hr]
  | none =>
    have hr' : alookup k s.read = none := hr
    cases ha : s.amended with
    | false =>
      have : load s k = (s, none) := by simp [load, hr', ha]
      rw [this]
      refine ⟨h, fun _ => rfl, ?_⟩
      simp [abs, cur_of_clean_miss hr ha]
    | true =>
      have hdn := h.dirty_of_amended ha
      cases hk : dt s k with
      | none =>
        have hk' : alookup k (dirtyMap s) = none := hk
        have : load s k = (missLocked s, none) := by simp [load, hr', ha, hk']
        rw [this]
        refine ⟨h.missLocked_ok, fun k' => abs_missLocked h hdn k', ?_⟩
        simp [abs, cur_of_dt hr ha, hk]
      | some e =>
        have hk' : alookup k (dirtyMap s) = some e := hk
        have : load s k = (missLocked s, loadEntry (missLocked s) e) := by simp [load, hr', ha, hk']
        rw [this]
        refine ⟨h.missLocked_ok, fun k' => abs_missLocked h hdn k', ?_⟩
        simp [abs, cur_of_dt hr ha, hk, loadEntry_missLocked]

/-! ### Store -/

theorem store_ok {s : State K V} (h : SeqInv s) (k : K) (v : V) :
    SeqInv (store s k v) ∧ ∀ k', abs (store s k v) k' = if k' = k then some v else abs s k' := by
  cases hr : rd s k with
  | some e =>
    have hr' : alookup k s.read = some e := hr
    have he := h.readRange k e hr
    by_cases hx : getP s e = .expunged
    · -- slow path: unexpunge, put into dirty, store
      have hdn : s.dirty ≠ none := fun hd => h.s3 hd k e hr hx
      obtain ⟨d, hd⟩ := dirty_some_of_ne hdn
      have : store s k v = revive s k e v d := by
        simp only [store, hr', tryStore, hx, unexpungeLocked, storeLocked]
        exact revive_eq hd k e v
      rw [this]
      exact ⟨h.revive_ok v hr hx hd, abs_revive h v hr hd⟩
    · have : store s k v = setP s e (.val v) := by
        simp only [store, hr', tryStore]
        cases hp : getP s e with
        | expunged => exact absurd hp hx
        | nil => rfl
        | val w => rfl
      rw [this]
      refine ⟨h.setP_ok e (.val v) ?_ ?_, ?_⟩
      · intro k' _; exact ⟨(by intro h2; cases h2), hx⟩
      · intro _ _ _; exact ⟨v, rfl⟩
      · intro k'; rw [abs_setP_cur h (cur_of_rd hr)]; rfl
  | none =>
    have hr' : alookup k s.read = none := hr
    cases hk : dt s k with
    | some e =>
      have hk' : alookup k (dirtyMap s) = some e := hk
      have ham := h.s7 (dirty_ne_of_dt hk)
      have : store s k v = setP s e (.val v) := by simp only [store, hr', hk', storeLocked]
      rw [this]
      refine ⟨h.setP_ok e (.val v) ?_ ?_, ?_⟩
      · intro k' hk2
        have := h.s6 k' k e (Or.inl hk2) (Or.inr hk)
        subst this; rw [hr] at hk2; cases hk2
      · intro _ _ _; exact ⟨v, rfl⟩
      · intro k'
        have hc : cur s k = some e := by rw [cur_of_dt hr ham]; exact hk
        rw [abs_setP_cur h hc]; rfl
    | none =>
      have hk' : alookup k (dirtyMap s) = none := hk
      have : store s k v = storeNew s k v := by simp only [store, hr', hk']
      rw [this]
      exact ⟨h.storeNew_ok v hr hk, abs_storeNew h v hr⟩

/-! ### LoadOrStore -/

theorem loadOrStore_ok [Inhabited V] {s : State K V} (h : SeqInv s) (k : K) (v : V) :
    SeqInv (loadOrStore s k v).1 ∧
    (match abs s k with
     | some w => (∀ k', abs (loadOrStore s k v).1 k' = abs s k') ∧ (loadOrStore s k v).2 = (w, true)
     | none => (∀ k', abs (loadOrStore s k v).1 k' = if k' = k then some v else abs s k') ∧
               (loadOrStore s k v).2 = (v, false)) := by
  cases hr : rd s k with
  | some e =>
    have hr' : alookup k s.read = some e := hr
    have he := h.readRange k e hr
    have habs : abs s k = pval (getP s e) := by simp [abs, cur_of_rd hr, loadEntry_eq]
    cases hp : getP s e with
    | val w =>
      have : loadOrStore s k v = (s, (w, true)) := by simp only [loadOrStore, hr', tryLoadOrStore, hp]
      rw [this, habs, hp]
      exact ⟨h, fun _ => rfl, rfl⟩
    | nil =>
      have : loadOrStore s k v = (setP s e (.val v), (v, false)) := by
        simp only [loadOrStore, hr', tryLoadOrStore, hp]
      rw [this, habs, hp]
      refine ⟨h.setP_ok e (.val v) ?_ ?_, ?_, rfl⟩
      · intro k' _; exact ⟨(by intro h2; cases h2), (by rw [hp]; intro h2; cases h2)⟩
      · intro _ _ _; exact ⟨v, rfl⟩
      · intro k'; rw [abs_setP_cur h (cur_of_rd hr)]; rfl
    | expunged =>
      have hdn : s.dirty ≠ none := fun hd => h.s3 hd k e hr hp
      obtain ⟨d, hd⟩ := dirty_some_of_ne hdn
      have hd2 : (setP s e .nil).dirty = some d := hd
      have hg : getP (setDirty (setP s e .nil) k e) e = .nil := by
        rw [setDirty_eq hd2]
        show getP (setP s e .nil) e = .nil
        rw [getP_setP s e e .nil he]; simp
      have : loadOrStore s k v = (revive s k e v d, (v, false)) := by
        simp only [loadOrStore, hr', tryLoadOrStore, hp, unexpungeLocked, if_true, hg]
        rw [revive_eq hd]; rfl
      rw [this, habs, hp]
      exact ⟨h.revive_ok v hr hp hd, abs_revive h v hr hd, rfl⟩
  | none =>
    have hr' : alookup k s.read = none := hr
    cases hk : dt s k with
    | some e =>
      have hk' : alookup k (dirtyMap s) = some e := hk
      have hdn := dirty_ne_of_dt hk
      have ham := h.s7 hdn
      obtain ⟨w, hw⟩ := h.s5 k e hr hk
      have habs : abs s k = some w := by simp [abs, cur_of_dt hr ham, hk, loadEntry_eq, hw, pval]
      have : loadOrStore s k v = (missLocked s, (w, true)) := by
        simp only [loadOrStore, hr', hk', tryLoadOrStore, hw]; rfl
      rw [this, habs]
      exact ⟨h.missLocked_ok, fun k' => abs_missLocked h hdn k', rfl⟩
    | none =>
      have hk' : alookup k (dirtyMap s) = none := hk
      have habs : abs s k = none := by
        cases ha : s.amended with
        | true => simp [abs, cur_of_dt hr ha, hk]
        | false => simp [abs, cur_of_clean_miss hr ha]
      have : loadOrStore s k v = (storeNew s k v, (v, false)) := by simp only [loadOrStore, hr', hk']
      rw [this, habs]
      exact ⟨h.storeNew_ok v hr hk, abs_storeNew h v hr, rfl⟩

/-! ### LoadAndDelete / Delete -/

theorem loadAndDelete_ok {s : State K V} (h : SeqInv s) (k : K) :
    SeqInv (loadAndDelete s k).1 ∧
    (∀ k', abs (loadAndDelete s k).1 k' = if k' = k then none else abs s k') ∧
    (loadAndDelete s k).2 = abs s k := by
  cases hr : rd s k with
  | some e =>
    have hr' : alookup k s.read = some e := hr
    have habs : abs s k = pval (getP s e) := by simp [abs, cur_of_rd hr, loadEntry_eq]
    cases hp : getP s e with
    | val w =>
      have : loadAndDelete s k = (setP s e .nil, some w) := by simp only [loadAndDelete, hr', entryDelete, hp]
      rw [this, habs, hp]
      refine ⟨h.setP_ok e .nil ?_ ?_, ?_, rfl⟩
      · intro k' _; exact ⟨(by intro h2; cases h2), (by rw [hp]; intro h2; cases h2)⟩
      · intro k' hk1 hk2
        have := h.s6 k' k e (Or.inr hk2) (Or.inl hr)
        subst this; rw [hr] at hk1; cases hk1
      · intro k'; rw [abs_setP_cur h (cur_of_rd hr)]; rfl
    | nil =>
      have : loadAndDelete s k = (s, none) := by simp only [loadAndDelete, hr', entryDelete, hp]
      rw [this, habs, hp]
      refine ⟨h, ?_, rfl⟩
      intro k'; by_cases h1 : k' = k
      · subst h1; simp [habs, hp, pval]
      · simp [h1]
    | expunged =>
      have : loadAndDelete s k = (s, none) := by simp only [loadAndDelete, hr', entryDelete, hp]
      rw [this, habs, hp]
      refine ⟨h, ?_, rfl⟩
      intro k'; by_cases h1 : k' = k
      · subst h1; simp [habs, hp, pval]
      · simp [h1]
  | none =>
    have hr' : alookup k s.read = none := hr
    cases ha : s.amended with
    | false =>
      have habs : abs s k = none := by simp [abs, cur_of_clean_miss hr ha]
      have : loadAndDelete s k = (s, none) := by simp [loadAndDelete, hr', ha]
      rw [this, habs]
      refine ⟨h, ?_, rfl⟩
      intro k'; by_cases h1 : k' = k
      · subst h1; simp [habs]
      · simp [h1]
    | true =>
      have hdn := h.dirty_of_amended ha
      have h1 := h.delDirty_ok k hr
      have hdn1 : (delDirty s k).dirty ≠ none := (delDirty_dirty_ne s k).mpr hdn
      have h2 := h1.missLocked_ok
      have habs2 : ∀ k', abs (missLocked (delDirty s k)) k' = if k' = k then none else abs s k' := by
        intro k'; rw [abs_missLocked h1 hdn1, abs_delDirty k hr]
      cases hk : dt s k with
      | none =>
        have hk' : alookup k (dirtyMap s) = none := hk
        have habs : abs s k = none := by simp [abs, cur_of_dt hr ha, hk]
        have : loadAndDelete s k = (missLocked (delDirty s k), none) := by simp [loadAndDelete, hr', ha, hk']
        rw [this, habs]
        exact ⟨h2, habs2, rfl⟩
      | some e =>
        have hk' : alookup k (dirtyMap s) = some e := hk
        obtain ⟨w, hw⟩ := h.s5 k e hr hk
        have habs : abs s k = some w := by simp [abs, cur_of_dt hr ha, hk, loadEntry_eq, hw, pval]
        have hg : getP (missLocked (delDirty s k)) e = .val w := by rw [getP_missLocked]; exact hw
        have : loadAndDelete s k = (setP (missLocked (delDirty s k)) e .nil, some w) := by
          simp [loadAndDelete, hr', ha, hk', entryDelete, hg]
        rw [this, habs]
        -- the entry was unlinked from the dirty map: nothing refers to it any more
        have hun : ∀ k', ¬ (rd (missLocked (delDirty s k)) k' = some e ∨ dt (missLocked (delDirty s k)) k' = some e) := by
          intro k' hc
          rcases missLocked_ref hc with h3 | h3
          · rw [rd_delDirty] at h3
            have := h.s6 k' k e (Or.inl h3) (Or.inr hk)
            subst this; rw [hr] at h3; cases h3
          · rw [dt_delDirty] at h3
            split at h3
            · cases h3
            · rename_i hne; exact hne (h.s6 k' k e (Or.inr h3) (Or.inr hk))
        refine ⟨h2.setP_ok e .nil ?_ ?_, ?_, rfl⟩
        · intro k' hk2; exact absurd (Or.inl hk2) (hun k')
        · intro k' _ hk2; exact absurd (Or.inr hk2) (hun k')
        · intro k'
          rw [abs_setP_unref h2 e .nil (fun k2 hc => hun k2 (cur_ref hc)), habs2]

theorem delete_ok {s : State K V} (h : SeqInv s) (k : K) :
    SeqInv (delete s k) ∧ ∀ k', abs (delete s k) k' = if k' = k then none else abs s k' :=
  ⟨(loadAndDelete_ok h k).1, (loadAndDelete_ok h k).2.1⟩

/-! ### Range -/

theorem rangePromote_ok {s : State K V} (h : SeqInv s) :
    SeqInv (rangePromote s) ∧ (∀ k, abs (rangePromote s) k = abs s k) ∧ (rangePromote s).amended = false := by
  cases ha : s.amended with
  | true =>
    have : rangePromote s = promote s := by simp [rangePromote, ha]
    rw [this]
    exact ⟨h.promote_ok, abs_promote h (h.dirty_of_amended ha), rfl⟩
  | false =>
    have : rangePromote s = s := by simp [rangePromote, ha]
    rw [this]
    exact ⟨h, fun _ => rfl, ha⟩

/-- in a clean state the abstraction is read off `read.m` -/
theorem abs_clean {s : State K V} (ha : s.amended = false) (k : K) :
    abs s k = (alookup k s.read).bind (loadEntry s) := by
  unfold abs cur
  show (match alookup k s.read with | some e => some e | none => if s.amended then dt s k else none).bind _ = _
  cases alookup k s.read <;> simp [ha]

theorem rangeLoop_eq (s : State K V) (m : PMap.PMap K V) (hm : ∀ k, (alookup k s.read).bind (loadEntry s) = m k) :
    ∀ (order : List K) (left : Nat),
      rangeLoop s order left = if left = 0 then PMap.visit m order else (PMap.visit m order).take left := by
  intro order
  induction order with
  | nil => intro left; simp [rangeLoop, PMap.visit]
  | cons k rest ih =>
    intro left
    have hmk := hm k
    cases hr : alookup k s.read with
    | none =>
      rw [hr] at hmk
      have : PMap.visit m (k :: rest) = PMap.visit m rest := by
        simp only [PMap.visit, List.filterMap_cons, ← hmk]; rfl
      rw [this]
      simp only [rangeLoop, hr]
      exact ih left
    | some e =>
      rw [hr] at hmk; simp only [Option.bind_some] at hmk
      cases hl : loadEntry s e with
      | none =>
        rw [hl] at hmk
        have : PMap.visit m (k :: rest) = PMap.visit m rest := by
          simp only [PMap.visit, List.filterMap_cons, ← hmk]; rfl
        rw [this]
        simp only [rangeLoop, hr, hl]
        exact ih left
      | some v =>
        rw [hl] at hmk
        have : PMap.visit m (k :: rest) = (k, v) :: PMap.visit m rest := by
          simp only [PMap.visit, List.filterMap_cons, ← hmk]; rfl
        rw [this]
        simp only [rangeLoop, hr, hl]
        by_cases h1 : left = 1
        · simp [h1]
        · simp only [h1, if_false]
          rw [ih (left - 1)]
          by_cases h0 : left = 0
          · simp [h0]
          · have h2 : left - 1 ≠ 0 := by omega
            simp only [h0, h2, if_false]
            obtain ⟨l', hl'⟩ : ∃ l', left = l' + 1 := ⟨left - 1, by omega⟩
            subst hl'; simp

theorem rangeOrd_ok {s : State K V} (h : SeqInv s) (order : List K) (n : Int) :
    SeqInv (rangeOrd s order n).1 ∧ (∀ k, abs (rangeOrd s order n).1 k = abs s k) ∧
    (rangeOrd s order n).2 = PMap.cut n (PMap.visit (abs s) order) := by
  obtain ⟨h1, h2, h3⟩ := rangePromote_ok h
  refine ⟨h1, h2, ?_⟩
  show rangeLoop (rangePromote s) order n.toNat = _
  rw [rangeLoop_eq (rangePromote s) (abs s) (fun k => by rw [← abs_clean h3, h2])]
  unfold PMap.cut
  by_cases hn : n ≤ 0
  · have : n.toNat = 0 := by omega
    simp [hn, this]
  · have : n.toNat ≠ 0 := by omega
    simp [hn, this]

/-! ### one step, any call -/

theorem step_ok [Inhabited V] {s : State K V} (h : SeqInv s) (op : Op K V) :
    SeqInv (step s op).1 ∧ abs (step s op).1 = (PMap.apply (abs s) op).1 ∧
    (step s op).2 = (PMap.apply (abs s) op).2 := by
  cases op with
  | load k =>
    obtain ⟨h1, h2, h3⟩ := load_ok h k
    exact ⟨h1, funext h2, by simp [step, PMap.apply, h3]⟩
  | store k v =>
    obtain ⟨h1, h2⟩ := store_ok h k v
    exact ⟨h1, funext (fun k' => by rw [show (step s (.store k v)).1 = store s k v from rfl, h2]; rfl), rfl⟩
  | loadOrStore k v =>
    obtain ⟨h1, h2⟩ := loadOrStore_ok h k v
    refine ⟨h1, ?_⟩
    show abs (loadOrStore s k v).1 = (PMap.apply (abs s) (.loadOrStore k v)).1 ∧
      Out.pair (loadOrStore s k v).2.1 (loadOrStore s k v).2.2 = (PMap.apply (abs s) (.loadOrStore k v)).2
    unfold PMap.apply
    cases ha : abs s k with
    | some w =>
      rw [ha] at h2; simp only [ha]
      exact ⟨funext h2.1, by rw [h2.2]⟩
    | none =>
      rw [ha] at h2; simp only [ha]
      exact ⟨funext (fun k' => by rw [h2.1]; rfl), by rw [h2.2]⟩
  | loadAndDelete k =>
    obtain ⟨h1, h2, h3⟩ := loadAndDelete_ok h k
    exact ⟨h1, funext (fun k' => by rw [show (step s (.loadAndDelete k)).1 = (loadAndDelete s k).1 from rfl, h2]; rfl),
      by simp [step, PMap.apply, h3]⟩
  | delete k =>
    obtain ⟨h1, h2⟩ := delete_ok h k
    exact ⟨h1, funext (fun k' => by rw [show (step s (.delete k)).1 = delete s k from rfl, h2]; rfl), rfl⟩
  | range order n =>
    obtain ⟨h1, h2, h3⟩ := rangeOrd_ok h order n
    exact ⟨h1, funext h2, by simp [step, PMap.apply, h3]⟩

theorem SeqInv.init_ok : SeqInv (State.init : State K V) where
  nofault := rfl
  readNodup := by simp [State.init, akeys]
  dirtyNodup := by simp [State.init, dirtyMap, akeys]
  readRange := fun k e hk => by simp [rd, State.init] at hk
  dirtyRange := fun k e hk => by simp [dt, State.init, dirtyMap] at hk
  s1 := fun _ => rfl
  s2 := fun hd => absurd rfl hd
  s3 := fun _ k e hk => by simp [rd, State.init] at hk
  s4 := fun _ k e hk => by simp [dt, State.init, dirtyMap] at hk
  s5 := fun k e _ hk => by simp [dt, State.init, dirtyMap] at hk
  s6 := fun k k' e h1 _ => by simp [rd, dt, State.init, dirtyMap] at h1
  s7 := fun hd => absurd rfl hd

theorem abs_init : abs (State.init : State K V) = PMap.empty := by
  funext k; simp [abs, cur, rd, State.init, PMap.empty]

theorem runFrom_ok [Inhabited V] : ∀ (ops : List (Op K V)) (s : State K V), SeqInv s →
    SeqInv (runFrom s ops).1 ∧ abs (runFrom s ops).1 = (PMap.runFrom (abs s) ops).1 ∧
    (runFrom s ops).2 = (PMap.runFrom (abs s) ops).2 := by
  intro ops
  induction ops with
  | nil => intro s h; exact ⟨h, rfl, rfl⟩
  | cons op rest ih =>
    intro s h
    obtain ⟨h1, h2, h3⟩ := step_ok h op
    obtain ⟨i1, i2, i3⟩ := ih (step s op).1 h1
    refine ⟨i1, ?_, ?_⟩
    · show abs (runFrom (step s op).1 rest).1 = (PMap.runFrom (PMap.apply (abs s) op).1 rest).1
      rw [i2, h2]
    · show (step s op).2 :: (runFrom (step s op).1 rest).2 =
        (PMap.apply (abs s) op).2 :: (PMap.runFrom (PMap.apply (abs s) op).1 rest).2
      rw [i3, h2, h3]

end TypVerif.Lemmas.SyncMap
