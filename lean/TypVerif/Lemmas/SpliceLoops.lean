import TypVerif.Lemmas.Splice
/-
Lemmas for C12: the loops of Fill (doubling copy) and Reverse (two-index walk), by index invariants.
-/
namespace TypVerif.Lemmas.Splice
open TypVerif TypVerif.Model TypVerif.Model.GoSlice TypVerif.Lemmas.GoSlice

variable {α : Type}

/-! ### Fill -/

/-- Invariant of the doubling loop: on entry with index `i ≥ 1` the first `min i len` cells of the window hold `v`;
on exit the whole window does, and nothing else has been written. -/
theorem fillLoop_spec (s : Slice) (v : α) (hc : s.len ≤ s.cap) :
    ∀ (fuel i : Nat) (h : Heap α) (iters : Nat), 1 ≤ i → s.len - i ≤ fuel →
      s.off + s.len ≤ (h.cells s.bid).length →
      (∀ j, s.off ≤ j → j < s.off + min i s.len → (h.cells s.bid)[j]? = some v) →
      ∃ h' it', Splice.fillLoop s fuel i h iters = .ok (h', it') ∧ h'.next = h.next ∧
        (∀ b, (h'.cells b).length = (h.cells b).length) ∧
        ∀ b j, (h'.cells b)[j]? =
          if b = s.bid ∧ s.off ≤ j ∧ j < s.off + s.len then some v else (h.cells b)[j]? := by
  have done : ∀ (i : Nat) (h : Heap α), s.len ≤ i →
      (∀ j, s.off ≤ j → j < s.off + min i s.len → (h.cells s.bid)[j]? = some v) →
      ∀ b j, (h.cells b)[j]? =
          if b = s.bid ∧ s.off ≤ j ∧ j < s.off + s.len then some v else (h.cells b)[j]? := by
    intro i h hle hpre b j
    by_cases hcond : b = s.bid ∧ s.off ≤ j ∧ j < s.off + s.len
    · rw [if_pos hcond, hcond.1]
      exact hpre j hcond.2.1 (by have := hcond.2.2; omega)
    · rw [if_neg hcond]
  intro fuel
  induction fuel with
  | zero =>
    intro i h iters _ hf _ hpre
    exact ⟨h, iters, rfl, rfl, fun _ => rfl, done i h (by omega) hpre⟩
  | succ fuel ih =>
    intro i h iters hi hf hl hpre
    unfold Splice.fillLoop
    by_cases hlt : i < s.len
    · rw [if_pos hlt, sliceFrom_ok _ i (by omega) hc, sliceTo_ok _ i (by omega)]
      simp only [bind, Except.bind]
      have hc1 := fun b j => copy_cells h
        ({ bid := s.bid, off := s.off + i, len := s.len - i, cap := s.cap - i } : Slice)
        ({ bid := s.bid, off := s.off, len := i, cap := s.cap } : Slice)
        (by simp only []; omega) (by simp only []; omega) b j
      have hl1 := fun b => copy_length h
        ({ bid := s.bid, off := s.off + i, len := s.len - i, cap := s.cap - i } : Slice)
        ({ bid := s.bid, off := s.off, len := i, cap := s.cap } : Slice)
        (by simp only []; omega) b
      simp only [] at hc1
      obtain ⟨h', it', he, hn, hlen, hcells⟩ := ih (i + i) _ (iters + 1) (by omega) (by omega)
        (by rw [hl1]; exact hl)
        (by
          intro j hj1 hj2
          rw [hc1]
          split
          · rename_i hcond
            exact hpre _ (by omega) (by omega)
          · rename_i hcond
            exact hpre j hj1 (by omega))
      refine ⟨h', it', he, by rw [hn]; rfl, fun b => by rw [hlen, hl1], ?_⟩
      intro b j
      rw [hcells, hc1]
      by_cases hb : b = s.bid
      · subst hb
        simp only [true_and]
        repeat' split
        all_goals idx
      · simp only [hb, false_and, if_false]
    · rw [if_neg hlt]
      exact ⟨h, iters, rfl, rfl, fun _ => rfl, done i h (by omega) hpre⟩

/-- `Fill` sets every cell of the window to `v` and writes nothing else -/
theorem fillIters_spec (h : Heap α) (s : Slice) (v : α) (hwf : WF h s) :
    ∃ h' it', Splice.fillIters h s v = .ok (h', it') ∧ h'.next = h.next ∧
      (∀ b, (h'.cells b).length = (h.cells b).length) ∧
      ∀ b j, (h'.cells b)[j]? =
        if b = s.bid ∧ s.off ≤ j ∧ j < s.off + s.len then some v else (h.cells b)[j]? := by
  obtain ⟨hlc, hlen, _⟩ := hwf
  unfold Splice.fillIters
  by_cases h0 : s.len = 0
  · simp only [h0, if_true, bind, Except.bind, pure, Except.pure]
    refine ⟨h, 0, rfl, rfl, fun _ => rfl, ?_⟩
    intro b j
    rw [if_neg (by omega)]
  · rw [if_neg h0, set_ok _ _ _ _ (by omega)]
    simp only [bind, Except.bind]
    have hsc := set_cells h s 0 v (by omega)
    have hsl := set_length h s 0 v
    obtain ⟨h', it', he, hn, hlen', hcells⟩ := fillLoop_spec s v hlc s.len 1
      (h.write s.bid ((h.cells s.bid).set (s.off + 0) v)) 0 (by omega) (by omega)
      (by rw [hsl]; omega)
      (by
        intro j hj1 hj2
        rw [hsc, if_pos ⟨rfl, by omega⟩])
    refine ⟨h', it', he, by rw [hn]; rfl, fun b => by rw [hlen', hsl], ?_⟩
    intro b j
    rw [hcells, hsc]
    by_cases hb : b = s.bid
    · subst hb
      simp only [true_and]
      repeat' split
      all_goals idx
    · simp only [hb, false_and, if_false]

theorem fill_spec (h : Heap α) (s : Slice) (v : α) (hwf : WF h s) :
    ∃ h', Splice.fill h s v = .ok h' ∧ h'.next = h.next ∧
      (∀ b, (h'.cells b).length = (h.cells b).length) ∧
      ∀ b j, (h'.cells b)[j]? =
        if b = s.bid ∧ s.off ≤ j ∧ j < s.off + s.len then some v else (h.cells b)[j]? := by
  obtain ⟨h', it', he, rest⟩ := fillIters_spec h s v hwf
  refine ⟨h', ?_, rest⟩
  unfold Splice.fill
  rw [he]; rfl

theorem fill_contents (h : Heap α) (s : Slice) (v : α) (hwf : WF h s) :
    ∃ h', Splice.fill h s v = .ok h' ∧ WF h' s ∧ contents h' s = List.replicate s.len v := by
  obtain ⟨h', he, hn, hlen, hcells⟩ := fill_spec h s v hwf
  refine ⟨h', he, ⟨hwf.1, by rw [hlen]; exact hwf.2.1, by rw [hn]; exact hwf.2.2⟩, ?_⟩
  apply List.ext_getElem?
  intro k
  rw [getElem?_contents, List.getElem?_replicate, hcells]
  simp only [true_and]
  repeat' split
  all_goals idx

/-! ### Reverse -/

/-- Invariant of the two-index walk: started at `(i, len-1-i)` it mirrors the cells `[i, len-i)` of the window
and leaves everything else alone. -/
theorem reverseLoop_spec (s : Slice) :
    ∀ (fuel i : Nat) (h : Heap α), s.len / 2 - i ≤ fuel → s.off + s.len ≤ (h.cells s.bid).length →
      ∃ h', Splice.reverseLoop s fuel i (s.len - 1 - i) h = .ok h' ∧ h'.next = h.next ∧
        (∀ b, (h'.cells b).length = (h.cells b).length) ∧
        ∀ b p, (h'.cells b)[p]? =
          if b = s.bid ∧ s.off + i ≤ p ∧ p < s.off + s.len - i
          then (h.cells s.bid)[s.off + (s.len - 1 - (p - s.off))]? else (h.cells b)[p]? := by
  have done : ∀ (i : Nat) (h : Heap α), s.len / 2 ≤ i →
      ∀ b p, (h.cells b)[p]? =
          if b = s.bid ∧ s.off + i ≤ p ∧ p < s.off + s.len - i
          then (h.cells s.bid)[s.off + (s.len - 1 - (p - s.off))]? else (h.cells b)[p]? := by
    intro i h hle b p
    by_cases hcond : b = s.bid ∧ s.off + i ≤ p ∧ p < s.off + s.len - i
    · rw [if_pos hcond, hcond.1]
      congr 1; omega
    · rw [if_neg hcond]
  intro fuel
  induction fuel with
  | zero =>
    intro i h hf _
    exact ⟨h, rfl, rfl, fun _ => rfl, done i h (by omega)⟩
  | succ fuel ih =>
    intro i h hf hl
    unfold Splice.reverseLoop
    by_cases hlt : i < s.len / 2
    · rw [if_pos hlt]
      obtain ⟨va, hga, ha⟩ := get_ok h s (s.len - 1 - i) (by omega) hl
      obtain ⟨vb, hgb, hb⟩ := get_ok h s i (by omega) hl
      rw [hga, hgb]
      simp only [bind, Except.bind]
      rw [set_ok h s i va (by omega)]
      simp only []
      rw [set_ok _ s (s.len - 1 - i) vb (by omega)]
      simp only []
      have hs1 := set_cells h s i va (by omega)
      have hl1 := set_length h s i va
      have hs2 := set_cells (h.write s.bid ((h.cells s.bid).set (s.off + i) va)) s (s.len - 1 - i) vb
        (by rw [write_cells_same, List.length_set]; omega)
      have hl2 := set_length (h.write s.bid ((h.cells s.bid).set (s.off + i) va)) s (s.len - 1 - i) vb
      have hj : s.len - 1 - i - 1 = s.len - 1 - (i + 1) := by omega
      rw [hj]
      obtain ⟨h', he, hn, hlen, hcells⟩ := ih (i + 1) _ (by omega) (by rw [hl2, hl1]; exact hl)
      refine ⟨h', he, by rw [hn]; rfl, fun b => by rw [hlen, hl2, hl1], ?_⟩
      intro b p
      rw [hcells]
      simp only [hs2, hs1, ← ha, ← hb]
      by_cases hbb : b = s.bid
      · subst hbb
        simp only [true_and]
        repeat' split
        all_goals idx
      · simp only [hbb, false_and, if_false]
    · rw [if_neg hlt]
      exact ⟨h, rfl, rfl, fun _ => rfl, done i h (by omega)⟩

theorem reverse_spec (h : Heap α) (s : Slice) (hwf : WF h s) :
    ∃ h', Splice.reverse h s = .ok h' ∧ h'.next = h.next ∧
      (∀ b, (h'.cells b).length = (h.cells b).length) ∧
      ∀ b p, (h'.cells b)[p]? =
        if b = s.bid ∧ s.off ≤ p ∧ p < s.off + s.len
        then (h.cells s.bid)[s.off + (s.len - 1 - (p - s.off))]? else (h.cells b)[p]? := by
  have := reverseLoop_spec s (s.len / 2) 0 h (by omega) (by have := hwf.1; have := hwf.2.1; omega)
  simpa [Splice.reverse] using this

theorem reverse_contents (h : Heap α) (s : Slice) (hwf : WF h s) :
    ∃ h', Splice.reverse h s = .ok h' ∧ WF h' s ∧ contents h' s = (contents h s).reverse := by
  have hcl : (contents h s).length = s.len := length_contents (by have := hwf.1; have := hwf.2.1; omega)
  obtain ⟨h', he, hn, hlen, hcells⟩ := reverse_spec h s hwf
  refine ⟨h', he, ⟨hwf.1, by rw [hlen]; exact hwf.2.1, by rw [hn]; exact hwf.2.2⟩, ?_⟩
  apply List.ext_getElem?
  intro k
  rw [getElem?_contents, hcells]
  by_cases hk : k < s.len
  · rw [if_pos hk, if_pos ⟨rfl, by omega, by omega⟩, List.getElem?_reverse (by omega), hcl, getElem?_contents,
      if_pos (by omega)]
    congr 1; omega
  · rw [if_neg hk]
    symm
    rw [List.getElem?_eq_none_iff, List.length_reverse, hcl]; omega

end TypVerif.Lemmas.Splice
