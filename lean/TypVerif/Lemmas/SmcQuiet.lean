import TypVerif.Lemmas.SmcStepDefs
/-
C04 concurrent half: the "quiet" steps — steps of a goroutine that do not change `entries/readM/amended/dirty`
(pure control steps, reads, lock acquisition, unlock, the non-promoting `missStep`) and are not linearization
steps.  Plus the two visible steps (`idle`: invocation, `ret`: response), which do not touch the shared state at all.

General lemmas: `R_quiet_core` (any abstract successor that agrees with `observeAll a` off `t`), `R_quiet`
(internal step, `witness s t none a`), `R_quiet'` (the same, with the stepping goroutine's `T` stated for the
un-observed abstract pc `a.pcs t`).
-/
namespace TypVerif.Lemmas.Smc
open TypVerif.Model TypVerif.Model.SyncMapConc TypVerif.Model.RelObj
open TypVerif.Model.SyncMap (alookup ainsert aerase akeys)

set_option linter.unusedSimpArgs false
set_option linter.unusedVariables false
set_option linter.unusedSectionVars false

variable {K V : Type} [DecidableEq K] [DecidableEq V] [Inhabited V]
variable {menu : List (Op K V)} {s : State K V} {a : AState K V} {t : Tid}

/-! ### the general lemma -/

/-- how the mutex may change in a quiet step of `t`: not at all, `t` takes it, `t` releases it -/
def MuStep (sh' sh : Shared K V) (t : Tid) : Prop :=
  sh'.mu = sh.mu ∨ (sh.mu = none ∧ sh'.mu = some t) ∨ (sh.mu = some t ∧ sh'.mu = none)

omit [Inhabited V] in
theorem MuStep.own_iff {sh' sh : Shared K V} {t u : Tid} (h : MuStep sh' sh t) (hu : u ≠ t) :
    Own sh' u ↔ Own sh u := by
  unfold Own
  rcases h with h | ⟨h1, h2⟩ | ⟨h1, h2⟩
  · rw [h]
  · rw [h1, h2]
    constructor
    · intro h3; exact absurd (Option.some.inj h3).symm hu
    · intro h3; cases h3
  · rw [h1, h2]
    constructor
    · intro h3; cases h3
    · intro h3; exact absurd (Option.some.inj h3).symm hu

omit [Inhabited V] in
theorem MuStep.same (sh : Shared K V) (t : Tid) : MuStep sh sh t := Or.inl rfl
omit [Inhabited V] in
theorem MuStep.of_eq {sh' sh : Shared K V} {t : Tid} (h : sh'.mu = sh.mu) : MuStep sh' sh t := Or.inl h
omit [Inhabited V] in
theorem MuStep.lock {sh : Shared K V} {t : Tid} (h : sh.mu = none) : MuStep { sh with mu := some t } sh t :=
  Or.inr (Or.inl ⟨h, rfl⟩)
omit [Inhabited V] in
theorem MuStep.unlock {sh' sh : Shared K V} {t : Tid} (h : Own sh t) (h' : sh'.mu = none) : MuStep sh' sh t :=
  Or.inr (Or.inr ⟨h, h'⟩)

omit [Inhabited V] in
/-- The general lemma: goroutine `t` moves to `pc'`, the shared state keeps its entries and maps (`SameData`), the
mutex changes hands at most from/to `t`; the abstract state `a'` has the same object and, off `t`, the observed
pcs of `a`.  Then `R` is re-established provided `T` holds for `t` itself, `t`'s unprocessed pairs do not shrink
and `t` unlinks nothing new. -/
theorem R_quiet_core (hR : R s a) (ht : t < s.pcs.length) {a' : AState K V}
    (hobj : a'.obj = a.obj) (hpcs : ∀ u, u ≠ t → a'.pcs u = observePc a.obj (a.pcs u))
    (hobs : Obs a'.obj a'.pcs)
    {sh' : Shared K V} {pc' : Pc K V} (hd : SameData sh' s.sh) (hfault : sh'.fault = false)
    (hmu : MuStep sh' s.sh t)
    (hself : T sh' t pc' (a'.pcs t))
    (hunp : ∀ p, p ∈ unprocPc (s.pc t) → p ∈ unprocPc pc')
    (hunl : ∀ e ∈ unlinkedPc pc' (a'.pcs t), e ∈ unlinkedPc (s.pc t) (a.pcs t)) :
    R (setPc s t sh' pc') a' := by
  apply R_of_parts
  · -- G
    apply hR.g.of_sameData (s' := setPc s t sh' pc') (by simpa using hd) (by simpa using hfault)
    · intro u hu
      rw [setPc_pcs_length]
      simp only [setPc_sh] at hu
      rcases hmu with h | ⟨_, h2⟩ | ⟨_, h2⟩
      · exact hR.g.muBound u (h ▸ hu)
      · rw [h2] at hu; cases hu; exact ht
      · rw [h2] at hu; cases hu
    · intro p hp
      obtain ⟨u, hu⟩ := mem_unprocessed'.mp hp
      rw [mem_unprocessed_setPc]
      by_cases hut : u = t
      · subst hut; exact Or.inl ⟨ht, hunp p hu⟩
      · exact Or.inr ⟨u, hut, hu⟩
    · apply hR.g.unlinked_setPc sh'
      · intro u hu
        rw [hpcs u hu, unlinkedPc_observePc]
      · intro e he
        exact Or.inl (hunl e he)
  · intro k
    rw [hobj, hR.abs k]
    exact (absOf_congr hd k).symm
  · intro u
    simp only [setPc_sh]
    by_cases hut : u = t
    · subst hut
      rw [pc_setPc_self ht]
      exact hself
    · rw [pc_setPc_ne hut, hpcs u hut]
      exact (T_congr hd (hmu.own_iff hut) _ _).mpr (T_observePc (hR.thr u) a.obj)
  · exact hobs

omit [Inhabited V] in
/-- quiet INTERNAL step (the witness is `observeAll a`) -/
theorem R_quiet (hR : R s a) (ht : t < s.pcs.length) (hlin : isLin s.sh (s.pc t) (a.pcs t) = false)
    {sh' : Shared K V} {pc' : Pc K V} (hd : SameData sh' s.sh) (hfault : sh'.fault = false)
    (hmu : MuStep sh' s.sh t)
    (hself : T sh' t pc' (observePc a.obj (a.pcs t)))
    (hunp : ∀ p, p ∈ unprocPc (s.pc t) → p ∈ unprocPc pc')
    (hunl : ∀ e ∈ unlinkedPc pc' (a.pcs t), e ∈ unlinkedPc (s.pc t) (a.pcs t)) :
    R (setPc s t sh' pc') (witness s t none a) := by
  apply R_quiet_core hR ht (witness_obj_tau s t a hlin) (fun u _ => witness_pcs_tau s t a hlin u)
    (obs_witness s t none a) hd hfault hmu
  · rw [witness_pcs_tau s t a hlin]; exact hself
  · exact hunp
  · rw [witness_pcs_tau s t a hlin, unlinkedPc_observePc]; exact hunl

omit [Inhabited V] in
/-- the same with `T` for the stepping goroutine stated before observation (`R` already contains `Obs`, so the
current effect-free result of `t` is in its `seen` list before the step) -/
theorem R_quiet' (hR : R s a) (ht : t < s.pcs.length) (hlin : isLin s.sh (s.pc t) (a.pcs t) = false)
    {sh' : Shared K V} {pc' : Pc K V} (hd : SameData sh' s.sh) (hfault : sh'.fault = false)
    (hmu : MuStep sh' s.sh t)
    (hself : T sh' t pc' (a.pcs t))
    (hunp : ∀ p, p ∈ unprocPc (s.pc t) → p ∈ unprocPc pc')
    (hunl : ∀ e ∈ unlinkedPc pc' (a.pcs t), e ∈ unlinkedPc (s.pc t) (a.pcs t)) :
    R (setPc s t sh' pc') (witness s t none a) :=
  R_quiet hR ht hlin hd hfault hmu (T_observePc hself a.obj) hunp hunl

omit [Inhabited V] in
/-- pure control step: the shared state is untouched -/
theorem R_quiet_same (hR : R s a) (ht : t < s.pcs.length) (hlin : isLin s.sh (s.pc t) (a.pcs t) = false)
    {pc' : Pc K V} (hself : T s.sh t pc' (a.pcs t))
    (hunp : ∀ p, p ∈ unprocPc (s.pc t) → p ∈ unprocPc pc')
    (hunl : ∀ e ∈ unlinkedPc pc' (a.pcs t), e ∈ unlinkedPc (s.pc t) (a.pcs t)) :
    R (setPc s t s.sh pc') (witness s t none a) :=
  R_quiet' hR ht hlin (SameData.refl _) hR.g.nofault (MuStep.same _ _) hself hunp hunl

omit [Inhabited V] in
/-- `t` acquires the free mutex -/
theorem R_quiet_lock (hR : R s a) (ht : t < s.pcs.length) (hlin : isLin s.sh (s.pc t) (a.pcs t) = false)
    (hm : s.sh.mu = none) {pc' : Pc K V} (hself : T { s.sh with mu := some t } t pc' (a.pcs t))
    (hunp : ∀ p, p ∈ unprocPc (s.pc t) → p ∈ unprocPc pc')
    (hunl : ∀ e ∈ unlinkedPc pc' (a.pcs t), e ∈ unlinkedPc (s.pc t) (a.pcs t)) :
    R (setPc s t { s.sh with mu := some t } pc') (witness s t none a) :=
  R_quiet' hR ht hlin (sameData_mu_update _ _) hR.g.nofault (MuStep.lock hm) hself hunp hunl

/-! ### small facts used below -/

omit [Inhabited V] in
theorem retOk_of_pend_mem {p : APc K V} {op : Op K V} {r : Res K V} (hp : Pend p op) (hr : r ∈ seenOf p) :
    RetOk p r := by
  cases p with
  | idle => exact hp.elim
  | done op' r' => exact hp.elim
  | pending op' seen => exact hr

omit [Inhabited V] in
/-- `Obs`: the current effect-free result of a pending goroutine has been seen -/
theorem Obs.mem_seenOf {obj : K → Option V} {apcs : Nat → APc K V} (h : Obs obj apcs) {t : Tid} {op : Op K V}
    {r : Res K V} (hp : Pend (apcs t) op) (hr : pureRes obj op = some r) : r ∈ seenOf (apcs t) := by
  cases hq : apcs t with
  | idle => rw [hq] at hp; exact hp.elim
  | done op' r' => rw [hq] at hp; exact hp.elim
  | pending op' seen =>
    rw [hq] at hp
    have : op' = op := hp
    subst this
    exact h t op' seen hq r hr

omit [Inhabited V] in
theorem Obs.retOk {obj : K → Option V} {apcs : Nat → APc K V} (h : Obs obj apcs) {t : Tid} {op : Op K V}
    {r : Res K V} (hp : Pend (apcs t) op) (hr : pureRes obj op = some r) : RetOk (apcs t) r :=
  retOk_of_pend_mem hp (h.mem_seenOf hp hr)

omit [Inhabited V] in
theorem T_ret_iff {sh : Shared K V} {t : Tid} {r : Res K V} {p : APc K V} (hr : ∀ l, r ≠ .pairs l) :
    T sh t (.ret r) p ↔ RetOk p r ∧ ¬ Own sh t := by
  cases r with
  | pairs l => exact absurd rfl (hr l)
  | done => simp only [T]
  | val o => simp only [T]
  | pair w b => simp only [T]

omit [Inhabited V] in
theorem T_ret_pairs_iff {sh : Shared K V} {t : Tid} {l : List (K × V)} {p : APc K V} :
    T sh t (.ret (.pairs l)) p ↔ IsIdle p ∧ ¬ Own sh t ∧ (l.map Prod.fst).Nodup := by
  simp only [T]

omit [Inhabited V] in
theorem T_rangeNext_iff {sh : Shared K V} {t : Tid} {todo : List (K × EId)} {acc : List (K × V)} {p : APc K V} :
    T sh t (rangeNext todo acc) p ↔ IsIdle p ∧ ¬ Own sh t ∧ RangeHold sh todo acc := by
  cases todo with
  | nil => rw [rangeNext_nil, RangeHold.nil_iff]; simp only [T]
  | cons q todo => rw [rangeNext_cons]; simp only [T]

omit [Inhabited V] in
theorem noneRes_ne_pairs (d : Bool) (l : List (K × V)) : (noneRes d : Res K V) ≠ .pairs l := by
  cases d <;> simp [noneRes]

omit [Inhabited V] in
theorem pureRes_ladOp_none {obj : K → Option V} {d : Bool} {k : K} (h : obj k = none) :
    pureRes obj (ladOp d k) = some (noneRes d) := by
  cases d <;> simp [ladOp, noneRes, pureRes, h]

omit [Inhabited V] in
theorem unlinkedPc_delCas (d : Bool) (k : K) (e : EId) (p : Ptr V) (q : APc K V) :
    unlinkedPc (.delCas d k e p) q = unlinkedPc (.delLoad d k e) q := by
  cases q <;> rfl

omit [Inhabited V] in
/-- a pending goroutine has unlinked nothing, unless it is parked at `ladMiss` -/
theorem unlinkedPc_of_pend {q : APc K V} {op : Op K V} (h : Pend q op) {pc : Pc K V}
    (hpc : ∀ d k e, pc ≠ .ladMiss d k e) : unlinkedPc pc q = [] := by
  cases q with
  | idle => exact h.elim
  | done op' r' => exact h.elim
  | pending op' seen =>
    cases pc <;> first | rfl | exact absurd rfl (hpc _ _ _)

omit [Inhabited V] in
theorem unlinkedPc_of_idle {q : APc K V} (h : IsIdle q) {pc : Pc K V}
    (hpc : ∀ d k e, pc ≠ .ladMiss d k e) : unlinkedPc pc q = [] := by
  cases q with
  | pending op' seen => exact h.elim
  | done op' r' => exact h.elim
  | idle =>
    cases pc <;> first | rfl | exact absurd rfl (hpc _ _ _)

omit [Inhabited V] in
theorem unlinkedPc_ret (r : Res K V) (q : APc K V) : unlinkedPc (.ret r : Pc K V) q = [] := by
  cases q <;> rfl

omit [Inhabited V] in
theorem rangeNext_ne_ladMiss (todo : List (K × EId)) (acc : List (K × V)) (d : Bool) (k : K) (e : Option EId) :
    rangeNext todo acc ≠ .ladMiss d k e := by
  unfold rangeNext
  split <;> (intro h; cases h)

omit [Inhabited V] in
theorem loadAfter_ne_ladMiss (k : K) (e' : Option EId) (d : Bool) (k' : K) (e : Option EId) :
    (loadAfter k e' : Pc K V) ≠ .ladMiss d k' e := by
  cases e' <;> (intro h; cases h)

/-! ### visible steps -/

theorem stepOK_idle (hR : R s a) (ht : t < s.pcs.length) (hpc : s.pc t = .idle) : StepOK menu s a t := by
  have hT := hR.thr t
  rw [hpc] at hT
  simp only [T] at hT
  have hidle : a.pcs t = .idle := isIdle_iff.mp hT.1
  intro l s' hmem
  rcases mem_stepT_iff.mp hmem with ⟨_, op, hop, rfl, rfl⟩ | ⟨r, h, _⟩ | ⟨h, _⟩
  · by_cases hrange : op = .range
    · subst hrange
      refine ⟨sim_inv_range s t t hR.idle_of_le, ?_⟩
      apply R_quiet_core hR ht (witness_obj_inv s t t _ a) (fun u _ => witness_pcs_inv_range s t t a u)
        (obs_witness _ _ _ _) (SameData.refl _) hR.g.nofault (MuStep.same _ _)
      · rw [witness_pcs_inv_range]
        simp only [T]
        exact ⟨isIdle_observePc.mpr hT.1, hT.2⟩
      · intro p hp; rw [hpc] at hp; cases hp
      · intro e he; simp [unlinkedPc] at he
    · refine ⟨sim_inv s hR.idle_of_le ht hidle hrange, ?_⟩
      apply R_quiet_core hR ht (witness_obj_inv s t t _ a)
        (fun u hu => witness_pcs_inv_other s t t op a hu)
        (obs_witness _ _ _ _) (SameData.refl _) hR.g.nofault (MuStep.same _ _)
      · rw [witness_pcs_inv_self s t t a hrange]
        have : T s.sh t (.start op) (.pending op []) := by
          cases op <;> first | exact absurd rfl hrange | (simp only [T]; exact ⟨rfl, hT.2⟩)
        exact T_observePc this a.obj
      · intro p hp; rw [hpc] at hp; cases hp
      · intro e he; simp [unlinkedPc] at he
  · rw [hpc] at h; cases h
  · exact absurd hpc h

theorem stepOK_ret {r : Res K V} (hR : R s a) (ht : t < s.pcs.length) (hpc : s.pc t = .ret r) :
    StepOK menu s a t := by
  have hT := hR.thr t
  rw [hpc] at hT
  intro l s' hmem
  rcases mem_stepT_iff.mp hmem with ⟨h, _⟩ | ⟨r', h, rfl, rfl⟩ | ⟨_, h, _⟩
  · rw [hpc] at h; cases h
  · rw [hpc] at h
    cases h
    by_cases hr : ∀ l, r ≠ .pairs l
    · rw [T_ret_iff hr] at hT
      refine ⟨sim_res s hR.idle_of_le ht hT.1 hr, ?_⟩
      apply R_quiet_core hR ht (witness_obj_res s t t _ a)
        (fun u hu => witness_pcs_res_other s t t r a hu)
        (obs_witness _ _ _ _) (SameData.refl _) hR.g.nofault (MuStep.same _ _)
      · rw [witness_pcs_res_self s t t a hr]
        simp only [T]
        exact ⟨trivial, hT.2⟩
      · intro p hp; rw [hpc] at hp; cases hp
      · intro e he; simp [unlinkedPc] at he
    · have : ∃ l, r = .pairs l := by
        cases r with
        | pairs l => exact ⟨l, rfl⟩
        | done => exact absurd (fun l h => by cases h) hr
        | val o => exact absurd (fun l h => by cases h) hr
        | pair w b => exact absurd (fun l h => by cases h) hr
      obtain ⟨l, rfl⟩ := this
      rw [T_ret_pairs_iff] at hT
      refine ⟨sim_res_range s t t l hR.idle_of_le, ?_⟩
      apply R_quiet_core hR ht (witness_obj_res s t t _ a)
        (fun u _ => witness_pcs_res_pairs s t t l a u)
        (obs_witness _ _ _ _) (SameData.refl _) hR.g.nofault (MuStep.same _ _)
      · rw [witness_pcs_res_pairs]
        simp only [T]
        exact ⟨isIdle_observePc.mpr hT.1, hT.2.1⟩
      · intro p hp; rw [hpc] at hp; cases hp
      · intro e he; simp [unlinkedPc] at he
  · exact absurd hpc (h r)

/-! ### internal steps -/

theorem stepOK_start {op : Op K V} (hR : R s a) (ht : t < s.pcs.length) (hpc : s.pc t = .start op) :
    StepOK menu s a t := by
  have hT := hR.thr t
  rw [hpc] at hT
  have hlin : isLin s.sh (s.pc t) (a.pcs t) = false := by rw [hpc]; rfl
  have hunp : ∀ pc' : Pc K V, ∀ p, p ∈ unprocPc (s.pc t) → p ∈ unprocPc pc' := by
    intro pc' p hp; rw [hpc] at hp; cases hp
  apply stepOK_of_internal hR ht (by rw [hpc]; simp) (by rw [hpc]; simp) _ (pickOK_of_nil (by rw [hpc]; rfl))
  intro sh' pc' hex
  rw [hpc] at hex
  cases op with
  | load k =>
    simp only [exec, Option.some.injEq, Prod.mk.injEq] at hex
    obtain ⟨rfl, rfl⟩ := hex
    simp only [T] at hT
    exact R_quiet_same hR ht hlin (by simp only [T]; exact hT) (hunp _) (by intro e he; simp [unlinkedPc] at he)
  | store k v =>
    simp only [exec, Option.some.injEq, Prod.mk.injEq] at hex
    obtain ⟨rfl, rfl⟩ := hex
    simp only [T] at hT
    exact R_quiet_same hR ht hlin (by simp only [T]; exact hT) (hunp _) (by intro e he; simp [unlinkedPc] at he)
  | loadOrStore k v =>
    simp only [exec, Option.some.injEq, Prod.mk.injEq] at hex
    obtain ⟨rfl, rfl⟩ := hex
    simp only [T] at hT
    exact R_quiet_same hR ht hlin (by simp only [T]; exact hT) (hunp _) (by intro e he; simp [unlinkedPc] at he)
  | loadAndDelete k =>
    simp only [exec, Option.some.injEq, Prod.mk.injEq] at hex
    obtain ⟨rfl, rfl⟩ := hex
    simp only [T] at hT
    refine R_quiet_same hR ht hlin (by simp only [T, ladOp]; exact hT) (hunp _) ?_
    rw [unlinkedPc_of_pend hT.1 (by intro d k e h; cases h)]
    intro e he; cases he
  | delete k =>
    simp only [exec, Option.some.injEq, Prod.mk.injEq] at hex
    obtain ⟨rfl, rfl⟩ := hex
    simp only [T] at hT
    refine R_quiet_same hR ht hlin (by simp only [T, ladOp]; exact hT) (hunp _) ?_
    rw [unlinkedPc_of_pend hT.1 (by intro d k e h; cases h)]
    intro e he; cases he
  | range =>
    simp only [exec, Option.some.injEq, Prod.mk.injEq] at hex
    obtain ⟨rfl, rfl⟩ := hex
    simp only [T] at hT
    exact R_quiet_same hR ht hlin (by simp only [T]; exact hT) (hunp _) (by intro e he; simp [unlinkedPc] at he)

theorem stepOK_loadRead1 {k : K} (hR : R s a) (ht : t < s.pcs.length) (hpc : s.pc t = .loadRead1 k) :
    StepOK menu s a t := by
  have hT := hR.thr t
  rw [hpc] at hT
  simp only [T] at hT
  have hlin : isLin s.sh (s.pc t) (a.pcs t) = false := by rw [hpc]; rfl
  have hunp : ∀ pc' : Pc K V, ∀ p, p ∈ unprocPc (s.pc t) → p ∈ unprocPc pc' := by
    intro pc' p hp; rw [hpc] at hp; cases hp
  have hunl : ∀ pc' : Pc K V, (∀ d k e, pc' ≠ .ladMiss d k e) →
      ∀ e ∈ unlinkedPc pc' (a.pcs t), e ∈ unlinkedPc (s.pc t) (a.pcs t) := by
    intro pc' h e he; rw [unlinkedPc_of_pend hT.1 h] at he; cases he
  apply stepOK_of_internal hR ht (by rw [hpc]; simp) (by rw [hpc]; simp) _ (pickOK_of_nil (by rw [hpc]; rfl))
  intro sh' pc' hex
  rw [hpc] at hex
  simp only [exec] at hex
  cases hr : alookup k s.sh.readM with
  | some e =>
    simp only [hr, Option.some.injEq, Prod.mk.injEq] at hex
    obtain ⟨rfl, rfl⟩ := hex
    refine R_quiet_same hR ht hlin ?_ (hunp _) (hunl _ (by intro d k e h; cases h))
    simp only [T]
    exact ⟨hT.1, hT.2, hR.g.read_lt_length hr, Or.inl (Cur_of_read hr)⟩
  | none =>
    cases ha : s.sh.amended with
    | true =>
      simp only [hr, ha, if_true, Option.some.injEq, Prod.mk.injEq] at hex
      obtain ⟨rfl, rfl⟩ := hex
      refine R_quiet_same hR ht hlin ?_ (hunp _) (hunl _ (by intro d k e h; cases h))
      simp only [T]
      exact hT
    | false =>
      simp only [hr, ha, Bool.false_eq_true, if_false, Option.some.injEq, Prod.mk.injEq] at hex
      obtain ⟨rfl, rfl⟩ := hex
      refine R_quiet_same hR ht hlin ?_ (hunp _) (hunl _ (by intro d k e h; cases h))
      simp only [T]
      refine ⟨hR.obs.retOk hT.1 ?_, hT.2⟩
      rw [pureRes_load, hR.abs k, absOf_of_not_amended hr ha]

theorem stepOK_loadLock {k : K} (hR : R s a) (ht : t < s.pcs.length) (hpc : s.pc t = .loadLock k) :
    StepOK menu s a t := by
  have hT := hR.thr t
  rw [hpc] at hT
  simp only [T] at hT
  have hlin : isLin s.sh (s.pc t) (a.pcs t) = false := by rw [hpc]; rfl
  apply stepOK_of_internal hR ht (by rw [hpc]; simp) (by rw [hpc]; simp) _ (pickOK_of_nil (by rw [hpc]; rfl))
  intro sh' pc' hex
  rw [hpc] at hex
  simp only [exec] at hex
  obtain ⟨hm, rfl, rfl⟩ := lockStep_eq_some_iff.mp hex
  refine R_quiet_lock hR ht hlin hm ?_ ?_ ?_
  · simp only [T]
    exact ⟨hT.1, rfl⟩
  · intro p hp; rw [hpc] at hp; cases hp
  · intro e he; rw [unlinkedPc_of_pend hT.1 (by intro d k e h; cases h)] at he; cases he

theorem stepOK_loadPtr {k : K} {e : EId} (hR : R s a) (ht : t < s.pcs.length) (hpc : s.pc t = .loadPtr k e) :
    StepOK menu s a t := by
  have hT := hR.thr t
  rw [hpc] at hT
  simp only [T] at hT
  obtain ⟨hpend, hown, hlt, hhold⟩ := hT
  have hlin : isLin s.sh (s.pc t) (a.pcs t) = false := by rw [hpc]; rfl
  apply stepOK_of_internal hR ht (by rw [hpc]; simp) (by rw [hpc]; simp) _ (pickOK_of_nil (by rw [hpc]; rfl))
  intro sh' pc' hex
  rw [hpc] at hex
  simp only [exec, Option.some.injEq, Prod.mk.injEq] at hex
  obtain ⟨rfl, rfl⟩ := hex
  refine R_quiet_same hR ht hlin ?_ ?_ ?_
  · simp only [T]
    refine ⟨?_, hown⟩
    rcases hhold with hc | ⟨hdead, hs⟩ | ⟨horph, hs, hv⟩
    · apply hR.obs.retOk hpend
      rw [pureRes_load, hR.abs k, hR.g.absOf_of_cur hc]
    · rw [hdead.value?]
      exact retOk_of_pend_mem hpend hs
    · cases hval : (getP s.sh e).value? with
      | none => exact retOk_of_pend_mem hpend hs
      | some v => rw [hval] at hv; exact retOk_of_pend_mem hpend hv
  · intro p hp; rw [hpc] at hp; cases hp
  · intro e he; rw [unlinkedPc_of_pend hpend (by intro d k e h; cases h)] at he; cases he

theorem stepOK_loadRead2 {k : K} (hR : R s a) (ht : t < s.pcs.length) (hpc : s.pc t = .loadRead2 k) :
    StepOK menu s a t := by
  have hT := hR.thr t
  rw [hpc] at hT
  simp only [T] at hT
  have hlin : isLin s.sh (s.pc t) (a.pcs t) = false := by rw [hpc]; rfl
  have hunp : ∀ pc' : Pc K V, ∀ p, p ∈ unprocPc (s.pc t) → p ∈ unprocPc pc' := by
    intro pc' p hp; rw [hpc] at hp; cases hp
  have hunl : ∀ pc' : Pc K V, (∀ d k e, pc' ≠ .ladMiss d k e) →
      ∀ e ∈ unlinkedPc pc' (a.pcs t), e ∈ unlinkedPc (s.pc t) (a.pcs t) := by
    intro pc' h e he; rw [unlinkedPc_of_pend hT.1 h] at he; cases he
  apply stepOK_of_internal hR ht (by rw [hpc]; simp) (by rw [hpc]; simp) _ (pickOK_of_nil (by rw [hpc]; rfl))
  intro sh' pc' hex
  rw [hpc] at hex
  simp only [exec] at hex
  cases hr : alookup k s.sh.readM with
  | some e =>
    simp only [hr, Option.some.injEq, Prod.mk.injEq] at hex
    obtain ⟨rfl, rfl⟩ := hex
    refine R_quiet' hR ht hlin (sameData_unlock _) hR.g.nofault (MuStep.unlock hT.2 rfl) ?_ (hunp _)
      (hunl _ (by intro d k e h; cases h))
    simp only [T]
    exact ⟨hT.1, Own_unlock _ _, (HoldLoad_congr (sameData_unlock _) k e _).mpr
      ⟨hR.g.read_lt_length hr, Or.inl (Cur_of_read hr)⟩⟩
  | none =>
    cases ha : s.sh.amended with
    | true =>
      simp only [hr, ha, if_true] at hex
      by_cases hm : (missStep s.sh).2 = true
      · rw [if_pos hm] at hex
        simp only [Option.some.injEq, Prod.mk.injEq] at hex
        obtain ⟨rfl, rfl⟩ := hex
        refine R_quiet' hR ht hlin (sameData_missStep_fst _) hR.g.nofault (MuStep.of_eq rfl) ?_ (hunp _)
          (hunl _ (by intro d k e h; cases h))
        refine (T_congr (sameData_missStep_fst s.sh) (Own_missStep_fst _ _) _ _).mpr ?_
        simp only [T]
        exact ⟨hT.1, ⟨hT.2, ha, hR.g.dirty_isSome_of_amended ha⟩, hr, trivial⟩
      · rw [if_neg hm] at hex
        simp only [Option.some.injEq, Prod.mk.injEq] at hex
        obtain ⟨rfl, rfl⟩ := hex
        refine R_quiet' hR ht hlin (sameData_unlock_missStep_fst _) hR.g.nofault (MuStep.unlock hT.2 rfl) ?_
          (hunp _) (hunl _ (loadAfter_ne_ladMiss _ _))
        cases hdm : alookup k (dirtyMap s.sh) with
        | some e =>
          simp only [loadAfter, T]
          exact ⟨hT.1, Own_unlock _ _, (HoldLoad_congr (sameData_unlock_missStep_fst _) k e _).mpr
            ⟨hR.g.dirty_lt_length hdm, Or.inl (Cur_of_dirty hr hdm)⟩⟩
        | none =>
          simp only [loadAfter, T]
          refine ⟨hR.obs.retOk hT.1 ?_, Own_unlock _ _⟩
          rw [pureRes_load, hR.abs k, absOf_of_none_none hr hdm]
    | false =>
      simp only [hr, ha, Bool.false_eq_true, if_false, Option.some.injEq, Prod.mk.injEq] at hex
      obtain ⟨rfl, rfl⟩ := hex
      refine R_quiet' hR ht hlin (sameData_unlock _) hR.g.nofault (MuStep.unlock hT.2 rfl) ?_ (hunp _)
        (hunl _ (by intro d k e h; cases h))
      simp only [T]
      refine ⟨hR.obs.retOk hT.1 ?_, Own_unlock _ _⟩
      rw [pureRes_load, hR.abs k, absOf_of_not_amended hr ha]

/-! #### Store -/

theorem stepOK_storeRead1 {k : K} {v : V} (hR : R s a) (ht : t < s.pcs.length) (hpc : s.pc t = .storeRead1 k v) :
    StepOK menu s a t := by
  have hT := hR.thr t
  rw [hpc] at hT
  simp only [T] at hT
  have hlin : isLin s.sh (s.pc t) (a.pcs t) = false := by rw [hpc]; rfl
  have hunp : ∀ pc' : Pc K V, ∀ p, p ∈ unprocPc (s.pc t) → p ∈ unprocPc pc' := by
    intro pc' p hp; rw [hpc] at hp; cases hp
  have hunl : ∀ pc' : Pc K V, (∀ d k e, pc' ≠ .ladMiss d k e) →
      ∀ e ∈ unlinkedPc pc' (a.pcs t), e ∈ unlinkedPc (s.pc t) (a.pcs t) := by
    intro pc' h e he; rw [unlinkedPc_of_pend hT.1 h] at he; cases he
  apply stepOK_of_internal hR ht (by rw [hpc]; simp) (by rw [hpc]; simp) _ (pickOK_of_nil (by rw [hpc]; rfl))
  intro sh' pc' hex
  rw [hpc] at hex
  simp only [exec] at hex
  cases hr : alookup k s.sh.readM with
  | some e =>
    simp only [hr, Option.some.injEq, Prod.mk.injEq] at hex
    obtain ⟨rfl, rfl⟩ := hex
    refine R_quiet_same hR ht hlin ?_ (hunp _) (hunl _ (by intro d k e h; cases h))
    simp only [T]
    exact ⟨hT.1, hT.2, hR.g.read_lt_length hr, Or.inl hr⟩
  | none =>
    simp only [hr, Option.some.injEq, Prod.mk.injEq] at hex
    obtain ⟨rfl, rfl⟩ := hex
    refine R_quiet_same hR ht hlin ?_ (hunp _) (hunl _ (by intro d k e h; cases h))
    simp only [T]
    exact hT

theorem stepOK_tryStoreLoad {k : K} {v : V} {e : EId} (hR : R s a) (ht : t < s.pcs.length)
    (hpc : s.pc t = .tryStoreLoad k v e) : StepOK menu s a t := by
  have hT := hR.thr t
  rw [hpc] at hT
  simp only [T] at hT
  have hlin : isLin s.sh (s.pc t) (a.pcs t) = false := by rw [hpc]; rfl
  have hunp : ∀ pc' : Pc K V, ∀ p, p ∈ unprocPc (s.pc t) → p ∈ unprocPc pc' := by
    intro pc' p hp; rw [hpc] at hp; cases hp
  have hunl : ∀ pc' : Pc K V, (∀ d k e, pc' ≠ .ladMiss d k e) →
      ∀ e ∈ unlinkedPc pc' (a.pcs t), e ∈ unlinkedPc (s.pc t) (a.pcs t) := by
    intro pc' h e he; rw [unlinkedPc_of_pend hT.1 h] at he; cases he
  apply stepOK_of_internal hR ht (by rw [hpc]; simp) (by rw [hpc]; simp) _ (pickOK_of_nil (by rw [hpc]; rfl))
  intro sh' pc' hex
  rw [hpc] at hex
  simp only [exec] at hex
  cases hx : (getP s.sh e).isExpunged with
  | true =>
    simp only [hx, if_true, Option.some.injEq, Prod.mk.injEq] at hex
    obtain ⟨rfl, rfl⟩ := hex
    refine R_quiet_same hR ht hlin ?_ (hunp _) (hunl _ (by intro d k e h; cases h))
    simp only [T]
    exact ⟨hT.1, hT.2.1⟩
  | false =>
    simp only [hx, Bool.false_eq_true, if_false, Option.some.injEq, Prod.mk.injEq] at hex
    obtain ⟨rfl, rfl⟩ := hex
    refine R_quiet_same hR ht hlin ?_ (hunp _) (hunl _ (by intro d k e h; cases h))
    simp only [T]
    exact ⟨hT.1, hT.2.1, hT.2.2, hx⟩

theorem stepOK_storeLock {k : K} {v : V} (hR : R s a) (ht : t < s.pcs.length) (hpc : s.pc t = .storeLock k v) :
    StepOK menu s a t := by
  have hT := hR.thr t
  rw [hpc] at hT
  simp only [T] at hT
  have hlin : isLin s.sh (s.pc t) (a.pcs t) = false := by rw [hpc]; rfl
  apply stepOK_of_internal hR ht (by rw [hpc]; simp) (by rw [hpc]; simp) _ (pickOK_of_nil (by rw [hpc]; rfl))
  intro sh' pc' hex
  rw [hpc] at hex
  simp only [exec] at hex
  obtain ⟨hm, rfl, rfl⟩ := lockStep_eq_some_iff.mp hex
  refine R_quiet_lock hR ht hlin hm ?_ ?_ ?_
  · simp only [T]
    exact ⟨hT.1, rfl⟩
  · intro p hp; rw [hpc] at hp; cases hp
  · intro e he; rw [unlinkedPc_of_pend hT.1 (by intro d k e h; cases h)] at he; cases he

/-! #### LoadOrStore -/

theorem stepOK_losRead1 {k : K} {v : V} (hR : R s a) (ht : t < s.pcs.length) (hpc : s.pc t = .losRead1 k v) :
    StepOK menu s a t := by
  have hT := hR.thr t
  rw [hpc] at hT
  simp only [T] at hT
  have hlin : isLin s.sh (s.pc t) (a.pcs t) = false := by rw [hpc]; rfl
  have hunp : ∀ pc' : Pc K V, ∀ p, p ∈ unprocPc (s.pc t) → p ∈ unprocPc pc' := by
    intro pc' p hp; rw [hpc] at hp; cases hp
  have hunl : ∀ pc' : Pc K V, (∀ d k e, pc' ≠ .ladMiss d k e) →
      ∀ e ∈ unlinkedPc pc' (a.pcs t), e ∈ unlinkedPc (s.pc t) (a.pcs t) := by
    intro pc' h e he; rw [unlinkedPc_of_pend hT.1 h] at he; cases he
  apply stepOK_of_internal hR ht (by rw [hpc]; simp) (by rw [hpc]; simp) _ (pickOK_of_nil (by rw [hpc]; rfl))
  intro sh' pc' hex
  rw [hpc] at hex
  simp only [exec] at hex
  cases hr : alookup k s.sh.readM with
  | some e =>
    simp only [hr, Option.some.injEq, Prod.mk.injEq] at hex
    obtain ⟨rfl, rfl⟩ := hex
    refine R_quiet_same hR ht hlin ?_ (hunp _) (hunl _ (by intro d k e h; cases h))
    simp only [T, LosHold]
    exact ⟨hT.1, hT.2, hR.g.read_lt_length hr, Or.inl hr⟩
  | none =>
    simp only [hr, Option.some.injEq, Prod.mk.injEq] at hex
    obtain ⟨rfl, rfl⟩ := hex
    refine R_quiet_same hR ht hlin ?_ (hunp _) (hunl _ (by intro d k e h; cases h))
    simp only [T]
    exact hT

theorem stepOK_losLock {k : K} {v : V} (hR : R s a) (ht : t < s.pcs.length) (hpc : s.pc t = .losLock k v) :
    StepOK menu s a t := by
  have hT := hR.thr t
  rw [hpc] at hT
  simp only [T] at hT
  have hlin : isLin s.sh (s.pc t) (a.pcs t) = false := by rw [hpc]; rfl
  apply stepOK_of_internal hR ht (by rw [hpc]; simp) (by rw [hpc]; simp) _ (pickOK_of_nil (by rw [hpc]; rfl))
  intro sh' pc' hex
  rw [hpc] at hex
  simp only [exec] at hex
  obtain ⟨hm, rfl, rfl⟩ := lockStep_eq_some_iff.mp hex
  refine R_quiet_lock hR ht hlin hm ?_ ?_ ?_
  · simp only [T]
    exact ⟨hT.1, rfl⟩
  · intro p hp; rw [hpc] at hp; cases hp
  · intro e he; rw [unlinkedPc_of_pend hT.1 (by intro d k e h; cases h)] at he; cases he

/-! #### LoadAndDelete / Delete -/

theorem stepOK_ladRead1 {d : Bool} {k : K} (hR : R s a) (ht : t < s.pcs.length) (hpc : s.pc t = .ladRead1 d k) :
    StepOK menu s a t := by
  have hT := hR.thr t
  rw [hpc] at hT
  simp only [T] at hT
  have hlin : isLin s.sh (s.pc t) (a.pcs t) = false := by rw [hpc]; rfl
  have hunp : ∀ pc' : Pc K V, ∀ p, p ∈ unprocPc (s.pc t) → p ∈ unprocPc pc' := by
    intro pc' p hp; rw [hpc] at hp; cases hp
  have hunl : ∀ pc' : Pc K V, (∀ d k e, pc' ≠ .ladMiss d k e) →
      ∀ e ∈ unlinkedPc pc' (a.pcs t), e ∈ unlinkedPc (s.pc t) (a.pcs t) := by
    intro pc' h e he; rw [unlinkedPc_of_pend hT.1 h] at he; cases he
  apply stepOK_of_internal hR ht (by rw [hpc]; simp) (by rw [hpc]; simp) _ (pickOK_of_nil (by rw [hpc]; rfl))
  intro sh' pc' hex
  rw [hpc] at hex
  simp only [exec] at hex
  cases hr : alookup k s.sh.readM with
  | some e =>
    simp only [hr, Option.some.injEq, Prod.mk.injEq] at hex
    obtain ⟨rfl, rfl⟩ := hex
    refine R_quiet_same hR ht hlin ?_ (hunp _) (hunl _ (by intro d k e h; cases h))
    simp only [T]
    exact ⟨hT.2, Or.inl ⟨hT.1, hR.g.read_lt_length hr, Or.inl hr⟩⟩
  | none =>
    cases ha : s.sh.amended with
    | true =>
      simp only [hr, ha, if_true, Option.some.injEq, Prod.mk.injEq] at hex
      obtain ⟨rfl, rfl⟩ := hex
      refine R_quiet_same hR ht hlin ?_ (hunp _) (hunl _ (by intro d k e h; cases h))
      simp only [T]
      exact hT
    | false =>
      simp only [hr, ha, Bool.false_eq_true, if_false, Option.some.injEq, Prod.mk.injEq] at hex
      obtain ⟨rfl, rfl⟩ := hex
      refine R_quiet_same hR ht hlin ?_ (hunp _) (hunl _ (by intro d k e h; cases h))
      rw [T_ret_iff (noneRes_ne_pairs d)]
      refine ⟨hR.obs.retOk hT.1 (pureRes_ladOp_none ?_), hT.2⟩
      rw [hR.abs k, absOf_of_not_amended hr ha]

theorem stepOK_ladLock {d : Bool} {k : K} (hR : R s a) (ht : t < s.pcs.length) (hpc : s.pc t = .ladLock d k) :
    StepOK menu s a t := by
  have hT := hR.thr t
  rw [hpc] at hT
  simp only [T] at hT
  have hlin : isLin s.sh (s.pc t) (a.pcs t) = false := by rw [hpc]; rfl
  apply stepOK_of_internal hR ht (by rw [hpc]; simp) (by rw [hpc]; simp) _ (pickOK_of_nil (by rw [hpc]; rfl))
  intro sh' pc' hex
  rw [hpc] at hex
  simp only [exec] at hex
  obtain ⟨hm, rfl, rfl⟩ := lockStep_eq_some_iff.mp hex
  refine R_quiet_lock hR ht hlin hm ?_ ?_ ?_
  · simp only [T]
    exact ⟨hT.1, rfl⟩
  · intro p hp; rw [hpc] at hp; cases hp
  · intro e he; rw [unlinkedPc_of_pend hT.1 (by intro d k e h; cases h)] at he; cases he

/-- `delete()` loaded nil or expunged: it answers "absent" -/
theorem R_delLoad_ret {d : Bool} {k : K} {e : EId} (hR : R s a) (ht : t < s.pcs.length)
    (hpc : s.pc t = .delLoad d k e) (hv : (getP s.sh e).value? = none) :
    R (setPc s t s.sh (.ret (noneRes d))) (witness s t none a) := by
  have hT := hR.thr t
  rw [hpc] at hT
  simp only [T] at hT
  obtain ⟨hown, hcase⟩ := hT
  have hlin : isLin s.sh (s.pc t) (a.pcs t) = false := by rw [hpc]; rfl
  refine R_quiet_same hR ht hlin ?_ ?_ ?_
  · rw [T_ret_iff (noneRes_ne_pairs d)]
    refine ⟨?_, hown⟩
    rcases hcase with ⟨hpend, _, hr | ⟨_, hs⟩⟩ | hu
    · apply hR.obs.retOk hpend (pureRes_ladOp_none ?_)
      rw [hR.abs k, absOf_of_read hr, hv]
    · exact retOk_of_pend_mem hpend hs
    · obtain ⟨w, hw, _⟩ := hu.spec
      rw [hv] at hw; cases hw
  · intro p hp; rw [hpc] at hp; cases hp
  · intro e' he; rw [unlinkedPc_ret] at he; cases he

theorem stepOK_delLoad {d : Bool} {k : K} {e : EId} (hR : R s a) (ht : t < s.pcs.length)
    (hpc : s.pc t = .delLoad d k e) : StepOK menu s a t := by
  have hT := hR.thr t
  rw [hpc] at hT
  simp only [T] at hT
  have hlin : isLin s.sh (s.pc t) (a.pcs t) = false := by rw [hpc]; rfl
  apply stepOK_of_internal hR ht (by rw [hpc]; simp) (by rw [hpc]; simp) _ (pickOK_of_nil (by rw [hpc]; rfl))
  intro sh' pc' hex
  rw [hpc] at hex
  simp only [exec] at hex
  cases hp : getP s.sh e with
  | val i w =>
    simp only [hp, Option.some.injEq, Prod.mk.injEq] at hex
    obtain ⟨rfl, rfl⟩ := hex
    refine R_quiet_same hR ht hlin ?_ ?_ ?_
    · simp only [T]
      exact ⟨hT, rfl, fun _ => by rw [hp]; exact same_self _⟩
    · intro p hp; rw [hpc] at hp; cases hp
    · intro e' he; rw [unlinkedPc_delCas] at he; rw [hpc]; exact he
  | nil =>
    simp only [hp, Option.some.injEq, Prod.mk.injEq] at hex
    obtain ⟨rfl, rfl⟩ := hex
    exact R_delLoad_ret hR ht hpc (by rw [hp]; rfl)
  | expunged =>
    simp only [hp, Option.some.injEq, Prod.mk.injEq] at hex
    obtain ⟨rfl, rfl⟩ := hex
    exact R_delLoad_ret hR ht hpc (by rw [hp]; rfl)

/-! #### Range -/

theorem stepOK_rangeRead1 (hR : R s a) (ht : t < s.pcs.length) (hpc : s.pc t = .rangeRead1) :
    StepOK menu s a t := by
  have hT := hR.thr t
  rw [hpc] at hT
  simp only [T] at hT
  have hlin : isLin s.sh (s.pc t) (a.pcs t) = false := by rw [hpc]; rfl
  have hunp : ∀ pc' : Pc K V, ∀ p, p ∈ unprocPc (s.pc t) → p ∈ unprocPc pc' := by
    intro pc' p hp; rw [hpc] at hp; cases hp
  have hunl : ∀ pc' : Pc K V, (∀ d k e, pc' ≠ .ladMiss d k e) →
      ∀ e ∈ unlinkedPc pc' (a.pcs t), e ∈ unlinkedPc (s.pc t) (a.pcs t) := by
    intro pc' h e he; rw [unlinkedPc_of_idle hT.1 h] at he; cases he
  apply stepOK_of_internal hR ht (by rw [hpc]; simp) (by rw [hpc]; simp) _ (pickOK_of_nil (by rw [hpc]; rfl))
  intro sh' pc' hex
  rw [hpc] at hex
  simp only [exec] at hex
  cases ha : s.sh.amended with
  | true =>
    simp only [ha, if_true, Option.some.injEq, Prod.mk.injEq] at hex
    obtain ⟨rfl, rfl⟩ := hex
    refine R_quiet_same hR ht hlin ?_ (hunp _) (hunl _ (by intro d k e h; cases h))
    simp only [T]
    exact hT
  | false =>
    simp only [ha, Bool.false_eq_true, if_false, Option.some.injEq, Prod.mk.injEq] at hex
    obtain ⟨rfl, rfl⟩ := hex
    refine R_quiet_same hR ht hlin ?_ (hunp _) (hunl _ (rangeNext_ne_ladMiss _ _))
    rw [T_rangeNext_iff]
    exact ⟨hT.1, hT.2, RangeHold.snapshot rfl hR.g.keysR hR.g.boundR⟩

theorem stepOK_rangeLock (hR : R s a) (ht : t < s.pcs.length) (hpc : s.pc t = .rangeLock) :
    StepOK menu s a t := by
  have hT := hR.thr t
  rw [hpc] at hT
  simp only [T] at hT
  have hlin : isLin s.sh (s.pc t) (a.pcs t) = false := by rw [hpc]; rfl
  apply stepOK_of_internal hR ht (by rw [hpc]; simp) (by rw [hpc]; simp) _ (pickOK_of_nil (by rw [hpc]; rfl))
  intro sh' pc' hex
  rw [hpc] at hex
  simp only [exec] at hex
  obtain ⟨hm, rfl, rfl⟩ := lockStep_eq_some_iff.mp hex
  refine R_quiet_lock hR ht hlin hm ?_ ?_ ?_
  · simp only [T]
    exact ⟨hT.1, rfl⟩
  · intro p hp; rw [hpc] at hp; cases hp
  · intro e he; rw [unlinkedPc_of_idle hT.1 (by intro d k e h; cases h)] at he; cases he

theorem stepOK_rangeLoad {todo : List (K × EId)} {acc : List (K × V)} {k' : K} {e' : EId}
    (hR : R s a) (ht : t < s.pcs.length) (hpc : s.pc t = .rangeLoad todo acc k' e') : StepOK menu s a t := by
  have hT := hR.thr t
  rw [hpc] at hT
  simp only [T] at hT
  have hlin : isLin s.sh (s.pc t) (a.pcs t) = false := by rw [hpc]; rfl
  have hunp : ∀ pc' : Pc K V, ∀ p, p ∈ unprocPc (s.pc t) → p ∈ unprocPc pc' := by
    intro pc' p hp; rw [hpc] at hp; cases hp
  have hunl : ∀ pc' : Pc K V, (∀ d k e, pc' ≠ .ladMiss d k e) →
      ∀ e ∈ unlinkedPc pc' (a.pcs t), e ∈ unlinkedPc (s.pc t) (a.pcs t) := by
    intro pc' h e he; rw [unlinkedPc_of_idle hT.1 h] at he; cases he
  apply stepOK_of_internal hR ht (by rw [hpc]; simp) (by rw [hpc]; simp) _ (pickOK_of_nil (by rw [hpc]; rfl))
  intro sh' pc' hex
  rw [hpc] at hex
  simp only [exec] at hex
  have key : ∀ acc' : List (K × V), RangeHold s.sh todo acc' →
      R (setPc s t s.sh (rangeNext todo acc')) (witness s t none a) := by
    intro acc' hacc
    refine R_quiet_same hR ht hlin ?_ (hunp _) (hunl _ (rangeNext_ne_ladMiss _ _))
    rw [T_rangeNext_iff]
    exact ⟨hT.1, hT.2.1, hacc⟩
  cases hp : getP s.sh e' with
  | val i w =>
    simp only [hp, Option.some.injEq, Prod.mk.injEq] at hex
    obtain ⟨rfl, rfl⟩ := hex
    exact key _ (hT.2.2.push w)
  | nil =>
    simp only [hp, Option.some.injEq, Prod.mk.injEq] at hex
    obtain ⟨rfl, rfl⟩ := hex
    exact key _ hT.2.2.skip
  | expunged =>
    simp only [hp, Option.some.injEq, Prod.mk.injEq] at hex
    obtain ⟨rfl, rfl⟩ := hex
    exact key _ hT.2.2.skip

/-! #### loop heads (`picks`) -/

theorem stepOK_dirtyPick {c : NewCtx} {k : K} {v : V} {rm todo : List (K × EId)}
    (hR : R s a) (ht : t < s.pcs.length) (hpc : s.pc t = .dirtyPick c k v rm todo) : StepOK menu s a t := by
  have hT := hR.thr t
  rw [hpc] at hT
  simp only [T] at hT
  have hlin : isLin s.sh (s.pc t) (a.pcs t) = false := by rw [hpc]; rfl
  apply stepOK_of_internal hR ht (by rw [hpc]; simp) (by rw [hpc]; simp) (execOK_of_none (by rw [hpc]; rfl))
  intro x hx
  rw [hpc] at hx
  obtain ⟨p, hp, rfl⟩ := mem_picks_dirtyPick.mp hx
  refine R_quiet_same hR ht hlin ?_ ?_ ?_
  · simp only [T]
    exact ⟨hT.1, hT.2.1, hT.2.2.pick hp⟩
  · intro q hq
    rw [hpc] at hq
    exact (mem_cons_aerase hT.2.2.1 (e := p.2) hp).mpr hq
  · intro e he; simp [unlinkedPc] at he

theorem stepOK_rangePick {todo : List (K × EId)} {acc : List (K × V)}
    (hR : R s a) (ht : t < s.pcs.length) (hpc : s.pc t = .rangePick todo acc) : StepOK menu s a t := by
  have hT := hR.thr t
  rw [hpc] at hT
  simp only [T] at hT
  have hlin : isLin s.sh (s.pc t) (a.pcs t) = false := by rw [hpc]; rfl
  apply stepOK_of_internal hR ht (by rw [hpc]; simp) (by rw [hpc]; simp) (execOK_of_none (by rw [hpc]; rfl))
  intro x hx
  rw [hpc] at hx
  obtain ⟨p, hp, rfl⟩ := mem_picks_rangePick.mp hx
  refine R_quiet_same hR ht hlin ?_ ?_ ?_
  · simp only [T]
    exact ⟨hT.1, hT.2.1, hT.2.2.pick hp⟩
  · intro q hq; rw [hpc] at hq; cases hq
  · intro e he; simp [unlinkedPc] at he

end TypVerif.Lemmas.Smc
