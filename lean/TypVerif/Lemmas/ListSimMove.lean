import TypVerif.Lemmas.ListSim
/-
Preservation of `Sim` by `move` (unlink `e`, link it after `at'`), on views.
-/
namespace TypVerif.Lemmas.LinkedList
open TypVerif.Spec.ListOp
open TypVerif.Spec.Seq
open TypVerif.Model
open TypVerif.Model.LinkedList

theorem cyc_erase_subset {l : ListId} {xs : List ElemId} {e : ElemId} {p : Ptr}
    (hp : p ∈ cyc l (xs.erase e)) : p ∈ cyc l xs := by
  rcases mem_cyc.1 hp with h | ⟨x, hx, h⟩
  · exact mem_cyc.2 (Or.inl h)
  · exact mem_cyc.2 (Or.inr ⟨x, List.mem_of_mem_erase hx, h⟩)

/-- unlinking `e` leaves a heap that spells `xs.erase e` (the links of `e` itself are stale) -/
theorem Sim.unlink_linked {h : Heap} {w : World} (hs : Sim h w) {l : ListId} {e : ElemId}
    (hown : w.owner.get e = some l) {nx1 pv1 : Ptr → Ptr}
    (h1 : ∀ x, nx1 x = if x = h.prev (.elem e) then h.next (.elem e) else h.next x)
    (h2 : ∀ x, pv1 x = if x = h.next (.elem e) then h.prev (.elem e) else h.prev x) :
    Linked nx1 pv1 (cyc l ((w.lists.get l).erase e)) := by
  have hnd := hs.nodup l
  obtain ⟨hlk, _⟩ := hs.linked_of_mem hown
  have hex : e ∈ w.lists.get l := (hs.mem e l).1 hown
  rw [cyc_erase]
  have hlk' : Linked h.next h.prev (.root l :: ((w.lists.get l).map Ptr.elem ++ [Ptr.root l])) := hlk
  have hd : Ptr.elem e ∈ ((w.lists.get l).map Ptr.elem ++ [Ptr.root l]).dropLast := by
    rw [List.dropLast_concat]; simp [hex]
  exact Linked.erase h1 h2 hlk' hd (elem_ne_root e l)
    (cyc_dropLast_nodup (l := l) hnd) (cyc_tail_nodup (l := l) hnd)

theorem Sim.move_views {h g : Heap} {w : World} (hs : Sim h w) {l : ListId} {e : ElemId} {at' : Ptr}
    (hown : w.owner.get e = some l)
    (hat : at' ∈ (cyc l ((w.lists.get l).erase e)).dropLast)
    {nx1 pv1 : Ptr → Ptr}
    (h1 : ∀ x, nx1 x = if x = h.prev (.elem e) then h.next (.elem e) else h.next x)
    (h2 : ∀ x, pv1 x = if x = h.next (.elem e) then h.prev (.elem e) else h.prev x)
    (gnext : ∀ x, g.next x = if x = at' then .elem e else if x = .elem e then nx1 at' else nx1 x)
    (gprev : ∀ x, g.prev x = if x = nx1 at' then .elem e else if x = .elem e then at' else pv1 x)
    (glist : g.listOf = h.listOf) (gval : g.value = h.value) (glen : g.len = h.len)
    (gne : g.nextElem = h.nextElem) :
    Sim g (w.setOrder l (insAfter at' e ((w.lists.get l).erase e))) := by
  have hnd := hs.nodup l
  obtain ⟨hlk, hlen⟩ := hs.linked_of_mem hown
  have hex : e ∈ w.lists.get l := (hs.mem e l).1 hown
  have hndy : ((w.lists.get l).erase e).Nodup := hnd.erase e
  have hey : e ∉ (w.lists.get l).erase e := by rw [hnd.mem_erase_iff]; simp
  have heyc : Ptr.elem e ∉ cyc l ((w.lists.get l).erase e) := fun hh => hey (elem_mem_cyc.1 hh)
  have hec : Ptr.elem e ∈ cyc l (w.lists.get l) := elem_mem_cyc.2 hex
  have hed : Ptr.elem e ∈ (cyc l (w.lists.get l)).dropLast := by
    rw [mem_cyc_dropLast]; exact Or.inr ⟨e, hex, rfl⟩
  have het : Ptr.elem e ∈ (cyc l (w.lists.get l)).tail := by
    rw [cyc_tail]; simp [hex]
  have hpc : h.prev (.elem e) ∈ cyc l (w.lists.get l) := List.dropLast_subset _ (Linked.prev_mem hlk het)
  have hnc : h.next (.elem e) ∈ cyc l (w.lists.get l) := List.mem_of_mem_tail (Linked.next_mem hlk hed)
  have key : Linked nx1 pv1 (cyc l ((w.lists.get l).erase e)) := hs.unlink_linked hown h1 h2
  have hatc : at' ∈ cyc l (w.lists.get l) := cyc_erase_subset (List.dropLast_subset _ hat)
  have hn1c : nx1 at' ∈ cyc l (w.lists.get l) :=
    cyc_erase_subset (List.mem_of_mem_tail (Linked.next_mem key hat))
  refine ⟨?_, ?_, ?_, ?_, ?_, ?_, ?_, ?_⟩
  · rw [gne]; exact hs.nextId
  · intro x; rw [gval]; exact hs.value x
  · intro x; rw [glist]; exact hs.owner x
  · intro x l'
    show w.owner.get x = some l' ↔ x ∈ (w.lists.set l _).get l'
    rw [Store.get_set]
    by_cases hl : l' = l
    · subst hl
      rw [if_pos rfl, mem_insAfter hndy hat, hnd.mem_erase_iff, hs.mem x l']
      constructor
      · intro hm
        by_cases hxe : x = e
        · exact Or.inl hxe
        · exact Or.inr ⟨hxe, hm⟩
      · rintro (hxe | ⟨_, hm⟩)
        · rw [hxe]; exact hex
        · exact hm
    · rw [if_neg hl]; exact hs.mem x l'
  · intro l'
    show ((w.lists.set l _).get l').Nodup
    rw [Store.get_set]
    by_cases hl : l' = l
    · rw [if_pos hl]; exact nodup_insAfter hndy hey hat
    · rw [if_neg hl]; exact hs.nodup l'
  · intro x hx; exact hs.fresh x hx
  · intro x hx
    have hx' : w.owner.get x = none := hx
    have hxc : Ptr.elem x ∉ cyc l (w.lists.get l) := hs.free_not_mem_cyc hx' l
    have a1 : Ptr.elem x ≠ at' := fun hh => hxc (hh ▸ hatc)
    have a2 : Ptr.elem x ≠ Ptr.elem e := fun hh => hxc (hh ▸ hec)
    have a3 : Ptr.elem x ≠ h.prev (.elem e) := fun hh => hxc (hh ▸ hpc)
    have a4 : Ptr.elem x ≠ h.next (.elem e) := fun hh => hxc (hh ▸ hnc)
    have a5 : Ptr.elem x ≠ nx1 at' := fun hh => hxc (hh ▸ hn1c)
    rw [gnext, gprev]
    simp only [a1, a2, a5, if_false]
    rw [h1 (.elem x), h2 (.elem x)]
    simp only [a3, a4, if_false]
    exact hs.detached x hx'
  · intro l'
    show Shape g l' ((w.lists.set l _).get l')
    rw [Store.get_set]
    by_cases hl : l' = l
    · subst hl
      rw [if_pos rfl]
      right
      constructor
      · have hatp : at' = .root l' ∨ ∃ a, at' = .elem a := by
          rcases mem_cyc.1 hatc with h1 | ⟨a, _, h1⟩
          · exact Or.inl h1
          · exact Or.inr ⟨a, h1⟩
        rw [← insP_cyc e hatp]
        exact Linked.insP gnext gprev key hat (cyc_dropLast_nodup hndy) (cyc_tail_nodup hndy) heyc
      · rw [glen, hlen, length_insAfter hndy hat, List.length_erase_of_mem hex]
        have : 0 < (w.lists.get l').length := List.length_pos_of_mem hex
        omega
    · rw [if_neg hl]
      apply hs.shape_others l _ _ _ l' hl
      · intro p hp _
        have a1 : p ≠ at' := fun hh => hp (hh ▸ hatc)
        have a2 : p ≠ Ptr.elem e := fun hh => hp (hh ▸ hec)
        have a3 : p ≠ h.prev (.elem e) := fun hh => hp (hh ▸ hpc)
        rw [gnext]; simp only [a1, a2, if_false]
        rw [h1 p]; simp only [a3, if_false]
      · intro p hp _
        have a2 : p ≠ Ptr.elem e := fun hh => hp (hh ▸ hec)
        have a4 : p ≠ h.next (.elem e) := fun hh => hp (hh ▸ hnc)
        have a5 : p ≠ nx1 at' := fun hh => hp (hh ▸ hn1c)
        rw [gprev]; simp only [a2, a5, if_false]
        rw [h2 p]; simp only [a4, if_false]
      · intro l'' _
        rw [glen]

end TypVerif.Lemmas.LinkedList
