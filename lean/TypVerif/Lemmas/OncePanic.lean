import TypVerif.Model.OncePanic
import TypVerif.Lemmas.OncePanicBase
/-
Invariants of the Once transition system with panicking functions (`Model/OncePanic.lean`):
every step is a step of `Model.Once` or (`fpanic`) the composition of two steps of `Model.Once`,
so `Model.Once`'s invariants carry over; plus what is known about the goroutines that panicked.
-/
namespace TypVerif.Lemmas.OncePanic
open TypVerif TypVerif.Conc TypVerif.Model TypVerif.Model.OncePanic

/-! ### generic facts about executions -/

theorem exec_append {S : Sys} {s s' : S.State} {l1 l2 : List (Option S.Event)}
    (h : Exec S s (l1 ++ l2) s') : ∃ m, Exec S s l1 m ∧ Exec S m l2 s' := by
  induction l1 generalizing s with
  | nil => exact ⟨s, Exec.nil s, h⟩
  | cons l l1 ih =>
    cases h with
    | cons hm ht =>
      obtain ⟨m, h1, h2⟩ := ih ht
      exact ⟨m, Exec.cons hm h1, h2⟩

theorem exec_trans {S : Sys} {s m s' : S.State} {l1 l2 : List (Option S.Event)}
    (h1 : Exec S s l1 m) (h2 : Exec S m l2 s') : Exec S s (l1 ++ l2) s' := by
  induction h1 with
  | nil s => exact h2
  | cons hm _ ih => exact Exec.cons hm (ih h2)

theorem exec_preserves {S : Sys} (P : S.State → Prop)
    (hstep : ∀ s l s', P s → (l, s') ∈ S.succ s → P s')
    {s s' : S.State} {ls : List (Option S.Event)} (h : Exec S s ls s') : P s → P s' := by
  induction h with
  | nil s => exact id
  | cons hm _ ih => exact fun hp => ih (hstep _ _ _ hp hm)

theorem exec_reachable {S : Sys} {s s' : S.State} {ls : List (Option S.Event)}
    (h : Exec S s ls s') (hr : Reachable S s) : Reachable S s' :=
  exec_preserves (Reachable S) (fun _ _ _ hr hm => Reachable.step hr hm) h hr

theorem mem_visible {ε : Type} {e : ε} {ls : List (Option ε)} : e ∈ visible ls ↔ some e ∈ ls := by
  unfold visible
  simp [List.mem_filterMap]

@[simp] theorem visible_nil {ε : Type} : visible ([] : List (Option ε)) = [] := rfl
@[simp] theorem visible_none {ε : Type} (ls : List (Option ε)) : visible (none :: ls) = visible ls := rfl
@[simp] theorem visible_some {ε : Type} (e : ε) (ls : List (Option ε)) :
    visible (some e :: ls) = e :: visible ls := rfl

/-! ### the steps of the extended system -/

theorem glue_ofBase (a : Nat) (e : Once.Event) : glue a (Event.ofBase e) = e := by
  cases e <;> rfl

theorem map_ofBase_call {lb : Option Once.Event} {t : Nat} :
    lb.map Event.ofBase = some (Event.call t) ↔ lb = some (.call t) := by
  cases lb with
  | none => simp
  | some e => cases e <;> simp [Event.ofBase]

theorem map_ofBase_fstart {lb : Option Once.Event} {t : Nat} :
    lb.map Event.ofBase = some (Event.fstart t) ↔ lb = some (.fstart t) := by
  cases lb with
  | none => simp
  | some e => cases e <;> simp [Event.ofBase]

theorem map_ofBase_fend {lb : Option Once.Event} {t : Nat} {r : List Int} :
    lb.map Event.ofBase = some (Event.fend t r) ↔ lb = some (.fend t r) := by
  cases lb with
  | none => simp
  | some e => cases e <;> simp [Event.ofBase]

theorem map_ofBase_ret {lb : Option Once.Event} {t : Nat} {r : List Int} :
    lb.map Event.ofBase = some (Event.ret t r) ↔ lb = some (.ret t r) := by
  cases lb with
  | none => simp
  | some e => cases e <;> simp [Event.ofBase]

theorem map_ofBase_fpanic {lb : Option Once.Event} {t : Nat} :
    lb.map Event.ofBase ≠ some (Event.fpanic t) := by
  cases lb with
  | none => simp
  | some e => cases e <;> simp [Event.ofBase]

theorem mem_succ {res : Nat → List Int} {s : State} {p : Option Event × State} :
    p ∈ succ res s ↔ ∃ t, t < s.base.pcs.length ∧ p ∈ stepT res s t := by
  unfold succ
  simp [List.mem_flatMap, List.mem_range]

/-- the state after `fpanic t` -/
def afterPanic (s : State) (t : Nat) : State :=
  { base := { s.base.setPc t .store with fres := some s.base.fields }, panicked := t :: s.panicked }

/-- a step of the extended system is a step of `Model.Once` by a goroutine that is not gone, or `fpanic` -/
theorem step_cases {res : Nat → List Int} {s s' : State} {l : Option Event}
    (h : (l, s') ∈ succ res s) :
    (∃ t lb, t < s.base.pcs.length ∧ s.unwound t = false ∧ (lb, s'.base) ∈ Once.stepT res s.base t ∧
        l = lb.map Event.ofBase ∧ s'.panicked = s.panicked) ∨
    (∃ t, t < s.base.pcs.length ∧ s.base.pc t = .inF ∧ l = some (.fpanic t) ∧ s' = afterPanic s t) := by
  obtain ⟨t, ht, hstep⟩ := mem_succ.mp h
  unfold stepT at hstep
  by_cases hu : s.unwound t = true
  · simp [hu] at hstep
  · have hu' : s.unwound t = false := by simpa using hu
    simp only [hu', Bool.false_eq_true, if_false, List.mem_append, List.mem_map] at hstep
    rcases hstep with ⟨p, hp, heq⟩ | hstep
    · left
      obtain ⟨lb, sb⟩ := p
      simp only [liftStep, Prod.mk.injEq] at heq
      obtain ⟨rfl, rfl⟩ := heq
      exact ⟨t, lb, ht, hu', hp, rfl, rfl⟩
    · right
      by_cases hpc : s.base.pc t = .inF
      · simp only [hpc, if_true, List.mem_singleton, Prod.mk.injEq] at hstep
        obtain ⟨rfl, rfl⟩ := hstep
        exact ⟨t, ht, hpc, rfl, rfl⟩
      · simp [hpc] at hstep

theorem base_step_mem {res : Nat → List Int} {s : State} {t : Nat} {p : Option Once.Event × Once.State}
    (ht : t < s.base.pcs.length) (hu : s.unwound t = false) (hp : p ∈ Once.stepT res s.base t) :
    (p.1.map Event.ofBase, ({ base := p.2, panicked := s.panicked } : State)) ∈ succ res s := by
  refine mem_succ.mpr ⟨t, ht, ?_⟩
  unfold stepT
  simp only [hu, Bool.false_eq_true, if_false, List.mem_append, List.mem_map]
  exact Or.inl ⟨p, hp, rfl⟩

theorem fpanic_step_mem {res : Nat → List Int} {s : State} {t : Nat}
    (ht : t < s.base.pcs.length) (hpc : s.base.pc t = .inF) :
    (some (Event.fpanic t), afterPanic s t) ∈ succ res s := by
  refine mem_succ.mpr ⟨t, ht, ?_⟩
  unfold stepT
  have hu : s.unwound t = false := by simp [State.unwound, hpc]
  simp only [hu, Bool.false_eq_true, if_false, List.mem_append]
  right
  simp [hpc, afterPanic]

/-! ### the invariant -/

structure Inv (a : Nat) (s : State) : Prop where
  base : BInv a s.base
  pan : ∀ t, t ∈ s.panicked → s.base.fres = some (List.replicate a 0) ∧
    (s.base.pc t = .store ∨ s.base.pc t = .unlock ∨ s.base.pc t = .read)

theorem inv_init (n a : Nat) : Inv a (init n a) :=
  ⟨binv_init n a, fun t h => by simp [init] at h⟩

/-- at `inF` nothing has been recorded yet and the fields are zero -/
theorem inF_facts {a : Nat} {s : State} (hi : Inv a s) {t : Nat} (hpc : s.base.pc t = .inF) :
    s.base.fres = none ∧ s.base.fields = List.replicate a 0 ∧ s.base.invoked = [t] ∧ s.panicked = [] := by
  have hT := hi.base.good.thread t
  unfold Once.ThreadOk at hT
  rw [hpc] at hT
  simp only at hT
  refine ⟨hT.2.2.2, hi.base.zero hT.2.2.2, hT.2.2.1, ?_⟩
  cases hp : s.panicked with
  | nil => rfl
  | cons u us =>
    have := (hi.pan u (by simp [hp])).1
    rw [hT.2.2.2] at this
    cases this

theorem binv_afterPanic {a : Nat} {s : State} (hi : Inv a s) {t : Nat}
    (ht : t < s.base.pcs.length) (hpc : s.base.pc t = .inF) : BInv a (afterPanic s t).base := by
  obtain ⟨h1, h2⟩ := panic_as_two_steps (res := fun _ => s.base.fields) ht hpc rfl
  exact binv_step (binv_step hi.base h1) h2

theorem inv_step {a : Nat} {res : Nat → List Int} {s s' : State} {l : Option Event}
    (hi : Inv a s) (hmem : (l, s') ∈ succ res s) : Inv a s' := by
  rcases step_cases hmem with ⟨t0, lb, ht0, hu, hb, _, hpan⟩ | ⟨t0, ht0, hpc, _, rfl⟩
  · have hbm : (lb, s'.base) ∈ Once.succ res s.base := Once.mem_succ.mpr ⟨t0, ht0, hb⟩
    refine ⟨binv_step hi.base hbm, ?_⟩
    intro t htp
    rw [hpan] at htp
    obtain ⟨hf, hpc⟩ := hi.pan t htp
    refine ⟨Once.fres_stable hi.base.good hf hbm, ?_⟩
    by_cases e : t = t0
    · subst e
      unfold Once.stepT at hb
      rcases hpc with hpc | hpc | hpc
      · rw [hpc] at hb
        simp only [List.mem_singleton, Prod.mk.injEq] at hb
        right; left
        rw [hb.2]
        simp [Once.State.setPc, Once.pc_mk _ _ _ _ ht0]
      · rw [hpc] at hb
        simp only [List.mem_singleton, Prod.mk.injEq] at hb
        right; right
        rw [hb.2]
        simp [Once.State.setPc, Once.pc_mk _ _ _ _ ht0]
      · simp [State.unwound, htp, hpc] at hu
    · rw [(stepT_facts ht0 hb).1 t e]
      exact hpc
  · obtain ⟨hf, hz, _, hpn⟩ := inF_facts hi hpc
    refine ⟨binv_afterPanic hi ht0 hpc, ?_⟩
    intro t htp
    simp only [afterPanic, hpn, List.mem_singleton] at htp
    subst htp
    refine ⟨by simp [afterPanic, hz], Or.inl ?_⟩
    simp [afterPanic, Once.State.setPc, Once.pc_mk _ _ _ _ ht0]

theorem inv_reachable (n a : Nat) (res : Nat → List Int) :
    ∀ s, Reachable (sys n a res) s → Inv a s :=
  Conc.invariant (sys n a res) (Inv a) (inv_init n a) (fun _ _ _ h hm => inv_step h hm)

theorem inv_exec {n a : Nat} {res : Nat → List Int} {s s' : State} {ls : List (Option Event)}
    (h : Exec (sys n a res) s ls s') : Inv a s → Inv a s' :=
  exec_preserves (S := sys n a res) (Inv a) (fun _ _ _ hp hm => inv_step hp hm) h

theorem len_step' {res : Nat → List Int} {s s' : State} {l : Option Event}
    (hmem : (l, s') ∈ succ res s) : s'.base.pcs.length = s.base.pcs.length := by
  rcases step_cases hmem with ⟨t0, lb, ht0, _, hb, _, _⟩ | ⟨t0, _, _, _, rfl⟩
  · exact (stepT_facts ht0 hb).2.2.1
  · simp [afterPanic, Once.State.setPc]

theorem len_reachable (n a : Nat) (res : Nat → List Int) :
    ∀ s, Reachable (sys n a res) s → s.base.pcs.length = n :=
  Conc.invariant (sys n a res) (fun s => s.base.pcs.length = n) (by simp [init, Once.init])
    (fun _ _ _ h hm => (len_step' hm).trans h)

/-! ### single steps, by label -/

theorem step_fres_stable {a : Nat} {res : Nat → List Int} {s s' : State} {l : Option Event} {r : List Int}
    (hi : Inv a s) (hmem : (l, s') ∈ succ res s) (hr : s.base.fres = some r) : s'.base.fres = some r := by
  rcases step_cases hmem with ⟨t0, lb, ht0, _, hb, _, _⟩ | ⟨t0, _, hpc, _, rfl⟩
  · exact Once.fres_stable hi.base.good hr (Once.mem_succ.mpr ⟨t0, ht0, hb⟩)
  · rw [(inF_facts hi hpc).1] at hr; cases hr

theorem step_panicked_mono {res : Nat → List Int} {s s' : State} {l : Option Event} {t : Nat}
    (hmem : (l, s') ∈ succ res s) (ht : t ∈ s.panicked) : t ∈ s'.panicked := by
  rcases step_cases hmem with ⟨_, _, _, _, _, _, hp⟩ | ⟨t0, _, _, _, rfl⟩
  · rw [hp]; exact ht
  · exact List.mem_cons_of_mem _ ht

theorem step_returned_stable {res : Nat → List Int} {s s' : State} {l : Option Event} {t : Nat}
    (hmem : (l, s') ∈ succ res s) (ht : s.base.pc t = .returned) : s'.base.pc t = .returned := by
  rcases step_cases hmem with ⟨t0, lb, ht0, _, hb, _, _⟩ | ⟨t0, ht0, hpc, _, rfl⟩
  · have hf := stepT_facts ht0 hb
    by_cases e : t = t0
    · subst e
      have := hf.2.1
      rw [ht] at this
      simp [rank] at this
    · rw [hf.1 t e]; exact ht
  · have e : t ≠ t0 := by
      intro e; subst e; rw [ht] at hpc; cases hpc
    simp [afterPanic, Once.State.setPc, Once.pc_mk _ _ _ _ ht0, e, ht]

theorem step_fpanic {a : Nat} {res : Nat → List Int} {s s' : State} {t : Nat}
    (hi : Inv a s) (hmem : (some (Event.fpanic t), s') ∈ succ res s) :
    s.base.fres = none ∧ s.base.pc t = .inF ∧ t ∈ s'.panicked ∧ s'.base.fres = some (List.replicate a 0) := by
  rcases step_cases hmem with ⟨_, _, _, _, _, hl, _⟩ | ⟨t0, _, hpc, hl, rfl⟩
  · exact absurd hl.symm map_ofBase_fpanic
  · have : t = t0 := by simpa using hl
    subst this
    have h := inF_facts hi hpc
    exact ⟨h.1, hpc, by simp [afterPanic], by simp [afterPanic, h.2.1]⟩

theorem step_fend {a : Nat} {res : Nat → List Int} {s s' : State} {t : Nat} {r : List Int}
    (hi : Inv a s) (hmem : (some (Event.fend t r), s') ∈ succ res s) :
    s.base.fres = none ∧ s.base.pc t = .inF ∧ s'.base.fres = some r ∧ s'.panicked = s.panicked := by
  rcases step_cases hmem with ⟨t0, lb, ht0, _, hb, hl, hp⟩ | ⟨t0, _, _, hl, _⟩
  · have hlb := map_ofBase_fend.mp hl.symm
    subst hlb
    have hf := Once.fend_step (Once.mem_succ.mpr ⟨t0, ht0, hb⟩)
    exact ⟨(inF_facts hi hf.1).1, hf.1, hf.2.2, hp⟩
  · cases hl

theorem step_ret {a : Nat} {res : Nat → List Int} {s s' : State} {u : Nat} {r : List Int}
    (hi : Inv a s) (hmem : (some (Event.ret u r), s') ∈ succ res s) :
    s.base.fres = some r ∧ s'.base.pc u = .returned ∧ u ∉ s.panicked := by
  rcases step_cases hmem with ⟨t0, lb, ht0, hu, hb, hl, hp⟩ | ⟨t0, _, _, hl, _⟩
  · have hlb := map_ofBase_ret.mp hl.symm
    subst hlb
    have hbm : (some (Once.Event.ret u r), s'.base) ∈ Once.succ res s.base := Once.mem_succ.mpr ⟨t0, ht0, hb⟩
    obtain ⟨hpc, rfl⟩ := Once.ret_step hbm
    have hT := hi.base.good.thread u
    unfold Once.ThreadOk at hT
    rw [hpc] at hT
    have hfr := (hi.base.good.doneT hT).2
    -- the stepping goroutine is `u`
    unfold Once.stepT at hb
    split at hb <;> (try split at hb) <;> simp at hb
    obtain ⟨⟨rfl, _⟩, hs'⟩ := hb
    refine ⟨hfr, ?_, ?_⟩
    · rw [hs']; simp [Once.State.setPc, Once.pc_mk _ _ _ _ ht0]
    · intro hin
      simp [State.unwound, hin, hpc] at hu
  · cases hl

theorem step_fres_frame {res : Nat → List Int} {s s' : State} {l : Option Event}
    (hmem : (l, s') ∈ succ res s) (h1 : ∀ t r, l ≠ some (Event.fend t r)) (h2 : ∀ t, l ≠ some (Event.fpanic t)) :
    s'.base.fres = s.base.fres := by
  rcases step_cases hmem with ⟨t0, lb, ht0, _, hb, hl, _⟩ | ⟨t0, _, _, hl, _⟩
  · refine fres_frame (Once.mem_succ.mpr ⟨t0, ht0, hb⟩) ?_
    intro t r e
    subst e
    exact h1 t r (by simpa [Event.ofBase] using hl)
  · exact absurd hl (h2 _)

end TypVerif.Lemmas.OncePanic
