import TypVerif.Lemmas.ListSeq
import TypVerif.Lemmas.ListSurgery
/-
`Sim h w`: the heap `h` is well-formed and represents the abstract world `w`.
This file: the definition, the initial state, and preservation by the three pointer surgeries
(stated on the *views* of the new heap, independent of how it was computed).
-/
namespace TypVerif.Lemmas.LinkedList
open TypVerif.Spec.ListOp
open TypVerif.Spec.Seq
open TypVerif.Model
open TypVerif.Model.LinkedList

/-- list `l` of the heap spells `xs`: either it is still the zero value (and `xs` is empty) or following
`next` from `&l.root` visits exactly `xs` and returns to the root, `prev` being the inverse; `len` is the length -/
def Shape (h : Heap) (l : ListId) (xs : List ElemId) : Prop :=
  (h.next (.root l) = .null ∧ h.prev (.root l) = .null ∧ h.len l = 0 ∧ xs = [])
  ∨ (Linked h.next h.prev (cyc l xs) ∧ h.len l = xs.length)

structure Sim (h : Heap) (w : World) : Prop where
  nextId : h.nextElem = w.nextId
  value : ∀ e, h.value (.elem e) = w.value.get e
  /-- `e.list = l` exactly as the abstract owner says -/
  owner : ∀ e, h.listOf (.elem e) = w.owner.get e
  /-- `e.list = l ↔ e ∈ lists l` (hence lists are pairwise disjoint) -/
  mem : ∀ e l, w.owner.get e = some l ↔ e ∈ w.lists.get l
  nodup : ∀ l, (w.lists.get l).Nodup
  fresh : ∀ e, w.nextId ≤ e → w.owner.get e = none
  /-- removed (and never inserted) elements have nil links -/
  detached : ∀ e, w.owner.get e = none → h.next (.elem e) = .null ∧ h.prev (.elem e) = .null
  shape : ∀ l, Shape h l (w.lists.get l)

theorem Sim.init : Sim Heap.empty World.empty := by
  refine ⟨rfl, ?_, ?_, ?_, ?_, ?_, ?_, ?_⟩
  · intro e; simp [World.empty]
  · intro e; simp [World.empty]; rfl
  · intro e l
    show (Store.empty : Store (Option ListId)).get e = some l ↔ e ∈ (Store.empty : Store (List ElemId)).get l
    rw [Store.get_empty, Store.get_empty]
    show (none : Option ListId) = some l ↔ e ∈ ([] : List ElemId)
    simp
  · intro l
    show ((Store.empty : Store (List ElemId)).get l).Nodup
    rw [Store.get_empty]; exact List.nodup_nil
  · intro e _; simp [World.empty]; rfl
  · intro e _; simp
  · intro l; left; simp [World.empty]; rfl

theorem Shape.frame {h g : Heap} {l : ListId} {xs : List ElemId} (hsh : Shape h l xs)
    (hnx : ∀ p ∈ (cyc l xs).dropLast, g.next p = h.next p)
    (hpv : ∀ p ∈ (cyc l xs).tail, g.prev p = h.prev p)
    (hlen : g.len l = h.len l) : Shape g l xs := by
  rcases hsh with ⟨h1, h2, h3, h4⟩ | ⟨h1, h2⟩
  · left
    refine ⟨?_, ?_, ?_, h4⟩
    · rw [hnx _ (by rw [cyc_dropLast]; simp)]; exact h1
    · rw [hpv _ (by rw [cyc_tail]; simp)]; exact h2
    · rw [hlen]; exact h3
  · right
    exact ⟨Linked.frame h1 hnx hpv, by rw [hlen]; exact h2⟩

theorem elem_mem_cyc {l : ListId} {xs : List ElemId} {x : ElemId} : Ptr.elem x ∈ cyc l xs ↔ x ∈ xs := by
  rw [mem_cyc]
  constructor
  · rintro (h | ⟨y, hy, h⟩)
    · cases h
    · cases h; exact hy
  · intro h; exact Or.inr ⟨x, h, rfl⟩

theorem Sim.free_not_mem_cyc {h : Heap} {w : World} (hs : Sim h w) {id : ElemId}
    (hfree : w.owner.get id = none) (l : ListId) : Ptr.elem id ∉ cyc l (w.lists.get l) := by
  rw [elem_mem_cyc]
  intro hm
  have := (hs.mem id l).2 hm
  rw [hfree] at this; cases this

theorem Sim.cyc_disjoint {h : Heap} {w : World} (hs : Sim h w) {l l' : ListId} (hne : l' ≠ l) {p : Ptr}
    (hp : p ∈ cyc l' (w.lists.get l')) : p ∉ cyc l (w.lists.get l) := by
  intro hq
  rcases mem_cyc.1 hp with rfl | ⟨x, hx, rfl⟩
  · rcases mem_cyc.1 hq with h1 | ⟨y, _, h1⟩
    · cases h1; exact hne rfl
    · cases h1
  · have h2 := elem_mem_cyc.1 hq
    have o1 := (hs.mem x l').2 hx
    have o2 := (hs.mem x l).2 h2
    rw [o1] at o2; cases o2; exact hne rfl

/-- a heap that agrees with `h` outside the pointers of list `l` (and outside ownerless elements) keeps the
shape of every other list -/
theorem Sim.shape_others {h g : Heap} {w : World} (hs : Sim h w) (l : ListId)
    (hnext : ∀ p, p ∉ cyc l (w.lists.get l) → (∀ id, p = .elem id → w.owner.get id ≠ none) → g.next p = h.next p)
    (hprev : ∀ p, p ∉ cyc l (w.lists.get l) → (∀ id, p = .elem id → w.owner.get id ≠ none) → g.prev p = h.prev p)
    (hlen : ∀ l', l' ≠ l → g.len l' = h.len l') :
    ∀ l', l' ≠ l → Shape g l' (w.lists.get l') := by
  intro l' hne
  have owned : ∀ p ∈ cyc l' (w.lists.get l'), ∀ id, p = .elem id → w.owner.get id ≠ none := by
    intro p hp id hid
    subst hid
    have := (hs.mem id l').2 (elem_mem_cyc.1 hp)
    rw [this]; simp
  apply Shape.frame (hs.shape l')
  · intro p hp
    have hp' := List.dropLast_subset _ hp
    exact hnext p (hs.cyc_disjoint hne hp') (owned p hp')
  · intro p hp
    have hp' := List.mem_of_mem_tail hp
    exact hprev p (hs.cyc_disjoint hne hp') (owned p hp')
  · exact hlen l' hne

theorem Sim.linked_of_mem {h : Heap} {w : World} (hs : Sim h w) {l : ListId} {x : ElemId}
    (hx : w.owner.get x = some l) :
    Linked h.next h.prev (cyc l (w.lists.get l)) ∧ h.len l = (w.lists.get l).length := by
  have hm := (hs.mem x l).1 hx
  rcases hs.shape l with ⟨_, _, _, h4⟩ | h2
  · rw [h4] at hm; simp at hm
  · exact h2

/-! ### insertion of a (new) element `id` after `at'` -/

theorem Sim.insert_views {h g : Heap} {w : World} (hs : Sim h w) {l : ListId} {id : ElemId} {v : Int} {at' : Ptr}
    (hlk : Linked h.next h.prev (cyc l (w.lists.get l))) (hlen : h.len l = (w.lists.get l).length)
    (hat : at' ∈ (cyc l (w.lists.get l)).dropLast) (hfree : w.owner.get id = none) (hid : id < w.nextId)
    (gnext : ∀ x, g.next x = if x = at' then .elem id else if x = .elem id then h.next at' else h.next x)
    (gprev : ∀ x, g.prev x = if x = h.next at' then .elem id else if x = .elem id then at' else h.prev x)
    (glist : ∀ x, g.listOf x = if x = .elem id then some l else h.listOf x)
    (gval : ∀ x, g.value x = if x = .elem id then v else h.value x)
    (glen : ∀ l', g.len l' = if l' = l then h.len l + 1 else h.len l')
    (gne : g.nextElem = h.nextElem) :
    Sim g (w.place l id v (insAfter at' id (w.lists.get l))) := by
  have hnd := hs.nodup l
  have hidc : Ptr.elem id ∉ cyc l (w.lists.get l) := hs.free_not_mem_cyc hfree l
  have hidx : id ∉ w.lists.get l := fun hm => hidc (elem_mem_cyc.2 hm)
  have hatc : at' ∈ cyc l (w.lists.get l) := List.dropLast_subset _ hat
  have hnt : h.next at' ∈ (cyc l (w.lists.get l)).tail := Linked.next_mem hlk hat
  have hnc : h.next at' ∈ cyc l (w.lists.get l) := List.mem_of_mem_tail hnt
  refine ⟨?_, ?_, ?_, ?_, ?_, ?_, ?_, ?_⟩
  · rw [gne]; exact hs.nextId
  · intro e
    rw [gval]
    show _ = (w.value.set id v).get e
    rw [Store.get_set]
    by_cases he : e = id
    · simp [he]
    · simp [he, hs.value e]
  · intro e
    rw [glist]
    show _ = (w.owner.set id (some l)).get e
    rw [Store.get_set]
    by_cases he : e = id
    · simp [he]
    · simp [he, hs.owner e]
  · intro e l'
    show (w.owner.set id (some l)).get e = some l' ↔ e ∈ (w.lists.set l _).get l'
    rw [Store.get_set, Store.get_set]
    by_cases he : e = id
    · subst he
      by_cases hl : l' = l
      · subst hl
        simp only [if_true, mem_insAfter hnd hat, true_or]
      · have hl2 : l ≠ l' := fun hh => hl hh.symm
        simp only [if_true, if_neg hl, Option.some.injEq, hl2, false_iff]
        intro hm
        have := (hs.mem e l').2 hm
        rw [hfree] at this; cases this
    · by_cases hl : l' = l
      · subst hl
        simp only [if_true, mem_insAfter hnd hat, he, false_or]
        exact hs.mem e l'
      · simp only [if_neg he, if_neg hl]
        exact hs.mem e l'
  · intro l'
    show ((w.lists.set l _).get l').Nodup
    rw [Store.get_set]
    by_cases hl : l' = l
    · rw [if_pos hl]; exact nodup_insAfter hnd hidx hat
    · rw [if_neg hl]; exact hs.nodup l'
  · intro e he
    show (w.owner.set id (some l)).get e = none
    have : e ≠ id := by
      intro hh; subst hh
      exact absurd hid (Nat.not_lt.2 he)
    rw [Store.get_set_ne _ _ this]
    exact hs.fresh e he
  · intro e he
    have he' : (w.owner.set id (some l)).get e = none := he
    rw [Store.get_set] at he'
    by_cases hei : e = id
    · rw [if_pos hei] at he'; cases he'
    · rw [if_neg hei] at he'
      have hec : Ptr.elem e ∉ cyc l (w.lists.get l) := hs.free_not_mem_cyc he' l
      have h1 : Ptr.elem e ≠ at' := fun hh => hec (hh ▸ hatc)
      have h2 : Ptr.elem e ≠ h.next at' := fun hh => hec (hh ▸ hnc)
      have h3 : Ptr.elem e ≠ Ptr.elem id := fun hh => hei (by cases hh; rfl)
      rw [gnext, gprev]
      simp only [h1, h2, h3, if_false]
      exact hs.detached e he'
  · intro l'
    show Shape g l' ((w.lists.set l _).get l')
    rw [Store.get_set]
    by_cases hl : l' = l
    · subst hl
      rw [if_pos rfl]
      right
      constructor
      · have hatp : at' = .root l' ∨ ∃ a, at' = .elem a := by
          rcases mem_cyc.1 hatc with h1 | ⟨a, _, h1⟩
          · exact Or.inl h1
          · exact Or.inr ⟨a, h1⟩
        rw [← insP_cyc id hatp]
        exact Linked.insP gnext gprev hlk hat (cyc_dropLast_nodup hnd) (cyc_tail_nodup hnd) hidc
      · rw [glen, if_pos rfl, hlen, length_insAfter hnd hat]
        simp
    · rw [if_neg hl]
      apply hs.shape_others l _ _ _ l' hl
      · intro p hp hown
        have h1 : p ≠ at' := fun hh => hp (hh ▸ hatc)
        have h3 : p ≠ Ptr.elem id := fun hh => hown id hh hfree
        rw [gnext]; simp only [h1, h3, if_false]
      · intro p hp hown
        have h2 : p ≠ h.next at' := fun hh => hp (hh ▸ hnc)
        have h3 : p ≠ Ptr.elem id := fun hh => hown id hh hfree
        rw [gprev]; simp only [h2, h3, if_false]
      · intro l'' hl''
        rw [glen, if_neg hl'']

/-! ### removal of an element of `l` -/

theorem Sim.remove_views {h g : Heap} {w : World} (hs : Sim h w) {l : ListId} {e : ElemId}
    (hown : w.owner.get e = some l)
    (gnext : ∀ x, g.next x = if x = .elem e then .null else if x = h.prev (.elem e) then h.next (.elem e) else h.next x)
    (gprev : ∀ x, g.prev x = if x = .elem e then .null else if x = h.next (.elem e) then h.prev (.elem e) else h.prev x)
    (glist : ∀ x, g.listOf x = if x = .elem e then none else h.listOf x)
    (gval : g.value = h.value)
    (glen : ∀ l', g.len l' = if l' = l then h.len l - 1 else h.len l')
    (gne : g.nextElem = h.nextElem) :
    Sim g { w with lists := w.lists.set l ((w.lists.get l).erase e), owner := w.owner.set e none } := by
  have hnd := hs.nodup l
  obtain ⟨hlk, hlen⟩ := hs.linked_of_mem hown
  have hex : e ∈ w.lists.get l := (hs.mem e l).1 hown
  have hec : Ptr.elem e ∈ cyc l (w.lists.get l) := elem_mem_cyc.2 hex
  have hed : Ptr.elem e ∈ (cyc l (w.lists.get l)).dropLast := by
    rw [mem_cyc_dropLast]; exact Or.inr ⟨e, hex, rfl⟩
  have het : Ptr.elem e ∈ (cyc l (w.lists.get l)).tail := by
    rw [cyc_tail]; simp [hex]
  have hpc : h.prev (.elem e) ∈ cyc l (w.lists.get l) := List.dropLast_subset _ (Linked.prev_mem hlk het)
  have hnc : h.next (.elem e) ∈ cyc l (w.lists.get l) := List.mem_of_mem_tail (Linked.next_mem hlk hed)
  refine ⟨?_, ?_, ?_, ?_, ?_, ?_, ?_, ?_⟩
  · rw [gne]; exact hs.nextId
  · intro x; rw [gval]; exact hs.value x
  · intro x
    rw [glist]
    show _ = (w.owner.set e none).get x
    rw [Store.get_set]
    by_cases hx : x = e
    · simp [hx]
    · simp [hx, hs.owner x]
  · intro x l'
    show (w.owner.set e none).get x = some l' ↔ x ∈ (w.lists.set l _).get l'
    rw [Store.get_set, Store.get_set]
    by_cases hx : x = e
    · subst hx
      by_cases hl : l' = l
      · subst hl
        simp only [if_true, hnd.mem_erase_iff, ne_eq, not_true_eq_false, false_and, iff_false]
        intro hh; cases hh
      · rw [if_pos rfl, if_neg hl]
        constructor
        · intro hh; cases hh
        · intro hm
          have := (hs.mem x l').2 hm
          rw [hown] at this; cases this; exact (hl rfl).elim
    · by_cases hl : l' = l
      · subst hl
        simp only [if_true, hnd.mem_erase_iff, ne_eq, hx, not_false_eq_true, true_and]
        exact hs.mem x l'
      · simp only [if_neg hx, if_neg hl]
        exact hs.mem x l'
  · intro l'
    show ((w.lists.set l _).get l').Nodup
    rw [Store.get_set]
    by_cases hl : l' = l
    · rw [if_pos hl]; exact hnd.erase e
    · rw [if_neg hl]; exact hs.nodup l'
  · intro x hx
    show (w.owner.set e none).get x = none
    rw [Store.get_set]
    by_cases hxe : x = e
    · rw [if_pos hxe]
    · rw [if_neg hxe]; exact hs.fresh x hx
  · intro x hx
    have hx' : (w.owner.set e none).get x = none := hx
    rw [Store.get_set] at hx'
    by_cases hxe : x = e
    · subst hxe
      rw [gnext, gprev]; simp
    · rw [if_neg hxe] at hx'
      have hxc : Ptr.elem x ∉ cyc l (w.lists.get l) := hs.free_not_mem_cyc hx' l
      have h1 : Ptr.elem x ≠ h.prev (.elem e) := fun hh => hxc (hh ▸ hpc)
      have h2 : Ptr.elem x ≠ h.next (.elem e) := fun hh => hxc (hh ▸ hnc)
      have h3 : Ptr.elem x ≠ Ptr.elem e := fun hh => hxe (by cases hh; rfl)
      rw [gnext, gprev]
      simp only [h1, h2, h3, if_false]
      exact hs.detached x hx'
  · intro l'
    show Shape g l' ((w.lists.set l _).get l')
    rw [Store.get_set]
    by_cases hl : l' = l
    · subst hl
      rw [if_pos rfl]
      right
      constructor
      · rw [cyc_erase]
        have hlk' : Linked h.next h.prev (.root l' :: ((w.lists.get l').map Ptr.elem ++ [Ptr.root l'])) := hlk
        have hd : Ptr.elem e ∈ ((w.lists.get l').map Ptr.elem ++ [Ptr.root l']).dropLast := by
          rw [List.dropLast_concat]; simp [hex]
        have key := Linked.erase (nx' := fun x => if x = h.prev (.elem e) then h.next (.elem e) else h.next x)
          (pv' := fun x => if x = h.next (.elem e) then h.prev (.elem e) else h.prev x)
          (fun _ => rfl) (fun _ => rfl) hlk' hd (elem_ne_root e l')
          (cyc_dropLast_nodup (l := l') hnd) (cyc_tail_nodup (l := l') hnd)
        have hne : Ptr.elem e ∉ (Ptr.root l' :: ((w.lists.get l').map Ptr.elem ++ [Ptr.root l']).erase (.elem e)) := by
          rw [← cyc_erase, elem_mem_cyc, hnd.mem_erase_iff]
          simp
        apply Linked.frame key
        · intro p hp
          have : p ≠ .elem e := by
            intro hh; subst hh; exact hne (List.dropLast_subset _ hp)
          rw [gnext]; simp only [this, if_false]
        · intro p hp
          have : p ≠ .elem e := by
            intro hh; subst hh; exact hne (List.mem_of_mem_tail hp)
          rw [gprev]; simp only [this, if_false]
      · rw [glen, if_pos rfl, hlen, List.length_erase_of_mem hex]
        have : 0 < (w.lists.get l').length := List.length_pos_of_mem hex
        omega
    · rw [if_neg hl]
      apply hs.shape_others l _ _ _ l' hl
      · intro p hp _
        have h1 : p ≠ h.prev (.elem e) := fun hh => hp (hh ▸ hpc)
        have h3 : p ≠ Ptr.elem e := fun hh => hp (hh ▸ hec)
        rw [gnext]; simp only [h1, h3, if_false]
      · intro p hp _
        have h2 : p ≠ h.next (.elem e) := fun hh => hp (hh ▸ hnc)
        have h3 : p ≠ Ptr.elem e := fun hh => hp (hh ▸ hec)
        rw [gprev]; simp only [h2, h3, if_false]
      · intro l'' hl''
        rw [glen, if_neg hl'']

end TypVerif.Lemmas.LinkedList
