import TypVerif.Lemmas.C09AcceptSim
/-
Acceptance completeness for the judge `Drv/C09.lean`: the relation `R` (`C09AcceptRel.lean`) is also a FORWARD simulation —
every step of the model state is matched, with the same label, by a step of the renamed / reordered judge state.
(Mirror image of `C09AcceptSim.lean`.)
-/
namespace TypVerif.Lemmas.C09Complete
open TypVerif TypVerif.Conc TypVerif.Model.KeyedMutex TypVerif.Drv.C09
open TypVerif.Lemmas.KeyedMutex TypVerif.Lemmas.C09Accept

theorem fwd_finish {f : Nat → Nat} {l : Option Event} {a' A Z : State} {L : List (Option Event × State)}
    (h : (l, a') ∈ [(none, A)]) (hZ : (none, Z) ∈ L) (hr : Rel f A Z) :
    ∃ (z : State) (f' : Nat → Nat), (l, z) ∈ L ∧ Rel f' a' z := by
  obtain ⟨rfl, rfl⟩ := Prod.mk.inj (List.mem_singleton.mp h)
  exact ⟨Z, f, hZ, hr⟩

theorem fwd_idle {rw g : Bool} {ops : List Op} {f : Nat → Nat} {a x a' : State} {l : Option Event} {t : Nat}
    (hr : Rel f a x) (hpc : a.pc t = .idle) (h : (l, a') ∈ stepT rw g ops a t) :
    ∃ (z : State) (f' : Nat → Nat), (l, z) ∈ stepT rw g ops x t ∧ Rel f' a' z := by
  have hx : x.pc t = .idle := by rw [sim_pc_ren hr, hpc]; rfl
  rw [sim_stepT_idle hpc] at h
  rw [sim_stepT_idle hx]
  obtain ⟨op, hop, e⟩ := List.mem_map.mp h
  obtain ⟨hop, hok⟩ := List.mem_filter.mp hop
  obtain ⟨rfl, rfl⟩ := Prod.mk.inj e
  rw [← sim_invOk hr] at hok
  exact ⟨x.setPc t (.los op.kind op.key), f, List.mem_map.mpr ⟨op, List.mem_filter.mpr ⟨hop, hok⟩, rfl⟩,
    sim_rel_setPc hr t (.los op.kind op.key) (fun m' hm => by cases hm)⟩

theorem fwd_ret {rw g : Bool} {ops : List Op} {f : Nat → Nat} {a x a' : State} {l : Option Event} {t : Nat} {r : Res}
    (hr : Rel f a x) (hpc : a.pc t = .ret r) (h : (l, a') ∈ stepT rw g ops a t) :
    ∃ (z : State) (f' : Nat → Nat), (l, z) ∈ stepT rw g ops x t ∧ Rel f' a' z := by
  have hx : x.pc t = .ret r := by rw [sim_pc_ren hr, hpc]; rfl
  rw [sim_stepT_ret hpc] at h
  rw [sim_stepT_ret hx]
  obtain ⟨rfl, rfl⟩ := Prod.mk.inj (List.mem_singleton.mp h)
  exact ⟨x.setPc t .idle, f, List.mem_singleton.mpr rfl, sim_rel_setPc hr t .idle (fun m' hm => by cases hm)⟩

theorem fwd_los {rw g : Bool} {ops : List Op} {f : Nat → Nat} {a x a' : State} {l : Option Event} {t : Nat}
    {kd : Kind} {k : Nat} (hw : WF a) (hr : Rel f a x) (hpc : a.pc t = .los kd k)
    (h : (l, a') ∈ stepT rw g ops a t) :
    ∃ (z : State) (f' : Nat → Nat), (l, z) ∈ stepT rw g ops x t ∧ Rel f' a' z := by
  have hx : x.pc t = .los kd k := by rw [sim_pc_ren hr, hpc]; rfl
  rw [sim_stepT_los hpc] at h
  rw [sim_stepT_los hx]
  by_cases hkd : kd = .clear
  · subst hkd
    rw [sim_losStep_clear] at h
    rw [sim_losStep_clear, sim_clearOk hr]
    by_cases hg : (!g || clearOk a k) = true
    · rw [if_pos hg] at h ⊢
      exact fwd_finish h (List.mem_singleton.mpr rfl) (sim_rel_clear hr t k)
    · rw [if_neg hg] at h
      cases h
  · have hget : get x.map k = (get a.map k).map f := by
      rw [sim_get_perm hr.map (by rw [sim_keys_map]; exact hw.keysNd), sim_get_map]
    cases hga : get a.map k with
    | none =>
      rw [hga] at hget
      rw [sim_losStep_miss g a t hkd hga] at h
      rw [sim_losStep_miss g x t hkd hget]
      exact fwd_finish h (List.mem_singleton.mpr rfl) (sim_rel_miss hw hr t kd k)
    | some m =>
      rw [hga] at hget
      rw [sim_losStep_hit g a t hkd hga] at h
      rw [sim_losStep_hit g x t hkd hget]
      exact fwd_finish h (List.mem_singleton.mpr rfl) (sim_rel_hit hr t kd k (sim_live_map hga))

theorem fwd_act {rw g : Bool} {ops : List Op} {f : Nat → Nat} {a x a' : State} {l : Option Event} {t : Nat}
    {kd : Kind} {k m : Nat} (hw : WF a) (hr : Rel f a x) (ht : t < a.pcs.length) (hpc : a.pc t = .act kd k m)
    (h : (l, a') ∈ stepT rw g ops a t) :
    ∃ (z : State) (f' : Nat → Nat), (l, z) ∈ stepT rw g ops x t ∧ Rel f' a' z := by
  have hx : x.pc t = .act kd k (f m) := by rw [sim_pc_ren hr, hpc]; rfl
  have hm : Live a m := sim_live_pc ht (by rw [hpc]; rfl)
  have hμ := hr.mu m hm
  have hno : ∀ (r : Res) (m' : Nat), pcLocal (.ret r) = some m' → Live a m' := fun r m' h => by cases h
  have hself : ∀ (p : Pc), pcLocal p = some m → ∀ m', pcLocal p = some m' → Live a m' := by
    intro p hp m' hp'
    rw [hp] at hp'; cases hp'; exact hm
  rw [sim_stepT_act hpc] at h
  rw [sim_stepT_act hx]
  cases kd with
  | lock =>
    simp only [actStep] at h ⊢
    by_cases hrw : rw = true
    · rw [if_pos hrw] at h ⊢
      exact fwd_finish h (List.mem_singleton.mpr rfl)
        (sim_rel_queue hw hr t (.ann k m) hm (hself _ rfl) hμ.2.2.1 (hμ.2.2.2.cons t))
    · rw [if_neg hrw] at h ⊢
      by_cases hc : (a.mu m).writer = none ∧ (a.mu m).readers = []
      · rw [if_pos hc] at h
        rw [if_pos ((sim_muEq_acq hμ).mpr hc)]
        exact fwd_finish h (List.mem_singleton.mpr rfl) (sim_rel_acqW hw hr t k .done hm)
      · rw [if_neg hc] at h
        cases h
  | trylock =>
    simp only [actStep] at h ⊢
    by_cases hc : (a.mu m).writer = none ∧ (a.mu m).readers = [] ∧ (a.mu m).pending = [] ∧ (a.mu m).wq = []
    · rw [if_pos hc] at h
      rw [if_pos ((sim_muEq_try hμ).mpr hc)]
      exact fwd_finish h (List.mem_singleton.mpr rfl) (sim_rel_acqW hw hr t k .tt hm)
    · rw [if_neg hc] at h
      rw [if_neg (fun h' => hc ((sim_muEq_try hμ).mp h'))]
      exact fwd_finish h (List.mem_singleton.mpr rfl) (sim_rel_setPc hr t (.ret .ff) (hno _))
  | unlock =>
    simp only [actStep] at h ⊢
    by_cases hrw : rw = true
    · rw [if_pos hrw] at h ⊢
      exact fwd_finish h (List.mem_singleton.mpr rfl)
        (sim_rel_relW hw hr t k (.rel k m) hm (hself _ rfl) (hμ.2.2.2.cons t))
    · rw [if_neg hrw] at h ⊢
      exact fwd_finish h (List.mem_singleton.mpr rfl)
        (sim_rel_relW hw hr t k (.ret .done) hm (hno _) hμ.2.2.2)
  | rlock =>
    simp only [actStep] at h ⊢
    by_cases hc : (a.mu m).writer = none ∧ (a.mu m).pending = []
    · rw [if_pos hc] at h
      rw [if_pos ((sim_muEq_rd hμ).mpr hc)]
      exact fwd_finish h (List.mem_singleton.mpr rfl) (sim_rel_acqR hw hr t k .done hm)
    · rw [if_neg hc] at h
      cases h
  | tryrlock =>
    simp only [actStep] at h ⊢
    by_cases hc : (a.mu m).writer = none ∧ (a.mu m).pending = []
    · rw [if_pos hc] at h
      rw [if_pos ((sim_muEq_rd hμ).mpr hc)]
      exact fwd_finish h (List.mem_singleton.mpr rfl) (sim_rel_acqR hw hr t k .tt hm)
    · rw [if_neg hc] at h
      rw [if_neg (fun h' => hc ((sim_muEq_rd hμ).mp h'))]
      exact fwd_finish h (List.mem_singleton.mpr rfl) (sim_rel_setPc hr t (.ret .ff) (hno _))
  | runlock =>
    simp only [actStep] at h ⊢
    exact fwd_finish h (List.mem_singleton.mpr rfl) (sim_rel_runlock hw hr t k hm)
  | clear =>
    simp only [actStep] at h
    cases h

theorem fwd_ann {rw g : Bool} {ops : List Op} {f : Nat → Nat} {a x a' : State} {l : Option Event} {t : Nat}
    {k m : Nat} (hw : WF a) (hr : Rel f a x) (ht : t < a.pcs.length) (hpc : a.pc t = .ann k m)
    (h : (l, a') ∈ stepT rw g ops a t) :
    ∃ (z : State) (f' : Nat → Nat), (l, z) ∈ stepT rw g ops x t ∧ Rel f' a' z := by
  have hx : x.pc t = .ann k (f m) := by rw [sim_pc_ren hr, hpc]; rfl
  have hm : Live a m := sim_live_pc ht (by rw [hpc]; rfl)
  have hμ := hr.mu m hm
  rw [sim_stepT_ann hpc] at h
  rw [sim_stepT_ann hx]
  exact fwd_finish h (List.mem_singleton.mpr rfl)
    (sim_rel_queue hw hr t (.wait k m) hm (fun m' h' => by cases h'; exact hm) (hμ.2.2.1.cons t) (hμ.2.2.2.filter _))

theorem fwd_wait {rw g : Bool} {ops : List Op} {f : Nat → Nat} {a x a' : State} {l : Option Event} {t : Nat}
    {k m : Nat} (hw : WF a) (hr : Rel f a x) (ht : t < a.pcs.length) (hpc : a.pc t = .wait k m)
    (h : (l, a') ∈ stepT rw g ops a t) :
    ∃ (z : State) (f' : Nat → Nat), (l, z) ∈ stepT rw g ops x t ∧ Rel f' a' z := by
  have hx : x.pc t = .wait k (f m) := by rw [sim_pc_ren hr, hpc]; rfl
  have hm : Live a m := sim_live_pc ht (by rw [hpc]; rfl)
  have hμ := hr.mu m hm
  rw [sim_stepT_wait hpc] at h
  rw [sim_stepT_wait hx]
  by_cases hc : (a.mu m).writer = none ∧ (a.mu m).readers = []
  · rw [if_pos hc] at h
    rw [if_pos ((sim_muEq_acq hμ).mpr hc)]
    exact fwd_finish h (List.mem_singleton.mpr rfl) (sim_rel_acqW hw hr t k .done hm)
  · rw [if_neg hc] at h
    cases h

theorem fwd_rel_pc {rw g : Bool} {ops : List Op} {f : Nat → Nat} {a x a' : State} {l : Option Event} {t : Nat}
    {k m : Nat} (hw : WF a) (hr : Rel f a x) (ht : t < a.pcs.length) (hpc : a.pc t = .rel k m)
    (h : (l, a') ∈ stepT rw g ops a t) :
    ∃ (z : State) (f' : Nat → Nat), (l, z) ∈ stepT rw g ops x t ∧ Rel f' a' z := by
  have hx : x.pc t = .rel k (f m) := by rw [sim_pc_ren hr, hpc]; rfl
  have hm : Live a m := sim_live_pc ht (by rw [hpc]; rfl)
  have hμ := hr.mu m hm
  rw [sim_stepT_rel hpc] at h
  rw [sim_stepT_rel hx]
  exact fwd_finish h (List.mem_singleton.mpr rfl)
    (sim_rel_queue hw hr t (.ret .done) hm (fun m' h' => by cases h') hμ.2.2.1 (hμ.2.2.2.filter _))

/-- forward simulation: a step of the model state `a` is matched by a step of the renamed state `x` with the same label -/
theorem sim_succ_fwd {rw g : Bool} {ops : List Op} {f : Nat → Nat} {a x a' : State} {l : Option Event}
    (hw : WF a) (hr : Rel f a x) (h : (l, a') ∈ succ rw g ops a) :
    ∃ (z : State) (f' : Nat → Nat), (l, z) ∈ succ rw g ops x ∧ Rel f' a' z := by
  obtain ⟨t, ht, hs⟩ := mem_succ.mp h
  have key : ∃ (z : State) (f' : Nat → Nat), (l, z) ∈ stepT rw g ops x t ∧ Rel f' a' z := by
    cases hpc : a.pc t with
    | idle => exact fwd_idle hr hpc hs
    | los kd k => exact fwd_los hw hr hpc hs
    | act kd k m => exact fwd_act hw hr ht hpc hs
    | ann k m => exact fwd_ann hw hr ht hpc hs
    | wait k m => exact fwd_wait hw hr ht hpc hs
    | rel k m => exact fwd_rel_pc hw hr ht hpc hs
    | ret r => exact fwd_ret hr hpc hs
  obtain ⟨z, f', hm, hr'⟩ := key
  exact ⟨z, f', mem_succ.mpr ⟨t, by rw [sim_len hr]; exact ht, hm⟩, hr'⟩

theorem R_succ_fwd {rw g : Bool} {ops : List Op} {a x a' : State} {l : Option Event}
    (hr : R a x) (h : (l, a') ∈ succ rw g ops a) : ∃ z, (l, z) ∈ succ rw g ops x ∧ R a' z := by
  obtain ⟨hw, f, hrel⟩ := hr
  obtain ⟨z, f', hm, hr'⟩ := sim_succ_fwd hw hrel h
  exact ⟨z, hm, wf_succ hw h, f', hr'⟩

end TypVerif.Lemmas.C09Complete
