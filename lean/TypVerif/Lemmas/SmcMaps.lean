import TypVerif.Lemmas.SmcBasic
import TypVerif.Lemmas.SmcGS
import TypVerif.Lemmas.SmcAbs
/-
C04 concurrent half, layer A3 of `SMC_PLAN.md`: changes of `read` / `dirty` / `amended` / `mu` / `misses` made by the
OWNER of `mu`.  For each change
  (i)   the per-goroutine invariant `T` of every bystander (a goroutine that does not hold `mu`) is preserved,
  (ii)  the shared-state half `GS` of the global invariant is preserved,
  (iii) `absOf` changes as stated.

0. `mu` / `misses` only (lock, `unlock`, `missStep`)            `*_lock`, `*_unlock`, `*_missStep`
1. `dirty := some []` (dirtyRead)                                `*_dirtyInit`
2. `setDirty sh k' e'` of an unprocessed live pair (expDone)     `*_expDone`
3. `amended := true` (readStore)                                 `*_setAmended`
4. `addNew` (finishNew, both forms)                              `*_addNew`, `*_finishNew`, `*_finishNew_readStore`
5. `delDirty` (the unlink of LoadAndDelete/Delete)               `*_unlink`
6. `promote` (and the inline form of `Range`)                    `*_promote`, `*_rangeStore`

All bystander lemmas come in a per-goroutine form (`T sh u pc a`, `¬ Own sh u`) and in the form
`∀ u, u ≠ t → …` for a state `s` whose mutex is held by `t`.
-/
namespace TypVerif.Lemmas.Smc
open TypVerif.Model TypVerif.Model.SyncMapConc TypVerif.Model.RelObj
open TypVerif.Model.SyncMap (alookup ainsert aerase akeys)
open TypVerif.Lemmas.SyncMap

set_option linter.unusedSimpArgs false
set_option linter.unusedVariables false
set_option linter.unusedSectionVars false

variable {K V : Type} [DecidableEq K] [DecidableEq V]

/-! ## A. generic tools -/

/-! ### consequences of `GS` (the `G.*` lemmas of `SmcBasic`, for the shared-state half) -/

omit [DecidableEq V] in
theorem GS.mem_read_iff {sh : Shared K V} {U : List (K × EId)} (g : GS sh U) {k : K} {e : EId} :
    (k, e) ∈ sh.readM ↔ alookup k sh.readM = some e :=
  mem_iff_alookup g.keysR

omit [DecidableEq V] in
theorem GS.mem_dirty_iff {sh : Shared K V} {U : List (K × EId)} (g : GS sh U) {k : K} {e : EId} :
    (k, e) ∈ dirtyMap sh ↔ alookup k (dirtyMap sh) = some e :=
  mem_iff_alookup g.keysD

omit [DecidableEq V] in
theorem GS.read_lt_length {sh : Shared K V} {U : List (K × EId)} (g : GS sh U) {k : K} {e : EId}
    (h : alookup k sh.readM = some e) : e < sh.entries.length :=
  g.boundR _ (mem_of_alookup h)

omit [DecidableEq V] in
theorem GS.dirty_lt_length {sh : Shared K V} {U : List (K × EId)} (g : GS sh U) {k : K} {e : EId}
    (h : alookup k (dirtyMap sh) = some e) : e < sh.entries.length :=
  g.boundD _ (mem_of_alookup h)

omit [DecidableEq V] in
theorem GS.vals_read_lt_length {sh : Shared K V} {U : List (K × EId)} (g : GS sh U) {e : EId}
    (h : e ∈ vals sh.readM) : e < sh.entries.length := by
  obtain ⟨k, hk⟩ := mem_vals_iff.mp h
  exact g.boundR _ hk

omit [DecidableEq V] in
theorem GS.vals_dirty_lt_length {sh : Shared K V} {U : List (K × EId)} (g : GS sh U) {e : EId}
    (h : e ∈ vals (dirtyMap sh)) : e < sh.entries.length := by
  obtain ⟨k, hk⟩ := mem_vals_iff.mp h
  exact g.boundD _ hk

omit [DecidableEq V] in
theorem GS.length_not_mem_vals_read {sh : Shared K V} {U : List (K × EId)} (g : GS sh U) :
    sh.entries.length ∉ vals sh.readM :=
  fun h => Nat.lt_irrefl _ (g.vals_read_lt_length h)

omit [DecidableEq V] in
theorem GS.length_not_mem_vals_dirty {sh : Shared K V} {U : List (K × EId)} (g : GS sh U) :
    sh.entries.length ∉ vals (dirtyMap sh) :=
  fun h => Nat.lt_irrefl _ (g.vals_dirty_lt_length h)

omit [DecidableEq V] in
/-- (B), live half -/
theorem GS.read_live_in_dirtyM {sh : Shared K V} {U : List (K × EId)} (g : GS sh U) {k : K} {e : EId}
    (h : alookup k sh.readM = some e) (hu : (k, e) ∉ U) (hl : (getP sh e).isExpunged = false)
    (hd : sh.dirty.isSome = true) : alookup k (dirtyMap sh) = some e := by
  have := g.readDirty (k, e) (mem_of_alookup h) hu
  simp only [hl] at this
  exact this hd

omit [DecidableEq V] in
/-- (B), expunged half -/
theorem GS.read_expunged_not_in_dirtyM {sh : Shared K V} {U : List (K × EId)} (g : GS sh U) {k : K} {e : EId}
    (h : alookup k sh.readM = some e) (hu : (k, e) ∉ U) (hx : (getP sh e).isExpunged = true) :
    sh.dirty.isSome = true ∧ alookup k (dirtyMap sh) = none ∧ e ∉ vals (dirtyMap sh) := by
  have := g.readDirty (k, e) (mem_of_alookup h) hu
  simp only [hx, if_true] at this
  exact this

omit [DecidableEq V] in
/-- (B): a processed `read.m` entry the dirty map holds sits there under the same key and is live -/
theorem GS.read_dirty_same_keyM {sh : Shared K V} {U : List (K × EId)} (g : GS sh U) {k k' : K} {e : EId}
    (h : alookup k sh.readM = some e) (hu : (k, e) ∉ U) (hd : alookup k' (dirtyMap sh) = some e) :
    k' = k ∧ (getP sh e).isExpunged = false := by
  cases hx : (getP sh e).isExpunged with
  | true => exact absurd (mem_vals_of_alookup hd) (g.read_expunged_not_in_dirtyM h hu hx).2.2
  | false =>
    have h1 := g.read_live_in_dirtyM h hu hx (dirty_isSome_of_alookup_dirtyMap hd)
    exact ⟨alookup_inj g.valsD hd h1, rfl⟩

omit [DecidableEq V] in
/-- (C) -/
theorem GS.dirty_sub {sh : Shared K V} {U : List (K × EId)} (g : GS sh U) (ha : sh.amended = false) {k : K} {e : EId}
    (h : alookup k (dirtyMap sh) = some e) : alookup k sh.readM = some e :=
  g.dirtySub ha (k, e) (mem_of_alookup h)

omit [DecidableEq V] in
/-- (C): not amended and `read.m` lacks `k`: so does the dirty map -/
theorem GS.dirty_none_of_not_amended {sh : Shared K V} {U : List (K × EId)} (g : GS sh U) (ha : sh.amended = false)
    {k : K} (h : alookup k sh.readM = none) : alookup k (dirtyMap sh) = none := by
  cases hd : alookup k (dirtyMap sh) with
  | none => rfl
  | some e => rw [g.dirty_sub ha hd] at h; cases h

omit [DecidableEq V] in
/-- (D) -/
theorem GS.dirty_only_isVal {sh : Shared K V} {U : List (K × EId)} (g : GS sh U) {k : K} {e : EId}
    (h : alookup k sh.readM = none) (hd : alookup k (dirtyMap sh) = some e) : isVal (getP sh e) = true :=
  g.dirtyLive (k, e) (mem_of_alookup hd) h

omit [DecidableEq V] in
/-- (E) -/
theorem GS.dirty_isSome_of_amended {sh : Shared K V} {U : List (K × EId)} (g : GS sh U) (ha : sh.amended = true) :
    sh.dirty.isSome = true := by
  cases hd : sh.dirty with
  | some d => rfl
  | none => rw [g.s1 hd] at ha; cases ha

omit [DecidableEq V] in
/-- a dirty-only entry is not in `read.m` at all (nobody is inside the `dirtyLocked` loop) -/
theorem GS.dirty_only_not_in_read {sh : Shared K V} (g : GS sh []) {k : K} {e : EId}
    (h : alookup k sh.readM = none) (hd : alookup k (dirtyMap sh) = some e) : e ∉ vals sh.readM := by
  intro hm
  obtain ⟨k', hk'⟩ := (mem_vals_iff_alookup g.keysR).mp hm
  obtain ⟨h1, _⟩ := g.read_dirty_same_keyM hk' (by simp) hd
  subst h1
  rw [h] at hk'; cases hk'

omit [DecidableEq V] in
/-- every entry of the dirty map is live (nobody is inside the `dirtyLocked` loop) -/
theorem GS.dirty_not_expunged {sh : Shared K V} (g : GS sh []) {k : K} {e : EId}
    (hd : alookup k (dirtyMap sh) = some e) : (getP sh e).isExpunged = false := by
  cases hr : alookup k sh.readM with
  | none => exact not_isExpunged_of_isVal (g.dirty_only_isVal hr hd)
  | some e2 =>
    cases hx : (getP sh e2).isExpunged with
    | true =>
      have := (g.read_expunged_not_in_dirtyM hr (by simp) hx).2.1
      rw [this] at hd; cases hd
    | false =>
      have h1 := g.read_live_in_dirtyM hr (by simp) hx (dirty_isSome_of_alookup_dirtyMap hd)
      rw [hd] at h1
      cases h1
      exact hx

omit [DecidableEq V] in
/-- `GS` for a state with the same entries and maps -/
theorem GS.of_sameData {sh sh' : Shared K V} {U : List (K × EId)} (g : GS sh U) (hd : SameData sh' sh)
    (hf : sh'.fault = false) : GS sh' U where
  keysR := by rw [hd.readM]; exact g.keysR
  valsR := by rw [hd.readM]; exact g.valsR
  keysD := by rw [hd.dirtyMap]; exact g.keysD
  valsD := by rw [hd.dirtyMap]; exact g.valsD
  boundR := by rw [hd.readM, hd.entries]; exact g.boundR
  boundD := by rw [hd.dirtyMap, hd.entries]; exact g.boundD
  s1 := by rw [hd.dirty, hd.amended]; exact g.s1
  nofault := hf
  readDirty := by
    intro p hp hu
    rw [hd.readM] at hp
    have := g.readDirty p hp hu
    rw [hd.getP, hd.dirty, hd.dirtyMap]
    exact this
  dirtySub := by rw [hd.amended, hd.dirtyMap, hd.readM]; exact g.dirtySub
  dirtyLive := by
    rw [hd.dirtyMap, hd.readM]
    intro p hp h
    rw [hd.getP]
    exact g.dirtyLive p hp h

/-! ### the local form of `Obs` -/

/-- `Obs` for one abstract goroutine -/
def ObsPc (obj : K → Option V) (a : APc K V) : Prop :=
  ∀ op seen, a = .pending op seen → ∀ r, pureRes obj op = some r → r ∈ seen

omit [DecidableEq K] [DecidableEq V] in
theorem Obs.obsPc {obj : K → Option V} {apcs : Nat → APc K V} (h : Obs obj apcs) (u : Nat) : ObsPc obj (apcs u) :=
  fun op seen hp r hr => h u op seen hp r hr

omit [DecidableEq K] [DecidableEq V] in
theorem ObsPc.mem_seenOf {obj : K → Option V} {a : APc K V} (h : ObsPc obj a) {op : Op K V} (hp : Pend a op)
    {r : Res K V} (hr : pureRes obj op = some r) : r ∈ seenOf a := by
  cases a with
  | idle => exact hp.elim
  | done op' r' => exact hp.elim
  | pending op' seen =>
    have hp' : op' = op := hp
    subst hp'
    exact h op' seen rfl r hr

omit [DecidableEq V] in
/-- a pending Load has seen the current value -/
theorem ObsPc.load_seen {obj : K → Option V} {a : APc K V} (h : ObsPc obj a) {k : K} (hp : Pend a (.load k)) :
    Res.val (obj k) ∈ seenOf a :=
  h.mem_seenOf hp rfl

omit [DecidableEq V] in
/-- a pending LoadAndDelete / Delete has seen "absent" if the key is absent now -/
theorem ObsPc.lad_seen {obj : K → Option V} {a : APc K V} (h : ObsPc obj a) {d : Bool} {k : K}
    (hp : Pend a (ladOp d k)) (hk : obj k = none) : noneRes d ∈ seenOf a := by
  apply h.mem_seenOf hp
  cases d <;> simp [ladOp, pureRes, hk, noneRes]

/-! ### the bystander lemma -/

/-- A goroutine `u` that does not hold the mutex before or after a change of the shared state keeps its `T`, provided
the entry pointers it may hold keep their contents and each of the four "hold" shapes survives. -/
theorem T_bystander {sh sh' : Shared K V} {u : Tid} {pc : Pc K V} {a a' : APc K V}
    (hT : T sh u pc a) (hno : ¬ Own sh u) (hno' : ¬ Own sh' u) (hs : SeenLe a a')
    (hget : ∀ e, e < sh.entries.length → getP sh' e = getP sh e)
    (hHR : ∀ k e, HoldRead sh k e → HoldRead sh' k e)
    (hHL : ∀ k e, Pend a (.load k) → HoldLoad sh k e a → HoldLoad sh' k e a')
    (hHD : ∀ d k e, Pend a (ladOp d k) → HoldDel sh d k e a → HoldDel sh' d k e a')
    (hUL : ∀ d k e, Unlinker sh d k e a → Unlinker sh' d k e a') :
    T sh' u pc a' := by
  have hDH : ∀ d k e, DelHold sh u d k e a → DelHold sh' u d k e a' := by
    intro d k e h
    refine ⟨hno', ?_⟩
    rcases h.2 with ⟨h1, h2⟩ | h1
    · exact Or.inl ⟨hs.pend h1, hHD d k e h1 h2⟩
    · exact Or.inr (hUL d k e h1)
  have hLH : ∀ c k e, LosHold sh u c k e → LosHold sh' u c k e := by
    intro c k e h
    cases c with
    | fast => exact ⟨hno', hHR k e h.2⟩
    | slowRead => exact absurd h.1 hno
    | slowDirty => exact absurd h.1 hno
  cases pc with
  | idle => simp only [T] at hT ⊢; exact ⟨hs.isIdle hT.1, hno'⟩
  | start op =>
    cases op <;> simp only [T] at hT ⊢ <;>
      first | exact ⟨hs.pend hT.1, hno'⟩ | exact ⟨hs.isIdle hT.1, hno'⟩
  | ret r =>
    cases r <;> simp only [T] at hT ⊢ <;>
      first | exact ⟨hs.retOk hT.1, hno'⟩ | exact ⟨hs.isIdle hT.1, hno', hT.2.2⟩
  | loadRead1 k => simp only [T] at hT ⊢; exact ⟨hs.pend hT.1, hno'⟩
  | loadLock k => simp only [T] at hT ⊢; exact ⟨hs.pend hT.1, hno'⟩
  | loadRead2 k => simp only [T] at hT; exact absurd hT.2 hno
  | loadMiss k e => simp only [T] at hT; exact absurd hT.2.1.own hno
  | loadPtr k e => simp only [T] at hT ⊢; exact ⟨hs.pend hT.1, hno', hHL k e hT.1 hT.2.2⟩
  | storeRead1 k v => simp only [T] at hT ⊢; exact ⟨hs.pend hT.1, hno'⟩
  | tryStoreLoad k v e => simp only [T] at hT ⊢; exact ⟨hs.pend hT.1, hno', hHR k e hT.2.2⟩
  | tryStoreCas k v e p => simp only [T] at hT ⊢; exact ⟨hs.pend hT.1, hno', hHR k e hT.2.2.1, hT.2.2.2⟩
  | storeLock k v => simp only [T] at hT ⊢; exact ⟨hs.pend hT.1, hno'⟩
  | storeRead2 k v => simp only [T] at hT; exact absurd hT.2 hno
  | storeUnexp k v e => simp only [T] at hT; exact absurd hT.2.1 hno
  | storeLocked k v e => simp only [T] at hT; exact absurd hT.2.1 hno
  | dirtyRead c k v rm => simp only [T] at hT; exact absurd hT.1.own hno
  | dirtyPick c k v rm todo => simp only [T] at hT; exact absurd hT.1.own hno
  | expLoad c k v rm todo k' e' => simp only [T] at hT; exact absurd hT.1.own hno
  | expCas c k v rm todo k' e' => simp only [T] at hT; exact absurd hT.1.own hno
  | expLoad2 c k v rm todo k' e' => simp only [T] at hT; exact absurd hT.1.own hno
  | readStore c k v rm => simp only [T] at hT; exact absurd hT.1.own hno
  | losRead1 k v => simp only [T] at hT ⊢; exact ⟨hs.pend hT.1, hno'⟩
  | losLoad c k v e => simp only [T] at hT ⊢; exact ⟨hs.pend hT.1, hLH c k e hT.2⟩
  | losCas c k v e => simp only [T] at hT ⊢; exact ⟨hs.pend hT.1, hLH c k e hT.2⟩
  | losLoad2 c k v e => simp only [T] at hT ⊢; exact ⟨hs.pend hT.1, hLH c k e hT.2⟩
  | losLock k v => simp only [T] at hT ⊢; exact ⟨hs.pend hT.1, hno'⟩
  | losRead2 k v => simp only [T] at hT; exact absurd hT.2 hno
  | losUnexp k v e => simp only [T] at hT; exact absurd hT.2.1 hno
  | losMiss k r => simp only [T] at hT; exact absurd hT.2.2.own hno
  | ladRead1 d k => simp only [T] at hT ⊢; exact ⟨hs.pend hT.1, hno'⟩
  | ladLock d k => simp only [T] at hT ⊢; exact ⟨hs.pend hT.1, hno'⟩
  | ladRead2 d k => simp only [T] at hT; exact absurd hT.2 hno
  | ladMiss d k e => simp only [T] at hT; exact absurd hT.1.own hno
  | delLoad d k e => simp only [T] at hT ⊢; exact hDH d k e hT
  | delCas d k e p =>
    simp only [T] at hT ⊢
    refine ⟨hDH d k e hT.1, hT.2.1, ?_⟩
    intro hu'
    rcases hT.1.2 with ⟨h1, _⟩ | h1
    · -- pending: not an unlinker, before or after
      obtain ⟨v, _, hdw⟩ := hu'.spec
      have hdw' := (hs.doneWith_iff _ _).mp hdw
      cases a with
      | idle => exact hdw'.elim
      | done op r => exact h1.elim
      | pending op seen => exact hdw'.elim
    · rw [hget e h1.lt_length]
      exact hT.2.2 h1
  | rangeRead1 => simp only [T] at hT ⊢; exact ⟨hs.isIdle hT.1, hno'⟩
  | rangeLock => simp only [T] at hT ⊢; exact ⟨hs.isIdle hT.1, hno'⟩
  | rangeRead2 => simp only [T] at hT; exact absurd hT.2 hno
  | rangeStore dm => simp only [T] at hT; exact absurd hT.2.1.own hno
  | rangePick todo acc =>
    simp only [T] at hT ⊢; exact ⟨hs.isIdle hT.1, hno', hT.2.2.1, fun p hp => hHR _ _ (hT.2.2.2 p hp)⟩
  | rangeLoad todo acc k' e' =>
    simp only [T] at hT ⊢; exact ⟨hs.isIdle hT.1, hno', hT.2.2.1, fun p hp => hHR _ _ (hT.2.2.2 p hp)⟩


/-! ### changes that keep `read.m` -/

/-- `sh'` has the same `read.m`, the allocated entries keep their pointers, and no entry that was in neither map is in
the dirty map now (items 0–5 all satisfy this) -/
structure KeepRead (sh sh' : Shared K V) : Prop where
  readM : sh'.readM = sh.readM
  len : sh.entries.length ≤ sh'.entries.length
  ptr : ∀ e, e < sh.entries.length → getP sh' e = getP sh e
  out : ∀ e, e < sh.entries.length → e ∉ vals sh.readM → e ∉ vals (dirtyMap sh) → e ∉ vals (dirtyMap sh')

theorem KeepRead.dead {sh sh' : Shared K V} (h : KeepRead sh sh') {e : EId} (hd : Dead sh e) : Dead sh' e := by
  have hl := hd.lt_length
  refine ⟨?_, ?_, ?_⟩
  · rw [h.ptr e hl]; exact hd.1
  · rw [h.readM]; exact hd.2.1
  · exact h.out e hl hd.2.1 hd.2.2

theorem KeepRead.orphan {sh sh' : Shared K V} (h : KeepRead sh sh') {e : EId} (hl : e < sh.entries.length)
    (ho : Orphan sh e) : Orphan sh' e := by
  refine ⟨?_, ?_, ?_⟩
  · rw [h.ptr e hl]; exact ho.1
  · rw [h.readM]; exact ho.2.1
  · exact h.out e hl ho.2.1 ho.2.2

theorem KeepRead.holdRead {sh sh' : Shared K V} (h : KeepRead sh sh') {k : K} {e : EId} (hr : HoldRead sh k e) :
    HoldRead sh' k e := by
  refine ⟨Nat.lt_of_lt_of_le hr.1 h.len, ?_⟩
  rcases hr.2 with h1 | h1
  · exact Or.inl (by rw [h.readM]; exact h1)
  · exact Or.inr (h.dead h1)

theorem KeepRead.holdDel {sh sh' : Shared K V} (h : KeepRead sh sh') {a a' : APc K V} (hs : SeenLe a a') {d : Bool}
    {k : K} {e : EId} (hr : HoldDel sh d k e a) : HoldDel sh' d k e a' := by
  refine ⟨Nat.lt_of_lt_of_le hr.1 h.len, ?_⟩
  rcases hr.2 with h1 | ⟨h1, h2⟩
  · exact Or.inl (by rw [h.readM]; exact h1)
  · exact Or.inr ⟨h.dead h1, hs.mem_seenOf h2⟩

theorem KeepRead.unlinker {sh sh' : Shared K V} (h : KeepRead sh sh') {a a' : APc K V} (hs : SeenLe a a') {d : Bool}
    {k : K} {e : EId} (hr : Unlinker sh d k e a) : Unlinker sh' d k e a' := by
  rw [Unlinker_iff] at hr ⊢
  obtain ⟨h1, h2, h3, v, hv, hdw⟩ := hr
  refine ⟨Nat.lt_of_lt_of_le h1 h.len, ?_, h.out e h1 h2 h3, v, ?_, hs.doneWith hdw⟩
  · rw [h.readM]; exact h2
  · rw [h.ptr e h1]; exact hv

/-- `HoldLoad` survives, if the one shape that is not covered by `KeepRead` (current through the dirty map) does -/
theorem KeepRead.holdLoad {sh sh' : Shared K V} (h : KeepRead sh sh') {a a' : APc K V} (hs : SeenLe a a') {k : K}
    {e : EId} (hr : HoldLoad sh k e a)
    (hcur : alookup k sh.readM = none → alookup k (dirtyMap sh) = some e → HoldLoad sh' k e a') :
    HoldLoad sh' k e a' := by
  have hl := hr.1
  rcases hr.2 with h1 | ⟨h1, h2⟩ | ⟨h1, h2, h3⟩
  · rcases h1 with h1 | ⟨h1, h2⟩
    · exact ⟨Nat.lt_of_lt_of_le hl h.len, Or.inl (Or.inl (by rw [h.readM]; exact h1))⟩
    · exact hcur h1 h2
  · exact ⟨Nat.lt_of_lt_of_le hl h.len, Or.inr (Or.inl ⟨h.dead h1, hs.mem_seenOf h2⟩)⟩
  · refine ⟨Nat.lt_of_lt_of_le hl h.len, Or.inr (Or.inr ⟨h.orphan hl h1, hs.mem_seenOf h2, ?_⟩)⟩
    rw [h.ptr e hl]
    cases hv : (getP sh e).value? with
    | none => trivial
    | some v => rw [hv] at h3; exact hs.mem_seenOf h3

/-- bystanders under a `KeepRead` change; `hcur` takes care of a pending Load whose entry is current through the
dirty map -/
theorem KeepRead.T_bystander {sh sh' : Shared K V} (h : KeepRead sh sh') {u : Tid} {pc : Pc K V} {a a' : APc K V}
    (hT : T sh u pc a) (hno : ¬ Own sh u) (hno' : ¬ Own sh' u) (hs : SeenLe a a')
    (hcur : ∀ k e, Pend a (.load k) → e < sh.entries.length → alookup k sh.readM = none →
      alookup k (dirtyMap sh) = some e → HoldLoad sh' k e a') :
    T sh' u pc a' :=
  Smc.T_bystander hT hno hno' hs h.ptr (fun _ _ hr => h.holdRead hr)
    (fun k e hp hr => h.holdLoad hs hr (hcur k e hp hr.1))
    (fun _ _ _ _ hr => h.holdDel hs hr) (fun _ _ _ hr => h.unlinker hs hr)

/-- … in the common case that keys which are only in the dirty map keep their entry -/
theorem KeepRead.T_bystander' {sh sh' : Shared K V} (h : KeepRead sh sh') {u : Tid} {pc : Pc K V} {a a' : APc K V}
    (hT : T sh u pc a) (hno : ¬ Own sh u) (hno' : ¬ Own sh' u) (hs : SeenLe a a')
    (hcur : ∀ k e, alookup k sh.readM = none → alookup k (dirtyMap sh) = some e →
      alookup k (dirtyMap sh') = some e) :
    T sh' u pc a' :=
  h.T_bystander hT hno hno' hs (fun k e _ hl h1 h2 =>
    ⟨Nat.lt_of_lt_of_le hl h.len, Or.inl (Or.inr ⟨by rw [h.readM]; exact h1, hcur k e h1 h2⟩)⟩)

/-- from one goroutine to all bystanders of the owner `t` -/
theorem bystanders_of_own {s : State K V} {apcs' : Nat → APc K V} {sh' : Shared K V} {t : Tid}
    (ho : Own s.sh t)
    (h : ∀ u, ¬ Own s.sh u → T sh' u (s.pc u) (apcs' u)) :
    ∀ u, u ≠ t → T sh' u (s.pc u) (apcs' u) :=
  fun u hne => h u (not_Own_of_ne ho hne)

/-! ## 0. `mu` / `misses` only -/

/-- `T` does not look at `misses` -/
theorem T_misses_iff (sh : Shared K V) (n : Nat) (u : Tid) (pc : Pc K V) (a : APc K V) :
    T { sh with misses := n } u pc a ↔ T sh u pc a :=
  T_congr_mu (sameData_misses_update sh n) rfl pc a

theorem T_missStep_iff (sh : Shared K V) (u : Tid) (pc : Pc K V) (a : APc K V) :
    T (missStep sh).1 u pc a ↔ T sh u pc a :=
  T_congr_mu (sameData_missStep_fst sh) rfl pc a

/-- locking by `t`: nothing changes for the others -/
theorem T_lock_iff {sh : Shared K V} (hm : sh.mu = none) {t u : Tid} (hne : u ≠ t) (pc : Pc K V) (a : APc K V) :
    T { sh with mu := some t } u pc a ↔ T sh u pc a := by
  apply T_congr (sameData_mu_update sh (some t))
  rw [Own_lock]
  constructor
  · intro h; exact absurd h.symm hne
  · intro h; exact absurd h (not_Own_of_mu_none hm u)

/-- unlocking: nothing changes for a goroutine that is not the owner -/
theorem T_unlock_iff {sh : Shared K V} {u : Tid} (hno : ¬ Own sh u) (pc : Pc K V) (a : APc K V) :
    T (unlock sh) u pc a ↔ T sh u pc a := by
  apply T_congr (sameData_unlock sh)
  rw [Own_unlock_iff]
  exact ⟨False.elim, hno⟩

theorem T_unlock_missStep_iff {sh : Shared K V} {u : Tid} (hno : ¬ Own sh u) (pc : Pc K V) (a : APc K V) :
    T (unlock (missStep sh).1) u pc a ↔ T sh u pc a := by
  rw [T_unlock_iff (by rw [Own_missStep_fst]; exact hno), T_missStep_iff]

theorem T_unlock_of {sh : Shared K V} {u : Tid} {pc : Pc K V} {a : APc K V} (hT : T sh u pc a) (hno : ¬ Own sh u) :
    T (unlock sh) u pc a :=
  (T_unlock_iff hno pc a).mpr hT

/-- `T` of a bystander only depends on the data part of the shared state -/
theorem T_sameData_of_not_own {sh sh' : Shared K V} (hd : SameData sh' sh) {u : Tid} (hno : ¬ Own sh u)
    (hno' : ¬ Own sh' u) (pc : Pc K V) (a : APc K V) : T sh' u pc a ↔ T sh u pc a :=
  T_congr hd ⟨fun h => absurd h hno', fun h => absurd h hno⟩ pc a

theorem GS_sameData_iff {sh sh' : Shared K V} (hd : SameData sh' sh) (hf : sh'.fault = sh.fault)
    (U : List (K × EId)) : GS sh' U ↔ GS sh U :=
  ⟨fun g => g.of_sameData hd.symm (by rw [← hf]; exact g.nofault),
   fun g => g.of_sameData hd (by rw [hf]; exact g.nofault)⟩

theorem GS_lock_iff (sh : Shared K V) (t : Tid) (U : List (K × EId)) : GS { sh with mu := some t } U ↔ GS sh U :=
  GS_sameData_iff (sameData_mu_update sh (some t)) rfl U
theorem GS_unlock_iff (sh : Shared K V) (U : List (K × EId)) : GS (unlock sh) U ↔ GS sh U :=
  GS_sameData_iff (sameData_unlock sh) rfl U
theorem GS_missStep_iff (sh : Shared K V) (U : List (K × EId)) : GS (missStep sh).1 U ↔ GS sh U :=
  GS_sameData_iff (sameData_missStep_fst sh) rfl U
theorem GS_misses_iff (sh : Shared K V) (n : Nat) (U : List (K × EId)) : GS { sh with misses := n } U ↔ GS sh U :=
  GS_sameData_iff (sameData_misses_update sh n) rfl U
theorem GS_unlock_missStep_iff (sh : Shared K V) (U : List (K × EId)) : GS (unlock (missStep sh).1) U ↔ GS sh U :=
  GS_sameData_iff (sameData_unlock_missStep_fst sh) rfl U

@[simp] theorem absOf_misses_update (sh : Shared K V) (n : Nat) (k : K) : absOf { sh with misses := n } k = absOf sh k :=
  rfl
@[simp] theorem absOf_unlock_missStep_fst (sh : Shared K V) (k : K) : absOf (unlock (missStep sh).1) k = absOf sh k :=
  rfl

section
variable {s : State K V} {apcs : Nat → APc K V}

/-- (0.i) lock by `t` -/
theorem bystanders_lock (hT : ∀ u, T s.sh u (s.pc u) (apcs u)) (hm : s.sh.mu = none) (t : Tid) :
    ∀ u, u ≠ t → T { s.sh with mu := some t } u (s.pc u) (apcs u) :=
  fun u hne => (T_lock_iff hm hne _ _).mpr (hT u)

/-- (0.i) unlock by the owner `t` (in fact: by anybody) -/
theorem bystanders_unlock (hT : ∀ u, T s.sh u (s.pc u) (apcs u)) {t : Tid} (ho : Own s.sh t) :
    ∀ u, u ≠ t → T (unlock s.sh) u (s.pc u) (apcs u) :=
  fun u hne => T_unlock_of (hT u) (not_Own_of_ne ho hne)

/-- (0.i) `missStep`: everybody (the owner included) -/
theorem all_missStep (hT : ∀ u, T s.sh u (s.pc u) (apcs u)) :
    ∀ u, T (missStep s.sh).1 u (s.pc u) (apcs u) :=
  fun u => (T_missStep_iff _ _ _ _).mpr (hT u)

/-- (0.i) `missStep` then unlock -/
theorem bystanders_unlock_missStep (hT : ∀ u, T s.sh u (s.pc u) (apcs u)) {t : Tid} (ho : Own s.sh t) :
    ∀ u, u ≠ t → T (unlock (missStep s.sh).1) u (s.pc u) (apcs u) :=
  fun u hne => (T_unlock_missStep_iff (not_Own_of_ne ho hne) _ _).mpr (hT u)
end

/-! ## 1. `dirty := some []` (dirtyRead) -/

theorem keepRead_dirtyInit (sh : Shared K V) : KeepRead sh { sh with dirty := some [] } where
  readM := rfl
  len := Nat.le_refl _
  ptr := fun _ _ => rfl
  out := fun e _ _ _ => by simp

/-- (1.i) per goroutine -/
theorem T_dirtyInit {sh : Shared K V} (hd : sh.dirty = none) {u : Tid} {pc : Pc K V} {a : APc K V}
    (hT : T sh u pc a) (hno : ¬ Own sh u) : T { sh with dirty := some [] } u pc a := by
  apply (keepRead_dirtyInit sh).T_bystander' hT hno hno (SeenLe.refl a)
  intro k e _ h2
  rw [dirtyMap_of_none hd] at h2
  simp at h2

/-- (1.ii) all of `read.m` is unprocessed now -/
theorem GS_dirtyInit {sh : Shared K V} {U U' : List (K × EId)} (g : GS sh U) (hd : sh.dirty = none)
    (hU' : ∀ p ∈ sh.readM, p ∈ U') : GS { sh with dirty := some [] } U' where
  keysR := g.keysR
  valsR := g.valsR
  keysD := by simp
  valsD := by simp
  boundR := g.boundR
  boundD := by simp
  s1 := by intro h; cases h
  nofault := g.nofault
  readDirty := fun p hp hn => absurd (hU' p hp) hn
  dirtySub := by intro _ p hp; simp at hp
  dirtyLive := by intro p hp; simp at hp

/-- (E) no dirty map: no entry of `read.m` is expunged (`hU`: neither are the unprocessed ones — there are none,
`unprocessed_eq_nil_of_dirty_none`) -/
theorem GS.no_expunged_of_dirty_none {sh : Shared K V} {U : List (K × EId)} (g : GS sh U) (hd : sh.dirty = none)
    (hU : ∀ p ∈ U, (getP sh p.2).isExpunged = false) {p : K × EId} (hp : p ∈ sh.readM) :
    (getP sh p.2).isExpunged = false := by
  by_cases hpU : p ∈ U
  · exact hU p hpU
  · cases hx : (getP sh p.2).isExpunged with
    | false => rfl
    | true =>
      have := g.readDirty p hp hpU
      simp only [hx, if_true] at this
      rw [hd] at this
      simp at this

/-- (1.ii) the builder's `Building` clause after `dirtyRead` -/
theorem Building_dirtyInit {sh : Shared K V} {U : List (K × EId)} (g : GS sh U) (hd : sh.dirty = none)
    (hU : ∀ p ∈ U, (getP sh p.2).isExpunged = false) : Building { sh with dirty := some [] } sh.readM := by
  refine ⟨g.keysR, ?_⟩
  intro p hp
  refine ⟨hp, by simp, by simp, ?_⟩
  exact g.no_expunged_of_dirty_none hd hU hp

/-- (1.iii) -/
theorem absOf_dirtyInit {sh : Shared K V} (hd : sh.dirty = none) (k : K) :
    absOf { sh with dirty := some [] } k = absOf sh k :=
  absOf_congr' (sh := sh) (sh' := { sh with dirty := some [] }) rfl rfl (by rw [dirtyMap_of_none hd]; rfl)
    (fun _ => rfl) k

/-- (1.i) all bystanders -/
theorem bystanders_dirtyInit {s : State K V} {apcs : Nat → APc K V} (hT : ∀ u, T s.sh u (s.pc u) (apcs u))
    {t : Tid} (ho : Own s.sh t) (hd : s.sh.dirty = none) :
    ∀ u, u ≠ t → T { s.sh with dirty := some [] } u (s.pc u) (apcs u) :=
  bystanders_of_own ho (fun u hno => T_dirtyInit hd (hT u) hno)

/-! ## 2. `setDirty sh k' e'` of an unprocessed live pair (expLoaded / expDone, live case) -/

/-- what the builder's `T` (`Building`) says about the unprocessed pairs -/
def UnprocOk (sh : Shared K V) (U : List (K × EId)) : Prop :=
  ∀ p ∈ U, p ∈ sh.readM ∧ alookup p.1 (dirtyMap sh) = none ∧ p.2 ∉ vals (dirtyMap sh) ∧
    (getP sh p.2).isExpunged = false

theorem Building.unprocOk {sh : Shared K V} {U : List (K × EId)} (h : Building sh U) : UnprocOk sh U := h.2

theorem expDone_of_live (sh : Shared K V) {p : Ptr V} (hp : p.isExpunged = false) (k' : K) (e' : EId) :
    expDone sh p k' e' = setDirty sh k' e' := by
  unfold expDone; simp [hp]

theorem dirtyMap_setDirty_unproc {sh : Shared K V} (hds : sh.dirty.isSome = true) (k' : K) (e' : EId) :
    dirtyMap (setDirty sh k' e') = ainsert k' e' (dirtyMap sh) :=
  dirtyMap_setDirty_of_isSome hds k' e'

theorem keepRead_setDirty {sh : Shared K V} (hds : sh.dirty.isSome = true) {k' : K} {e' : EId}
    (hmr : (k', e') ∈ sh.readM) : KeepRead sh (setDirty sh k' e') where
  readM := setDirty_readM sh k' e'
  len := by rw [setDirty_entries]; exact Nat.le_refl _
  ptr := fun e _ => getP_setDirty sh k' e' e
  out := by
    intro e _ hr hd hm
    rw [dirtyMap_setDirty_of_isSome hds] at hm
    rcases mem_vals_ainsert hm with h | h
    · exact hr (h ▸ mem_vals_of_mem hmr)
    · exact hd h

/-- (2.i) per goroutine -/
theorem T_expDone {sh : Shared K V} (hds : sh.dirty.isSome = true) {k' : K} {e' : EId} (hmr : (k', e') ∈ sh.readM)
    {u : Tid} {pc : Pc K V} {a : APc K V} (hT : T sh u pc a) (hno : ¬ Own sh u) :
    T (setDirty sh k' e') u pc a := by
  apply (keepRead_setDirty hds hmr).T_bystander' hT hno (by rw [Own_setDirty]; exact hno) (SeenLe.refl a)
  intro k e h1 h2
  rw [dirtyMap_setDirty_of_isSome hds, alookup_ainsert]
  have hne : k ≠ k' := by
    intro h; subst h
    exact not_mem_of_alookup_none h1 hmr
  simp [hne, h2]

/-- (2.ii) -/
theorem GS_expDone {sh : Shared K V} {U U' : List (K × EId)} {k' : K} {e' : EId} (g : GS sh U)
    (hds : sh.dirty.isSome = true) (ha : sh.amended = false) (hm : (k', e') ∈ U) (hU : UnprocOk sh U)
    (hU' : ∀ p, p ∈ U' ↔ p ∈ U ∧ p ≠ (k', e')) : GS (setDirty sh k' e') U' := by
  obtain ⟨hmr, hdn, hvn, hlive⟩ := hU _ hm
  simp only at hdn hvn hlive
  have hdm : dirtyMap (setDirty sh k' e') = ainsert k' e' (dirtyMap sh) := dirtyMap_setDirty_of_isSome hds k' e'
  have hrk : alookup k' sh.readM = some e' := g.mem_read_iff.mp hmr
  have hds' : (setDirty sh k' e').dirty.isSome = true := by rw [setDirty_dirty_isSome]; exact hds
  refine
    { keysR := by rw [setDirty_readM]; exact g.keysR
      valsR := by rw [setDirty_readM]; exact g.valsR
      keysD := by rw [hdm]; exact nodup_ainsert g.keysD
      valsD := by rw [hdm]; exact nodup_vals_ainsert_of_none hdn hvn g.valsD
      boundR := by rw [setDirty_readM, setDirty_entries]; exact g.boundR
      boundD := ?_
      s1 := ?_
      nofault := by rw [setDirty_fault_of_isSome hds]; exact g.nofault
      readDirty := ?_
      dirtySub := ?_
      dirtyLive := ?_ }
  · intro p hp
    rw [hdm, mem_ainsert_of_none hdn] at hp
    rw [setDirty_entries]
    rcases hp with h | h
    · exact g.boundD p h
    · subst h; exact g.boundR _ hmr
  · intro h
    rw [h] at hds'
    cases hds'
  · intro p hp hpU'
    rw [setDirty_readM] at hp
    rw [getP_setDirty, hds', hdm]
    have hpr : alookup p.1 sh.readM = some p.2 := alookup_of_mem' g.keysR hp
    by_cases hpU : p ∈ U
    · have hpe : p = (k', e') := by
        apply Classical.byContradiction
        intro hne
        exact hpU' ((hU' p).mpr ⟨hpU, hne⟩)
      subst hpe
      simp only [hlive]
      simp [alookup_ainsert]
    · have := g.readDirty p hp hpU
      cases hx : (getP sh p.2).isExpunged with
      | true =>
        simp only [hx, if_true] at this ⊢
        have hne2 : p.2 ≠ e' := by
          intro h; rw [h] at hx; rw [hx] at hlive; cases hlive
        have hne1 : p.1 ≠ k' := by
          intro h; rw [h, hrk] at hpr
          exact hne2 (Option.some.inj hpr).symm
        refine ⟨trivial, ?_, ?_⟩
        · rw [alookup_ainsert]; simp [hne1, this.2.1]
        · rw [mem_vals_ainsert_of_none hdn]
          intro h
          rcases h with h | h
          · exact this.2.2 h
          · exact hne2 h
      | false =>
        simp only [hx] at this ⊢
        simp only [Bool.false_eq_true, if_false] at this ⊢
        intro _
        have h1 := this hds
        rw [alookup_ainsert]
        have hne1 : p.1 ≠ k' := by
          intro h; rw [h, hdn] at h1; cases h1
        simp [hne1, h1]
  · intro _ p hp
    rw [hdm, mem_ainsert_of_none hdn] at hp
    rw [setDirty_readM]
    rcases hp with h | h
    · exact g.dirtySub ha p h
    · subst h; exact hrk
  · intro p hp hn
    rw [hdm, mem_ainsert_of_none hdn] at hp
    rw [setDirty_readM] at hn
    rw [getP_setDirty]
    rcases hp with h | h
    · exact g.dirtyLive p h hn
    · subst h
      rw [hrk] at hn; cases hn

/-- (2.ii) the remaining unprocessed pairs are still as the builder's `T` wants them -/
theorem UnprocOk_expDone {sh : Shared K V} {U₀ U U' : List (K × EId)} {k' : K} {e' : EId} (g : GS sh U₀)
    (hds : sh.dirty.isSome = true) (hm : (k', e') ∈ U) (hU : UnprocOk sh U)
    (hU' : ∀ p, p ∈ U' ↔ p ∈ U ∧ p ≠ (k', e')) : UnprocOk (setDirty sh k' e') U' := by
  obtain ⟨hmr, hdn, hvn, hlive⟩ := hU _ hm
  simp only at hdn hvn hlive
  intro p hp
  obtain ⟨hpU, hne⟩ := (hU' p).mp hp
  obtain ⟨h1, h2, h3, h4⟩ := hU p hpU
  have hne1 : p.1 ≠ k' := by
    intro h
    apply hne
    have : p.2 = e' := mem_unique g.keysR (h ▸ (show (p.1, p.2) ∈ sh.readM from h1)) hmr
    exact Prod.ext h this
  have hne2 : p.2 ≠ e' := by
    intro h
    apply hne1
    exact key_unique_of_mem g.valsR (show (p.1, p.2) ∈ sh.readM from h1) (h ▸ hmr)
  rw [setDirty_readM, dirtyMap_setDirty_of_isSome hds, getP_setDirty]
  refine ⟨h1, ?_, ?_, h4⟩
  · rw [alookup_ainsert]; simp [hne1, h2]
  · rw [mem_vals_ainsert_of_none hdn]
    intro h
    rcases h with h | h
    · exact h3 h
    · exact hne2 h

/-- (2.iii) not amended: the abstraction only looks at `read.m` -/
theorem absOf_setDirty_of_not_amended {sh : Shared K V} (ha : sh.amended = false) (k' : K) (e' : EId) (k : K) :
    absOf (setDirty sh k' e') k = absOf sh k := by
  unfold absOf
  rw [setDirty_readM, setDirty_amended, ha]
  cases alookup k sh.readM with
  | some e => simp
  | none => simp

omit [DecidableEq V] in
/-- the pairs still to do after the head of the builder's list is done -/
theorem Building.mem_tail_iff {sh : Shared K V} {q : K × EId} {todo : List (K × EId)} (hb : Building sh (q :: todo))
    (p : K × EId) : p ∈ todo ↔ p ∈ q :: todo ∧ p ≠ q := by
  constructor
  · intro h
    refine ⟨List.mem_cons_of_mem _ h, ?_⟩
    intro hpq
    exact hb.head_not_mem (hpq ▸ h)
  · rintro ⟨h, hne⟩
    rcases List.mem_cons.mp h with h1 | h1
    · exact absurd h1 hne
    · exact h1

/-- (2.ii) in the builder's own terms: `Building` for the rest of the list -/
theorem Building_expDone {sh : Shared K V} {U₀ : List (K × EId)} (g : GS sh U₀) (hds : sh.dirty.isSome = true)
    {k' : K} {e' : EId} {todo : List (K × EId)} (hb : Building sh ((k', e') :: todo)) :
    Building (setDirty sh k' e') todo :=
  ⟨hb.tail.1, UnprocOk_expDone g hds (List.mem_cons_self ..) hb.unprocOk hb.mem_tail_iff⟩

/-- (2.ii) with the unprocessed set given as the builder's list -/
theorem GS_expDone_cons {sh : Shared K V} {k' : K} {e' : EId} {todo : List (K × EId)}
    (g : GS sh ((k', e') :: todo)) (hds : sh.dirty.isSome = true) (ha : sh.amended = false)
    (hb : Building sh ((k', e') :: todo)) : GS (setDirty sh k' e') todo :=
  GS_expDone g hds ha (List.mem_cons_self ..) hb.unprocOk hb.mem_tail_iff

/-- (2.i) all bystanders -/
theorem bystanders_expDone {s : State K V} {apcs : Nat → APc K V} (hT : ∀ u, T s.sh u (s.pc u) (apcs u))
    {t : Tid} (ho : Own s.sh t) (hds : s.sh.dirty.isSome = true) {k' : K} {e' : EId} (hmr : (k', e') ∈ s.sh.readM) :
    ∀ u, u ≠ t → T (setDirty s.sh k' e') u (s.pc u) (apcs u) :=
  bystanders_of_own ho (fun u hno => T_expDone hds hmr (hT u) hno)


/-! ## 3. `amended := true` (the `read.Store` of readStore) -/

/-- the state after `m.read.Store(readOnly{m: read.m, amended: true})` -/
abbrev setAmended (sh : Shared K V) : Shared K V := { sh with amended := true }

/-- the form `exec` writes at `readStore` (with `rm = read.m`, as `NewTail` says) -/
theorem readStore_update_eq (sh : Shared K V) : { sh with readM := sh.readM, amended := true } = setAmended sh := rfl

theorem keepRead_setAmended (sh : Shared K V) : KeepRead sh (setAmended sh) where
  readM := rfl
  len := Nat.le_refl _
  ptr := fun _ _ => rfl
  out := fun _ _ _ hd => hd

/-- (3.i) per goroutine: the non-owner shapes of `T` do not look at `amended` -/
theorem T_setAmended {sh : Shared K V} {u : Tid} {pc : Pc K V} {a : APc K V} (hT : T sh u pc a) (hno : ¬ Own sh u) :
    T (setAmended sh) u pc a :=
  (keepRead_setAmended sh).T_bystander' hT hno hno (SeenLe.refl a) (fun _ _ _ h => h)

/-- (3.ii) -/
theorem GS_setAmended {sh : Shared K V} {U : List (K × EId)} (g : GS sh U) (hds : sh.dirty.isSome = true) :
    GS (setAmended sh) U where
  keysR := g.keysR
  valsR := g.valsR
  keysD := g.keysD
  valsD := g.valsD
  boundR := g.boundR
  boundD := g.boundD
  s1 := by
    intro h
    have h' : sh.dirty = none := h
    rw [h'] at hds; cases hds
  nofault := g.nofault
  readDirty := g.readDirty
  dirtySub := by intro h; cases h
  dirtyLive := g.dirtyLive

/-- (3.iii) not amended before: the dirty map holds nothing but `read.m` entries, so nothing becomes visible -/
theorem absOf_setAmended {sh : Shared K V} {U : List (K × EId)} (g : GS sh U) (ha : sh.amended = false) (k : K) :
    absOf (setAmended sh) k = absOf sh k := by
  cases hr : alookup k sh.readM with
  | some e =>
    rw [absOf_of_read hr, absOf_of_read (sh := setAmended sh) hr]
    rfl
  | none =>
    rw [absOf_of_not_amended hr ha]
    exact absOf_of_none_none (sh := setAmended sh) hr (g.dirty_none_of_not_amended ha hr)

/-- (3.i) all bystanders -/
theorem bystanders_setAmended {s : State K V} {apcs : Nat → APc K V} (hT : ∀ u, T s.sh u (s.pc u) (apcs u))
    {t : Tid} (ho : Own s.sh t) : ∀ u, u ≠ t → T (setAmended s.sh) u (s.pc u) (apcs u) :=
  bystanders_of_own ho (fun u hno => T_setAmended (hT u) hno)

/-! ## 4. `addNew` (finishNew) -/

theorem dirtyMap_addNew_new {sh : Shared K V} (hds : sh.dirty.isSome = true) (k : K) (v : V) :
    dirtyMap (addNew sh k v) = ainsert k sh.entries.length (dirtyMap sh) :=
  dirtyMap_addNew_of_isSome hds k v

theorem keepRead_addNew {sh : Shared K V} (hds : sh.dirty.isSome = true) (k : K) (v : V) :
    KeepRead sh (addNew sh k v) where
  readM := addNew_readM sh k v
  len := by rw [addNew_entries_length]; exact Nat.le_succ _
  ptr := fun e he => getP_addNew_of_lt he k v
  out := by
    intro e he _ hd hm
    rw [dirtyMap_addNew_of_isSome hds] at hm
    rcases mem_vals_ainsert hm with h | h
    · exact Nat.lt_irrefl _ (h ▸ he)
    · exact hd h

/-- (4.i) per goroutine: entries only grow, the new entry is in no bystander's hands -/
theorem T_addNew {sh : Shared K V} (hds : sh.dirty.isSome = true) {k : K} (hdk : alookup k (dirtyMap sh) = none)
    (v : V) {u : Tid} {pc : Pc K V} {a : APc K V} (hT : T sh u pc a) (hno : ¬ Own sh u) :
    T (addNew sh k v) u pc a := by
  apply (keepRead_addNew hds k v).T_bystander' hT hno (by rw [Own_addNew]; exact hno) (SeenLe.refl a)
  intro k2 e _ h2
  rw [dirtyMap_addNew_of_isSome hds, alookup_ainsert]
  have hne : k2 ≠ k := by
    intro h; subst h
    rw [hdk] at h2; cases h2
  simp [hne, h2]

/-- (4.ii) -/
theorem GS_addNew {sh : Shared K V} {U : List (K × EId)} (g : GS sh U) (hds : sh.dirty.isSome = true)
    (ha : sh.amended = true) {k : K} (hrk : alookup k sh.readM = none) (hdk : alookup k (dirtyMap sh) = none)
    (v : V) : GS (addNew sh k v) U := by
  have hdm : dirtyMap (addNew sh k v) = ainsert k sh.entries.length (dirtyMap sh) :=
    dirtyMap_addNew_of_isSome hds k v
  have hds' : (addNew sh k v).dirty.isSome = true := by rw [addNew_dirty_isSome]; exact hds
  refine
    { keysR := by rw [addNew_readM]; exact g.keysR
      valsR := by rw [addNew_readM]; exact g.valsR
      keysD := by rw [hdm]; exact nodup_ainsert g.keysD
      valsD := by rw [hdm]; exact nodup_vals_ainsert_of_none hdk g.length_not_mem_vals_dirty g.valsD
      boundR := ?_
      boundD := ?_
      s1 := ?_
      nofault := by rw [addNew_fault_of_isSome hds]; exact g.nofault
      readDirty := ?_
      dirtySub := ?_
      dirtyLive := ?_ }
  · intro p hp
    rw [addNew_readM] at hp
    rw [addNew_entries_length]
    exact Nat.lt_succ_of_lt (g.boundR p hp)
  · intro p hp
    rw [hdm, mem_ainsert_of_none hdk] at hp
    rw [addNew_entries_length]
    rcases hp with h | h
    · exact Nat.lt_succ_of_lt (g.boundD p h)
    · subst h; exact Nat.lt_succ_self _
  · intro h
    rw [h] at hds'
    cases hds'
  · intro p hp hpU
    rw [addNew_readM] at hp
    have hlt := g.boundR p hp
    rw [getP_addNew_of_lt hlt, hds', hdm]
    have hpr : alookup p.1 sh.readM = some p.2 := alookup_of_mem' g.keysR hp
    have hne1 : p.1 ≠ k := by
      intro h; rw [h, hrk] at hpr; cases hpr
    have hne2 : p.2 ≠ sh.entries.length := Nat.ne_of_lt hlt
    have := g.readDirty p hp hpU
    cases hx : (getP sh p.2).isExpunged with
    | true =>
      simp only [hx, if_true] at this ⊢
      refine ⟨trivial, ?_, ?_⟩
      · rw [alookup_ainsert]; simp [hne1, this.2.1]
      · rw [mem_vals_ainsert_of_none hdk]
        intro h
        rcases h with h | h
        · exact this.2.2 h
        · exact hne2 h
    | false =>
      simp only [hx] at this ⊢
      simp only [Bool.false_eq_true, if_false] at this ⊢
      intro _
      have h1 := this hds
      rw [alookup_ainsert]
      simp [hne1, h1]
  · intro h
    rw [addNew_amended, ha] at h
    cases h
  · intro p hp hn
    rw [hdm, mem_ainsert_of_none hdk] at hp
    rw [addNew_readM] at hn
    rcases hp with h | h
    · rw [getP_addNew_of_lt (g.boundD p h)]
      exact g.dirtyLive p h hn
    · subst h
      rw [getP_addNew_new]
      rfl

/-- (4.iii) -/
theorem absOf_addNew {sh : Shared K V} {U : List (K × EId)} (g : GS sh U) (hds : sh.dirty.isSome = true)
    (ha : sh.amended = true) {k : K} (hrk : alookup k sh.readM = none) (v : V) (k2 : K) :
    absOf (addNew sh k v) k2 = if k2 = k then some v else absOf sh k2 := by
  unfold absOf
  rw [addNew_readM, addNew_amended, dirtyMap_addNew_of_isSome hds, alookup_ainsert, ha]
  by_cases h : k2 = k
  · subst h
    simp [hrk]
  · simp only [h, if_false]
    cases hr : alookup k2 sh.readM with
    | some e => simp only; rw [getP_addNew_of_lt (g.read_lt_length hr)]
    | none =>
      simp only [if_true]
      cases hd : alookup k2 (dirtyMap sh) with
      | none => rfl
      | some e => simp only [Option.bind_some]; rw [getP_addNew_of_lt (g.dirty_lt_length hd)]

theorem addNew_fault_false {sh : Shared K V} {U : List (K × EId)} (g : GS sh U) (hds : sh.dirty.isSome = true) (k : K) (v : V) :
    (addNew sh k v).fault = false := by
  rw [addNew_fault_of_isSome hds]; exact g.nofault

/-- (4.i) all bystanders -/
theorem bystanders_addNew {s : State K V} {apcs : Nat → APc K V} (hT : ∀ u, T s.sh u (s.pc u) (apcs u))
    {t : Tid} (ho : Own s.sh t) (hds : s.sh.dirty.isSome = true) {k : K} (hdk : alookup k (dirtyMap s.sh) = none)
    (v : V) : ∀ u, u ≠ t → T (addNew s.sh k v) u (s.pc u) (apcs u) :=
  bystanders_of_own ho (fun u hno => T_addNew hds hdk v (hT u) hno)

/-! ### `finishNew`, form 1: `amended` is already true (`newTail` from `storeRead2` / `losRead2`) -/

theorem finishNew_fst (sh : Shared K V) (c : NewCtx) (k : K) (v : V) : (finishNew sh c k v).1 = unlock (addNew sh k v) :=
  rfl
theorem finishNew_snd (sh : Shared K V) (c : NewCtx) (k : K) (v : V) : (finishNew sh c k v).2 = .ret (newRes c v) := rfl

theorem T_finishNew {sh : Shared K V} (hds : sh.dirty.isSome = true) {k : K} (hdk : alookup k (dirtyMap sh) = none)
    (c : NewCtx) (v : V) {u : Tid} {pc : Pc K V} {a : APc K V} (hT : T sh u pc a) (hno : ¬ Own sh u) :
    T (finishNew sh c k v).1 u pc a := by
  rw [finishNew_fst]
  exact T_unlock_of (T_addNew hds hdk v hT hno) (by rw [Own_addNew]; exact hno)

theorem GS_finishNew {sh : Shared K V} {U : List (K × EId)} (g : GS sh U) (hds : sh.dirty.isSome = true)
    (ha : sh.amended = true) {k : K} (hrk : alookup k sh.readM = none) (hdk : alookup k (dirtyMap sh) = none)
    (c : NewCtx) (v : V) : GS (finishNew sh c k v).1 U := by
  rw [finishNew_fst, GS_unlock_iff]
  exact GS_addNew g hds ha hrk hdk v

theorem absOf_finishNew {sh : Shared K V} {U : List (K × EId)} (g : GS sh U) (hds : sh.dirty.isSome = true)
    (ha : sh.amended = true) {k : K} (hrk : alookup k sh.readM = none) (c : NewCtx) (v : V) (k2 : K) :
    absOf (finishNew sh c k v).1 k2 = if k2 = k then some v else absOf sh k2 := by
  rw [finishNew_fst, absOf_unlock]
  exact absOf_addNew g hds ha hrk v k2

/-- the abstraction after `finishNew` is `put` -/
theorem absOf_finishNew_put {sh : Shared K V} {U : List (K × EId)} (g : GS sh U) (hds : sh.dirty.isSome = true)
    (ha : sh.amended = true) {k : K} (hrk : alookup k sh.readM = none) (c : NewCtx) (v : V) :
    absOf (finishNew sh c k v).1 = put (absOf sh) k v := by
  funext k2
  rw [absOf_finishNew g hds ha hrk c v k2]
  rfl

theorem bystanders_finishNew {s : State K V} {apcs : Nat → APc K V} (hT : ∀ u, T s.sh u (s.pc u) (apcs u))
    {t : Tid} (ho : Own s.sh t) (hds : s.sh.dirty.isSome = true) {k : K} (hdk : alookup k (dirtyMap s.sh) = none)
    (c : NewCtx) (v : V) : ∀ u, u ≠ t → T (finishNew s.sh c k v).1 u (s.pc u) (apcs u) :=
  bystanders_of_own ho (fun u hno => T_finishNew hds hdk c v (hT u) hno)

/-! ### `finishNew`, form 2: `readStore` sets `amended` first (`sh.amended = false`, nobody inside the loop) -/

theorem T_finishNew_readStore {sh : Shared K V} {U : List (K × EId)} (g : GS sh U) (hds : sh.dirty.isSome = true)
    (ha : sh.amended = false) {k : K} (hrk : alookup k sh.readM = none) (c : NewCtx) (v : V) {u : Tid} {pc : Pc K V}
    {a : APc K V} (hT : T sh u pc a) (hno : ¬ Own sh u) :
    T (finishNew { sh with readM := sh.readM, amended := true } c k v).1 u pc a := by
  rw [readStore_update_eq]
  exact T_finishNew (sh := setAmended sh) hds (g.dirty_none_of_not_amended ha hrk) c v (T_setAmended hT hno) hno

theorem GS_finishNew_readStore {sh : Shared K V} {U : List (K × EId)} (g : GS sh U) (hds : sh.dirty.isSome = true)
    (ha : sh.amended = false) {k : K} (hrk : alookup k sh.readM = none) (c : NewCtx) (v : V) :
    GS (finishNew { sh with readM := sh.readM, amended := true } c k v).1 U := by
  rw [readStore_update_eq]
  exact GS_finishNew (sh := setAmended sh) (GS_setAmended g hds) hds rfl hrk (g.dirty_none_of_not_amended ha hrk) c v

theorem absOf_finishNew_readStore {sh : Shared K V} {U : List (K × EId)} (g : GS sh U)
    (hds : sh.dirty.isSome = true) (ha : sh.amended = false) {k : K} (hrk : alookup k sh.readM = none) (c : NewCtx)
    (v : V) (k2 : K) :
    absOf (finishNew { sh with readM := sh.readM, amended := true } c k v).1 k2 =
      if k2 = k then some v else absOf sh k2 := by
  rw [readStore_update_eq, absOf_finishNew (sh := setAmended sh) (GS_setAmended g hds) hds rfl hrk c v k2,
    absOf_setAmended g ha]

theorem absOf_finishNew_readStore_put {sh : Shared K V} {U : List (K × EId)} (g : GS sh U)
    (hds : sh.dirty.isSome = true) (ha : sh.amended = false) {k : K} (hrk : alookup k sh.readM = none) (c : NewCtx)
    (v : V) : absOf (finishNew { sh with readM := sh.readM, amended := true } c k v).1 = put (absOf sh) k v := by
  funext k2
  rw [absOf_finishNew_readStore g hds ha hrk c v k2]
  rfl

theorem finishNew_readStore_fault {sh : Shared K V} {U : List (K × EId)} (g : GS sh U) (hds : sh.dirty.isSome = true)
    (c : NewCtx) (k : K) (v : V) : (finishNew { sh with readM := sh.readM, amended := true } c k v).1.fault = false := by
  rw [finishNew_fst, unlock_fault]
  exact addNew_fault_false (sh := setAmended sh) (GS_setAmended g hds) hds k v

theorem bystanders_finishNew_readStore {s : State K V} {apcs : Nat → APc K V} {U : List (K × EId)} (g : GS s.sh U)
    (hT : ∀ u, T s.sh u (s.pc u) (apcs u)) {t : Tid} (ho : Own s.sh t) (hds : s.sh.dirty.isSome = true)
    (ha : s.sh.amended = false) {k : K} (hrk : alookup k s.sh.readM = none) (c : NewCtx) (v : V) :
    ∀ u, u ≠ t → T (finishNew { s.sh with readM := s.sh.readM, amended := true } c k v).1 u (s.pc u) (apcs u) :=
  bystanders_of_own ho (fun u hno => T_finishNew_readStore g hds ha hrk c v (hT u) hno)


/-! ## 5. `delDirty` (the unlink of the slow path of LoadAndDelete / Delete)

Hypotheses: `GS sh []` (nobody is inside the `dirtyLocked` loop: `unprocessed_eq_nil_of_amended`), `read.m` lacks `k`.
`amended = true` is only needed for the `absOf` equations. -/

theorem keepRead_delDirty (sh : Shared K V) (k : K) : KeepRead sh (delDirty sh k) where
  readM := rfl
  len := Nat.le_refl _
  ptr := fun _ _ => rfl
  out := by
    intro e _ _ hd hm
    rw [dirtyMap_delDirty] at hm
    exact hd (mem_vals_of_mem_vals_aerase hm)

/-- (5) what is known about the unlinked entry -/
theorem unlink_entry_facts {sh : Shared K V} (g : GS sh []) (ha : sh.amended = true) {k : K}
    (hrk : alookup k sh.readM = none) {e : EId} (hd : alookup k (dirtyMap sh) = some e) :
    e < sh.entries.length ∧ e ∉ vals sh.readM ∧ e ∉ vals (dirtyMap (delDirty sh k)) ∧ isVal (getP sh e) = true ∧
      absOf sh k = (getP sh e).value? := by
  refine ⟨g.dirty_lt_length hd, g.dirty_only_not_in_read hrk hd, ?_, g.dirty_only_isVal hrk hd,
    absOf_of_dirty hrk ha hd⟩
  rw [dirtyMap_delDirty]
  exact not_mem_vals_aerase_of_alookup g.valsD hd

/-- (5) the unlinked entry is an orphan afterwards -/
theorem unlink_orphan {sh : Shared K V} (g : GS sh []) {k : K} (hrk : alookup k sh.readM = none) {e : EId}
    (hd : alookup k (dirtyMap sh) = some e) : Orphan (delDirty sh k) e := by
  refine ⟨?_, g.dirty_only_not_in_read hrk hd, ?_⟩
  · rw [getP_delDirty]; exact not_isExpunged_of_isVal (g.dirty_only_isVal hrk hd)
  · rw [dirtyMap_delDirty]; exact not_mem_vals_aerase_of_alookup g.valsD hd

theorem absOf_of_unlink_none {sh : Shared K V} {k : K} (hrk : alookup k sh.readM = none)
    (hd : alookup k (dirtyMap sh) = none) : absOf sh k = none :=
  absOf_of_none_none hrk hd

/-- (5.i) per goroutine, general form: `a'` is any abstract pc whose `seen` extends that of `a` and which, if it is
a pending `Load k` holding `dirty[k]`, has seen "absent".  Such a goroutine holds an orphan afterwards: it has seen the
old value (`hobs`, `habs`). -/
theorem T_unlink_gen {sh : Shared K V} (g : GS sh []) (ha : sh.amended = true) {k : K}
    (hrk : alookup k sh.readM = none) {obj : K → Option V} (habs : obj k = absOf sh k) {u : Tid} {pc : Pc K V}
    {a a' : APc K V} (hT : T sh u pc a) (hno : ¬ Own sh u) (hobs : ObsPc obj a) (hs : SeenLe a a')
    (hnone : ∀ e, Pend a (.load k) → alookup k (dirtyMap sh) = some e → Res.val none ∈ seenOf a') :
    T (delDirty sh k) u pc a' := by
  apply (keepRead_delDirty sh k).T_bystander hT hno hno hs
  intro k2 e hp hl h1 h2
  by_cases hk : k2 = k
  · subst hk
    refine ⟨hl, Or.inr (Or.inr ⟨unlink_orphan g hrk h2, hnone e hp h2, ?_⟩)⟩
    rw [getP_delDirty]
    have hseen : Res.val (obj k2) ∈ seenOf a := hobs.load_seen hp
    rw [habs, absOf_of_dirty hrk ha h2] at hseen
    cases hv : (getP sh e).value? with
    | none => trivial
    | some v =>
      rw [hv] at hseen
      exact hs.mem_seenOf hseen
  · refine ⟨hl, Or.inl (Or.inr ⟨h1, ?_⟩)⟩
    rw [dirtyMap_delDirty, alookup_aerase_ne hk]
    exact h2

/-- (5.i) per goroutine.  `obj` is the abstract map before the step; the bystander's abstract pc has observed the map
after the deletion (as `witness` does when the step is the linearization step, i.e. `dirty[k]` exists). -/
theorem T_unlink {sh : Shared K V} (g : GS sh []) (ha : sh.amended = true) {k : K}
    (hrk : alookup k sh.readM = none) {obj : K → Option V} (habs : obj k = absOf sh k) {u : Tid} {pc : Pc K V}
    {a : APc K V} (hT : T sh u pc a) (hno : ¬ Own sh u) (hobs : ObsPc obj a) :
    T (delDirty sh k) u pc (observePc (del obj k) a) := by
  apply T_unlink_gen g ha hrk habs hT hno hobs (SeenLe_observePc _ a)
  intro e hp _
  apply mem_seenOf_observePc hp
  show some (Res.val (del obj k k)) = _
  rw [del_same]

/-- (5.i) the dirty map lacks `k` too (`delete(m.dirty, k)` does nothing; not a linearization step): any `a'` with a
larger `seen` will do, no `Obs` needed -/
theorem T_unlink_none {sh : Shared K V} {k : K} (hd : alookup k (dirtyMap sh) = none) {u : Tid} {pc : Pc K V}
    {a a' : APc K V} (hT : T sh u pc a) (hno : ¬ Own sh u) (hs : SeenLe a a') : T (delDirty sh k) u pc a' := by
  apply (keepRead_delDirty sh k).T_bystander' hT hno hno hs
  intro k2 e _ h2
  have hk : k2 ≠ k := by
    intro h; subst h; rw [hd] at h2; cases h2
  rw [dirtyMap_delDirty, alookup_aerase_ne hk]
  exact h2

/-- (5.i) the same with the abstraction equation for all keys -/
theorem T_unlink' {sh : Shared K V} (g : GS sh []) (ha : sh.amended = true) {k : K}
    (hrk : alookup k sh.readM = none) {obj : K → Option V} (habs : ∀ k, obj k = absOf sh k) {u : Tid} {pc : Pc K V}
    {a : APc K V} (hT : T sh u pc a) (hno : ¬ Own sh u) (hobs : ObsPc obj a) :
    T (delDirty sh k) u pc (observePc (del obj k) a) :=
  T_unlink g ha hrk (habs k) hT hno hobs

/-- (5.ii) -/
theorem GS_unlink {sh : Shared K V} (g : GS sh []) {k : K} (hrk : alookup k sh.readM = none) :
    GS (delDirty sh k) [] := by
  have hdm : dirtyMap (delDirty sh k) = aerase k (dirtyMap sh) := dirtyMap_delDirty sh k
  refine
    { keysR := g.keysR
      valsR := g.valsR
      keysD := by rw [hdm]; exact nodup_aerase g.keysD
      valsD := by rw [hdm]; exact nodup_vals_aerase g.valsD
      boundR := g.boundR
      boundD := ?_
      s1 := ?_
      nofault := g.nofault
      readDirty := ?_
      dirtySub := ?_
      dirtyLive := ?_ }
  · intro p hp
    rw [hdm] at hp
    exact g.boundD p (mem_of_mem_aerase hp)
  · intro h
    rw [delDirty_dirty] at h
    apply g.s1
    cases hd : sh.dirty with
    | none => rfl
    | some d => rw [hd] at h; cases h
  · intro p hp hpU
    have hp' : p ∈ sh.readM := hp
    rw [getP_delDirty, delDirty_dirty_isSome, hdm]
    have hpr : alookup p.1 sh.readM = some p.2 := alookup_of_mem' g.keysR hp'
    have hne1 : p.1 ≠ k := by
      intro h; rw [h, hrk] at hpr; cases hpr
    have := g.readDirty p hp' hpU
    cases hx : (getP sh p.2).isExpunged with
    | true =>
      simp only [hx, if_true] at this ⊢
      refine ⟨this.1, ?_, ?_⟩
      · rw [alookup_aerase_ne hne1]; exact this.2.1
      · exact fun h => this.2.2 (mem_vals_of_mem_vals_aerase h)
    | false =>
      simp only [hx] at this ⊢
      simp only [Bool.false_eq_true, if_false] at this ⊢
      intro h
      rw [alookup_aerase_ne hne1]
      exact this h
  · intro h p hp
    rw [hdm] at hp
    exact g.dirtySub h p (mem_of_mem_aerase hp)
  · intro p hp hn
    rw [hdm] at hp
    rw [getP_delDirty]
    exact g.dirtyLive p (mem_of_mem_aerase hp) hn

/-- (5.iii) -/
theorem absOf_unlink {sh : Shared K V} {k : K} (hrk : alookup k sh.readM = none) (k2 : K) :
    absOf (delDirty sh k) k2 = if k2 = k then none else absOf sh k2 := by
  unfold absOf
  rw [delDirty_readM, delDirty_amended, dirtyMap_delDirty]
  by_cases h : k2 = k
  · subst h
    simp [hrk]
  · simp only [h, if_false, alookup_aerase_ne h, getP_delDirty]

theorem absOf_unlink_del {sh : Shared K V} {k : K} (hrk : alookup k sh.readM = none) :
    absOf (delDirty sh k) = del (absOf sh) k := by
  funext k2
  rw [absOf_unlink hrk k2]
  rfl

/-- (5.i) all bystanders -/
theorem bystanders_unlink {s : State K V} {a : AState K V} (g : GS s.sh []) (hT : ∀ u, T s.sh u (s.pc u) (a.pcs u))
    (hObs : Obs a.obj a.pcs) (habs : ∀ k, a.obj k = absOf s.sh k) {t : Tid} (ho : Own s.sh t)
    (ha : s.sh.amended = true) {k : K} (hrk : alookup k s.sh.readM = none) :
    ∀ u, u ≠ t → T (delDirty s.sh k) u (s.pc u) (observePc (del a.obj k) (a.pcs u)) :=
  bystanders_of_own (apcs' := fun u => observePc (del a.obj k) (a.pcs u)) ho
    (fun u hno => T_unlink g ha hrk (habs k) (hT u) hno (hObs.obsPc u))

/-! the unlink step continues with `missStep` and possibly `unlock` -/

theorem T_unlink_missStep {sh : Shared K V} (g : GS sh []) (ha : sh.amended = true) {k : K}
    (hrk : alookup k sh.readM = none) {obj : K → Option V} (habs : obj k = absOf sh k) {u : Tid} {pc : Pc K V}
    {a : APc K V} (hT : T sh u pc a) (hno : ¬ Own sh u) (hobs : ObsPc obj a) :
    T (missStep (delDirty sh k)).1 u pc (observePc (del obj k) a) :=
  (T_missStep_iff _ _ _ _).mpr (T_unlink g ha hrk habs hT hno hobs)

theorem T_unlink_missStep_unlock {sh : Shared K V} (g : GS sh []) (ha : sh.amended = true) {k : K}
    (hrk : alookup k sh.readM = none) {obj : K → Option V} (habs : obj k = absOf sh k) {u : Tid} {pc : Pc K V}
    {a : APc K V} (hT : T sh u pc a) (hno : ¬ Own sh u) (hobs : ObsPc obj a) :
    T (unlock (missStep (delDirty sh k)).1) u pc (observePc (del obj k) a) :=
  (T_unlock_missStep_iff (sh := delDirty sh k) hno _ _).mpr (T_unlink g ha hrk habs hT hno hobs)

theorem GS_unlink_missStep {sh : Shared K V} (g : GS sh []) {k : K} (hrk : alookup k sh.readM = none) :
    GS (missStep (delDirty sh k)).1 [] :=
  (GS_missStep_iff _ _).mpr (GS_unlink g hrk)

theorem GS_unlink_missStep_unlock {sh : Shared K V} (g : GS sh []) {k : K} (hrk : alookup k sh.readM = none) :
    GS (unlock (missStep (delDirty sh k)).1) [] :=
  (GS_unlock_missStep_iff _ _).mpr (GS_unlink g hrk)

/-! ## 6. `promote` (missLocked, and the inline form of `Range`)

Hypotheses: `GS sh []` (nobody is inside the `dirtyLocked` loop), a dirty map exists.  (`amended = true`, which
`Promoting` provides, is not needed.) -/

/-- the inline promotion of `Range.readStore1` (`T` says `dm = dirtyMap sh`) -/
theorem rangeStore_update_eq {sh : Shared K V} {dm : List (K × EId)} (h : dm = dirtyMap sh) :
    { sh with readM := dm, amended := false, dirty := none, misses := 0 } = promote sh := by
  subst h; rfl

theorem promote_dead {sh : Shared K V} {e : EId} (h : Dead sh e) : Dead (promote sh) e :=
  ⟨h.1, h.2.2, by simp⟩

theorem promote_orphan {sh : Shared K V} {e : EId} (h : Orphan sh e) : Orphan (promote sh) e :=
  ⟨h.1, h.2.2, by simp⟩

/-- an entry of `read.m` after promotion: still there (live) or dead (expunged, and then the key is absent) -/
theorem promote_read_cases {sh : Shared K V} (g : GS sh []) (hds : sh.dirty.isSome = true) {k : K} {e : EId}
    (hr : alookup k sh.readM = some e) :
    alookup k (promote sh).readM = some e ∨ (Dead (promote sh) e ∧ absOf sh k = none) := by
  cases hx : (getP sh e).isExpunged with
  | false => exact Or.inl (g.read_live_in_dirtyM hr (by simp) hx hds)
  | true =>
    refine Or.inr ⟨⟨hx, (g.read_expunged_not_in_dirtyM hr (by simp) hx).2.2, by simp⟩, ?_⟩
    rw [absOf_of_read hr]
    exact value?_none_of_isExpunged hx

/-- (6.i) per goroutine, for any `a'` whose `seen` is at least that of `a` -/
theorem T_promote {sh : Shared K V} (g : GS sh []) (hds : sh.dirty.isSome = true) {obj : K → Option V}
    (habs : ∀ k, obj k = absOf sh k) {u : Tid} {pc : Pc K V} {a a' : APc K V} (hT : T sh u pc a) (hno : ¬ Own sh u)
    (hobs : ObsPc obj a) (hs : SeenLe a a') : T (promote sh) u pc a' := by
  apply T_bystander (sh' := promote sh) hT hno (by rw [Own_promote]; exact hno) hs (fun _ _ => rfl)
  · -- HoldRead
    intro k e hr
    refine ⟨hr.1, ?_⟩
    rcases hr.2 with h1 | h1
    · rcases promote_read_cases g hds h1 with h2 | ⟨h2, _⟩
      · exact Or.inl h2
      · exact Or.inr h2
    · exact Or.inr (promote_dead h1)
  · -- HoldLoad
    intro k e hp hr
    refine ⟨hr.1, ?_⟩
    rcases hr.2 with h1 | ⟨h1, h2⟩ | ⟨h1, h2, h3⟩
    · rcases h1 with h1 | ⟨h1, h2⟩
      · rcases promote_read_cases g hds h1 with h2 | ⟨h2, h3⟩
        · exact Or.inl (Or.inl h2)
        · refine Or.inr (Or.inl ⟨h2, hs.mem_seenOf ?_⟩)
          have := hobs.load_seen hp
          rw [habs, h3] at this
          exact this
      · exact Or.inl (Or.inl h2)
    · exact Or.inr (Or.inl ⟨promote_dead h1, hs.mem_seenOf h2⟩)
    · refine Or.inr (Or.inr ⟨promote_orphan h1, hs.mem_seenOf h2, ?_⟩)
      rw [getP_promote]
      cases hv : (getP sh e).value? with
      | none => trivial
      | some v => rw [hv] at h3; exact hs.mem_seenOf h3
  · -- HoldDel
    intro d k e hp hr
    refine ⟨hr.1, ?_⟩
    rcases hr.2 with h1 | ⟨h1, h2⟩
    · rcases promote_read_cases g hds h1 with h2 | ⟨h2, h3⟩
      · exact Or.inl h2
      · exact Or.inr ⟨h2, hs.mem_seenOf (hobs.lad_seen hp (by rw [habs, h3]))⟩
    · exact Or.inr ⟨promote_dead h1, hs.mem_seenOf h2⟩
  · -- Unlinker
    intro d k e hr
    rw [Unlinker_iff] at hr ⊢
    obtain ⟨h1, h2, h3, v, hv, hdw⟩ := hr
    exact ⟨h1, h3, by simp, v, hv, hs.doneWith hdw⟩

/-- (6.ii) -/
theorem GS_promote {sh : Shared K V} (g : GS sh []) : GS (promote sh) [] where
  keysR := g.keysD
  valsR := g.valsD
  keysD := by simp
  valsD := by simp
  boundR := g.boundD
  boundD := by simp
  s1 := fun _ => rfl
  nofault := g.nofault
  readDirty := by
    intro p hp _
    have hp' : p ∈ dirtyMap sh := hp
    have hx : (getP sh p.2).isExpunged = false := g.dirty_not_expunged (alookup_of_mem' g.keysD hp')
    rw [getP_promote, hx]
    simp
  dirtySub := by intro _ p hp; simp at hp
  dirtyLive := by intro p hp; simp at hp

/-- (6.iii) -/
theorem absOf_promote {sh : Shared K V} (g : GS sh []) (hds : sh.dirty.isSome = true) (k : K) :
    absOf (promote sh) k = absOf sh k := by
  have hL : absOf (promote sh) k = (alookup k (dirtyMap sh)).bind (fun e => (getP sh e).value?) := by
    unfold absOf
    rw [promote_readM, promote_amended]
    cases alookup k (dirtyMap sh) with
    | none => rfl
    | some e => rfl
  rw [hL]
  cases hr : alookup k sh.readM with
  | some e =>
    rw [absOf_of_read hr]
    cases hx : (getP sh e).isExpunged with
    | false => rw [g.read_live_in_dirtyM hr (by simp) hx hds]; rfl
    | true =>
      rw [(g.read_expunged_not_in_dirtyM hr (by simp) hx).2.1, value?_none_of_isExpunged hx]; rfl
  | none =>
    rw [absOf_of_read_none hr]
    cases ha : sh.amended with
    | true => rfl
    | false => rw [g.dirty_none_of_not_amended ha hr]; rfl

/-- (6.i) all bystanders -/
theorem bystanders_promote {s : State K V} {a : AState K V} (g : GS s.sh []) (hT : ∀ u, T s.sh u (s.pc u) (a.pcs u))
    (hObs : Obs a.obj a.pcs) (habs : ∀ k, a.obj k = absOf s.sh k) {t : Tid} (ho : Own s.sh t)
    (hds : s.sh.dirty.isSome = true) {apcs' : Nat → APc K V} (hs : ∀ u, SeenLe (a.pcs u) (apcs' u)) :
    ∀ u, u ≠ t → T (promote s.sh) u (s.pc u) (apcs' u) :=
  bystanders_of_own ho (fun u hno => T_promote g hds habs (hT u) hno (hObs.obsPc u) (hs u))

/-- (6.i) all bystanders, with the abstract pcs as `witness` leaves them after a promotion step -/
theorem bystanders_promote_observe {s : State K V} {a : AState K V} (g : GS s.sh [])
    (hT : ∀ u, T s.sh u (s.pc u) (a.pcs u)) (hObs : Obs a.obj a.pcs) (habs : ∀ k, a.obj k = absOf s.sh k) {t : Tid}
    (ho : Own s.sh t) (hds : s.sh.dirty.isSome = true) (obj' : K → Option V) :
    ∀ u, u ≠ t → T (promote s.sh) u (s.pc u) (observePc obj' (a.pcs u)) :=
  bystanders_promote (apcs' := fun u => observePc obj' (a.pcs u)) g hT hObs habs ho hds
    (fun u => SeenLe_observePc obj' (a.pcs u))

/-! promotion is followed by `unlock` in every caller -/

theorem T_promote_unlock {sh : Shared K V} (g : GS sh []) (hds : sh.dirty.isSome = true) {obj : K → Option V}
    (habs : ∀ k, obj k = absOf sh k) {u : Tid} {pc : Pc K V} {a a' : APc K V} (hT : T sh u pc a) (hno : ¬ Own sh u)
    (hobs : ObsPc obj a) (hs : SeenLe a a') : T (unlock (promote sh)) u pc a' :=
  T_unlock_of (T_promote g hds habs hT hno hobs hs) (by rw [Own_promote]; exact hno)

theorem GS_promote_unlock {sh : Shared K V} (g : GS sh []) : GS (unlock (promote sh)) [] :=
  (GS_unlock_iff _ _).mpr (GS_promote g)

theorem absOf_promote_unlock {sh : Shared K V} (g : GS sh []) (hds : sh.dirty.isSome = true) (k : K) :
    absOf (unlock (promote sh)) k = absOf sh k := by
  rw [absOf_unlock]; exact absOf_promote g hds k

theorem bystanders_promote_unlock {s : State K V} {a : AState K V} (g : GS s.sh [])
    (hT : ∀ u, T s.sh u (s.pc u) (a.pcs u)) (hObs : Obs a.obj a.pcs) (habs : ∀ k, a.obj k = absOf s.sh k) {t : Tid}
    (ho : Own s.sh t) (hds : s.sh.dirty.isSome = true) {apcs' : Nat → APc K V}
    (hs : ∀ u, SeenLe (a.pcs u) (apcs' u)) :
    ∀ u, u ≠ t → T (unlock (promote s.sh)) u (s.pc u) (apcs' u) :=
  bystanders_of_own ho (fun u hno => T_promote_unlock g hds habs (hT u) hno (hObs.obsPc u) (hs u))

/-! the `rangeStore dm` form -/

theorem T_rangeStore {sh : Shared K V} (g : GS sh []) (hds : sh.dirty.isSome = true) {dm : List (K × EId)}
    (hdm : dm = dirtyMap sh) {obj : K → Option V} (habs : ∀ k, obj k = absOf sh k) {u : Tid} {pc : Pc K V}
    {a a' : APc K V} (hT : T sh u pc a) (hno : ¬ Own sh u) (hobs : ObsPc obj a) (hs : SeenLe a a') :
    T { sh with readM := dm, amended := false, dirty := none, misses := 0 } u pc a' := by
  rw [rangeStore_update_eq hdm]; exact T_promote g hds habs hT hno hobs hs

theorem T_rangeStore_unlock {sh : Shared K V} (g : GS sh []) (hds : sh.dirty.isSome = true) {dm : List (K × EId)}
    (hdm : dm = dirtyMap sh) {obj : K → Option V} (habs : ∀ k, obj k = absOf sh k) {u : Tid} {pc : Pc K V}
    {a a' : APc K V} (hT : T sh u pc a) (hno : ¬ Own sh u) (hobs : ObsPc obj a) (hs : SeenLe a a') :
    T (unlock { sh with readM := dm, amended := false, dirty := none, misses := 0 }) u pc a' := by
  rw [rangeStore_update_eq hdm]; exact T_promote_unlock g hds habs hT hno hobs hs

theorem GS_rangeStore {sh : Shared K V} (g : GS sh []) {dm : List (K × EId)} (hdm : dm = dirtyMap sh) :
    GS { sh with readM := dm, amended := false, dirty := none, misses := 0 } [] := by
  rw [rangeStore_update_eq hdm]; exact GS_promote g

theorem GS_rangeStore_unlock {sh : Shared K V} (g : GS sh []) {dm : List (K × EId)} (hdm : dm = dirtyMap sh) :
    GS (unlock { sh with readM := dm, amended := false, dirty := none, misses := 0 }) [] := by
  rw [rangeStore_update_eq hdm]; exact GS_promote_unlock g

theorem absOf_rangeStore {sh : Shared K V} (g : GS sh []) (hds : sh.dirty.isSome = true) {dm : List (K × EId)}
    (hdm : dm = dirtyMap sh) (k : K) :
    absOf { sh with readM := dm, amended := false, dirty := none, misses := 0 } k = absOf sh k := by
  rw [rangeStore_update_eq hdm]; exact absOf_promote g hds k

theorem absOf_rangeStore_unlock {sh : Shared K V} (g : GS sh []) (hds : sh.dirty.isSome = true)
    {dm : List (K × EId)} (hdm : dm = dirtyMap sh) (k : K) :
    absOf (unlock { sh with readM := dm, amended := false, dirty := none, misses := 0 }) k = absOf sh k := by
  rw [rangeStore_update_eq hdm]; exact absOf_promote_unlock g hds k

theorem bystanders_rangeStore_unlock {s : State K V} {a : AState K V} (g : GS s.sh [])
    (hT : ∀ u, T s.sh u (s.pc u) (a.pcs u)) (hObs : Obs a.obj a.pcs) (habs : ∀ k, a.obj k = absOf s.sh k) {t : Tid}
    (ho : Own s.sh t) (hds : s.sh.dirty.isSome = true) {dm : List (K × EId)} (hdm : dm = dirtyMap s.sh)
    {apcs' : Nat → APc K V} (hs : ∀ u, SeenLe (a.pcs u) (apcs' u)) :
    ∀ u, u ≠ t →
      T (unlock { s.sh with readM := dm, amended := false, dirty := none, misses := 0 }) u (s.pc u) (apcs' u) := by
  rw [rangeStore_update_eq hdm]; exact bystanders_promote_unlock g hT hObs habs ho hds hs

end TypVerif.Lemmas.Smc
