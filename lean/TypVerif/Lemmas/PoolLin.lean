import TypVerif.Lemmas.AtomicObj
import TypVerif.Lemmas.PoolSource
/-
The wrapper-level Pool system refines the atomic bag object: every execution of `Pool.sys` is linearizable
to `Pool.bagSpec` (linearization points: the nil-`New` return, the `pool.Get` hit, the `New()` call, `pool.Put`).
-/
namespace TypVerif.Lemmas.Pool
open TypVerif TypVerif.Conc TypVerif.Model.Pool TypVerif.Model
open TypVerif.Model.AtomicObj (TPc Entry runThread advance histOf linsOf SeqRun Linearizable)

/-- abstraction of the wrapper's program counters to the protocol automaton of the atomic object -/
inductive Abs : TPc Op Res → Pc → Prop where
  | idle : Abs .idle .idle
  | g0 : Abs (.pending .get) .g0
  | g1 : Abs (.pending .get) .g1
  | g2 : Abs (.pending .get) .g2
  | gRet (x : Option Nat) : Abs (.done .get (.item (x.getD 0))) (.gRet x)
  | p0 (id : Nat) : Abs (.pending (.put id)) (.p0 id)
  | pRet (id : Nat) : Abs (.done (.put id) .done) .pRet

theorem bagApply_get_nonew (σ : Bag) : (σ, Res.item 0) ∈ bagApply false σ .get := by
  simp [bagApply]
theorem bagApply_get_hit (σ : Bag) (x : Nat) (hx : x ∈ σ.bag) :
    ((⟨σ.bag.erase x, σ.fresh⟩ : Bag), Res.item x) ∈ bagApply true σ .get := by
  simp only [bagApply, if_true, List.mem_append, List.mem_map]
  left; exact ⟨x, hx, rfl⟩
theorem bagApply_get_new (σ : Bag) :
    ((⟨σ.bag, σ.fresh + 1⟩ : Bag), Res.item σ.fresh) ∈ bagApply true σ .get := by
  simp only [bagApply, if_true, List.mem_append, List.mem_singleton]
  right; trivial
theorem bagApply_put (b : Bool) (σ : Bag) (id : Nat) :
    ((⟨id :: σ.bag, σ.fresh⟩ : Bag), Res.done) ∈ bagApply b σ (.put id) := by
  simp [bagApply]

structure Rel (hasNew : Bool) (s : State) (log : List (Entry Op Res)) : Prop where
  seq : SeqRun (bagSpec hasNew) (linsOf log) ⟨s.bag, s.fresh⟩
  thread : ∀ t, ∃ p, runThread t log = some p ∧ Abs p (s.thr t).pc

theorem rel_init (hasNew : Bool) (n : Nat) : Rel hasNew (init n) [] := by
  refine ⟨SeqRun.nil, ?_⟩
  intro t
  refine ⟨.idle, rfl, ?_⟩
  rw [thr_init]; exact Abs.idle

/-- how one log entry of goroutine `t` updates the per-thread part of `Rel` -/
theorem thread_cons {s : State} {log : List (Entry Op Res)} {t : Nat} (ht : t < s.thrs.length)
    (hthr : ∀ t, ∃ p, runThread t log = some p ∧ Abs p (s.thr t).pc)
    (e : Entry Op Res) (he : e.tid = t) (th' : Thr) (b : List Nat) (f : Nat) (m : List Nat)
    (hadv : ∀ p, Abs p (s.thr t).pc → ∃ p', advance p e = some p' ∧ Abs p' th'.pc) :
    ∀ t', ∃ p, runThread t' (e :: log) = some p ∧ Abs p (State.thr ⟨s.thrs.set t th', b, f, m⟩ t').pc := by
  intro t'
  obtain ⟨p, hp, ha⟩ := hthr t'
  rw [thr_mk _ _ _ _ ht]
  by_cases h : t' = t
  · subst h
    obtain ⟨p', hp', ha'⟩ := hadv p ha
    refine ⟨p', ?_, by simpa using ha'⟩
    rw [Lemmas.AtomicObj.runThread_cons_self _ _ _ _ hp he, hp']
  · have hne : e.tid ≠ t' := by rw [he]; exact fun x => h x.symm
    refine ⟨p, Lemmas.AtomicObj.runThread_cons_other _ _ _ _ hp hne, by simpa [h] using ha⟩

/-- a step that adds no log entry and keeps the abstract program counter -/
theorem thread_stutter {s : State} {log : List (Entry Op Res)} {t : Nat} (ht : t < s.thrs.length)
    (hthr : ∀ t, ∃ p, runThread t log = some p ∧ Abs p (s.thr t).pc)
    (th' : Thr) (b : List Nat) (f : Nat) (m : List Nat)
    (hadv : ∀ p, Abs p (s.thr t).pc → Abs p th'.pc) :
    ∀ t', ∃ p, runThread t' log = some p ∧ Abs p (State.thr ⟨s.thrs.set t th', b, f, m⟩ t').pc := by
  intro t'
  obtain ⟨p, hp, ha⟩ := hthr t'
  rw [thr_mk _ _ _ _ ht]
  by_cases h : t' = t
  · subst h; exact ⟨p, hp, by simpa using hadv p ha⟩
  · exact ⟨p, hp, by simpa [h] using ha⟩

theorem rel_step {hasNew : Bool} {menu : List Op} {n : Nat} {s s' : State} {l : Option Event}
    {log : List (Entry Op Res)}
    (hr : Reachable (sys hasNew menu n) s) (hrel : Rel hasNew s log) (hmem : (l, s') ∈ succ hasNew menu s) :
    ∃ log', Rel hasNew s' log' ∧
      histOf log' = histOf log ++ (match l with | some e => [e] | none => []) := by
  obtain ⟨t, ht, hshape⟩ := step_shape hmem
  have hN := newOk_reachable hasNew menu n s hr t
  obtain ⟨hseq, hthr⟩ := hrel
  cases hshape with
  | invGet hpc _ =>
    refine ⟨Entry.inv t .get :: log, ⟨hseq, thread_cons ht hthr _ rfl _ _ _ _ ?_⟩, Lemmas.AtomicObj.histOf_inv _ _ _⟩
    intro p hp; rw [hpc] at hp; cases hp
    exact ⟨_, rfl, Abs.g0⟩
  | invPut id hpc _ _ =>
    refine ⟨Entry.inv t (.put id) :: log, ⟨hseq, thread_cons ht hthr _ rfl _ _ _ _ ?_⟩,
      Lemmas.AtomicObj.histOf_inv _ _ _⟩
    intro p hp; rw [hpc] at hp; cases hp
    exact ⟨_, rfl, Abs.p0 id⟩
  | readNew hpc =>
    cases hasNew with
    | true =>
      refine ⟨log, ⟨hseq, thread_stutter ht hthr _ _ _ _ ?_⟩, by simp⟩
      intro p hp; rw [hpc] at hp; cases hp
      exact Abs.g1
    | false =>
      refine ⟨Entry.lin t .get (.item 0) :: log, ⟨?_, thread_cons ht hthr _ rfl _ _ _ _ ?_⟩,
        by simp [Lemmas.AtomicObj.histOf_lin]⟩
      · exact SeqRun.cons hseq (bagApply_get_nonew _)
      · intro p hp; rw [hpc] at hp; cases hp
        exact ⟨_, by simp [advance], Abs.gRet none⟩
  | poolHit x hpc hx =>
    rw [hpc] at hN; simp only at hN; subst hN
    refine ⟨Entry.lin t .get (.item x) :: log, ⟨?_, thread_cons ht hthr _ rfl _ _ _ _ ?_⟩,
      by simp [Lemmas.AtomicObj.histOf_lin]⟩
    · exact SeqRun.cons hseq (bagApply_get_hit ⟨s.bag, s.fresh⟩ x hx)
    · intro p hp; rw [hpc] at hp; cases hp
      exact ⟨_, by simp [advance], Abs.gRet (some x)⟩
  | poolMiss hpc =>
    refine ⟨log, ⟨hseq, thread_stutter ht hthr _ _ _ _ ?_⟩, by simp⟩
    intro p hp; rw [hpc] at hp; cases hp
    exact Abs.g2
  | callNew hpc =>
    rw [hpc] at hN; simp only at hN; subst hN
    refine ⟨Entry.lin t .get (.item s.fresh) :: log, ⟨?_, thread_cons ht hthr _ rfl _ _ _ _ ?_⟩,
      by simp [Lemmas.AtomicObj.histOf_lin]⟩
    · exact SeqRun.cons hseq (bagApply_get_new ⟨s.bag, s.fresh⟩)
    · intro p hp; rw [hpc] at hp; cases hp
      exact ⟨_, by simp [advance], Abs.gRet (some s.fresh)⟩
  | retGet x hpc =>
    refine ⟨Entry.res t (.item (x.getD 0)) :: log, ⟨hseq, thread_cons ht hthr _ rfl _ _ _ _ ?_⟩,
      Lemmas.AtomicObj.histOf_res _ _ _⟩
    intro p hp; rw [hpc] at hp; cases hp
    exact ⟨_, by simp [advance], Abs.idle⟩
  | poolPut id hpc =>
    refine ⟨Entry.lin t (.put id) .done :: log, ⟨?_, thread_cons ht hthr _ rfl _ _ _ _ ?_⟩,
      by simp [Lemmas.AtomicObj.histOf_lin]⟩
    · exact SeqRun.cons hseq (bagApply_put hasNew ⟨s.bag, s.fresh⟩ id)
    · intro p hp; rw [hpc] at hp; cases hp
      exact ⟨_, by simp [advance], Abs.pRet id⟩
  | retPut hpc =>
    refine ⟨Entry.res t .done :: log, ⟨hseq, thread_cons ht hthr _ rfl _ _ _ _ ?_⟩,
      Lemmas.AtomicObj.histOf_res _ _ _⟩
    intro p hp; rw [hpc] at hp; cases hp
    exact ⟨_, by simp [advance], Abs.idle⟩

theorem rel_exec {hasNew : Bool} {menu : List Op} {n : Nat} {ls : List (Option Event)}
    {s s' : (sys hasNew menu n).State} (he : Exec (sys hasNew menu n) s ls s') :
    ∀ log, Reachable (sys hasNew menu n) s → Rel hasNew s log →
      ∃ log', Rel hasNew s' log' ∧ histOf log' = histOf log ++ visible ls := by
  induction he with
  | nil s => intro log _ h; exact ⟨log, h, by simp [visible]⟩
  | @cons s s1 s2 l ls hmem _ ih =>
    intro log hr hrel
    obtain ⟨log1, h1, e1⟩ := rel_step hr hrel hmem
    obtain ⟨log2, h2, e2⟩ := ih log1 (Reachable.step hr hmem) h1
    refine ⟨log2, h2, ?_⟩
    rw [e2, e1]
    cases l <;> simp [visible]

/-- every execution of the wrapper-level Pool system is linearizable to the bag -/
theorem pool_linearizable (hasNew : Bool) (menu : List Op) (n : Nat) {ls : List (Option Event)}
    {s : (sys hasNew menu n).State} (he : Exec (sys hasNew menu n) (sys hasNew menu n).init ls s) :
    Linearizable (bagSpec hasNew) (visible ls) := by
  obtain ⟨log, hrel, hh⟩ := rel_exec he [] Reachable.init (rel_init hasNew n)
  have hh' : histOf log = visible ls := by simpa [histOf] using hh
  refine ⟨log, hh', ⟨_, hrel.seq⟩, ?_⟩
  intro t
  obtain ⟨p, hp, _⟩ := hrel.thread t
  show (runThread t log).isSome = true
  rw [hp]; rfl

end TypVerif.Lemmas.Pool
