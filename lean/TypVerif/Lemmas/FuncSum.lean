import TypVerif.Lemmas.FuncMisc
/-
Lemmas for C14, part 4: the group sizes sum to the length of the input.
-/
namespace TypVerif.Lemmas.Func
open TypVerif TypVerif.Model

variable {α κ : Type}

theorem nodup_dedup [DecidableEq α] : ∀ s : List α, (Spec.Func.dedup s).Nodup
  | [] => by simp [Spec.Func.dedup]
  | v :: rest => by
    rw [Spec.Func.dedup, List.nodup_cons]
    refine ⟨?_, (nodup_dedup rest).sublist List.filter_sublist⟩
    intro hm
    rw [List.mem_filter] at hm
    simp at hm

theorem sum_map_add (f g : κ → Nat) : ∀ l : List κ,
    (l.map (fun x => f x + g x)).sum = (l.map f).sum + (l.map g).sum
  | [] => rfl
  | x :: rest => by
    simp only [List.map_cons, List.sum_cons, sum_map_add f g rest]; omega

theorem sum_indicator [DecidableEq κ] (a : κ) : ∀ keys : List κ, keys.Nodup →
    (keys.map (fun key => if a = key then 1 else 0)).sum = if a ∈ keys then 1 else 0
  | [], _ => rfl
  | k :: rest, hnd => by
    rw [List.nodup_cons] at hnd
    simp only [List.map_cons, List.sum_cons, sum_indicator a rest hnd.2, List.mem_cons]
    by_cases h : a = k
    · subst h; simp [hnd.1]
    · simp [h]

theorem sum_filter_lengths [DecidableEq κ] (keyer : α → κ) (keys : List κ) (hnd : keys.Nodup) :
    ∀ s : List α, (∀ v ∈ s, keyer v ∈ keys) →
      (keys.map (fun key => (s.filter (fun v => decide (keyer v = key))).length)).sum = s.length
  | [], _ => by
    simp only [List.filter_nil, List.length_nil]
    induction keys with
    | nil => rfl
    | cons k rest ih =>
      rw [List.nodup_cons] at hnd
      simp only [List.map_cons, List.sum_cons, ih hnd.2 (by intro v hv; simp at hv)]
  | v :: rest, hall => by
    have hfun : (fun key => ((v :: rest).filter (fun x => decide (keyer x = key))).length) =
        (fun key => (if keyer v = key then 1 else 0) + (rest.filter (fun x => decide (keyer x = key))).length) := by
      funext key
      rw [List.filter_cons]
      by_cases h : keyer v = key
      · simp [h]; omega
      · simp [h]
    rw [hfun, sum_map_add, sum_indicator (keyer v) keys hnd,
      sum_filter_lengths keyer keys hnd rest (fun x hx => hall x (List.mem_cons_of_mem _ hx)),
      if_pos (hall v List.mem_cons_self), List.length_cons]
    omega

theorem groupBy_sizes_sum [DecidableEq κ] (s : List α) (keyer : α → κ) :
    ((Spec.Func.groupBy s keyer).map (fun g => g.2.length)).sum = s.length := by
  unfold Spec.Func.groupBy Spec.Func.groupKeys
  rw [List.map_map]
  exact sum_filter_lengths keyer _ (nodup_dedup _) s
    (fun v hv => (mem_dedup _ _).mpr (List.mem_map.mpr ⟨v, hv, rfl⟩))

end TypVerif.Lemmas.Func
