import TypVerif.Lemmas.ConcAcceptC17
/-
Soundness of the fold the C17 judge (`Drv.C17.step`) really performs.  The judge does not step a fixed system
`red n arity res`: on every event it enlarges the number of goroutines `n` (padding all states of its set with idle
goroutines), and it chooses the result function from the event (`fun _ => r` on `fend _ r`).  `jstep` is the model-state
part of `Drv.C17.step` (`step_model`), `jfold` the fold from the header line, and `driver_accept_sound` says that a
non-empty state set after the trace `tr` means that `tr` is the visible trace of an execution of
`Model.Once.sys N arity res` from its initial state, for `N` the final number of goroutines and `res t` the result of
the first `fend t _` of the trace.

Ingredients: (1) `stepEvent_sound` + `red_exec_sound`; (2) an execution does not depend on the result function except at
the goroutines whose `fend` it shows (`exec_res`); (3) padding with idle goroutines is a simulation (`exec_pad`);
(4) a goroutine has at most one `fend` in an execution (`exec_post`), so that the result function chosen per event agrees
with the one fixed for the whole trace.
-/
namespace TypVerif.Lemmas.ConcAcceptC17
open TypVerif TypVerif.Conc TypVerif.Model.Once TypVerif.Drv.C17

/-- model side of the judge state -/
structure JS where
  n : Nat
  ss : List State

def resOf : Event → (Nat → List Int)
  | .fend _ r => fun _ => r
  | _ => fun _ => []

/-- the model-state-set part of `Drv.C17.step` on an accepted-arity event -/
def jstep (arity fuel : Nat) (j : JS) (e : Event) : JS :=
  let t := Event.tid e
  let n := if t + 1 > j.n then t + 1 else j.n
  let ss := if n > j.n then j.ss.map (padTo n) else j.ss
  { n := n, ss := Conc.stepEvent (red n arity (resOf e)) fuel ss e }

def jfold (arity fuel : Nat) (tr : List Event) : JS :=
  tr.foldl (jstep arity fuel) { n := 0, ss := [init 0 arity] }

/-! ### program counters -/

theorem pc_of_pcs {s s' : State} {u : Nat} {p : Pc} (h : s'.pcs = s.pcs.set u p) (t : Nat) :
    s'.pc t = if u = t ∧ u < s.pcs.length then p else s.pc t := by
  unfold State.pc
  rw [h]
  simp only [List.getD_eq_getElem?_getD, List.getElem?_set]
  by_cases hut : u = t
  · subst hut
    by_cases h2 : u < s.pcs.length
    · simp [h2]
    · simp [h2]
  · simp [hut]

/-- the goroutine is past the return of its function -/
def postPc : Pc → Bool
  | .assign _ | .store | .unlock | .read | .returned => true
  | _ => false

/-- shape of a step of goroutine `u` -/
theorem stepT_shape (R : Nat → List Int) (s : State) (u : Nat) (l : Option Event) (s' : State)
    (h : (l, s') ∈ stepT R s u) :
    ∃ p, s'.pcs = s.pcs.set u p ∧
      (postPc (s.pc u) = true → postPc p = true ∧ ∀ t r, l ≠ some (.fend t r)) ∧
      (∀ t r, l = some (.fend t r) → t = u ∧ postPc p = true) := by
  unfold stepT at h
  split at h <;> rename_i heq
  all_goals first
    | (simp only [List.mem_singleton, Prod.mk.injEq] at h
       obtain ⟨rfl, rfl⟩ := h
       exact ⟨_, rfl, by simp [heq, postPc]⟩)
    | (split at h
       · simp only [List.mem_singleton, Prod.mk.injEq] at h
         obtain ⟨rfl, rfl⟩ := h
         exact ⟨_, rfl, by simp [heq, postPc]⟩
       · cases h)
    | cases h

theorem succ_post (R : Nat → List Int) (s : State) (l : Option Event) (s' : State) (t : Nat)
    (h : (l, s') ∈ succ R s) :
    (postPc (s.pc t) = true → postPc (s'.pc t) = true ∧ ∀ r, l ≠ some (.fend t r)) ∧
    (∀ r, l = some (.fend t r) → postPc (s'.pc t) = true) := by
  obtain ⟨u, hu, hm⟩ := List.mem_flatMap.1 h
  have hu := List.mem_range.1 hu
  obtain ⟨p, hpcs, h1, h2⟩ := stepT_shape R s u l s' hm
  rw [pc_of_pcs hpcs t]
  by_cases hut : u = t
  · subst hut
    simp only [hu, and_self, if_true]
    exact ⟨fun hp => ⟨(h1 hp).1, fun r => (h1 hp).2 u r⟩, fun r hl => (h2 u r hl).2⟩
  · simp only [hut, false_and, if_false]
    exact ⟨fun hp => ⟨hp, fun r hl => hut (h2 t r hl).1.symm⟩, fun r hl => absurd (h2 t r hl).1.symm hut⟩

/-- a goroutine that is past the return of its function stays there and shows no `fend`;
a goroutine whose `fend` is shown is past the return of its function -/
theorem exec_post (n arity : Nat) (R : Nat → List Int) (t : Nat) {a b : State} {ls : List (Option Event)}
    (h : Exec (sys n arity R) a ls b) :
    (postPc (a.pc t) = true → postPc (b.pc t) = true ∧ ∀ r, Event.fend t r ∉ visible ls) ∧
    (∀ r, Event.fend t r ∈ visible ls → postPc (b.pc t) = true) := by
  refine Exec.rel_induct (sys' := sys n arity R)
    (fun (a : State) (ls : List (Option Event)) (b : State) =>
      (postPc (a.pc t) = true → postPc (b.pc t) = true ∧ ∀ r, Event.fend t r ∉ visible ls) ∧
      (∀ r, Event.fend t r ∈ visible ls → postPc (b.pc t) = true)) ?_ ?_ h
  · intro s
    exact ⟨fun hp => ⟨hp, fun r hm => by simp at hm⟩, fun r hm => by simp at hm⟩
  · intro s l s' ls s'' hm ih
    obtain ⟨a1, a2⟩ := succ_post R s l s' t hm
    obtain ⟨b1, b2⟩ := ih
    constructor
    · intro hp
      obtain ⟨hp', hl⟩ := a1 hp
      obtain ⟨hp'', hls⟩ := b1 hp'
      refine ⟨hp'', fun r hmem => ?_⟩
      cases l with
      | none => exact hls r (by simpa using hmem)
      | some e =>
        rw [visible_cons_some, List.mem_cons] at hmem
        rcases hmem with he | hmem
        · exact hl r (by rw [he])
        · exact hls r hmem
    · intro r hmem
      cases l with
      | none => exact b2 r (by simpa using hmem)
      | some e =>
        rw [visible_cons_some, List.mem_cons] at hmem
        rcases hmem with he | hmem
        · exact (b1 (a2 r (by rw [he]))).1
        · exact b2 r hmem

/-! ### change of the result function -/

theorem stepT_res (ρ R : Nat → List Int) (s : State) (u : Nat) (h : s.pc u = .inF → R u = ρ u) :
    stepT ρ s u = stepT R s u := by
  unfold stepT
  split <;> simp_all

theorem succ_res (ρ R : Nat → List Int) (s : State) (l : Option Event) (s' : State)
    (h : (l, s') ∈ succ ρ s) (hR : ∀ t r, l = some (.fend t r) → R t = ρ t) : (l, s') ∈ succ R s := by
  obtain ⟨u, hu, hm⟩ := List.mem_flatMap.1 h
  refine List.mem_flatMap.2 ⟨u, hu, ?_⟩
  rw [← stepT_res ρ R s u ?_]
  · exact hm
  · intro hpc
    unfold stepT at hm
    rw [hpc] at hm
    simp only [List.mem_singleton, Prod.mk.injEq] at hm
    exact hR u (ρ u) hm.1

theorem exec_res (n m arity : Nat) (ρ R : Nat → List Int) {a b : State} {ls : List (Option Event)}
    (h : Exec (sys n arity ρ) a ls b) :
    (∀ t r, Event.fend t r ∈ visible ls → R t = ρ t) → Exec (sys m arity R) a ls b := by
  refine Exec.rel_induct (sys' := sys n arity ρ)
    (fun (a : State) (ls : List (Option Event)) (b : State) =>
      (∀ t r, Event.fend t r ∈ visible ls → R t = ρ t) → Exec (sys m arity R) a ls b) ?_ ?_ h
  · intro s _
    exact Exec.nil _
  · intro s l s' ls s'' hm ih hR
    refine Exec.cons (sys := sys m arity R) (succ_res ρ R s l s' hm ?_) (ih ?_)
    · intro t r hl
      exact hR t r (by rw [hl]; simp)
    · intro t r hmem
      refine hR t r ?_
      cases l with
      | none => simpa using hmem
      | some e => rw [visible_cons_some]; exact List.mem_cons_of_mem _ hmem

/-! ### padding with idle goroutines -/

theorem padTo_pc (m : Nat) (s : State) (u : Nat) (hu : u < s.pcs.length) : (padTo m s).pc u = s.pc u := by
  unfold padTo State.pc
  simp only [List.getD_eq_getElem?_getD, List.getElem?_append_left hu]

theorem stepT_pad (R : Nat → List Int) (m : Nat) (s : State) (u : Nat) (hu : u < s.pcs.length) :
    stepT R (padTo m s) u = (stepT R s u).map (fun p => (p.1, padTo m p.2)) := by
  unfold stepT
  rw [padTo_pc m s u hu]
  have hmu : (padTo m s).mu = s.mu := rfl
  split
  case h_3 => rw [hmu]; split <;> simp [padTo, State.setPc, hu]
  all_goals (simp [padTo, State.setPc, hu] <;> try rfl)

theorem succ_pad (R : Nat → List Int) (m : Nat) (s : State) (l : Option Event) (s' : State)
    (h : (l, s') ∈ succ R s) : (l, padTo m s') ∈ succ R (padTo m s) := by
  obtain ⟨u, hu, hm⟩ := List.mem_flatMap.1 h
  have hu := List.mem_range.1 hu
  refine List.mem_flatMap.2 ⟨u, List.mem_range.2 ?_, ?_⟩
  · simp only [padTo, List.length_append]
    omega
  · rw [stepT_pad R m s u hu]
    exact List.mem_map.2 ⟨(l, s'), hm, rfl⟩

theorem exec_pad (n n' arity : Nat) (R : Nat → List Int) (m : Nat) {a b : State} {ls : List (Option Event)}
    (h : Exec (sys n arity R) a ls b) : Exec (sys n' arity R) (padTo m a) ls (padTo m b) := by
  refine Exec.rel_induct (sys' := sys n arity R)
    (fun (a : State) (ls : List (Option Event)) (b : State) =>
      Exec (sys n' arity R) (padTo m a) ls (padTo m b)) ?_ ?_ h
  · intro s
    exact Exec.nil _
  · intro s l s' ls s'' hm ih
    exact Exec.cons (sys := sys n' arity R) (succ_pad R m s l s' hm) ih

theorem padTo_init (n m arity : Nat) (h : n ≤ m) : padTo m (init n arity) = init m arity := by
  unfold padTo init
  simp only [List.length_replicate, List.replicate_append_replicate]
  congr 2
  omega

/-! ### the fold -/

/-- the result of the first `fend t _` of the trace (`[]` if there is none) -/
def resFirst : List Event → Nat → List Int
  | [], _ => []
  | e :: rest, u =>
    match e with
    | .fend t r => if u = t then r else resFirst rest u
    | _ => resFirst rest u

theorem resFirst_first (pre : List Event) (t : Nat) (r : List Int) (post : List Event)
    (h : ∀ r0, Event.fend t r0 ∉ pre) : resFirst (pre ++ .fend t r :: post) t = r := by
  induction pre with
  | nil => simp [resFirst]
  | cons e pre ih =>
    have ih := ih (fun r0 hm => h r0 (List.mem_cons_of_mem _ hm))
    rw [List.cons_append]
    unfold resFirst
    cases e with
    | fend t' r' =>
      have : t ≠ t' := by
        intro heq
        subst heq
        exact h r' List.mem_cons_self
      simp only [this, if_false]
      exact ih
    | _ => exact ih

/-- every state of the judge's set is reached by an execution of the model showing `done` -/
def Inv (arity : Nat) (R : Nat → List Int) (done : List Event) (j : JS) : Prop :=
  ∀ s ∈ j.ss, ∃ ls, Exec (sys j.n arity R) (init j.n arity) ls s ∧ visible ls = done

theorem stepEvent_inv (arity fuel : Nat) (R : Nat → List Int) (done : List Event) (e : Event) (n : Nat)
    (ss : List State)
    (hfirst : ∀ t r, e = .fend t r → (∀ r0, Event.fend t r0 ∉ done) → R t = r)
    (hinv : ∀ s ∈ ss, ∃ ls, Exec (sys n arity R) (init n arity) ls s ∧ visible ls = done) :
    ∀ s' ∈ Conc.stepEvent (red n arity (resOf e)) fuel ss e,
      ∃ ls, Exec (sys n arity R) (init n arity) ls s' ∧ visible ls = done ++ [e] := by
  intro s' hs'
  obtain ⟨s, hs, ls', hex', hv'⟩ := stepEvent_sound (red n arity (resOf e)) fuel ss e s' hs'
  obtain ⟨ls1, hex1, hv1⟩ := red_exec_sound n arity (resOf e) hex'
  have hv1 : visible ls1 = [e] := hv1.trans hv'
  obtain ⟨ls0, hex0, hv0⟩ := hinv s hs
  have hex1' : Exec (sys n arity R) s ls1 s' := by
    refine exec_res n n arity (resOf e) R hex1 ?_
    intro t r hmem
    rw [hv1, List.mem_singleton] at hmem
    subst hmem
    show R t = r
    refine hfirst t r rfl ?_
    intro r0 hr0
    rw [← hv0] at hr0
    have hpost := (exec_post n arity R t hex0).2 r0 hr0
    have := ((exec_post n arity (resOf (.fend t r)) t hex1).1 hpost).2 r
    rw [hv1] at this
    exact this List.mem_cons_self
  exact ⟨ls0 ++ ls1, Exec.append hex0 hex1', by rw [visible_append, hv0, hv1]⟩

theorem jstep_inv (arity fuel : Nat) (R : Nat → List Int) (done : List Event) (j : JS) (e : Event)
    (hfirst : ∀ t r, e = .fend t r → (∀ r0, Event.fend t r0 ∉ done) → R t = r)
    (hinv : Inv arity R done j) : Inv arity R (done ++ [e]) (jstep arity fuel j e) := by
  unfold Inv jstep
  simp only
  generalize hn : (if Event.tid e + 1 > j.n then Event.tid e + 1 else j.n) = n'
  have hle : j.n ≤ n' := by
    rw [← hn]
    split <;> omega
  clear hn
  apply stepEvent_inv arity fuel R done e _ _ hfirst
  intro s hs
  split at hs
  · obtain ⟨s0, hs0, rfl⟩ := List.mem_map.1 hs
    obtain ⟨ls, hex, hv⟩ := hinv s0 hs0
    refine ⟨ls, ?_, hv⟩
    have := exec_pad j.n n' arity R n' hex
    rw [padTo_init _ _ _ hle] at this
    exact this
  · have hn : n' = j.n := by omega
    subst hn
    exact hinv s hs

theorem foldl_jstep_inv (arity fuel : Nat) (R : Nat → List Int) (full : List Event)
    (hR : ∀ pre t r post, full = pre ++ .fend t r :: post → (∀ r0, Event.fend t r0 ∉ pre) → R t = r) :
    ∀ (tr done : List Event) (j : JS), done ++ tr = full → Inv arity R done j →
      Inv arity R full (tr.foldl (jstep arity fuel) j) := by
  intro tr
  induction tr with
  | nil =>
    intro done j hfull hinv
    rw [List.append_nil] at hfull
    subst hfull
    exact hinv
  | cons e tr ih =>
    intro done j hfull hinv
    rw [List.foldl_cons]
    refine ih (done ++ [e]) (jstep arity fuel j e) (by rw [← hfull]; simp) ?_
    refine jstep_inv arity fuel R done j e ?_ hinv
    intro t r he hno
    subst he
    exact hR done t r tr hfull.symm hno

/-- the invariant of the judge's fold, with the number of goroutines and the result function explicit -/
theorem jfold_sound (arity fuel : Nat) (tr : List Event) :
    ∀ s ∈ (jfold arity fuel tr).ss, ∃ ls,
      Exec (sys (jfold arity fuel tr).n arity (resFirst tr)) (init (jfold arity fuel tr).n arity) ls s ∧
        visible ls = tr := by
  refine foldl_jstep_inv arity fuel (resFirst tr) tr ?_ tr [] { n := 0, ss := [init 0 arity] } rfl ?_
  · intro pre t r post hfull hno
    rw [hfull]
    exact resFirst_first pre t r post hno
  · intro s hs
    rw [List.mem_singleton.1 hs]
    exact ⟨[], Exec.nil _, rfl⟩

/-- a trace the judge accepts (its state set is non-empty after the last event) is the visible trace of an execution of
the model from its initial state -/
theorem driver_accept_sound_explicit (arity fuel : Nat) (tr : List Event) (h : (jfold arity fuel tr).ss ≠ []) :
    ∃ (ls : List (Option Event)) (s : State),
      Exec (sys (jfold arity fuel tr).n arity (resFirst tr)) (init (jfold arity fuel tr).n arity) ls s ∧
        visible ls = tr := by
  cases hss : (jfold arity fuel tr).ss with
  | nil => exact absurd hss h
  | cons s rest =>
    obtain ⟨ls, hex, hv⟩ := jfold_sound arity fuel tr s (by rw [hss]; exact List.mem_cons_self)
    exact ⟨ls, s, hex, hv⟩

theorem driver_accept_sound (arity fuel : Nat) (tr : List Event) (h : (jfold arity fuel tr).ss ≠ []) :
    ∃ (N : Nat) (res : Nat → List Int) (ls : List (Option Event)) (s : State),
      Exec (sys N arity res) (init N arity) ls s ∧ visible ls = tr :=
  ⟨_, _, driver_accept_sound_explicit arity fuel tr h⟩

/-! ### link to the real `Drv.C17.step` -/

section StepModel
open TypVerif.Proto

theorem parseEvent_once (a : Int) : parseEvent [.w "once", .i a] = none := by
  simp [parseEvent]

theorem parseEvent_fpanic (t : Int) : parseEvent [.w "fpanic", .i t] = none := by
  simp [parseEvent]

/-- the arity check of `Drv.C17.step` -/
def arityOk (arity : Nat) : Event → Bool
  | .fend _ r | .ret _ r => r.length == arity
  | _ => true

theorem step_model (st : St) (toks : List Val) (impl : String) (e : Event)
    (hp : parseEvent toks = some e)
    (hst : st.started = true) (hrej : st.rejected = false)
    (harity : arityOk st.arity e = true) :
    (step st toks impl).1.ss = (jstep st.arity closureFuel { n := st.n, ss := st.ss } e).ss ∧
    (step st toks impl).1.n = (jstep st.arity closureFuel { n := st.n, ss := st.ss } e).n := by
  unfold step
  split
  · rw [parseEvent_once] at hp
    cases hp
  · split
    · rw [parseEvent_fpanic] at hp
      cases hp
    · simp only [hp, hst, hrej]
      cases e <;> simp [jstep, resOf, arityOk] at harity ⊢ <;>
        first | rfl | (rw [if_pos harity]; rfl)

/-- the event a non-header line stands for (`fpanic t` is the event `fend t [0,…,0]`) -/
def lineEvent (arity : Nat) (toks : List Val) : Option Event :=
  match toks with
  | [.w "once", .i _] => none
  | [.w "fpanic", .i t] => parseEvent [.w "fend", .i t, ofInts (List.replicate arity 0)]
  | _ => parseEvent toks

theorem lineEvent_of_parse (arity : Nat) (toks : List Val) (e : Event) (hp : parseEvent toks = some e) :
    lineEvent arity toks = some e := by
  unfold lineEvent
  split
  · rw [parseEvent_once] at hp
    cases hp
  · rw [parseEvent_fpanic] at hp
    cases hp
  · exact hp

example : lineEvent 2 [.w "fpanic", .i 3] = some (.fend 3 [0, 0]) := by decide
example : lineEvent 2 [.w "ret", .i 1, .l [.i 5, .i 6]] = some (.ret 1 [5, 6]) := by decide

/-- everything `Drv.C17.step` does to the model part of its state on a line that stands for an event -/
theorem step_parsed (st : St) (toks : List Val) (impl : String) (e : Event)
    (hp : lineEvent st.arity toks = some e) (hst : st.started = true) :
    (step st toks impl).1.started = true ∧ (step st toks impl).1.arity = st.arity ∧
    (step st toks impl).1.n = (jstep st.arity closureFuel { n := st.n, ss := st.ss } e).n ∧
    (step st toks impl).1.ss =
      (if (st.rejected || !arityOk st.arity e) = true then []
        else (jstep st.arity closureFuel { n := st.n, ss := st.ss } e).ss) ∧
    (step st toks impl).1.rejected = (st.rejected || (step st toks impl).1.ss.isEmpty) := by
  unfold step
  split
  · simp [lineEvent] at hp
  · split
    · simp only [lineEvent] at hp
      simp only [hp, hst, Bool.not_true, Bool.false_eq_true, if_false]
      refine ⟨?_, ?_, ?_, ?_, ?_⟩ <;> first | trivial | rfl | (cases e <;> rfl)
    · rename_i h1 _ h2
      have hp : parseEvent toks = some e := by
        unfold lineEvent at hp
        split at hp
        · exact absurd rfl (h1 _)
        · exact absurd rfl (h2 _)
        · exact hp
      simp only [hp, hst, Bool.not_true, Bool.false_eq_true, if_false]
      refine ⟨?_, ?_, ?_, ?_, ?_⟩ <;> first | trivial | rfl | (cases e <;> rfl)

/-- the judge state after the header line `once a` and the lines `lines` -/
def runLines (st : St) (lines : List (List Val × String)) : St :=
  lines.foldl (fun st l => (step st l.1 l.2).1) st

/-- relation between the judge state and the model fold, as long as nothing was rejected -/
def JRel (arity : Nat) (st : St) (j : JS) : Prop :=
  st.started = true ∧ st.arity = arity ∧
    (st.rejected = false → st.ss = j.ss ∧ st.n = j.n ∧ st.ss ≠ [])

theorem step_JRel (arity : Nat) (st : St) (j : JS) (toks : List Val) (impl : String) (e : Event)
    (hp : lineEvent arity toks = some e) (h : JRel arity st j) :
    JRel arity (step st toks impl).1 (jstep arity closureFuel j e) := by
  obtain ⟨hst, har, hrel⟩ := h
  rw [← har] at hp
  obtain ⟨h1, h2, h3, h4, h5⟩ := step_parsed st toks impl e hp hst
  refine ⟨h1, h2.trans har, ?_⟩
  intro hrej'
  rw [hrej', eq_comm, Bool.or_eq_false_iff] at h5
  obtain ⟨hrej, hne⟩ := h5
  obtain ⟨hss, hn, _⟩ := hrel hrej
  have hj : ({ n := st.n, ss := st.ss } : JS) = j := by
    cases j
    simp only [JS.mk.injEq]
    exact ⟨hn, hss⟩
  rw [hj, har] at h3 h4
  have hne' : (step st toks impl).1.ss ≠ [] := by
    intro h0
    rw [h0] at hne
    cases hne
  refine ⟨?_, h3, hne'⟩
  rw [h4]
  split
  · rename_i hc
    rw [h4, if_pos hc] at hne'
    exact absurd rfl hne'
  · rfl

theorem runLines_JRel (arity : Nat) (lines : List (List Val × String)) :
    ∀ (tr : List Event) (st : St) (j : JS),
      lines.map (fun l => lineEvent arity l.1) = tr.map some → JRel arity st j →
      JRel arity (runLines st lines) (tr.foldl (jstep arity closureFuel) j) := by
  induction lines with
  | nil =>
    intro tr st j hl h
    cases tr with
    | nil => exact h
    | cons e tr => simp at hl
  | cons l lines ih =>
    intro tr st j hl h
    cases tr with
    | nil => simp at hl
    | cons e tr =>
      rw [List.map_cons, List.map_cons, List.cons.injEq] at hl
      unfold runLines
      rw [List.foldl_cons, List.foldl_cons]
      exact ih _ _ _ hl.2 (step_JRel arity st j l.1 l.2 e hl.1 h)

/-- soundness of the C17 judge itself: after the header line `once a` and lines that stand for the events `tr`
(`lineEvent`: event lines, and `fpanic t` for `fend t [0,…,0]`), if the judge has not rejected (every model output
was `ok`), then `tr` is the visible trace of an execution of the model from its initial state -/
theorem judge_accept_sound (st0 : St) (a : Int) (impl0 : String) (lines : List (List Val × String))
    (tr : List Event) (hparse : lines.map (fun l => lineEvent a.toNat l.1) = tr.map some)
    (hok : (runLines (step st0 [.w "once", .i a] impl0).1 lines).rejected = false) :
    ∃ (N : Nat) (res : Nat → List Int) (ls : List (Option Event)) (s : State),
      Exec (sys N a.toNat res) (init N a.toNat) ls s ∧ visible ls = tr := by
  have h0 : JRel a.toNat (step st0 [.w "once", .i a] impl0).1 { n := 0, ss := [init 0 a.toNat] } := by
    refine ⟨rfl, rfl, fun _ => ⟨rfl, rfl, ?_⟩⟩
    intro h
    cases h
  obtain ⟨_, _, hrel⟩ := runLines_JRel a.toNat lines tr _ _ hparse h0
  obtain ⟨hss, _, hne⟩ := hrel hok
  refine driver_accept_sound a.toNat closureFuel tr ?_
  rw [hss] at hne
  exact hne

end StepModel

end TypVerif.Lemmas.ConcAcceptC17

#print axioms TypVerif.Lemmas.ConcAcceptC17.jfold_sound
#print axioms TypVerif.Lemmas.ConcAcceptC17.driver_accept_sound_explicit
#print axioms TypVerif.Lemmas.ConcAcceptC17.driver_accept_sound
#print axioms TypVerif.Lemmas.ConcAcceptC17.step_model
#print axioms TypVerif.Lemmas.ConcAcceptC17.step_parsed
#print axioms TypVerif.Lemmas.ConcAcceptC17.judge_accept_sound
