import TypVerif.Lemmas.ObjAccept
import TypVerif.Drv.C18
/-
Soundness of the folds the C18 judge (`Drv.C18.step`) really performs on its atomic-object state sets:
`avM` (model `AtomicValue.spec`), `avS` (specification `Spec.Register.spec`) in mode `av`, and `poolS` (specification
`Pool.bagSpec hasNew`) in mode `pool hasNew` (not `trace`-only).  `step_av` / `step_pool` say what one event line does to
these components (the number of goroutines becomes `nextN n t`, the sets are stepped by `stepObj` with that number);
`AvRel` / `PoolRel` relate the judge state to `ObjAccept.Acc`; `av_accept_sound` / `pool_accept_sound` are the theorems
about the fold `runLines` of `Drv.C18.step` from the header line.

Not covered: the wrapper-level pool model `poolM` (`Pool.sys`, `stepPool`, `padPool`) — the `rejected` flag in mode `pool`.
-/
namespace TypVerif.Lemmas.ObjAcceptC18
open TypVerif TypVerif.Conc TypVerif.Model TypVerif.Proto TypVerif.Drv.C18 TypVerif.Lemmas.ObjAccept

/-- the judge's `stepObj` is the generic one with fuel 16 -/
theorem stepObj_eq (S : AtomicObj.Spec) [DecidableEq S.σ] [DecidableEq S.Op] [DecidableEq S.Res] (n : Nat)
    (ss : List (AtomicObj.State S.σ S.Op S.Res)) (e : AtomicObj.Event S.Op S.Res) :
    Drv.C18.stepObj S n ss e = stepObjF S Drv.C18.closureFuel n ss e := rfl

/-- the number of goroutines after an event of goroutine `t` -/
def nextN (n : Nat) (t : Nat) : Nat := if t + 1 > n then t + 1 else n

/-- the judge state after the lines `lines` -/
def runLines (st : St) (lines : List (List Val × String)) : St :=
  lines.foldl (fun st l => (step st l.1 l.2).1) st

/-! ### mode `av` -/

theorem parseAv_av : parseAv [.w "av"] = none := by simp [parseAv]
theorem parseAv_pool (hn : Int) : parseAv [.w "pool", .i hn] = none := by simp [parseAv]
theorem parseAv_poolt (hn : Int) : parseAv [.w "pool", .i hn, .w "trace"] = none := by simp [parseAv]

/-- everything `Drv.C18.step` does to the `av` part of its state on an event line -/
theorem step_av (st : St) (toks : List Val) (impl : String) (e : AvEvent) (hmode : st.mode = .av)
    (hp : parseAv toks = some e) :
    (step st toks impl).1.mode = .av ∧
    (step st toks impl).1.n = nextN st.n (evTid e) ∧
    (step st toks impl).1.avM = (if st.rejected then [] else stepAvM (nextN st.n (evTid e)) st.avM e) ∧
    (step st toks impl).1.avS = (if st.violated.isSome then [] else stepAvS (nextN st.n (evTid e)) st.avS e) ∧
    (step st toks impl).1.rejected = (st.rejected || (step st toks impl).1.avM.isEmpty) ∧
    (step st toks impl).1.violated = (match st.violated with
        | some w => some w
        | none => if (step st toks impl).1.avS.isEmpty then some "not-linearizable" else none) := by
  unfold step
  split
  · rw [parseAv_av] at hp; cases hp
  · rw [parseAv_poolt] at hp; cases hp
  · rw [parseAv_pool] at hp; cases hp
  · simp only [hmode, hp]
    refine ⟨?_, ?_, ?_, ?_, ?_, ?_⟩ <;> first | trivial | rfl

/-- relation between the judge state (mode `av`) and the history `tr` read so far -/
def AvRel (tr : List AvEvent) (st : St) : Prop :=
  st.mode = .av ∧
  (st.rejected = false → Acc AtomicValue.spec tr st.avM ∧ st.avM ≠ []) ∧
  (st.violated = none → Acc Spec.Register.spec tr st.avS ∧ st.avS ≠ [])

theorem ne_nil_of_isEmpty {α : Type} {l : List α} (h : l.isEmpty = false) : l ≠ [] := by
  intro h0
  rw [h0] at h
  cases h

theorem avRel_header (st0 : St) (impl0 : String) : AvRel [] (step st0 [.w "av"] impl0).1 := by
  refine ⟨rfl, fun _ => ⟨acc_init AtomicValue.spec 0, ?_⟩, fun _ => ⟨acc_init Spec.Register.spec 0, ?_⟩⟩
  · intro h; cases h
  · intro h; cases h

theorem avRel_step (tr : List AvEvent) (st : St) (toks : List Val) (impl : String) (e : AvEvent)
    (hp : parseAv toks = some e) (h : AvRel tr st) : AvRel (tr ++ [e]) (step st toks impl).1 := by
  obtain ⟨hmode, hM, hS⟩ := h
  obtain ⟨h1, _, h3, h4, h5, h6⟩ := step_av st toks impl e hmode hp
  refine ⟨h1, ?_, ?_⟩
  · intro hrej'
    rw [hrej', eq_comm, Bool.or_eq_false_iff] at h5
    obtain ⟨hrej, hne⟩ := h5
    refine ⟨?_, ne_nil_of_isEmpty hne⟩
    rw [h3, hrej]
    exact acc_step AtomicValue.spec Drv.C18.closureFuel _ (hM hrej).1 e
  · intro hv'
    rw [hv'] at h6
    cases hv : st.violated with
    | some w => rw [hv] at h6; cases h6
    | none =>
      rw [hv] at h6
      simp only at h6
      have hne : (step st toks impl).1.avS.isEmpty = false := by
        cases hemp : (step st toks impl).1.avS.isEmpty with
        | false => rfl
        | true => rw [hemp] at h6; simp at h6
      refine ⟨?_, ne_nil_of_isEmpty hne⟩
      rw [h4, hv]
      exact acc_step Spec.Register.spec Drv.C18.closureFuel _ (hS hv).1 e

theorem runLines_avRel (lines : List (List Val × String)) :
    ∀ (tr0 tr : List AvEvent) (st : St), lines.map (fun l => parseAv l.1) = tr.map some → AvRel tr0 st →
      AvRel (tr0 ++ tr) (runLines st lines) := by
  induction lines with
  | nil =>
    intro tr0 tr st hl h
    cases tr with
    | nil => simpa [runLines] using h
    | cons e tr => simp at hl
  | cons l lines ih =>
    intro tr0 tr st hl h
    cases tr with
    | nil => simp at hl
    | cons e tr =>
      rw [List.map_cons, List.map_cons, List.cons.injEq] at hl
      have := ih (tr0 ++ [e]) tr _ hl.2 (avRel_step tr0 st l.1 l.2 e hl.1 h)
      simpa [runLines] using this

/-- **the AtomicValue judge**: after the header line `av` and lines standing for the events `tr` (`parseAv`),
if the judge has not rejected (all model outputs `ok`), `tr` is the visible trace of an execution of
`AtomicObj.sys AtomicValue.spec`; if it has reported no violation (all specification outputs `ok`), `tr` is the
visible trace of an execution of `AtomicObj.sys Spec.Register.spec` -/
theorem av_accept_sound (st0 : St) (impl0 : String) (lines : List (List Val × String)) (tr : List AvEvent)
    (hparse : lines.map (fun l => parseAv l.1) = tr.map some) :
    ((runLines (step st0 [.w "av"] impl0).1 lines).rejected = false →
      ∃ (N : Nat) (menu : List AtomicValue.Op) (ls : List (Option AvEvent)) (s : AvState),
        Exec (AtomicObj.sys AtomicValue.spec menu N) (AtomicObj.sys AtomicValue.spec menu N).init ls s ∧
          visible ls = tr) ∧
    ((runLines (step st0 [.w "av"] impl0).1 lines).violated = none →
      ∃ (N : Nat) (menu : List AtomicValue.Op) (ls : List (Option AvEvent)) (s : AvState),
        Exec (AtomicObj.sys Spec.Register.spec menu N) (AtomicObj.sys Spec.Register.spec menu N).init ls s ∧
          visible ls = tr) := by
  have h := runLines_avRel lines [] tr _ hparse (avRel_header st0 impl0)
  rw [List.nil_append] at h
  obtain ⟨_, hM, hS⟩ := h
  exact ⟨fun hr => acc_nonempty AtomicValue.spec (hM hr).1 (hM hr).2,
         fun hv => acc_nonempty Spec.Register.spec (hS hv).1 (hS hv).2⟩

/-! ### mode `pool` -/

theorem parsePool_av : parsePool [.w "av"] = none := by simp [parsePool]
theorem parsePool_pool (hn : Int) : parsePool [.w "pool", .i hn] = none := by simp [parsePool]
theorem parsePool_poolt (hn : Int) : parsePool [.w "pool", .i hn, .w "trace"] = none := by simp [parsePool]

theorem viol_none {v disc : Option String} {b : Bool}
    (h : (match v with
      | some w => some w
      | none => match disc with
        | some w => some w
        | none => if b = true then some "not-linearizable" else none) = none) : v = none ∧ b = false := by
  cases v <;> cases disc <;> cases b <;> simp_all

/-- what `Drv.C18.step` does to the bag part of its state on an event line (mode `pool`, not trace-only) -/
theorem step_pool (st : St) (toks : List Val) (impl : String) (hasNew : Bool) (e : Pool.Event)
    (hmode : st.mode = .pool hasNew) (htr : st.traceOnly = false) (hp : parsePool toks = some e) :
    (step st toks impl).1.mode = .pool hasNew ∧ (step st toks impl).1.traceOnly = false ∧
    (step st toks impl).1.n = nextN st.n (evTid e) ∧
    (step st toks impl).1.poolS =
      (if st.violated.isSome then [] else stepBag hasNew (nextN st.n (evTid e)) st.poolS e) ∧
    ((step st toks impl).1.violated = none → st.violated = none ∧ (step st toks impl).1.poolS ≠ []) := by
  have hn : (if evTid e + 1 > st.n then evTid e + 1 else st.n) = nextN st.n (evTid e) := rfl
  unfold step
  split
  · rw [parsePool_av] at hp; cases hp
  · rw [parsePool_poolt] at hp; cases hp
  · rw [parsePool_pool] at hp; cases hp
  · simp only [hmode, hp, htr, hn, Bool.or_false]
    refine ⟨trivial, trivial, trivial, trivial, ?_⟩
    intro h
    obtain ⟨h1, h2⟩ := viol_none h
    refine ⟨h1, ?_⟩
    intro h0
    rw [h0] at h2
    simp at h2

def PoolRel (hasNew : Bool) (tr : List Pool.Event) (st : St) : Prop :=
  st.mode = .pool hasNew ∧ st.traceOnly = false ∧
  (st.violated = none → Acc (Pool.bagSpec hasNew) tr st.poolS ∧ st.poolS ≠ [])

theorem poolRel_header (st0 : St) (hn : Int) (impl0 : String) :
    PoolRel (hn != 0) [] (step st0 [.w "pool", .i hn] impl0).1 := by
  refine ⟨rfl, rfl, fun _ => ⟨acc_init (Pool.bagSpec (hn != 0)) 0, ?_⟩⟩
  intro h; cases h

theorem poolRel_step (hasNew : Bool) (tr : List Pool.Event) (st : St) (toks : List Val) (impl : String)
    (e : Pool.Event) (hp : parsePool toks = some e) (h : PoolRel hasNew tr st) :
    PoolRel hasNew (tr ++ [e]) (step st toks impl).1 := by
  obtain ⟨hmode, htr, hS⟩ := h
  obtain ⟨h1, h2, _, h4, h5⟩ := step_pool st toks impl hasNew e hmode htr hp
  refine ⟨h1, h2, ?_⟩
  intro hv'
  obtain ⟨hv, hne⟩ := h5 hv'
  refine ⟨?_, hne⟩
  rw [h4, hv]
  exact acc_step (Pool.bagSpec hasNew) Drv.C18.closureFuel _ (hS hv).1 e

theorem runLines_poolRel (hasNew : Bool) (lines : List (List Val × String)) :
    ∀ (tr0 tr : List Pool.Event) (st : St), lines.map (fun l => parsePool l.1) = tr.map some →
      PoolRel hasNew tr0 st → PoolRel hasNew (tr0 ++ tr) (runLines st lines) := by
  induction lines with
  | nil =>
    intro tr0 tr st hl h
    cases tr with
    | nil => simpa [runLines] using h
    | cons e tr => simp at hl
  | cons l lines ih =>
    intro tr0 tr st hl h
    cases tr with
    | nil => simp at hl
    | cons e tr =>
      rw [List.map_cons, List.map_cons, List.cons.injEq] at hl
      have := ih (tr0 ++ [e]) tr _ hl.2 (poolRel_step hasNew tr0 st l.1 l.2 e hl.1 h)
      simpa [runLines] using this

/-- **the Pool judge, bag part**: after the header line `pool hn` and lines standing for the events `tr` (`parsePool`),
if the judge has reported no violation (all specification outputs `ok`), `tr` is the visible trace of an execution of
`AtomicObj.sys (Pool.bagSpec (hn != 0))` -/
theorem pool_accept_sound (st0 : St) (hn : Int) (impl0 : String) (lines : List (List Val × String))
    (tr : List Pool.Event) (hparse : lines.map (fun l => parsePool l.1) = tr.map some)
    (hok : (runLines (step st0 [.w "pool", .i hn] impl0).1 lines).violated = none) :
    ∃ (N : Nat) (menu : List Pool.Op) (ls : List (Option Pool.Event)) (s : BagState),
      Exec (AtomicObj.sys (Pool.bagSpec (hn != 0)) menu N) (AtomicObj.sys (Pool.bagSpec (hn != 0)) menu N).init ls s ∧
        visible ls = tr := by
  have h := runLines_poolRel (hn != 0) lines [] tr _ hparse (poolRel_header st0 hn impl0)
  rw [List.nil_append] at h
  obtain ⟨_, _, hS⟩ := h
  exact acc_nonempty (Pool.bagSpec (hn != 0)) (hS hok).1 (hS hok).2

end TypVerif.Lemmas.ObjAcceptC18
