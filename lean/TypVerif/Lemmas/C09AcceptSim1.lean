import TypVerif.Lemmas.C09AcceptRel
/-
Acceptance soundness for the judge `Drv/C09.lean`: helper lemmas for the simulation (`C09AcceptSim.lean`).
-/
namespace TypVerif.Lemmas.C09Accept
open TypVerif TypVerif.Conc TypVerif.Model.KeyedMutex TypVerif.Drv.C09
open TypVerif.Lemmas.KeyedMutex

/-! ### the atomic map -/

theorem sim_get_some_mem {l : List (Nat × Nat)} {k v : Nat} (h : get l k = some v) : (k, v) ∈ l := by
  induction l with
  | nil => cases h
  | cons p r ih =>
    obtain ⟨k', v'⟩ := p
    rw [get_cons] at h
    by_cases e : k' = k
    · rw [if_pos e] at h
      cases h; subst e
      exact List.mem_cons_self
    · rw [if_neg e] at h
      exact List.mem_cons_of_mem _ (ih h)

theorem sim_get_none_iff {l : List (Nat × Nat)} {k : Nat} : get l k = none ↔ ∀ v, (k, v) ∉ l := by
  induction l with
  | nil => exact ⟨fun _ v h => (nomatch h), fun _ => rfl⟩
  | cons p r ih =>
    obtain ⟨k', v'⟩ := p
    rw [get_cons]
    by_cases e : k' = k
    · subst e
      simp only [if_true]
      constructor
      · intro h; cases h
      · intro h; exact absurd List.mem_cons_self (h v')
    · rw [if_neg e, ih]
      constructor
      · intro h v hm
        rcases List.mem_cons.mp hm with hm | hm
        · cases hm; exact e rfl
        · exact h v hm
      · intro h v hm
        exact h v (List.mem_cons_of_mem _ hm)

theorem sim_get_none_keys {l : List (Nat × Nat)} {k : Nat} (h : get l k = none) : k ∉ l.map (·.1) := by
  intro hm
  obtain ⟨⟨k', v⟩, hp, e⟩ := List.mem_map.mp hm
  simp only at e
  subst e
  exact sim_get_none_iff.mp h v hp

theorem sim_mem_get {l : List (Nat × Nat)} {k v : Nat} (hn : (l.map (·.1)).Nodup) (h : (k, v) ∈ l) :
    get l k = some v := by
  induction l with
  | nil => cases h
  | cons p r ih =>
    obtain ⟨k', v'⟩ := p
    rw [List.map_cons, List.nodup_cons] at hn
    rw [get_cons]
    rcases List.mem_cons.mp h with hm | hm
    · cases hm; simp
    · by_cases e : k' = k
      · subst e
        exact absurd (List.mem_map.mpr ⟨(k', v), hm, rfl⟩) hn.1
      · rw [if_neg e]
        exact ih hn.2 hm

theorem sim_get_perm {l1 l2 : List (Nat × Nat)} (hp : l1.Perm l2) (hn : (l2.map (·.1)).Nodup) (k : Nat) :
    get l1 k = get l2 k := by
  cases h : get l1 k with
  | none =>
    symm
    rw [sim_get_none_iff] at h ⊢
    intro v hm
    exact h v (hp.mem_iff.mpr hm)
  | some v =>
    symm
    exact sim_mem_get hn (hp.mem_iff.mp (sim_get_some_mem h))

theorem sim_keys_map (f : Nat → Nat) (l : List (Nat × Nat)) :
    (l.map (fun p => (p.1, f p.2))).map (·.1) = l.map (·.1) := by
  rw [List.map_map]
  rfl

theorem sim_get_map (f : Nat → Nat) (l : List (Nat × Nat)) (k : Nat) :
    get (l.map (fun p => (p.1, f p.2))) k = (get l k).map f := by
  induction l with
  | nil => rfl
  | cons p r ih =>
    obtain ⟨k', v'⟩ := p
    rw [List.map_cons, get_cons, get_cons]
    by_cases e : k' = k
    · simp [e]
    · simp only [if_neg e]
      exact ih

theorem sim_del_eq_filter (l : List (Nat × Nat)) (k : Nat) : del l k = l.filter (fun p => decide (p.1 ≠ k)) := by
  induction l with
  | nil => rfl
  | cons p r ih =>
    obtain ⟨k', v'⟩ := p
    rw [del_cons]
    by_cases e : k' = k
    · simp [e, ih]
    · simp [e, ih]

theorem sim_del_map (f : Nat → Nat) (l : List (Nat × Nat)) (k : Nat) :
    del (l.map (fun p => (p.1, f p.2))) k = (del l k).map (fun p => (p.1, f p.2)) := by
  rw [sim_del_eq_filter, sim_del_eq_filter, List.filter_map]
  rfl

theorem sim_del_perm {l1 l2 : List (Nat × Nat)} (hp : l1.Perm l2) (k : Nat) : (del l1 k).Perm (del l2 k) := by
  rw [sim_del_eq_filter, sim_del_eq_filter]
  exact hp.filter _

theorem sim_mem_del {l : List (Nat × Nat)} {k : Nat} {p : Nat × Nat} (h : p ∈ del l k) : p ∈ l := by
  rw [sim_del_eq_filter] at h
  exact (List.mem_filter.mp h).1

theorem sim_del_keys_nodup {l : List (Nat × Nat)} (k : Nat) (hn : (l.map (·.1)).Nodup) :
    ((del l k).map (·.1)).Nodup := by
  rw [sim_del_eq_filter]
  exact List.Nodup.sublist (List.filter_sublist.map _) hn

/-! ### `MuEq` -/

theorem sim_muEq_refl (μ : Mu) : MuEq μ μ := ⟨rfl, List.Perm.refl _, List.Perm.refl _, List.Perm.refl _⟩

theorem sim_perm_nil_iff {l1 l2 : List Nat} (h : l1.Perm l2) : l1 = [] ↔ l2 = [] := by
  constructor
  · intro e; subst e; exact (h.nil_eq).symm
  · intro e; subst e; exact h.eq_nil

theorem sim_muEq_acq {ν μ : Mu} (h : MuEq ν μ) :
    (ν.writer = none ∧ ν.readers = []) ↔ (μ.writer = none ∧ μ.readers = []) := by
  rw [h.1, sim_perm_nil_iff h.2.1]

theorem sim_muEq_try {ν μ : Mu} (h : MuEq ν μ) :
    (ν.writer = none ∧ ν.readers = [] ∧ ν.pending = [] ∧ ν.wq = []) ↔
      (μ.writer = none ∧ μ.readers = [] ∧ μ.pending = [] ∧ μ.wq = []) := by
  rw [h.1, sim_perm_nil_iff h.2.1, sim_perm_nil_iff h.2.2.1, sim_perm_nil_iff h.2.2.2]

theorem sim_muEq_rd {ν μ : Mu} (h : MuEq ν μ) :
    (ν.writer = none ∧ ν.pending = []) ↔ (μ.writer = none ∧ μ.pending = []) := by
  rw [h.1, sim_perm_nil_iff h.2.2.1]

/-! ### program counters -/

theorem sim_renPc_congr {f f' : Nat → Nat} {p : Pc} (h : ∀ m, pcLocal p = some m → f' m = f m) :
    renPc f' p = renPc f p := by
  cases p <;> simp only [renPc] <;> rw [h _ rfl]

theorem sim_onKey_renPc (f : Nat → Nat) (k : Nat) (p : Pc) : onKey k (renPc f p) = onKey k p := by
  cases p <;> rfl

theorem sim_pc_mem {s : State} {t : Nat} (ht : t < s.pcs.length) : s.pc t ∈ s.pcs := by
  unfold State.pc
  rw [List.getD_eq_getElem?_getD, List.getElem?_eq_getElem ht]
  exact List.getElem_mem ht

theorem sim_live_pc {s : State} {t m : Nat} (ht : t < s.pcs.length) (h : pcLocal (s.pc t) = some m) : Live s m :=
  .inr ⟨_, sim_pc_mem ht, h⟩

theorem sim_live_map {s : State} {k m : Nat} (h : get s.map k = some m) : Live s m :=
  .inl ⟨k, sim_get_some_mem h⟩

/-- the live ids after `pcs.set t p'` -/
theorem sim_live_set {a : State} {t : Nat} {p' : Pc} {mp : List (Nat × Nat)} {hp : List Mu} {wh rh : List (Nat × Nat)}
    {m : Nat} (h : Live ⟨a.pcs.set t p', mp, hp, wh, rh⟩ m) :
    (∃ k, (k, m) ∈ mp) ∨ (∃ p ∈ a.pcs, pcLocal p = some m) ∨ pcLocal p' = some m := by
  rcases h with h | ⟨p, hm, hl⟩
  · exact .inl h
  · rcases List.mem_or_eq_of_mem_set hm with hm | rfl
    · exact .inr (.inl ⟨p, hm, hl⟩)
    · exact .inr (.inr hl)

theorem sim_live_set_same {a : State} {t : Nat} {p' : Pc} {hp : List Mu} {wh rh : List (Nat × Nat)}
    (hp' : ∀ m, pcLocal p' = some m → Live a m) {m : Nat} (h : Live ⟨a.pcs.set t p', a.map, hp, wh, rh⟩ m) :
    Live a m := by
  rcases sim_live_set h with h | h | h
  · exact .inl h
  · exact .inr h
  · exact hp' m h

theorem sim_pc_ren {f : Nat → Nat} {a x : State} (hr : Rel f a x) (t : Nat) : x.pc t = renPc f (a.pc t) := by
  unfold State.pc
  rw [hr.pcs, List.getD_eq_getElem?_getD, List.getD_eq_getElem?_getD, List.getElem?_map]
  cases a.pcs[t]? <;> rfl

theorem sim_len {f : Nat → Nat} {a x : State} (hr : Rel f a x) : x.pcs.length = a.pcs.length := by
  rw [hr.pcs, List.length_map]

/-! ### `stepT` by program counter -/

theorem sim_stepT_idle {rw g : Bool} {ops : List Op} {s : State} {t : Nat} (h : s.pc t = .idle) :
    stepT rw g ops s t =
      (ops.filter (invOk rw s t)).map (fun op => (some (.inv t op), s.setPc t (.los op.kind op.key))) := by
  unfold stepT; rw [h]

theorem sim_stepT_los {rw g : Bool} {ops : List Op} {s : State} {t : Nat} {kd : Kind} {k : Nat}
    (h : s.pc t = .los kd k) : stepT rw g ops s t = losStep g s t kd k := by
  unfold stepT; rw [h]

theorem sim_stepT_act {rw g : Bool} {ops : List Op} {s : State} {t : Nat} {kd : Kind} {k m : Nat}
    (h : s.pc t = .act kd k m) : stepT rw g ops s t = actStep rw s t kd k m := by
  unfold stepT; rw [h]

theorem sim_stepT_ann {rw g : Bool} {ops : List Op} {s : State} {t : Nat} {k m : Nat} (h : s.pc t = .ann k m) :
    stepT rw g ops s t =
      [(none, queueStep s t m (.wait k m) (t :: (s.mu m).pending) ((s.mu m).wq.filter (· ≠ t)))] := by
  unfold stepT; rw [h]

theorem sim_stepT_wait {rw g : Bool} {ops : List Op} {s : State} {t : Nat} {k m : Nat} (h : s.pc t = .wait k m) :
    stepT rw g ops s t =
      if (s.mu m).writer = none ∧ (s.mu m).readers = [] then [(none, acqW s t k m .done)] else [] := by
  unfold stepT; rw [h]

theorem sim_stepT_rel {rw g : Bool} {ops : List Op} {s : State} {t : Nat} {k m : Nat} (h : s.pc t = .rel k m) :
    stepT rw g ops s t =
      [(none, queueStep s t m (.ret .done) (s.mu m).pending ((s.mu m).wq.filter (· ≠ t)))] := by
  unfold stepT; rw [h]

theorem sim_stepT_ret {rw g : Bool} {ops : List Op} {s : State} {t : Nat} {r : Res} (h : s.pc t = .ret r) :
    stepT rw g ops s t = [(some (.res t r), s.setPc t .idle)] := by
  unfold stepT; rw [h]

/-! ### `Rel` after an update -/

/-- the pc of `t` and the cell of a live `m` change -/
theorem sim_rel_update {f : Nat → Nat} {a x : State} (hw : WF a) (hr : Rel f a x) (t m : Nat) (p' : Pc) (μ' ν' : Mu)
    (wh' rh' xwh' xrh' : List (Nat × Nat)) (hm : Live a m)
    (hp' : ∀ m', pcLocal p' = some m' → Live a m') (hμ : MuEq ν' μ') (hwh : xwh'.Perm wh') (hrh : xrh'.Perm rh') :
    Rel f ⟨a.pcs.set t p', a.map, a.heap.set m μ', wh', rh'⟩
      ⟨x.pcs.set t (renPc f p'), x.map, x.heap.set (f m) ν', xwh', xrh'⟩ := by
  have hlive : ∀ m', Live ⟨a.pcs.set t p', a.map, a.heap.set m μ', wh', rh'⟩ m' → Live a m' :=
    fun m' h => sim_live_set_same hp' h
  refine ⟨?_, hr.map, ?_, ?_, ?_, hwh, hrh⟩
  · show x.pcs.set t (renPc f p') = (a.pcs.set t p').map (renPc f)
    rw [List.map_set, hr.pcs]
  · intro m1 m2 h1 h2
    exact hr.inj m1 m2 (hlive _ h1) (hlive _ h2)
  · intro m1 h1
    show f m1 < (x.heap.set (f m) ν').length
    rw [List.length_set]
    exact hr.ltX m1 (hlive _ h1)
  · intro m1 h1
    have h1' := hlive _ h1
    rw [mu_mk_set x _ _ _ (hr.ltX m hm), mu_mk_set a _ _ _ (hw.liveLt m hm)]
    by_cases e : m1 = m
    · subst e
      rw [if_pos rfl, if_pos rfl]
      exact hμ
    · have e' : f m1 ≠ f m := fun h => e (hr.inj _ _ h1' hm h)
      rw [if_neg e, if_neg e']
      exact hr.mu m1 h1'

/-- only the pc of `t` changes -/
theorem sim_rel_setPc {f : Nat → Nat} {a x : State} (hr : Rel f a x) (t : Nat) (p' : Pc)
    (hp' : ∀ m', pcLocal p' = some m' → Live a m') :
    Rel f (a.setPc t p') (x.setPc t (renPc f p')) := by
  have hlive : ∀ m', Live (a.setPc t p') m' → Live a m' := fun m' h => sim_live_set_same hp' h
  refine ⟨?_, hr.map, ?_, ?_, ?_, hr.wh, hr.rh⟩
  · show x.pcs.set t (renPc f p') = (a.pcs.set t p').map (renPc f)
    rw [List.map_set, hr.pcs]
  · intro m1 m2 h1 h2
    exact hr.inj m1 m2 (hlive _ h1) (hlive _ h2)
  · intro m1 h1
    exact hr.ltX m1 (hlive _ h1)
  · intro m1 h1
    exact hr.mu m1 (hlive _ h1)

end TypVerif.Lemmas.C09Accept
