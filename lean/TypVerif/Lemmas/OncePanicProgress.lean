import TypVerif.Lemmas.OncePanicTrace
/-
Progress for the Once system with panicking functions: nobody is stuck behind a goroutine whose function
panicked (the deferred `Unlock` releases the mutex), and every caller that did not panic can return.
-/
namespace TypVerif.Lemmas.OncePanic
open TypVerif TypVerif.Conc TypVerif.Model TypVerif.Model.OncePanic

theorem rank_eq_zero {p : Once.Pc} (h : rank p = 0) : p = .returned := by
  cases p <;> simp [rank] at h ⊢

theorem holds_facts {p : Once.Pc} (h : holds p = true) :
    p ≠ .returned ∧ p ≠ .read ∧ p ≠ .lock ∧ p ≠ .idle ∧ p ≠ .fast := by
  cases p <;> simp [holds] at h ⊢

/-- a goroutine that is inside `Do` and not gone is enabled, or waits at `Lock` for a holder that is enabled -/
theorem enabled_or_waiting {a : Nat} (res : Nat → List Int) {s : State} (hi : Inv a s) {t : Nat}
    (hnr : s.base.pc t ≠ .returned) (hu : s.unwound t = false) :
    stepT res s t ≠ [] ∨
    (s.base.pc t = .lock ∧ ∃ h, s.base.mu = some h ∧ h ≠ t ∧ h < s.base.pcs.length ∧
      holds (s.base.pc h) = true ∧ s.unwound h = false ∧ stepT res s h ≠ []) := by
  have key : ∀ u, s.unwound u = false → Once.stepT res s.base u ≠ [] → stepT res s u ≠ [] := by
    intro u hu' hne
    unfold stepT
    simp only [hu', Bool.false_eq_true, if_false]
    intro h
    have := List.append_eq_nil_iff.mp h
    exact hne (List.map_eq_nil_iff.mp this.1)
  by_cases hl : s.base.pc t = .lock ∧ s.base.mu ≠ none
  · right
    obtain ⟨hl, hm⟩ := hl
    obtain ⟨h, hh⟩ := Option.ne_none_iff_exists'.mp hm
    obtain ⟨hlt, hho⟩ := hi.base.holder h hh
    have hf := holds_facts hho
    have hne : h ≠ t := by
      intro e; subst e; exact hf.2.2.1 hl
    have huh : s.unwound h = false := by simp [State.unwound, hf.2.1]
    exact ⟨hl, h, hh, hne, hlt, hho, huh,
      key h huh (stepT_enabled res s.base h hf.1 (fun e => absurd e hf.2.2.1))⟩
  · left
    refine key t hu (stepT_enabled res s.base t hnr ?_)
    intro e
    by_cases hm : s.base.mu = none
    · exact hm
    · exact absurd ⟨e, hm⟩ hl

/-- distance to the return of goroutine `t`: its own position, then the position of the mutex holder -/
def measure (s : State) (t : Nat) : Nat :=
  11 * rank (s.base.pc t) + (match s.base.mu with | none => 0 | some h => rank (s.base.pc h))

theorem measure_le (s : State) (t : Nat) : measure s t ≤ 11 * rank (s.base.pc t) + 10 := by
  unfold measure
  split
  · omega
  · have := rank_le (s.base.pc ‹Nat›); omega

/-- while `t` has not returned (and did not panic) some step of `Do` itself brings it closer to its return -/
theorem progress_step {a : Nat} (res : Nat → List Int) {s : State} (hi : Inv a s) {t : Nat}
    (ht : t < s.base.pcs.length) (hp : t ∉ s.panicked) (hnr : s.base.pc t ≠ .returned) :
    ∃ l s', (l, s') ∈ succ res s ∧ measure s' t < measure s t ∧ s'.panicked = s.panicked := by
  have hu : s.unwound t = false := by simp [State.unwound, hp]
  by_cases hl : s.base.pc t = .lock ∧ s.base.mu ≠ none
  · -- the holder moves
    obtain ⟨hl, hm⟩ := hl
    obtain ⟨h, hh⟩ := Option.ne_none_iff_exists'.mp hm
    obtain ⟨hlt, hho⟩ := hi.base.holder h hh
    have hf := holds_facts hho
    have hne : t ≠ h := by
      intro e; subst e; exact hf.2.2.1 hl
    have huh : s.unwound h = false := by simp [State.unwound, hf.2.1]
    have hen := stepT_enabled res s.base h hf.1 (fun e => absurd e hf.2.2.1)
    obtain ⟨p, hp'⟩ := List.exists_mem_of_ne_nil _ hen
    obtain ⟨f1, f2, _, f4⟩ := stepT_facts hlt hp'
    refine ⟨_, _, base_step_mem hlt huh hp', ?_, rfl⟩
    unfold measure
    simp only [f1 t hne, hh]
    rcases f4 with e | e | e
    · rw [e, hh]; simp only; omega
    · rw [e]; simp only; omega
    · exact absurd e.1 hf.2.2.1
  · -- `t` moves
    have hen : Once.stepT res s.base t ≠ [] := by
      refine stepT_enabled res s.base t hnr ?_
      intro e
      by_cases hm : s.base.mu = none
      · exact hm
      · exact absurd ⟨e, hm⟩ hl
    obtain ⟨p, hp'⟩ := List.exists_mem_of_ne_nil _ hen
    obtain ⟨_, f2, _, _⟩ := stepT_facts ht hp'
    refine ⟨_, _, base_step_mem ht hu hp', ?_, rfl⟩
    have h1 := measure_le ⟨p.2, s.panicked⟩ t
    have h2 : 11 * rank (s.base.pc t) ≤ measure s t := by unfold measure; omega
    simp only at h1
    omega

theorem can_reach_returned {n a : Nat} (res : Nat → List Int) (t : Nat) :
    ∀ (k : Nat) (s : (sys n a res).State), Inv a s → measure s t ≤ k → t < s.base.pcs.length → t ∉ s.panicked →
      ∃ ls s', Exec (sys n a res) s ls s' ∧ s'.base.pc t = .returned := by
  intro k
  induction k with
  | zero =>
    intro s _ hm _ _
    refine ⟨[], s, Exec.nil s, rank_eq_zero ?_⟩
    unfold measure at hm
    omega
  | succ k ih =>
    intro s hi hm ht hp
    by_cases hr : s.base.pc t = .returned
    · exact ⟨[], s, Exec.nil s, hr⟩
    · obtain ⟨l, s1, hstep, hlt, hpan⟩ := progress_step res hi ht hp hr
      obtain ⟨ls, s2, he, hret⟩ := ih s1 (inv_step hi hstep) (by omega)
        (by rw [len_step' hstep]; exact ht) (by rw [hpan]; exact hp)
      exact ⟨l :: ls, s2, Exec.cons hstep he, hret⟩

/-- the only step that makes `t` returned is its `ret` -/
theorem step_to_returned {res : Nat → List Int} {s s' : State} {l : Option Event} {t : Nat}
    (hmem : (l, s') ∈ succ res s) (h0 : s.base.pc t ≠ .returned) (h1 : s'.base.pc t = .returned) :
    ∃ r, l = some (Event.ret t r) := by
  rcases step_cases hmem with ⟨t0, lb, ht0, _, hb, hl, _⟩ | ⟨t0, ht0, hpc, _, rfl⟩
  · by_cases e : t = t0
    · subst e
      unfold Once.stepT at hb
      split at hb <;> (try split at hb) <;> simp at hb <;> obtain ⟨rfl, hs⟩ := hb <;> rw [hs] at h1 <;>
        simp [Once.State.setPc, Once.pc_mk _ _ _ _ ht0] at h1
      exact ⟨_, by rw [hl]; rfl⟩
    · rw [(stepT_facts ht0 hb).1 t e] at h1
      exact absurd h1 h0
  · exfalso
    by_cases e : t = t0
    · subst e
      simp [afterPanic, Once.State.setPc, Once.pc_mk _ _ _ _ ht0] at h1
    · simp [afterPanic, Once.State.setPc, Once.pc_mk _ _ _ _ ht0, e] at h1
      exact h0 h1

theorem exec_to_returned {n a : Nat} {res : Nat → List Int} {s s' : (sys n a res).State}
    {ls : List (Option Event)} (h : Exec (sys n a res) s ls s') (t : Nat) :
    s.base.pc t ≠ .returned → s'.base.pc t = .returned → ∃ r, some (Event.ret t r) ∈ ls := by
  induction h with
  | nil s => exact fun h0 h1 => absurd h1 h0
  | @cons s s1 s2 l ls hm _ ih =>
    intro h0 h1
    by_cases e : s1.base.pc t = .returned
    · obtain ⟨r, rfl⟩ := step_to_returned hm h0 e
      exact ⟨r, List.mem_cons_self⟩
    · obtain ⟨r, hr⟩ := ih e h1
      exact ⟨r, List.mem_cons_of_mem _ hr⟩

/-- every caller that has not returned and whose function did not panic can return: some schedule makes it
emit its `ret` -/
theorem can_return {n a : Nat} (res : Nat → List Int) {s : (sys n a res).State} (hi : Inv a s) {t : Nat}
    (ht : t < s.base.pcs.length) (hp : t ∉ s.panicked) (hnr : s.base.pc t ≠ .returned) :
    ∃ ls s' r, Exec (sys n a res) s ls s' ∧ some (Event.ret t r) ∈ ls := by
  obtain ⟨ls, s', he, hret⟩ := can_reach_returned res t _ s hi (Nat.le_refl _) ht hp
  obtain ⟨r, hr⟩ := exec_to_returned he t hnr hret
  exact ⟨ls, s', r, he, hr⟩

end TypVerif.Lemmas.OncePanic
