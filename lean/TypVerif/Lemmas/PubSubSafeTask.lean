import TypVerif.Lemmas.PubSubSafeSend
/-
`Safe` is preserved by the remaining task steps that leave `subs` alone.
-/
namespace TypVerif.Lemmas.PubSubSafe
open TypVerif TypVerif.Model.PubSub

/-- replacement of a task that neither holds the read lock nor sends, by another such task -/
theorem safe_inert {s s' : State} {i : Nat} {t t' : Task} (hs : Safe s) (hi : s.tasks[i]? = some t)
    (htasks : s'.tasks = s.tasks.set i t')
    (hobjs : s'.objs.length = 1) (hsubs : (s'.obj 0).subs = (s.obj 0).subs)
    (hrd : (s'.obj 0).rw.readers = (s.obj 0).rw.readers)
    (hch : s'.chans = s.chans) (hwgs : s'.wgs = s.wgs) (hp : s'.panicked = s.panicked)
    (ht : holdsRead t = false) (ht' : holdsRead t' = false)
    (hw : ∀ w, isWgSend w t = false) (hw' : ∀ w, isWgSend w t' = false)
    (hww : ∀ w, isWaitWg w t = false) (hobj : objOk t') (htarg : targets t' = []) : Safe s' := by
  refine safe_replace (t' := t') hs hi htasks hobjs hsubs ?_ (fun _ => by rw [hch]) (fun _ h => by rw [hch]; exact h)
    ?_ ?_ ?_ hobj ?_ (hp ▸ hs.nopanic)
  · simp [ht, ht', hrd]
  · intro w; simp [hw w, hw' w, hwgs]
  · intro w h; simp [hw' w] at h
  · intro w h; simp [hww w] at h
  · intro c h; simp [htarg] at h

theorem safe_setTask_inert {s : State} {i : Nat} {t t' : Task} (hs : Safe s) (hi : s.tasks[i]? = some t)
    (ht : holdsRead t = false) (ht' : holdsRead t' = false)
    (hw : ∀ w, isWgSend w t = false) (hw' : ∀ w, isWgSend w t' = false)
    (hww : ∀ w, isWaitWg w t = false) (hobj : objOk t') (htarg : targets t' = []) :
    Safe (s.setTask i t') :=
  safe_inert hs hi rfl hs.objs1 rfl rfl rfl rfl rfl ht ht' hw hw' hww hobj htarg

theorem safe_announce_inert {s : State} {i : Nat} {t t' : Task} (hs : Safe s) (hi : s.tasks[i]? = some t)
    (ht : holdsRead t = false) (ht' : holdsRead t' = false)
    (hw : ∀ w, isWgSend w t = false) (hw' : ∀ w, isWgSend w t' = false)
    (hww : ∀ w, isWaitWg w t = false) (hobj : objOk t') (htarg : targets t' = []) :
    Safe ((s.announce 0).setTask i t') := by
  obtain ⟨r, hr⟩ := objs_eq hs
  refine safe_inert hs hi rfl ?_ ?_ ?_ rfl rfl rfl ht ht' hw hw' hww hobj htarg
  · simp [State.setTask, State.announce, State.setObj, hr]
  · simp [State.setTask, State.announce, State.setObj, State.obj, hr]
  · simp [State.setTask, State.announce, State.setObj, State.obj, hr, RW.announce]

theorem mkItems_c_mem {p : Nat} {evs : List Int} {subs : List Chan} {it : Item}
    (h : it ∈ mkItems p evs subs) : it.c ∈ subs := by
  simp only [mkItems, List.mem_flatMap, List.mem_map] at h
  obtain ⟨_, _, c, hc, rfl⟩ := h
  exact hc


/-- new tasks that hold nothing and send nothing -/
theorem safe_spawn {s : State} (ts : List Task) (hs : Safe s)
    (hobj : ∀ t ∈ ts, objOk t) (hr : ∀ t ∈ ts, holdsRead t = false)
    (htarg : ∀ t ∈ ts, targets t = []) (hwg : ∀ t ∈ ts, ∀ w, isWgSend w t = false) : Safe (s.spawn ts) := by
  have hc1 : ts.countP holdsRead = 0 := by
    rw [List.countP_eq_zero]; intro t ht; simp [hr t ht]
  have hc2 : ∀ w, ts.countP (isWgSend w) = 0 := by
    intro w; rw [List.countP_eq_zero]; intro t ht; simp [hwg t ht w]
  constructor
  · exact hs.objs1
  · intro t ht
    rcases List.mem_append.mp ht with h | h
    · exact hs.obj0 t h
    · exact hobj t h
  · show _ = (s.tasks ++ ts).countP holdsRead
    rw [List.countP_append, hc1]; exact hs.readers
  · exact hs.opn
  · exact hs.nodup
  · exact hs.exist
  · intro t ht c hc
    rcases List.mem_append.mp ht with h | h
    · exact hs.targ t h c hc
    · simp [htarg t h] at hc
  · intro w
    show _ = (s.tasks ++ ts).countP (isWgSend w)
    rw [List.countP_append, hc2 w]; exact hs.wgc w
  · intro w hw
    obtain ⟨t, ht, hq⟩ := hs.wgw w hw
    exact ⟨t, List.mem_append.mpr (Or.inl ht), hq⟩
  · exact hs.nopanic

theorem safe_stepAsyncStart {s s' : State} {i : Nat} {it : Item} {l : Option Event}
    (hs : Safe s) (hi : s.tasks[i]? = some (.asyncStart 0 it))
    (h : (l, s') ∈ stepAsyncStart s i 0 it) : Safe s' := by
  obtain ⟨r, hr⟩ := objs_eq hs
  unfold stepAsyncStart at h
  split at h
  · simp at h
  · split at h
    · rename_i hmem
      simp only [List.mem_singleton, Prod.mk.injEq] at h
      obtain ⟨_, rfl⟩ := h
      refine safe_replace (t' := .asyncSend 0 it false) hs hi rfl ?_ ?_ ?_ (fun _ => rfl) (fun _ h => h) ?_ ?_ ?_
        rfl ?_ hs.nopanic
      · simp [State.setTask, State.rlock, State.setObj, hr]
      · simp [State.setTask, State.rlock, State.setObj, State.obj, hr]
      · simp [State.setTask, State.rlock, State.setObj, State.obj, hr, holdsRead, RW.rlock]
      · intro w; simp [State.setTask, State.rlock, State.setObj, isWgSend]
      · intro w h; simp [isWgSend] at h
      · intro w h; simp [isWaitWg] at h
      · intro c hc
        simp only [targets, List.mem_singleton] at hc
        subst hc; exact hmem
    · simp only [List.mem_singleton, Prod.mk.injEq] at h
      obtain ⟨_, rfl⟩ := h
      exact safe_setTask_inert hs hi rfl rfl (fun _ => rfl) (fun _ => rfl) (fun _ => rfl) trivial rfl

theorem safe_stepWaitWg {s s' : State} {i p w : Nat} {l : Option Event}
    (hs : Safe s) (hi : s.tasks[i]? = some (.waitWg p 0 w))
    (h : (l, s') ∈ stepWaitWg s i p 0 w) : Safe s' := by
  obtain ⟨r, hr⟩ := objs_eq hs
  have hpos := readers_pos hs hi rfl
  unfold stepWaitWg at h
  split at h
  · rename_i hz
    simp only [List.mem_singleton, Prod.mk.injEq] at h
    obtain ⟨_, rfl⟩ := h
    refine safe_replace (t' := .pubRet p) hs hi rfl ?_ ?_ ?_ (fun _ => rfl) (fun _ h => h) ?_ ?_ ?_ trivial ?_ hs.nopanic
    · simp [State.setTask, State.runlock, State.setObj, hr]
    · simp [State.setTask, State.runlock, State.setObj, State.obj, hr]
    · simp [State.obj, hr] at hpos
      simp [State.setTask, State.runlock, State.setObj, State.obj, hr, holdsRead, RW.runlock]
      omega
    · intro w'; simp [State.setTask, State.runlock, State.setObj, isWgSend]
    · intro w' h; simp [isWgSend] at h
    · intro w' h
      right
      have : w = w' := by simpa [isWaitWg] using h
      subst this
      have hz' : s.wgs.getD w 0 = 0 := by simpa using hz
      simpa [State.setTask, State.runlock, State.setObj] using hz'
    · intro c h; simp [targets] at h
  · simp at h

end TypVerif.Lemmas.PubSubSafe
