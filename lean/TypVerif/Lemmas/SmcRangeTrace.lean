import TypVerif.Lemmas.SmcRange
/-
C04, `Range` under every schedule, the TRACE-LEVEL reading: "a key present with the same value in every state of a
`Range` call is passed to the callback with that value".

* `exec_no_expunge`     no single step of the model turns a value pointer into `expunged`
                        (the only step writing `expunged` is the CAS nil→expunged of `tryExpungeLocked`).
* `PathAll`             executions with all intermediate states exposed.
* `InLoopVisit`         the invariant carried along the path.
-/
namespace TypVerif.Lemmas.Smc
open TypVerif TypVerif.Conc TypVerif.Model TypVerif.Model.SyncMapConc TypVerif.Model.RelObj
open TypVerif.Model.SyncMap (alookup ainsert aerase akeys)
open TypVerif.Lemmas.SyncMap

set_option linter.unusedSectionVars false
set_option linter.unusedSimpArgs false
set_option linter.unusedVariables false

variable {K V : Type} [DecidableEq K] [DecidableEq V] [Inhabited V]

/-! ### no step expunges a value pointer -/

/-- `sh'` has not expunged any entry that holds a value in `sh` -/
def NoExp (sh sh' : Shared K V) : Prop := ∀ e, isVal (getP sh e) = true → (getP sh' e).isExpunged = false

theorem NoExp.of_getP {sh sh' : Shared K V} (h : ∀ e, getP sh' e = getP sh e) : NoExp sh sh' := by
  intro e hv
  rw [h e]
  exact not_isExpunged_of_isVal hv

theorem NoExp.refl (sh : Shared K V) : NoExp sh sh := NoExp.of_getP (fun _ => rfl)

theorem NoExp.post {sh sh1 sh2 : Shared K V} (h : NoExp sh sh1) (h2 : ∀ e, getP sh2 e = getP sh1 e) : NoExp sh sh2 := by
  intro e hv
  rw [h2 e]
  exact h e hv

theorem NoExp.pre {sh sh1 sh2 : Shared K V} (h : NoExp sh1 sh2) (h1 : ∀ e, getP sh1 e = getP sh e) : NoExp sh sh2 := by
  intro e hv
  rw [← h1 e] at hv
  exact h e hv

theorem NoExp.storeVal (sh : Shared K V) (e' : EId) (v : V) : NoExp sh (storeVal sh e' v) := by
  intro e hv
  rw [getP_storeVal]
  split
  · rfl
  · exact not_isExpunged_of_isVal hv

theorem NoExp.setP_nil (sh : Shared K V) (e' : EId) : NoExp sh (setP sh e' .nil) := by
  intro e hv
  rw [getP_setP]
  split
  · rfl
  · exact not_isExpunged_of_isVal hv

theorem NoExp.setP_expunged {sh : Shared K V} {e' : EId} (hn : (getP sh e').isNil = true) :
    NoExp sh (setP sh e' .expunged) := by
  intro e hv
  rw [getP_setP]
  split
  · rename_i h
    rw [h.1, isNil_iff.mp hn] at hv
    cases hv
  · exact not_isExpunged_of_isVal hv

theorem NoExp.addNew (sh : Shared K V) (k : K) (v : V) : NoExp sh (addNew sh k v) := by
  intro e hv
  rw [getP_addNew]
  split
  · rfl
  · exact not_isExpunged_of_isVal hv

theorem getP_missTail (sh : Shared K V) (k : K) (r : Res K V) (e : EId) : getP (missTail sh k r).1 e = getP sh e := by
  unfold missTail
  simp only
  split <;> rfl

theorem getP_losOk (sh : Shared K V) (c : LosCtx) (k : K) (a : V) (l : Bool) (e : EId) :
    getP (losOk sh c k a l).1 e = getP sh e := by
  cases c
  · rfl
  · rfl
  · exact getP_missTail sh k _ e

theorem getP_losFail (sh : Shared K V) (c : LosCtx) (k : K) (v : V) (e : EId) :
    getP (losFail sh c k v).1 e = getP sh e := by
  cases c
  · rfl
  · rfl
  · exact getP_missTail sh k _ e

theorem getP_losLoaded (sh : Shared K V) (c : LosCtx) (k : K) (v : V) (e' e : EId) :
    getP (losLoaded sh c k v e').1 e = getP sh e := by
  unfold losLoaded
  split
  · exact getP_losFail sh c k v e
  · exact getP_losOk sh c k _ true e
  · rfl

theorem getP_expLoaded (sh : Shared K V) (c : NewCtx) (k : K) (v : V) (rm todo : List (K × EId)) (k' : K) (e' e : EId) :
    getP (expLoaded sh c k v rm todo k' e').1 e = getP sh e := by
  unfold expLoaded
  simp only
  split
  · rfl
  · exact getP_expDone sh _ k' e' e

theorem NoExp.finishNew (sh : Shared K V) (c : NewCtx) (k : K) (v : V) : NoExp sh (finishNew sh c k v).1 :=
  (NoExp.addNew sh k v).post (fun _ => rfl)

theorem NoExp.newTail (sh : Shared K V) (c : NewCtx) (k : K) (v : V) : NoExp sh (newTail sh c k v).1 := by
  unfold SyncMapConc.newTail
  split
  · split
    · exact NoExp.refl sh
    · exact NoExp.refl sh
  · exact NoExp.finishNew sh c k v

/-- **no single step of the model turns a value pointer into `expunged`** -/
theorem exec_noExp {sh sh' : Shared K V} {t : Tid} {pc pc' : Pc K V} (hex : exec sh t pc = some (sh', pc')) :
    NoExp sh sh' := by
  cases pc <;> simp only [exec] at hex
  all_goals try (cases hex; done)
  all_goals (repeat' (split at hex))
  all_goals first
    | (obtain ⟨_, rfl, _⟩ := lockStep_eq_some_iff.mp hex; exact NoExp.of_getP (fun _ => rfl))
    | (simp only [Option.some.injEq, Prod.mk.injEq] at hex
       obtain ⟨rfl, rfl⟩ := hex
       first
       | exact NoExp.refl _
       | exact NoExp.of_getP (fun _ => rfl)
       | exact NoExp.storeVal _ _ _
       | exact (NoExp.storeVal _ _ _).post (fun _ => rfl)
       | exact NoExp.setP_nil _ _
       | exact (NoExp.setP_nil _ _).post (fun e => getP_setDirty _ _ _ e)
       | exact NoExp.setP_expunged (by assumption)
       | exact (NoExp.storeVal _ _ _).post (fun e => getP_losOk _ _ _ _ _ e))
    | (simp only [Option.some.injEq] at hex
       have h1 := congrArg Prod.fst hex
       try simp only at h1
       subst h1
       first
       | exact NoExp.of_getP (getP_losLoaded _ _ _ _ _)
       | exact NoExp.of_getP (getP_expLoaded _ _ _ _ _ _ _ _)
       | exact NoExp.newTail _ _ _ _
       | exact (NoExp.finishNew _ _ _ _).post (fun _ => rfl)
       | exact (NoExp.finishNew _ _ _ _).pre (fun _ => rfl)
       | exact (NoExp.storeVal _ _ _).post (fun e => getP_losOk _ _ _ _ _ e))
    | cases hex

/-! ### steps of the system -/

theorem mem_succ_iff {menu : List (Op K V)} {s s' : State K V} {l : Option (SyncMapConc.Event K V)} :
    (l, s') ∈ succ menu s ↔ ∃ u, u < s.pcs.length ∧ (l, s') ∈ stepT menu s u := by
  unfold succ
  rw [List.mem_flatMap]
  constructor
  · rintro ⟨u, hu, h⟩; exact ⟨u, List.mem_range.mp hu, h⟩
  · rintro ⟨u, hu, h⟩; exact ⟨u, List.mem_range.mpr hu, h⟩

/-- a step of goroutine `u` leaves the program counter of every other goroutine alone -/
theorem stepT_pc_ne {menu : List (Op K V)} {s s' : State K V} {l : Option (SyncMapConc.Event K V)} {u t : Tid}
    (h : (l, s') ∈ stepT menu s u) (hne : t ≠ u) : s'.pc t = s.pc t := by
  rcases mem_stepT_iff.mp h with ⟨_, op, _, _, rfl⟩ | ⟨r, _, _, rfl⟩ | ⟨_, _, _, ⟨sh', pc', _, rfl⟩ | ⟨c, _, rfl⟩⟩
  all_goals exact pc_setPc_ne hne _ _

/-- **no step of the system turns a value pointer into `expunged`** -/
theorem stepT_noExp {menu : List (Op K V)} {s s' : State K V} {l : Option (SyncMapConc.Event K V)} {u : Tid}
    (h : (l, s') ∈ stepT menu s u) : NoExp s.sh s'.sh := by
  rcases mem_stepT_iff.mp h with ⟨_, op, _, _, rfl⟩ | ⟨r, _, _, rfl⟩ | ⟨_, _, _, ⟨sh', pc', hex, rfl⟩ | ⟨c, _, rfl⟩⟩
  · exact NoExp.refl _
  · exact NoExp.refl _
  · exact exec_noExp hex
  · exact NoExp.refl _

theorem succ_noExp {menu : List (Op K V)} {s s' : State K V} {l : Option (SyncMapConc.Event K V)}
    (h : (l, s') ∈ succ menu s) : NoExp s.sh s'.sh := by
  obtain ⟨u, _, hin⟩ := mem_succ_iff.mp h
  exact stepT_noExp hin

/-- the one-step lemma in the form of the task: an entry holding a value is not expunged one step later -/
theorem succ_not_expunged_of_isVal {menu : List (Op K V)} {s s' : State K V} {l : Option (SyncMapConc.Event K V)}
    {e : EId} (hv : isVal (getP s.sh e) = true) (h : (l, s') ∈ succ menu s) : ¬ (getP s'.sh e).isExpunged = true := by
  rw [succ_noExp h e hv]
  exact Bool.false_ne_true

/-! ### paths -/

/-- every state on an execution from `s` to `s'` (both ends included) satisfies `P` -/
inductive PathAll (sys : Conc.Sys) (P : sys.State → Prop) : sys.State → sys.State → Prop where
  | refl {s : sys.State} : P s → PathAll sys P s s
  | step {s s' s'' : sys.State} {l : Option sys.Event} :
      P s → (l, s') ∈ sys.succ s → PathAll sys P s' s'' → PathAll sys P s s''

theorem PathAll.first {sys : Conc.Sys} {P : sys.State → Prop} {s s' : sys.State} (h : PathAll sys P s s') : P s := by
  cases h with
  | refl h => exact h
  | step h _ _ => exact h

theorem PathAll.last {sys : Conc.Sys} {P : sys.State → Prop} {s s' : sys.State} (h : PathAll sys P s s') : P s' := by
  induction h with
  | refl h => exact h
  | step _ _ _ ih => exact ih

theorem PathAll.mono {sys : Conc.Sys} {P Q : sys.State → Prop} (hPQ : ∀ s, P s → Q s) {s s' : sys.State}
    (h : PathAll sys P s s') : PathAll sys Q s s' := by
  induction h with
  | refl h => exact PathAll.refl (hPQ _ h)
  | step h hm _ ih => exact PathAll.step (hPQ _ h) hm ih

/-- the end of a path from a reachable state is reachable -/
theorem PathAll.reachable {sys : Conc.Sys} {P : sys.State → Prop} {s s' : sys.State} (h : PathAll sys P s s')
    (hr : Reachable sys s) : Reachable sys s' := by
  induction h with
  | refl _ => exact hr
  | step _ hm _ ih => exact ih (Reachable.step hr hm)

/-- strengthening along a path: an invariant `I` that holds at the start and is carried by every step whose both ends
satisfy `P` (from a reachable state) holds, together with reachability, in every state of the path -/
theorem PathAll.strengthen {sys : Conc.Sys} {P I : sys.State → Prop}
    (hstep : ∀ s l s', Reachable sys s → P s → I s → (l, s') ∈ sys.succ s → P s' → I s')
    {s s' : sys.State} (h : PathAll sys P s s') (hr : Reachable sys s) (hI : I s) :
    PathAll sys (fun x => Reachable sys x ∧ P x ∧ I x) s s' := by
  induction h with
  | refl h => exact PathAll.refl ⟨hr, h, hI⟩
  | step h hm hrest ih =>
    exact PathAll.step ⟨hr, h, hI⟩ hm (ih (Reachable.step hr hm) (hstep _ _ _ hr h hI hm hrest.first))

/-! ### the invariant of the visit -/

/-- `e` is `read.m[k]` and holds `v` -/
def Held (sh : Shared K V) (k : K) (v : V) (e : EId) : Prop :=
  alookup k sh.readM = some e ∧ (getP sh e).value? = some v

/-- goroutine parked at `pc` inside the `Range` loop (or about to return from it): `f(k, v)` has been called, or the
pair of `k` is still to be visited (or is being visited), is `read.m[k]` and holds `v` -/
def InLoopVisit (sh : Shared K V) (k : K) (v : V) : Pc K V → Prop
  | .rangePick todo acc => (k, v) ∈ acc ∨ ∃ e, (k, e) ∈ todo ∧ Held sh k v e
  | .rangeLoad todo acc k' e' => (k, v) ∈ acc ∨ (k' = k ∧ Held sh k v e') ∨ ∃ e, (k, e) ∈ todo ∧ Held sh k v e
  | .ret (.pairs acc) => (k, v) ∈ acc
  | _ => False

theorem inLoopVisit_rangeNext {sh : Shared K V} {k : K} {v : V} {todo : List (K × EId)} {acc : List (K × V)}
    (h : (k, v) ∈ acc ∨ ∃ e, (k, e) ∈ todo ∧ Held sh k v e) : InLoopVisit sh k v (rangeNext todo acc) := by
  cases todo with
  | nil =>
    rw [rangeNext_nil]
    rcases h with h | ⟨e, he, _⟩
    · exact h
    · cases he
  | cons q todo => rw [rangeNext_cons]; exact h

/-- a held pair stays held across a step after which the key still has the value `v`: the entry cannot have died,
because it held a value and no step expunges a value pointer -/
theorem Held.next {sh sh' : Shared K V} {k : K} {v : V} {e : EId} (h : Held sh k v e) (hn : NoExp sh sh')
    (hh : HoldRead sh' k e) (habs : absOf sh' k = some v) : Held sh' k v e := by
  rcases hh.2 with h1 | h1
  · refine ⟨h1, ?_⟩
    rw [← habs, absOf_of_read h1]
  · have h2 := hn e (by rw [isVal_eq_value?_isSome, h.2]; rfl)
    rw [h1.1] at h2
    cases h2

/-- **loop entry**: after one of the three entering steps, a key that has the value `v` is in the snapshot, held -/
theorem inLoopVisit_entry {s : State K V} {a : AState K V} {t : Tid} (hR : R s a) (hent : RangeEntry s.sh (s.pc t))
    {sh' : Shared K V} {pc' : Pc K V} (hex : exec s.sh t (s.pc t) = some (sh', pc')) {k : K} {v : V}
    (habs : absOf sh' k = some v) : InLoopVisit sh' k v pc' := by
  obtain ⟨rm, rfl, hrm, ham, _, hkeys⟩ := range_snapshot hR hent hex
  have hk : k ∈ akeys rm := hkeys k (by rw [habs]; simp)
  obtain ⟨e, he⟩ := mem_akeys_iff_alookup.mp hk
  apply inLoopVisit_rangeNext
  refine Or.inr ⟨e, mem_of_alookup he, ?_⟩
  rw [hrm] at he
  exact ⟨he, by rw [← habs, absOf_of_read he]⟩

/-- **one step** of any goroutine, from a state satisfying `R`, to a state satisfying `R` in which the key still has the
value `v` and goroutine `t` has not returned: the invariant of the visit is carried over -/
theorem inLoopVisit_step {menu : List (Op K V)} {s s' : State K V} {a a' : AState K V}
    {l : Option (SyncMapConc.Event K V)} (hR : R s a) (hR' : R s' a') (hm : (l, s') ∈ succ menu s) {t : Tid} {k : K}
    {v : V} (hI : InLoopVisit s.sh k v (s.pc t)) (habs : absOf s'.sh k = some v) (hni : s'.pc t ≠ .idle) :
    InLoopVisit s'.sh k v (s'.pc t) := by
  obtain ⟨u, hu, hin⟩ := mem_succ_iff.mp hm
  by_cases hut : t = u
  · -- the goroutine's own step
    subst hut
    rcases mem_stepT_iff.mp hin with ⟨hpc, _⟩ | ⟨r, hpc, _, rfl⟩ | ⟨_, _, _, ⟨sh', pc', hex, rfl⟩ | ⟨c, hc, rfl⟩⟩
    · rw [hpc] at hI; exact hI.elim
    · exact absurd (pc_setPc_self hu _ _) hni
    · rw [pc_setPc_self hu, setPc_sh]
      cases hpc : s.pc t with
      | rangeLoad todo acc k' e' =>
        rw [hpc] at hI hex
        simp only [InLoopVisit] at hI
        cases hp : getP s.sh e' with
        | val i w =>
          rw [exec_rangeLoad_val t todo acc k' hp] at hex
          simp only [Option.some.injEq, Prod.mk.injEq] at hex
          obtain ⟨rfl, rfl⟩ := hex
          apply inLoopVisit_rangeNext
          rcases hI with h | ⟨rfl, h⟩ | h
          · exact Or.inl (List.mem_append_left _ h)
          · have h2 := h.2
            rw [hp] at h2
            simp only [value?_val, Option.some.injEq] at h2
            subst h2
            exact Or.inl (List.mem_append_right _ (List.mem_singleton.mpr rfl))
          · exact Or.inr h
        | nil =>
          rw [exec_rangeLoad_skip t todo acc k' (by rw [hp]; rfl)] at hex
          simp only [Option.some.injEq, Prod.mk.injEq] at hex
          obtain ⟨rfl, rfl⟩ := hex
          apply inLoopVisit_rangeNext
          rcases hI with h | ⟨_, h⟩ | h
          · exact Or.inl h
          · have h2 := h.2
            rw [hp] at h2
            cases h2
          · exact Or.inr h
        | expunged =>
          rw [exec_rangeLoad_skip t todo acc k' (by rw [hp]; rfl)] at hex
          simp only [Option.some.injEq, Prod.mk.injEq] at hex
          obtain ⟨rfl, rfl⟩ := hex
          apply inLoopVisit_rangeNext
          rcases hI with h | ⟨_, h⟩ | h
          · exact Or.inl h
          · have h2 := h.2
            rw [hp] at h2
            cases h2
          · exact Or.inr h
      | rangePick todo acc => rw [hpc] at hex; cases hex
      | ret r => rw [hpc] at hex; cases hex
      | _ => rw [hpc] at hI; exact hI.elim
    · rw [pc_setPc_self hu, setPc_sh]
      cases hpc : s.pc t with
      | rangePick todo acc =>
        rw [hpc] at hI hc
        simp only [InLoopVisit] at hI
        obtain ⟨p, hp, rfl⟩ := mem_picks_rangePick.mp hc
        have hn : (akeys todo).Nodup := (List.nodup_append.mp (hR.range_pick hpc).1).1
        simp only [InLoopVisit]
        rcases hI with h | ⟨e, he, h⟩
        · exact Or.inl h
        · have hp' : (p.1, p.2) ∈ todo := hp
          rcases List.mem_cons.mp ((mem_cons_aerase hn hp').mpr he) with h1 | h1
          · simp only [Prod.mk.injEq] at h1
            right; left
            exact ⟨h1.1.symm, h1.2 ▸ h⟩
          · exact Or.inr (Or.inr ⟨e, h1, h⟩)
      | _ => rw [hpc] at hc; first | (simp [picks] at hc; done) | (rw [hpc] at hI; exact False.elim hI)
  · -- a step of another goroutine
    have hpc : s'.pc t = s.pc t := stepT_pc_ne hin hut
    have hn : NoExp s.sh s'.sh := stepT_noExp hin
    rw [hpc]
    cases hpc0 : s.pc t with
    | rangePick todo acc =>
      rw [hpc0] at hI hpc
      simp only [InLoopVisit] at hI ⊢
      rcases hI with h | ⟨e, he, h⟩
      · exact Or.inl h
      · exact Or.inr ⟨e, he, h.next hn ((hR'.range_pick hpc).2 (k, e) he) habs⟩
    | rangeLoad todo acc k' e' =>
      rw [hpc0] at hI hpc
      simp only [InLoopVisit] at hI ⊢
      have hh := (hR'.range_load hpc).2
      rcases hI with h | ⟨rfl, h⟩ | ⟨e, he, h⟩
      · exact Or.inl h
      · exact Or.inr (Or.inl ⟨rfl, h.next hn (hh (k', e') (List.mem_cons_self ..)) habs⟩)
      · exact Or.inr (Or.inr ⟨e, he, h.next hn (hh (k, e) (List.mem_cons_of_mem _ he)) habs⟩)
    | ret r =>
      rw [hpc0] at hI
      cases r with
      | pairs acc => exact hI
      | _ => exact hI.elim
    | _ => rw [hpc0] at hI; exact hI.elim

/-! ### replay of a schedule with a check of every visited state (for non-vacuity examples) -/

/-- follow a schedule like `runSched`, checking `p` in every state visited (both ends included) -/
def checkPath (sys : Conc.Sys) (p : sys.State → Bool) : List Nat → sys.State → Bool
  | [], s => p s
  | i :: is, s =>
    p s &&
    match (sys.succ s)[i]? with
    | some q => checkPath sys p is q.2
    | none => true

theorem pathAll_of_checkPath {sys : Conc.Sys} (p : sys.State → Bool) (is : List Nat) {s : sys.State}
    (h : checkPath sys p is s = true) : PathAll sys (fun x => p x = true) s (runSched sys is s) := by
  induction is generalizing s with
  | nil => exact PathAll.refl h
  | cons i is ih =>
    unfold checkPath at h
    unfold runSched
    rw [Bool.and_eq_true] at h
    cases hq : (sys.succ s)[i]? with
    | none => exact PathAll.refl h.1
    | some q =>
      have h2 := h.2
      rw [hq] at h2
      have hm : (q.1, q.2) ∈ sys.succ s := List.mem_of_getElem? hq
      exact PathAll.step h.1 hm (ih h2)

end TypVerif.Lemmas.Smc
