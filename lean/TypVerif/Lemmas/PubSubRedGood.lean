import TypVerif.Lemmas.PubSubRedLag
import TypVerif.Lemmas.PubSubLive
/-
C10, completeness of the judge's reduction: the invariant `Good` holds in every reachable state of the system without clones
(`cfg.allowClone = false`), from the invariants `Safe` and `Live` of `Lemmas/PubSubSafe*.lean`, `Lemmas/PubSubLive.lean`.
-/
namespace TypVerif.Lemmas.PubSubRed
open TypVerif TypVerif.Conc TypVerif.Model.PubSub TypVerif.Drv.C10 TypVerif.Lemmas.PubSubSafe TypVerif.Lemmas.PubSubLive

theorem good_of_safe_live {x : State} (hs : Safe x) (hl : Live x) : Good x := by
  constructor
  · intro k tk o hk hr
    have hm : tk ∈ x.tasks := List.mem_of_getElem? hk
    have hok := hs.obj0 tk hm
    have ho : o = 0 ∧ holdsRead tk = true := by
      cases tk <;> simp only [readsOn, Option.some.injEq] at hr <;> first | (subst hr; exact ⟨hok, rfl⟩) | cases hr
    rw [ho.1, hs.readers]
    exact List.countP_pos_iff.mpr ⟨tk, hm, ho.2⟩
  · intro k tk o hk hr
    have hm : tk ∈ x.tasks := List.mem_of_getElem? hk
    have hok := hs.obj0 tk hm
    have ho : o = 0 ∧ isWaiter tk = true := by
      cases tk <;> simp only [waitsOn, Option.some.injEq] at hr <;> first | (subst hr; exact ⟨hok, rfl⟩) | cases hr
    rw [ho.1, hl.waiting]
    exact List.countP_pos_iff.mpr ⟨tk, hm, ho.2⟩
  · intro k w o c g t hk _
    exact (hs.obj0 _ (List.mem_of_getElem? hk)).elim
  · intro g t o hg hl'
    have hm : t ∈ x.tasks := List.mem_of_getElem? hg
    have hok := hs.obj0 t hm
    have ho : o = 0 := by
      cases t with
      | asyncStart o' it => simp only [lagObj, Option.some.injEq] at hl'; subst hl'; exact hok
      | subStart o' c cap => simp only [lagObj, annOf, Option.map_some, Option.some.injEq] at hl'; subst hl'; exact hok
      | unsubStart u o' c =>
        cases c with
        | none => simp [lagObj, annOf] at hl'
        | some c => simp only [lagObj, annOf, Option.map_some, Option.some.injEq] at hl'; subst hl'; exact hok
      | uaStart u o' => simp only [lagObj, annOf, Option.map_some, Option.some.injEq] at hl'; subst hl'; exact hok
      | _ => simp [lagObj, annOf] at hl'
    rw [ho, hs.objs1]
    exact Nat.one_pos

/-- `Good` is an invariant of the system without clones -/
theorem good_reachable_noClone (cfg : Cfg) (hc : cfg.allowClone = false) : ∀ x, Reachable (sys cfg) x → Good x :=
  fun x hr => good_of_safe_live (no_panic_noClone cfg hc x hr) (live_reachable cfg hc x hr)

end TypVerif.Lemmas.PubSubRed
