import TypVerif.Lemmas.ListOps2
/-
Method-level simulation, part 3: MoveToFront / MoveToBack / MoveBefore / MoveAfter.
-/
namespace TypVerif.Lemmas.LinkedList
open TypVerif.Spec.ListOp
open TypVerif.Spec.Seq
open TypVerif.Model
open TypVerif.Model.LinkedList

/-- the computation panics with a nil dereference in a heap representing `w'` -/
def AgreeP {α : Type} (r : Result α) (w' : World) : Prop := ∃ h', r = .panic "nilfunc" h' ∧ Sim h' w'

theorem Sim.setOrder_same {h : Heap} {w : World} (hs : Sim h w) {l : ListId} {xs : List ElemId}
    (hxs : xs = w.lists.get l) : Sim h (w.setOrder l xs) := by
  apply hs.congr
  · intro l'
    show (w.lists.set l xs).get l' = _
    rw [Store.get_set]; split
    · next hl => rw [hl, hxs]
    · rfl
  · intro e; rfl
  · intro e; rfl
  · rfl

theorem move_sim {h : Heap} {w : World} (hs : Sim h w) {l : ListId} {e : ElemId} {at' : Ptr}
    (hown : w.owner.get e = some l) (hne : at' ≠ .elem e)
    (hat : at' ∈ (cyc l ((w.lists.get l).erase e)).dropLast) :
    Agree (move l e at' h) (w.setOrder l (insAfter at' e ((w.lists.get l).erase e))) () := by
  have hnd := hs.nodup l
  obtain ⟨hlk, hlen⟩ := hs.linked_of_mem hown
  have hex : e ∈ w.lists.get l := (hs.mem e l).1 hown
  have hed : Ptr.elem e ∈ (cyc l (w.lists.get l)).dropLast := by
    rw [mem_cyc_dropLast]; exact Or.inr ⟨e, hex, rfl⟩
  have het : Ptr.elem e ∈ (cyc l (w.lists.get l)).tail := by
    rw [cyc_tail]; simp [hex]
  have hp0 : h.prev (.elem e) ≠ .null := mem_cyc_ne_null (List.dropLast_subset _ (Linked.prev_mem hlk het))
  have hn0 : h.next (.elem e) ≠ .null := mem_cyc_ne_null (List.mem_of_mem_tail (Linked.next_mem hlk hed))
  have hpe : h.prev (.elem e) ≠ .elem e := by
    intro hh
    have h1 := Linked.next_prev hlk het
    rw [hh] at h1
    obtain ⟨A, B, hAB, hA, hB, _⟩ := nodup_split hnd hex
    have h2 := Linked.next_elem_cyc hlk hex
    rw [h1, hAB, succOf_split hA] at h2
    cases B with
    | nil => simp [ptrOr] at h2
    | cons b B =>
      simp only [List.head?_cons, ptrOr, Ptr.elem.injEq] at h2
      exact hB (by simp [← h2])
  have key : Linked (unlinkH h e).next (unlinkH h e).prev (cyc l ((w.lists.get l).erase e)) :=
    hs.unlink_linked hown (next_unlinkH h e hp0) (prev_unlinkH h e hn0)
  have hat0 : at' ≠ .null := mem_cyc_ne_null (List.dropLast_subset _ hat)
  have hn2 : (unlinkH h e).next at' ≠ .null :=
    mem_cyc_ne_null (List.mem_of_mem_tail (Linked.next_mem key hat))
  refine ⟨moveH h e at', move_run h l e hne hp0 hn0 hpe hat0 hn2, ?_⟩
  apply hs.move_views hown hat (next_unlinkH h e hp0) (prev_unlinkH h e hn0)
  · intro x; exact next_linkH _ _ hat0 x
  · intro x; exact prev_linkH _ _ _ hn2 x
  · simp [moveH]
  · simp [moveH]
  · simp [moveH]
  · simp [moveH]

theorem getLast?_erase_ne {xs : List ElemId} {x y : ElemId} (h : xs.getLast? = some y) (hyx : y ≠ x) :
    (xs.erase x).getLast? = some y := by
  obtain ⟨A, rfl⟩ := List.getLast?_eq_some_iff.1 h
  by_cases hx : x ∈ A
  · rw [List.erase_append_left _ hx]; simp
  · rw [List.erase_append_right _ hx]
    have : [y].erase x = [y] := by
      rw [List.erase_cons]; simp [hyx]
    rw [this]; simp

theorem predOf_erase {xs : List ElemId} {m x : ElemId} (hnd : xs.Nodup) (hm : m ∈ xs) (hx : x ∈ xs)
    (hxm : x ≠ m) (hp : predOf m xs ≠ some x) : predOf m (xs.erase x) = predOf m xs := by
  obtain ⟨A, B, rfl, hA, hB, hAB⟩ := nodup_split hnd hm
  rw [predOf_split hB] at hp ⊢
  have hmx : m ≠ x := fun hh => hxm hh.symm
  by_cases hxA : x ∈ A
  · rw [List.erase_append_left _ hxA, predOf_split hB]
    cases hl : A.getLast? with
    | none =>
      have : A = [] := by simpa using hl
      subst this; simp at hxA
    | some y =>
      rw [hl] at hp
      have hyx : y ≠ x := fun hh => hp (by rw [hh])
      exact getLast?_erase_ne hl hyx
  · rw [List.erase_append_right _ hxA]
    have : (m :: B).erase x = m :: B.erase x := by
      rw [List.erase_cons]; simp [hmx]
    rw [this, predOf_split (fun hh => hB (List.mem_of_mem_erase hh))]

theorem predOf_mem {xs : List ElemId} {m y : ElemId} (h : predOf m xs = some y) : y ∈ xs := by
  obtain ⟨P, Q, hR, _⟩ := succOf_eq_some h
  have : y ∈ xs.reverse := by rw [hR]; simp
  simpa using this

/-! ### the four public moves (receiver element non-nil) -/

theorem moveToFront_sim {h : Heap} {w : World} (hs : Sim h w) (l : ListId) (x : ElemId) :
    Agree (moveToFront l (.elem x) h) (Spec.Seq.step w (.moveToFront l (some x))).1 () := by
  unfold moveToFront
  simp only []
  rw [bind_ok (getList_ok _ (elem_ne_null x)), hs.owner]
  by_cases ho : w.owner.get x = some l
  · rw [if_neg (not_not_intro ho)]
    obtain ⟨hlk, _⟩ := hs.linked_of_mem ho
    have hx := (hs.mem x l).1 ho
    rw [bind_ok (getNext_ok _ (root_ne_null l)), Linked.next_root hlk]
    simp only [Spec.Seq.step, if_pos ho]
    by_cases hhd : ptrOr l (w.lists.get l).head? = .elem x
    · rw [if_pos hhd]
      have : (w.lists.get l).head? = some x := by
        cases hq : (w.lists.get l).head? with
        | none => rw [hq] at hhd; simp [ptrOr] at hhd
        | some y => rw [hq] at hhd; simp only [ptrOr, Ptr.elem.injEq] at hhd; rw [hhd]
      exact ⟨h, rfl, hs.setOrder_same (move_front_noop this)⟩
    · rw [if_neg hhd]
      exact move_sim hs ho (root_ne_elem x l) (root_mem_dropLast l _)
  · rw [if_pos ho]
    simp only [Spec.Seq.step, if_neg ho]
    exact ⟨h, rfl, hs⟩

theorem moveToBack_sim {h : Heap} {w : World} (hs : Sim h w) (l : ListId) (x : ElemId) :
    Agree (moveToBack l (.elem x) h) (Spec.Seq.step w (.moveToBack l (some x))).1 () := by
  unfold moveToBack
  simp only []
  rw [bind_ok (getList_ok _ (elem_ne_null x)), hs.owner]
  by_cases ho : w.owner.get x = some l
  · rw [if_neg (not_not_intro ho)]
    obtain ⟨hlk, _⟩ := hs.linked_of_mem ho
    have hx := (hs.mem x l).1 ho
    have hnd := hs.nodup l
    rw [bind_ok (getPrev_ok _ (root_ne_null l)), Linked.prev_root hlk]
    simp only [Spec.Seq.step, if_pos ho]
    cases hq : (w.lists.get l).getLast? with
    | none =>
      have : w.lists.get l = [] := by simpa using hq
      rw [this] at hx; simp at hx
    | some y =>
      by_cases hyx : y = x
      · subst hyx
        rw [if_pos (show ptrOr l (some y) = Ptr.elem y from rfl)]
        exact ⟨h, rfl, hs.setOrder_same (move_back_noop hnd hq)⟩
      · have hne : ptrOr l (some y) ≠ .elem x := by simp [ptrOr, hyx]
        rw [if_neg hne, bind_ok (getPrev_ok _ (root_ne_null l)), Linked.prev_root hlk, hq]
        have hq' := getLast?_erase_ne hq hyx
        have hat : ptrOr l (some y) ∈ (cyc l ((w.lists.get l).erase x)).dropLast :=
          ptrOr_mem_dropLast (fun z hz => by cases hz; exact List.mem_of_getLast? hq')
        have := move_sim hs ho hne hat
        have e : insAfter (ptrOr l (some y)) x ((w.lists.get l).erase x) = (w.lists.get l).erase x ++ [x] := by
          rw [← hq']; exact insAfter_last _ (hnd.erase x)
        rw [e] at this
        exact this
  · rw [if_pos ho]
    simp only [Spec.Seq.step, if_neg ho]
    exact ⟨h, rfl, hs⟩

theorem toPtr_eq_elem {x : ElemId} {mark : Arg} : Ptr.elem x = mark.toPtr ↔ some x = mark := by
  cases mark with
  | none => simp [Arg.toPtr]
  | some m => simp [Arg.toPtr]

/-! the specification's moveAfter / moveBefore, case by case -/

theorem spec_moveAfter_foreign {w : World} {l : ListId} {x : ElemId} (mark : Arg) (ho : w.owner.get x ≠ some l) :
    Spec.Seq.step w (.moveAfter l (some x) mark) = (w, .unit) := by
  simp only [Spec.Seq.step, if_pos ho]

theorem spec_moveAfter_self {w : World} {l : ListId} {x : ElemId} {mark : Arg} (ho : w.owner.get x = some l)
    (hxm : some x = mark) : Spec.Seq.step w (.moveAfter l (some x) mark) = (w, .unit) := by
  simp only [Spec.Seq.step, if_neg (not_not_intro ho), if_pos hxm]

theorem spec_moveAfter_nil {w : World} {l : ListId} {x : ElemId} (ho : w.owner.get x = some l) :
    Spec.Seq.step w (.moveAfter l (some x) none) = (w, .panic "nilfunc") := by
  simp only [Spec.Seq.step, if_neg (not_not_intro ho)]
  rw [if_neg (by simp)]

theorem spec_moveAfter_mark {w : World} {l : ListId} {x m : ElemId} (ho : w.owner.get x = some l)
    (hxm : x ≠ m) : Spec.Seq.step w (.moveAfter l (some x) (some m)) =
      if w.owner.get m = some l then (w.setOrder l (insertAfterL m x ((w.lists.get l).erase x)), .unit)
      else (w, .unit) := by
  simp only [Spec.Seq.step, if_neg (not_not_intro ho)]
  rw [if_neg (by simpa using hxm)]

theorem spec_moveBefore_foreign {w : World} {l : ListId} {x : ElemId} (mark : Arg) (ho : w.owner.get x ≠ some l) :
    Spec.Seq.step w (.moveBefore l (some x) mark) = (w, .unit) := by
  simp only [Spec.Seq.step, if_pos ho]

theorem spec_moveBefore_self {w : World} {l : ListId} {x : ElemId} {mark : Arg} (ho : w.owner.get x = some l)
    (hxm : some x = mark) : Spec.Seq.step w (.moveBefore l (some x) mark) = (w, .unit) := by
  simp only [Spec.Seq.step, if_neg (not_not_intro ho), if_pos hxm]

theorem spec_moveBefore_nil {w : World} {l : ListId} {x : ElemId} (ho : w.owner.get x = some l) :
    Spec.Seq.step w (.moveBefore l (some x) none) = (w, .panic "nilfunc") := by
  simp only [Spec.Seq.step, if_neg (not_not_intro ho)]
  rw [if_neg (by simp)]

theorem spec_moveBefore_mark {w : World} {l : ListId} {x m : ElemId} (ho : w.owner.get x = some l)
    (hxm : x ≠ m) : Spec.Seq.step w (.moveBefore l (some x) (some m)) =
      if w.owner.get m = some l then (w.setOrder l (insertBeforeL m x ((w.lists.get l).erase x)), .unit)
      else (w, .unit) := by
  simp only [Spec.Seq.step, if_neg (not_not_intro ho)]
  rw [if_neg (by simpa using hxm)]

/-- MoveAfter with a non-nil receiver element: either agrees, or panics on a nil mark exactly when the
specification does -/
theorem moveAfter_sim {h : Heap} {w : World} (hs : Sim h w) (l : ListId) (x : ElemId) (mark : Arg) :
    (Spec.Seq.step w (.moveAfter l (some x) mark)).2 = .unit ∧
      Agree (moveAfter l (.elem x) mark.toPtr h) (Spec.Seq.step w (.moveAfter l (some x) mark)).1 ()
    ∨ (Spec.Seq.step w (.moveAfter l (some x) mark)).2 = .panic "nilfunc" ∧
      AgreeP (moveAfter l (.elem x) mark.toPtr h) (Spec.Seq.step w (.moveAfter l (some x) mark)).1 := by
  unfold moveAfter
  simp only []
  rw [bind_ok (getList_ok _ (elem_ne_null x)), hs.owner]
  by_cases ho : w.owner.get x = some l
  · rw [if_neg (not_not_intro ho)]
    by_cases hxm : some x = mark
    · rw [if_pos (toPtr_eq_elem.2 hxm), spec_moveAfter_self ho hxm]
      exact Or.inl ⟨rfl, h, rfl, hs⟩
    · rw [if_neg (fun hh => hxm (toPtr_eq_elem.1 hh))]
      cases mark with
      | none =>
        rw [spec_moveAfter_nil ho]
        exact Or.inr ⟨rfl, h, rfl, hs⟩
      | some m =>
        left
        have hxm' : x ≠ m := fun hh => hxm (by rw [hh])
        rw [spec_moveAfter_mark ho hxm']
        simp only [Arg.toPtr]
        rw [bind_ok (getList_ok _ (elem_ne_null m)), hs.owner]
        by_cases hom : w.owner.get m = some l
        · rw [if_neg (not_not_intro hom), if_pos hom]
          refine ⟨rfl, ?_⟩
          have hm := (hs.mem m l).1 hom
          have hm' : m ∈ (w.lists.get l).erase x := by
            rw [(hs.nodup l).mem_erase_iff]; exact ⟨fun hh => hxm' hh.symm, hm⟩
          have hat : Ptr.elem m ∈ (cyc l ((w.lists.get l).erase x)).dropLast := by
            rw [mem_cyc_dropLast]; exact Or.inr ⟨m, hm', rfl⟩
          exact move_sim hs ho (fun hh => hxm' (by cases hh; rfl)) hat
        · rw [if_pos hom, if_neg hom]
          exact ⟨rfl, h, rfl, hs⟩
  · rw [if_pos ho, spec_moveAfter_foreign mark ho]
    exact Or.inl ⟨rfl, h, rfl, hs⟩

theorem moveBefore_sim {h : Heap} {w : World} (hs : Sim h w) (l : ListId) (x : ElemId) (mark : Arg) :
    (Spec.Seq.step w (.moveBefore l (some x) mark)).2 = .unit ∧
      Agree (moveBefore l (.elem x) mark.toPtr h) (Spec.Seq.step w (.moveBefore l (some x) mark)).1 ()
    ∨ (Spec.Seq.step w (.moveBefore l (some x) mark)).2 = .panic "nilfunc" ∧
      AgreeP (moveBefore l (.elem x) mark.toPtr h) (Spec.Seq.step w (.moveBefore l (some x) mark)).1 := by
  unfold moveBefore
  simp only []
  rw [bind_ok (getList_ok _ (elem_ne_null x)), hs.owner]
  by_cases ho : w.owner.get x = some l
  · rw [if_neg (not_not_intro ho)]
    by_cases hxm : some x = mark
    · rw [if_pos (toPtr_eq_elem.2 hxm), spec_moveBefore_self ho hxm]
      exact Or.inl ⟨rfl, h, rfl, hs⟩
    · rw [if_neg (fun hh => hxm (toPtr_eq_elem.1 hh))]
      cases mark with
      | none =>
        rw [spec_moveBefore_nil ho]
        exact Or.inr ⟨rfl, h, rfl, hs⟩
      | some m =>
        left
        have hxm' : x ≠ m := fun hh => hxm (by rw [hh])
        rw [spec_moveBefore_mark ho hxm']
        simp only [Arg.toPtr]
        rw [bind_ok (getList_ok _ (elem_ne_null m)), hs.owner]
        by_cases hom : w.owner.get m = some l
        · rw [if_neg (not_not_intro hom), if_pos hom]
          refine ⟨rfl, ?_⟩
          have hnd := hs.nodup l
          obtain ⟨hlk, _⟩ := hs.linked_of_mem ho
          have hx := (hs.mem x l).1 ho
          have hm := (hs.mem m l).1 hom
          have hm' : m ∈ (w.lists.get l).erase x := by
            rw [hnd.mem_erase_iff]; exact ⟨fun hh => hxm' hh.symm, hm⟩
          rw [bind_ok (getPrev_ok _ (elem_ne_null m)), Linked.prev_elem_cyc hlk hm]
          by_cases hp : predOf m (w.lists.get l) = some x
          · rw [hp]
            show Agree (move l x (.elem x) h) _ ()
            rw [move_same]
            exact ⟨h, rfl, hs.setOrder_same (move_before_noop hnd hp)⟩
          · have hpe := predOf_erase hnd hm hx hxm' hp
            have hne : ptrOr l (predOf m (w.lists.get l)) ≠ .elem x := by
              cases hq : predOf m (w.lists.get l) with
              | none => simp [ptrOr]
              | some y =>
                simp only [ptrOr, ne_eq, Ptr.elem.injEq]
                intro hh; rw [hq, hh] at hp; exact hp rfl
            have hat : ptrOr l (predOf m (w.lists.get l)) ∈ (cyc l ((w.lists.get l).erase x)).dropLast := by
              rw [← hpe]
              exact ptrOr_mem_dropLast (fun z hz => predOf_mem hz)
            have := move_sim hs ho hne hat
            have e : insAfter (ptrOr l (predOf m (w.lists.get l))) x ((w.lists.get l).erase x)
                = insertBeforeL m x ((w.lists.get l).erase x) := by
              rw [← hpe]; exact insAfter_pred _ (hnd.erase x) hm'
            rw [e] at this
            exact this
        · rw [if_pos hom, if_neg hom]
          exact ⟨rfl, h, rfl, hs⟩
  · rw [if_pos ho, spec_moveBefore_foreign mark ho]
    exact Or.inl ⟨rfl, h, rfl, hs⟩

end TypVerif.Lemmas.LinkedList
