import TypVerif.Lemmas.ConcAccept
import TypVerif.Drv.C10
/-
C10 judge, part 3: the hash-set closure only ever adds `norm`s of internal `succJ`-successors of frontier states
(abstract invariant form, `closure_inv`), and the transition system is monotone in the environment menu.
-/
namespace TypVerif.Lemmas.ConcAcceptC10
open TypVerif TypVerif.Conc TypVerif.Model.PubSub TypVerif.Drv.C10

theorem C_foldl_inv {α β : Type} (Inv : β → Prop) (f : β → α → β) :
    ∀ (l : List α) (b : β), Inv b → (∀ acc x, x ∈ l → Inv acc → Inv (f acc x)) → Inv (l.foldl f b) := by
  intro l
  induction l with
  | nil => intro b hb _; exact hb
  | cons y ys ih =>
    intro b hb hf
    rw [List.foldl_cons]
    exact ih _ (hf b y List.mem_cons_self hb) (fun acc x hx => hf acc x (List.mem_cons_of_mem _ hx))

/-- the body of one closure round -/
def closureRound (cfg : Cfg) (seen : Std.HashSet State) (frontier : List State) : Std.HashSet State × List State :=
  frontier.foldl (fun (acc : Std.HashSet State × List State) s =>
    (succJ cfg s).foldl (fun (acc : Std.HashSet State × List State) p =>
      match p.1 with
      | some _ => acc
      | none =>
        let s' := norm p.2
        if acc.1.contains s' then acc else (acc.1.insert s', s' :: acc.2)) acc) (seen, [])

theorem closure_zero (cfg : Cfg) (seen : Std.HashSet State) (fr : List State) : closure cfg 0 seen fr = seen := by
  unfold closure; rfl

theorem closure_nil (cfg : Cfg) (n : Nat) (seen : Std.HashSet State) : closure cfg n seen [] = seen := by
  cases n <;> (unfold closure; rfl)

theorem closure_succ_cons (cfg : Cfg) (n : Nat) (seen : Std.HashSet State) (x : State) (xs : List State) :
    closure cfg (n + 1) seen (x :: xs) =
      if seen.size > stateCap then seen else
        closure cfg n (closureRound cfg seen (x :: xs)).1 (closureRound cfg seen (x :: xs)).2 := by
  rw [closure] <;> first | rfl | (intro h; cases h)

theorem closureRound_inv (cfg : Cfg) (P Q : State → Prop)
    (hstep : ∀ t u, Q t → (none, u) ∈ succJ cfg t → Q (norm u) ∧ P (norm u))
    (seen : Std.HashSet State) (frontier : List State)
    (hseen : ∀ t, t ∈ seen → P t) (hfr : ∀ t ∈ frontier, Q t) :
    (∀ t, t ∈ (closureRound cfg seen frontier).1 → P t) ∧ (∀ t ∈ (closureRound cfg seen frontier).2, Q t) := by
  unfold closureRound
  refine C_foldl_inv (fun acc : Std.HashSet State × List State => (∀ t, t ∈ acc.1 → P t) ∧ (∀ t ∈ acc.2, Q t))
    _ frontier (seen, []) ⟨hseen, by intro t ht; cases ht⟩ ?_
  intro acc s hs hacc
  refine C_foldl_inv (fun acc : Std.HashSet State × List State => (∀ t, t ∈ acc.1 → P t) ∧ (∀ t ∈ acc.2, Q t))
    _ (succJ cfg s) acc hacc ?_
  intro acc2 p hp hacc2
  obtain ⟨l, u⟩ := p
  cases l with
  | some e => exact hacc2
  | none =>
    obtain ⟨hQ, hP⟩ := hstep s u (hfr s hs) hp
    simp only
    split
    · exact hacc2
    · refine ⟨?_, ?_⟩
      · intro t ht
        rcases Std.HashSet.mem_insert.1 ht with h | h
        · have : norm u = t := eq_of_beq h
          exact this ▸ hP
        · exact hacc2.1 t h
      · intro t ht
        rcases List.mem_cons.1 ht with h | h
        · exact h ▸ hQ
        · exact hacc2.2 t h

/-- abstract soundness of the closure: `P` holds of the result if it holds of the initial set, `Q` holds of the initial
frontier, and the `norm` of an internal `succJ` successor of a `Q`-state satisfies both `Q` and `P`
(the closure only ever inserts such states, and only ever expands frontier states) -/
theorem closure_inv (cfg : Cfg) (P Q : State → Prop)
    (hstep : ∀ t u, Q t → (none, u) ∈ succJ cfg t → Q (norm u) ∧ P (norm u)) :
    ∀ (n : Nat) (seen : Std.HashSet State) (frontier : List State),
      (∀ t, t ∈ seen → P t) → (∀ t ∈ frontier, Q t) → ∀ t, t ∈ closure cfg n seen frontier → P t := by
  intro n
  induction n with
  | zero => intro seen fr hseen _ t ht; rw [closure_zero] at ht; exact hseen t ht
  | succ n ih =>
    intro seen fr hseen hfr t ht
    cases fr with
    | nil => rw [closure_nil] at ht; exact hseen t ht
    | cons x xs =>
      rw [closure_succ_cons] at ht
      split at ht
      · exact hseen t ht
      · obtain ⟨h1, h2⟩ := closureRound_inv cfg P Q hstep seen (x :: xs) hseen hfr
        exact ih _ _ h1 h2 t ht

/-- membership in a hash set built by inserting the elements of a list -/
theorem mem_foldl_insert (l : List State) (t : State)
    (h : t ∈ l.foldl (fun (acc : Std.HashSet State) s => acc.insert s) {}) : t ∈ l := by
  refine C_foldl_inv (fun acc : Std.HashSet State => t ∈ acc → t ∈ l) _ l {} ?_ ?_ h
  · intro h; exact absurd h Std.HashSet.not_mem_empty
  · intro acc x hx hacc h
    rcases Std.HashSet.mem_insert.1 h with h | h
    · have : x = t := eq_of_beq h
      exact this ▸ hx
    · exact hacc h

/-! ### monotonicity in the environment menu -/

/-- the invocation events: the only events the environment can issue -/
def isInv : Event → Bool
  | .sub _ _ | .mkchan _ | .withonly _ _ _ | .pubinv _ _ _ _ | .allow _ _ | .unsubinv _ _ _ | .unsuballinv _ _ => true
  | _ => false

theorem envStep_none_of_not_isInv (cfg : Cfg) (s : State) (e : Event) (h : isInv e = false) : envStep cfg s e = none := by
  cases e <;> simp [isInv] at h <;> rfl

theorem envStep_env (cfg : Cfg) (E : List Event) (s : State) (e : Event) :
    envStep { cfg with env := E } s e = envStep cfg s e := by
  cases e <;> rfl

theorem stepTask_env (cfg : Cfg) (E : List Event) (s : State) (i : Nat) (t : Task) :
    stepTask { cfg with env := E } s i t = stepTask cfg s i t := by
  cases t <;> first | rfl | (rename_i c; cases c <;> rfl)

theorem taskSteps_env (cfg : Cfg) (E : List Event) (s : State) (i : Nat) :
    taskSteps { cfg with env := E } s i = taskSteps cfg s i := by
  unfold taskSteps
  split
  · rfl
  · exact stepTask_env cfg E s i _

theorem succ_env_mono (cfg : Cfg) (E1 E2 : List Event)
    (h : ∀ e ∈ E1, e ∈ E2 ∨ isInv e = false) (s : State) (p : Option Event × State)
    (hp : p ∈ succ { cfg with env := E1 } s) : p ∈ succ { cfg with env := E2 } s := by
  cases hx : s.exited with
  | true => simp [succ, hx] at hp
  | false =>
    cases hm : s.panicked with
    | some m =>
      simp only [succ, hx, hm, Bool.false_eq_true, ↓reduceIte] at hp ⊢
      exact hp
    | none =>
      simp only [succ, hx, hm, Bool.false_eq_true, ↓reduceIte] at hp ⊢
      rcases List.mem_append.1 hp with hp | hp
      · rcases List.mem_append.1 hp with hp | hp
        · rcases List.mem_append.1 hp with hp | hp
          · refine List.mem_append_left _ (List.mem_append_left _ (List.mem_append_left _ ?_))
            unfold envSteps at hp ⊢
            obtain ⟨e, he, hpe⟩ := List.mem_filterMap.1 hp
            simp only [envStep_env] at hpe ⊢
            rcases h e he with h2 | h2
            · exact List.mem_filterMap.2 ⟨e, h2, hpe⟩
            · rw [envStep_none_of_not_isInv cfg s e h2] at hpe; cases hpe
          · exact List.mem_append_left _ (List.mem_append_left _ (List.mem_append_right _ hp))
        · exact List.mem_append_left _ (List.mem_append_right _ hp)
      · exact List.mem_append_right _ hp

theorem exec_env_mono (cfg : Cfg) (E1 E2 : List Event)
    (h : ∀ e ∈ E1, e ∈ E2 ∨ isInv e = false) {a b : State} {ls : List (Option Event)}
    (hex : Exec (sys { cfg with env := E1 }) a ls b) : Exec (sys { cfg with env := E2 }) a ls b := by
  refine Exec.rel_induct (sys' := sys { cfg with env := E1 })
    (fun a ls b => Exec (sys { cfg with env := E2 }) a ls b) ?_ ?_ hex
  · intro s; exact Exec.nil _
  · intro s l s' ls s'' hm ih
    exact Exec.cons (succ_env_mono cfg E1 E2 h s (l, s') hm) ih

end TypVerif.Lemmas.ConcAcceptC10
