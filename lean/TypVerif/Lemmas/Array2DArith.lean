/-
Index arithmetic for Array2D (row stride = width), on raw `Int` expressions so that the lemmas apply both to the
regenerated kernels `Gen.A2D.*` and to the model.  Products of two variables are atoms for `omega`; the lemmas
below supply the facts about those atoms that `omega` needs.
-/
namespace TypVerif.Lemmas.Array2DArith

/-- `omega` after distributing products over sums (`(y+1)*w` ↦ `y*w + w`), so that reshaped but equal index
expressions coming from the regenerated kernels are still recognised -/
macro "idx_omega" : tactic =>
  `(tactic| first | omega | (simp only [Int.add_mul, Int.mul_add, Int.one_mul, Int.mul_one, true_and, and_true] at * <;> omega))

/-- one more row is one more stride -/
theorem mul_step {w y y' : Int} (hw : 0 ≤ w) (h : y + 1 ≤ y') : y * w + w ≤ y' * w := by
  have h1 : (y + 1) * w ≤ y' * w := Int.mul_le_mul_of_nonneg_right h hw
  have h2 : (y + 1) * w = y * w + w := by rw [Int.add_mul, Int.one_mul]
  omega

theorem mul_nonneg' {w y : Int} (hw : 0 ≤ w) (hy : 0 ≤ y) : 0 ≤ y * w := Int.mul_nonneg hy hw

/-- the last row ends inside `w*h` -/
theorem row_end_le {w h y : Int} (hw : 0 ≤ w) (hy : y < h) : y * w + w ≤ w * h := by
  have := mul_step (w := w) (y := y) (y' := h) hw (by omega)
  have := Int.mul_comm h w
  omega

/-- in-bounds coordinates give an in-bounds index -/
theorem idx_lt {w h x y : Int} (hx0 : 0 ≤ x) (hxw : x < w) (hy0 : 0 ≤ y) (hyh : y < h) :
    0 ≤ x + y * w ∧ x + y * w < w * h := by
  have hw : 0 ≤ w := by omega
  have h1 := mul_nonneg' hw hy0
  have h2 := row_end_le hw hyh
  omega

/-- lexicographic comparison of linear indices -/
theorem idx_lt_of_row_lt {w x x' y y' : Int} (hw : 0 ≤ w) (hx0 : 0 ≤ x') (hxw : x < w) (hyy : y < y') :
    x + y * w < x' + y' * w := by
  have := mul_step (w := w) (y := y) (y' := y') hw (by omega)
  omega

/-- the linear index determines the coordinates -/
theorem idx_inj {w x y x' y' : Int} (hx0 : 0 ≤ x) (hxw : x < w) (hx0' : 0 ≤ x') (hxw' : x' < w)
    (e : x + y * w = x' + y' * w) : x = x' ∧ y = y' := by
  have hy : y = y' := by
    rcases Int.lt_trichotomy y y' with h | h | h
    · have := idx_lt_of_row_lt (w := w) (by omega) (x := x) (x' := x') hx0' hxw h; omega
    · exact h
    · have := idx_lt_of_row_lt (w := w) (by omega) (x := x') (x' := x) hx0 hxw' h; omega
  subst hy
  omega

/-- a window `[x1 + y*w, 1 + x2 + y*w)` contains exactly the cells `(x1..x2, y)` -/
theorem idx_in_window {w x1 x2 y x' y' : Int} (h1 : 0 ≤ x1) (h2 : x2 < w) (hx0 : 0 ≤ x') (hxw : x' < w) :
    (x1 + y * w ≤ x' + y' * w ∧ x' + y' * w < 1 + x2 + y * w) ↔ (y' = y ∧ x1 ≤ x' ∧ x' ≤ x2) := by
  constructor
  · intro ⟨ha, hb⟩
    have hy : y' = y := by
      rcases Int.lt_trichotomy y' y with h | h | h
      · have := idx_lt_of_row_lt (w := w) (by omega) (x := x') (x' := x1) h1 hxw h; omega
      · exact h
      · have := idx_lt_of_row_lt (w := w) (by omega) (x := x2) (x' := x') hx0 h2 h; omega
    subst hy
    omega
  · intro ⟨hy, ha, hb⟩
    subst hy
    omega

end TypVerif.Lemmas.Array2DArith
