import TypVerif.Lemmas.C09AcceptRel
namespace TypVerif.Lemmas.C09Accept
open TypVerif TypVerif.Conc TypVerif.Model.KeyedMutex TypVerif.Drv.C09

/-! ### the sorts are permutations -/

theorem nrm_insertSorted_perm (x : Nat) (l : List Nat) : (insertSorted x l).Perm (x :: l) := by
  induction l with
  | nil => exact List.Perm.refl _
  | cons y ys ih =>
    unfold insertSorted
    split
    · exact List.Perm.refl _
    · exact ((List.Perm.cons y ih).trans (List.Perm.swap x y ys))

theorem nrm_sortNat_perm (l : List Nat) : (sortNat l).Perm l := by
  induction l with
  | nil => exact List.Perm.refl _
  | cons y ys ih =>
    show (insertSorted y (sortNat ys)).Perm (y :: ys)
    exact (nrm_insertSorted_perm y _).trans (List.Perm.cons y ih)

theorem nrm_insertPair_perm (x : Nat × Nat) (l : List (Nat × Nat)) : (insertPair x l).Perm (x :: l) := by
  induction l with
  | nil => exact List.Perm.refl _
  | cons y ys ih =>
    unfold insertPair
    split
    · exact List.Perm.refl _
    · exact ((List.Perm.cons y ih).trans (List.Perm.swap x y ys))

theorem nrm_sortPairs_perm (l : List (Nat × Nat)) : (sortPairs l).Perm l := by
  induction l with
  | nil => exact List.Perm.refl _
  | cons y ys ih =>
    show (insertPair y (sortPairs ys)).Perm (y :: ys)
    exact (nrm_insertPair_perm y _).trans (List.Perm.cons y ih)

/-! ### the fold computing the live ids -/

def nrm_step (acc : List Nat) (p : Pc) : List Nat :=
  match pcLocal p with
  | some m => if acc.contains m then acc else acc ++ [m]
  | none => acc

theorem nrm_normLive_eq (s : State) : normLive s = s.pcs.foldl nrm_step ((normMap s).map (·.2)) := rfl

theorem nrm_step_mono {acc : List Nat} {p : Pc} {m : Nat} (h : m ∈ acc) : m ∈ nrm_step acc p := by
  unfold nrm_step
  split
  · split
    · exact h
    · exact List.mem_append_left _ h
  · exact h

theorem nrm_step_local {acc : List Nat} {p : Pc} {m : Nat} (h : pcLocal p = some m) : m ∈ nrm_step acc p := by
  unfold nrm_step
  rw [h]
  show m ∈ if acc.contains m then acc else acc ++ [m]
  split
  · rename_i hc
    exact List.contains_iff_mem.mp hc
  · exact List.mem_append_right _ (List.mem_singleton.mpr rfl)

theorem nrm_fold_mono (ps : List Pc) {acc : List Nat} {m : Nat} (h : m ∈ acc) : m ∈ ps.foldl nrm_step acc := by
  induction ps generalizing acc with
  | nil => exact h
  | cons p ps ih => exact ih (nrm_step_mono h)

theorem nrm_fold_local (ps : List Pc) (acc : List Nat) {p : Pc} {m : Nat} (hp : p ∈ ps) (h : pcLocal p = some m) :
    m ∈ ps.foldl nrm_step acc := by
  induction ps generalizing acc with
  | nil => cases hp
  | cons q qs ih =>
    rcases List.mem_cons.mp hp with rfl | hq
    · exact nrm_fold_mono qs (nrm_step_local h)
    · exact ih _ hq

theorem nrm_live_mem {s : State} {m : Nat} (h : Live s m) : m ∈ normLive s := by
  rw [nrm_normLive_eq]
  rcases h with ⟨k, hk⟩ | ⟨p, hp, hl⟩
  · apply nrm_fold_mono
    have : (k, m) ∈ normMap s := (nrm_sortPairs_perm s.map).mem_iff.mpr hk
    exact List.mem_map.mpr ⟨(k, m), this, rfl⟩
  · exact nrm_fold_local _ _ hp hl

/-! ### the renaming on members of `normLive` -/

theorem nrm_normF_spec {s : State} {m : Nat} (h : m ∈ normLive s) :
    ∃ hlt : normF s m < (normLive s).length, (normLive s)[normF s m] = m := by
  unfold normF
  cases hf : (normLive s).findIdx? (· == m) with
  | none =>
    have := List.findIdx?_eq_none_iff.mp hf m h
    simp at this
  | some i =>
    obtain ⟨hlt, hp, _⟩ := List.findIdx?_eq_some_iff_getElem.mp hf
    refine ⟨hlt, ?_⟩
    show (normLive s)[i] = m
    exact eq_of_beq hp

theorem nrm_normCell_muEq (s : State) (m : Nat) : MuEq (normCell s m) (s.mu m) :=
  ⟨rfl, nrm_sortNat_perm _, nrm_sortNat_perm _, nrm_sortNat_perm _⟩

theorem nrm_norm_mu {s : State} {m : Nat} (h : m ∈ normLive s) : (norm s).mu (normF s m) = normCell s m := by
  obtain ⟨hlt, hget⟩ := nrm_normF_spec h
  rw [norm_eq]
  show ((normLive s).map (normCell s)).getD (normF s m) Mu.free = normCell s m
  rw [List.getD_eq_getElem?_getD, List.getElem?_map, List.getElem?_eq_getElem hlt, hget]
  rfl

/-- `norm s` is `s` up to the renaming `normF s` (no hypothesis on `s`) -/
theorem rel_norm (s : State) : Rel (normF s) s (norm s) where
  pcs := by rw [norm_eq]
  map := by
    rw [norm_eq]
    exact (nrm_sortPairs_perm s.map).map _
  inj := by
    intro m m' hm hm' he
    obtain ⟨_, h1⟩ := nrm_normF_spec (nrm_live_mem hm)
    obtain ⟨_, h2⟩ := nrm_normF_spec (nrm_live_mem hm')
    rw [← h1, ← h2]
    simp only [he]
  ltX := by
    intro m hm
    obtain ⟨hlt, _⟩ := nrm_normF_spec (nrm_live_mem hm)
    rw [norm_eq]
    show normF s m < ((normLive s).map (normCell s)).length
    rw [List.length_map]
    exact hlt
  mu := by
    intro m hm
    rw [nrm_norm_mu (nrm_live_mem hm)]
    exact nrm_normCell_muEq s m
  wh := by
    rw [norm_eq]
    exact nrm_sortPairs_perm s.wh
  rh := by
    rw [norm_eq]
    exact nrm_sortPairs_perm s.rh

/-! ### composition -/

theorem nrm_pcLocal_renPc (f : Nat → Nat) (p : Pc) : pcLocal (renPc f p) = (pcLocal p).map f := by
  cases p <;> rfl

theorem nrm_renPc_comp (f g : Nat → Nat) (p : Pc) : renPc g (renPc f p) = renPc (fun m => g (f m)) p := by
  cases p <;> rfl

theorem nrm_live_of_rel {f : Nat → Nat} {a b : State} (h : Rel f a b) {m : Nat} (hm : Live a m) : Live b (f m) := by
  rcases hm with ⟨k, hk⟩ | ⟨p, hp, hl⟩
  · left
    refine ⟨k, h.map.mem_iff.mpr ?_⟩
    exact List.mem_map.mpr ⟨(k, m), hk, rfl⟩
  · right
    refine ⟨renPc f p, ?_, ?_⟩
    · rw [h.pcs]
      exact List.mem_map.mpr ⟨p, hp, rfl⟩
    · rw [nrm_pcLocal_renPc, hl]
      rfl

theorem nrm_MuEq_trans {x y z : Mu} (h1 : MuEq x y) (h2 : MuEq y z) : MuEq x z :=
  ⟨h1.1.trans h2.1, h1.2.1.trans h2.2.1, h1.2.2.1.trans h2.2.2.1, h1.2.2.2.trans h2.2.2.2⟩

/-- composition of renamings -/
theorem Rel.trans {f g : Nat → Nat} {a b c : State} (h1 : Rel f a b) (h2 : Rel g b c) :
    Rel (fun m => g (f m)) a c where
  pcs := by
    rw [h2.pcs, h1.pcs, List.map_map]
    apply List.map_congr_left
    intro p _
    exact nrm_renPc_comp f g p
  map := by
    refine h2.map.trans ?_
    have := h1.map.map (fun p : Nat × Nat => (p.1, g p.2))
    refine this.trans ?_
    rw [List.map_map]
    exact List.Perm.refl _
  inj := by
    intro m m' hm hm' he
    exact h1.inj m m' hm hm' (h2.inj _ _ (nrm_live_of_rel h1 hm) (nrm_live_of_rel h1 hm') he)
  ltX := fun m hm => h2.ltX _ (nrm_live_of_rel h1 hm)
  mu := fun m hm => nrm_MuEq_trans (h2.mu _ (nrm_live_of_rel h1 hm)) (h1.mu m hm)
  wh := h2.wh.trans h1.wh
  rh := h2.rh.trans h1.rh

theorem R_norm {a x : State} (h : R a x) : R a (norm x) := by
  obtain ⟨hwf, f, hf⟩ := h
  exact ⟨hwf, fun m => normF x (f m), Rel.trans hf (rel_norm x)⟩

end TypVerif.Lemmas.C09Accept
