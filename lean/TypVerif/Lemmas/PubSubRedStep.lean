import TypVerif.Lemmas.PubSubRedBase
/-
C10, completeness of the judge's reduction: a lag step (`lagT`) of task `g` RIGHT-COMMUTES with every step of every other task, of a
receiver, of the environment: whatever can be done after the lag step can be done before it, with the same label, and the lag step
can still be done afterwards and leads to the same state.
-/
namespace TypVerif.Lemmas.PubSubRed
open TypVerif TypVerif.Conc TypVerif.Model.PubSub TypVerif.Drv.C10

/-- what the commutation needs of the function applied to the RWMutex -/
structure FOK (f : RW → RW) : Prop where
  crl : ∀ rw, (f rw).canRLock = true → rw.canRLock = true
  cl : ∀ rw, (f rw).canLock = true → rw.canLock = true
  rl : ∀ rw, f rw.rlock = (f rw).rlock
  an : ∀ rw, f rw.announce = (f rw).announce
  ru : ∀ rw, 0 < rw.readers → f rw.runlock = (f rw).runlock
  lu : ∀ rw, (f rw).canLock = true → 0 < rw.waiting → f rw.lockUnlock = (f rw).lockUnlock

theorem fok_rlock : FOK RW.rlock where
  crl := by intro rw h; simpa [RW.canRLock, RW.rlock] using h
  cl := by intro rw h; simp [RW.canLock, RW.rlock] at h
  rl := by intro rw; rfl
  an := by intro rw; rfl
  ru := by
    intro rw h
    simp only [RW.rlock, RW.runlock]
    congr 1; omega
  lu := by intro rw h; simp [RW.canLock, RW.rlock] at h

theorem fok_announce : FOK RW.announce where
  crl := by intro rw h; simp [RW.canRLock, RW.announce] at h
  cl := by intro rw h; simpa [RW.canLock, RW.announce] using h
  rl := by intro rw; rfl
  an := by intro rw; rfl
  ru := by intro rw _; rfl
  lu := by
    intro rw _ h
    simp only [RW.announce, RW.lockUnlock]
    congr 1; omega

/-- every step of `A` is a step of `B` followed by `T`, and the state reached by `B` satisfies `P` -/
def Sub (T : State → State) (P : State → Prop) (A B : Steps) : Prop := ∀ p ∈ A, ∃ q ∈ B, p = (q.1, T q.2) ∧ P q.2

theorem sub_nil (T : State → State) (P : State → Prop) (B : Steps) : Sub T P [] B := by intro p hp; cases hp

theorem sub_single (T : State → State) (P : State → Prop) {l : Option Event} {a b : State} (h : a = T b) (hp : P b) :
    Sub T P [(l, a)] [(l, b)] := by
  intro p hp'
  rw [List.mem_singleton.1 hp']
  exact ⟨(l, b), List.mem_singleton.2 rfl, by rw [h], hp⟩

theorem sub_map (T : State → State) (P : State → Prop) (B : Steps) (h : ∀ q ∈ B, P q.2) :
    Sub T P (B.map (fun q => (q.1, T q.2))) B := by
  intro p hp
  obtain ⟨q, hq, rfl⟩ := List.mem_map.1 hp
  exact ⟨q, hq, rfl, h q hq⟩

theorem sub_append (T : State → State) (P : State → Prop) {A A' B B' : Steps} (h : Sub T P A B) (h' : Sub T P A' B') :
    Sub T P (A ++ A') (B ++ B') := by
  intro p hp
  rcases List.mem_append.1 hp with hp | hp
  · obtain ⟨q, hq, e⟩ := h p hp; exact ⟨q, List.mem_append_left _ hq, e⟩
  · obtain ⟨q, hq, e⟩ := h' p hp; exact ⟨q, List.mem_append_right _ hq, e⟩

theorem sub_flatMap {α : Type} (T : State → State) (P : State → Prop) (l : List α) (A B : α → Steps)
    (h : ∀ a ∈ l, Sub T P (A a) (B a)) : Sub T P (l.flatMap A) (l.flatMap B) := by
  intro p hp
  obtain ⟨a, ha, hpa⟩ := List.mem_flatMap.1 hp
  obtain ⟨q, hq, e⟩ := h a ha p hpa
  exact ⟨q, List.mem_flatMap.2 ⟨a, ha, hq⟩, e⟩

/-! ### what the other step keeps of the lagging task's enabling condition -/

/-- `y` (reached from `x` by a step of somebody else) still has object `o`, task `g` as it was, and the property `Q` of object `o` -/
def Keeps (o g : Nat) (Q : ObjSt → Prop) (x y : State) : Prop :=
  o < y.objs.length ∧ y.tasks[g]? = x.tasks[g]? ∧ (Q (x.obj o) → Q (y.obj o))

/-- closure properties of `Q` -/
structure QOK (f : RW → RW) (annOK : Prop) (Q : ObjSt → Prop) : Prop where
  rl : ∀ ob, Q ob → Q (rwMap RW.rlock ob)
  ru : ∀ ob, Q ob → Q (rwMap RW.runlock ob)
  an : annOK → ∀ ob, Q ob → Q (rwMap RW.announce ob)
  wr : ∀ ob S, (f ob.rw).canLock = true → Q ob → Q { ob with subs := S, rw := ob.rw.lockUnlock }

section
variable {o g : Nat} {Q : ObjSt → Prop} {x y : State}

theorem keeps_refl (ho : o < x.objs.length) : Keeps o g Q x x := ⟨ho, rfl, id⟩

theorem keeps_of_same {y' : State} (h : Keeps o g Q x y) (h1 : y'.objs = y.objs) (h2 : y'.tasks = y.tasks) : Keeps o g Q x y' := by
  obtain ⟨a, b, c⟩ := h
  refine ⟨by rw [h1]; exact a, by rw [h2]; exact b, ?_⟩
  have : y'.obj o = y.obj o := by unfold State.obj; rw [h1]
  rw [this]; exact c

theorem keeps_setTask (h : Keeps o g Q x y) {k : Nat} (hk : k ≠ g) (t : Task) : Keeps o g Q x (y.setTask k t) := by
  obtain ⟨a, b, c⟩ := h
  refine ⟨a, ?_, c⟩
  show (y.tasks.set k t)[g]? = _
  rw [List.getElem?_set_ne hk]; exact b

theorem keeps_spawn (h : Keeps o g Q x y) (hg : g < x.tasks.length) (ts : List Task) : Keeps o g Q x (y.spawn ts) := by
  obtain ⟨a, b, c⟩ := h
  refine ⟨a, ?_, c⟩
  show (y.tasks ++ ts)[g]? = _
  have hgy : g < y.tasks.length := by
    rcases Nat.lt_or_ge g y.tasks.length with h | h
    · exact h
    · rw [List.getElem?_eq_none h, List.getElem?_eq_getElem hg] at b; cases b
  rw [List.getElem?_append_left hgy]; exact b

theorem keeps_updObj (h : Keeps o g Q x y) (o' : Nat) (H : ObjSt → ObjSt)
    (hq : o' = o → Q (y.obj o) → Q (H (y.obj o))) : Keeps o g Q x (updObj o' H y) := by
  obtain ⟨a, b, c⟩ := h
  refine ⟨by simpa using a, b, ?_⟩
  intro hx
  unfold updObj
  by_cases e : o' = o
  · subst e
    rw [obj_setObj_self _ _ _ a]
    exact hq rfl (c hx)
  · rw [obj_setObj_ne _ _ _ _ e]; exact c hx

theorem keeps_rlock {f : RW → RW} {annOK : Prop} (hQ : QOK f annOK Q) (h : Keeps o g Q x y) (o' : Nat) : Keeps o g Q x (y.rlock o') :=
  keeps_updObj h o' _ (fun _ => hQ.rl _)

theorem keeps_runlock {f : RW → RW} {annOK : Prop} (hQ : QOK f annOK Q) (h : Keeps o g Q x y) (o' : Nat) : Keeps o g Q x (y.runlock o') :=
  keeps_updObj h o' _ (fun _ => hQ.ru _)

theorem keeps_announce {f : RW → RW} {annOK : Prop} (hQ : QOK f annOK Q) (h : Keeps o g Q x y) (o' : Nat) (ha : o = o' → annOK) :
    Keeps o g Q x (y.announce o') :=
  keeps_updObj h o' _ (fun e => hQ.an (ha e.symm) _)

end

section
variable {o : Nat} {f : RW → RW} {g : Nat} {t' : Task} {x : State}

theorem canRLock_of_lag (hf : FOK f) (ho : o < x.objs.length) {o' : Nat}
    (h : ((lagT o f g t' x).obj o').rw.canRLock = true) : (x.obj o').rw.canRLock = true := by
  rw [lagT_obj _ _ _ _ _ ho] at h
  split at h
  · rename_i e; subst e; exact hf.crl _ h
  · exact h

theorem canLock_of_lag (hf : FOK f) (ho : o < x.objs.length) {o' : Nat}
    (h : ((lagT o f g t' x).obj o').rw.canLock = true) : (x.obj o').rw.canLock = true := by
  rw [lagT_obj _ _ _ _ _ ho] at h
  split at h
  · rename_i e; subst e; exact hf.cl _ h
  · exact h

theorem lagT_rlock (hf : FOK f) (ho : o < x.objs.length) (o' : Nat) :
    (lagT o f g t' x).rlock o' = lagT o f g t' (x.rlock o') := by
  rw [rlock_eq, rlock_eq]
  apply lagT_updObj _ _ _ _ _ _ _ ho
  intro _
  show ({ (x.obj o) with rw := f (x.obj o).rw.rlock } : ObjSt) = { (x.obj o) with rw := (f (x.obj o).rw).rlock }
  rw [hf.rl]

theorem lagT_announce (hf : FOK f) (ho : o < x.objs.length) (o' : Nat) :
    (lagT o f g t' x).announce o' = lagT o f g t' (x.announce o') := by
  rw [announce_eq, announce_eq]
  apply lagT_updObj _ _ _ _ _ _ _ ho
  intro _
  show ({ (x.obj o) with rw := f (x.obj o).rw.announce } : ObjSt) = { (x.obj o) with rw := (f (x.obj o).rw).announce }
  rw [hf.an]

theorem lagT_runlock (hf : FOK f) (ho : o < x.objs.length) (o' : Nat) (hr : o = o' → 0 < (x.obj o).rw.readers) :
    (lagT o f g t' x).runlock o' = lagT o f g t' (x.runlock o') := by
  rw [runlock_eq, runlock_eq]
  apply lagT_updObj _ _ _ _ _ _ _ ho
  intro e
  show ({ (x.obj o) with rw := f (x.obj o).rw.runlock } : ObjSt) = { (x.obj o) with rw := (f (x.obj o).rw).runlock }
  rw [hf.ru _ (hr e)]

/-- the frame of a `lagT`-like state: same objects, same tasks (what `fin`/`setCb` of `stepSend` may depend on) -/
def SameOT (x y : State) : Prop := y.objs = x.objs ∧ y.tasks = x.tasks ∧ y.wgs = x.wgs

theorem sendTo_lag (it : Item) :
    sendTo (lagT o f g t' x) it = match sendTo x it with
      | .blocked => .blocked | .panic => .panic | .sent s' => .sent (lagT o f g t' s') := by
  unfold sendTo
  rw [lagT_chans]
  split
  · rfl
  · split
    · rfl
    · split
      · rfl
      · split
        · rfl
        · rfl

theorem sendTo_sameOT {it : Item} {s' : State} (h : sendTo x it = .sent s') : SameOT x s' := by
  unfold sendTo at h
  split at h
  · cases h
  · split at h
    · cases h
    · split at h
      · injection h with h; subst h; exact ⟨rfl, rfl, rfl⟩
      · split at h
        · injection h with h; subst h; exact ⟨rfl, rfl, rfl⟩
        · cases h

theorem sameOT_obj {y : State} (h : SameOT x y) (o' : Nat) : y.obj o' = x.obj o' := by
  unfold State.obj; rw [h.1]

theorem keeps_sameOT {Q : ObjSt → Prop} {y : State} (ho : o < x.objs.length) (h : SameOT x y) : Keeps o g Q x y :=
  keeps_of_same (keeps_refl ho) h.1 h.2.1

theorem stepSend_lag (cfg : Cfg) (P : State → Prop) (it : Item) (cb : Bool) (fin setCb : State → State)
    (hfin : ∀ y, SameOT x y → fin (lagT o f g t' y) = lagT o f g t' (fin y) ∧ P (fin y))
    (hcb : ∀ y, SameOT x y → setCb (lagT o f g t' y) = lagT o f g t' (setCb y) ∧ P (setCb y))
    (hpan : P (x.panic "send-on-closed")) :
    Sub (lagT o f g t') P (stepSend cfg (lagT o f g t' x) it cb fin setCb) (stepSend cfg x it cb fin setCb) := by
  unfold stepSend
  split
  · exact sub_single _ _ (hfin x ⟨rfl, rfl, rfl⟩).1 (hfin x ⟨rfl, rfl, rfl⟩).2
  · rw [sendTo_lag]
    apply sub_append
    · cases hs : sendTo x it with
      | blocked => exact sub_nil _ _ _
      | panic => exact sub_single _ _ (lagT_panic _ _ _ _ _ _) hpan
      | sent s' => exact sub_single _ _ (hfin s' (sendTo_sameOT hs)).1 (hfin s' (sendTo_sameOT hs)).2
    · split
      · refine sub_single _ _ ?_ (hcb (x.logTimeout it) ⟨rfl, rfl, rfl⟩).2
        rw [lagT_logTimeout, (hcb (x.logTimeout it) ⟨rfl, rfl, rfl⟩).1]
      · exact sub_nil _ _ _

end

end TypVerif.Lemmas.PubSubRed
