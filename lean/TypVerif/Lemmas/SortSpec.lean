import TypVerif.Lemmas.SortAdapters
import TypVerif.Spec.SortSpec
/-
The judge's functional specification for the stable-sort lines (`Spec.SortSpec.stableAsc/stableDesc`: order by key, then by
original index) is what the stability contract determines on a list tagged with original indices.
-/
namespace TypVerif.Lemmas.SortSpec
open TypVerif.Model TypVerif.Model.SortAdapters TypVerif.Spec.Order TypVerif.Spec.SortContract TypVerif.Spec.SortSpec
open TypVerif.Lemmas.SortAdapters

theorem tagged_pairwise (keys : List Int) : (tagged keys).Pairwise (fun a b => a.2 < b.2) := by
  rw [List.pairwise_iff_getElem]
  intro i j hi hj hij
  simp only [tagged, List.getElem_map, List.getElem_zipIdx]
  omega

theorem strictWeak_keyLess : StrictWeak keyLess where
  irrefl := by intro a; simp [keyLess]
  trans := by intro a b c; simp [keyLess]; omega
  negTrans := by intro a b c; simp [keyLess]; omega

/-- key-sorted + ties in input order + input tagged increasingly ⇒ lexicographically sorted -/
theorem lex_of_stable (less : Int × Int → Int × Int → Bool) (input out : List (Int × Int))
    (htag : input.Pairwise (fun a b => a.2 < b.2))
    (hsorted : IsSorted less out)
    (hst : ∀ x, out.filter (tied less x) = input.filter (tied less x))
    (R : Int × Int → Int × Int → Prop)
    (hR : ∀ a b, less b a = false → (tied less a b = true → a.2 < b.2) → R a b)
    (hirr : ∀ a, less a a = false) :
    out.Pairwise R := by
  apply List.pairwise_of_forall_sublist
  intro a b hab
  have h1 : less b a = false := List.Pairwise.forall_sublist hsorted hab
  apply hR a b h1
  intro ht
  have haa : tied less a a = true := by simp [tied, hirr a]
  have hf : [a, b].filter (tied less a) = [a, b] := by simp [List.filter, haa, ht]
  have hsub := hab.filter (tied less a)
  rw [hf, hst a] at hsub
  exact List.Pairwise.forall_sublist htag (hsub.trans List.filter_sublist)

theorem stable_asc_eq_spec {stableImpl : SortImpl} (hc : StableContract stableImpl) (keys : List Int) :
    sortStableFunc stableImpl (tagged keys) keyLess = stableAsc (tagged keys) := by
  obtain ⟨hperm, hsorted, hst⟩ := hc _ _ _ id keyLess strictWeak_keyLess (sortLess_consistent keyLess) (tagged keys)
  simp only [id] at hperm hsorted hst
  have hlex : (sortStableFunc stableImpl (tagged keys) keyLess).Pairwise (fun a b => lexLe a b = true) := by
    apply lex_of_stable keyLess (tagged keys) _ (tagged_pairwise keys) hsorted hst
    · intro a b h1 h2
      simp only [keyLess, decide_eq_false_iff_not] at h1
      by_cases hk : a.1 < b.1
      · simp [lexLe, hk]
      · have heq : a.1 = b.1 := by omega
        have := h2 (by simp [tied, keyLess, heq])
        simp [lexLe, heq]; omega
    · intro a; simp [keyLess]
  have hspec : (stableAsc (tagged keys)).Pairwise (fun a b => lexLe a b = true) :=
    List.pairwise_mergeSort (le := lexLe)
      (by intro a b c; simp only [lexLe, decide_eq_true_eq]; omega)
      (by intro a b; simp only [lexLe, Bool.or_eq_true, decide_eq_true_eq]; omega) _
  exact List.Perm.eq_of_pairwise (le := fun a b => lexLe a b = true)
    (by intro a b _ _; simp only [lexLe, decide_eq_true_eq]
        intro h1 h2; apply Prod.ext <;> omega)
    hlex hspec (hperm.trans (List.mergeSort_perm _ _).symm)

theorem stable_desc_eq_spec {stableImpl : SortImpl} (hc : StableContract stableImpl) (keys : List Int) :
    sortStableDescFunc stableImpl (tagged keys) keyLess = stableDesc (tagged keys) := by
  obtain ⟨hperm, hsorted, hst⟩ := hc _ _ _ id _ strictWeak_keyLess.flip
    (reverse_consistent (sortLess_consistent keyLess)) (tagged keys)
  simp only [id] at hperm hsorted hst
  have hlex : (sortStableDescFunc stableImpl (tagged keys) keyLess).Pairwise (fun a b => lexGe a b = true) := by
    apply lex_of_stable (fun a b => keyLess b a) (tagged keys) _ (tagged_pairwise keys) hsorted hst
    · intro a b h1 h2
      simp only [keyLess, decide_eq_false_iff_not] at h1
      by_cases hk : a.1 > b.1
      · simp [lexGe, hk]
      · have heq : a.1 = b.1 := by omega
        have := h2 (by simp [tied, keyLess, heq])
        simp [lexGe, heq]; omega
    · intro a; simp [keyLess]
  have hspec : (stableDesc (tagged keys)).Pairwise (fun a b => lexGe a b = true) :=
    List.pairwise_mergeSort (le := lexGe)
      (by intro a b c; simp only [lexGe, decide_eq_true_eq]; omega)
      (by intro a b; simp only [lexGe, Bool.or_eq_true, decide_eq_true_eq]; omega) _
  exact List.Perm.eq_of_pairwise (le := fun a b => lexGe a b = true)
    (by intro a b _ _; simp only [lexGe, decide_eq_true_eq]
        intro h1 h2; apply Prod.ext <;> omega)
    hlex hspec (hperm.trans (List.mergeSort_perm _ _).symm)

end TypVerif.Lemmas.SortSpec
