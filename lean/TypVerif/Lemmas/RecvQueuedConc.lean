import TypVerif.Model.RecvQueuedConc
/-
Lemmas for C19 / concurrent `RecvQueued` (`Model/RecvQueuedConc.lean`): the relational form of a step, the
inductive invariant `Inv`, and what follows from it.
-/
namespace TypVerif.Lemmas.RecvQueuedConc
open TypVerif TypVerif.Conc TypVerif.Model.Chan TypVerif.Model.RecvQueuedConc
open TypVerif.Model.ChanHelpers (Stop fillList)

/-! ### steps, relationally -/

/-- one step of the system, as a relation: exactly the three things a goroutine that is still in its loop can do -/
inductive Step (limit : Int) (closed : Bool) (s : State) : State → Prop where
  /-- below the limit, a value is queued: take the head -/
  | recv (i : Nat) (g : Gor) (v : Int) (rest : List Int) :
      s.gs[i]? = some g → g.status = none → (g.acc.length : Int) < limit → s.ch.buf = v :: rest →
      Step limit closed s
        { ch := { s.ch with buf := rest }, gs := s.gs.set i { g with acc := g.acc ++ [v] }, log := s.log ++ [(i, v)] }
  /-- below the limit, nothing queued (`!ok` on a closed channel, `default` on an open one): return -/
  | retEmpty (i : Nat) (g : Gor) :
      s.gs[i]? = some g → g.status = none → (g.acc.length : Int) < limit → s.ch.buf = [] → s.ch.closed = closed →
      Step limit closed s
        { s with gs := s.gs.set i { g with status := some (if closed then Stop.closed else Stop.default) } }
  /-- the `for` condition fails: return -/
  | retLimit (i : Nat) (g : Gor) :
      s.gs[i]? = some g → g.status = none → limit ≤ (g.acc.length : Int) →
      Step limit closed s { s with gs := s.gs.set i { g with status := some Stop.limit } }

theorem trySelectRecv_cons (c : Chan) (v : Int) (rest : List Int) (h : c.buf = v :: rest) :
    c.trySelectRecv = some ((v, true), { c with buf := rest }) := by
  simp [Chan.trySelectRecv, Chan.canRecv, Chan.recv, h]

theorem trySelectRecv_closed (c : Chan) (h : c.buf = []) (hc : c.closed = true) :
    c.trySelectRecv = some ((0, false), c) := by
  simp [Chan.trySelectRecv, Chan.canRecv, Chan.recv, h, hc]

theorem trySelectRecv_open (c : Chan) (h : c.buf = []) (hc : c.closed = false) :
    c.trySelectRecv = none := by
  simp [Chan.trySelectRecv, Chan.canRecv, h, hc]

theorem step_of_stepG {limit : Int} {s : State} {i : Nat} {x : Option Event × State}
    (h : stepG limit s i = some x) : Step limit s.ch.closed s x.2 := by
  unfold stepG at h
  split at h
  · simp at h
  · rename_i g hg
    split at h
    · simp at h
    · rename_i hst
      split at h
      · rename_i hlt
        cases hb : s.ch.buf with
        | nil =>
          cases hc : s.ch.closed with
          | true =>
            rw [trySelectRecv_closed _ hb hc] at h
            simp only [Bool.not_false, if_true, Option.some.injEq] at h
            subst h
            have := Step.retEmpty (limit := limit) (closed := true) i g hg hst hlt hb hc
            simpa [State.ret] using this
          | false =>
            rw [trySelectRecv_open _ hb hc] at h
            simp only [Option.some.injEq] at h
            subst h
            have := Step.retEmpty (limit := limit) (closed := false) i g hg hst hlt hb hc
            simpa [State.ret] using this
        | cons v rest =>
          rw [trySelectRecv_cons _ v rest hb] at h
          simp only [Bool.not_true, Bool.false_eq_true, if_false, Option.some.injEq] at h
          subst h
          exact Step.recv i g v rest hg hst hlt hb
      · rename_i hge
        simp only [Option.some.injEq] at h
        subst h
        have := Step.retLimit (limit := limit) (closed := s.ch.closed) i g hg hst (by omega)
        simpa [State.ret] using this

theorem stepG_lt {limit : Int} {s : State} {i : Nat} {x : Option Event × State}
    (h : stepG limit s i = some x) : i < s.gs.length := by
  apply Classical.byContradiction
  intro hn
  have : s.gs[i]? = none := List.getElem?_eq_none (by omega)
  simp [stepG, this] at h

theorem mem_succ_iff {limit : Int} {s : State} {x : Option Event × State} :
    x ∈ succ limit s ↔ ∃ i, stepG limit s i = some x := by
  unfold succ
  rw [List.mem_filterMap]
  constructor
  · rintro ⟨i, _, h⟩; exact ⟨i, h⟩
  · rintro ⟨i, h⟩; exact ⟨i, List.mem_range.2 (stepG_lt h), h⟩

theorem step_of_mem_succ {limit : Int} {s : State} {x : Option Event × State}
    (h : x ∈ succ limit s) : Step limit s.ch.closed s x.2 := by
  obtain ⟨i, hi⟩ := mem_succ_iff.1 h
  exact step_of_stepG hi

/-! ### list facts -/

theorem owned_append_self (log : List (Nat × Int)) (i : Nat) (v : Int) :
    owned (log ++ [(i, v)]) i = owned log i ++ [v] := by
  simp [owned, List.filter_append]

theorem owned_append_ne (log : List (Nat × Int)) (i j : Nat) (v : Int) (h : i ≠ j) :
    owned (log ++ [(i, v)]) j = owned log j := by
  simp [owned, List.filter_append, h]

theorem delivered_append (log : List (Nat × Int)) (i : Nat) (v : Int) :
    delivered (log ++ [(i, v)]) = delivered log ++ [v] := by
  simp [delivered]

theorem owned_sublist (log : List (Nat × Int)) (i : Nat) : (owned log i).Sublist (delivered log) :=
  List.Sublist.map _ List.filter_sublist

theorem mem_owned {log : List (Nat × Int)} {i : Nat} {v : Int} : v ∈ owned log i ↔ (i, v) ∈ log := by
  simp only [owned, List.mem_map, List.mem_filter, beq_iff_eq]
  constructor
  · rintro ⟨⟨j, w⟩, ⟨hm, hj⟩, hw⟩
    simp only at hj hw
    subst hj; subst hw; exact hm
  · intro h; exact ⟨(i, v), ⟨h, rfl⟩, rfl⟩

/-- in a log whose values are distinct, a value has one owner -/
theorem owner_unique : ∀ (log : List (Nat × Int)), (delivered log).Nodup →
    ∀ i j v, (i, v) ∈ log → (j, v) ∈ log → i = j := by
  intro log
  induction log with
  | nil => intro _ i j v h; simp at h
  | cons a log ih =>
    intro hn i j v hi hj
    have hn' : a.2 ∉ delivered log ∧ (delivered log).Nodup := by
      simpa [delivered] using hn
    have key : ∀ k, (k, v) ∈ log → v ∈ delivered log := by
      intro k hk
      simp only [delivered, List.mem_map]
      exact ⟨(k, v), hk, rfl⟩
    rcases List.mem_cons.1 hi with hi | hi <;> rcases List.mem_cons.1 hj with hj | hj
    · rw [← hi] at hj; exact (Prod.mk.inj hj).1.symm
    · exfalso; apply hn'.1; rw [← hi]; exact key j hj
    · exfalso; apply hn'.1; rw [← hj]; exact key i hi
    · exact ih hn'.2 i j v hi hj

/-- appending to one of the lists appends to the concatenation, up to order -/
theorem flatten_set_append {α : Type} : ∀ (l : List (List α)) (i : Nat) (a : List α) (v : α), l[i]? = some a →
    (l.set i (a ++ [v])).flatten.Perm (l.flatten ++ [v]) := by
  intro l
  induction l with
  | nil => intro i a v h; simp at h
  | cons b l ih =>
    intro i a v h
    cases i with
    | zero =>
      simp only [List.getElem?_cons_zero, Option.some.injEq] at h
      subst h
      simp only [List.set_cons_zero, List.flatten_cons, List.append_assoc]
      exact List.Perm.append_left _ List.perm_append_comm
    | succ i =>
      simp only [List.getElem?_cons_succ] at h
      simp only [List.set_cons_succ, List.flatten_cons, List.append_assoc]
      exact List.Perm.append_left _ (ih i a v h)

theorem map_acc_set_same (gs : List Gor) (i : Nat) (g g' : Gor) (h : gs[i]? = some g) (ha : g'.acc = g.acc) :
    (gs.set i g').map (·.acc) = gs.map (·.acc) := by
  apply List.ext_getElem?
  intro j
  simp only [List.getElem?_map, List.getElem?_set]
  split
  · rename_i hij
    subst hij
    obtain ⟨hlt, heq⟩ := List.getElem?_eq_some_iff.1 h
    simp [hlt, ha, heq]
  · rfl

theorem dedup_aux {α : Type} [BEq α] [LawfulBEq α] : ∀ (xs acc : List α), (acc ++ xs).Nodup →
    xs.foldl (fun acc x => if acc.contains x then acc else acc ++ [x]) acc = acc ++ xs := by
  intro xs
  induction xs with
  | nil => intro acc _; simp
  | cons x xs ih =>
    intro acc hn
    have hx : x ∉ acc := by
      intro hx
      have := (List.nodup_append.1 hn).2.2 x hx x List.mem_cons_self
      exact this rfl
    have hc : acc.contains x = false := by
      cases h : acc.contains x with
      | false => rfl
      | true => exact absurd (List.contains_iff_mem.1 h) hx
    simp only [List.foldl_cons, hc, Bool.false_eq_true, if_false]
    rw [ih (acc ++ [x]) (by simpa [List.append_assoc] using hn)]
    simp

theorem dedup_of_nodup {α : Type} [BEq α] [LawfulBEq α] (xs : List α) (h : xs.Nodup) : Conc.dedup xs = xs := by
  have := dedup_aux xs [] (by simpa using h)
  simpa [Conc.dedup] using this

/-! ### `fillList` = `1..fill` -/

theorem fillList_length (n : Nat) : (fillList n).length = n := by simp [fillList]

theorem fillList_pairwise (n : Nat) : (fillList n).Pairwise (· < ·) := by
  unfold fillList
  rw [List.pairwise_map]
  exact List.Pairwise.imp (fun h => by omega) List.pairwise_lt_range

theorem fillList_nodup (n : Nat) : (fillList n).Nodup :=
  List.Pairwise.imp (fun h => by omega) (fillList_pairwise n)

theorem mem_fillList {n : Nat} {v : Int} (h : v ∈ fillList n) : 1 ≤ v ∧ v ≤ (n : Int) := by
  simp only [fillList, List.mem_map, List.mem_range] at h
  obtain ⟨i, hi, rfl⟩ := h
  omega

theorem incr_of_pairwise : ∀ (l : List Int), l.Pairwise (· < ·) → incr l = true := by
  intro l
  induction l with
  | nil => intro _; rfl
  | cons a l ih =>
    intro h
    cases l with
    | nil => rfl
    | cons b l =>
      have h' := List.pairwise_cons.1 h
      have hab : a < b := h'.1 b List.mem_cons_self
      have := ih h'.2
      simp only [incr, List.tail_cons, List.zip_cons_cons, List.all_cons, Bool.and_eq_true, decide_eq_true_eq] at this ⊢
      exact ⟨hab, this⟩

/-! ### the invariant -/

structure Inv (p : Params) (s : State) : Prop where
  /-- what left the channel, in that order, followed by what is still queued, is the initial content -/
  cons : delivered s.log ++ s.ch.buf = p.fill
  /-- a goroutine holds exactly the values the log attributes to it, in that order -/
  own : ∀ i g, s.gs[i]? = some g → g.acc = owned s.log i
  /-- together the goroutines hold what left the channel -/
  perm : s.lists.flatten.Perm (delivered s.log)
  len : s.gs.length = p.g
  chan : s.ch.cap = p.cap ∧ s.ch.closed = p.closed
  limit : ∀ g ∈ s.gs, g.acc.length ≤ p.limit.toNat
  /-- a goroutine that has returned did so at the limit, or below it and then the channel is empty (and stays so) -/
  early : ∀ g ∈ s.gs, ∀ st, g.status = some st →
    (st = Stop.limit ∧ p.limit ≤ (g.acc.length : Int)) ∨
    (st = (if p.closed then Stop.closed else Stop.default) ∧ (g.acc.length : Int) < p.limit ∧ s.ch.buf = [])

theorem inv_init (p : Params) : Inv p (init p) where
  cons := by simp [init, delivered, Chan.mk']
  own := by
    intro i g h
    simp only [init, List.getElem?_replicate] at h
    split at h
    · simp only [Option.some.injEq] at h; subst h; rfl
    · simp at h
  perm := by simp [init, State.lists, delivered]
  len := by simp [init]
  chan := by simp [init, Chan.mk']
  limit := by
    intro g hg
    simp only [init] at hg
    rw [(List.mem_replicate.1 hg).2]; simp
  early := by
    intro g hg st hst
    simp only [init] at hg
    rw [(List.mem_replicate.1 hg).2] at hst
    simp at hst

theorem inv_ret {p : Params} {s : State} (inv : Inv p s) (i : Nat) (g : Gor) (st : Stop)
    (hg : s.gs[i]? = some g)
    (hst : (st = Stop.limit ∧ p.limit ≤ (g.acc.length : Int)) ∨
      (st = (if p.closed then Stop.closed else Stop.default) ∧ (g.acc.length : Int) < p.limit ∧ s.ch.buf = [])) :
    Inv p { s with gs := s.gs.set i { g with status := some st } } where
  cons := inv.cons
  own := by
    intro j g2 h
    simp only [List.getElem?_set] at h
    split at h
    · rename_i hij
      subst hij
      split at h
      · simp only [Option.some.injEq] at h
        subst h
        exact inv.own i g hg
      · simp at h
    · exact inv.own j g2 h
  perm := by
    have : ({ s with gs := s.gs.set i { g with status := some st } } : State).lists = s.lists := by
      simp only [State.lists]
      exact map_acc_set_same s.gs i g _ hg rfl
    rw [this]; exact inv.perm
  len := by simp only [List.length_set]; exact inv.len
  chan := inv.chan
  limit := by
    intro g2 h2
    rcases List.mem_or_eq_of_mem_set h2 with h2 | h2
    · exact inv.limit g2 h2
    · subst h2; exact inv.limit g (List.mem_of_getElem? hg)
  early := by
    intro g2 h2 st2 hst2
    rcases List.mem_or_eq_of_mem_set h2 with h2 | h2
    · exact inv.early g2 h2 st2 hst2
    · subst h2
      simp only [Option.some.injEq] at hst2
      subst hst2
      exact hst

theorem inv_step {p : Params} {s s' : State} (inv : Inv p s) (h : Step p.limit p.closed s s') : Inv p s' := by
  cases h with
  | retEmpty i g hg hst hlt hb hc => exact inv_ret inv i g _ hg (Or.inr ⟨rfl, hlt, hb⟩)
  | retLimit i g hg hst hge => exact inv_ret inv i g _ hg (Or.inl ⟨rfl, hge⟩)
  | recv i g v rest hg hst hlt hb =>
    refine ⟨?_, ?_, ?_, ?_, inv.chan, ?_, ?_⟩
    · have := inv.cons
      rw [hb] at this
      simp only [delivered_append, List.append_assoc, List.singleton_append]
      exact this
    · intro j g2 h
      simp only [List.getElem?_set] at h
      split at h
      · rename_i hij
        subst hij
        split at h
        · simp only [Option.some.injEq] at h
          subst h
          simp only [owned_append_self]
          rw [inv.own i g hg]
        · simp at h
      · rename_i hij
        simp only [owned_append_ne _ _ _ _ hij]
        exact inv.own j g2 h
    · simp only [State.lists, List.map_set, delivered_append]
      have hl : (s.gs.map (·.acc))[i]? = some g.acc := by simp [List.getElem?_map, hg]
      exact (flatten_set_append _ i g.acc v hl).trans (List.Perm.append_right _ inv.perm)
    · simp only [List.length_set]; exact inv.len
    · intro g2 h2
      rcases List.mem_or_eq_of_mem_set h2 with h2 | h2
      · exact inv.limit g2 h2
      · subst h2
        simp only [List.length_append, List.length_cons, List.length_nil]
        omega
    · intro g2 h2 st2 hst2
      rcases List.mem_or_eq_of_mem_set h2 with h2 | h2
      · rcases inv.early g2 h2 st2 hst2 with h3 | h3
        · exact Or.inl h3
        · rw [hb] at h3; exact absurd h3.2.2 (by simp)
      · subst h2
        simp only at hst2
        rw [hst] at hst2
        simp at hst2

theorem inv_reachable (p : Params) (s : State) (hr : Reachable (sys p) s) : Inv p s := by
  refine invariant (sys p) (Inv p) (inv_init p) ?_ s hr
  intro s l s' inv hmem
  have hs : Step p.limit s.ch.closed s s' := step_of_mem_succ (x := (l, s')) hmem
  rw [inv.chan.2] at hs
  exact inv_step inv hs

/-! ### consequences -/

theorem acc_sublist {p : Params} {s : State} (inv : Inv p s) (g : Gor) (hg : g ∈ s.gs) : g.acc.Sublist p.fill := by
  obtain ⟨i, hi⟩ := List.getElem?_of_mem hg
  rw [inv.own i g hi, ← inv.cons]
  exact (owned_sublist s.log i).trans (List.sublist_append_left _ _)

theorem all_perm {p : Params} {s : State} (inv : Inv p s) : (s.lists.flatten ++ s.ch.buf).Perm p.fill := by
  rw [← inv.cons]
  exact List.Perm.append_right _ inv.perm

theorem disjoint {p : Params} {s : State} (inv : Inv p s) (hn : p.fill.Nodup) (i j : Nat) (a b : Gor)
    (hij : i ≠ j) (ha : s.gs[i]? = some a) (hb : s.gs[j]? = some b) (v : Int) (hv : v ∈ a.acc) : v ∉ b.acc := by
  intro hv'
  rw [inv.own i a ha, mem_owned] at hv
  rw [inv.own j b hb, mem_owned] at hv'
  have hd : (delivered s.log).Nodup := by
    have : (delivered s.log).Sublist p.fill := by rw [← inv.cons]; exact List.sublist_append_left _ _
    exact this.nodup hn
  exact hij (owner_unique s.log hd i j v hv hv')

theorem final_full_or_empty {p : Params} {s : State} (inv : Inv p s) (hf : s.final) :
    (∀ g ∈ s.gs, g.acc.length = p.limit.toNat) ∨ s.ch.buf = [] := by
  by_cases hb : s.ch.buf = []
  · exact Or.inr hb
  · left
    intro g hg
    have hl := inv.limit g hg
    cases hst : g.status with
    | none => exact absurd hst (hf g hg)
    | some st =>
      rcases inv.early g hg st hst with h | h
      · have := h.2; omega
      · exact absurd h.2.2 hb

theorem step_buf_suffix {limit : Int} {closed : Bool} {s s' : State} (h : Step limit closed s s') :
    s'.ch.buf <:+ s.ch.buf := by
  cases h with
  | retEmpty => exact List.suffix_refl _
  | retLimit => exact List.suffix_refl _
  | recv i g v rest hg hst hlt hb => rw [hb]; exact List.suffix_cons v rest

theorem exec_buf_suffix (p : Params) : ∀ (ls : List (Option (sys p).Event)) (s s' : (sys p).State),
    Exec (sys p) s ls s' → (s' : State).ch.buf <:+ (s : State).ch.buf := by
  intro ls s s' h
  induction h with
  | nil s => exact List.suffix_refl _
  | cons hmem _ ih =>
    exact ih.trans (step_buf_suffix (step_of_mem_succ hmem))

/-- the step in which a goroutine returns with fewer values than the limit is taken on an empty channel -/
theorem step_return_short {limit : Int} {closed : Bool} {s s' : State} (h : Step limit closed s s')
    (i : Nat) (g g' : Gor) (hg : s.gs[i]? = some g) (hg' : s'.gs[i]? = some g')
    (hst : g.status = none) (hst' : g'.status ≠ none) (hshort : (g'.acc.length : Int) < limit) :
    s.ch.buf = [] ∧ s'.ch.buf = [] := by
  cases h with
  | recv k gk v rest hk hkst hlt hb =>
    exfalso
    simp only [List.getElem?_set] at hg'
    split at hg'
    · rename_i hki
      subst hki
      split at hg'
      · simp only [Option.some.injEq] at hg'
        subst hg'
        exact hst' hkst
      · simp at hg'
    · rw [hg] at hg'
      simp only [Option.some.injEq] at hg'
      subst hg'
      exact hst' hst
  | retEmpty k gk hk hkst hlt hb hc => exact ⟨hb, hb⟩
  | retLimit k gk hk hkst hge =>
    exfalso
    simp only [List.getElem?_set] at hg'
    split at hg'
    · rename_i hki
      subst hki
      split at hg'
      · simp only [Option.some.injEq] at hg'
        subst hg'
        simp only at hshort
        omega
      · simp at hg'
    · rw [hg] at hg'
      simp only [Option.some.injEq] at hg'
      subst hg'
      exact hst' hst

/-! ### the judge's predicate -/

theorem concVerdict_none {fill g : Nat} {limit : Int} {lists : List (List Int)} {rem : List Int}
    (h1 : lists.length = g)
    (h2 : ∀ v ∈ lists.flatten ++ rem, 1 ≤ v ∧ v ≤ (fill : Int))
    (h3 : (lists.flatten ++ rem).Nodup)
    (h4 : (lists.flatten ++ rem).length = fill)
    (h5 : ∀ l ∈ lists, incr l = true)
    (h6 : ∀ l ∈ lists, l.length ≤ limit.toNat)
    (h7 : rem = (fillList fill).drop (fill - rem.length))
    (h8 : (∀ l ∈ lists, l.length = limit.toNat) ∨ rem = []) :
    concVerdict fill g limit lists rem = none := by
  have c2 : (lists.flatten ++ rem).any (fun v => decide (v < 1 ∨ v > (fill : Int))) = false := by
    rw [List.any_eq_false]
    intro v hv
    have := h2 v hv
    simp only [decide_eq_true_eq]
    omega
  have c3 : (lists.flatten ++ rem).length = (Conc.dedup (lists.flatten ++ rem)).length := by
    rw [dedup_of_nodup _ h3]
  have c5 : lists.any (fun l => !incr l) = false := by
    rw [List.any_eq_false]
    intro l hl
    simp [h5 l hl]
  have c6 : lists.any (fun l => decide (l.length > limit.toNat)) = false := by
    rw [List.any_eq_false]
    intro l hl
    have := h6 l hl
    simp only [decide_eq_true_eq]
    omega
  have c8 : ¬ (lists.any (fun l => decide (l.length < limit.toNat)) = true ∧ (!rem.isEmpty) = true) := by
    rintro ⟨ha, hb⟩
    rcases h8 with h8 | h8
    · rw [List.any_eq_true] at ha
      obtain ⟨l, hl, hlt⟩ := ha
      have := h8 l hl
      simp only [decide_eq_true_eq] at hlt
      omega
    · subst h8; simp at hb
  unfold concVerdict
  simp only []
  rw [if_neg (by simpa using h1), if_neg (by simpa using c2), if_neg (by simpa using c3),
    if_neg (by simpa using h4), if_neg (by simpa using c5), if_neg (by simpa using c6),
    if_neg (by intro hc; exact hc h7), if_neg c8]

theorem verdict_final {p : Params} {s : State} (n : Nat) (hfill : p.fill = fillList n) (inv : Inv p s) (hf : s.final) :
    concVerdict n p.g p.limit s.lists s.ch.buf = none := by
  have hp := all_perm inv
  rw [hfill] at hp
  apply concVerdict_none
  · simp [State.lists, inv.len]
  · intro v hv
    exact mem_fillList (hp.subset hv)
  · exact hp.nodup_iff.2 (fillList_nodup n)
  · rw [hp.length_eq, fillList_length]
  · intro l hl
    simp only [State.lists, List.mem_map] at hl
    obtain ⟨g, hg, rfl⟩ := hl
    have := acc_sublist inv g hg
    rw [hfill] at this
    exact incr_of_pairwise _ (List.Pairwise.sublist this (fillList_pairwise n))
  · intro l hl
    simp only [State.lists, List.mem_map] at hl
    obtain ⟨g, hg, rfl⟩ := hl
    exact inv.limit g hg
  · have hc := inv.cons
    rw [hfill] at hc
    have hlen : (delivered s.log).length + s.ch.buf.length = n := by
      rw [← List.length_append, hc, fillList_length]
    rw [← hc, List.drop_left' (by omega)]
  · rcases final_full_or_empty inv hf with h | h
    · left
      intro l hl
      simp only [State.lists, List.mem_map] at hl
      obtain ⟨g, hg, rfl⟩ := hl
      exact h g hg
    · exact Or.inr h

/-! ### witnesses -/

theorem reachable_run (p : Params) : ∀ (sched : List Nat) (s s' : State),
    Reachable (sys p) s → run p.limit s sched = some s' → Reachable (sys p) s' := by
  intro sched
  induction sched with
  | nil => intro s s' hr h; simp only [run, Option.some.injEq] at h; subst h; exact hr
  | cons i is ih =>
    intro s s' hr h
    unfold run at h
    split at h
    · rename_i l s1 heq
      exact ih s1 s' (Reachable.step (sys := sys p) (l := l) hr (mem_succ_iff.2 ⟨i, heq⟩)) h
    · simp at h

theorem reachable_of_run (p : Params) (sched : List Nat) (s' : State)
    (h : run p.limit (init p) sched = some s') : Reachable (sys p) s' :=
  reachable_run p sched (init p) s' Reachable.init h

end TypVerif.Lemmas.RecvQueuedConc
