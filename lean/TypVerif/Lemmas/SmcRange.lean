import TypVerif.Lemmas.SmcStep
/-
C04, `Range` under every schedule: what the simulation relation `R` (whose `T` component carries `RangeHold` at the
program counters of the `Range` loop) says about a goroutine inside `Range`.

* `R.range_ret`, `R.range_pick`, `R.range_load`   the `T` clauses of the three Range pcs, extracted.
* `HoldRead.absOf_of_val`, `HoldRead.absOf_of_not_val`   what the pointer loaded from a held entry means abstractly.
* `exec_rangeLoad_val`, `exec_rangeLoad_skip`           the step of the model at `rangeLoad`.
* `range_snapshot`                                      the three loop-entry steps: the snapshot is the new `read.m`,
                                                        not amended, so it contains every present key.
* `runSched`, `reachable_runSched`                      replay of a schedule (for non-vacuity examples).
-/
namespace TypVerif.Lemmas.Smc
open TypVerif TypVerif.Conc TypVerif.Model TypVerif.Model.SyncMapConc TypVerif.Model.RelObj
open TypVerif.Model.SyncMap (alookup ainsert aerase akeys)

set_option linter.unusedSectionVars false

variable {K V : Type} [DecidableEq K] [DecidableEq V] [Inhabited V]
variable {s : State K V} {a : AState K V} {t : Tid}

/-! ### the `T` clauses of the Range program counters -/

theorem R.range_ret (hR : R s a) {l : List (K × V)} (hpc : s.pc t = .ret (.pairs l)) : (l.map Prod.fst).Nodup := by
  have hT := hR.thr t
  rw [hpc] at hT
  simp only [T] at hT
  exact hT.2.2

theorem R.range_pick (hR : R s a) {todo : List (K × EId)} {acc : List (K × V)} (hpc : s.pc t = .rangePick todo acc) :
    RangeHold s.sh todo acc := by
  have hT := hR.thr t
  rw [hpc] at hT
  simp only [T] at hT
  exact hT.2.2

theorem R.range_load (hR : R s a) {todo : List (K × EId)} {acc : List (K × V)} {k' : K} {e' : EId}
    (hpc : s.pc t = .rangeLoad todo acc k' e') : RangeHold s.sh ((k', e') :: todo) acc := by
  have hT := hR.thr t
  rw [hpc] at hT
  simp only [T] at hT
  exact hT.2.2

/-! ### the pointer loaded from a held entry -/

/-- a value pointer in a held entry: the entry is not dead, so it is `read.m[k]`, and its value is the key's -/
theorem HoldRead.absOf_of_val {sh : Shared K V} {k : K} {e : EId} (h : HoldRead sh k e) {i : Nat} {w : V}
    (hv : getP sh e = .val i w) : alookup k sh.readM = some e ∧ absOf sh k = some w := by
  rcases h.2 with h1 | h1
  · refine ⟨h1, ?_⟩
    rw [absOf_of_read h1, hv]
    rfl
  · have := h1.1
    rw [hv] at this
    cases this

/-- no value in a held entry: the key is absent now, or the entry is dead -/
theorem HoldRead.absOf_of_not_val {sh : Shared K V} {k : K} {e : EId} (h : HoldRead sh k e)
    (hv : (getP sh e).value? = none) : absOf sh k = none ∨ Dead sh e := by
  rcases h.2 with h1 | h1
  · left
    rw [absOf_of_read h1, hv]
  · exact Or.inr h1

/-! ### the step at `rangeLoad` -/

theorem exec_rangeLoad_val {sh : Shared K V} (t : Tid) (todo : List (K × EId)) (acc : List (K × V)) (k' : K)
    {e' : EId} {i : Nat} {w : V} (hv : getP sh e' = .val i w) :
    exec sh t (.rangeLoad todo acc k' e') = some (sh, rangeNext todo (acc ++ [(k', w)])) := by
  simp only [exec, hv]

theorem exec_rangeLoad_skip {sh : Shared K V} (t : Tid) (todo : List (K × EId)) (acc : List (K × V)) (k' : K)
    {e' : EId} (hv : (getP sh e').value? = none) :
    exec sh t (.rangeLoad todo acc k' e') = some (sh, rangeNext todo acc) := by
  cases hp : getP sh e' with
  | val i w => rw [hp] at hv; cases hv
  | nil => simp only [exec, hp]
  | expunged => simp only [exec, hp]

/-! ### loop entry -/

/-- not amended: every present key is a key of `read.m` -/
theorem mem_akeys_read_of_absOf {sh : Shared K V} (ha : sh.amended = false) {k : K} (hk : absOf sh k ≠ none) :
    k ∈ akeys sh.readM := by
  cases hr : alookup k sh.readM with
  | some e => exact mem_akeys_of_alookup hr
  | none => exact absurd (absOf_of_not_amended hr ha) hk

/-- the goroutine is at one of the three steps that enter the `Range` loop -/
def RangeEntry (sh : Shared K V) (pc : Pc K V) : Prop :=
  (pc = .rangeRead1 ∧ sh.amended = false) ∨ (pc = .rangeRead2 ∧ sh.amended = false) ∨ ∃ dm, pc = .rangeStore dm

/-- **snapshot completeness**: a step that enters the loop parks the goroutine at `rangeNext rm []` where `rm` is the
`read.m` of the shared state after the step, which is not amended and stands for the same abstract map as before the
step; so every key present at that moment is a key of the snapshot -/
theorem range_snapshot (hR : R s a) (hent : RangeEntry s.sh (s.pc t)) {sh' : Shared K V} {pc' : Pc K V}
    (hex : exec s.sh t (s.pc t) = some (sh', pc')) :
    ∃ rm, pc' = rangeNext rm [] ∧ rm = sh'.readM ∧ sh'.amended = false ∧ (∀ k, absOf sh' k = absOf s.sh k) ∧
      ∀ k, absOf sh' k ≠ none → k ∈ akeys rm := by
  rcases hent with ⟨hpc, ha⟩ | ⟨hpc, ha⟩ | ⟨dm, hpc⟩
  · rw [hpc] at hex
    simp only [exec, ha, Bool.false_eq_true, if_false, Option.some.injEq, Prod.mk.injEq] at hex
    obtain ⟨rfl, rfl⟩ := hex
    exact ⟨_, rfl, rfl, ha, fun _ => rfl, fun k hk => mem_akeys_read_of_absOf ha hk⟩
  · rw [hpc] at hex
    simp only [exec, ha, Bool.false_eq_true, if_false, Option.some.injEq, Prod.mk.injEq] at hex
    obtain ⟨rfl, rfl⟩ := hex
    exact ⟨_, rfl, rfl, ha, fun _ => rfl, fun k hk => mem_akeys_read_of_absOf (sh := unlock s.sh) ha hk⟩
  · have hT := hR.thr t
    rw [hpc] at hT hex
    simp only [T] at hT
    obtain ⟨_, hprom, hdm⟩ := hT
    simp only [exec, Option.some.injEq, Prod.mk.injEq] at hex
    obtain ⟨rfl, rfl⟩ := hex
    have g0 : GS s.sh [] := GS_nil_of_promoting hR hprom (by rw [hpc]; rfl)
    refine ⟨_, rfl, rfl, rfl, fun k => absOf_rangeStore_unlock g0 hprom.2.2 hdm k, fun k hk => ?_⟩
    exact mem_akeys_read_of_absOf
      (sh := unlock { s.sh with readM := dm, amended := false, dirty := none, misses := 0 }) rfl hk

/-! ### replay of a schedule -/

/-- follow a schedule: at each step take the successor with the given index (stay if there is none) -/
def runSched (sys : Sys) : List Nat → sys.State → sys.State
  | [], s => s
  | i :: is, s =>
    match (sys.succ s)[i]? with
    | some p => runSched sys is p.2
    | none => s

theorem reachable_runSched {sys : Sys} (is : List Nat) {s : sys.State} (h : Reachable sys s) :
    Reachable sys (runSched sys is s) := by
  induction is generalizing s with
  | nil => exact h
  | cons i is ih =>
    unfold runSched
    cases hp : (sys.succ s)[i]? with
    | none => exact h
    | some p =>
      have hm : (p.1, p.2) ∈ sys.succ s := List.mem_of_getElem? hp
      exact ih (Reachable.step h hm)

end TypVerif.Lemmas.Smc
