import TypVerif.Props.C03
import TypVerif.Props.C04
import TypVerif.Props.C05
/-
Axiom audit of every `C03.*`, `C04.*`, `C05.*` theorem (expected: a subset of propext, Classical.choice, Quot.sound).
-/
#print axioms C03.union
#print axioms C03.intersect
#print axioms C03.setdiff
#print axioms C03.symdiff
#print axioms C03.operands_unchanged
#print axioms C03.add_reports_change
#print axioms C03.remove_reports_change
#print axioms C03.has
#print axioms C03.addSet_count
#print axioms C03.removeSet_count
#print axioms C03.range_enumerates
#print axioms C03.range_stops
#print axioms C03.len
#print axioms C03.clone
#print axioms C03.fromSlice
#print axioms C03.fromKeys
#print axioms C03.fromValues
#print axioms C03.cartesian
#print axioms C03.sync_reachable_inv
#print axioms C04.seq_inv
#print axioms C04.seq_step
#print axioms C04.seq_refines
#print axioms C04.seq_abs
#print axioms C04.range_seq
#print axioms C04.range_prefix
#print axioms C05.alternate
#print axioms C05.alternate_from
#print axioms C05.has_between
#print axioms C05.atomic_seq
#print axioms C05.seq_history
