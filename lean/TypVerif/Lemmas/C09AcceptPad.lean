import TypVerif.Lemmas.C09AcceptRel
/-
Acceptance soundness for the judge `Drv/C09.lean`: padding with idle goroutines and enlarging the alphabet of operations are
simulations; the number of goroutines `n` of `Model.KeyedMutex.sys rw n ops` matters only for the initial state.
-/
namespace TypVerif.Lemmas.C09Accept
open TypVerif TypVerif.Conc TypVerif.Model.KeyedMutex TypVerif.Drv.C09

/-! ### padding -/

theorem padBy_pc (k : Nat) (s : State) (t : Nat) (ht : t < s.pcs.length) : (padBy k s).pc t = s.pc t := by
  unfold State.pc padBy
  simp [List.getD_eq_getElem?_getD, List.getElem?_append_left ht]

theorem padBy_set (k : Nat) (s : State) (t : Nat) (p : Pc) (ht : t < s.pcs.length) :
    (s.pcs ++ List.replicate k Pc.idle).set t p = s.pcs.set t p ++ List.replicate k Pc.idle :=
  List.set_append_left t p ht

theorem padBy_clearOk (k : Nat) (s : State) (k' : Nat) : clearOk (padBy k s) k' = clearOk s k' := by
  unfold clearOk padBy
  simp [onKey]

theorem padBy_padBy (j k : Nat) (s : State) : padBy j (padBy k s) = padBy (k + j) s := by
  unfold padBy
  simp

theorem padBy_zero (s : State) : padBy 0 s = s := by
  unfold padBy
  simp

theorem padBy_init (k n : Nat) : padBy k (init n) = init (n + k) := by
  unfold padBy init
  simp

theorem stepT_padBy (rw g : Bool) (ops : List Op) (k : Nat) (s : State) (t : Nat) (ht : t < s.pcs.length) :
    stepT rw g ops (padBy k s) t = (stepT rw g ops s t).map (fun p => (p.1, padBy k p.2)) := by
  have hpc := padBy_pc k s t ht
  have hset := fun p => padBy_set k s t p ht
  have hinv : invOk rw (padBy k s) t = invOk rw s t := rfl
  have hmu : ∀ m, (padBy k s).mu m = s.mu m := fun _ => rfl
  unfold stepT
  rw [hpc]
  split
  · rw [hinv]
    simp only [List.map_map]
    apply List.map_congr_left
    intro op _
    simp [State.setPc, padBy, hset]
  · -- los
    unfold losStep
    rw [padBy_clearOk]
    split
    · split
      · simp [padBy, hset]
      · rfl
    · rename_i kd k' _ _
      cases hget : get s.map k' <;> simp [padBy, hset, hget]
  · -- act
    unfold actStep
    split
    · split
      · simp [queueStep, State.mu, padBy, hset]
      · rw [hmu]
        split <;> simp [acqW, State.mu, padBy, hset]
    · rw [hmu]
      split <;> simp [acqW, State.setPc, State.mu, padBy, hset]
    · split <;> simp [relW, State.mu, padBy, hset]
    · rw [hmu]
      split <;> simp [acqR, State.mu, padBy, hset]
    · rw [hmu]
      split <;> simp [acqR, State.setPc, State.mu, padBy, hset]
    · simp [State.mu, padBy, hset]
    · rfl
  · simp [queueStep, State.mu, padBy, hset]
  · rw [hmu]
    split <;> simp [acqW, State.mu, padBy, hset]
  · simp [queueStep, State.mu, padBy, hset]
  · simp [State.setPc, padBy, hset]

theorem succ_padBy {rw g : Bool} {ops : List Op} {s s' : State} {l : Option Event} (k : Nat)
    (h : (l, s') ∈ succ rw g ops s) : (l, padBy k s') ∈ succ rw g ops (padBy k s) := by
  obtain ⟨t, ht, hs⟩ := KeyedMutex.mem_succ.mp h
  refine KeyedMutex.mem_succ.mpr ⟨t, ?_, ?_⟩
  · simp [padBy]; omega
  · rw [stepT_padBy rw g ops k s t ht]
    exact List.mem_map.2 ⟨(l, s'), hs, rfl⟩

/-! ### the alphabet of operations -/

theorem stepT_ops_mono {rw g : Bool} {ops ops' : List Op} (hm : ∀ op ∈ ops, op ∈ ops') {s : State} {t : Nat}
    {p : Option Event × State} (h : p ∈ stepT rw g ops s t) : p ∈ stepT rw g ops' s t := by
  unfold stepT at h ⊢
  split
  · rename_i hpc
    rw [hpc] at h
    simp only [List.mem_map, List.mem_filter] at h ⊢
    obtain ⟨op, ⟨hop, hok⟩, he⟩ := h
    exact ⟨op, ⟨hm op hop, hok⟩, he⟩
  all_goals (rename_i hpc; rw [hpc] at h; exact h)

theorem succ_ops_mono {rw g : Bool} {ops ops' : List Op} (hm : ∀ op ∈ ops, op ∈ ops') {s : State}
    {p : Option Event × State} (h : p ∈ succ rw g ops s) : p ∈ succ rw g ops' s := by
  obtain ⟨t, ht, hs⟩ := KeyedMutex.mem_succ.mp h
  exact KeyedMutex.mem_succ.mpr ⟨t, ht, stepT_ops_mono hm hs⟩

/-! ### executions -/

/-- executions of `sys rw n ops` only depend on `rw` and `ops`, through `succ` -/
inductive Ex (rw : Bool) (ops : List Op) : State → List (Option Event) → State → Prop where
  | nil (s) : Ex rw ops s [] s
  | cons {s s' s'' l ls} : (l, s') ∈ succ rw true ops s → Ex rw ops s' ls s'' → Ex rw ops s (l :: ls) s''

theorem ex_of_exec {rw : Bool} {n : Nat} {ops : List Op} {a b : (sys rw n ops).State}
    {ls : List (Option (sys rw n ops).Event)} (h : Exec (sys rw n ops) a ls b) : Ex rw ops a ls b := by
  induction h with
  | nil s => exact .nil s
  | cons hm _ ih => exact .cons hm ih

theorem exec_of_ex {rw : Bool} (n : Nat) {ops : List Op} {a b : State} {ls : List (Option Event)}
    (h : Ex rw ops a ls b) : Exec (sys rw n ops) a ls b := by
  induction h with
  | nil s => exact Exec.nil (sys := sys rw n ops) s
  | cons hm _ ih => exact Exec.cons (sys := sys rw n ops) hm ih

theorem Ex.append {rw : Bool} {ops : List Op} {a b c : State} {l1 l2 : List (Option Event)}
    (h1 : Ex rw ops a l1 b) (h2 : Ex rw ops b l2 c) : Ex rw ops a (l1 ++ l2) c := by
  induction h1 with
  | nil s => simpa using h2
  | cons hm _ ih => exact .cons hm (ih h2)

theorem Ex.padBy {rw : Bool} {ops : List Op} {a b : State} {ls : List (Option Event)} (k : Nat)
    (h : Ex rw ops a ls b) : Ex rw ops (padBy k a) ls (padBy k b) := by
  induction h with
  | nil s => exact .nil _
  | cons hm _ ih => exact .cons (succ_padBy k hm) ih

theorem Ex.ops_mono {rw : Bool} {ops ops' : List Op} (hm : ∀ op ∈ ops, op ∈ ops') {a b : State}
    {ls : List (Option Event)} (h : Ex rw ops a ls b) : Ex rw ops' a ls b := by
  induction h with
  | nil s => exact .nil _
  | cons hs _ ih => exact .cons (succ_ops_mono hm hs) ih

/-- `n` matters only for the initial state -/
theorem exec_n_irrelevant {rw : Bool} (n n' : Nat) {ops : List Op} {a b : State} {ls : List (Option Event)}
    (h : Exec (sys rw n ops) a ls b) : Exec (sys rw n' ops) a ls b :=
  exec_of_ex n' (ex_of_exec h)

/-! ### the relation `R` and padding -/

theorem live_padBy (k : Nat) (s : State) (m : Nat) : Live (padBy k s) m ↔ Live s m := by
  unfold Live padBy
  constructor
  · rintro (h | ⟨p, hp, hl⟩)
    · exact Or.inl h
    · rcases List.mem_append.1 hp with hp | hp
      · exact Or.inr ⟨p, hp, hl⟩
      · rw [(List.mem_replicate.1 hp).2] at hl
        cases hl
  · rintro (h | ⟨p, hp, hl⟩)
    · exact Or.inl h
    · exact Or.inr ⟨p, List.mem_append_left _ hp, hl⟩

theorem wf_padBy {k : Nat} {s : State} (h : WF s) : WF (padBy k s) :=
  ⟨h.keysNd, fun m hm => h.liveLt m ((live_padBy k s m).1 hm)⟩

theorem wf_init (n : Nat) : WF (init n) := by
  refine ⟨List.nodup_nil, ?_⟩
  rintro m (⟨k, hk⟩ | ⟨p, hp, hl⟩)
  · cases hk
  · unfold init at hp
    rw [(List.mem_replicate.1 hp).2] at hl
    cases hl

theorem rel_padBy {f : Nat → Nat} {a x : State} (k : Nat) (h : Rel f a x) : Rel f (padBy k a) (padBy k x) := by
  refine ⟨?_, h.map, ?_, ?_, ?_, h.wh, h.rh⟩
  · show x.pcs ++ List.replicate k Pc.idle = (a.pcs ++ List.replicate k Pc.idle).map (renPc f)
    rw [List.map_append, h.pcs]
    simp [renPc]
  · intro m m' hm hm'
    exact h.inj m m' ((live_padBy k a m).1 hm) ((live_padBy k a m').1 hm')
  · intro m hm
    exact h.ltX m ((live_padBy k a m).1 hm)
  · intro m hm
    exact h.mu m ((live_padBy k a m).1 hm)

theorem R_padBy {a x : State} (k : Nat) (h : R a x) : R (padBy k a) (padBy k x) := by
  obtain ⟨hw, f, hf⟩ := h
  exact ⟨wf_padBy hw, f, rel_padBy k hf⟩

theorem rel_length {f : Nat → Nat} {a x : State} (h : Rel f a x) : x.pcs.length = a.pcs.length := by
  rw [h.pcs, List.length_map]

/-- the judge's `pad t` on both sides -/
theorem R_pad {a x : State} (t : Nat) (h : R a x) : R (pad t a) (pad t x) := by
  obtain ⟨hw, f, hf⟩ := h
  rw [pad_eq_padBy, pad_eq_padBy, rel_length hf]
  exact R_padBy _ ⟨hw, f, hf⟩

end TypVerif.Lemmas.C09Accept
