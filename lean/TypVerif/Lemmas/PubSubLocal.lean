import TypVerif.Lemmas.PubSubSafeChan
/-
Step-level facts (no reachability needed): what exactly an Unsub / UnsubAll / WithOnly step changes.
-/
namespace TypVerif.Lemmas.PubSubLocal
open TypVerif TypVerif.Model.PubSub TypVerif.Lemmas.PubSubSafe

/-- everything about a channel and its receiver except the `closed` flag -/
def untouched (ch : ChanSt) : Chan × Nat × List Int × Nat × Option Int × Bool :=
  (ch.id, ch.cap, ch.buf, ch.allow, ch.holding, ch.rdone)

theorem closeChan_untouched (cs : List ChanSt) (c : Chan) :
    (closeChan cs c).map untouched = cs.map untouched := by
  induction cs with
  | nil => rfl
  | cons ch rest ih =>
    simp only [closeChan, updChan, List.map_cons] at ih ⊢
    rw [ih]
    by_cases h : (ch.id == c) = true <;> simp [h, untouched]

theorem closeChan_closes (cs : List ChanSt) (c : Chan) (h : hasChan cs c = true) :
    isClosed (closeChan cs c) c = true := by
  induction cs with
  | nil => simp [hasChan] at h
  | cons ch rest ih =>
    simp only [hasChan, List.any_cons, Bool.or_eq_true] at h
    simp only [isClosed, closeChan, updChan, List.map_cons, List.any_cons, Bool.or_eq_true]
    by_cases h1 : (ch.id == c) = true
    · left; simp [h1]
    · right
      rcases h with h | h
      · exact absurd h h1
      · exact ih h

theorem obj_setObj_ne (s : State) (o o' : Nat) (x : ObjSt) (h : o' ≠ o) : (s.setObj o x).obj o' = s.obj o' := by
  simp [State.obj, State.setObj, List.getD_eq_getElem?_getD, List.getElem?_set, Ne.symm h]

theorem obj_setObj_subs (s : State) (o : Nat) (x : ObjSt) (h : (s.obj o).subs ≠ []) : (s.setObj o x).obj o = x := by
  have hlt : o < s.objs.length := by
    rcases Nat.lt_or_ge o s.objs.length with h1 | h1
    · exact h1
    · exfalso; apply h
      simp [State.obj, List.getD_eq_getElem?_getD, List.getElem?_eq_none h1]
  simp [State.obj, State.setObj, List.getD_eq_getElem?_getD, List.getElem?_set, hlt]


theorem obj_setObj_rw_subs (s : State) (o : Nat) (r : RW) :
    ((s.setObj o { s.obj o with rw := r }).obj o).subs = (s.obj o).subs := by
  rcases Nat.lt_or_ge o s.objs.length with h1 | h1
  · simp [State.obj, State.setObj, List.getD_eq_getElem?_getD, List.getElem?_set, h1]
  · have : ∀ x, s.objs.set o x = s.objs := fun x => List.set_eq_of_length_le h1
    simp [State.obj, State.setObj, this]

/-- the critical section of `Unsub(c)` on object `o`, when it does not panic -/
theorem unsub_step {s s' : State} {i u o : Nat} {c : Chan} {l : Option Event}
    (h : (l, s') ∈ stepUnsubWait s i u o c) (hp : s'.panicked = none) (hs : s.panicked = none) :
    (∀ o', o' ≠ o → s'.obj o' = s.obj o') ∧
    (∀ c', c' ≠ c → isClosed s'.chans c' = isClosed s.chans c') ∧
    s'.chans.map untouched = s.chans.map untouched ∧
    ((c ∈ (s.obj o).subs ∧ s'.tasks = s.tasks.set i (.unsubRet u .nil) ∧
        (s'.obj o).subs = (s.obj o).subs.erase c ∧ (hasChan s.chans c = true → isClosed s'.chans c = true)) ∨
     (c ∉ (s.obj o).subs ∧ s'.tasks = s.tasks.set i (.unsubRet u .already) ∧
        (s'.obj o).subs = (s.obj o).subs ∧ s'.chans = s.chans)) := by
  unfold stepUnsubWait at h
  split at h
  · simp at h
  · split at h
    · rename_i hmem
      split at h
      · simp only [List.mem_singleton, Prod.mk.injEq] at h
        obtain ⟨_, rfl⟩ := h
        simp [State.panic] at hp
      · simp only [List.mem_singleton, Prod.mk.injEq] at h
        obtain ⟨_, rfl⟩ := h
        have hne : (s.obj o).subs ≠ [] := by intro h0; rw [h0] at hmem; cases hmem
        refine ⟨?_, ?_, ?_, Or.inl ⟨hmem, rfl, ?_, ?_⟩⟩
        · intro o' ho'
          exact obj_setObj_ne { s with chans := closeChan s.chans c } o o' _ ho'
        · intro c' hc'; exact isClosed_closeChan_ne _ _ _ hc'
        · exact closeChan_untouched _ _
        · have := obj_setObj_subs { s with chans := closeChan s.chans c } o
            { s.obj o with subs := (s.obj o).subs.erase c, rw := (s.obj o).rw.lockUnlock } hne
          change ((State.setObj _ o _).obj o).subs = _
          rw [this]
        · intro hh; exact closeChan_closes _ _ hh
    · rename_i hmem
      simp only [List.mem_singleton, Prod.mk.injEq] at h
      obtain ⟨_, rfl⟩ := h
      refine ⟨?_, fun _ _ => rfl, rfl, Or.inr ⟨hmem, rfl, ?_, rfl⟩⟩
      · intro o' ho'; exact obj_setObj_ne s o o' _ ho'
      · exact obj_setObj_rw_subs s o _


theorem closeAll_spec : ∀ (l : List Chan) (cs cs' : List ChanSt), closeAll cs l = some cs' →
    cs'.map untouched = cs.map untouched ∧ (∀ c', c' ∉ l → isClosed cs' c' = isClosed cs c')
  | [], cs, cs', h => by
    simp only [closeAll, Option.some.injEq] at h; subst h; exact ⟨rfl, fun _ _ => rfl⟩
  | c :: rest, cs, cs', h => by
    simp only [closeAll] at h
    split at h
    · cases h
    · obtain ⟨h1, h2⟩ := closeAll_spec rest _ cs' h
      refine ⟨h1.trans (closeChan_untouched cs c), ?_⟩
      intro c' hc'
      simp only [List.mem_cons, not_or] at hc'
      rw [h2 c' hc'.2, isClosed_closeChan_ne _ _ _ hc'.1]

theorem filter_eq_length_le_one : ∀ (l : List Chan) (c : Chan), l.Nodup → (l.filter (fun x => x == c)).length ≤ 1
  | [], _, _ => by simp
  | a :: rest, c, hnd => by
    have hnd' := List.nodup_cons.mp hnd
    by_cases h : a = c
    · subst h
      have : rest.filter (fun x => x == a) = [] := by
        rw [List.filter_eq_nil_iff]; intro x hx hxa
        have : x = a := by simpa using hxa
        exact hnd'.1 (this ▸ hx)
      simp [List.filter_cons, this]
    · have : (a == c) = false := by simp [h]
      simp only [List.filter_cons, this, Bool.false_eq_true, if_false]
      exact filter_eq_length_le_one rest c hnd'.2

def cloneObj (s : State) (o : Nat) (c : Chan) : ObjSt :=
  { subs := (s.obj o).subs.filter (fun x => x == c), rw := {}, only := some c, ready := true }

/-- `WithOnly(c)` on `o`: the clone's `subs` is the singleton `[c]` (if `c` is subscribed on `o`) or empty -/
theorem withOnly_step {s s' : State} {i w o : Nat} {c : Chan} {l : Option Event}
    (h : (l, s') ∈ stepWoStart s i w o c) :
    (∀ x ∈ (s'.obj w).subs, x = c ∧ x ∈ (s.obj o).subs) ∧
    ((s.obj o).subs.Nodup → (s'.obj w).subs.length ≤ 1) ∧
    (∀ o', o' ≠ w → s'.obj o' = s.obj o') ∧ s'.chans = s.chans := by
  unfold stepWoStart at h
  split at h
  · simp at h
  · simp only [List.mem_singleton, Prod.mk.injEq] at h
    obtain ⟨_, rfl⟩ := h
    have key : ((s.setObj w (cloneObj s o c)).obj w).subs = (s.obj o).subs.filter (fun x => x == c) ∨
        ((s.setObj w (cloneObj s o c)).obj w).subs = [] := by
      rcases Nat.lt_or_ge w s.objs.length with h1 | h1
      · left; simp [State.obj, State.setObj, cloneObj, List.getD_eq_getElem?_getD, List.getElem?_set, h1]
      · right
        have : ∀ x, s.objs.set w x = s.objs := fun x => List.set_eq_of_length_le h1
        simp [State.obj, State.setObj, this, List.getD_eq_getElem?_getD, List.getElem?_eq_none h1]
    refine ⟨?_, ?_, fun o' ho' => obj_setObj_ne s w o' _ ho', rfl⟩
    · intro x hx
      change x ∈ ((s.setObj w (cloneObj s o c)).obj w).subs at hx
      rcases key with k | k
      · rw [k, List.mem_filter] at hx
        exact ⟨by simpa using hx.2, hx.1⟩
      · rw [k] at hx; cases hx
    · intro hnd
      change ((s.setObj w (cloneObj s o c)).obj w).subs.length ≤ 1
      rcases key with k | k
      · rw [k]; exact filter_eq_length_le_one _ _ hnd
      · rw [k]; simp


/-- the critical section of `UnsubAll` on object `o`, when it does not panic -/
theorem unsubAll_step {s s' : State} {i u o : Nat} {l : Option Event}
    (h : (l, s') ∈ stepUaWait s i u o) (hp : s'.panicked = none) :
    s'.tasks = s.tasks.set i (.uaRet u) ∧ (s'.obj o).subs = [] ∧ (∀ o', o' ≠ o → s'.obj o' = s.obj o') ∧
    s'.chans.map untouched = s.chans.map untouched ∧
    (∀ c', c' ∉ (s.obj o).subs → isClosed s'.chans c' = isClosed s.chans c') := by
  unfold stepUaWait at h
  split at h
  · simp at h
  · split at h
    · simp only [List.mem_singleton, Prod.mk.injEq] at h
      obtain ⟨_, rfl⟩ := h
      simp [State.panic] at hp
    · rename_i cs hcs
      simp only [List.mem_singleton, Prod.mk.injEq] at h
      obtain ⟨_, rfl⟩ := h
      obtain ⟨h1, h2⟩ := closeAll_spec _ _ _ hcs
      refine ⟨rfl, ?_, fun o' ho' => obj_setObj_ne { s with chans := cs } o o' _ ho', h1, h2⟩
      change ((State.setObj _ o _).obj o).subs = []
      rcases Nat.lt_or_ge o s.objs.length with h3 | h3
      · simp [State.obj, State.setObj, List.getD_eq_getElem?_getD, List.getElem?_set, h3]
      · have : ∀ x, s.objs.set o x = s.objs := fun x => List.set_eq_of_length_le h3
        simp [State.obj, State.setObj, this, List.getD_eq_getElem?_getD, List.getElem?_eq_none h3]


theorem sendTo_sent_logs {s s1 : State} {it : Item} (h : sendTo s it = .sent s1) :
    s1.delivered = s.delivered ++ [(it.pid, it.idx, it.c)] ∧ s1.timedOut = s.timedOut := by
  unfold sendTo at h
  split at h
  · cases h
  · split at h
    · cases h
    · split at h
      · injection h with h; subst h; exact ⟨rfl, rfl⟩
      · split at h
        · injection h with h; subst h; exact ⟨rfl, rfl⟩
        · cases h

/-- one iteration of the PubSync / PubSliceSync loop on its head item `it`: exactly one of
(a) the OnPubTimeout callback of the already timed-out head (visible `tmo`), then the loop moves on;
(b) the hand-off: exactly `it` is appended to `delivered`, then the loop moves on;
(c) the timer fires (only with a positive timeout): exactly `it` is appended to `timedOut`, the callback is pending;
(d) a send on a closed channel. -/
theorem sync_step {cfg : Cfg} {s s' : State} {i p o : Nat} {it : Item} {rest : List Item} {cb : Bool}
    {l : Option Event} (h : (l, s') ∈ stepSyncLoop cfg s i p o (it :: rest) cb) :
    (cb = true ∧ l = some (.tmo it.ev) ∧ s' = syncAdvance i p o rest s) ∨
    (cb = false ∧ l = none ∧ ∃ s1, sendTo s it = .sent s1 ∧
        s1.delivered = s.delivered ++ [(it.pid, it.idx, it.c)] ∧ s1.timedOut = s.timedOut ∧
        s' = syncAdvance i p o rest s1) ∨
    (cb = false ∧ l = none ∧ cfg.timeout > 0 ∧
        s' = (s.logTimeout it).setTask i (.syncLoop p o (it :: rest) true)) ∨
    (cb = false ∧ sendTo s it = .panic ∧ s' = s.panic "send-on-closed") := by
  simp only [stepSyncLoop, stepSend] at h
  cases cb with
  | true =>
    simp at h
    exact Or.inl ⟨rfl, h.1, h.2⟩
  | false =>
    simp only [Bool.false_eq_true, if_false, List.mem_append] at h
    rcases h with h | h
    · cases hst : sendTo s it with
      | blocked => simp [hst] at h
      | panic =>
        simp [hst] at h
        exact Or.inr (Or.inr (Or.inr ⟨rfl, rfl, h.2⟩))
      | sent s1 =>
        simp [hst] at h
        obtain ⟨h1, h2⟩ := sendTo_sent_logs hst
        exact Or.inr (Or.inl ⟨rfl, h.1, s1, rfl, h1, h2, h.2⟩)
    · split at h
      · rename_i htm
        simp at h
        exact Or.inr (Or.inr (Or.inl ⟨rfl, h.1, htm, h.2⟩))
      · simp at h

/-- after an iteration the loop continues with the remaining items in order, and returns exactly when none is left -/
theorem syncAdvance_task (i p o : Nat) (rest : List Item) (s : State) (hi : i < s.tasks.length) :
    (syncAdvance i p o rest s).tasks[i]? =
      some (match rest with | [] => Task.pubRet p | _ :: _ => Task.syncLoop p o rest false) := by
  cases rest with
  | nil => simp [syncAdvance, State.setTask, State.runlock, State.setObj, hi]
  | cons a r => simp [syncAdvance, State.setTask, hi]

end TypVerif.Lemmas.PubSubLocal
