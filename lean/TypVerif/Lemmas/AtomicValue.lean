import TypVerif.Lemmas.AtomicObj
import TypVerif.Spec.Register
/-
AtomicValue (contract + wrapper) against the register specification.
-/
namespace TypVerif.Lemmas.AtomicValue
open TypVerif TypVerif.Conc TypVerif.Model TypVerif.Model.AtomicObj TypVerif.Model.AtomicValue
open TypVerif.Spec.Register (lastStored cur)

/-- every outcome of a wrapper method is an outcome the register allows -/
theorem apply_refines (σ : Option Int) (op : Op) (p : Option Int × Res)
    (h : p ∈ AtomicValue.apply σ op) : p ∈ Spec.Register.apply σ op := by
  cases op with
  | load => cases σ <;> simpa [AtomicValue.apply, Spec.Register.apply, atomLoad, unbox, cur] using h
  | store v => simpa [AtomicValue.apply, Spec.Register.apply, atomStore] using h
  | swap v => cases σ <;> simpa [AtomicValue.apply, Spec.Register.apply, atomSwap, unbox, cur] using h
  | cas old new =>
    cases σ with
    | none => simp [AtomicValue.apply, atomCAS] at h; simp [Spec.Register.apply, h]
    | some c =>
      by_cases e : c = old
      · simp [AtomicValue.apply, atomCAS, e] at h; simp [Spec.Register.apply, e, h]
      · simp [AtomicValue.apply, atomCAS, e] at h; simp [Spec.Register.apply, e, h]

/-- once a value has been stored the wrapper is exactly the register -/
theorem apply_eq_after_store (c : Int) (op : Op) :
    AtomicValue.apply (some c) op = Spec.Register.apply (some c) op := by
  cases op with
  | load => rfl
  | store v => rfl
  | swap v => rfl
  | cas old new =>
    by_cases e : c = old <;> simp [AtomicValue.apply, atomCAS, Spec.Register.apply, e]

/-- each wrapper method is deterministic: exactly one atomic outcome -/
theorem apply_length (σ : Option Int) (op : Op) : (AtomicValue.apply σ op).length = 1 := by
  cases op <;> rfl

theorem seqRun_mono (S : Spec) (apply2 : S.σ → S.Op → List (S.σ × S.Res))
    (hsub : ∀ σ op p, p ∈ S.apply σ op → p ∈ apply2 σ op) {h : List (S.Op × S.Res)} {σ : S.σ}
    (hr : SeqRun S h σ) : SeqRun { S with apply := apply2 } h σ := by
  induction hr with
  | nil => exact SeqRun.nil
  | cons _ happ ih => exact SeqRun.cons ih (hsub _ _ _ happ)

theorem register_spec_eq : Spec.Register.spec = { AtomicValue.spec with apply := Spec.Register.apply } := rfl

/-- every execution of the AtomicValue system is linearizable to the register -/
theorem linearizable_register (menu : List Op) (n : Nat)
    {ls : List (Option (Event Op Res))} {s : (sys AtomicValue.spec menu n).State}
    (he : Exec (sys AtomicValue.spec menu n) (sys AtomicValue.spec menu n).init ls s) :
    Linearizable Spec.Register.spec (visible ls) := by
  obtain ⟨log, h1, ⟨σ, h2⟩, h3⟩ := Lemmas.AtomicObj.linearizable AtomicValue.spec menu n he
  refine ⟨log, h1, ⟨σ, ?_⟩, h3⟩
  exact seqRun_mono AtomicValue.spec Spec.Register.apply apply_refines h2

theorem apply_lastStored (a : Option Int) (op : Op) (o : Option Int) (r : Res) (hist : List (Op × Res))
    (h : (o, r) ∈ AtomicValue.apply a op) (ih : a = lastStored hist) :
    o = lastStored ((op, r) :: hist) := by
  cases op with
  | load =>
    simp only [AtomicValue.apply, List.mem_singleton, Prod.mk.injEq] at h
    simp [lastStored, h.1, ih]
  | store v =>
    simp only [AtomicValue.apply, atomStore, List.mem_singleton, Prod.mk.injEq] at h
    simp [lastStored, h.1]
  | swap v =>
    simp only [AtomicValue.apply, atomSwap, List.mem_singleton, Prod.mk.injEq] at h
    simp [lastStored, h.1]
  | cas old new =>
    by_cases e : a = some old
    · simp only [AtomicValue.apply, atomCAS, e, if_true, List.mem_singleton, Prod.mk.injEq] at h
      simp [lastStored, h.1, h.2]
    · simp only [AtomicValue.apply, atomCAS, e, if_false, List.mem_singleton, Prod.mk.injEq] at h
      simp [lastStored, h.1, h.2, ih]

/-- the shared content is the most recently stored value (in linearization order) -/
theorem obj_eq_lastStored (menu : List Op) (n : Nat) :
    ∀ s, Reachable (sys AtomicValue.spec menu n) s → s.obj = lastStored (linsOf s.log) := by
  apply Conc.invariant (sys AtomicValue.spec menu n) (fun s => s.obj = lastStored (linsOf s.log))
  · rfl
  · intro s l s' ih hmem
    obtain ⟨t, _, hcase⟩ := Lemmas.AtomicObj.step_shape hmem
    rcases hcase with ⟨op, _, _, _, rfl⟩ | ⟨op, o, r, _, _, happ, rfl⟩ | ⟨op, r, _, _, rfl⟩
    · exact ih
    · exact apply_lastStored s.obj op o r (linsOf s.log) happ ih
    · exact ih

/-- the linearization step of an operation of goroutine `t`, with its result -/
def LinStep (menu : List Op) (s s' : AtomicObj.State (Option Int) Op Res) (t : Nat) (op : Op) (r : Res) : Prop :=
  (none, s') ∈ AtomicObj.succ AtomicValue.apply menu s ∧ s'.log = AtomicObj.Entry.lin t op r :: s.log

theorem linStep_apply {menu : List Op} {s s' : AtomicObj.State (Option Int) Op Res} {t : Nat} {op : Op} {r : Res}
    (h : LinStep menu s s' t op r) : (s'.obj, r) ∈ AtomicValue.apply s.obj op := by
  obtain ⟨hmem, hlog⟩ := h
  obtain ⟨t0, _, hcase⟩ := Lemmas.AtomicObj.step_shape hmem
  rcases hcase with ⟨op', _, hl, _, rfl⟩ | ⟨op', o, r', _, _, happ, rfl⟩ | ⟨op', r', _, hl, rfl⟩
  · simp at hl
  · simp only [List.cons.injEq, AtomicObj.Entry.lin.injEq] at hlog
    obtain ⟨⟨_, rfl, rfl⟩, _⟩ := hlog
    exact happ
  · simp at hl


end TypVerif.Lemmas.AtomicValue
