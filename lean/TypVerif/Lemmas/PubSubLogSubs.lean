import TypVerif.Lemmas.PubSubLogMain
/-
`subs` is constant while a reader holds the lock (system without clones): the writers' critical sections
(Sub, Unsub, UnsubAll) need a reader count of 0, everything else leaves `subs` alone.
-/
namespace TypVerif.Lemmas.PubSubLog
open TypVerif TypVerif.Model.PubSub TypVerif.Lemmas.PubSubSafe TypVerif.Lemmas.PubSubLocal

theorem obj_congr {s s' : State} (h : s'.objs = s.objs) (o : Nat) : s'.obj o = s.obj o := by
  simp [State.obj, h]

theorem subs_setObj_rw (s : State) (o o' : Nat) (r : RW) :
    ((s.setObj o { s.obj o with rw := r }).obj o').subs = (s.obj o').subs := by
  by_cases h : o' = o
  · subst h; exact obj_setObj_rw_subs s o' r
  · rw [obj_setObj_ne s o o' _ h]

theorem subs_rlock (s : State) (o o' : Nat) : ((s.rlock o).obj o').subs = (s.obj o').subs := subs_setObj_rw s o o' _
theorem subs_runlock (s : State) (o o' : Nat) : ((s.runlock o).obj o').subs = (s.obj o').subs := subs_setObj_rw s o o' _
theorem subs_announce (s : State) (o o' : Nat) : ((s.announce o).obj o').subs = (s.obj o').subs := subs_setObj_rw s o o' _

theorem subs_syncAdvance (i p o : Nat) (rest : List Item) (s : State) (o' : Nat) :
    ((syncAdvance i p o rest s).obj o').subs = (s.obj o').subs := by
  cases rest with
  | nil => exact subs_runlock s o o'
  | cons a r => rfl

theorem wgDone_objs (s : State) (w : Nat) : (wgDone s w).objs = s.objs := by
  unfold wgDone; split <;> rfl

theorem subs_stepSend {cfg : Cfg} {s s' : State} {it : Item} {cb : Bool} {fin setCb : State → State}
    {l : Option Event} {o' : Nat} (h : (l, s') ∈ stepSend cfg s it cb fin setCb)
    (hfin : ∀ x : State, ((fin x).obj o').subs = (x.obj o').subs)
    (hcb : ∀ x : State, ((setCb x).obj o').subs = (x.obj o').subs) : (s'.obj o').subs = (s.obj o').subs := by
  rcases mem_stepSend' h with ⟨_, rfl⟩ | ⟨_, s1, hst, rfl⟩ | ⟨_, rfl⟩ | ⟨_, _, rfl⟩
  · exact hfin s
  · rw [hfin s1, obj_congr (sendTo_sent hst).objs]
  · rfl
  · rw [hcb]; rfl

theorem canLock_false_of_readers {rw : RW} (h : 0 < rw.readers) : (!rw.canLock) = true := by
  simp [RW.canLock]; left; omega

def isWriter : Task → Bool
  | .subWait .. => true
  | .unsubWait .. => true
  | .uaWait .. => true
  | _ => false

/-- a task step leaves `subs` alone, unless it is a writer's critical section (possible only with no reader inside) -/
theorem subs_stepTask {cfg : Cfg} {s s' : State} {i : Nat} {t : Task} {l : Option Event} (hs : Safe s)
    (hi : s.tasks[i]? = some t) (h : (l, s') ∈ stepTask cfg s i t) :
    (s'.obj 0).subs = (s.obj 0).subs ∨ (isWriter t = true ∧ (s.obj 0).rw.readers = 0) := by
  have hobj : objOk t := hs.obj0 t (List.mem_of_getElem? hi)
  cases t with
  | pubStart p o v evs =>
    left
    simp only [stepTask] at h
    unfold stepPubStart at h
    split at h
    · simp at h
    · simp only at h
      split at h
      · split at h
        · simp only [List.mem_singleton, Prod.mk.injEq] at h
          obtain ⟨_, rfl⟩ := h; rfl
        · simp only [List.mem_singleton, Prod.mk.injEq] at h
          obtain ⟨_, rfl⟩ := h; exact subs_rlock s o 0
      · split at h
        · simp only [List.mem_singleton, Prod.mk.injEq] at h
          obtain ⟨_, rfl⟩ := h; exact subs_rlock s o 0
        · simp only [List.mem_singleton, Prod.mk.injEq] at h
          obtain ⟨_, rfl⟩ := h; rfl
  | syncLoop p o work cb =>
    left
    cases work with
    | nil => simp [stepTask, stepSyncLoop] at h
    | cons it rest =>
      simp only [stepTask, stepSyncLoop] at h
      exact subs_stepSend h (fun x => subs_syncAdvance i p o rest x 0) (fun _ => rfl)
  | waitWg p o w =>
    left
    simp only [stepTask] at h
    unfold stepWaitWg at h
    split at h
    · simp only [List.mem_singleton, Prod.mk.injEq] at h
      obtain ⟨_, rfl⟩ := h; exact subs_runlock s o 0
    · simp at h
  | pubRet p =>
    left
    simp only [stepTask, List.mem_singleton, Prod.mk.injEq] at h
    obtain ⟨_, rfl⟩ := h; rfl
  | asyncStart o it =>
    left
    simp only [stepTask] at h
    unfold stepAsyncStart at h
    split at h
    · simp at h
    · split at h
      · simp only [List.mem_singleton, Prod.mk.injEq] at h
        obtain ⟨_, rfl⟩ := h; exact subs_rlock s o 0
      · simp only [List.mem_singleton, Prod.mk.injEq] at h
        obtain ⟨_, rfl⟩ := h; rfl
  | asyncSend o it cb =>
    left
    simp only [stepTask, stepAsyncSend] at h
    exact subs_stepSend h (fun x => subs_runlock x o 0) (fun _ => rfl)
  | wgSend o w it cb =>
    left
    simp only [stepTask, stepWgSend] at h
    exact subs_stepSend h (fun x => by rw [show ((wgDone x w).setTask i .done).obj 0 = (wgDone x w).obj 0 from rfl,
      obj_congr (wgDone_objs x w)]) (fun _ => rfl)
  | subStart o c cap =>
    left
    simp only [stepTask, List.mem_singleton, Prod.mk.injEq] at h
    obtain ⟨_, rfl⟩ := h; exact subs_announce s o 0
  | subWait o c cap =>
    cases hobj
    right
    refine ⟨rfl, ?_⟩
    apply Classical.byContradiction; intro hne
    have hnl := canLock_false_of_readers (Nat.pos_of_ne_zero hne)
    simp only [stepTask, stepSubWait, hnl, Bool.true_or, if_true] at h
    simp at h
  | subRet c =>
    left
    simp only [stepTask, List.mem_singleton, Prod.mk.injEq] at h
    obtain ⟨_, rfl⟩ := h; rfl
  | unsubStart u o c =>
    left
    cases c with
    | none =>
      simp only [stepTask, List.mem_singleton, Prod.mk.injEq] at h
      obtain ⟨_, rfl⟩ := h; rfl
    | some c =>
      simp only [stepTask, List.mem_singleton, Prod.mk.injEq] at h
      obtain ⟨_, rfl⟩ := h; exact subs_announce s o 0
  | unsubWait u o c =>
    cases hobj
    right
    refine ⟨rfl, ?_⟩
    apply Classical.byContradiction; intro hne
    have hnl := canLock_false_of_readers (Nat.pos_of_ne_zero hne)
    simp only [stepTask, stepUnsubWait, hnl, if_true] at h
    simp at h
  | unsubRet u code =>
    left
    simp only [stepTask, List.mem_singleton, Prod.mk.injEq] at h
    obtain ⟨_, rfl⟩ := h; rfl
  | uaStart u o =>
    left
    simp only [stepTask, List.mem_singleton, Prod.mk.injEq] at h
    obtain ⟨_, rfl⟩ := h; exact subs_announce s o 0
  | uaWait u o =>
    cases hobj
    right
    refine ⟨rfl, ?_⟩
    apply Classical.byContradiction; intro hne
    have hnl := canLock_false_of_readers (Nat.pos_of_ne_zero hne)
    simp only [stepTask, stepUaWait, hnl, if_true] at h
    simp at h
  | uaRet u =>
    left
    simp only [stepTask, List.mem_singleton, Prod.mk.injEq] at h
    obtain ⟨_, rfl⟩ := h; rfl
  | woStart w o c => exact absurd hobj (by simp [objOk])
  | done => simp [stepTask] at h

theorem subs_envStep {cfg : Cfg} {s s' : State} {e : Event} (hc : cfg.allowClone = false)
    (h : envStep cfg s e = some s') : s'.objs = s.objs := by
  cases e with
  | sub c cap =>
    simp only [envStep] at h
    split at h
    · cases h
    · injection h with h; subst h; rfl
  | mkchan c =>
    simp only [envStep] at h
    split at h
    · cases h
    · injection h with h; subst h; rfl
  | withonly w via c => simp [envStep, hc] at h
  | pubinv p via v evs =>
    simp only [envStep] at h
    split at h
    · cases h
    · injection h with h; subst h; rfl
  | allow c n =>
    simp only [envStep] at h
    split at h
    · injection h with h; subst h; rfl
    · cases h
  | unsubinv u via c =>
    simp only [envStep] at h
    split at h
    · injection h with h; subst h; rfl
    · cases h
  | unsuballinv u via =>
    simp only [envStep] at h
    split at h
    · injection h with h; subst h; rfl
    · cases h
  | _ => simp [envStep] at h

theorem recvSteps_objs {s s' : State} {ch : ChanSt} {l : Option Event}
    (h : (l, s') ∈ recvSteps s ch) : s'.objs = s.objs := by
  unfold recvSteps at h
  split at h
  · simp at h
  · split at h
    · simp only [List.mem_singleton, Prod.mk.injEq] at h
      obtain ⟨_, rfl⟩ := h; rfl
    · split at h
      · simp at h
      · split at h
        · simp only [List.mem_singleton, Prod.mk.injEq] at h
          obtain ⟨_, rfl⟩ := h; rfl
        · split at h
          · simp only [List.mem_singleton, Prod.mk.injEq] at h
            obtain ⟨_, rfl⟩ := h; rfl
          · simp at h

/-- a step leaves `subs` alone, unless it is the critical section of a writer task `j` with no reader inside -/
theorem subs_step {cfg : Cfg} (hc : cfg.allowClone = false) {s s' : State} {l : Option Event} (hs : Safe s)
    (h : (l, s') ∈ succ cfg s) : (s'.obj 0).subs = (s.obj 0).subs ∨
    ((s.obj 0).rw.readers = 0 ∧ ∃ (j : Nat) (t : Task), s.tasks[j]? = some t ∧ isWriter t = true ∧
      (l, s') ∈ stepTask cfg s j t) := by
  unfold succ at h
  split at h
  · simp at h
  · rw [hs.nopanic] at h
    simp only [List.mem_append] at h
    rcases h with ((h | h) | h) | h
    · simp only [envSteps, List.mem_filterMap] at h
      obtain ⟨e, _, he⟩ := h
      cases hes : envStep cfg s e with
      | none => simp [hes] at he
      | some s1 =>
        simp [hes] at he
        obtain ⟨_, rfl⟩ := he
        left; rw [obj_congr (subs_envStep hc hes)]
    · simp only [List.mem_flatMap, List.mem_range] at h
      obtain ⟨i, _, hi⟩ := h
      unfold taskSteps at hi
      split at hi
      · simp at hi
      · rename_i t ht
        rcases subs_stepTask hs ht hi with h1 | ⟨h1, h2⟩
        · exact Or.inl h1
        · exact Or.inr ⟨h2, i, t, ht, h1, hi⟩
    · simp only [List.mem_flatMap] at h
      obtain ⟨ch, _, hch⟩ := h
      left; rw [obj_congr (recvSteps_objs hch)]
    · simp only [exitSteps, List.mem_map] at h
      obtain ⟨r, _, hr⟩ := h
      injection hr with _ hr; subst hr
      left; rfl

/-- a writer's step does not touch any other task -/
theorem writer_step_other {cfg : Cfg} {s s' : State} {i j : Nat} {t : Task} {l : Option Event}
    (hj : s.tasks[j]? = some t) (h : (l, s') ∈ stepTask cfg s j t) (hij : j ≠ i) (hi : i < s.tasks.length) :
    s'.tasks[i]? = s.tasks[i]? := by
  obtain ⟨t', new, dl, tl, _, h1, _, _, _⟩ := stepTask_tsum hj h
  rw [h1, getElem?_set_append_ne _ _ _ _ _ hij hi]

theorem tstep_to_loop {cfg : Cfg} {s : State} {t t' : Task} {new : List Task} {dl tl : List Key} {p o : Nat}
    {w : List Item} {c : Bool} (h : TStep cfg s t t' new dl tl) (ht' : t' = .syncLoop p o w c)
    (hc : callTask p o t = true) : ∃ w0 c0, t = .syncLoop p o w0 c0 := by
  cases h with
  | stuck _ hn => exact ⟨_, _, ht'⟩
  | ctl h1 h2 => subst ht'; simp [isCtl] at h2
  | ret p' => cases ht'
  | syncCb p' o' it rest =>
    simp only [callTask, Bool.and_eq_true, beq_iff_eq] at hc
    obtain ⟨rfl, rfl⟩ := hc; exact ⟨_, _, rfl⟩
  | syncSent p' o' it rest =>
    simp only [callTask, Bool.and_eq_true, beq_iff_eq] at hc
    obtain ⟨rfl, rfl⟩ := hc; exact ⟨_, _, rfl⟩
  | syncTmo p' o' it rest htm =>
    simp only [callTask, Bool.and_eq_true, beq_iff_eq] at hc
    obtain ⟨rfl, rfl⟩ := hc; exact ⟨_, _, rfl⟩
  | _ => simp [callTask, isCtl] at hc

/-- PubSync / PubSliceSync without clones: while the call's task is in its loop (it holds the read lock from the
snapshot to the return), `subs` of the PubSub value is what the snapshot read -/
structure SubsInv (i p o : Nat) (X : List Chan) (s : State) : Prop where
  const : ∀ work cb, s.tasks[i]? = some (.syncLoop p o work cb) → (s.obj 0).subs = X

theorem subsInv_step {cfg : Cfg} (hc : cfg.allowClone = false) {i p o : Nat} {keys : List Key} {X : List Chan}
    {s s' : State} {l : Option Event} (hr : Conc.Reachable (sys cfg) s) (hS : SyncInv i p o keys s)
    (hI : SubsInv i p o X s) (h : (l, s') ∈ succ cfg s) : SubsInv i p o X s' := by
  have hs := no_panic_noClone cfg hc s hr
  constructor
  intro work' cb' hi'
  obtain ⟨t, pre, hi, hct, _⟩ := hS.mine
  -- task `i` was already in its loop before the step
  have hloop : ∃ work cb, t = .syncLoop p o work cb := by
    rcases bstep_other (succ_bstep h) hi with hsame | ⟨t', new, dl, tl, hT, h1, _, _, _⟩
    · rw [hsame] at hi'; cases hi'; exact ⟨_, _, rfl⟩
    · have hlt := lt_length_of_getElem? hi
      rw [h1, getElem?_set_append_self _ _ _ _ hlt] at hi'
      exact tstep_to_loop hT (Option.some.inj hi') hct
  obtain ⟨work, cb, rfl⟩ := hloop
  have hpos := readers_pos hs hi rfl
  rcases subs_step hc hs h with h1 | ⟨h0, _⟩
  · rw [h1]; exact hI.const work cb hi
  · omega

theorem CallRun.subsInv {cfg : Cfg} (hc : cfg.allowClone = false) {s0 s1 s2 : State} {i p o : Nat} {v : Variant}
    {evs : List Int} (h : CallRun cfg s0 s1 s2 i p o v evs) (hv : v.isSync = true) :
    o = 0 ∧ SubsInv i p o (s0.obj 0).subs s2 := by
  have hs0 := no_panic_noClone cfg hc s0 h.reach
  have ho : o = 0 := hs0.obj0 _ (List.mem_of_getElem? h.at0)
  refine ⟨ho, ?_⟩
  obtain ⟨l, h01, hne⟩ := h.snap
  have h1 : SubsInv i p o (s0.obj 0).subs s1 := by
    constructor
    intro _ _ _
    rcases subs_step hc hs0 h01 with e | ⟨_, j, t, hj, hw, hstep⟩
    · exact e
    · exfalso
      have hji : j ≠ i := by
        intro e; subst e
        rw [h.at0] at hj; cases hj
        simp [isWriter] at hw
      exact hne (writer_step_other hj hstep hji (lt_length_of_getElem? h.at0))
  obtain ⟨ls, hex⟩ := h.run
  exact ((exec_invariant cfg
    (fun s => SyncInv i p o (callKeys p evs (s0.obj o).subs) s ∧ SubsInv i p o (s0.obj 0).subs s)
    (fun s _ _ hr hI hstep => ⟨syncInv_bstep (fun k hk => callKeys_pid hk) hI.1 (succ_bstep hstep),
      subsInv_step hc hr hI.1 hI.2 hstep⟩)
    ls s1 s2 hex h.reach1 ⟨h.snapshot.syncInv hv, h1⟩).2).2

end TypVerif.Lemmas.PubSubLog
