import TypVerif.Lemmas.Splice
/-
Lemmas for C12: Remove / RemoveSlice / InsertSlice.
-/
namespace TypVerif.Lemmas.Splice
open TypVerif TypVerif.Model TypVerif.Model.GoSlice TypVerif.Lemmas.GoSlice

variable {α : Type}

/-! ### Remove / RemoveSlice -/

theorem remove_eq_removeSlice (h : Heap α) (s : Slice) (index : Nat) :
    Splice.remove h s index = Splice.removeSlice h s index 1 := rfl

/-- everything `RemoveSlice` does: it stays in the backing array, moves `s[index+n:len]` to `index`,
and writes nothing else (in particular the `n` cells behind the new end keep their old values) -/
theorem removeSlice_spec (h : Heap α) (s : Slice) (index n : Nat) (hwf : WF h s) (hi : index + n ≤ s.len) :
    ∃ h', Splice.removeSlice h s index n = .ok (h', { s with len := s.len - n }) ∧
      h'.next = h.next ∧ (∀ b, (h'.cells b).length = (h.cells b).length) ∧
      ∀ b j, (h'.cells b)[j]? =
        if b = s.bid ∧ s.off + index ≤ j ∧ j < s.off + s.len - n then (h.cells s.bid)[j + n]?
        else (h.cells b)[j]? := by
  obtain ⟨hlc, hlen, _⟩ := hwf
  unfold Splice.removeSlice
  rw [sliceFrom_ok _ index (by omega) hlc, sliceFrom_ok _ (index + n) (by omega) hlc]
  simp only [bind, Except.bind]
  rw [if_neg (by omega), sliceTo_ok _ _ (by omega)]
  simp only [pure, Except.pure]
  refine ⟨_, rfl, rfl, ?_, ?_⟩
  · intro b
    rw [copy_length _ _ _ (by simp only []; omega)]
  · intro b j
    rw [copy_cells _ _ _ (by simp only []; omega) (by simp only []; omega)]
    simp only []
    by_cases hb : b = s.bid
    · subst hb
      simp only [true_and]
      repeat' split
      all_goals idx
    · simp only [hb, false_and, if_false]

theorem removeSlice_panics (h : Heap α) (s : Slice) (index n : Nat) (hwf : WF h s) (hi : s.len < index + n) :
    Splice.removeSlice h s index n = panicBounds := by
  unfold Splice.removeSlice
  by_cases h1 : index ≤ s.len
  · rw [sliceFrom_ok _ index h1 hwf.1, sliceFrom_panic _ (index + n) hi]; rfl
  · rw [sliceFrom_panic _ index (by omega)]; rfl

theorem removeSlice_contents (h : Heap α) (s : Slice) (index n : Nat) (hwf : WF h s) (hi : index + n ≤ s.len) :
    ∃ h' s', Splice.removeSlice h s index n = .ok (h', s') ∧ WF h' s' ∧
      contents h' s' = Spec.Splice.removeSlice (contents h s) index n := by
  have hcl : (contents h s).length = s.len := length_contents (by have := hwf.1; have := hwf.2.1; omega)
  obtain ⟨h', he, hn, hlen, hcells⟩ := removeSlice_spec h s index n hwf hi
  refine ⟨h', _, he, ⟨by simp only []; have := hwf.1; omega, by simp only []; rw [hlen]; exact hwf.2.1,
      by simp only []; rw [hn]; exact hwf.2.2⟩, ?_⟩
  apply List.ext_getElem?
  intro k
  rw [getElem?_contents]
  simp only [hcells, Spec.Splice.removeSlice, List.getElem?_append, List.length_take, hcl,
    List.getElem?_take, List.getElem?_drop, true_and, getElem?_contents]
  repeat' split
  all_goals idx

/-! ### InsertSlice -/

/-- the part of `InsertSlice` after the `append` -/
def insertSliceTail (h : Heap α) (s : Slice) (index : Nat) (values : Slice) : Except String (Heap α × Slice) := do
  let dst ← sliceFrom s (index + values.len)
  let src ← sliceFrom s index
  let (h, _) := copy h dst src
  let dst2 ← sliceFrom s index
  let (h, _) := copy h dst2 values
  pure (h, s)

theorem insertSlice_eq (h : Heap α) (s : Slice) (index : Nat) (values : Slice) (spare : List α) :
    Splice.insertSlice h s index values spare =
      insertSliceTail (append h s (contents h values) spare).1 (append h s (contents h values) spare).2
        index values := rfl

theorem insertSliceTail_spec (h1 : Heap α) (s1 : Slice) (index : Nat) (values : Slice)
    (hl : s1.off + s1.len ≤ (h1.cells s1.bid).length) (hc : s1.len ≤ s1.cap)
    (hv : values.off + values.len ≤ (h1.cells values.bid).length) (hne : values.bid ≠ s1.bid)
    (hi : index + values.len ≤ s1.len) :
    ∃ h3, insertSliceTail h1 s1 index values = .ok (h3, s1) ∧ h3.next = h1.next ∧
      (∀ b, (h3.cells b).length = (h1.cells b).length) ∧
      ∀ b j, (h3.cells b)[j]? =
        if b = s1.bid ∧ s1.off + index ≤ j ∧ j < s1.off + s1.len
        then (if j < s1.off + index + values.len
              then (h1.cells values.bid)[values.off + (j - (s1.off + index))]?
              else (h1.cells s1.bid)[j - values.len]?)
        else (h1.cells b)[j]? := by
  unfold insertSliceTail
  rw [sliceFrom_ok _ (index + values.len) (by omega) hc, sliceFrom_ok _ index (by omega) hc]
  simp only [bind, Except.bind, pure, Except.pure]
  refine ⟨_, rfl, rfl, ?_, ?_⟩
  · intro b
    rw [copy_length _ _ _ (by simp only []; rw [copy_length _ _ _ (by simp only []; omega)]; omega),
      copy_length _ _ _ (by simp only []; omega)]
  · intro b j
    have hc1 := fun b j => copy_cells h1
      ({ bid := s1.bid, off := s1.off + (index + values.len), len := s1.len - (index + values.len),
         cap := s1.cap - (index + values.len) } : Slice)
      ({ bid := s1.bid, off := s1.off + index, len := s1.len - index, cap := s1.cap - index } : Slice)
      (by simp only []; omega) (by simp only []; omega) b j
    rw [copy_cells _ _ _ (by rw [copy_length _ _ _ (by simp only []; omega)]; omega)
      (by simp only []; rw [copy_length _ _ _ (by simp only []; omega)]; omega)]
    simp only [hc1]
    simp only [hne, false_and, if_false]
    by_cases hb : b = s1.bid
    · subst hb
      simp only [true_and]
      repeat' split
      all_goals idx
    · simp only [hb, false_and, if_false]


/-- everything `InsertSlice` does when the values fit into the spare capacity (`values` lives in another
backing array) -/
theorem insertSlice_inplace (h : Heap α) (s : Slice) (index : Nat) (values : Slice) (spare : List α)
    (hwf : WF h s) (hwv : WF h values) (hne : values.bid ≠ s.bid)
    (hfit : s.len + values.len ≤ s.cap) (hi : index ≤ s.len) :
    ∃ h', Splice.insertSlice h s index values spare = .ok (h', { s with len := s.len + values.len }) ∧
      h'.next = h.next ∧ (∀ b, (h'.cells b).length = (h.cells b).length) ∧
      ∀ b j, (h'.cells b)[j]? =
        if b = s.bid ∧ s.off + index ≤ j ∧ j < s.off + s.len + values.len
        then (if j < s.off + index + values.len
              then (h.cells values.bid)[values.off + (j - (s.off + index))]?
              else (h.cells s.bid)[j - values.len]?)
        else (h.cells b)[j]? := by
  obtain ⟨hlc, hlen, _⟩ := hwf
  have hvl : (contents h values).length = values.len :=
    length_contents (by have := hwv.1; have := hwv.2.1; omega)
  have hfit' : s.len + (contents h values).length ≤ s.cap := by rw [hvl]; exact hfit
  have hs1 : (append h s (contents h values) spare).2 = { s with len := s.len + values.len } := by
    rw [append_inplace h s _ spare hfit', hvl]
  have hnext : (append h s (contents h values) spare).1.next = h.next := by
    rw [append_inplace h s _ spare hfit']; rfl
  have hlen1 := length_append_inplace h s (contents h values) spare hfit' hlen
  have hcells1 := getElem?_append_inplace h s (contents h values) spare hfit' hlen
  rw [insertSlice_eq, hs1]
  obtain ⟨h3, he, hn, hlen3, hcells⟩ := insertSliceTail_spec (append h s (contents h values) spare).1
    { s with len := s.len + values.len } index values
    (by simp only []; rw [hlen1]; omega) (by simp only []; omega)
    (by rw [hlen1]; have := hwv.1; have := hwv.2.1; omega) hne (by simp only []; omega)
  refine ⟨h3, he, by rw [hn, hnext], ?_, ?_⟩
  · intro b; rw [hlen3, hlen1]
  · intro b j
    rw [hcells]
    simp only [hcells1, hvl, hne, false_and, if_false]
    by_cases hb : b = s.bid
    · subst hb
      simp only [true_and]
      repeat' split
      all_goals idx
    · simp only [hb, false_and, if_false]

theorem insertSlice_realloc (h : Heap α) (s : Slice) (index : Nat) (values : Slice) (spare : List α)
    (hwf : WF h s) (hwv : WF h values)
    (hfit : ¬ s.len + values.len ≤ s.cap) (hi : index ≤ s.len) :
    ∃ h', Splice.insertSlice h s index values spare =
        .ok (h', { bid := h.next, off := 0, len := s.len + values.len,
                   cap := s.len + values.len + spare.length }) ∧
      h'.next = h.next + 1 ∧ (∀ b, b ≠ h.next → h'.cells b = h.cells b) ∧
      h'.cells h.next = Spec.Splice.insertSlice (contents h s) index (contents h values) ++ spare := by
  obtain ⟨hlc, hlen, _⟩ := hwf
  have hvl : (contents h values).length = values.len :=
    length_contents (by have := hwv.1; have := hwv.2.1; omega)
  have hcl : (contents h s).length = s.len := length_contents (by omega)
  have hfit' : ¬ s.len + (contents h values).length ≤ s.cap := by rw [hvl]; exact hfit
  have hs1 := append_realloc_snd h s (contents h values) spare hfit'
  rw [hvl] at hs1
  have hcells1 := append_realloc_cells h s (contents h values) spare hfit'
  have hvne : values.bid ≠ h.next := by have := hwv.2.2; omega
  rw [insertSlice_eq, hs1]
  obtain ⟨h3, he, hn, hlen3, hcells⟩ := insertSliceTail_spec (append h s (contents h values) spare).1
    { bid := h.next, off := 0, len := s.len + values.len, cap := s.len + values.len + spare.length } index values
    (by simp only []; rw [hcells1, if_pos rfl]
        simp only [List.length_append, hvl, hcl]; omega)
    (by simp only []; omega)
    (by rw [hcells1, if_neg hvne]; have := hwv.1; have := hwv.2.1; omega) hvne (by simp only []; omega)
  refine ⟨h3, he, by rw [hn, append_realloc_next h s _ spare hfit'], ?_, ?_⟩
  · intro b hb
    apply List.ext_getElem?
    intro j
    simp only [hcells, hcells1, hb, false_and, if_false]
  · apply List.ext_getElem?
    intro j
    rw [hcells]
    simp only [hcells1, hvne, if_false, if_true]
    simp only [Spec.Splice.insertSlice, List.getElem?_append, List.length_append, List.length_take,
      List.length_drop, hcl, hvl, List.getElem?_take, List.getElem?_drop, getElem?_contents,
      true_and, Nat.zero_add]
    repeat' split
    all_goals idx

/-- `InsertSlice`: the live contents afterwards are the spliced sequence, for every capacity -/
theorem insertSlice_contents (h : Heap α) (s : Slice) (index : Nat) (values : Slice) (spare : List α)
    (hwf : WF h s) (hwv : WF h values) (hne : values.bid ≠ s.bid) (hi : index ≤ s.len) :
    ∃ h' s', Splice.insertSlice h s index values spare = .ok (h', s') ∧ WF h' s' ∧
      contents h' s' = Spec.Splice.insertSlice (contents h s) index (contents h values) ∧
      contents h' values = contents h values := by
  have hcl : (contents h s).length = s.len := length_contents (by have := hwf.1; have := hwf.2.1; omega)
  have hvl : (contents h values).length = values.len :=
    length_contents (by have := hwv.1; have := hwv.2.1; omega)
  by_cases hfit : s.len + values.len ≤ s.cap
  · obtain ⟨h', he, hn, hlen, hcells⟩ := insertSlice_inplace h s index values spare hwf hwv hne hfit hi
    refine ⟨h', _, he, ⟨by simp only []; omega, by simp only []; rw [hlen]; exact hwf.2.1,
      by simp only []; rw [hn]; exact hwf.2.2⟩, ?_, ?_⟩
    · apply List.ext_getElem?
      intro k
      rw [getElem?_contents]
      simp only [hcells, Spec.Splice.insertSlice, List.getElem?_append, List.length_append, List.length_take,
        hcl, hvl, List.getElem?_take, List.getElem?_drop, true_and, getElem?_contents]
      repeat' split
      all_goals idx
    · apply List.ext_getElem?
      intro k
      simp only [getElem?_contents, hcells, hne, false_and, if_false]
  · obtain ⟨h', he, hn, hother, hnew⟩ := insertSlice_realloc h s index values spare hwf hwv hfit hi
    have hsl : (Spec.Splice.insertSlice (contents h s) index (contents h values)).length
        = s.len + values.len := by
      simp only [Spec.Splice.insertSlice, List.length_append, List.length_take, List.length_drop, hcl, hvl]
      omega
    have hvne : values.bid ≠ h.next := by have := hwv.2.2; omega
    refine ⟨h', _, he, ⟨by simp only []; omega, by simp only []; rw [hnew, List.length_append, hsl]; omega,
      by simp only []; omega⟩, ?_, ?_⟩
    · rw [show contents h' ⟨h.next, 0, s.len + values.len, s.len + values.len + spare.length⟩
          = ((h'.cells h.next).drop 0).take (s.len + values.len) from rfl, hnew, List.drop_zero,
        List.take_left' hsl]
    · unfold contents; rw [hother _ hvne]

end TypVerif.Lemmas.Splice
