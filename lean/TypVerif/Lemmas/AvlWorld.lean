import TypVerif.Lemmas.AvlBalance
/-
Worlds of trees by handle, `Tree`-level wrappers, the walks as list traversals, and the generic
"every reachable tree satisfies P" induction used by C01.sorted / C01.count_eq / C02.all_histories.
-/
set_option linter.unusedSectionVars false
namespace TypVerif.Lemmas.Avl
open TypVerif.Model.Avl TypVerif.Model.Avl.Node TypVerif.Spec.Avl

variable {α : Type}

/-! ### worlds -/

theorem get_set {σ : Type} (w : World σ) (h h' : Nat) (x : σ) :
    (w.set h x).get h' = if h = h' then some x else w.get h' := by
  induction w with
  | nil => simp [World.set, World.get]
  | cons p w ih =>
    obtain ⟨k, y⟩ := p
    simp only [World.set]
    by_cases hk : k = h
    · subst hk
      simp only [if_true, World.get]
      by_cases hk' : k = h' <;> simp [hk']
    · simp only [hk, if_false, World.get, ih]
      by_cases hk' : k = h'
      · subst hk'; simp [Ne.symm hk]
      · simp [hk']

/-- every object in the world satisfies `P` -/
def WAll {σ : Type} (P : σ → Prop) (w : World σ) : Prop := ∀ h x, w.get h = some x → P x

theorem WAll_nil {σ : Type} (P : σ → Prop) : WAll P ([] : World σ) := by
  intro h x hx; simp [World.get] at hx

theorem WAll_set {σ : Type} {P : σ → Prop} {w : World σ} (hw : WAll P w) (h : Nat) {x : σ} (hx : P x) :
    WAll P (w.set h x) := by
  intro h' y hy
  rw [get_set] at hy
  by_cases e : h = h'
  · simp [e] at hy; subst hy; exact hx
  · simp [e] at hy; exact hw h' y hy

/-! ### walks are list traversals -/

theorem walkPreOrder_eq {σ : Type} (f : σ → α → σ) (s : σ) (n : Node α) :
    walkPreOrder f s n = (preorder n).foldl f s := by
  induction n generalizing s with
  | nil => rfl
  | node l v h r ihl ihr => simp [walkPreOrder, preorder, ihl, ihr]

theorem walkInOrder_eq {σ : Type} (f : σ → α → σ) (s : σ) (n : Node α) :
    walkInOrder f s n = (inorder n).foldl f s := by
  induction n generalizing s with
  | nil => rfl
  | node l v h r ihl ihr => simp [walkInOrder, ihl, ihr]

theorem walkPostOrder_eq {σ : Type} (f : σ → α → σ) (s : σ) (n : Node α) :
    walkPostOrder f s n = (postorder n).foldl f s := by
  induction n generalizing s with
  | nil => rfl
  | node l v h r ihl ihr => simp [walkPostOrder, postorder, ihl, ihr]

theorem foldl_snoc (l acc : List α) : l.foldl (fun acc v => acc ++ [v]) acc = acc ++ l := by
  induction l generalizing acc with
  | nil => simp
  | cons a l ih => simp [ih]

theorem WalkPreOrder_eq {σ : Type} (t : Tree α) (f : σ → α → σ) (s : σ) :
    t.WalkPreOrder f s = (preorder t.root).foldl f s := by
  unfold Tree.WalkPreOrder
  split
  · rename_i h; rw [isNil_eq_true.mp h]; rfl
  · exact walkPreOrder_eq f s _

theorem SlicePreOrder_eq (t : Tree α) : t.SlicePreOrder = preorder t.root := by
  unfold Tree.SlicePreOrder; rw [WalkPreOrder_eq, foldl_snoc]; simp

theorem SliceInOrder_eq (t : Tree α) : t.SliceInOrder = inorder t.root := by
  unfold Tree.SliceInOrder Tree.WalkInOrder
  split
  · rename_i h; rw [isNil_eq_true.mp h]; rfl
  · rw [walkInOrder_eq, foldl_snoc]; simp

theorem SlicePostOrder_eq (t : Tree α) : t.SlicePostOrder = postorder t.root := by
  unfold Tree.SlicePostOrder Tree.WalkPostOrder
  split
  · rename_i h; rw [isNil_eq_true.mp h]; rfl
  · rw [walkPostOrder_eq, foldl_snoc]; simp

/-! ### `Tree` wrappers -/

section
variable [DecidableEq α]

theorem Add_root (t : Tree α) (v : α) : (t.Add v).root = add t.compare v t.root := by
  unfold Tree.Add
  simp only
  split
  · rename_i h; rw [isNil_eq_true.mp h]; rfl
  · rfl

@[simp] theorem Add_count (t : Tree α) (v : α) : (t.Add v).count = t.count + 1 := rfl
@[simp] theorem Add_compare (t : Tree α) (v : α) : (t.Add v).compare = t.compare := rfl

theorem Remove_root (t : Tree α) (v : α) : (t.Remove v).1.root = (remove t.compare v t.root).1 := by
  unfold Tree.Remove
  split
  · rename_i h; rw [isNil_eq_true.mp h]; rfl
  · rcases remove t.compare v t.root with ⟨n, ok⟩
    cases ok <;> rfl

theorem Remove_snd (t : Tree α) (v : α) : (t.Remove v).2 = (remove t.compare v t.root).2 := by
  unfold Tree.Remove
  split
  · rename_i h; rw [isNil_eq_true.mp h]; rfl
  · rcases remove t.compare v t.root with ⟨n, ok⟩
    cases ok <;> rfl

theorem Remove_count (t : Tree α) (v : α) :
    (t.Remove v).1.count = if (remove t.compare v t.root).2 then t.count - 1 else t.count := by
  unfold Tree.Remove
  split
  · rename_i h; rw [isNil_eq_true.mp h]; rfl
  · rcases remove t.compare v t.root with ⟨n, ok⟩
    cases ok <;> rfl

@[simp] theorem Remove_compare (t : Tree α) (v : α) : (t.Remove v).1.compare = t.compare := by
  unfold Tree.Remove
  split
  · rfl
  · rcases remove t.compare v t.root with ⟨n, ok⟩
    cases ok <;> rfl

theorem Contains_eq (t : Tree α) (v : α) : t.Contains v = contains t.compare v t.root := by
  unfold Tree.Contains
  split
  · rename_i h; rw [isNil_eq_true.mp h]; rfl
  · rfl

theorem Clone_eq (t : Tree α) :
    t.Clone = (preorder t.root).foldl (fun (c : Tree α) v => c.Add v) (Tree.new t.compare) := by
  unfold Tree.Clone; rw [WalkPreOrder_eq]

/-- induction principle for `Clone`: whatever holds of the empty tree with the same comparator and is preserved by
`Add` holds of the clone -/
theorem Clone_ind (P : Tree α → Prop) (t : Tree α) (h0 : P (Tree.new t.compare))
    (hadd : ∀ u v, P u → P (u.Add v)) : P t.Clone := by
  rw [Clone_eq]
  generalize Tree.new t.compare = c at h0
  induction preorder t.root generalizing c with
  | nil => exact h0
  | cons a l ih => simp only [List.foldl_cons]; exact ih _ (hadd c a h0)

@[simp] theorem Clone_compare (t : Tree α) : t.Clone.compare = t.compare := by
  apply Clone_ind (fun c => c.compare = t.compare)
  · rfl
  · intro u v h; simpa using h

/-! ### every reachable tree satisfies an invariant preserved by the operations -/

variable {ι : Type}

theorem modelStep_WAll (cmps : ι → α → α → Int) (P : Tree α → Prop)
    (hnew : ∀ c, P (Tree.new (cmps c)))
    (hadd : ∀ t v, P t → P (t.Add v))
    (hrem : ∀ t v, P t → P (t.Remove v).1)
    (hclear : ∀ t, P t → P t.Clear)
    (hclone : ∀ t, P t → P t.Clone)
    (w : World (Tree α)) (hw : WAll P w) (op : Op ι α) : WAll P (modelStep cmps w op).1 := by
  cases op with
  | new h c => exact WAll_set hw h (hnew c)
  | add h v =>
    simp only [modelStep]; split
    · rename_i t ht; exact WAll_set hw h (hadd t v (hw h t ht))
    · exact hw
  | remove h v =>
    simp only [modelStep]; split
    · rename_i t ht; exact WAll_set hw h (hrem t v (hw h t ht))
    · exact hw
  | contains h v => simp only [modelStep]; split <;> exact hw
  | len h => simp only [modelStep]; split <;> exact hw
  | clear h =>
    simp only [modelStep]; split
    · rename_i t ht; exact WAll_set hw h (hclear t (hw h t ht))
    · exact hw
  | clone h h2 =>
    simp only [modelStep]; split
    · rename_i t ht; exact WAll_set hw h2 (hclone t (hw h t ht))
    · exact hw
  | inorder h => simp only [modelStep]; split <;> exact hw

theorem runFrom_fst_inv {σ : Type} (step : σ → Op ι α → σ × Res α) (Q : σ → Prop)
    (hstep : ∀ w op, Q w → Q (step w op).1) (w : σ) (hw : Q w) (ops : List (Op ι α)) :
    Q (runFrom step w ops).1 := by
  induction ops generalizing w with
  | nil => exact hw
  | cons op ops ih =>
    simp only [runFrom]
    exact ih _ (hstep w op hw)

theorem runModel_WAll (cmps : ι → α → α → Int) (P : Tree α → Prop)
    (hnew : ∀ c, P (Tree.new (cmps c)))
    (hadd : ∀ t v, P t → P (t.Add v))
    (hrem : ∀ t v, P t → P (t.Remove v).1)
    (hclear : ∀ t, P t → P t.Clear)
    (hclone : ∀ t, P t → P t.Clone)
    (ops : List (Op ι α)) : WAll P (runModel cmps ops).1 := by
  unfold runModel
  exact runFrom_fst_inv _ (WAll P) (fun w op hw => modelStep_WAll cmps P hnew hadd hrem hclear hclone w hw op)
    [] (WAll_nil P) ops

/-- C02.all_histories -/
theorem all_histories (cmps : ι → α → α → Int) (ops : List (Op ι α)) :
    ∀ h t, (runModel cmps ops).1.get h = some t → AVL t.root := by
  have := runModel_WAll cmps (fun t => AVL t.root)
    (fun c => trivial)
    (fun t v ht => by rw [Add_root]; exact (add_avl _ _ _ ht).1)
    (fun t v ht => by rw [Remove_root]; exact (remove_avl _ _ _ ht).1)
    (fun t _ => trivial)
    (fun t _ => by
      apply Clone_ind (fun c => AVL c.root)
      · trivial
      · intro u v hu; rw [Add_root]; exact (add_avl _ _ _ hu).1)
    ops
  exact this

end

end TypVerif.Lemmas.Avl
