import TypVerif.Lemmas.SyncMapRefine
/-
`Range` of the sequential `sync2.Map` model for an arbitrary visiting order of `read.m`.
-/
namespace TypVerif.Lemmas.SyncMap
open TypVerif.Model.SyncMap
open TypVerif.Spec.PMap (Op Out)
open TypVerif.Spec

set_option linter.unusedSectionVars false
set_option linter.unusedVariables false

variable {K V : Type} [DecidableEq K]

theorem visit_map_fst (m : PMap.PMap K V) (order : List K) :
    (PMap.visit m order).map Prod.fst = order.filter (fun k => (m k).isSome) := by
  induction order with
  | nil => rfl
  | cons k rest ih =>
    simp only [PMap.visit, List.filterMap_cons, List.filter_cons] at ih ⊢
    cases hm : m k with
    | none => simpa using ih
    | some v => simpa using ih

theorem mem_visit (m : PMap.PMap K V) (order : List K) (k : K) (v : V) :
    (k, v) ∈ PMap.visit m order ↔ k ∈ order ∧ m k = some v := by
  unfold PMap.visit
  rw [List.mem_filterMap]
  constructor
  · rintro ⟨a, ha, hf⟩
    cases hm : m a with
    | none => rw [hm] at hf; cases hf
    | some w =>
      rw [hm] at hf; simp only [Option.map_some, Option.some.injEq, Prod.mk.injEq] at hf
      obtain ⟨h1, h2⟩ := hf; subst h1; subst h2; exact ⟨ha, hm⟩
  · rintro ⟨ha, hm⟩; exact ⟨k, ha, by rw [hm]; rfl⟩

theorem cut_sublist {α : Type} (n : Int) (l : List α) : (PMap.cut n l).Sublist l := by
  unfold PMap.cut; split
  · exact List.Sublist.refl l
  · exact List.take_sublist _ _

theorem length_cut {α : Type} (n : Int) (l : List α) :
    (PMap.cut n l).length = if n ≤ 0 then l.length else min n.toNat l.length := by
  unfold PMap.cut; split
  · rfl
  · exact List.length_take

/-- the facts about the callback list of a Range over a duplicate-free order that covers the present keys -/
theorem visit_facts (m : PMap.PMap K V) (order : List K) (n : Int) (hn : order.Nodup)
    (hcover : ∀ k, m k ≠ none → k ∈ order) :
    ((PMap.cut n (PMap.visit m order)).map Prod.fst).Nodup ∧
    (∀ k v, (k, v) ∈ PMap.cut n (PMap.visit m order) → m k = some v) ∧
    (n ≤ 0 → ∀ k v, m k = some v → (k, v) ∈ PMap.cut n (PMap.visit m order)) ∧
    (∀ keys : List K, keys.Nodup → (∀ k, k ∈ keys ↔ m k ≠ none) →
      (PMap.cut n (PMap.visit m order)).length = if n ≤ 0 then keys.length else min n.toNat keys.length) := by
  have hvn : ((PMap.visit m order).map Prod.fst).Nodup := by
    rw [visit_map_fst]; exact List.Sublist.nodup List.filter_sublist hn
  refine ⟨?_, ?_, ?_, ?_⟩
  · exact List.Sublist.nodup ((cut_sublist n _).map Prod.fst) hvn
  · intro k v hk
    exact ((mem_visit m order k v).mp ((cut_sublist n _).subset hk)).2
  · intro hn0 k v hk
    have : PMap.cut n (PMap.visit m order) = PMap.visit m order := by simp [PMap.cut, hn0]
    rw [this, mem_visit]
    exact ⟨hcover k (by rw [hk]; intro h; cases h), hk⟩
  · intro keys hkn hkeys
    rw [length_cut]
    have hlen : (PMap.visit m order).length = keys.length := by
      have h1 : (PMap.visit m order).length = ((PMap.visit m order).map Prod.fst).length := by simp
      rw [h1]
      apply List.Perm.length_eq
      rw [List.perm_ext_iff_of_nodup hvn hkn]
      intro k
      rw [visit_map_fst, List.mem_filter, hkeys]
      constructor
      · rintro ⟨_, h2⟩; intro h3; rw [h3] at h2; cases h2
      · intro h2; refine ⟨hcover k h2, ?_⟩
        cases hm : m k with
        | none => exact absurd hm h2
        | some v => rfl
    rw [hlen]

/-- `Range` with any visiting order `order` (a permutation of the keys of `read.m` after the promotion
that `Range` performs first) and any stop count `n`. -/
theorem range_seq {s : State K V} (h : SeqInv s) (order : List K) (n : Int)
    (hperm : order.Perm (akeys (rangePromote s).read)) :
    SeqInv (rangeOrd s order n).1 ∧ (∀ k, abs (rangeOrd s order n).1 k = abs s k) ∧
    ((rangeOrd s order n).2.map Prod.fst).Nodup ∧
    (∀ k v, (k, v) ∈ (rangeOrd s order n).2 → abs s k = some v) ∧
    (n ≤ 0 → ∀ k v, abs s k = some v → (k, v) ∈ (rangeOrd s order n).2) ∧
    (∀ keys : List K, keys.Nodup → (∀ k, k ∈ keys ↔ abs s k ≠ none) →
      (rangeOrd s order n).2.length = if n ≤ 0 then keys.length else min n.toNat keys.length) := by
  obtain ⟨h1, h2, h3⟩ := rangeOrd_ok h order n
  obtain ⟨p1, p2, p3⟩ := rangePromote_ok h
  have hn : order.Nodup := hperm.nodup_iff.mpr p1.readNodup
  have hcover : ∀ k, abs s k ≠ none → k ∈ order := by
    intro k hk
    rw [hperm.mem_iff]
    rw [← p2 k, abs_clean p3] at hk
    apply (alookup_isSome_iff k _).mp
    cases hl : alookup k (rangePromote s).read with
    | none => rw [hl] at hk; exact absurd rfl hk
    | some e => rfl
  rw [h3]
  exact ⟨h1, h2, visit_facts (abs s) order n hn hcover⟩

end TypVerif.Lemmas.SyncMap
