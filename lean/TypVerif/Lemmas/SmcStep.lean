import TypVerif.Lemmas.SmcQuiet
import TypVerif.Lemmas.SmcPromote
import TypVerif.Lemmas.SmcStore
import TypVerif.Lemmas.SmcNew
import TypVerif.Lemmas.SmcLos
import TypVerif.Lemmas.SmcLad
/-
C04 concurrent half, integration: every step of every goroutine of the step-level model of `sync2.Map`
(`Model.SyncMapConc`) is matched by steps of the relaxed atomic map and re-establishes the simulation relation `R`
(`sim_step`, by cases on the program counter — one lemma per hook of map.go, proved in the `Smc*` files); hence every
execution's visible history is linearizable (`linearizable`), and every reachable state satisfies `R` (`reachable_R`).
-/
namespace TypVerif.Lemmas.Smc
open TypVerif TypVerif.Conc TypVerif.Model TypVerif.Model.SyncMapConc TypVerif.Model.RelObj

variable {K V : Type} [DecidableEq K] [DecidableEq V] [Inhabited V]

/-- **one-step simulation**, for every program counter of `map.go` -/
theorem sim_step {menu : List (Op K V)} {s : State K V} {a : AState K V} {t : Tid}
    (hR : R s a) (ht : t < s.pcs.length) : StepOK menu s a t := by
  cases hpc : s.pc t with
  | idle => exact stepOK_idle hR ht hpc
  | start op => exact stepOK_start hR ht hpc
  | ret r => exact stepOK_ret hR ht hpc
  | loadRead1 k => exact stepOK_loadRead1 hR ht hpc
  | loadLock k => exact stepOK_loadLock hR ht hpc
  | loadRead2 k => exact stepOK_loadRead2 hR ht hpc
  | loadMiss k e => exact stepOK_loadMiss hR ht hpc
  | loadPtr k e => exact stepOK_loadPtr hR ht hpc
  | storeRead1 k v => exact stepOK_storeRead1 hR ht hpc
  | tryStoreLoad k v e => exact stepOK_tryStoreLoad hR ht hpc
  | tryStoreCas k v e p => exact stepOK_tryStoreCas hR ht hpc
  | storeLock k v => exact stepOK_storeLock hR ht hpc
  | storeRead2 k v => exact stepOK_storeRead2 hR ht hpc
  | storeUnexp k v e => exact stepOK_storeUnexp hR ht hpc
  | storeLocked k v e => exact stepOK_storeLocked hR ht hpc
  | dirtyRead c k v rm => exact stepOK_dirtyRead hR ht hpc
  | dirtyPick c k v rm todo => exact stepOK_dirtyPick hR ht hpc
  | expLoad c k v rm todo k' e' => exact stepOK_expLoad hR ht hpc
  | expCas c k v rm todo k' e' => exact stepOK_expCas hR ht hpc
  | expLoad2 c k v rm todo k' e' => exact stepOK_expLoad2 hR ht hpc
  | readStore c k v rm => exact stepOK_readStore hR ht hpc
  | losRead1 k v => exact stepOK_losRead1 hR ht hpc
  | losLoad c k v e => exact stepOK_losLoad hR ht hpc
  | losCas c k v e => exact stepOK_losCas hR ht hpc
  | losLoad2 c k v e => exact stepOK_losLoad2 hR ht hpc
  | losLock k v => exact stepOK_losLock hR ht hpc
  | losRead2 k v => exact stepOK_losRead2 hR ht hpc
  | losUnexp k v e => exact stepOK_losUnexp hR ht hpc
  | losMiss k r => exact stepOK_losMiss hR ht hpc
  | ladRead1 d k => exact stepOK_ladRead1 hR ht hpc
  | ladLock d k => exact stepOK_ladLock hR ht hpc
  | ladRead2 d k => exact stepOK_ladRead2 hR ht hpc
  | ladMiss d k e => exact stepOK_ladMiss hR ht hpc
  | delLoad d k e => exact stepOK_delLoad hR ht hpc
  | delCas d k e p => exact stepOK_delCas hR ht hpc
  | rangeRead1 => exact stepOK_rangeRead1 hR ht hpc
  | rangeLock => exact stepOK_rangeLock hR ht hpc
  | rangeRead2 => exact stepOK_rangeRead2 hR ht hpc
  | rangeStore dm => exact stepOK_rangeStore hR ht hpc
  | rangePick todo acc => exact stepOK_rangePick hR ht hpc
  | rangeLoad todo acc k' e' => exact stepOK_rangeLoad hR ht hpc

/-- the hypothesis of `sim_exec` / `linearizable_of_steps` -/
theorem hstep (menu : List (Op K V)) :
    ∀ (s : State K V) (a : AState K V) (t : Tid), R s a → t < s.pcs.length → ∀ l s', (l, s') ∈ stepT menu s t →
      Sim a (witness s t l a) l ∧ R s' (witness s t l a) :=
  fun _ _ _ hR ht l s' h => sim_step hR ht l s' h

/-- **Linearizability, all schedules**: the visible history (invocations and responses of Load, Store, LoadOrStore,
LoadAndDelete, Delete) of every execution of the step-level model — any number of goroutines, any operations, every
interleaving of the atomic steps — is linearizable with respect to the ordinary map. -/
theorem linearizable {menu : List (Op K V)} {n : Nat} {zst : Bool} {s : State K V}
    {ls : List (Option (SyncMapConc.Event K V))}
    (he : Exec (sys K V menu n zst) (SyncMapConc.init n zst) ls s) :
    AtomicObj.Linearizable (mapSpec K V) (ls.filterMap (·.bind evOf)) :=
  linearizable_of_steps (hstep menu) he

/-- executions reach exactly the reachable states -/
theorem exec_snoc {sys : Sys} {s s' s'' : sys.State} {ls : List (Option sys.Event)} {l : Option sys.Event}
    (he : Exec sys s ls s') (hm : (l, s'') ∈ sys.succ s') : Exec sys s (ls ++ [l]) s'' := by
  induction he with
  | nil s => exact Exec.cons hm (Exec.nil _)
  | cons hmem _ ih => exact Exec.cons hmem (ih hm)

theorem exec_of_reachable {sys : Sys} {s : sys.State} (h : Reachable sys s) : ∃ ls, Exec sys sys.init ls s := by
  induction h with
  | init => exact ⟨[], Exec.nil _⟩
  | step _ hm ih => obtain ⟨ls, he⟩ := ih; exact ⟨_, exec_snoc he hm⟩

/-- **the invariant holds in every reachable state** (with a reachable abstract state as witness) -/
theorem reachable_R {menu : List (Op K V)} {n : Nat} {zst : Bool} {s : State K V}
    (h : Reachable (sys K V menu n zst) s) :
    ∃ a : AState K V, RReach (mapSpec K V) a ∧ R s a := by
  obtain ⟨ls, he⟩ := exec_of_reachable h
  obtain ⟨a, hstar, hR, _⟩ := sim_exec (hstep menu) he _ (R_init n zst)
  exact ⟨a, Lemmas.RelObj.rreach_star RReach.init hstar, hR⟩

end TypVerif.Lemmas.Smc
