import TypVerif.Lemmas.ObjCompleteFull
import TypVerif.Lemmas.ObjAcceptLin
/-
Completeness of the folds the ObjLin judge (`Drv.ObjLin.step`, closure fuel 24) performs on its atomic-object state sets,
for histories of SINGLE operations (the lines covered by `ObjAcceptLin.MapLine` / `SetLine`) in which every invocation line
is by a goroutine `< 24` (`InvBelow 24 lines`; this includes the skipped `inv t range` / `inv t len` lines, which raise the
judge's number of goroutines too).

Map mode: the state set `ms` is stepped on every event line whatever the flag says, so `MC tr st` tracks it exactly:
`Track mapSpec 24 tr st.n st.ms` (every state is accounted for by an execution with visible trace `tr` — `Acc` — and the state
of every such execution is in the set — `Full`), and the flag `violated` is `not-linearizable` only if the set is empty,
`none` only if it is not.  Set mode: the same for the `s` components of `cs` (no composite in progress).
-/
namespace TypVerif.Lemmas.ObjCompleteLin
open TypVerif TypVerif.Conc TypVerif.Model TypVerif.Proto TypVerif.Drv.ObjLin TypVerif.Lemmas.ObjAccept
open TypVerif.Lemmas.ObjAcceptLin TypVerif.Lemmas.ObjComplete

/-- every invocation line is by a goroutine `< k` -/
def InvBelow (k : Nat) (lines : List (List Val × String)) : Prop :=
  ∀ l ∈ lines, ∀ (t : Int) (rest : List Val), l.1 = .w "inv" :: .i t :: rest → t.toNat < k

/-! ### generic tracking -/
section Generic
variable (S : AtomicObj.Spec) [DecidableEq S.σ] [DecidableEq S.Op] [DecidableEq S.Res]

/-- the state set `ss` of a judge working with `n` goroutines is exactly right for the history `tr` -/
structure Track (fuel : Nat) (tr : List (AtomicObj.Event S.Op S.Res)) (n : Nat)
    (ss : List (AtomicObj.State S.σ S.Op S.Res)) : Prop where
  acc : Acc S tr ss
  full : ∃ n0, n0 ≤ n ∧ Full S n0 tr ss
  le : n ≤ fuel

omit [DecidableEq S.σ] [DecidableEq S.Op] [DecidableEq S.Res] in
theorem track_init (fuel : Nat) : Track S fuel [] 0 [AtomicObj.init S 0] :=
  ⟨acc_init S 0, ⟨0, Nat.le_refl _, full_init S 0⟩, Nat.zero_le _⟩

omit [DecidableEq S.σ] [DecidableEq S.Op] [DecidableEq S.Res] in
theorem track_mono {fuel : Nat} {tr : List (AtomicObj.Event S.Op S.Res)} {n n' : Nat}
    {ss : List (AtomicObj.State S.σ S.Op S.Res)} (h : Track S fuel tr n ss) (hn : n ≤ n') (hf : n' ≤ fuel) :
    Track S fuel tr n' ss := by
  obtain ⟨n0, h0, hfull⟩ := h.full
  exact ⟨h.acc, ⟨n0, Nat.le_trans h0 hn, hfull⟩, hf⟩

theorem track_step {fuel : Nat} {tr : List (AtomicObj.Event S.Op S.Res)} {n : Nat}
    {ss : List (AtomicObj.State S.σ S.Op S.Res)} (h : Track S fuel tr n ss) (n' : Nat) (hn : n ≤ n') (hf : n' ≤ fuel)
    (e : AtomicObj.Event S.Op S.Res) (he : ∀ t op, e = .inv t op → t < n') :
    Track S fuel (tr ++ [e]) n' (stepObjF S fuel n' ss e) := by
  obtain ⟨n0, h0, hfull⟩ := h.full
  exact ⟨acc_step S fuel n' h.acc e,
    ⟨n', Nat.le_refl _, full_step S fuel n0 n' (Nat.le_trans h0 hn) hf e he hfull⟩, hf⟩

omit [DecidableEq S.σ] in
/-- a tracked state set is non-empty iff the history is linearizable -/
theorem track_iff {fuel : Nat} {tr : List (AtomicObj.Event S.Op S.Res)} {n : Nat}
    {ss : List (AtomicObj.State S.σ S.Op S.Res)} (h : Track S fuel tr n ss) :
    ss ≠ [] ↔ AtomicObj.Linearizable S tr := by
  constructor
  · exact acc_linearizable S h.acc
  · obtain ⟨n0, _, hfull⟩ := h.full
    exact full_nonempty S hfull

end Generic

/-! ### the flag -/

theorem nlFlag_event {α : Type} (G : List α → List α) (hnil : G [] = []) (v v' : Option String) (ms ms' : List α)
    (hA : v = some "not-linearizable" → ms = []) (hB : v = none → ms ≠ [])
    (hms : ms' = G ms)
    (hv : v' = match (generalizing := false) v with
      | some w => some w
      | none => if ms'.isEmpty = true then some "not-linearizable" else none) :
    (v' = some "not-linearizable" → ms' = []) ∧ (v' = none → ms' ≠ []) := by
  subst hms
  cases v with
  | some w =>
    simp only at hv
    subst hv
    refine ⟨fun h => ?_, fun h => (by cases h)⟩
    rw [hA h, hnil]
  | none =>
    simp only at hv
    subst hv
    cases G ms <;> simp

theorem nlFlag_skip {α : Type} (v v' w : Option String) (ms : List α) (hw : w ≠ some "not-linearizable")
    (hA : v = some "not-linearizable" → ms = []) (hB : v = none → ms ≠ [])
    (hv : v' = match (generalizing := false) v with
      | some x => some x
      | none => w) :
    (v' = some "not-linearizable" → ms = []) ∧ (v' = none → ms ≠ []) := by
  cases v with
  | some x =>
    simp only at hv
    subst hv
    exact ⟨hA, fun h => (by cases h)⟩
  | none =>
    simp only at hv
    subst hv
    exact ⟨fun h => absurd h hw, fun _ => hB rfl⟩

/-! ### map mode -/

theorem parseMapInv_shape {toks : List Val} {t' : Nat} {op : MapObj.Op} (h : parseMapInv toks = some (t', op)) :
    ∃ (t : Int) (rest : List Val), toks = .w "inv" :: .i t :: rest ∧ t' = t.toNat := by
  unfold parseMapInv at h
  split at h <;> cases h <;> exact ⟨_, _, rfl, rfl⟩

theorem stepObj_nil (S : AtomicObj.Spec) [DecidableEq S.σ] [DecidableEq S.Op] [DecidableEq S.Res] (n : Nat)
    (e : AtomicObj.Event S.Op S.Res) : stepObj S n [] e = [] :=
  stepObjF_nil S closureFuel n e

/-- the map-mode judge state after the history `tr` -/
def MC (tr : List MEvent) (st : St) : Prop :=
  st.mode = 1 ∧ Track MapObj.mapSpec closureFuel tr st.n st.ms ∧
  (st.violated = some "not-linearizable" → st.ms = []) ∧ (st.violated = none → st.ms ≠ [])

theorem mC_event (tr : List MEvent) (st st' : St) (e : MEvent) (hm : st'.mode = st.mode)
    (hn : st.n ≤ st'.n) (hf : st'.n ≤ closureFuel) (he : ∀ t op, e = .inv t op → t < st'.n)
    (hms : st'.ms = stepObj MapObj.mapSpec st'.n st.ms e)
    (hv : st'.violated = match (generalizing := false) st.violated with
      | some w => some w
      | none => if st'.ms.isEmpty = true then some "not-linearizable" else none)
    (h : MC tr st) : MC (tr ++ [e]) st' := by
  obtain ⟨h1, h2, h3, h4⟩ := h
  have ht := track_step MapObj.mapSpec h2 st'.n hn hf e he
  obtain ⟨a, b⟩ := nlFlag_event (fun ss => stepObj MapObj.mapSpec st'.n ss e) (stepObj_nil MapObj.mapSpec _ e)
    st.violated st'.violated st.ms st'.ms h3 h4 hms hv
  refine ⟨hm.trans h1, ?_, a, b⟩
  rw [hms]
  exact ht

theorem mC_skip (tr : List MEvent) (st st' : St) (w : Option String) (hm : st'.mode = st.mode)
    (hn : st.n ≤ st'.n) (hf : st'.n ≤ closureFuel) (hms : st'.ms = st.ms) (hw : w ≠ some "not-linearizable")
    (hv : st'.violated = match (generalizing := false) st.violated with
      | some x => some x
      | none => w)
    (h : MC tr st) : MC tr st' := by
  obtain ⟨h1, h2, h3, h4⟩ := h
  obtain ⟨a, b⟩ := nlFlag_skip st.violated st'.violated w st.ms hw h3 h4 hv
  rw [← hms] at a b
  refine ⟨hm.trans h1, ?_, a, b⟩
  rw [hms]
  exact track_mono MapObj.mapSpec h2 hn hf

theorem max_le_fuel {n t k : Nat} (hn : n ≤ k) (ht : t < k) : max n (t + 1) ≤ k := by omega

theorem stepMap_mC (tr : List MEvent) (st : St) (toks : List Val) (oe : Option MEvent) (hl : MapLine toks oe)
    (hinv : ∀ (t : Int) (rest : List Val), toks = .w "inv" :: .i t :: rest → t.toNat < closureFuel)
    (h : MC tr st) : MC (match oe with | some e => tr ++ [e] | none => tr) (stepMap st toks).1 := by
  have hf : st.n ≤ closureFuel := h.2.1.le
  cases hl with
  | inv _ t op hp =>
    obtain ⟨t0, rest, htoks, ht0⟩ := parseMapInv_shape hp
    have ht : t < closureFuel := by rw [ht0]; exact hinv t0 rest htoks
    unfold stepMap
    simp only [hp, finish_fst]
    refine mC_event tr st _ (.inv t op) rfl (Nat.le_max_left _ _) (max_le_fuel hf ht) ?_ rfl rfl h
    intro t' op' he
    injection he with h1 _
    subst h1
    exact Nat.lt_of_lt_of_le (Nat.lt_succ_self _) (Nat.le_max_right _ _)
  | resDone t =>
    have hp : parseMapInv [.w "res", .i t, .w "done"] = none := by simp [parseMapInv]
    unfold stepMap
    simp only [hp, finish_fst]
    exact mC_event tr st _ (.res t.toNat .done) rfl (Nat.le_refl _) hf (fun _ _ he => by cases he) rfl rfl h
  | resVal t v b =>
    have hp : parseMapInv [.w "res", .i t, .i v, .w b] = none := by simp [parseMapInv]
    unfold stepMap
    simp only [hp, finish_fst]
    exact mC_event tr st _ (.res t.toNat (.val v (b == "true"))) rfl (Nat.le_refl _) hf
      (fun _ _ he => by cases he) rfl rfl h
  | rangeInv t =>
    have hp : parseMapInv [.w "inv", .i t, .w "range"] = none := by simp [parseMapInv]
    have ht : t.toNat < closureFuel := hinv t _ rfl
    unfold stepMap
    simp only [hp, finish_fst]
    exact mC_skip tr st _ none rfl (Nat.le_max_left _ _) (max_le_fuel hf ht) rfl (by simp) rfl h
  | rangeRes t pairs =>
    have hp : parseMapInv [.w "res", .i t, .l pairs] = none := by simp [parseMapInv]
    unfold stepMap
    simp only [hp]
    split
    · rw [finish_fst]
      exact mC_skip tr st _ _ rfl (Nat.le_refl _) hf rfl (by decide) rfl h
    · rw [finish_fst]
      refine mC_skip tr st _ _ rfl (Nat.le_refl _) hf rfl ?_ rfl h
      split
      · decide
      · split
        · decide
        · split <;> decide
  | stepLine a b =>
    have hp : parseMapInv [.w "step", a, b] = none := by simp [parseMapInv]
    unfold stepMap
    simp only [hp]
    exact h
  | iterLine a b =>
    have hp : parseMapInv [.w "iter", a, b] = none := by simp [parseMapInv]
    unfold stepMap
    simp only [hp]
    exact h

theorem mC_header (j0 : JSt) (impl0 : String) : MC [] (step j0 [.w "cmap"] impl0).1.st := by
  refine ⟨rfl, track_init MapObj.mapSpec closureFuel, fun h => ?_, fun _ h => ?_⟩
  · cases h
  · cases h

theorem runLines_mC (lines : List (List Val × String)) (tr : List MEvent) (hl : Lines MapLine lines tr) :
    InvBelow closureFuel lines →
    ∀ (tr0 : List MEvent) (j : JSt), MC tr0 j.st → MC (tr0 ++ tr) (runLines j lines).st := by
  induction hl with
  | nil => intro _ tr0 j h; simpa [runLines] using h
  | @ev l ls e tr hP _ ih =>
    intro hib tr0 j h
    have hstep : MC (tr0 ++ [e]) (step j l.1 l.2).1.st := by
      rw [step_map j l.1 l.2 (some e) h.1 hP]
      exact stepMap_mC tr0 j.st l.1 (some e) hP (hib l List.mem_cons_self) h
    have := ih (fun l' hl' => hib l' (List.mem_cons_of_mem _ hl')) (tr0 ++ [e]) _ hstep
    simpa [runLines] using this
  | @skip l ls tr hP _ ih =>
    intro hib tr0 j h
    have hstep : MC tr0 (step j l.1 l.2).1.st := by
      rw [step_map j l.1 l.2 none h.1 hP]
      exact stepMap_mC tr0 j.st l.1 none hP (hib l List.mem_cons_self) h
    have := ih (fun l' hl' => hib l' (List.mem_cons_of_mem _ hl')) tr0 _ hstep
    simpa [runLines] using this

/-- **map mode**: the state set and the flag after the header `cmap` and covered lines standing for `tr` -/
theorem map_track (j0 : JSt) (impl0 : String) (lines : List (List Val × String)) (tr : List MEvent)
    (hl : Lines MapLine lines tr) (hib : InvBelow closureFuel lines) :
    MC tr (runLines (step j0 [.w "cmap"] impl0).1 lines).st := by
  have h := runLines_mC lines tr hl hib [] _ (mC_header j0 impl0)
  rw [List.nil_append] at h
  exact h

/-! ### set mode -/

theorem mem_compClosure (n : Nat) (fuel : Nat) : ∀ (cs : List CSt) (c : CSt), c ∈ cs → c ∈ compClosure n fuel cs := by
  induction fuel with
  | zero => intro cs c h; exact h
  | succ fuel ih =>
    intro cs c h
    unfold compClosure
    simp only
    split
    · exact h
    · exact ih _ c (OnceRed.mem_dedup (List.mem_append_left _ h))

theorem compClosure_nil (n fuel : Nat) : compClosure n fuel [] = [] := by
  cases fuel with
  | zero => rfl
  | succ fuel => simp [compClosure, Conc.dedup]

theorem liftStep_nil (n : Nat) (e : SEvent) : liftStep n [] e = [] := by
  simp [liftStep, compClosure_nil, Conc.dedup]

/-- the set-mode state set contains (with no composite in progress) the judge's state of every state that any
`AtomicObj.sys setSpec menu N` can be in after exhibiting `tr` -/
def FullC (n0 : Nat) (tr : List SEvent) (cs : List CSt) : Prop :=
  ∀ (N : Nat) (menu : List MapObj.SOp) (ls : List (Option SEvent)) (s : SSt),
    Exec (AtomicObj.sys MapObj.setSpec menu N) (AtomicObj.init MapObj.setSpec N) ls s → visible ls = tr →
      IdleFrom n0 s ∧ ({ s := proj n0 s, prog := [] } : CSt) ∈ cs

theorem liftStep_fullC (n0 n : Nat) (hn : n0 ≤ n) (hf : n ≤ closureFuel) {tr : List SEvent} {cs : List CSt}
    (e : SEvent) (he : ∀ t op, e = .inv t op → t < n) (h : FullC n0 tr cs) :
    FullC n (tr ++ [e]) (liftStep n cs e) := by
  intro N menu ls s hex hv
  obtain ⟨ls0, s0, s1, taus, h0, hv0, hm, h1, hv1⟩ := exec_split_last hex tr e hv
  obtain ⟨hi0, hmem0⟩ := h N menu ls0 s0 h0 hv0
  have ht := OnceRed.TauN.of_exec h1 hv1
  have hi1 : IdleFrom n s1 := idle_step hm (idleFrom_mono hi0 hn) (by
    intro t op hl
    injection hl with hl
    exact he t op hl)
  refine ⟨idle_tauN MapObj.setSpec menu N n ht hi1, ?_⟩
  have hx : proj n s ∈ stepObj MapObj.setSpec n [proj n0 s0] e :=
    stepObjF_complete MapObj.setSpec closureFuel menu N n0 n hn hf hm hi0 he (List.mem_singleton.2 rfl) ht
  unfold liftStep
  apply mem_compClosure
  apply OnceRed.mem_dedup
  exact List.mem_flatMap.2 ⟨⟨proj n0 s0, []⟩, mem_compClosure _ _ _ _ hmem0, List.mem_map.2 ⟨proj n s, hx, rfl⟩⟩

/-- the set-mode judge state after the history `tr` -/
def SC (tr : List SEvent) (st : St) (cs : List CSt) : Prop :=
  st.mode = 2 ∧ OnlyLen st ∧ st.n ≤ closureFuel ∧ CRel tr cs ∧ (∃ n0, n0 ≤ st.n ∧ FullC n0 tr cs) ∧
  (st.violated = some "not-linearizable" → cs = []) ∧ (st.violated = none → cs ≠ [])

theorem sC_event (tr : List SEvent) (st st' : St) (cs cs' : List CSt) (e : SEvent) (hm : st'.mode = st.mode)
    (hmu : st'.multi = st.multi) (hn : st.n ≤ st'.n) (hf : st'.n ≤ closureFuel)
    (he : ∀ t op, e = .inv t op → t < st'.n) (hcs : cs' = liftStep st'.n cs e)
    (hv : st'.violated = match (generalizing := false) st.violated with
      | some w => some w
      | none => if cs'.isEmpty = true then some "not-linearizable" else none)
    (h : SC tr st cs) : SC (tr ++ [e]) st' cs' := by
  obtain ⟨h1, h2, _, h4, ⟨n0, h50, h5⟩, h6, h7⟩ := h
  obtain ⟨a, b⟩ := nlFlag_event (fun cs => liftStep st'.n cs e) (liftStep_nil _ e)
    st.violated st'.violated cs cs' h6 h7 hcs hv
  refine ⟨hm.trans h1, ?_, hf, ?_, ⟨st'.n, Nat.le_refl _, ?_⟩, a, b⟩
  · intro m hmem
    exact h2 m (by rw [← hmu]; exact hmem)
  · rw [hcs]; exact liftStep_crel st'.n tr cs e h4
  · rw [hcs]; exact liftStep_fullC n0 st'.n (Nat.le_trans h50 hn) hf e he h5

theorem sC_skip (tr : List SEvent) (st st' : St) (cs : List CSt) (w : Option String) (hm : st'.mode = st.mode)
    (hol : OnlyLen st → OnlyLen st') (hn : st.n ≤ st'.n) (hf : st'.n ≤ closureFuel)
    (hw : w ≠ some "not-linearizable")
    (hv : st'.violated = match (generalizing := false) st.violated with
      | some x => some x
      | none => w)
    (h : SC tr st cs) : SC tr st' cs := by
  obtain ⟨h1, h2, _, h4, ⟨n0, h50, h5⟩, h6, h7⟩ := h
  obtain ⟨a, b⟩ := nlFlag_skip st.violated st'.violated w cs hw h6 h7 hv
  exact ⟨hm.trans h1, hol h2, hf, h4, ⟨n0, Nat.le_trans h50 hn, h5⟩, a, b⟩

theorem stepSet_sC (tr : List SEvent) (st : St) (cs : List CSt) (toks : List Val) (oe : Option SEvent)
    (hl : SetLine toks oe)
    (hinv : ∀ (t : Int) (rest : List Val), toks = .w "inv" :: .i t :: rest → t.toNat < closureFuel)
    (h : SC tr st cs) :
    SC (match oe with | some e => tr ++ [e] | none => tr) (stepSet st cs toks).1 (stepSet st cs toks).2.1 := by
  have hf : st.n ≤ closureFuel := h.2.2.1
  have hol : OnlyLen st := h.2.1
  cases hl with
  | inv t op rest v hop hvs =>
    have hc : ((op == "add" || op == "remove" || op == "has") && (rest.filterMap Val.int?).length == 1) = true := by
      rw [hvs]
      rcases hop with rfl | rfl | rfl <;> first | rfl | simp
    have ht : t.toNat < closureFuel := hinv t _ rfl
    unfold stepSet
    simp only [hc, if_true]
    simp only [hvs]
    refine sC_event tr st _ cs _ (.inv t.toNat (sopOf op v)) rfl rfl (Nat.le_max_left _ _) (max_le_fuel hf ht) ?_
      rfl rfl h
    intro t' op' he
    injection he with h1 _
    rw [← h1]
    exact Nat.lt_of_lt_of_le (Nat.lt_succ_self _) (Nat.le_max_right _ _)
  | res t b hb =>
    have hc : (b == "true" || b == "false") = true := by
      rcases hb with rfl | rfl <;> decide
    unfold stepSet
    simp only [hc, if_true]
    exact sC_event tr st _ cs _ (.res t.toNat (b == "true")) rfl rfl (Nat.le_refl _) hf
      (fun _ _ he => by cases he) rfl rfl h
  | lenInv t rest hvs =>
    have ht : t.toNat < closureFuel := hinv t _ rfl
    unfold stepSet
    simp only [hvs]
    refine sC_skip tr st _ cs none rfl ?_ (Nat.le_max_left _ _) (max_le_fuel hf ht) (by simp) rfl h
    intro hol m hm
    have hm : m ∈ (t.toNat, "len", [], 0) :: st.multi := hm
    rcases List.mem_cons.1 hm with rfl | hm
    · rfl
    · exact hol m hm
  | lenRes t c =>
    unfold stepSet
    simp only
    split
    · exact h
    · rename_i x kind y z heq
      have hk : kind = "len" := hol _ (List.mem_of_find?_eq_some heq)
      subst hk
      simp only [beq_self_eq_true, if_true]
      refine sC_skip tr st _ cs (if c < 0 then some "count" else none) rfl ?_ (Nat.le_refl _) hf ?_ rfl h
      · intro hol m hm
        have hm : m ∈ st.multi.filter (fun x => x.1 != t.toNat) := hm
        exact hol m (List.mem_filter.1 hm).1
      · split <;> decide
  | stepLine a b =>
    unfold stepSet
    exact h
  | iterLine a b =>
    unfold stepSet
    exact h

theorem sC_header (j0 : JSt) (impl0 : String) :
    SC [] (step j0 [.w "cset"] impl0).1.st (step j0 [.w "cset"] impl0).1.cs := by
  refine ⟨rfl, (by intro m hm; cases hm), Nat.zero_le _, ?_, ⟨0, Nat.le_refl _, ?_⟩, fun h => ?_, fun _ h => ?_⟩
  · intro c hc
    have hc : c ∈ [({ s := AtomicObj.init MapObj.setSpec 0, prog := [] } : CSt)] := hc
    rw [List.mem_singleton.1 hc]
    exact ⟨rfl, acc_init MapObj.setSpec 0⟩
  · intro N menu ls s hex hv
    obtain ⟨hi, hmem⟩ := full_init MapObj.setSpec 0 N menu ls s hex hv
    refine ⟨hi, ?_⟩
    have he : (proj 0 s : SSt) = AtomicObj.init MapObj.setSpec 0 := List.mem_singleton.1 hmem
    exact List.mem_singleton.2 (congrArg (fun x => ({ s := x, prog := [] } : CSt)) he)
  · cases h
  · cases h

theorem runLines_sC (lines : List (List Val × String)) (tr : List SEvent) (hl : Lines SetLine lines tr) :
    InvBelow closureFuel lines →
    ∀ (tr0 : List SEvent) (j : JSt), SC tr0 j.st j.cs →
      SC (tr0 ++ tr) (runLines j lines).st (runLines j lines).cs := by
  induction hl with
  | nil => intro _ tr0 j h; simpa [runLines] using h
  | @ev l ls e tr hP _ ih =>
    intro hib tr0 j h
    have hstep : SC (tr0 ++ [e]) (step j l.1 l.2).1.st (step j l.1 l.2).1.cs := by
      obtain ⟨hst, hcs⟩ := step_set j l.1 l.2 (some e) h.1 hP
      rw [hst, hcs]
      exact stepSet_sC tr0 j.st j.cs l.1 (some e) hP (hib l List.mem_cons_self) h
    have := ih (fun l' hl' => hib l' (List.mem_cons_of_mem _ hl')) (tr0 ++ [e]) _ hstep
    simpa [runLines] using this
  | @skip l ls tr hP _ ih =>
    intro hib tr0 j h
    have hstep : SC tr0 (step j l.1 l.2).1.st (step j l.1 l.2).1.cs := by
      obtain ⟨hst, hcs⟩ := step_set j l.1 l.2 none h.1 hP
      rw [hst, hcs]
      exact stepSet_sC tr0 j.st j.cs l.1 none hP (hib l List.mem_cons_self) h
    have := ih (fun l' hl' => hib l' (List.mem_cons_of_mem _ hl')) tr0 _ hstep
    simpa [runLines] using this

/-- **set mode**: the state set and the flag after the header `cset` and covered lines standing for `tr` -/
theorem set_track (j0 : JSt) (impl0 : String) (lines : List (List Val × String)) (tr : List SEvent)
    (hl : Lines SetLine lines tr) (hib : InvBelow closureFuel lines) :
    SC tr (runLines (step j0 [.w "cset"] impl0).1 lines).st (runLines (step j0 [.w "cset"] impl0).1 lines).cs := by
  have h := runLines_sC lines tr hl hib [] _ (sC_header j0 impl0)
  rw [List.nil_append] at h
  exact h

/-- the set-mode state set is non-empty iff the history is linearizable -/
theorem sC_iff {tr : List SEvent} {st : St} {cs : List CSt} (h : SC tr st cs) :
    cs ≠ [] ↔ AtomicObj.Linearizable MapObj.setSpec tr := by
  obtain ⟨_, _, _, hcr, ⟨n0, _, hfull⟩, _, _⟩ := h
  constructor
  · intro hne
    cases cs with
    | nil => exact absurd rfl hne
    | cons c rest =>
      exact acc_linearizable MapObj.setSpec (hcr c List.mem_cons_self).2 (by intro h0; cases h0)
  · intro hlin
    obtain ⟨N, menu, ls, s, hex, hv⟩ := exec_of_linearizable MapObj.setSpec hlin
    have := (hfull N menu ls s hex hv).2
    intro h0
    rw [h0] at this
    cases this

end TypVerif.Lemmas.ObjCompleteLin
