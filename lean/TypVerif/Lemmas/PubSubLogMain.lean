import TypVerif.Lemmas.PubSubLogWait
import TypVerif.Lemmas.PubSubExec
/-
Assembly for `Props/C10log.lean`: the notion of a call (`CallRun`), the invariants along a call, and the
step-level description of a log append.
-/
namespace TypVerif.Lemmas.PubSubLog
open TypVerif TypVerif.Model.PubSub TypVerif.Lemmas.PubSubSafe

/-- `CallRun cfg s0 s1 s2 i p o v evs`: in the reachable state `s0` task `i` is the publish call
`pubStart p o v evs` (invoked by `pubinv p o v evs`, not yet past its `RLock`); `s0 → s1` is the step of that task
(the snapshot: it reads `(s0.obj o).subs` under the read lock and builds its items); `s2` is any state reached from
`s1` by any execution (any schedule, any further invocations). -/
structure CallRun (cfg : Cfg) (s0 s1 s2 : State) (i p o : Nat) (v : Variant) (evs : List Int) : Prop where
  reach : Conc.Reachable (sys cfg) s0
  at0 : s0.tasks[i]? = some (.pubStart p o v evs)
  snap : ∃ l, (l, s1) ∈ succ cfg s0 ∧ s1.tasks[i]? ≠ s0.tasks[i]?
  run : ∃ ls, Conc.Exec (sys cfg) s1 ls s2

theorem CallRun.snapshot {cfg : Cfg} {s0 s1 s2 : State} {i p o : Nat} {v : Variant} {evs : List Int}
    (h : CallRun cfg s0 s1 s2 i p o v evs) : Snapshot cfg s0 s1 i p o v evs := by
  obtain ⟨l, h01, hne⟩ := h.snap
  exact snapshot_of_step h.reach h.at0 h01 hne

theorem CallRun.reach1 {cfg : Cfg} {s0 s1 s2 : State} {i p o : Nat} {v : Variant} {evs : List Int}
    (h : CallRun cfg s0 s1 s2 i p o v evs) : Conc.Reachable (sys cfg) s1 := by
  obtain ⟨l, h01, _⟩ := h.snap
  exact Conc.Reachable.step h.reach h01

theorem CallRun.reach2 {cfg : Cfg} {s0 s1 s2 : State} {i p o : Nat} {v : Variant} {evs : List Int}
    (h : CallRun cfg s0 s1 s2 i p o v evs) : Conc.Reachable (sys cfg) s2 := by
  obtain ⟨ls, hex⟩ := h.run
  exact (exec_invariant cfg (fun _ => True) (fun _ _ _ _ _ _ => trivial) ls s1 s2 hex h.reach1 trivial).1

theorem CallRun.callLe {cfg : Cfg} {s0 s1 s2 : State} {i p o : Nat} {v : Variant} {evs : List Int}
    (h : CallRun cfg s0 s1 s2 i p o v evs) : CallLe p (callKeys p evs (s0.obj o).subs) s2 := by
  obtain ⟨ls, hex⟩ := h.run
  exact (exec_invariant cfg (CallLe p (callKeys p evs (s0.obj o).subs))
    (fun _ _ _ _ hc hs => callLe_bstep hc (succ_bstep hs)) ls s1 s2 hex h.reach1 h.snapshot.callLe).2

theorem CallRun.callEq {cfg : Cfg} {s0 s1 s2 : State} {i p o : Nat} {v : Variant} {evs : List Int}
    (h : CallRun cfg s0 s1 s2 i p o v evs) (hv : v.isSync = true ∨ v.isWait = true) :
    CallEq p (callKeys p evs (s0.obj o).subs) s2 := by
  obtain ⟨ls, hex⟩ := h.run
  exact (exec_invariant cfg (CallEq p (callKeys p evs (s0.obj o).subs))
    (fun _ _ _ _ hc hs => callEq_bstep hc (succ_bstep hs)) ls s1 s2 hex h.reach1 (h.snapshot.callEq hv)).2

theorem CallRun.syncInv {cfg : Cfg} {s0 s1 s2 : State} {i p o : Nat} {v : Variant} {evs : List Int}
    (h : CallRun cfg s0 s1 s2 i p o v evs) (hv : v.isSync = true) :
    SyncInv i p o (callKeys p evs (s0.obj o).subs) s2 := by
  obtain ⟨ls, hex⟩ := h.run
  exact (exec_invariant cfg (SyncInv i p o (callKeys p evs (s0.obj o).subs))
    (fun _ _ _ _ hc hs => syncInv_bstep (fun k hk => callKeys_pid hk) hc (succ_bstep hs))
    ls s1 s2 hex h.reach1 (h.snapshot.syncInv hv)).2

theorem CallRun.waitInv {cfg : Cfg} (hd : cfg.allowClone = false) {s0 s1 s2 : State} {i p o : Nat} {v : Variant}
    {evs : List Int} (h : CallRun cfg s0 s1 s2 i p o v evs) (hv : v.isSync = false) (hw : v.isWait = true) :
    WaitInv i p o s0.wgs.length s2 := by
  obtain ⟨ls, hex⟩ := h.run
  have := (exec_invariant cfg (fun s => CallLe p (callKeys p evs (s0.obj o).subs) s ∧ WaitInv i p o s0.wgs.length s)
    (fun s _ _ hr hc hs => ⟨callLe_bstep hc.1 (succ_bstep hs),
      waitInv_bstep (no_panic_noClone cfg hd s hr) hc.1.used hc.2 (succ_bstep hs)⟩)
    ls s1 s2 hex h.reach1 ⟨h.snapshot.callLe, h.snapshot.waitInv hv hw⟩).2
  exact this.2

/-! ### one step, seen from the logs -/

/-- a transition that writes a log entry hands off a pending item of the stepping task, which the task targets -/
theorem tstep_log {cfg : Cfg} {s : State} {t t' : Task} {new : List Task} {dl tl : List Key}
    (h : TStep cfg s t t' new dl tl) :
    (dl = [] ∧ tl = []) ∨
    ∃ it, it ∈ pend t ∧ it.c ∈ targets t ∧ isPub t = false ∧ (∀ p, isAsyncStart p t = false) ∧
      ((dl = [key it] ∧ tl = []) ∨ (dl = [] ∧ tl = [key it] ∧ cfg.timeout > 0)) := by
  cases h with
  | syncSent p o it rest =>
    exact Or.inr ⟨it, by simp [pend], by simp [targets], rfl, fun _ => rfl, Or.inl ⟨rfl, rfl⟩⟩
  | syncTmo p o it rest htm =>
    exact Or.inr ⟨it, by simp [pend], by simp [targets], rfl, fun _ => rfl, Or.inr ⟨rfl, rfl, htm⟩⟩
  | asyncSent o it =>
    exact Or.inr ⟨it, by simp [pend], by simp [targets], rfl, fun _ => rfl, Or.inl ⟨rfl, rfl⟩⟩
  | asyncTmo o it htm =>
    exact Or.inr ⟨it, by simp [pend], by simp [targets], rfl, fun _ => rfl, Or.inr ⟨rfl, rfl, htm⟩⟩
  | wgSent o w it =>
    exact Or.inr ⟨it, by simp [pend], by simp [targets], rfl, fun _ => rfl, Or.inl ⟨rfl, rfl⟩⟩
  | wgTmo o w it htm =>
    exact Or.inr ⟨it, by simp [pend], by simp [targets], rfl, fun _ => rfl, Or.inr ⟨rfl, rfl, htm⟩⟩
  | _ => exact Or.inl ⟨rfl, rfl⟩

/-- Every step either leaves both logs alone or is the hand-off of ONE pending item `it` of ONE task: exactly
`key it` is appended to exactly one of `delivered` / `timedOut` (the latter only with a positive timeout), and the
number of pending items with that key drops by one. -/
theorem log_step {cfg : Cfg} {s s' : State} {l : Option Event} (h : (l, s') ∈ succ cfg s) :
    (s'.delivered = s.delivered ∧ s'.timedOut = s.timedOut) ∨
    ∃ (i : Nat) (t : Task) (it : Item), s.tasks[i]? = some t ∧ it ∈ pend t ∧ it.c ∈ targets t ∧ cP (key it) s' + 1 = cP (key it) s ∧
      ((s'.delivered = s.delivered ++ [key it] ∧ s'.timedOut = s.timedOut) ∨
       (s'.delivered = s.delivered ∧ s'.timedOut = s.timedOut ++ [key it] ∧ cfg.timeout > 0)) := by
  cases succ_bstep h with
  | same h1 h2 h3 h4 => exact Or.inl ⟨h2, h3⟩
  | spawnCtl t hc h1 h2 h3 h4 => exact Or.inl ⟨h2, h3⟩
  | invoke p0 o v evs hp0 h0 h1 h2 h3 => exact Or.inl ⟨h2, h3⟩
  | task i t t' new dl tl hi hT h1 h2 h3 h4 =>
    rcases tstep_log hT with ⟨rfl, rfl⟩ | ⟨it, hit, htg, hnp, hna, hlog⟩
    · exact Or.inl ⟨by simpa using h2, by simpa using h3⟩
    · right
      obtain ⟨_, b, _, _⟩ := task_counts hi hT h1 h2 h3 (key it)
      have hb := b (hna _)
      rw [gain_notPub hnp] at hb
      have hcl := cL_append h2 h3 (key it)
      refine ⟨i, t, it, hi, hit, htg, ?_, ?_⟩
      · rcases hlog with ⟨rfl, rfl⟩ | ⟨rfl, rfl, _⟩ <;> simp at hcl <;> omega
      · rcases hlog with ⟨rfl, rfl⟩ | ⟨rfl, rfl, htm⟩
        · exact Or.inl ⟨h2, by simpa using h3⟩
        · exact Or.inr ⟨by simpa using h2, h3, htm⟩

/-- without clones: a log entry is written only for a channel that is subscribed and open at that moment -/
theorem log_step_subscribed {cfg : Cfg} (hd : cfg.allowClone = false) {s s' : State} {l : Option Event}
    (hr : Conc.Reachable (sys cfg) s) (h : (l, s') ∈ succ cfg s) :
    (s'.delivered = s.delivered ∧ s'.timedOut = s.timedOut) ∨
    ∃ k : Key, k.2.2 ∈ (s.obj 0).subs ∧ isClosed s.chans k.2.2 = false ∧
      ((s'.delivered = s.delivered ++ [k] ∧ s'.timedOut = s.timedOut) ∨
       (s'.delivered = s.delivered ∧ s'.timedOut = s.timedOut ++ [k] ∧ cfg.timeout > 0)) := by
  have hs := no_panic_noClone cfg hd s hr
  rcases log_step h with h1 | ⟨i, t, it, hi, _, htg, _, hlog⟩
  · exact Or.inl h1
  · have hsub := hs.targ t (List.mem_of_getElem? hi) it.c htg
    exact Or.inr ⟨key it, hsub, hs.opn _ hsub, hlog⟩

/-- no key is in both logs (system without clones) -/
theorem not_both_logs {cfg : Cfg} (hd : cfg.allowClone = false) {s : State} (hr : Conc.Reachable (sys cfg) s)
    (k : Key) (h1 : k ∈ s.delivered) (h2 : k ∈ s.timedOut) : False := by
  have ha := atMostOnce_reachable cfg hd s hr k
  have e : cL k s = s.delivered.count k + s.timedOut.count k := by simp [cL, logs, List.count_append]
  have := List.count_pos_iff.mpr h1
  have := List.count_pos_iff.mpr h2
  omega

/-! ### building a `CallRun` from explicit paths (for the non-vacuity examples) -/

open TypVerif.Lemmas.PubSubExec in
theorem callRun_of_paths (cfg : Cfg) (pre post : List Nat) (n i p o : Nat) (v : Variant) (evs : List Int)
    (s0 s1 s2 : State) (h0 : runPath cfg {} pre = some s0)
    (hn : ((succ cfg s0)[n]?).map (·.2) = some s1) (h2 : runPath cfg s1 post = some s2)
    (hi : s0.tasks[i]? = some (.pubStart p o v evs)) (hne : s1.tasks[i]? ≠ s0.tasks[i]?) :
    CallRun cfg s0 s1 s2 i p o v evs := by
  refine ⟨runPath_reachable cfg pre {} s0 Conc.Reachable.init h0, hi, ?_, ⟨_, runPath_exec cfg post s1 s2 h2⟩⟩
  cases hx : (succ cfg s0)[n]? with
  | none => simp [hx] at hn
  | some x =>
    simp only [hx, Option.map_some, Option.some.injEq] at hn
    subst hn
    exact ⟨x.1, List.mem_of_getElem? hx, hne⟩

end TypVerif.Lemmas.PubSubLog
