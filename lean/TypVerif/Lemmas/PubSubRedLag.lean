import TypVerif.Lemmas.PubSubRedSucc
/-
C10, completeness of the judge's reduction: lag steps (`LagStep`), the invariant `Good` the commutation needs, the KEY COMMUTATION LEMMA
`stepsOf_lag` (a lag step of task `g` right-commutes with every step of every other source), sequences of lag steps (`Lag`) and
moving a step left over a whole sequence (`lag_move`), moving one lag step to the front (`lag_front`).
-/
set_option linter.unusedSectionVars false
namespace TypVerif.Lemmas.PubSubRed
open TypVerif TypVerif.Conc TypVerif.Model.PubSub TypVerif.Drv.C10

/-- the announcement of a writer: object and the task it continues as -/
def annOf : Task → Option (Nat × Task)
  | .subStart o c cap => some (o, .subWait o c cap)
  | .unsubStart u o (some c) => some (o, .unsubWait u o c)
  | .uaStart u o => some (o, .uaWait u o)
  | _ => none

/-- kinds of lag steps: a `sendAsync` goroutine takes the read lock / a writer announces -/
inductive LK where
  | rd (o : Nat) (it : Item)
  | ann (o : Nat) (t t1 : Task)

def LK.obj : LK → Nat
  | .rd o _ => o
  | .ann o _ _ => o
def LK.f : LK → RW → RW
  | .rd .. => RW.rlock
  | .ann .. => RW.announce
def LK.src : LK → Task
  | .rd o it => .asyncStart o it
  | .ann _ t _ => t
def LK.tgt : LK → Task
  | .rd o it => .asyncSend o it false
  | .ann _ _ t1 => t1
def LK.wf : LK → Prop
  | .rd .. => True
  | .ann o t t1 => annOf t = some (o, t1)
def LK.Q : LK → ObjSt → Prop
  | .rd _ it => fun ob => ob.rw.canRLock = true ∧ it.c ∈ ob.subs
  | .ann .. => fun _ => True
def LK.annOK : LK → Prop
  | .rd .. => False
  | .ann .. => True

/-- `y` is reached from `x` by the lag step of kind `κ` of task `g` -/
structure LagStep (x : State) (g : Nat) (κ : LK) (y : State) : Prop where
  wf : κ.wf
  inr : κ.obj < x.objs.length
  task : x.tasks[g]? = some κ.src
  q : κ.Q (x.obj κ.obj)
  eq : y = lagT κ.obj κ.f g κ.tgt x

theorem LK.fok (κ : LK) : FOK κ.f := by
  cases κ
  · exact fok_rlock
  · exact fok_announce

theorem LK.qok (κ : LK) : QOK κ.f κ.annOK κ.Q := by
  cases κ with
  | rd o it =>
    refine ⟨fun ob h => h, fun ob h => h, fun h => h.elim, ?_⟩
    intro ob S h
    simp [LK.f, RW.canLock, RW.rlock] at h
  | ann o t t1 => exact ⟨fun _ _ => trivial, fun _ _ => trivial, fun _ _ _ => trivial, fun _ _ _ _ => trivial⟩

theorem annOf_cases {t : Task} {o : Nat} {t1 : Task} (h : annOf t = some (o, t1)) :
    (∃ c cap, t = .subStart o c cap ∧ t1 = .subWait o c cap) ∨
    (∃ u c, t = .unsubStart u o (some c) ∧ t1 = .unsubWait u o c) ∨
    (∃ u, t = .uaStart u o ∧ t1 = .uaWait u o) := by
  cases t with
  | subStart o' c cap => simp only [annOf, Option.some.injEq, Prod.mk.injEq] at h; obtain ⟨rfl, rfl⟩ := h; exact Or.inl ⟨_, _, rfl, rfl⟩
  | unsubStart u o' c =>
    cases c with
    | none => simp [annOf] at h
    | some c => simp only [annOf, Option.some.injEq, Prod.mk.injEq] at h; obtain ⟨rfl, rfl⟩ := h; exact Or.inr (Or.inl ⟨_, _, rfl, rfl⟩)
  | uaStart u o' => simp only [annOf, Option.some.injEq, Prod.mk.injEq] at h; obtain ⟨rfl, rfl⟩ := h; exact Or.inr (Or.inr ⟨_, rfl, rfl⟩)
  | _ => simp [annOf] at h

theorem LK.subName_eq (κ : LK) (h : κ.wf) (c : Chan) : subName c κ.tgt = subName c κ.src := by
  cases κ with
  | rd o it => rfl
  | ann o t t1 =>
    rcases annOf_cases h with ⟨c', cap, rfl, rfl⟩ | ⟨u, c', rfl, rfl⟩ | ⟨u, rfl, rfl⟩ <;> rfl

/-! ### the invariant the commutation needs -/

def readsOn : Task → Option Nat
  | .syncLoop _ o _ _ => some o
  | .waitWg _ o _ => some o
  | .asyncSend o _ _ => some o
  | _ => none

def waitsOn : Task → Option Nat
  | .subWait o _ _ => some o
  | .unsubWait _ o _ => some o
  | .uaWait _ o => some o
  | _ => none

/-- the object of a task that can make a lag step -/
def lagObj : Task → Option Nat
  | .asyncStart o _ => some o
  | t => (annOf t).map (·.1)

/-- a holder of a read lock is counted in `readers`, a writer inside `Lock()` in `waiting`; no task that can lag is on an object that
`WithOnly` is still constructing; the objects of the tasks that can lag exist -/
structure Good (x : State) : Prop where
  rd : ∀ (k : Nat) (tk : Task) (o : Nat), x.tasks[k]? = some tk → readsOn tk = some o → 0 < (x.obj o).rw.readers
  wt : ∀ (k : Nat) (tk : Task) (o : Nat), x.tasks[k]? = some tk → waitsOn tk = some o → 0 < (x.obj o).rw.waiting
  wo : ∀ (k w o : Nat) (c : Chan) (g : Nat) (t : Task), x.tasks[k]? = some (.woStart w o c) → x.tasks[g]? = some t → lagObj t ≠ some w
  inr : ∀ (g : Nat) (t : Task) (o : Nat), x.tasks[g]? = some t → lagObj t = some o → o < x.objs.length

theorem LK.lagObj_src (κ : LK) (h : κ.wf) : lagObj κ.src = some κ.obj := by
  cases κ with
  | rd o it => rfl
  | ann o t t1 =>
    rcases annOf_cases h with ⟨c', cap, rfl, rfl⟩ | ⟨u, c', rfl, rfl⟩ | ⟨u, rfl, rfl⟩ <;> rfl

theorem side_of_good {x y : State} {g : Nat} {κ : LK} (hG : Good x) (hl : LagStep x g κ y) {k : Nat} {tk : Task}
    (hk : x.tasks[k]? = some tk) (hna : ¬ κ.annOK → annOf tk = none) : Side κ.obj κ.annOK x tk := by
  have hann : ∀ o', annOf tk = some o' → κ.annOK := by
    intro o' h
    by_cases ha : κ.annOK
    · exact ha
    · rw [hna ha] at h; cases h
  cases tk with
  | syncLoop p o' w cb => intro e; subst e; exact hG.rd k _ _ hk rfl
  | waitWg p o' w => intro e; subst e; exact hG.rd k _ _ hk rfl
  | asyncSend o' it cb => intro e; subst e; exact hG.rd k _ _ hk rfl
  | subWait o' c cap => intro e; subst e; exact hG.wt k _ _ hk rfl
  | unsubWait u o' c => intro e; subst e; exact hG.wt k _ _ hk rfl
  | uaWait u o' => intro e; subst e; exact hG.wt k _ _ hk rfl
  | subStart o' c cap => intro _; exact hann _ rfl
  | unsubStart u o' c =>
    cases c with
    | none => trivial
    | some c => intro _; exact hann _ rfl
  | uaStart u o' => intro _; exact hann _ rfl
  | woStart w o' c =>
    intro e
    exact hG.wo k w o' c g _ hk hl.task (by rw [κ.lagObj_src hl.wf, e])
  | _ => trivial

/-! ### sources of steps -/

/-- the steps of task `k` / of the surroundings (environment, receivers, exit) -/
def stepsOf (cfg : Cfg) (x : State) : Option Nat → Steps
  | some k => taskSteps cfg x k
  | none => envSteps cfg x ++ x.chans.flatMap (recvSteps x) ++ exitSteps x

theorem taskSteps_nil_of_ge (cfg : Cfg) (x : State) (k : Nat) (h : x.tasks.length ≤ k) : taskSteps cfg x k = [] := by
  unfold taskSteps
  rw [List.getElem?_eq_none h]

theorem mem_succ_iff (cfg : Cfg) (x : State) (hex : x.exited = false) (hp : x.panicked = none) (p : Option Event × State) :
    p ∈ succ cfg x ↔ ∃ src, p ∈ stepsOf cfg x src := by
  unfold succ
  rw [if_neg (by simp [hex])]
  split
  · rename_i m hm; rw [hp] at hm; cases hm
  · constructor
    · intro h
      rcases List.mem_append.1 h with h | h
      · rcases List.mem_append.1 h with h | h
        · rcases List.mem_append.1 h with h | h
          · exact ⟨none, List.mem_append_left _ (List.mem_append_left _ h)⟩
          · obtain ⟨k, _, hk⟩ := List.mem_flatMap.1 h
            exact ⟨some k, hk⟩
        · exact ⟨none, List.mem_append_left _ (List.mem_append_right _ h)⟩
      · exact ⟨none, List.mem_append_right _ h⟩
    · rintro ⟨src, h⟩
      cases src with
      | none =>
        rcases List.mem_append.1 h with h | h
        · rcases List.mem_append.1 h with h | h
          · exact List.mem_append_left _ (List.mem_append_left _ (List.mem_append_left _ h))
          · exact List.mem_append_left _ (List.mem_append_right _ h)
        · exact List.mem_append_right _ h
      | some k =>
        have hk : k < x.tasks.length := by
          rcases Nat.lt_or_ge k x.tasks.length with hlt | hge
          · exact hlt
          · have : taskSteps cfg x k = [] := taskSteps_nil_of_ge cfg x k hge
            simp only [stepsOf] at h
            rw [this] at h; cases h
        exact List.mem_append_left _ (List.mem_append_left _ (List.mem_append_right _
          (List.mem_flatMap.2 ⟨k, List.mem_range.2 hk, h⟩)))

/-! ### the key commutation lemma -/

theorem lagStep_of_keeps {x y' : State} {g : Nat} {κ : LK} (hl : LagStep x g κ (lagT κ.obj κ.f g κ.tgt x))
    (hk : Keeps κ.obj g κ.Q x y') : LagStep y' g κ (lagT κ.obj κ.f g κ.tgt y') :=
  ⟨hl.wf, hk.1, by rw [hk.2.1]; exact hl.task, hk.2.2 hl.q, rfl⟩

/-- KEY COMMUTATION LEMMA.  After the lag step of task `g` (kind `κ`: it took the read lock for a `sendAsync`, or announced as a writer),
whatever any OTHER source (another task, a receiver, the environment, exit) can do, it can do BEFORE that lag step, with the same
label, and the lag step is still possible afterwards and leads to the same state.  Excluded: an announcement (of a writer on the same
object) after a read lock — such an announcement is itself a lag step. -/
theorem stepsOf_lag (cfg : Cfg) {x y z : State} {g : Nat} {κ : LK} {l : Option Event} (hG : Good x) (hl : LagStep x g κ y)
    (src : Option Nat) (hsrc : src ≠ some g)
    (hna : ∀ k tk, src = some k → x.tasks[k]? = some tk → ¬ κ.annOK → annOf tk = none)
    (h : (l, z) ∈ stepsOf cfg y src) : ∃ y', (l, y') ∈ stepsOf cfg x src ∧ LagStep y' g κ z := by
  have hy := hl.eq
  subst hy
  have hgl : g < x.tasks.length := by
    rcases Nat.lt_or_ge g x.tasks.length with hlt | hge
    · exact hlt
    · have := hl.task; rw [List.getElem?_eq_none hge] at this; cases this
  have key : Sub (lagT κ.obj κ.f g κ.tgt) (Keeps κ.obj g κ.Q x) (stepsOf cfg (lagT κ.obj κ.f g κ.tgt x) src) (stepsOf cfg x src) := by
    cases src with
    | some k =>
      have hk : k ≠ g := fun e => hsrc (by rw [e])
      exact taskSteps_lag κ.fok κ.qok hl.inr hgl hk cfg (fun tk htk => side_of_good hG hl htk (hna k tk rfl htk))
    | none =>
      simp only [stepsOf, lagT_chans]
      apply sub_append
      · apply sub_append
        · exact envSteps_lag cfg hl.inr hgl hl.task (κ.subName_eq hl.wf)
        · exact sub_flatMap _ _ _ _ _ (fun ch _ => recvSteps_lag hl.inr ch)
      · exact exitSteps_lag hl.inr
  obtain ⟨q, hq, he, hkp⟩ := key _ h
  simp only [Prod.mk.injEq] at he
  obtain ⟨rfl, rfl⟩ := he
  exact ⟨q.2, hq, lagStep_of_keeps hl hkp⟩

/-- a lag step is an internal step of its task -/
theorem lagStep_taskSteps (cfg : Cfg) {x y : State} {g : Nat} {κ : LK} (hl : LagStep x g κ y) : (none, y) ∈ taskSteps cfg x g := by
  have hy := hl.eq
  subst hy
  unfold taskSteps
  rw [hl.task]
  cases κ with
  | rd o it =>
    have hq := hl.q
    simp only [LK.Q, LK.obj] at hq
    simp only [LK.src, stepTask, stepAsyncStart, hq.1, Bool.not_true, Bool.false_eq_true, ↓reduceIte, hq.2]
    exact List.mem_singleton.2 rfl
  | ann o t t1 =>
    rcases annOf_cases hl.wf with ⟨c', cap, rfl, rfl⟩ | ⟨u, c', rfl, rfl⟩ | ⟨u, rfl, rfl⟩ <;>
      exact List.mem_singleton.2 rfl

end TypVerif.Lemmas.PubSubRed
