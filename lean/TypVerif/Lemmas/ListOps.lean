import TypVerif.Lemmas.ListSimMove
/-
Method-level simulation lemmas: each method of list.go, run on a heap that represents the world `w`,
does not panic (except on the documented nil dereferences), returns what the specification returns and
leaves a heap representing the specification's new world.
-/
namespace TypVerif.Lemmas.LinkedList
open TypVerif.Spec.ListOp
open TypVerif.Spec.Seq
open TypVerif.Model
open TypVerif.Model.LinkedList

/-- the monadic computation succeeds with value `a` in a heap representing `w'` -/
def Agree {α : Type} (r : Result α) (w' : World) (a : α) : Prop := ∃ h', r = .ok a h' ∧ Sim h' w'

/-- list `l` has been initialised (is not the lazily-initialised zero value any more) -/
def Inited (h : Heap) (w : World) (l : ListId) : Prop :=
  Linked h.next h.prev (cyc l (w.lists.get l)) ∧ h.len l = (w.lists.get l).length

theorem mem_cyc_ne_null {l : ListId} {xs : List ElemId} {p : Ptr} (hp : p ∈ cyc l xs) : p ≠ .null := by
  rcases mem_cyc.1 hp with rfl | ⟨x, _, rfl⟩ <;> simp

theorem Sim.congr {h : Heap} {w w' : World} (hs : Sim h w)
    (h1 : ∀ l, w'.lists.get l = w.lists.get l) (h2 : ∀ e, w'.owner.get e = w.owner.get e)
    (h3 : ∀ e, w'.value.get e = w.value.get e) (h4 : w'.nextId = w.nextId) : Sim h w' := by
  refine ⟨?_, ?_, ?_, ?_, ?_, ?_, ?_, ?_⟩
  · rw [h4]; exact hs.nextId
  · intro e; rw [h3]; exact hs.value e
  · intro e; rw [h2]; exact hs.owner e
  · intro e l; rw [h1, h2]; exact hs.mem e l
  · intro l; rw [h1]; exact hs.nodup l
  · intro e he; rw [h2]; exact hs.fresh e (h4 ▸ he)
  · intro e he; rw [h2] at he; exact hs.detached e he
  · intro l; rw [h1]; exact hs.shape l

theorem Sim.bumpNext {h : Heap} {w : World} (hs : Sim h w) (n : Nat) (hn : w.nextId ≤ n) :
    Sim (h.setNextElem n) { w with nextId := n } := by
  refine ⟨rfl, hs.value, hs.owner, hs.mem, hs.nodup, ?_, hs.detached, hs.shape⟩
  intro e he
  exact hs.fresh e (Nat.le_trans hn he)

/-! ### Init / lazyInit -/

theorem init_run (l : ListId) (h : Heap) :
    init l h = .ok () (((h.setNext (.root l) (.root l)).setPrev (.root l) (.root l)).setLen l 0) := by
  unfold init
  rw [bind_ok (setNext_ok _ _ (root_ne_null l)), bind_ok (setPrev_ok _ _ (root_ne_null l))]
  rfl

theorem Sim.init_views {h g : Heap} {w : World} (hs : Sim h w) {l : ListId} (hxs : w.lists.get l = [])
    (gnext : ∀ x, g.next x = if x = .root l then .root l else h.next x)
    (gprev : ∀ x, g.prev x = if x = .root l then .root l else h.prev x)
    (glen : ∀ l', g.len l' = if l' = l then 0 else h.len l')
    (glist : g.listOf = h.listOf) (gval : g.value = h.value) (gne : g.nextElem = h.nextElem) :
    Sim g w ∧ Inited g w l := by
  have hin : Inited g w l := by
    constructor
    · rw [hxs]
      exact ⟨by rw [gnext]; simp, by rw [gprev]; simp, trivial⟩
    · rw [glen, hxs]; simp
  refine ⟨⟨?_, ?_, ?_, hs.mem, hs.nodup, hs.fresh, ?_, ?_⟩, hin⟩
  · rw [gne]; exact hs.nextId
  · intro e; rw [gval]; exact hs.value e
  · intro e; rw [glist]; exact hs.owner e
  · intro e he
    rw [gnext, gprev]; simp only [elem_ne_root, if_false]
    exact hs.detached e he
  · intro l'
    by_cases hl : l' = l
    · subst hl; exact Or.inr hin
    · apply Shape.frame (hs.shape l')
      · intro p hp
        have : p ≠ .root l := by
          intro hh; subst hh
          rcases mem_cyc.1 (List.dropLast_subset _ hp) with h1 | ⟨x, _, h1⟩
          · cases h1; exact hl rfl
          · cases h1
        rw [gnext]; simp only [this, if_false]
      · intro p hp
        have : p ≠ .root l := by
          intro hh; subst hh
          rcases mem_cyc.1 (List.mem_of_mem_tail hp) with h1 | ⟨x, _, h1⟩
          · cases h1; exact hl rfl
          · cases h1
        rw [gprev]; simp only [this, if_false]
      · rw [glen, if_neg hl]

theorem init_sim {h : Heap} {w : World} (hs : Sim h w) {l : ListId} (hxs : w.lists.get l = []) :
    ∃ h', init l h = .ok () h' ∧ Sim h' w ∧ Inited h' w l := by
  refine ⟨_, init_run l h, ?_⟩
  apply hs.init_views hxs
  · intro x
    simp only [next_setLen, next_setPrev, next_setNext _ _ (root_ne_null l), upd_apply]
  · intro x
    simp only [prev_setLen, prev_setPrev _ _ (root_ne_null l), prev_setNext, upd_apply]
  · intro l'
    simp only [len_setLen, len_setPrev, len_setNext, upd_apply]
  · simp
  · simp
  · simp

theorem lazyInit_sim {h : Heap} {w : World} (hs : Sim h w) (l : ListId) :
    ∃ h', lazyInit l h = .ok () h' ∧ Sim h' w ∧ Inited h' w l := by
  unfold lazyInit
  rw [bind_ok (getNext_ok _ (root_ne_null l))]
  rcases hs.shape l with ⟨h1, _, _, h4⟩ | h2
  · rw [if_pos h1]
    exact init_sim hs h4
  · have : h.next (.root l) ≠ .null := by
      rw [Linked.next_root h2.1]; exact ptrOr_ne_null _ _
    rw [if_neg this]
    exact ⟨h, rfl, hs, h2⟩

/-! ### insertValue -/

theorem upd_eq_self {α β : Type} [DecidableEq α] (f : α → β) (a : α) (b : β) (h : f a = b) : upd f a b = f := by
  funext x; unfold upd; split
  · next hx => rw [hx, h]
  · rfl

theorem insertValue_sim {h : Heap} {w : World} (hs : Sim h w) {l : ListId} {id : ElemId} (v : Int) {at' : Ptr}
    (hin : Inited h w l) (hat : at' ∈ (cyc l (w.lists.get l)).dropLast)
    (hfree : w.owner.get id = none) (hid : id < w.nextId) :
    Agree (insertValue l id v at' h) (w.place l id v (insAfter at' id (w.lists.get l))) (.elem id) := by
  have hatc : at' ∈ cyc l (w.lists.get l) := List.dropLast_subset _ hat
  have hat0 : at' ≠ .null := mem_cyc_ne_null hatc
  have hnc : h.next at' ∈ cyc l (w.lists.get l) := List.mem_of_mem_tail (Linked.next_mem hin.1 hat)
  have hn0 : h.next at' ≠ .null := mem_cyc_ne_null hnc
  have hne : at' ≠ .elem id := fun hh => hs.free_not_mem_cyc hfree l (hh ▸ hatc)
  have hdet := hs.detached id hfree
  have hlo : h.listOf (.elem id) = none := by rw [hs.owner, hfree]
  -- the fresh cell changes only the value
  have n0 : (h.newElemAt id v).next = h.next := by
    rw [next_newElemAt]; exact upd_eq_self _ _ _ hdet.1
  have p0 : (h.newElemAt id v).prev = h.prev := by
    rw [prev_newElemAt]; exact upd_eq_self _ _ _ hdet.2
  have l0 : (h.newElemAt id v).listOf = h.listOf := by
    rw [listOf_newElemAt]; exact upd_eq_self _ _ _ hlo
  refine ⟨insertH (h.newElemAt id v) l id at', ?_, ?_⟩
  · unfold insertValue
    rw [bind_ok (newElemAt_run id v h)]
    exact insert_run _ l id hat0 (by rw [n0]; exact hn0) hne
  · apply hs.insert_views hin.1 hin.2 hat hfree hid
    · intro x
      simp only [insertH, next_setLen, next_setList]
      rw [next_linkH _ _ hat0, n0]
    · intro x
      simp only [insertH, prev_setLen, prev_setList]
      rw [prev_linkH _ _ _ (by rw [n0]; exact hn0), n0, p0]
    · intro x
      simp only [insertH, listOf_setLen, listOf_setList, listOf_linkH, l0, upd_apply]
    · intro x
      simp only [insertH, value_setLen, value_setList, value_linkH, value_newElemAt, upd_apply]
    · intro l'
      simp only [insertH, len_setLen, len_setList, len_linkH, len_newElemAt, upd_apply]
    · simp [insertH]

theorem insertValueFresh_sim {h : Heap} {w : World} (hs : Sim h w) {l : ListId} (v : Int) {at' : Ptr}
    (hin : Inited h w l) (hat : at' ∈ (cyc l (w.lists.get l)).dropLast) :
    Agree (insertValueFresh l v at' h)
      ((w.place l w.nextId v (insAfter at' w.nextId (w.lists.get l))).bump) (.elem w.nextId) := by
  unfold insertValueFresh
  rw [bind_ok (getNextElem_run h), bind_ok (setNextElem_run _ _), hs.nextId]
  have hs1 := hs.bumpNext (w.nextId + 1) (Nat.le_succ _)
  exact insertValue_sim (w := { w with nextId := w.nextId + 1 }) hs1 v hin hat
    (hs.fresh _ (Nat.le_refl _)) (Nat.lt_succ_self _)

end TypVerif.Lemmas.LinkedList
