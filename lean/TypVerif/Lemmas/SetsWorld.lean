import TypVerif.Lemmas.SetsOps
/-
Every program over set handles (any mixture of the two implementations, self-aliased calls included)
keeps every set well-formed: in particular every concurrent set it builds satisfies `SeqInv`.
-/
namespace TypVerif.Lemmas.Sets
open TypVerif.Model.Sets
open TypVerif

set_option linter.unusedSectionVars false
set_option linter.unusedVariables false

variable {α : Type} [DecidableEq α]

def WorldOK (w : World α) : Prop := ∀ s ∈ w, SetOK s

theorem WorldOK.set {w : World α} (h : WorldOK w) (i : Nat) (a : AnySet α) (ha : SetOK a) : WorldOK (w.set i a) := by
  intro s hs
  rcases List.mem_or_eq_of_mem_set hs with h1 | h1
  · exact h s h1
  · rw [h1]; exact ha

theorem WorldOK.push {w : World α} (h : WorldOK w) (a : AnySet α) (ha : SetOK a) : WorldOK (w ++ [a]) := by
  intro s hs
  rcases List.mem_append.mp hs with h1 | h1
  · exact h s h1
  · simp at h1; rw [h1]; exact ha

theorem WorldOK.get {w : World α} (h : WorldOK w) {i : Nat} {a : AnySet α} (ha : w[i]? = some a) : SetOK a :=
  h a (List.mem_of_getElem? ha)

theorem WorldOK.un {w : World α} (h : WorldOK w) (i : Nat) (f : AnySet α → AnySet α)
    (hf : ∀ a, SetOK a → SetOK (f a)) : WorldOK (w.un i f) := by
  unfold World.un
  cases hi : w[i]? with
  | none => exact h
  | some a => exact h.set i (f a) (hf a (h.get hi))

theorem WorldOK.two {w : World α} (h : WorldOK w) {i j : Nat} {t : Two α} (ht : w.two i j = some t) : TwoOK t := by
  unfold World.two at ht
  cases hi : w[i]? with
  | none => rw [hi] at ht; cases ht
  | some a =>
    cases hj : w[j]? with
    | none => rw [hi, hj] at ht; cases ht
    | some b =>
      rw [hi, hj] at ht
      injection ht with ht
      subst ht
      refine ⟨h.get hi, ?_⟩
      intro b' hb'
      by_cases hij : i = j
      · simp [hij] at hb'
      · simp [hij] at hb'; subst hb'; exact h.get hj

theorem WorldOK.putTwo {w : World α} (h : WorldOK w) (i j : Nat) {t : Two α} (ht : TwoOK t) : WorldOK (w.putTwo i j t) := by
  unfold World.putTwo
  cases hta : t.arg with
  | none => exact h.set i t.recv ht.1
  | some b => exact (h.set i t.recv ht.1).set j b (ht.2 b hta)

theorem wstep_ok (w : World α) (h : WorldOK w) (op : WOp α) : WorldOK (wstep w op) := by
  cases op with
  | new kind => exact h.push _ (emptyOfKind_ok kind).1
  | fromSlice kind l => exact h.push _ (fromSlice_ok kind l).1
  | add i v => exact h.un i _ (fun a ha => (add_ok a ha v).1)
  | remove i v => exact h.un i _ (fun a ha => (remove_ok a ha v).1)
  | has i v => exact h.un i _ (fun a ha => (has_ok a ha v).1)
  | range i n => exact h.un i _ (fun a ha => (rangeN_ok a ha n).1)
  | len i => exact h.un i _ (fun a ha => (len_ok a ha).1)
  | clone i =>
    show WorldOK (match w[i]? with | some a => (w.set i (clone a).1) ++ [(clone a).2] | none => w)
    cases hi : w[i]? with
    | none => exact h
    | some a =>
      obtain ⟨c1, c2, _, _⟩ := clone_ok a (h.get hi)
      exact (h.set i _ c1).push _ c2
  | addSet i j =>
    show WorldOK (match w.two i j with | some t => w.putTwo i j (addSet t).1 | none => w)
    cases ht : w.two i j with
    | none => exact h
    | some t => exact h.putTwo i j (addSet_ok t (h.two ht)).1
  | removeSet i j =>
    show WorldOK (match w.two i j with | some t => w.putTwo i j (removeSet t).1 | none => w)
    cases ht : w.two i j with
    | none => exact h
    | some t => exact h.putTwo i j (removeSet_ok t (h.two ht)).1
  | union i j =>
    show WorldOK (match w.two i j with | some t => w.putTwo i j (union t).1 ++ [(union t).2] | none => w)
    cases ht : w.two i j with
    | none => exact h
    | some t => have r := union_ok t (h.two ht); exact (h.putTwo i j r.two).push _ r.res
  | intersect i j =>
    show WorldOK (match w.two i j with | some t => w.putTwo i j (intersect t).1 ++ [(intersect t).2] | none => w)
    cases ht : w.two i j with
    | none => exact h
    | some t => have r := intersect_ok t (h.two ht); exact (h.putTwo i j r.two).push _ r.res
  | setDiff i j =>
    show WorldOK (match w.two i j with | some t => w.putTwo i j (setDiff t).1 ++ [(setDiff t).2] | none => w)
    cases ht : w.two i j with
    | none => exact h
    | some t => have r := setDiff_ok t (h.two ht); exact (h.putTwo i j r.two).push _ r.res
  | symDiff i j =>
    show WorldOK (match w.two i j with | some t => w.putTwo i j (symDiff t).1 ++ [(symDiff t).2] | none => w)
    cases ht : w.two i j with
    | none => exact h
    | some t => have r := symDiff_ok t (h.two ht); exact (h.putTwo i j r.two).push _ r.res
  | product i j =>
    show WorldOK (match w.two i j with | some t => w.putTwo i j (product t).1 | none => w)
    cases ht : w.two i j with
    | none => exact h
    | some t => exact h.putTwo i j (product_ok t (h.two ht)).1

theorem wrun_ok (ops : List (WOp α)) : WorldOK (wrun ops) := by
  unfold wrun
  have : ∀ (w : World α), WorldOK w → WorldOK (ops.foldl wstep w) := by
    induction ops with
    | nil => intro w h; exact h
    | cons op rest ih => intro w h; exact ih _ (wstep_ok w h op)
  exact this [] (fun s hs => by cases hs)

end TypVerif.Lemmas.Sets
