import TypVerif.Lemmas.FuncGroup
/-
Lemmas for C14, part 3: the Trim family, TryGet / SafeGet / SafeGetOr / Last, the map helpers.
-/
namespace TypVerif.Lemmas.Func
open TypVerif TypVerif.Model

variable {α κ ν : Type}

/-! ### Trim family -/

theorem window_cons (s : List α) (off len : Nat) (h : off + len ≤ s.length) (hl : 0 < len) :
    Func.window s (off, len) = s[off]'(by omega) :: Func.window s (off + 1, len - 1) := by
  cases len with
  | zero => omega
  | succ n =>
    unfold Func.window
    simp only []
    rw [List.drop_eq_getElem_cons (by omega : off < s.length), List.take_succ_cons]
    simp

theorem window_snoc (s : List α) (off len : Nat) (h : off + len ≤ s.length) (hl : 0 < len) :
    Func.window s (off, len) = Func.window s (off, len - 1) ++ [s[off + (len - 1)]'(by omega)] := by
  cases len with
  | zero => omega
  | succ n =>
    unfold Func.window
    simp only []
    have hlen : n < (s.drop off).length := by rw [List.length_drop]; omega
    rw [List.take_add_one, List.getElem?_eq_getElem hlen]
    simp

theorem trimLeftLoop_spec (s : List α) (p : α → Bool) :
    ∀ (fuel off len : Nat), off + len ≤ s.length → len < fuel →
      ∃ w, Func.trimLeftFuncLoop s p fuel (off, len) = .ok w ∧
        Func.window s w = (Func.window s (off, len)).dropWhile p ∧
        w.1 + w.2 = off + len ∧
        w.1 = off + ((Func.window s (off, len)).takeWhile p).length
  | 0, _, _, _, hf => by omega
  | fuel + 1, off, len, h, hf => by
    rw [Func.trimLeftFuncLoop]
    by_cases hl : len > 0
    · rw [if_pos hl, List.getElem?_eq_getElem (by omega : off < s.length)]
      simp only []
      rw [window_cons s off len h hl]
      cases hp : p (s[off]'(by omega))
      · simp only [Bool.false_eq_true, if_false]
        refine ⟨(off, len), rfl, ?_, rfl, ?_⟩
        · rw [window_cons s off len h hl, List.dropWhile_cons, hp]; simp
        · rw [List.takeWhile_cons, hp]; simp
      · simp only [if_true]
        obtain ⟨w, he, hw, hsum, hoff⟩ := trimLeftLoop_spec s p fuel (off + 1) (len - 1) (by omega) (by omega)
        refine ⟨w, he, ?_, by omega, ?_⟩
        · rw [hw, List.dropWhile_cons, hp]; simp
        · rw [hoff, List.takeWhile_cons, hp]; simp; omega
    · rw [if_neg hl]
      have h0 : len = 0 := by omega
      subst h0
      exact ⟨(off, 0), rfl, by simp [Func.window], rfl, by simp [Func.window]⟩

theorem trimRightLoop_spec (s : List α) (p : α → Bool) :
    ∀ (fuel off len : Nat), off + len ≤ s.length → len < fuel →
      ∃ w, Func.trimRightFuncLoop s p fuel (off, len) = .ok w ∧
        Func.window s w = ((Func.window s (off, len)).reverse.dropWhile p).reverse ∧
        w.1 = off ∧ w.2 ≤ len
  | 0, _, _, _, hf => by omega
  | fuel + 1, off, len, h, hf => by
    rw [Func.trimRightFuncLoop]
    by_cases hl : len > 0
    · rw [if_pos hl, List.getElem?_eq_getElem (by omega : off + (len - 1) < s.length)]
      simp only []
      rw [window_snoc s off len h hl, List.reverse_append, List.reverse_singleton, List.singleton_append,
        List.dropWhile_cons]
      cases hp : p (s[off + (len - 1)]'(by omega))
      · simp only [Bool.false_eq_true, if_false]
        refine ⟨(off, len), rfl, ?_, rfl, Nat.le_refl _⟩
        rw [window_snoc s off len h hl]; simp
      · simp only [if_true]
        obtain ⟨w, he, hw, hoff, hle⟩ := trimRightLoop_spec s p fuel off (len - 1) (by omega) (by omega)
        exact ⟨w, he, hw, hoff, by omega⟩
    · rw [if_neg hl]
      have h0 : len = 0 := by omega
      subst h0
      exact ⟨(off, 0), rfl, by simp [Func.window], rfl, Nat.le_refl _⟩

theorem window_full (s : List α) : Func.window s (0, s.length) = s := by
  simp [Func.window]

theorem trimLeftFunc_spec (s : List α) (p : α → Bool) :
    ∃ w, Func.trimLeftFunc s p = .ok w ∧ Func.window s w = Spec.Func.trimLeft s p ∧
      w.1 + w.2 = s.length ∧ w.1 = (s.takeWhile p).length := by
  obtain ⟨w, he, hw, hsum, hoff⟩ := trimLeftLoop_spec s p (s.length + 1) 0 s.length (by omega) (by omega)
  rw [window_full] at hw hoff
  exact ⟨w, he, hw, by omega, by omega⟩

theorem trimRightFunc_spec (s : List α) (p : α → Bool) :
    ∃ w, Func.trimRightFunc s p = .ok w ∧ Func.window s w = Spec.Func.trimRight s p ∧ w.1 = 0 ∧ w.2 ≤ s.length := by
  obtain ⟨w, he, hw, hoff, hle⟩ := trimRightLoop_spec s p (s.length + 1) 0 s.length (by omega) (by omega)
  rw [window_full] at hw
  exact ⟨w, he, hw, hoff, hle⟩

theorem trimFunc_spec (s : List α) (p : α → Bool) :
    ∃ w, Func.trimFunc s p = .ok w ∧ Func.window s w = Spec.Func.trim s p ∧
      w.1 + w.2 ≤ s.length ∧ w.1 = ((Spec.Func.trimRight s p).takeWhile p).length := by
  obtain ⟨w1, he1, hw1, hoff1, hle1⟩ := trimRightFunc_spec s p
  obtain ⟨w, he, hw, hsum, hoff⟩ := trimLeftLoop_spec s p (s.length + 1) w1.1 w1.2 (by omega) (by omega)
  refine ⟨w, ?_, ?_, by omega, ?_⟩
  · unfold Func.trimFunc
    unfold Func.trimRightFunc at he1
    rw [he1]
    exact he
  · rw [hw, hw1]; rfl
  · rw [hoff, hw1, hoff1]; omega

/-! ### TryGet / SafeGet / SafeGetOr / Last -/

theorem at_ok (s : List α) (i : Int) (h0 : 0 ≤ i) (h1 : i < s.length) :
    Func.at_ s i = .ok (s[i.toNat]'(by omega)) := by
  unfold Func.at_
  rw [if_neg (by omega), List.getElem?_eq_getElem (by omega : i.toNat < s.length)]

theorem guard_iff (s : List α) (i : Int) : (decide (i < 0) || decide (i ≥ (s.length : Int))) = true ↔ ¬ (0 ≤ i ∧ i < s.length) := by
  simp only [Bool.or_eq_true, decide_eq_true_eq]; omega

theorem tryGet_eq (s : List α) (i : Int) (zero : α) :
    Func.tryGet s i zero = .ok (Spec.Func.tryGet s i zero) := by
  unfold Func.tryGet Spec.Func.tryGet
  by_cases h : 0 ≤ i ∧ i < s.length
  · rw [if_neg (by rw [guard_iff]; exact fun hn => hn h), at_ok s i h.1 h.2, if_pos h.1,
      List.getElem?_eq_getElem (by omega : i.toNat < s.length)]
    rfl
  · rw [if_pos (by rw [guard_iff]; exact h)]
    by_cases h0 : 0 ≤ i
    · rw [if_pos h0, List.getElem?_eq_none (by omega)]
    · rw [if_neg h0]

theorem safeGetOr_eq (s : List α) (i : Int) (fb : α) :
    Func.safeGetOr s i fb = .ok (Spec.Func.safeGetOr s i fb) := by
  unfold Func.safeGetOr Spec.Func.safeGetOr
  by_cases h : 0 ≤ i ∧ i < s.length
  · rw [if_neg (by rw [guard_iff]; exact fun hn => hn h), at_ok s i h.1 h.2, if_pos h.1,
      List.getElem?_eq_getElem (by omega : i.toNat < s.length)]
    rfl
  · rw [if_pos (by rw [guard_iff]; exact h)]
    by_cases h0 : 0 ≤ i
    · rw [if_pos h0, List.getElem?_eq_none (by omega)]; rfl
    · rw [if_neg h0]

theorem safeGet_eq (s : List α) (i : Int) (zero : α) :
    Func.safeGet s i zero = .ok (Spec.Func.safeGetOr s i zero) := safeGetOr_eq s i zero

theorem last_eq (s : List α) :
    Func.last s = match Spec.Func.last s with | some v => .ok v | none => .error "panic:bounds" := by
  unfold Func.last Spec.Func.last
  rw [List.getLast?_eq_getElem?]
  by_cases h : s.length = 0
  · have : s = [] := List.length_eq_zero_iff.mp h
    subst this
    rfl
  · rw [at_ok s _ (by omega) (by omega)]
    have : ((s.length : Int) - 1).toNat = s.length - 1 := by omega
    simp only [this]
    rw [List.getElem?_eq_getElem (by omega : s.length - 1 < s.length)]

/-! ### map helpers -/

theorem keysLoop_eq : ∀ (it : List (κ × ν)) (keys : List κ), Func.keysLoop it keys = keys ++ it.map (·.1)
  | [], keys => by simp [Func.keysLoop]
  | (k, v) :: rest, keys => by rw [Func.keysLoop, keysLoop_eq rest]; simp

theorem valuesLoop_eq : ∀ (it : List (κ × ν)) (vals : List ν), Func.valuesLoop it vals = vals ++ it.map (·.2)
  | [], vals => by simp [Func.valuesLoop]
  | (k, v) :: rest, vals => by rw [Func.valuesLoop, valuesLoop_eq rest]; simp

theorem containsValue_iff [DecidableEq ν] (value : ν) :
    ∀ it : List (κ × ν), Func.containsValue it value = true ↔ ∃ k, (k, value) ∈ it
  | [] => by simp [Func.containsValue]
  | (k, v) :: rest => by
    rw [Func.containsValue]
    by_cases h : v = value
    · subst h; simp only [if_true, true_iff]; exact ⟨k, List.mem_cons_self⟩
    · rw [if_neg h, containsValue_iff value rest]
      constructor
      · rintro ⟨k', hk⟩; exact ⟨k', List.mem_cons_of_mem _ hk⟩
      · rintro ⟨k', hk⟩
        rw [List.mem_cons] at hk
        cases hk with
        | inl he => exact absurd (Prod.mk.inj he).2.symm h
        | inr hm => exact ⟨k', hm⟩

theorem keyOf_spec [DecidableEq ν] (value : ν) (zero : κ) :
    ∀ it : List (κ × ν),
      ((Func.keyOf it value zero).2 = true → ((Func.keyOf it value zero).1, value) ∈ it) ∧
      ((Func.keyOf it value zero).2 = false → (Func.keyOf it value zero).1 = zero ∧ ¬ ∃ k, (k, value) ∈ it)
  | [] => by simp [Func.keyOf]
  | (k, v) :: rest => by
    rw [Func.keyOf]
    by_cases h : v = value
    · subst h; simp
    · rw [if_neg h]
      obtain ⟨h1, h2⟩ := keyOf_spec value zero rest
      refine ⟨fun ht => List.mem_cons_of_mem _ (h1 ht), fun hf => ⟨(h2 hf).1, ?_⟩⟩
      rintro ⟨k', hk⟩
      rw [List.mem_cons] at hk
      cases hk with
      | inl he => exact absurd (Prod.mk.inj he).2.symm h
      | inr hm => exact (h2 hf).2 ⟨k', hm⟩

theorem mapGet_isSome_iff [DecidableEq κ] (key : κ) :
    ∀ m : List (κ × ν), (Func.mapGet m key).isSome = true ↔ ∃ v, (key, v) ∈ m
  | [] => by simp [Func.mapGet]
  | (k, x) :: rest => by
    rw [Func.mapGet]
    by_cases h : k = key
    · subst h; simp only [if_true, Option.isSome_some, true_iff]; exact ⟨x, List.mem_cons_self⟩
    · rw [if_neg h, mapGet_isSome_iff key rest]
      constructor
      · rintro ⟨v, hv⟩; exact ⟨v, List.mem_cons_of_mem _ hv⟩
      · rintro ⟨v, hv⟩
        rw [List.mem_cons] at hv
        cases hv with
        | inl he => exact absurd (Prod.mk.inj he).1.symm h
        | inr hm => exact ⟨v, hm⟩

/-- for a key-duplicate-free association list, lookup is membership -/
theorem mapGet_eq_some_iff [DecidableEq κ] (key : κ) (v : ν) :
    ∀ m : List (κ × ν), (m.map (·.1)).Nodup → (Func.mapGet m key = some v ↔ (key, v) ∈ m)
  | [], _ => by simp [Func.mapGet]
  | (k, x) :: rest, hnd => by
    rw [List.map_cons, List.nodup_cons] at hnd
    rw [Func.mapGet]
    by_cases h : k = key
    · subst h
      simp only [if_true, Option.some.injEq, List.mem_cons, Prod.mk.injEq, true_and]
      constructor
      · intro e; exact Or.inl e.symm
      · rintro (e | hm)
        · exact e.symm
        · exact absurd (List.mem_map.mpr ⟨(k, v), hm, rfl⟩) hnd.1
    · rw [if_neg h, mapGet_eq_some_iff key v rest hnd.2, List.mem_cons]
      constructor
      · exact Or.inr
      · rintro (e | hm)
        · exact absurd (Prod.mk.inj e).1.symm h
        · exact hm

theorem mapGet_none_of_not_mem [DecidableEq κ] (key : κ) :
    ∀ m : List (κ × ν), key ∉ m.map (·.1) → Func.mapGet m key = none
  | [], _ => rfl
  | (k, x) :: rest, h => by
    rw [List.map_cons, List.mem_cons, not_or] at h
    rw [Func.mapGet, if_neg (fun e => h.1 e.symm), mapGet_none_of_not_mem key rest h.2]

/-- Clone: looking a key up in the clone is looking it up in the iterated entries (no duplicate keys) -/
theorem mcloneLoop_get [DecidableEq κ] (key : κ) :
    ∀ (it newMap : List (κ × ν)), (it.map (·.1)).Nodup →
      Func.mapGet (Func.mcloneLoop it newMap) key =
        match Func.mapGet it key with
        | some v => some v
        | none => Func.mapGet newMap key
  | [], _, _ => rfl
  | (k, v) :: rest, newMap, hnd => by
    rw [List.map_cons, List.nodup_cons] at hnd
    rw [Func.mcloneLoop, mcloneLoop_get key rest _ hnd.2, mapGet_mapSet, Func.mapGet]
    by_cases h : k = key
    · subst h
      rw [mapGet_none_of_not_mem k rest hnd.1]
      simp
    · have : ¬ key = k := fun e => h e.symm
      simp [h, this]

theorem mapSet_keys_nodup [DecidableEq κ] (key : κ) (v : ν) :
    ∀ m : List (κ × ν), (Func.mapSet m key v).map (·.1) = if key ∈ m.map (·.1) then m.map (·.1) else m.map (·.1) ++ [key]
  | [] => by simp [Func.mapSet]
  | (k, x) :: rest => by
    rw [Func.mapSet]
    by_cases h : k = key
    · subst h; simp
    · have : ¬ key = k := fun e => h e.symm
      rw [if_neg h, List.map_cons, mapSet_keys_nodup key v rest]
      by_cases hm : key ∈ rest.map (·.1)
      · simp [hm]
      · simp [hm, this]

theorem mcloneLoop_nodup [DecidableEq κ] :
    ∀ (it newMap : List (κ × ν)), (newMap.map (·.1)).Nodup → ((Func.mcloneLoop it newMap).map (·.1)).Nodup
  | [], _, h => h
  | (k, v) :: rest, newMap, h => by
    rw [Func.mcloneLoop]
    apply mcloneLoop_nodup rest
    rw [mapSet_keys_nodup]
    by_cases hm : k ∈ newMap.map (·.1)
    · rw [if_pos hm]; exact h
    · rw [if_neg hm]
      rw [List.nodup_append]
      refine ⟨h, by simp, ?_⟩
      intro a ha b hb
      rw [List.mem_singleton] at hb
      subst hb
      exact fun e => hm (e ▸ ha)

/-- Clear: whatever survives is an entry whose key was never visited -/
theorem mapDelete_mem [DecidableEq κ] (key : κ) :
    ∀ (m : List (κ × ν)) (p : κ × ν), (m.map (·.1)).Nodup → p ∈ Func.mapDelete m key → p ∈ m ∧ p.1 ≠ key
  | [], p, _, h => by simp [Func.mapDelete] at h
  | (k, x) :: rest, p, hnd, h => by
    rw [List.map_cons, List.nodup_cons] at hnd
    rw [Func.mapDelete] at h
    by_cases hk : k = key
    · subst hk
      rw [if_pos rfl] at h
      refine ⟨List.mem_cons_of_mem _ h, ?_⟩
      intro e
      exact hnd.1 (List.mem_map.mpr ⟨p, h, e⟩)
    · rw [if_neg hk, List.mem_cons] at h
      cases h with
      | inl e => subst e; exact ⟨List.mem_cons_self, hk⟩
      | inr hm =>
        obtain ⟨h1, h2⟩ := mapDelete_mem key rest p hnd.2 hm
        exact ⟨List.mem_cons_of_mem _ h1, h2⟩

theorem mapDelete_nodup [DecidableEq κ] (key : κ) :
    ∀ (m : List (κ × ν)), (m.map (·.1)).Nodup → ((Func.mapDelete m key).map (·.1)).Nodup
  | [], h => h
  | (k, x) :: rest, hnd => by
    rw [List.map_cons, List.nodup_cons] at hnd
    rw [Func.mapDelete]
    by_cases hk : k = key
    · rw [if_pos hk]; exact hnd.2
    · rw [if_neg hk, List.map_cons, List.nodup_cons]
      refine ⟨?_, mapDelete_nodup key rest hnd.2⟩
      intro hm
      obtain ⟨p, hp, e⟩ := List.mem_map.mp hm
      have := (mapDelete_mem key rest p hnd.2 hp).1
      exact hnd.1 (List.mem_map.mpr ⟨p, this, e⟩)

theorem mclear_mem [DecidableEq κ] :
    ∀ (it m : List (κ × ν)) (p : κ × ν), (m.map (·.1)).Nodup → p ∈ Func.mclear it m →
      p ∈ m ∧ p.1 ∉ it.map (·.1)
  | [], m, p, _, h => ⟨h, by simp⟩
  | (k, v) :: rest, m, p, hnd, h => by
    rw [Func.mclear] at h
    obtain ⟨h1, h2⟩ := mclear_mem rest _ p (mapDelete_nodup k m hnd) h
    obtain ⟨h3, h4⟩ := mapDelete_mem k m p hnd h1
    refine ⟨h3, ?_⟩
    rw [List.map_cons, List.mem_cons, not_or]
    exact ⟨h4, h2⟩

end TypVerif.Lemmas.Func
