import TypVerif.Lemmas.PubSubSafeTask
/-
`Safe` is preserved by the first step of a publish call (RLock; spawn the senders).
-/
namespace TypVerif.Lemmas.PubSubSafe
open TypVerif TypVerif.Model.PubSub

theorem countP_wgSend_map (w W : Nat) (items : List Item) :
    (items.map (fun it => Task.wgSend 0 W it false)).countP (isWgSend w) = if W = w then items.length else 0 := by
  induction items with
  | nil => simp
  | cons it rest ih =>
    simp only [List.map_cons, List.countP_cons, ih, isWgSend, List.length_cons]
    by_cases h : W = w
    · simp [h]
    · simp [h]

theorem countP_holdsRead_wgSend_map (W : Nat) (items : List Item) :
    (items.map (fun it => Task.wgSend 0 W it false)).countP holdsRead = 0 := by
  rw [List.countP_eq_zero]; intro t ht
  simp only [List.mem_map] at ht
  obtain ⟨_, _, rfl⟩ := ht
  simp [holdsRead]

theorem getD_append_one (l : List Nat) (n w : Nat) :
    (l ++ [n]).getD w 0 = if w = l.length then n else l.getD w 0 := by
  simp only [List.getD_eq_getElem?_getD]
  rcases Nat.lt_trichotomy w l.length with h | h | h
  · rw [List.getElem?_append_left h]; simp [Nat.ne_of_lt h]
  · subst h; simp
  · have h1 : l.length ≤ w := Nat.le_of_lt h
    rw [List.getElem?_append_right h1]
    have h2 : w - l.length ≠ 0 := by omega
    have h3 : ¬ w < l.length := by omega
    simp [Nat.ne_of_gt h, List.getElem?_eq_none (Nat.le_of_lt h)]
    cases hk : w - l.length with
    | zero => omega
    | succ k => simp


theorem safe_pub_wait {s : State} {i p : Nat} {v : Variant} {evs : List Int} (items : List Item) (hs : Safe s)
    (hi : s.tasks[i]? = some (.pubStart p 0 v evs)) (hit : ∀ it ∈ items, it.c ∈ (s.obj 0).subs) :
    Safe (({ (s.rlock 0) with wgs := s.wgs ++ [items.length] }.setTask i (.waitWg p 0 s.wgs.length)).spawn
        (items.map (fun it => .wgSend 0 s.wgs.length it false))) := by
  obtain ⟨r, hr⟩ := objs_eq hs
  have hilt : i < s.tasks.length := by
    rcases Nat.lt_or_ge i s.tasks.length with h | h
    · exact h
    · simp [List.getElem?_eq_none h] at hi
  have hobj0 : (s.obj 0) = r := by simp [State.obj, hr]
  have hW0 : s.tasks.countP (isWgSend s.wgs.length) = 0 := by
    rw [← hs.wgc]; simp [List.getD_eq_getElem?_getD]
  constructor
  · simp [State.spawn, State.setTask, State.rlock, State.setObj, hr]
  · intro t ht
    simp only [State.spawn, State.setTask] at ht
    rcases List.mem_append.mp ht with h | h
    · exact forall_set objOk _ _ _ hs.obj0 (show objOk (.waitWg p 0 s.wgs.length) from rfl) t h
    · simp only [List.mem_map] at h; obtain ⟨_, _, rfl⟩ := h; rfl
  · have h1 := countP_set_eq holdsRead s.tasks i _ (.waitWg p 0 s.wgs.length) hi
    have h2 := hs.readers
    simp only [hobj0] at h2
    simp only [State.spawn, State.setTask, State.rlock, State.setObj, State.obj, hr, List.set_cons_zero,
      List.getD_cons_zero, RW.rlock, List.countP_append, countP_holdsRead_wgSend_map]
    simp [holdsRead] at h1
    omega
  · intro c hc
    have hc' : c ∈ (s.obj 0).subs := by
      simpa [State.spawn, State.setTask, State.rlock, State.setObj, State.obj, hr] using hc
    exact hs.opn c hc'
  · have := hs.nodup
    simpa [State.spawn, State.setTask, State.rlock, State.setObj, State.obj, hr] using this
  · intro c hc
    have hc' : c ∈ (s.obj 0).subs := by
      simpa [State.spawn, State.setTask, State.rlock, State.setObj, State.obj, hr] using hc
    exact hs.exist c hc'
  · intro t ht c hc
    have hgoal : c ∈ (s.obj 0).subs := by
      simp only [State.spawn, State.setTask] at ht
      rcases List.mem_append.mp ht with h | h
      · exact forall_set (fun t => ∀ c ∈ targets t, c ∈ (s.obj 0).subs) _ _ _ hs.targ
          (by intro c h; simp [targets] at h) t h c hc
      · simp only [List.mem_map] at h; obtain ⟨it, hit', rfl⟩ := h
        simp only [targets, List.mem_singleton] at hc
        subst hc; exact hit it hit'
    simpa [State.spawn, State.setTask, State.rlock, State.setObj, State.obj, hr] using hgoal
  · intro w
    have h1 := countP_set_eq (isWgSend w) s.tasks i _ (.waitWg p 0 s.wgs.length) hi
    have h2 := hs.wgc w
    show (s.wgs ++ [items.length]).getD w 0
      = ((s.tasks.set i (.waitWg p 0 s.wgs.length)) ++ items.map (fun it => Task.wgSend 0 s.wgs.length it false)).countP (isWgSend w)
    rw [List.countP_append, countP_wgSend_map, getD_append_one]
    simp only [isWgSend, Bool.false_eq_true, if_false, Nat.add_zero] at h1
    by_cases hw : w = s.wgs.length
    · subst hw; rw [if_pos rfl, if_pos rfl]; omega
    · have hw' : ¬ s.wgs.length = w := fun h => hw h.symm
      rw [if_neg hw, if_neg hw']; omega
  · intro w hw
    have hw : 0 < (s.wgs ++ [items.length]).getD w 0 := hw
    show ∃ t ∈ (s.tasks.set i (.waitWg p 0 s.wgs.length)) ++ items.map (fun it => Task.wgSend 0 s.wgs.length it false), _
    rw [getD_append_one] at hw
    by_cases hwl : w = s.wgs.length
    · subst hwl
      exact ⟨.waitWg p 0 s.wgs.length, List.mem_append.mpr (Or.inl (List.mem_set hilt _)), by simp [isWaitWg]⟩
    · simp only [hwl, if_false] at hw
      obtain ⟨t, ht, hq⟩ := exists_set (isWaitWg w) s.tasks i _ (.waitWg p 0 s.wgs.length) hi (hs.wgw w hw)
        (by intro h; simp [isWaitWg] at h)
      exact ⟨t, List.mem_append.mpr (Or.inl ht), hq⟩
  · exact hs.nopanic


theorem safe_pub_sync {s : State} {i p : Nat} {v : Variant} {evs : List Int} (items : List Item) (hs : Safe s)
    (hi : s.tasks[i]? = some (.pubStart p 0 v evs)) (hit : ∀ it ∈ items, it.c ∈ (s.obj 0).subs) :
    Safe ((s.rlock 0).setTask i (.syncLoop p 0 items false)) := by
  obtain ⟨r, hr⟩ := objs_eq hs
  refine safe_replace (t' := .syncLoop p 0 items false) hs hi rfl ?_ ?_ ?_ (fun _ => rfl) (fun _ h => h) ?_ ?_ ?_
    rfl ?_ hs.nopanic
  · simp [State.setTask, State.rlock, State.setObj, hr]
  · simp [State.setTask, State.rlock, State.setObj, State.obj, hr]
  · simp [State.setTask, State.rlock, State.setObj, State.obj, hr, holdsRead, RW.rlock]
  · intro w; simp [State.setTask, State.rlock, State.setObj, isWgSend]
  · intro w h; simp [isWgSend] at h
  · intro w h; simp [isWaitWg] at h
  · intro c hc
    simp only [targets, List.mem_map] at hc
    obtain ⟨it, hit', rfl⟩ := hc
    exact hit it hit'

theorem safe_stepPubStart {s s' : State} {i p : Nat} {v : Variant} {evs : List Int} {l : Option Event}
    (hs : Safe s) (hi : s.tasks[i]? = some (.pubStart p 0 v evs))
    (h : (l, s') ∈ stepPubStart s i p 0 v evs) : Safe s' := by
  have hit : ∀ it ∈ mkItems p evs (s.obj 0).subs, it.c ∈ (s.obj 0).subs := fun it h => mkItems_c_mem h
  unfold stepPubStart at h
  split at h
  · simp at h
  · simp only at h
    split at h
    · split at h
      · simp only [List.mem_singleton, Prod.mk.injEq] at h
        obtain ⟨_, rfl⟩ := h
        exact safe_setTask_inert hs hi rfl rfl (fun _ => rfl) (fun _ => rfl) (fun _ => rfl) trivial rfl
      · simp only [List.mem_singleton, Prod.mk.injEq] at h
        obtain ⟨_, rfl⟩ := h
        exact safe_pub_sync _ hs hi hit
    · split at h
      · simp only [List.mem_singleton, Prod.mk.injEq] at h
        obtain ⟨_, rfl⟩ := h
        exact safe_pub_wait _ hs hi hit
      · simp only [List.mem_singleton, Prod.mk.injEq] at h
        obtain ⟨_, rfl⟩ := h
        have h1 : Safe (s.setTask i (.pubRet p)) :=
          safe_setTask_inert hs hi rfl rfl (fun _ => rfl) (fun _ => rfl) (fun _ => rfl) trivial rfl
        refine safe_spawn _ h1 ?_ ?_ ?_ ?_ <;>
        · intro t ht
          simp only [List.mem_map] at ht
          obtain ⟨_, _, rfl⟩ := ht
          first | rfl | (intro w; rfl)

end TypVerif.Lemmas.PubSubSafe
