import TypVerif.Lemmas.PubSubLogDefs
/-
Every step of `sys cfg` is a `BStep` (bookkeeping summary of the step).
-/
namespace TypVerif.Lemmas.PubSubLog
open TypVerif TypVerif.Model.PubSub TypVerif.Lemmas.PubSubSafe

/-- the shape of the summary of a task step -/
def TSum (cfg : Cfg) (s s' : State) (i : Nat) (t : Task) : Prop :=
  ∃ t' new dl tl, TStep cfg s t t' new dl tl ∧ s'.tasks = s.tasks.set i t' ++ new ∧
    s'.delivered = s.delivered ++ dl ∧ s'.timedOut = s.timedOut ++ tl ∧ s'.pids = s.pids

theorem tsum_stuck {cfg : Cfg} {s : State} {i : Nat} {t : Task} (m : String) (hi : s.tasks[i]? = some t)
    (hn : isPub t = false := by rfl) : TSum cfg s (s.panic m) i t :=
  ⟨t, [], [], [], .stuck t hn, by simp [State.panic, set_self _ _ _ hi], by simp [State.panic], by simp [State.panic], rfl⟩

/-- a step that only replaces the task by a control task -/
theorem tsum_ctl {cfg : Cfg} {s s' : State} {i : Nat} {t t' : Task} (h1 : isCtl t = true) (h2 : isCtl t' = true)
    (ht : s'.tasks = s.tasks.set i t') (hd : s'.delivered = s.delivered) (hto : s'.timedOut = s.timedOut)
    (hp : s'.pids = s.pids) : TSum cfg s s' i t :=
  ⟨t', [], [], [], .ctl h1 h2, by simp [ht], by simp [hd], by simp [hto], hp⟩

theorem tsum_syncLoop {cfg : Cfg} {s s' : State} {i p o : Nat} {work : List Item} {cb : Bool} {l : Option Event}
    (hi : s.tasks[i]? = some (.syncLoop p o work cb)) (h : (l, s') ∈ stepSyncLoop cfg s i p o work cb) :
    TSum cfg s s' i (.syncLoop p o work cb) := by
  cases work with
  | nil => simp [stepSyncLoop] at h
  | cons it rest =>
    simp only [stepSyncLoop] at h
    rcases mem_stepSend' h with ⟨rfl, rfl⟩ | ⟨rfl, s1, hst, rfl⟩ | ⟨rfl, rfl⟩ | ⟨rfl, htm, rfl⟩
    · obtain ⟨h1, h2, h3, h4⟩ := syncAdvance_book i p o rest s
      exact ⟨_, [], [], [], .syncCb p o it rest, by simp [h1], by simp [h2], by simp [h3], h4⟩
    · obtain ⟨h1, h2, h3, h4⟩ := syncAdvance_book i p o rest s1
      obtain ⟨g1, g2, g3, g4, _⟩ := sendTo_sent_book hst
      exact ⟨_, [], [key it], [], .syncSent p o it rest, by simp [h1, g1], by simp [h2, g2], by simp [h3, g3],
        by rw [h4, g4]⟩
    · exact tsum_stuck _ hi
    · exact ⟨_, [], [], [key it], .syncTmo p o it rest htm, by simp [State.setTask, State.logTimeout],
        by simp [State.setTask, State.logTimeout], by simp [State.setTask, State.logTimeout, key], rfl⟩

theorem tsum_asyncSend {cfg : Cfg} {s s' : State} {i o : Nat} {it : Item} {cb : Bool} {l : Option Event}
    (hi : s.tasks[i]? = some (.asyncSend o it cb)) (h : (l, s') ∈ stepAsyncSend cfg s i o it cb) :
    TSum cfg s s' i (.asyncSend o it cb) := by
  simp only [stepAsyncSend] at h
  rcases mem_stepSend' h with ⟨rfl, rfl⟩ | ⟨rfl, s1, hst, rfl⟩ | ⟨rfl, rfl⟩ | ⟨rfl, htm, rfl⟩
  · exact ⟨_, [], [], [], .asyncCb o it, by simp [State.setTask, State.runlock, State.setObj],
      by simp [State.setTask, State.runlock, State.setObj], by simp [State.setTask, State.runlock, State.setObj], rfl⟩
  · obtain ⟨g1, g2, g3, g4, _⟩ := sendTo_sent_book hst
    exact ⟨_, [], [key it], [], .asyncSent o it, by simp [State.setTask, State.runlock, State.setObj, g1],
      by simp [State.setTask, State.runlock, State.setObj, g2],
      by simp [State.setTask, State.runlock, State.setObj, g3],
      by simp [State.setTask, State.runlock, State.setObj, g4]⟩
  · exact tsum_stuck _ hi
  · exact ⟨_, [], [], [key it], .asyncTmo o it htm, by simp [State.setTask, State.logTimeout],
      by simp [State.setTask, State.logTimeout], by simp [State.setTask, State.logTimeout, key], rfl⟩

theorem tsum_wgSend {cfg : Cfg} {s s' : State} {i o w : Nat} {it : Item} {cb : Bool} {l : Option Event}
    (hi : s.tasks[i]? = some (.wgSend o w it cb)) (h : (l, s') ∈ stepWgSend cfg s i o w it cb) :
    TSum cfg s s' i (.wgSend o w it cb) := by
  simp only [stepWgSend] at h
  rcases mem_stepSend' h with ⟨rfl, rfl⟩ | ⟨rfl, s1, hst, rfl⟩ | ⟨rfl, rfl⟩ | ⟨rfl, htm, rfl⟩
  · obtain ⟨h1, h2, h3, h4⟩ := wgDone_book s w
    exact ⟨_, [], [], [], .wgCb o w it, by simp [State.setTask, h1], by simp [State.setTask, h2],
      by simp [State.setTask, h3], by simp [State.setTask, h4]⟩
  · obtain ⟨h1, h2, h3, h4⟩ := wgDone_book s1 w
    obtain ⟨g1, g2, g3, g4, _⟩ := sendTo_sent_book hst
    exact ⟨_, [], [key it], [], .wgSent o w it, by simp [State.setTask, h1, g1], by simp [State.setTask, h2, g2],
      by simp [State.setTask, h3, g3], by simp [State.setTask, h4, g4]⟩
  · exact tsum_stuck _ hi
  · exact ⟨_, [], [], [key it], .wgTmo o w it htm, by simp [State.setTask, State.logTimeout],
      by simp [State.setTask, State.logTimeout], by simp [State.setTask, State.logTimeout, key], rfl⟩

theorem tsum_pubStart {cfg : Cfg} {s s' : State} {i p o : Nat} {v : Variant} {evs : List Int} {l : Option Event}
    (h : (l, s') ∈ stepPubStart s i p o v evs) : TSum cfg s s' i (.pubStart p o v evs) := by
  unfold stepPubStart at h
  split at h
  · simp at h
  · simp only at h
    split at h
    · rename_i hv
      split at h
      · rename_i hitems
        simp only [List.mem_singleton, Prod.mk.injEq] at h
        obtain ⟨_, rfl⟩ := h
        refine ⟨_, [], [], [], .pubSync p o v evs hv, ?_, by simp [State.setTask], by simp [State.setTask], rfl⟩
        rw [hitems]; simp [State.setTask, syncNext]
      · rename_i a b hitems
        simp only [List.mem_singleton, Prod.mk.injEq] at h
        obtain ⟨_, rfl⟩ := h
        refine ⟨_, [], [], [], .pubSync p o v evs hv, ?_, by simp [State.setTask, State.rlock, State.setObj],
          by simp [State.setTask, State.rlock, State.setObj], rfl⟩
        rw [hitems]; simp [State.setTask, State.rlock, State.setObj, syncNext]
    · rename_i hv
      have hv' : v.isSync = false := by simpa using hv
      split at h
      · rename_i hw
        simp only [List.mem_singleton, Prod.mk.injEq] at h
        obtain ⟨_, rfl⟩ := h
        exact ⟨_, _, [], [], .pubWait p o v evs hv' hw, by simp [State.setTask, State.spawn, State.rlock, State.setObj],
          by simp [State.setTask, State.spawn, State.rlock, State.setObj],
          by simp [State.setTask, State.spawn, State.rlock, State.setObj], rfl⟩
      · rename_i hw
        have hw' : v.isWait = false := by simpa using hw
        simp only [List.mem_singleton, Prod.mk.injEq] at h
        obtain ⟨_, rfl⟩ := h
        exact ⟨_, _, [], [], .pubAsync p o v evs hv' hw', by simp [State.setTask, State.spawn],
          by simp [State.setTask, State.spawn], by simp [State.setTask, State.spawn], rfl⟩

theorem tsum_asyncStart {cfg : Cfg} {s s' : State} {i o : Nat} {it : Item} {l : Option Event}
    (h : (l, s') ∈ stepAsyncStart s i o it) : TSum cfg s s' i (.asyncStart o it) := by
  unfold stepAsyncStart at h
  split at h
  · simp at h
  · split at h
    · rename_i hmem
      simp only [List.mem_singleton, Prod.mk.injEq] at h
      obtain ⟨_, rfl⟩ := h
      exact ⟨_, [], [], [], .asyncGo o it hmem, by simp [State.setTask, State.rlock, State.setObj],
        by simp [State.setTask, State.rlock, State.setObj], by simp [State.setTask, State.rlock, State.setObj], rfl⟩
    · rename_i hmem
      simp only [List.mem_singleton, Prod.mk.injEq] at h
      obtain ⟨_, rfl⟩ := h
      exact ⟨_, [], [], [], .asyncDrop o it hmem, by simp [State.setTask], by simp [State.setTask],
        by simp [State.setTask], rfl⟩

theorem tsum_waitWg {cfg : Cfg} {s s' : State} {i p o w : Nat} {l : Option Event}
    (h : (l, s') ∈ stepWaitWg s i p o w) : TSum cfg s s' i (.waitWg p o w) := by
  unfold stepWaitWg at h
  split at h
  · rename_i hz
    have hz' : s.wgs.getD w 0 = 0 := by simpa using hz
    simp only [List.mem_singleton, Prod.mk.injEq] at h
    obtain ⟨_, rfl⟩ := h
    exact ⟨_, [], [], [], .waitRet p o w hz', by simp [State.setTask, State.runlock, State.setObj],
      by simp [State.setTask, State.runlock, State.setObj], by simp [State.setTask, State.runlock, State.setObj], rfl⟩
  · simp at h

theorem tsum_subWait {cfg : Cfg} {s s' : State} {i o c cap : Nat} {l : Option Event}
    (h : (l, s') ∈ stepSubWait s i o c cap) : TSum cfg s s' i (.subWait o c cap) := by
  unfold stepSubWait at h
  split at h
  · simp at h
  · simp only [List.mem_singleton, Prod.mk.injEq] at h
    obtain ⟨_, rfl⟩ := h
    exact tsum_ctl rfl (t' := .subRet c) rfl rfl rfl rfl rfl

theorem tsum_unsubWait {cfg : Cfg} {s s' : State} {i u o c : Nat} {l : Option Event}
    (hi : s.tasks[i]? = some (.unsubWait u o c))
    (h : (l, s') ∈ stepUnsubWait s i u o c) : TSum cfg s s' i (.unsubWait u o c) := by
  unfold stepUnsubWait at h
  split at h
  · simp at h
  · split at h
    · split at h
      · simp only [List.mem_singleton, Prod.mk.injEq] at h
        obtain ⟨_, rfl⟩ := h
        exact tsum_stuck _ hi
      · simp only [List.mem_singleton, Prod.mk.injEq] at h
        obtain ⟨_, rfl⟩ := h
        exact tsum_ctl rfl (t' := .unsubRet u .nil) rfl rfl rfl rfl rfl
    · simp only [List.mem_singleton, Prod.mk.injEq] at h
      obtain ⟨_, rfl⟩ := h
      exact tsum_ctl rfl (t' := .unsubRet u .already) rfl rfl rfl rfl rfl

theorem tsum_uaWait {cfg : Cfg} {s s' : State} {i u o : Nat} {l : Option Event}
    (hi : s.tasks[i]? = some (.uaWait u o))
    (h : (l, s') ∈ stepUaWait s i u o) : TSum cfg s s' i (.uaWait u o) := by
  unfold stepUaWait at h
  split at h
  · simp at h
  · split at h
    · simp only [List.mem_singleton, Prod.mk.injEq] at h
      obtain ⟨_, rfl⟩ := h
      exact tsum_stuck _ hi
    · simp only [List.mem_singleton, Prod.mk.injEq] at h
      obtain ⟨_, rfl⟩ := h
      exact tsum_ctl rfl (t' := .uaRet u) rfl rfl rfl rfl rfl

theorem tsum_woStart {cfg : Cfg} {s s' : State} {i w o c : Nat} {l : Option Event}
    (h : (l, s') ∈ stepWoStart s i w o c) : TSum cfg s s' i (.woStart w o c) := by
  unfold stepWoStart at h
  split at h
  · simp at h
  · simp only [List.mem_singleton, Prod.mk.injEq] at h
    obtain ⟨_, rfl⟩ := h
    exact tsum_ctl rfl (t' := .done) rfl rfl rfl rfl rfl

/-- every step of a task is one of the `TStep` transitions -/
theorem stepTask_tsum {cfg : Cfg} {s s' : State} {i : Nat} {t : Task} {l : Option Event}
    (hi : s.tasks[i]? = some t) (h : (l, s') ∈ stepTask cfg s i t) : TSum cfg s s' i t := by
  cases t with
  | pubStart p o v evs => exact tsum_pubStart h
  | syncLoop p o work cb => exact tsum_syncLoop hi h
  | waitWg p o w => exact tsum_waitWg h
  | pubRet p =>
    simp only [stepTask, List.mem_singleton, Prod.mk.injEq] at h
    obtain ⟨_, rfl⟩ := h
    exact ⟨_, [], [], [], .ret p, by simp [State.setTask], by simp [State.setTask], by simp [State.setTask], rfl⟩
  | asyncStart o it => exact tsum_asyncStart h
  | asyncSend o it cb => exact tsum_asyncSend hi h
  | wgSend o w it cb => exact tsum_wgSend hi h
  | subStart o c cap =>
    simp only [stepTask, List.mem_singleton, Prod.mk.injEq] at h
    obtain ⟨_, rfl⟩ := h
    exact tsum_ctl rfl (t' := .subWait o c cap) rfl rfl rfl rfl rfl
  | subWait o c cap => exact tsum_subWait h
  | subRet c =>
    simp only [stepTask, List.mem_singleton, Prod.mk.injEq] at h
    obtain ⟨_, rfl⟩ := h
    exact tsum_ctl rfl (t' := .done) rfl rfl rfl rfl rfl
  | unsubStart u o c =>
    cases c with
    | none =>
      simp only [stepTask, List.mem_singleton, Prod.mk.injEq] at h
      obtain ⟨_, rfl⟩ := h
      exact tsum_ctl rfl (t' := .unsubRet u .notinit) rfl rfl rfl rfl rfl
    | some c =>
      simp only [stepTask, List.mem_singleton, Prod.mk.injEq] at h
      obtain ⟨_, rfl⟩ := h
      exact tsum_ctl rfl (t' := .unsubWait u o c) rfl rfl rfl rfl rfl
  | unsubWait u o c => exact tsum_unsubWait hi h
  | unsubRet u code =>
    simp only [stepTask, List.mem_singleton, Prod.mk.injEq] at h
    obtain ⟨_, rfl⟩ := h
    exact tsum_ctl rfl (t' := .done) rfl rfl rfl rfl rfl
  | uaStart u o =>
    simp only [stepTask, List.mem_singleton, Prod.mk.injEq] at h
    obtain ⟨_, rfl⟩ := h
    exact tsum_ctl rfl (t' := .uaWait u o) rfl rfl rfl rfl rfl
  | uaWait u o => exact tsum_uaWait hi h
  | uaRet u =>
    simp only [stepTask, List.mem_singleton, Prod.mk.injEq] at h
    obtain ⟨_, rfl⟩ := h
    exact tsum_ctl rfl (t' := .done) rfl rfl rfl rfl rfl
  | woStart w o c => exact tsum_woStart h
  | done => simp [stepTask] at h

theorem envStep_bstep {cfg : Cfg} {s s' : State} {e : Event} (h : envStep cfg s e = some s') : BStep cfg s s' := by
  cases e with
  | sub c cap =>
    simp only [envStep] at h
    split at h
    · cases h
    · injection h with h; subst h
      exact .spawnCtl _ (by rfl) rfl rfl rfl rfl
  | mkchan c =>
    simp only [envStep] at h
    split at h
    · cases h
    · injection h with h; subst h
      exact .same rfl rfl rfl rfl
  | withonly w via c =>
    simp only [envStep] at h
    split at h
    · injection h with h; subst h
      exact .spawnCtl _ (by rfl) rfl rfl rfl rfl
    · cases h
  | pubinv p via v evs =>
    simp only [envStep] at h
    split at h
    · cases h
    · rename_i hg
      injection h with h; subst h
      have hp : p ∉ s.pids := by
        simp only [Bool.or_eq_true, not_or] at hg
        simpa using hg.1
      exact .invoke p via v evs hp rfl rfl rfl rfl
  | allow c n =>
    simp only [envStep] at h
    split at h
    · injection h with h; subst h
      exact .same rfl rfl rfl rfl
    · cases h
  | unsubinv u via c =>
    simp only [envStep] at h
    split at h
    · injection h with h; subst h
      exact .spawnCtl _ (by rfl) rfl rfl rfl rfl
    · cases h
  | unsuballinv u via =>
    simp only [envStep] at h
    split at h
    · injection h with h; subst h
      exact .spawnCtl _ (by rfl) rfl rfl rfl rfl
    · cases h
  | _ => simp [envStep] at h

theorem recvSteps_bstep {cfg : Cfg} {s s' : State} {ch : ChanSt} {l : Option Event}
    (h : (l, s') ∈ recvSteps s ch) : BStep cfg s s' := by
  unfold recvSteps at h
  split at h
  · simp at h
  · split at h
    · simp only [List.mem_singleton, Prod.mk.injEq] at h
      obtain ⟨_, rfl⟩ := h
      exact .same rfl rfl rfl rfl
    · split at h
      · simp at h
      · split at h
        · simp only [List.mem_singleton, Prod.mk.injEq] at h
          obtain ⟨_, rfl⟩ := h
          exact .same rfl rfl rfl rfl
        · split at h
          · simp only [List.mem_singleton, Prod.mk.injEq] at h
            obtain ⟨_, rfl⟩ := h
            exact .same rfl rfl rfl rfl
          · simp at h

/-- every step of the system is a bookkeeping step -/
theorem succ_bstep {cfg : Cfg} {s s' : State} {l : Option Event} (h : (l, s') ∈ succ cfg s) : BStep cfg s s' := by
  unfold succ at h
  split at h
  · simp at h
  · split at h
    · simp only [List.mem_singleton, Prod.mk.injEq] at h
      obtain ⟨_, rfl⟩ := h
      exact .same rfl rfl rfl rfl
    · simp only [List.mem_append] at h
      rcases h with ((h | h) | h) | h
      · simp only [envSteps, List.mem_filterMap] at h
        obtain ⟨e, _, he⟩ := h
        cases hes : envStep cfg s e with
        | none => simp [hes] at he
        | some s1 =>
          simp [hes] at he
          obtain ⟨_, rfl⟩ := he
          exact envStep_bstep hes
      · simp only [List.mem_flatMap, List.mem_range] at h
        obtain ⟨i, _, hi⟩ := h
        unfold taskSteps at hi
        split at hi
        · simp at hi
        · rename_i t ht
          obtain ⟨t', new, dl, tl, h1, h2, h3, h4, h5⟩ := stepTask_tsum ht hi
          exact .task i t t' new dl tl ht h1 h2 h3 h4 h5
      · simp only [List.mem_flatMap] at h
        obtain ⟨ch, _, hch⟩ := h
        exact recvSteps_bstep hch
      · simp only [exitSteps, List.mem_map] at h
        obtain ⟨r, _, hr⟩ := h
        injection hr with _ hr; subst hr
        exact .same rfl rfl rfl rfl

end TypVerif.Lemmas.PubSubLog
