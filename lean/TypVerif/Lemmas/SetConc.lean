import TypVerif.Lemmas.SmcStep
import TypVerif.Lemmas.AtomicObj
import TypVerif.Lemmas.AtomicSet
/-
C05, concurrent half: `sync2.Set` is an atomic set under every schedule.

`Set[T]` wraps `Map[T, struct{}]`; `Add(v) = !loaded of LoadOrStore(v, struct{}{})`, `Remove(v) = loaded of
LoadAndDelete(v)`, `Has(v) = ok of Load(v)`.  A concurrent execution of Add/Remove/Has IS an execution of the step-level
map model (`Model.SyncMapConc`) with `V := Unit`, `zst := true` and a menu of `.loadOrStore v ()`, `.loadAndDelete v`,
`.load v`; the Set-level result is a function of the map-level result and of the operation.

* `setSpec`            the sequential set (`Spec.AtomicSet.sstep`) as an `AtomicObj.Spec`.
* `toSetOp`/`toSetRes`  translation of calls and results; `setHist` / `setLog`: translation of histories / logs (a response
                       is translated using the operation of the most recent invocation of the same goroutine).
* `sstep_hom`          `φ m v := (m v).isSome` is a homomorphism from the map specification to the set specification.
* `transfer`           `Linearizable (mapSpec α Unit) h → (all invocations set-shaped) → Linearizable (setSpec α) (setHist h)`.
* `seqRun_srun`        `SeqRun (setSpec α)` is `Spec.AtomicSet.srun`.
* `calls_inv`          in a well-formed log, completed calls + in-flight calls = linearization entries (by count);
                       `add_once_log`: without `Remove v`, at most one completed `Add v` reports success.
-/
namespace TypVerif.Lemmas.SetConc
open TypVerif TypVerif.Conc TypVerif.Model TypVerif.Model.AtomicObj
open TypVerif.Model.SyncMapConc (Op Res)
open TypVerif.Spec.AtomicSet
open TypVerif.Lemmas.Smc (mapSpec applyOp put del evOf)
open TypVerif.Lemmas.AtomicObj

set_option linter.unusedSectionVars false
set_option linter.unusedVariables false
set_option linter.unusedSimpArgs false

/-! ### generic facts about well-formed logs -/
section Generic
variable {Op Res : Type}

/-- the operation of the most recent invocation of goroutine `t` in a (newest-first) log -/
def lastInv (t : Nat) : List (Entry Op Res) → Option Op
  | [] => none
  | .inv t' op :: rest => if t' = t then some op else lastInv t rest
  | .lin _ _ _ :: rest => lastInv t rest
  | .res _ _ :: rest => lastInv t rest

/-- the same on a (newest-first) list of visible events -/
def lastInvE (t : Nat) : List (Event Op Res) → Option Op
  | [] => none
  | .inv t' op :: rest => if t' = t then some op else lastInvE t rest
  | .res _ _ :: rest => lastInvE t rest

theorem lastInvE_events (t : Nat) (log : List (Entry Op Res)) :
    lastInvE t (log.filterMap Entry.event?) = lastInv t log := by
  induction log with
  | nil => rfl
  | cons e rest ih =>
    cases e with
    | inv t' op =>
      show lastInvE t (Event.inv t' op :: rest.filterMap Entry.event?) = _
      simp only [lastInvE, lastInv, ih]
    | lin t' op r => exact ih
    | res t' r =>
      show lastInvE t (Event.res t' r :: rest.filterMap Entry.event?) = _
      simp only [lastInvE, lastInv, ih]

theorem lastInv_mem (t : Nat) (op : Op) : ∀ log : List (Entry Op Res), lastInv t log = some op → Entry.inv t op ∈ log := by
  intro log
  induction log with
  | nil => intro h; simp [lastInv] at h
  | cons e rest ih =>
    intro h
    cases e with
    | inv t' op' =>
      simp only [lastInv] at h
      by_cases ht : t' = t
      · rw [if_pos ht] at h
        injection h with h
        subst ht; subst h
        exact List.mem_cons_self
      · rw [if_neg ht] at h
        exact List.mem_cons_of_mem _ (ih h)
    | lin t' op' r => exact List.mem_cons_of_mem _ (ih h)
    | res t' r => exact List.mem_cons_of_mem _ (ih h)

theorem lastInv_cons_other (t : Nat) (e : Entry Op Res) (log : List (Entry Op Res)) (h : e.tid ≠ t) :
    lastInv t (e :: log) = lastInv t log := by
  cases e with
  | inv t' op => simp only [Entry.tid] at h; simp [lastInv, h]
  | lin t' op r => rfl
  | res t' r => rfl

/-- the operation a goroutine is running -/
def curOp : TPc Op Res → Option Op
  | .idle => none
  | .pending op => some op
  | .done op _ => some op

variable [DecidableEq Op] [DecidableEq Res]

theorem runThread_cons (t : Nat) (e : Entry Op Res) (log : List (Entry Op Res)) :
    runThread t (e :: log) =
      match runThread t log with
      | none => none
      | some p => if e.tid = t then advance p e else some p := rfl

theorem threads_tail (e : Entry Op Res) (log : List (Entry Op Res))
    (h : ∀ t, (runThread t (e :: log)).isSome = true) : ∀ t, (runThread t log).isSome = true :=
  fun t => runThread_append_isSome t [e] log (h t)

/-- in a well-formed log the operation a goroutine is running is the one of its most recent invocation -/
theorem lastInv_of_run (t : Nat) : ∀ (log : List (Entry Op Res)) (p : TPc Op Res), runThread t log = some p →
    ∀ op, curOp p = some op → lastInv t log = some op := by
  intro log
  induction log with
  | nil =>
    intro p h op hc
    simp only [runThread] at h
    injection h with h
    subst h
    simp [curOp] at hc
  | cons e rest ih =>
    intro p h op hc
    rw [runThread_cons] at h
    cases hx : runThread t rest with
    | none => rw [hx] at h; simp at h
    | some p0 =>
      rw [hx] at h
      simp only at h
      by_cases het : e.tid = t
      · rw [if_pos het] at h
        cases e with
        | inv t' op' =>
          simp only [Entry.tid] at het
          cases p0 with
          | idle =>
            simp only [advance] at h
            injection h with h
            subst h
            simp only [curOp] at hc
            injection hc with hc
            subst hc
            simp [lastInv, het]
          | pending _ => simp [advance] at h
          | done _ _ => simp [advance] at h
        | lin t' op' r =>
          cases p0 with
          | idle => simp [advance] at h
          | done _ _ => simp [advance] at h
          | pending op0 =>
            simp only [advance] at h
            by_cases ho : op0 = op'
            · rw [if_pos ho] at h
              injection h with h
              subst h
              simp only [curOp] at hc
              injection hc with hc
              subst hc; subst ho
              show lastInv t rest = some op0
              exact ih _ hx _ rfl
            · rw [if_neg ho] at h; simp at h
        | res t' r =>
          cases p0 with
          | idle => simp [advance] at h
          | pending _ => simp [advance] at h
          | done op0 r0 =>
            simp only [advance] at h
            by_cases hr : r0 = r
            · rw [if_pos hr] at h
              injection h with h
              subst h
              simp [curOp] at hc
            · rw [if_neg hr] at h; simp at h
      · rw [if_neg het] at h
        injection h with h
        subst h
        rw [lastInv_cons_other t e rest het]
        exact ih _ hx _ hc

/-- in a well-formed log every linearization entry carries the operation of an earlier invocation; so a property of
all invoked operations is a property of all linearized ones -/
theorem lin_of_inv (P : Op → Prop) (log : List (Entry Op Res)) (hthr : ∀ t, (runThread t log).isSome = true)
    (hinv : ∀ t op, Entry.inv t op ∈ log → P op) : ∀ t op r, Entry.lin t op r ∈ log → P op := by
  intro t op r hmem
  obtain ⟨post, pre, rfl⟩ := List.append_of_mem hmem
  obtain ⟨hpre, _⟩ := lin_in_interval t op r pre post (hthr t)
  have h1 := lastInv_of_run t pre _ hpre op rfl
  have h2 := lastInv_mem t op pre h1
  exact hinv t op (List.mem_append_right _ (List.mem_cons_of_mem _ h2))

theorem seqRun_nil_inv {S : Spec} {σ : S.σ} (h : SeqRun S [] σ) : σ = S.init := by
  cases h; rfl

theorem seqRun_cons_inv {S : Spec} {op : S.Op} {r : S.Res} {hs : List (S.Op × S.Res)} {σ' : S.σ}
    (h : SeqRun S ((op, r) :: hs) σ') : ∃ σ, SeqRun S hs σ ∧ (σ', r) ∈ S.apply σ op := by
  cases h with
  | cons h1 h2 => exact ⟨_, h1, h2⟩

end Generic

/-! ### the set specification and the translation -/

variable {α : Type} [DecidableEq α]

/-- the sequential set as an atomic-object specification -/
def setSpec (α : Type) [DecidableEq α] : Spec :=
  { σ := α → Bool, Op := SOp α, Res := Bool, init := fun _ => false, apply := fun m op => [sstep m op] }

instance instDecEqSetSpecOp : DecidableEq (setSpec α).Op := inferInstanceAs (DecidableEq (SOp α))
instance instDecEqSetSpecRes : DecidableEq (setSpec α).Res := inferInstanceAs (DecidableEq Bool)

/-- `Add(v)` is `LoadOrStore(v, struct{}{})`, `Remove(v)` is `LoadAndDelete(v)`, `Has(v)` is `Load(v)` -/
def toSetOp : Op α Unit → Option (SOp α)
  | .loadOrStore v _ => some (.add v)
  | .loadAndDelete v => some (.remove v)
  | .load v => some (.has v)
  | _ => none

/-- `Add` returns `!loaded`, `Remove` returns `loaded`, `Has` returns `ok` -/
def toSetRes : Op α Unit → Res α Unit → Bool
  | .loadOrStore _ _, .pair _ loaded => !loaded
  | .loadAndDelete _, .val o => o.isSome
  | .load _, .val o => o.isSome
  | _, _ => false

abbrev MEntry (α : Type) := Entry (Op α Unit) (Res α Unit)
abbrev SEntry (α : Type) := Entry (SOp α) Bool
abbrev MEvent (α : Type) := Event (Op α Unit) (Res α Unit)
abbrev SEvent (α : Type) := Event (SOp α) Bool

/-- translation of one log entry, given the older part of the log: a response is translated with the operation of the
most recent invocation of its goroutine -/
def setEntry (older : List (MEntry α)) : MEntry α → Option (SEntry α)
  | .inv t op => (toSetOp op).map (fun sop => .inv t sop)
  | .lin t op r => (toSetOp op).map (fun sop => .lin t sop (toSetRes op r))
  | .res t r => (lastInv t older).bind (fun op => (toSetOp op).map (fun _ => .res t (toSetRes op r)))

/-- translation of a (newest-first) log -/
def setLog : List (MEntry α) → List (SEntry α)
  | [] => []
  | e :: rest =>
    match setEntry rest e with
    | some e' => e' :: setLog rest
    | none => setLog rest

def setEvent (older : List (MEvent α)) : MEvent α → Option (SEvent α)
  | .inv t op => (toSetOp op).map (fun sop => .inv t sop)
  | .res t r => (lastInvE t older).bind (fun op => (toSetOp op).map (fun _ => .res t (toSetRes op r)))

/-- translation of a newest-first list of events -/
def setEvs : List (MEvent α) → List (SEvent α)
  | [] => []
  | e :: rest =>
    match setEvent rest e with
    | some e' => e' :: setEvs rest
    | none => setEvs rest

/-- the Set-level history (oldest first) of a Map-level history (oldest first): `inv t (LoadOrStore v {})` becomes
`inv t (Add v)` etc.; `res t r` becomes `res t b` where `b` is the Bool the Set method computes from `r`, the method
being the one of the most recent earlier invocation of goroutine `t` -/
def setHist (h : List (MEvent α)) : List (SEvent α) := (setEvs h.reverse).reverse

theorem setLog_events (log : List (MEntry α)) :
    (setLog log).filterMap Entry.event? = setEvs (log.filterMap Entry.event?) := by
  induction log with
  | nil => rfl
  | cons e rest ih =>
    cases e with
    | inv t op =>
      show (setLog (Entry.inv t op :: rest)).filterMap Entry.event? =
        setEvs (Event.inv t op :: rest.filterMap Entry.event?)
      simp only [setLog, setEvs, setEntry, setEvent]
      cases toSetOp op with
      | none => exact ih
      | some sop =>
        show Event.inv t sop :: (setLog rest).filterMap Entry.event? = _
        rw [ih]; rfl
    | lin t op r =>
      show (setLog (Entry.lin t op r :: rest)).filterMap Entry.event? = setEvs (rest.filterMap Entry.event?)
      simp only [setLog, setEntry]
      cases toSetOp op with
      | none => exact ih
      | some sop => exact ih
    | res t r =>
      show (setLog (Entry.res t r :: rest)).filterMap Entry.event? =
        setEvs (Event.res t r :: rest.filterMap Entry.event?)
      cases hl : lastInv t rest with
      | none =>
        simp only [setLog, setEvs, setEntry, setEvent, lastInvE_events, hl, Option.bind_none]
        exact ih
      | some op =>
        cases hs : toSetOp op with
        | none =>
          simp only [setLog, setEvs, setEntry, setEvent, lastInvE_events, hl, hs, Option.bind_some, Option.map_none]
          exact ih
        | some sop =>
          simp only [setLog, setEvs, setEntry, setEvent, lastInvE_events, hl, hs, Option.bind_some, Option.map_some]
          show Event.res t (toSetRes op r) :: (setLog rest).filterMap Entry.event? = _
          rw [ih]

/-- the translated log has the translated history -/
theorem histOf_setLog (log : List (MEntry α)) : histOf (setLog log) = setHist (histOf log) := by
  unfold histOf setHist
  rw [List.reverse_reverse, setLog_events]

/-! ### the homomorphism -/

/-- membership: the keys present in the map -/
def φ (m : α → Option Unit) : α → Bool := fun v => (m v).isSome

/-- **Key lemma**: `φ` maps every step of the map specification with a set-shaped operation to the step of the set
specification, with the translated result -/
theorem sstep_hom {m m' : α → Option Unit} {op : Op α Unit} {r : Res α Unit} {sop : SOp α}
    (h : (m', r) ∈ applyOp m op) (hs : toSetOp op = some sop) : sstep (φ m) sop = (φ m', toSetRes op r) := by
  cases op with
  | load k =>
    simp only [toSetOp, Option.some.injEq] at hs
    subst hs
    simp only [applyOp, List.mem_singleton, Prod.mk.injEq] at h
    obtain ⟨h1, h2⟩ := h
    subst h1; subst h2
    rfl
  | loadOrStore k u =>
    simp only [toSetOp, Option.some.injEq] at hs
    subst hs
    simp only [applyOp, List.mem_singleton] at h
    cases hk : m k with
    | some w =>
      rw [hk] at h
      simp only [Prod.mk.injEq] at h
      obtain ⟨h1, h2⟩ := h
      subst h1; subst h2
      simp only [sstep, toSetRes]
      refine Prod.ext ?_ ?_
      · funext x
        show (if x = k then true else φ m' x) = φ m' x
        by_cases hx : x = k
        · subst hx; simp [φ, hk]
        · simp [hx]
      · simp [φ, hk]
    | none =>
      rw [hk] at h
      simp only [Prod.mk.injEq] at h
      obtain ⟨h1, h2⟩ := h
      subst h1; subst h2
      simp only [sstep, toSetRes]
      refine Prod.ext ?_ ?_
      · funext x
        show (if x = k then true else φ m x) = φ (put m k u) x
        by_cases hx : x = k
        · subst hx; simp [φ, put]
        · simp [φ, put, hx]
      · simp [φ, hk]
  | loadAndDelete k =>
    simp only [toSetOp, Option.some.injEq] at hs
    subst hs
    simp only [applyOp, List.mem_singleton, Prod.mk.injEq] at h
    obtain ⟨h1, h2⟩ := h
    subst h1; subst h2
    simp only [sstep, toSetRes]
    refine Prod.ext ?_ rfl
    funext x
    show (if x = k then false else φ m x) = φ (del m k) x
    by_cases hx : x = k
    · subst hx; simp [φ, del]
    · simp [φ, del, hx]
  | store k v => simp [toSetOp] at hs
  | delete k => simp [toSetOp] at hs
  | range => simp [toSetOp] at hs

/-! ### the sequential run is preserved -/

theorem seqRun_set : ∀ (log : List (MEntry α)) (σ : α → Option Unit),
    (∀ t op r, Entry.lin t op r ∈ log → (toSetOp op).isSome = true) →
    SeqRun (mapSpec α Unit) (linsOf log) σ → SeqRun (setSpec α) (linsOf (setLog log)) (φ σ) := by
  intro log
  induction log with
  | nil =>
    intro σ _ h
    have := seqRun_nil_inv h
    subst this
    exact SeqRun.nil
  | cons e rest ih =>
    intro σ hsh h
    have hsh' : ∀ t op r, Entry.lin t op r ∈ rest → (toSetOp op).isSome = true :=
      fun t op r hm => hsh t op r (List.mem_cons_of_mem _ hm)
    cases e with
    | inv t op =>
      have h' : SeqRun (mapSpec α Unit) (linsOf rest) σ := h
      have := ih σ hsh' h'
      simp only [setLog, setEntry]
      cases toSetOp op with
      | none => exact this
      | some sop => exact this
    | res t r =>
      have h' : SeqRun (mapSpec α Unit) (linsOf rest) σ := h
      have := ih σ hsh' h'
      cases hl : lastInv t rest with
      | none =>
        simp only [setLog, setEntry, hl, Option.bind_none]
        exact this
      | some op =>
        cases hs : toSetOp op with
        | none =>
          simp only [setLog, setEntry, hl, hs, Option.bind_some, Option.map_none]
          exact this
        | some sop =>
          simp only [setLog, setEntry, hl, hs, Option.bind_some, Option.map_some]
          exact this
    | lin t op r =>
      have h' : SeqRun (mapSpec α Unit) ((op, r) :: linsOf rest) σ := h
      obtain ⟨σ0, h0, happ⟩ := seqRun_cons_inv h'
      have hop := hsh t op r List.mem_cons_self
      obtain ⟨sop, hsop⟩ := Option.isSome_iff_exists.mp hop
      have := ih σ0 hsh' h0
      simp only [setLog, setEntry, hsop]
      show SeqRun (setSpec α) ((sop, toSetRes op r) :: linsOf (setLog rest)) (φ σ)
      refine SeqRun.cons this ?_
      show (φ σ, toSetRes op r) ∈ [sstep (φ σ0) sop]
      rw [sstep_hom happ hsop]
      exact List.mem_singleton.mpr rfl

/-! ### the per-goroutine protocol is preserved -/

def mapPc : TPc (Op α Unit) (Res α Unit) → Option (TPc (SOp α) Bool)
  | .idle => some .idle
  | .pending op => (toSetOp op).map (fun sop => .pending sop)
  | .done op r => (toSetOp op).map (fun sop => .done sop (toSetRes op r))

/-- all operations in the log are set-shaped -/
def ShapedE : MEntry α → Prop
  | .inv _ op => (toSetOp op).isSome = true
  | .lin _ op _ => (toSetOp op).isSome = true
  | .res _ _ => True

theorem setEntry_tid {older : List (MEntry α)} {e : MEntry α} {e' : SEntry α} (h : setEntry older e = some e') :
    e'.tid = e.tid := by
  cases e with
  | inv t op =>
    simp only [setEntry] at h
    cases hs : toSetOp op with
    | none => rw [hs] at h; simp at h
    | some sop => rw [hs] at h; simp only [Option.map_some, Option.some.injEq] at h; subst h; rfl
  | lin t op r =>
    simp only [setEntry] at h
    cases hs : toSetOp op with
    | none => rw [hs] at h; simp at h
    | some sop => rw [hs] at h; simp only [Option.map_some, Option.some.injEq] at h; subst h; rfl
  | res t r =>
    simp only [setEntry] at h
    cases hl : lastInv t older with
    | none => rw [hl] at h; simp at h
    | some op =>
      rw [hl] at h
      simp only [Option.bind_some] at h
      cases hs : toSetOp op with
      | none => rw [hs] at h; simp at h
      | some sop => rw [hs] at h; simp only [Option.map_some, Option.some.injEq] at h; subst h; rfl

theorem setLog_cons_some {rest : List (MEntry α)} {e : MEntry α} {e' : SEntry α} (h : setEntry rest e = some e') :
    setLog (e :: rest) = e' :: setLog rest := by
  simp only [setLog, h]

theorem setLog_cons_none {rest : List (MEntry α)} {e : MEntry α} (h : setEntry rest e = none) :
    setLog (e :: rest) = setLog rest := by
  simp only [setLog, h]

theorem runThread_set (t : Nat) : ∀ (log : List (MEntry α)),
    (∀ t, (runThread t log).isSome = true) → (∀ e ∈ log, ShapedE e) →
    ∀ p, runThread t log = some p → ∃ q, mapPc p = some q ∧ runThread t (setLog log) = some q := by
  intro log
  induction log with
  | nil =>
    intro _ _ p h
    simp only [runThread] at h
    injection h with h
    subst h
    exact ⟨.idle, rfl, rfl⟩
  | cons e rest ih =>
    intro hthr hsh p h
    have hthr' := threads_tail e rest hthr
    have hsh' : ∀ e ∈ rest, ShapedE e := fun e he => hsh e (List.mem_cons_of_mem _ he)
    rw [runThread_cons] at h
    cases hx : runThread t rest with
    | none => rw [hx] at h; simp at h
    | some p0 =>
      rw [hx] at h
      simp only at h
      obtain ⟨q0, hq0, hr0⟩ := ih hthr' hsh' p0 hx
      by_cases het : e.tid = t
      · rw [if_pos het] at h
        cases e with
        | inv t' op =>
          have hop : (toSetOp op).isSome = true := hsh _ List.mem_cons_self
          obtain ⟨sop, hsop⟩ := Option.isSome_iff_exists.mp hop
          have hse : setEntry rest (Entry.inv t' op) = some (Entry.inv t' sop) := by
            simp only [setEntry, hsop, Option.map_some]
          have het' : (Entry.inv t' sop : SEntry α).tid = t := het
          rw [setLog_cons_some hse, runThread_cons, hr0]
          simp only
          rw [if_pos het']
          cases p0 with
          | idle =>
            simp only [advance] at h
            injection h with h
            subst h
            simp only [mapPc] at hq0
            injection hq0 with hq0
            subst hq0
            exact ⟨.pending sop, by simp [mapPc, hsop], rfl⟩
          | pending _ => simp [advance] at h
          | done _ _ => simp [advance] at h
        | lin t' op r =>
          have hop : (toSetOp op).isSome = true := hsh _ List.mem_cons_self
          obtain ⟨sop, hsop⟩ := Option.isSome_iff_exists.mp hop
          have hse : setEntry rest (Entry.lin t' op r) = some (Entry.lin t' sop (toSetRes op r)) := by
            simp only [setEntry, hsop, Option.map_some]
          have het' : (Entry.lin t' sop (toSetRes op r) : SEntry α).tid = t := het
          rw [setLog_cons_some hse, runThread_cons, hr0]
          simp only
          rw [if_pos het']
          cases p0 with
          | idle => simp [advance] at h
          | done _ _ => simp [advance] at h
          | pending op0 =>
            simp only [advance] at h
            by_cases ho : op0 = op
            · rw [if_pos ho] at h
              injection h with h
              subst h; subst ho
              simp only [mapPc, hsop, Option.map_some, Option.some.injEq] at hq0
              subst hq0
              refine ⟨.done sop (toSetRes op0 r), by simp [mapPc, hsop], ?_⟩
              simp [advance]
            · rw [if_neg ho] at h; simp at h
        | res t' r =>
          cases p0 with
          | idle => simp [advance] at h
          | pending _ => simp [advance] at h
          | done op0 r0 =>
            simp only [advance] at h
            by_cases hr : r0 = r
            · rw [if_pos hr] at h
              injection h with h
              subst h; subst hr
              have het0 : t' = t := het
              subst het0
              have hl := lastInv_of_run t' rest _ hx op0 rfl
              have hop : (toSetOp op0).isSome = true := hsh' _ (lastInv_mem t' op0 rest hl)
              obtain ⟨sop, hsop⟩ := Option.isSome_iff_exists.mp hop
              have hse : setEntry rest (Entry.res t' r0) = some (Entry.res t' (toSetRes op0 r0)) := by
                simp only [setEntry, hl, Option.bind_some, hsop, Option.map_some]
              simp only [mapPc, hsop, Option.map_some, Option.some.injEq] at hq0
              subst hq0
              rw [setLog_cons_some hse, runThread_cons, hr0]
              refine ⟨.idle, rfl, ?_⟩
              simp [Entry.tid, advance]
            · rw [if_neg hr] at h; simp at h
      · rw [if_neg het] at h
        injection h with h
        subst h
        refine ⟨q0, hq0, ?_⟩
        cases hse : setEntry rest e with
        | none => rw [setLog_cons_none hse]; exact hr0
        | some e' =>
          have het' : ¬ e'.tid = t := by rw [setEntry_tid hse]; exact het
          rw [setLog_cons_some hse, runThread_cons, hr0]
          simp only
          rw [if_neg het']

/-! ### the transfer theorem -/

/-- the log-level statement: a well-formed map-level log whose invocations are all set-shaped translates to a
well-formed set-level log -/
theorem transfer_log (log : List (MEntry α)) (σ : α → Option Unit)
    (hseq : SeqRun (mapSpec α Unit) (linsOf log) σ) (hthr : ∀ t, (runThread t log).isSome = true)
    (hinv : ∀ t op, Entry.inv t op ∈ log → (toSetOp op).isSome = true) :
    histOf (setLog log) = setHist (histOf log) ∧ SeqRun (setSpec α) (linsOf (setLog log)) (φ σ) ∧
      ∀ t, (runThread t (setLog log)).isSome = true := by
  have hlin := lin_of_inv (fun op : Op α Unit => (toSetOp op).isSome = true) log hthr hinv
  refine ⟨histOf_setLog log, seqRun_set log σ hlin hseq, ?_⟩
  intro t
  have hsh : ∀ e ∈ log, ShapedE e := by
    intro e he
    cases e with
    | inv t op => exact hinv t op he
    | lin t op r => exact hlin t op r he
    | res t r => trivial
  obtain ⟨p, hp⟩ := Option.isSome_iff_exists.mp (hthr t)
  obtain ⟨q, _, hq⟩ := runThread_set t log hthr hsh p hp
  rw [hq]; rfl

theorem inv_mem_histOf {Op Res : Type} (log : List (Entry Op Res)) (t : Nat) (op : Op) :
    Entry.inv t op ∈ log → Event.inv t op ∈ histOf log := by
  intro h
  unfold histOf
  rw [List.mem_reverse, List.mem_filterMap]
  exact ⟨_, h, rfl⟩

/-- **Transfer**: a map-level history that is linearizable w.r.t. the map and consists of set-shaped calls only is,
translated to the Set level, linearizable w.r.t. the set -/
theorem transfer {h : List (MEvent α)} (hl : Linearizable (mapSpec α Unit) h)
    (hs : ∀ t op, Event.inv t op ∈ h → (toSetOp op).isSome = true) :
    Linearizable (setSpec α) (setHist h) := by
  obtain ⟨log, hh, ⟨σ, hseq⟩, hthr⟩ := hl
  subst hh
  have hinv : ∀ t op, Entry.inv t op ∈ log → (toSetOp op).isSome = true :=
    fun t op hm => hs t op (inv_mem_histOf log t op hm)
  obtain ⟨h1, h2, h3⟩ := transfer_log log σ hseq hthr hinv
  exact ⟨setLog log, h1, ⟨φ σ, h2⟩, h3⟩

/-! ### `SeqRun (setSpec α)` is `Spec.AtomicSet.srun` -/

theorem srunFrom_snoc (op : SOp α) : ∀ (ops : List (SOp α)) (m : SState α),
    srunFrom m (ops ++ [op]) =
      ((sstep (srunFrom m ops).1 op).1, (srunFrom m ops).2 ++ [(op, (sstep (srunFrom m ops).1 op).2)]) := by
  intro ops
  induction ops with
  | nil => intro m; rfl
  | cons a rest ih =>
    intro m
    show ((srunFrom (sstep m a).1 (rest ++ [op])).1, (a, (sstep m a).2) :: (srunFrom (sstep m a).1 (rest ++ [op])).2) = _
    rw [ih]
    rfl

/-- a legal sequential history of the set specification (newest first) is, read oldest first, exactly the history
`srun` produces for its operations, and ends in the state `srun` ends in -/
theorem seqRun_srun : ∀ (h : List (SOp α × Bool)) (σ : α → Bool), SeqRun (setSpec α) h σ →
    srun (h.reverse.map Prod.fst) = (σ, h.reverse) := by
  intro h
  induction h with
  | nil =>
    intro σ hs
    have := seqRun_nil_inv hs
    subst this
    rfl
  | cons x hs ih =>
    intro σ hrun
    obtain ⟨op, r⟩ := x
    obtain ⟨σ0, h0, happ⟩ := seqRun_cons_inv hrun
    have happ' : (σ, r) = sstep σ0 op := List.mem_singleton.mp happ
    have ih0 : srunFrom sempty (hs.reverse.map Prod.fst) = (σ0, hs.reverse) := ih σ0 h0
    show srunFrom sempty (((op, r) :: hs).reverse.map Prod.fst) = _
    rw [List.reverse_cons, List.map_append]
    show srunFrom sempty (hs.reverse.map Prod.fst ++ [op]) = _
    rw [srunFrom_snoc, ih0]
    show ((sstep σ0 op).1, hs.reverse ++ [(op, (sstep σ0 op).2)]) = _
    rw [← happ']

theorem srun_of_seqRun (log : List (SEntry α)) (σ : α → Bool) (hseq : SeqRun (setSpec α) (linsOf log) σ) :
    ∃ ops : List (SOp α), SeqRun (setSpec α) (linsOf log) (srun ops).1 ∧ (srun ops).2 = (linsOf log).reverse := by
  have h := seqRun_srun (linsOf log) σ hseq
  refine ⟨(linsOf log).reverse.map Prod.fst, ?_, ?_⟩
  · rw [h]; exact hseq
  · rw [h]

/-- every linearizable set history has a linearization (a well-formed log with that history) which is a sequential
history `srun ops` of the specification -/
theorem linearization_srun {h : List (SEvent α)} (hl : Linearizable (setSpec α) h) :
    ∃ (log : List (SEntry α)) (ops : List (SOp α)),
      histOf log = h ∧ (∀ t, (runThread t log).isSome = true) ∧
      SeqRun (setSpec α) (linsOf log) (srun ops).1 ∧ (srun ops).2 = (linsOf log).reverse := by
  obtain ⟨log, hh, ⟨σ, hseq⟩, hthr⟩ := hl
  obtain ⟨ops, h1, h2⟩ := srun_of_seqRun log σ hseq
  exact ⟨log, ops, hh, hthr, h1, h2⟩

/-! ### facts about alternating event lists -/

def evOne (v : α) : SOp α → Bool → List Bool
  | .add w, true => if w = v then [true] else []
  | .remove w, true => if w = v then [false] else []
  | _, _ => []

theorem events_cons (v : α) (op : SOp α) (b : Bool) (rest : List (SOp α × Bool)) :
    events v ((op, b) :: rest) = evOne v op b ++ events v rest := by
  cases op <;> cases b <;> simp only [events, evOne] <;> (try split) <;> rfl

theorem events_append (v : α) : ∀ (l1 l2 : List (SOp α × Bool)), events v (l1 ++ l2) = events v l1 ++ events v l2 := by
  intro l1
  induction l1 with
  | nil => intro l2; rfl
  | cons x rest ih =>
    intro l2
    obtain ⟨op, b⟩ := x
    show events v ((op, b) :: (rest ++ l2)) = _
    rw [events_cons, events_cons, ih, List.append_assoc]

theorem false_mem_events (v : α) : ∀ l : List (SOp α × Bool), false ∈ events v l → (SOp.remove v, true) ∈ l := by
  intro l
  induction l with
  | nil => intro h; simp [events] at h
  | cons x rest ih =>
    intro h
    obtain ⟨op, b⟩ := x
    rw [events_cons, List.mem_append] at h
    rcases h with h | h
    · cases op with
      | add w =>
        cases b
        · simp [evOne] at h
        · simp only [evOne] at h; split at h <;> simp at h
      | has w => cases b <;> simp [evOne] at h
      | remove w =>
        cases b
        · simp [evOne] at h
        · simp only [evOne] at h
          split at h
          · rename_i hw; subst hw; exact List.mem_cons_self
          · simp at h
    · exact List.mem_cons_of_mem _ (ih h)

theorem alternates_suffix : ∀ (l1 l2 : List Bool) (b : Bool), Alternates b (l1 ++ l2) → ∃ b', Alternates b' l2 := by
  intro l1
  induction l1 with
  | nil => intro l2 b h; exact ⟨b, h⟩
  | cons x rest ih => intro l2 b h; exact ih l2 (!b) h.2

/-- in an alternating event list two `true`s are separated by a `false` -/
theorem alternates_true_true (b : Bool) (pre mid post : List Bool)
    (h : Alternates b (pre ++ true :: (mid ++ true :: post))) : false ∈ mid := by
  obtain ⟨b', h'⟩ := alternates_suffix pre _ b h
  obtain ⟨h1, h2⟩ := h'
  subst h1
  cases mid with
  | nil => exact absurd h2.1 (by decide)
  | cons x xs =>
    have : x = false := h2.1
    subst this
    exact List.mem_cons_self

/-- in a history whose successful Adds/Removes of `v` alternate, between two successful `Add v` there is a successful
`Remove v` -/
theorem add_add_remove (v : α) (b : Bool) (pre mid post : List (SOp α × Bool))
    (h : Alternates b (events v (pre ++ (SOp.add v, true) :: (mid ++ (SOp.add v, true) :: post)))) :
    (SOp.remove v, true) ∈ mid := by
  apply false_mem_events v mid
  rw [events_append, events_cons, events_append, events_cons] at h
  simp only [evOne, if_true, List.singleton_append] at h
  exact alternates_true_true b _ _ _ h

/-! ### the invocations of an execution of the map model come from the menu -/

section Exec
open TypVerif.Model.SyncMapConc (sys)
variable {K V : Type} [DecidableEq K] [DecidableEq V] [Inhabited V]

theorem exec_labels {sy : Sys} {P : Option sy.Event → Prop} (hstep : ∀ s l s', (l, s') ∈ sy.succ s → P l)
    {s s' : sy.State} {ls : List (Option sy.Event)} (he : Exec sy s ls s') : ∀ l ∈ ls, P l := by
  induction he with
  | nil s => intro l h; simp at h
  | cons hmem _ ih =>
    intro l h
    rcases List.mem_cons.mp h with h | h
    · subst h; exact hstep _ _ _ hmem
    · exact ih l h

theorem exec_inv_menu {menu : List (Op K V)} {n : Nat} {zst : Bool} {s s' : SyncMapConc.State K V}
    {ls : List (Option (SyncMapConc.Event K V))} (he : Exec (sys K V menu n zst) s ls s') :
    ∀ t op, some (SyncMapConc.Event.inv t op) ∈ ls → op ∈ menu := by
  intro t op h
  have key := exec_labels (sy := sys K V menu n zst)
    (P := fun l => ∀ t op, l = some (SyncMapConc.Event.inv t op) → op ∈ menu) ?_ he _ h
  · exact key t op rfl
  · intro s l s1 hmem t op h
    have hmem' : (l, s1) ∈ SyncMapConc.succ menu s := hmem
    unfold SyncMapConc.succ at hmem'
    obtain ⟨u, _, hu⟩ := List.mem_flatMap.mp hmem'
    rcases Smc.mem_stepT_iff.mp hu with ⟨_, op', hop', hl, _⟩ | ⟨r, _, hl, _⟩ | ⟨_, _, hl, _⟩
    · rw [hl] at h
      injection h with h
      injection h with h1 h2
      subst h2
      exact hop'
    · rw [hl] at h
      injection h with h
      cases h
    · rw [hl] at h
      cases h

theorem evOf_inv {e : SyncMapConc.Event K V} {t : Nat} {op : Op K V} (h : evOf e = some (Event.inv t op)) :
    e = .inv t op := by
  cases e with
  | inv t' op' =>
    cases op' <;> simp only [evOf, Option.some.injEq, Event.inv.injEq, reduceCtorEq] at h <;>
      (obtain ⟨h1, h2⟩ := h; subst h1; subst h2; rfl)
  | res t' r =>
    cases r <;> simp [evOf] at h

/-- every invocation in the visible history of an execution is an operation of the menu -/
theorem hist_inv_menu {menu : List (Op K V)} {n : Nat} {zst : Bool} {s s' : SyncMapConc.State K V}
    {ls : List (Option (SyncMapConc.Event K V))} (he : Exec (sys K V menu n zst) s ls s') :
    ∀ t op, Event.inv t op ∈ ls.filterMap (·.bind evOf) → op ∈ menu := by
  intro t op h
  obtain ⟨l, hl, hb⟩ := List.mem_filterMap.mp h
  cases l with
  | none => simp at hb
  | some e =>
    have : evOf e = some (Event.inv t op) := hb
    rw [evOf_inv this] at hl
    exact exec_inv_menu he t op hl

end Exec

/-! ### completed calls versus linearization points

Every completed call (a response, together with the operation of its invocation) has its own linearization entry with the
same goroutine, operation and result: the completed calls plus the calls that have taken effect but not yet returned
(`inflight`) are exactly the linearization entries. -/
section Calls
variable {Op Res : Type}

/-- the linearization entries with their goroutines (newest first) -/
def linsT : List (Entry Op Res) → List (Nat × Op × Res)
  | [] => []
  | .lin t op r :: rest => (t, op, r) :: linsT rest
  | .inv _ _ :: rest => linsT rest
  | .res _ _ :: rest => linsT rest

theorem linsOf_eq_linsT (log : List (Entry Op Res)) : linsOf log = (linsT log).map (·.2) := by
  induction log with
  | nil => rfl
  | cons e rest ih =>
    cases e with
    | inv t op => exact ih
    | res t r => exact ih
    | lin t op r =>
      show (op, r) :: linsOf rest = (op, r) :: (linsT rest).map (·.2)
      rw [ih]

/-- the completed calls of a log (newest first): goroutine, operation of the most recent invocation, returned result -/
def callsOf : List (Entry Op Res) → List (Nat × Op × Res)
  | [] => []
  | .res t r :: rest =>
    match lastInv t rest with
    | some op => (t, op, r) :: callsOf rest
    | none => callsOf rest
  | .inv _ _ :: rest => callsOf rest
  | .lin _ _ _ :: rest => callsOf rest

/-- the completed calls of a newest-first list of visible events -/
def callsE : List (Event Op Res) → List (Nat × Op × Res)
  | [] => []
  | .res t r :: rest =>
    match lastInvE t rest with
    | some op => (t, op, r) :: callsE rest
    | none => callsE rest
  | .inv _ _ :: rest => callsE rest

/-- the completed calls of a history (oldest first), newest first -/
def calls (h : List (Event Op Res)) : List (Nat × Op × Res) := callsE h.reverse

theorem callsOf_events (log : List (Entry Op Res)) : callsE (log.filterMap Entry.event?) = callsOf log := by
  induction log with
  | nil => rfl
  | cons e rest ih =>
    cases e with
    | inv t op => exact ih
    | lin t op r => exact ih
    | res t r =>
      show callsE (Event.res t r :: rest.filterMap Entry.event?) = _
      simp only [callsE, callsOf, lastInvE_events, ih]

theorem calls_histOf (log : List (Entry Op Res)) : calls (histOf log) = callsOf log := by
  unfold calls histOf
  rw [List.reverse_reverse, callsOf_events]

def firstT (t : Nat) : List (Nat × Op × Res) → Option (Nat × Op × Res)
  | [] => none
  | x :: l => if x.1 = t then some x else firstT t l

def removeT (t : Nat) : List (Nat × Op × Res) → List (Nat × Op × Res)
  | [] => []
  | x :: l => if x.1 = t then l else x :: removeT t l

/-- the calls that have taken effect and not yet returned -/
def inflight : List (Entry Op Res) → List (Nat × Op × Res)
  | [] => []
  | .inv _ _ :: rest => inflight rest
  | .lin t op r :: rest => (t, op, r) :: inflight rest
  | .res t _ :: rest => removeT t (inflight rest)

theorem firstT_removeT (t t' : Nat) (hne : t ≠ t') : ∀ l : List (Nat × Op × Res),
    firstT t (removeT t' l) = firstT t l := by
  intro l
  induction l with
  | nil => rfl
  | cons x l ih =>
    by_cases h1 : x.1 = t'
    · have h2 : ¬ x.1 = t := fun h => hne (h.symm.trans h1)
      simp only [removeT, firstT, if_pos h1, if_neg h2]
    · by_cases h2 : x.1 = t
      · simp only [removeT, firstT, if_neg h1, if_pos h2]
      · simp only [removeT, firstT, if_neg h1, if_neg h2, ih]

theorem countP_removeT (t : Nat) (Q : Nat × Op × Res → Bool) : ∀ (l : List (Nat × Op × Res)) (x : Nat × Op × Res),
    firstT t l = some x → (removeT t l).countP Q + (if Q x = true then 1 else 0) = l.countP Q := by
  intro l
  induction l with
  | nil => intro x h; simp [firstT] at h
  | cons y l ih =>
    intro x h
    by_cases h1 : y.1 = t
    · simp only [firstT, if_pos h1, Option.some.injEq] at h
      subst h
      simp only [removeT, if_pos h1, List.countP_cons]
    · simp only [firstT, if_neg h1] at h
      have := ih x h
      simp only [removeT, if_neg h1, List.countP_cons]
      omega

variable [DecidableEq Op] [DecidableEq Res]

theorem runThread_res_done (t : Nat) (r : Res) (rest : List (Entry Op Res))
    (h : (runThread t (Entry.res t r :: rest)).isSome = true) : ∃ op, runThread t rest = some (.done op r) := by
  rw [runThread_cons] at h
  cases hx : runThread t rest with
  | none => rw [hx] at h; simp at h
  | some p0 =>
    rw [hx] at h
    simp only [Entry.tid, if_true] at h
    cases p0 with
    | idle => simp [advance] at h
    | pending _ => simp [advance] at h
    | done op0 r0 =>
      simp only [advance] at h
      by_cases hr : r0 = r
      · subst hr; exact ⟨op0, rfl⟩
      · rw [if_neg hr] at h; simp at h

/-- in a well-formed log: a goroutine that has taken effect and not returned is `inflight` with its operation and
result; and completed calls + inflight calls = linearization entries (as multisets: for every predicate, by count) -/
theorem calls_inv : ∀ (log : List (Entry Op Res)), (∀ t, (runThread t log).isSome = true) →
    (∀ t op r, runThread t log = some (.done op r) → firstT t (inflight log) = some (t, op, r)) ∧
    ∀ Q : Nat × Op × Res → Bool, (callsOf log).countP Q + (inflight log).countP Q = (linsT log).countP Q := by
  intro log
  induction log with
  | nil =>
    intro _
    refine ⟨?_, fun Q => rfl⟩
    intro t op r h
    simp [runThread] at h
  | cons e rest ih =>
    intro hthr
    obtain ⟨ihD, ihC⟩ := ih (threads_tail e rest hthr)
    -- goroutines other than the one stepping keep their state
    have hother : ∀ t p, runThread t (e :: rest) = some p → ¬ e.tid = t → runThread t rest = some p := by
      intro t p h het
      rw [runThread_cons] at h
      cases hx : runThread t rest with
      | none => rw [hx] at h; simp at h
      | some p0 => rw [hx] at h; simp only at h; rw [if_neg het] at h; exact h
    have hself : ∀ t p, runThread t (e :: rest) = some p → e.tid = t →
        ∃ p0, runThread t rest = some p0 ∧ advance p0 e = some p := by
      intro t p h het
      rw [runThread_cons] at h
      cases hx : runThread t rest with
      | none => rw [hx] at h; simp at h
      | some p0 => rw [hx] at h; simp only at h; rw [if_pos het] at h; exact ⟨p0, rfl, h⟩
    cases e with
    | inv t' op' =>
      refine ⟨?_, fun Q => ihC Q⟩
      intro t op r h
      by_cases het : (Entry.inv t' op' : Entry Op Res).tid = t
      · obtain ⟨p0, _, hadv⟩ := hself t _ h het
        cases p0 <;> simp [advance] at hadv
      · exact ihD t op r (hother t _ h het)
    | lin t' op' r' =>
      refine ⟨?_, fun Q => ?_⟩
      · intro t op r h
        show firstT t ((t', op', r') :: inflight rest) = some (t, op, r)
        by_cases het : (Entry.lin t' op' r' : Entry Op Res).tid = t
        · obtain ⟨p0, _, hadv⟩ := hself t _ h het
          have het' : t' = t := het
          cases p0 with
          | idle => simp [advance] at hadv
          | done _ _ => simp [advance] at hadv
          | pending op0 =>
            simp only [advance] at hadv
            by_cases ho : op0 = op'
            · rw [if_pos ho] at hadv
              injection hadv with hadv
              injection hadv with h1 h2
              subst h1; subst h2; subst het'
              simp only [firstT, if_true]
            · rw [if_neg ho] at hadv; simp at hadv
        · have het' : ¬ t' = t := het
          simp only [firstT, if_neg het']
          exact ihD t op r (hother t _ h het)
      · show (callsOf rest).countP Q + ((t', op', r') :: inflight rest).countP Q = ((t', op', r') :: linsT rest).countP Q
        rw [List.countP_cons, List.countP_cons, ← ihC Q]
        omega
    | res t' r' =>
      obtain ⟨op0, hx'⟩ := runThread_res_done t' r' rest (hthr t')
      have hl := lastInv_of_run t' rest _ hx' op0 rfl
      have hf := ihD t' op0 r' hx'
      refine ⟨?_, fun Q => ?_⟩
      · intro t op r h
        show firstT t (removeT t' (inflight rest)) = some (t, op, r)
        by_cases het : (Entry.res t' r' : Entry Op Res).tid = t
        · obtain ⟨p0, _, hadv⟩ := hself t _ h het
          cases p0 with
          | idle => simp [advance] at hadv
          | pending _ => simp [advance] at hadv
          | done op1 r1 =>
            simp only [advance] at hadv
            by_cases hr : r1 = r'
            · rw [if_pos hr] at hadv; simp at hadv
            · rw [if_neg hr] at hadv; simp at hadv
        · have het' : t ≠ t' := fun h => het h.symm
          rw [firstT_removeT t t' het']
          exact ihD t op r (hother t _ h het)
      · have hc : callsOf (Entry.res t' r' :: rest) = (t', op0, r') :: callsOf rest := by
          simp only [callsOf, hl]
        show (callsOf (Entry.res t' r' :: rest)).countP Q + (removeT t' (inflight rest)).countP Q = (linsT rest).countP Q
        rw [hc, List.countP_cons, ← ihC Q, ← countP_removeT t' Q (inflight rest) _ hf]
        omega

/-- every completed call has its own linearization entry: for every predicate, no more completed calls than
linearization entries satisfy it -/
theorem calls_le_lins (log : List (Entry Op Res)) (hthr : ∀ t, (runThread t log).isSome = true)
    (Q : Nat × Op × Res → Bool) : (callsOf log).countP Q ≤ (linsT log).countP Q := by
  have := (calls_inv log hthr).2 Q
  omega

theorem countP_map_snd (Q2 : Op × Res → Bool) (l : List (Nat × Op × Res)) :
    (l.map (·.2)).countP Q2 = l.countP (fun c => Q2 c.2) := by
  induction l with
  | nil => rfl
  | cons x l ih => simp only [List.map_cons, List.countP_cons, ih]

end Calls

/-! ### at most one successful Add when nobody removes -/

theorem countTrue_append (a b : List Bool) : countTrue (a ++ b) = countTrue a + countTrue b := by
  simp [countTrue, List.filter_append]

theorem countTrue_events (v : α) : ∀ l : List (SOp α × Bool),
    countTrue (events v l) = l.countP (fun x => decide (x = (SOp.add v, true))) := by
  intro l
  induction l with
  | nil => rfl
  | cons x rest ih =>
    obtain ⟨op, b⟩ := x
    rw [events_cons, countTrue_append, ih, List.countP_cons]
    cases op with
    | has w => cases b <;> simp [evOne, countTrue]
    | remove w =>
      cases b
      · simp [evOne, countTrue]
      · simp only [evOne]; split <;> simp [countTrue]
    | add w =>
      cases b
      · simp [evOne, countTrue]
      · simp only [evOne]
        by_cases hw : w = v
        · subst hw; simp [countTrue]; omega
        · simp [countTrue, hw]

theorem countFalse_zero : ∀ l : List Bool, false ∉ l → countFalse l = 0 := by
  intro l
  induction l with
  | nil => intro _; rfl
  | cons x l ih =>
    intro h
    cases x with
    | false => exact absurd List.mem_cons_self h
    | true =>
      have := ih (fun hm => h (List.mem_cons_of_mem _ hm))
      simpa [countFalse] using this

theorem lin_mem_of_linsOf {Op Res : Type} (log : List (Entry Op Res)) (op : Op) (r : Res) (h : (op, r) ∈ linsOf log) :
    ∃ t, Entry.lin t op r ∈ log := by
  unfold linsOf at h
  obtain ⟨e, he, hl⟩ := List.mem_filterMap.mp h
  cases e with
  | inv t op' => simp [Entry.lin?] at hl
  | res t r' => simp [Entry.lin?] at hl
  | lin t op' r' =>
    simp only [Entry.lin?, Option.some.injEq, Prod.mk.injEq] at hl
    obtain ⟨h1, h2⟩ := hl
    subst h1; subst h2
    exact ⟨t, he⟩

/-- in a well-formed set-level log without any `Remove v` invocation whose linearization satisfies the counting
property, at most one completed `Add v` reported success -/
theorem add_once_log (log : List (SEntry α)) (hthr : ∀ t, (runThread t log).isSome = true) (v : α)
    (hno : ∀ t, Entry.inv t (SOp.remove v) ∉ log)
    (hcount : countTrue (events v (linsOf log).reverse) ≤ countFalse (events v (linsOf log).reverse) + 1) :
    (callsOf log).countP (fun c => decide (c.2 = (SOp.add v, true))) ≤ 1 := by
  have hnolin := lin_of_inv (fun sop : SOp α => sop ≠ SOp.remove v) log hthr
    (fun t op hm heq => hno t (heq ▸ hm))
  have hnf : false ∉ events v (linsOf log).reverse := by
    intro hf
    have h1 := false_mem_events v _ hf
    rw [List.mem_reverse] at h1
    obtain ⟨t, ht⟩ := lin_mem_of_linsOf log _ _ h1
    exact hnolin t _ _ ht rfl
  rw [countFalse_zero _ hnf, countTrue_events, List.countP_reverse, linsOf_eq_linsT, countP_map_snd] at hcount
  have := calls_le_lins log hthr (fun c => decide (c.2 = (SOp.add v, true)))
  omega

/-- invocations of the translated history are translations of invocations of the history -/
theorem inv_mem_setEvs (t : Nat) (sop : SOp α) : ∀ l : List (MEvent α), Event.inv t sop ∈ setEvs l →
    ∃ op, Event.inv t op ∈ l ∧ toSetOp op = some sop := by
  intro l
  induction l with
  | nil => intro h; simp [setEvs] at h
  | cons e rest ih =>
    intro h
    have hrest : Event.inv t sop ∈ setEvs rest → ∃ op, Event.inv t op ∈ e :: rest ∧ toSetOp op = some sop := by
      intro h'
      obtain ⟨op, h1, h2⟩ := ih h'
      exact ⟨op, List.mem_cons_of_mem _ h1, h2⟩
    simp only [setEvs] at h
    cases hse : setEvent rest e with
    | none => rw [hse] at h; exact hrest h
    | some e' =>
      rw [hse] at h
      rcases List.mem_cons.mp h with h | h
      · subst h
        cases e with
        | inv t' op =>
          simp only [setEvent] at hse
          cases hs : toSetOp op with
          | none => rw [hs] at hse; simp at hse
          | some sop' =>
            rw [hs] at hse
            simp only [Option.map_some, Option.some.injEq, Event.inv.injEq] at hse
            obtain ⟨h1, h2⟩ := hse
            subst h1; subst h2
            exact ⟨op, List.mem_cons_self, hs⟩
        | res t' r =>
          simp only [setEvent] at hse
          cases hl : lastInvE t' rest with
          | none => rw [hl] at hse; simp at hse
          | some op =>
            rw [hl] at hse
            simp only [Option.bind_some] at hse
            cases hs : toSetOp op with
            | none => rw [hs] at hse; simp at hse
            | some sop' => rw [hs] at hse; simp at hse
      · exact hrest h

theorem inv_mem_setHist (t : Nat) (sop : SOp α) (h : List (MEvent α)) (hm : Event.inv t sop ∈ setHist h) :
    ∃ op, Event.inv t op ∈ h ∧ toSetOp op = some sop := by
  unfold setHist at hm
  rw [List.mem_reverse] at hm
  obtain ⟨op, h1, h2⟩ := inv_mem_setEvs t sop _ hm
  exact ⟨op, List.mem_reverse.mp h1, h2⟩

theorem toSetOp_remove {op : Op α Unit} {v : α} (h : toSetOp op = some (SOp.remove v)) : op = .loadAndDelete v := by
  cases op <;> simp [toSetOp] at h
  subst h; rfl

end TypVerif.Lemmas.SetConc
