import TypVerif.Lemmas.PubSubLogFresh
/-
Call-local bookkeeping.  A call is identified by its snapshot step `s0 → s1`: task `i` of `s0` is
`pubStart p o v evs` and the step changes it; the items of the call are `mkItems p evs (s0.obj o).subs`,
their keys `callKeys p evs (s0.obj o).subs`.  From `s1` on (along any execution):
`CallLe`: (pending items with key k) + (log entries k) ≤ (occurrences of k in the call's keys), for every key of `p`;
`CallEq`: equality, as long as no `sendAsync` goroutine of `p` exists (PubSync / PubWait variants).
-/
namespace TypVerif.Lemmas.PubSubLog
open TypVerif TypVerif.Model.PubSub TypVerif.Lemmas.PubSubSafe

/-- an invariant established at a reachable state holds along every execution from it -/
theorem exec_invariant (cfg : Cfg) (R : State → Prop)
    (hstep : ∀ s l s', Conc.Reachable (sys cfg) s → R s → (l, s') ∈ succ cfg s → R s') :
    ∀ (ls : List (Option (sys cfg).Event)) (s1 s2 : (sys cfg).State), Conc.Exec (sys cfg) s1 ls s2 →
      Conc.Reachable (sys cfg) s1 → R s1 → Conc.Reachable (sys cfg) s2 ∧ R s2 := by
  intro ls
  induction ls with
  | nil => intro s1 s2 h hr h1; cases h; exact ⟨hr, h1⟩
  | cons l ls ih =>
    intro s1 s2 h hr h1
    cases h with
    | cons hm hrest => exact ih _ _ hrest (Conc.Reachable.step hr hm) (hstep _ _ _ hr h1 hm)

theorem getElem?_set_append_ne {α} (l new : List α) (i j : Nat) (x : α) (hij : j ≠ i) (hi : i < l.length) :
    (l.set j x ++ new)[i]? = l[i]? := by
  rw [List.getElem?_append_left (by simpa using hi), List.getElem?_set]
  simp [hij]

theorem lt_length_of_getElem? {α} {l : List α} {i : Nat} {t : α} (h : l[i]? = some t) : i < l.length := by
  rcases Nat.lt_or_ge i l.length with h1 | h1
  · exact h1
  · simp [List.getElem?_eq_none h1] at h

/-- a step that changes task `i` is a step of task `i` -/
theorem bstep_changed {cfg : Cfg} {s s' : State} {i : Nat} {t : Task} (h : BStep cfg s s')
    (hi : s.tasks[i]? = some t) (hne : s'.tasks[i]? ≠ s.tasks[i]?) :
    ∃ t' new dl tl, TStep cfg s t t' new dl tl ∧ s'.tasks = s.tasks.set i t' ++ new ∧
      s'.delivered = s.delivered ++ dl ∧ s'.timedOut = s.timedOut ++ tl ∧ s'.pids = s.pids := by
  have hlt := lt_length_of_getElem? hi
  cases h with
  | same h1 h2 h3 h4 => rw [h1] at hne; exact absurd rfl hne
  | spawnCtl t0 hc h1 h2 h3 h4 =>
    rw [h1, List.getElem?_append_left hlt] at hne; exact absurd rfl hne
  | invoke p0 o v evs hp0 h0 h1 h2 h3 =>
    rw [h1, List.getElem?_append_left hlt] at hne; exact absurd rfl hne
  | task j t0 t' new dl tl hj hT h1 h2 h3 h4 =>
    by_cases hij : j = i
    · subst hij
      rw [hi] at hj
      cases hj
      exact ⟨t', new, dl, tl, hT, h1, h2, h3, h4⟩
    · rw [h1, getElem?_set_append_ne _ _ _ _ _ hij hlt] at hne
      exact absurd rfl hne

/-- a step that does not change task `i`, seen from task `i` -/
theorem bstep_other {cfg : Cfg} {s s' : State} {i : Nat} {t : Task} (h : BStep cfg s s')
    (hi : s.tasks[i]? = some t) : s'.tasks[i]? = some t ∨
    ∃ t' new dl tl, TStep cfg s t t' new dl tl ∧ s'.tasks = s.tasks.set i t' ++ new ∧
      s'.delivered = s.delivered ++ dl ∧ s'.timedOut = s.timedOut ++ tl ∧ s'.pids = s.pids := by
  by_cases hne : s'.tasks[i]? = s.tasks[i]?
  · left; rw [hne, hi]
  · right; exact bstep_changed h hi hne

/-! ### `nAS` -/

theorem tstep_isAsyncStart {cfg : Cfg} {s : State} {t t' : Task} {new : List Task} {dl tl : List Key}
    (h : TStep cfg s t t' new dl tl) (p : Nat) (hq : isPubStart p t = false) :
    new.countP (isAsyncStart p) = 0 ∧ (isAsyncStart p t' = true → isAsyncStart p t = true) := by
  cases h with
  | stuck _ hn => exact ⟨rfl, fun h => h⟩
  | ctl h1 h2 =>
    refine ⟨rfl, fun h => ?_⟩
    cases t' <;> simp [isCtl, isAsyncStart] at h2 h
  | pubSync p' o v evs hv =>
    refine ⟨rfl, fun h => ?_⟩
    cases hm : mkItems p' evs (s.obj o).subs <;> simp [hm, syncNext, isAsyncStart] at h
  | pubWait p' o v evs hv hw =>
    refine ⟨?_, fun h => by simp [isAsyncStart] at h⟩
    rw [List.countP_eq_zero]; intro x hx
    simp only [List.mem_map] at hx; obtain ⟨_, _, rfl⟩ := hx; simp [isAsyncStart]
  | pubAsync p' o v evs hv hw =>
    refine ⟨?_, fun h => by simp [isAsyncStart] at h⟩
    have hne : p' ≠ p := by simpa [isPubStart] using hq
    rw [List.countP_eq_zero]; intro x hx
    simp only [List.mem_map] at hx; obtain ⟨it, hit, rfl⟩ := hx
    simp [isAsyncStart, mkItems_pid hit, hne]
  | syncCb p' o it rest =>
    refine ⟨rfl, fun h => ?_⟩
    cases rest <;> simp [syncNext, isAsyncStart] at h
  | syncSent p' o it rest =>
    refine ⟨rfl, fun h => ?_⟩
    cases rest <;> simp [syncNext, isAsyncStart] at h
  | _ => exact ⟨rfl, fun h => by simp [isAsyncStart] at h⟩

theorem bstep_nAS_zero {cfg : Cfg} {s s' : State} (h : BStep cfg s s') {p : Nat}
    (hno : nPS p s = 0) (hna : nAS p s = 0) : nAS p s' = 0 := by
  cases h with
  | same h1 h2 h3 h4 => simpa [nAS, h1] using hna
  | spawnCtl t hc h1 h2 h3 h4 =>
    have : isAsyncStart p t = false := by cases t <;> first | rfl | simp [isCtl] at hc
    simp only [nAS] at hna
    simp [nAS, h1, List.countP_append, this, hna]
  | invoke p' o v evs hp' h0 h1 h2 h3 =>
    simp only [nAS] at hna
    simp [nAS, h1, List.countP_append, isAsyncStart, hna]
  | task i t t' new dl tl hi hT h1 h2 h3 h4 =>
    obtain ⟨a, b⟩ := tstep_isAsyncStart hT p (countP_zero_getElem? hno hi)
    have h3 := countP_set_eq (isAsyncStart p) s.tasks i t t' hi
    have ht : isAsyncStart p t = false := countP_zero_getElem? hna hi
    have ht' : isAsyncStart p t' = false := by
      cases hq : isAsyncStart p t' with
      | false => rfl
      | true => rw [b hq] at ht; cases ht
    simp only [nAS] at hna
    rw [ht, ht'] at h3
    simp only [nAS, h1, List.countP_append, a]
    simp at h3
    omega

/-! ### the two call-local counting invariants -/

structure CallLe (p : Nat) (keys : List Key) (s : State) : Prop where
  used : p ∈ s.pids
  started : nPS p s = 0
  le : ∀ k : Key, k.1 = p → cP k s + cL k s ≤ keys.count k

structure CallEq (p : Nat) (keys : List Key) (s : State) : Prop where
  used : p ∈ s.pids
  started : nPS p s = 0
  noAsync : nAS p s = 0
  eq : ∀ k : Key, k.1 = p → cP k s + cL k s = keys.count k

theorem callLe_bstep {cfg : Cfg} {p : Nat} {keys : List Key} {s s' : State} (hc : CallLe p keys s)
    (h : BStep cfg s s') : CallLe p keys s' := by
  refine ⟨bstep_pids h hc.used, bstep_nPS_zero h hc.used hc.started, fun k hk => ?_⟩
  subst hk
  have := (bstep_counts h k hc.started).1
  have := hc.le k rfl
  omega

theorem callEq_bstep {cfg : Cfg} {p : Nat} {keys : List Key} {s s' : State} (hc : CallEq p keys s)
    (h : BStep cfg s s') : CallEq p keys s' := by
  refine ⟨bstep_pids h hc.used, bstep_nPS_zero h hc.used hc.started, bstep_nAS_zero h hc.started hc.noAsync,
    fun k hk => ?_⟩
  subst hk
  have := (bstep_counts h k hc.started).2.1 hc.noAsync
  have := hc.eq k rfl
  omega

theorem CallEq.toLe {p : Nat} {keys : List Key} {s : State} (h : CallEq p keys s) : CallLe p keys s :=
  ⟨h.used, h.started, fun k hk => Nat.le_of_eq (h.eq k hk)⟩

/-! ### the snapshot step -/

theorem nAS_zero_of_cP {p : Nat} {s : State} (h : ∀ k : Key, k.1 = p → cP k s = 0) : nAS p s = 0 := by
  rw [nAS, List.countP_eq_zero]
  intro t ht hq
  cases t with
  | asyncStart o it =>
    have hp : it.pid = p := by simpa [isAsyncStart] using hq
    have h0 := h (key it) hp
    rw [cP, List.count_eq_zero] at h0
    apply h0
    simp only [pendKeys, List.mem_flatMap]
    exact ⟨_, ht, by simp [pk, pend]⟩
  | _ => simp [isAsyncStart] at hq

/-- facts about the snapshot step of a call -/
structure Snapshot (cfg : Cfg) (s0 s1 : State) (i p o : Nat) (v : Variant) (evs : List Int) : Prop where
  fresh0 : Fresh s0
  at0 : s0.tasks[i]? = some (.pubStart p o v evs)
  used : p ∈ s0.pids
  zero0 : ∀ k : Key, k.1 = p → cP k s0 + cL k s0 = 0
  one0 : nPS p s0 = 1
  trans : ∃ t' new, TStep cfg s0 (.pubStart p o v evs) t' new [] [] ∧ s1.tasks = s0.tasks.set i t' ++ new ∧
    t' ≠ .pubStart p o v evs
  delivered : s1.delivered = s0.delivered
  timedOut : s1.timedOut = s0.timedOut
  pids : s1.pids = s0.pids

theorem snapshot_of_step {cfg : Cfg} {s0 s1 : State} {i p o : Nat} {v : Variant} {evs : List Int}
    {l : Option Event} (hr : Conc.Reachable (sys cfg) s0) (hi : s0.tasks[i]? = some (.pubStart p o v evs))
    (h01 : (l, s1) ∈ succ cfg s0) (hsnap : s1.tasks[i]? ≠ s0.tasks[i]?) : Snapshot cfg s0 s1 i p o v evs := by
  have hf := fresh_reachable cfg s0 hr
  obtain ⟨t', new, dl, tl, hT, h1, h2, h3, h4⟩ := bstep_changed (succ_bstep h01) hi hsnap
  have hpos : 0 < nPS p s0 := List.countP_pos_iff.mpr ⟨_, List.mem_of_getElem? hi, by simp [isPubStart]⟩
  have hle := hf.le1 p
  have hone : nPS p s0 = 1 := by omega
  have hused : p ∈ s0.pids := by
    apply Classical.byContradiction; intro hnu
    have := hf.unused p hnu; omega
  have hne : t' ≠ .pubStart p o v evs := tstep_pub_ne hT rfl
  have hdl : dl = [] ∧ tl = [] := by
    cases hT with
    | stuck _ hn => exact ⟨rfl, rfl⟩
    | ctl h1 h2 => exact ⟨rfl, rfl⟩
    | pubSync => exact ⟨rfl, rfl⟩
    | pubWait => exact ⟨rfl, rfl⟩
    | pubAsync => exact ⟨rfl, rfl⟩
  obtain ⟨rfl, rfl⟩ := hdl
  exact ⟨hf, hi, hused, hf.zero p (Or.inr hone), hone, ⟨t', new, hT, h1, hne⟩, by simpa using h2, by simpa using h3, h4⟩

theorem Snapshot.counts {cfg : Cfg} {s0 s1 : State} {i p o : Nat} {v : Variant} {evs : List Int}
    (h : Snapshot cfg s0 s1 i p o v evs) :
    nPS p s1 = 0 ∧ p ∈ s1.pids ∧
    ∀ k : Key, k.1 = p → cP k s1 = (callKeys p evs (s0.obj o).subs).count k ∧ cL k s1 = 0 := by
  obtain ⟨t', new, hT, h1, hne⟩ := h.trans
  have hd : s1.delivered = s0.delivered ++ [] := by simp [h.delivered]
  have hto : s1.timedOut = s0.timedOut ++ [] := by simp [h.timedOut]
  refine ⟨?_, h.pids ▸ h.used, fun k hk => ?_⟩
  · have := (task_nPS h.at0 hT h1 p).2 (by simp [isPubStart]) hne
    have := h.one0
    omega
  · obtain ⟨_, b, _, d⟩ := task_counts h.at0 hT h1 hd hto k
    have hz := h.zero0 k hk
    have hb := b rfl
    have hg : gain s0 (.pubStart p o v evs) k = (callKeys p evs (s0.obj o).subs).count k := rfl
    have hl : cL k s1 = cL k s0 := by simp [cL, logs, h.delivered, h.timedOut]
    omega

/-- every call satisfies `CallLe` from its snapshot on -/
theorem Snapshot.callLe {cfg : Cfg} {s0 s1 : State} {i p o : Nat} {v : Variant} {evs : List Int}
    (h : Snapshot cfg s0 s1 i p o v evs) : CallLe p (callKeys p evs (s0.obj o).subs) s1 := by
  obtain ⟨a, b, c⟩ := h.counts
  exact ⟨b, a, fun k hk => by have := c k hk; omega⟩

/-- PubSync / PubWait variants: no `sendAsync` goroutine of `p` exists, so nothing is ever dropped -/
theorem Snapshot.callEq {cfg : Cfg} {s0 s1 : State} {i p o : Nat} {v : Variant} {evs : List Int}
    (h : Snapshot cfg s0 s1 i p o v evs) (hv : v.isSync = true ∨ v.isWait = true) :
    CallEq p (callKeys p evs (s0.obj o).subs) s1 := by
  obtain ⟨a, b, c⟩ := h.counts
  refine ⟨b, a, ?_, fun k hk => by have := c k hk; omega⟩
  obtain ⟨t', new, hT, h1, hne⟩ := h.trans
  have hna0 : nAS p s0 = 0 := nAS_zero_of_cP (fun k hk => by have := h.zero0 k hk; omega)
  have h3 := countP_set_eq (isAsyncStart p) s0.tasks i _ t' h.at0
  simp only [nAS] at hna0
  simp only [nAS, h1, List.countP_append]
  have hnew : new.countP (isAsyncStart p) = 0 ∧ isAsyncStart p t' = false := by
    cases hT with
    | stuck _ hn => simp [isPub] at hn
    | ctl c1 c2 => simp [isCtl] at c1
    | pubSync p' o' v' evs' hv' =>
      refine ⟨rfl, ?_⟩
      cases hm : mkItems p evs (s0.obj o).subs <;> simp [syncNext, isAsyncStart]
    | pubWait p' o' v' evs' hv' hw' =>
      refine ⟨?_, rfl⟩
      rw [List.countP_eq_zero]; intro x hx
      simp only [List.mem_map] at hx; obtain ⟨_, _, rfl⟩ := hx; simp [isAsyncStart]
    | pubAsync p' o' v' evs' hv' hw' => rcases hv with hv | hv <;> simp_all
  obtain ⟨n1, n2⟩ := hnew
  rw [n2] at h3
  simp [isAsyncStart] at h3
  rw [n1]
  omega

end TypVerif.Lemmas.PubSubLog
