import TypVerif.Lemmas.KeyedMutexConcJudge
import TypVerif.Lemmas.KeyedMutexConcStep
import TypVerif.Lemmas.SyncMapTraceComplete
/-
COMPLETENESS of the line functions of the step-trace judge "C09conc" (`Drv/C09conc.lean`: `doInv` / `doStep` / `doIter` /
`doRes`) with respect to the composed transition system `Model/KeyedMutexConc.lean` — the converse of
`Lemmas/KeyedMutexConcJudge.lean` (`doStep_sound` …): every step of `KeyedMutexConc.succ` is accepted, with the model's
successor state as result, by the line function of the corresponding line

  inv t <kind> k                 an invocation step (`doInv`)
  step t op:<kind>               the start step of the method's map call  (`doStep`; the judge translates the label)
  step t <map hook label>        every other atomic action of the map call (`doStep` → `mapStep`)
  step t <hook label of kind>    the mutex action at the keyed mutex's own hook (`doStep` → `hookStep`)
  iter t k                       a key choice of the map's `range read.m` loop (`doIter`)
  res t done|true|false          a response step (`doRes`)

Three facts about the state are needed (`Good`), all of them part of the invariant proved for every reachable state
(`Lemmas.KeyedMutexConc.reachable_inv`):
  * `len`   : the map component and the phase list have the same number of goroutines (then `doInv`'s `pad` is the identity
              for an existing goroutine);
  * `picks` : the remaining pairs of a `range` loop have distinct keys (an `iter` line names a key only) — from `R`;
  * `start` : a goroutine inside the map call of a method of kind `kind` on key `k` that is parked at the start of a map
              operation is at the start of `mapOp kind k v` (`LoadOrStore(k, v)`, `Delete(k)` for `clear`) — so that the
              judge's translation of the scheduler's `op:<kind>` label hits the model's label.
-/
namespace TypVerif.Lemmas.KmTrace
open TypVerif TypVerif.Conc TypVerif.Model TypVerif.Model.SyncMapConc
open TypVerif.Model.KeyedMutexConc (Kind Phase MId mapOp invOk invStep contMap hookStep mapSteps afterMap finish acqW acqR
  retOf valOf)
open TypVerif.Drv.C09conc (St KS doStep doInv doIter doRes mapStep pad resStr hookLabel kindOf)
open TypVerif.Lemmas.SyncMapTrace (PicksNodup find?_key_of_mem picksNodup_of_R pad_pc pad_sh pad_setPc lt_of_pc_ne_idle)
open TypVerif.Proto (Val)

set_option linter.unusedSectionVars false

/-! ### labels -/

/-- the name of a method kind in a trace (`kindOf` is its inverse) -/
def kindStr : Kind → String
  | .lock => "lock" | .trylock => "trylock" | .unlock => "unlock"
  | .rlock => "rlock" | .tryrlock => "tryrlock" | .runlock => "runlock" | .clear => "clear"

theorem kindOf_kindStr (kind : Kind) : kindOf (kindStr kind) = some kind := by
  cases kind <;> rfl

/-- the label of the start step of a method, as the controlled scheduler announces it: `op:<kind>` -/
def opLabel : Kind → String
  | .lock => "op:lock" | .trylock => "op:trylock" | .unlock => "op:unlock"
  | .rlock => "op:rlock" | .tryrlock => "op:tryrlock" | .runlock => "op:runlock" | .clear => "op:clear"

/-- the judge's translation of a `step` label inside the map call -/
def relabel (label : String) : String :=
  if label.startsWith "op:" then (if label == "op:clear" then "op:delete" else "op:loadorstore") else label

theorem relabel_opLabel (kind : Kind) (k : Int) (v : MId) :
    relabel (opLabel kind) = (Pc.start (mapOp kind k v) : Pc Int MId).label := by
  cases kind <;> simp [relabel, opLabel, mapOp, Pc.label]

/-- no hook label of `map.go` starts with `op:` -/
theorem relabel_label_of_not_start (pc : Pc Int MId) (h : ∀ op, pc ≠ .start op) : relabel pc.label = pc.label := by
  cases pc with
  | start op => exact absurd rfl (h op)
  | readStore c k v rm => cases c <;> simp [relabel, Pc.label]
  | _ => simp [relabel, Pc.label]

/-- the label of the line that records the internal (non-`iter`) step of goroutine `t` -/
def stepLabel (rw : Bool) (s : KS) (t : Nat) : String :=
  match s.phase t with
  | .inMap kind _ =>
    match s.map.pc t with
    | .start _ => opLabel kind
    | pc => pc.label
  | .atHook kind _ _ => hookLabel rw kind
  | _ => "-"

/-! ### what completeness needs of a state -/

structure Good (s : KS) : Prop where
  len : s.map.pcs.length = s.phases.length
  picks : PicksNodup s.map
  start : ∀ t kind k op, s.phase t = .inMap kind k → s.map.pc t = .start op → ∃ v, op = mapOp kind k v

/-- the composed invariant of the `C09.conc_*` theorems (for any key `k`) gives `Good` -/
theorem good_of_inv {k : Int} {s : KS} {a : Smc.AState Int Nat} (h : KeyedMutexConc.Inv k s a) : Good s where
  len := h.len
  picks := picksNodup_of_R h.r
  start := by
    intro t kind k' op hph hpc
    obtain ⟨⟨v, hv⟩, _, _⟩ := (KeyedMutexConc.link_inMap hph).mp (h.link t)
    refine ⟨v, ?_⟩
    have hT := h.r.thr t
    rw [hpc] at hT
    have key : ∀ op' : SyncMapConc.Op Int Nat, Smc.Pend (a.pcs t) op' → op' = mapOp kind k' v := by
      intro op' hp
      cases ha : a.pcs t with
      | idle => rw [ha] at hp; exact absurd hp (by simp [Smc.Pend])
      | done o r => rw [ha] at hp; exact absurd hp (by simp [Smc.Pend])
      | pending o seen =>
        rw [ha] at hp hv
        simp only [Smc.Pend] at hp
        simp only [KeyedMutexConc.opOf, Option.some.injEq] at hv
        rw [← hp, hv]
    cases op with
    | range =>
      simp only [Smc.T] at hT
      cases ha : a.pcs t with
      | idle => rw [ha] at hv; simp [KeyedMutexConc.opOf] at hv
      | done o r => rw [ha] at hT; exact absurd hT.1 (by simp [Smc.IsIdle])
      | pending o seen => rw [ha] at hT; exact absurd hT.1 (by simp [Smc.IsIdle])
    | load k1 => simp only [Smc.T] at hT; exact key _ hT.1
    | store k1 v1 => simp only [Smc.T] at hT; exact key _ hT.1
    | loadOrStore k1 v1 => simp only [Smc.T] at hT; exact key _ hT.1
    | loadAndDelete k1 => simp only [Smc.T] at hT; exact key _ hT.1
    | delete k1 => simp only [Smc.T] at hT; exact key _ hT.1

theorem le_sum_of_mem {l : List Nat} {x : Nat} (h : x ∈ l) : x ≤ l.sum := by
  induction l with
  | nil => cases h
  | cons y r ih =>
    simp only [List.sum_cons]
    rcases List.mem_cons.mp h with e | h'
    · subst e; exact Nat.le_add_right _ _
    · exact Nat.le_trans (ih h') (Nat.le_add_left _ _)

/-- a finite menu over `Int` keys leaves some key alone -/
theorem exists_noClearKey (menu : List (KeyedMutexConc.Op Int)) : ∃ k, KeyedMutexConc.NoClearKey k menu := by
  refine ⟨((menu.map (fun op => op.key.natAbs)).sum + 1 : Nat), ?_⟩
  intro op hop _ he
  have h1 : op.key.natAbs ≤ (menu.map (fun op => op.key.natAbs)).sum :=
    le_sum_of_mem (List.mem_map.mpr ⟨op, hop, rfl⟩)
  rw [he] at h1
  simp only [Int.natAbs_natCast] at h1
  omega

/-- **`Good` holds in every reachable state** of the composed system (any menu, any number of goroutines, every schedule) -/
theorem good_of_reachable {menu : List (KeyedMutexConc.Op Int)} {n : Nat} {s : KS}
    (hr : Reachable (KeyedMutexConc.sys Int menu n) s) : Good s := by
  obtain ⟨k, hk⟩ := exists_noClearKey menu
  obtain ⟨a, h⟩ := KeyedMutexConc.reachable_inv hk n hr
  exact good_of_inv h

/-! ### padding -/

theorem pad_of_le {s : KS} {n : Nat} (h1 : n ≤ s.map.pcs.length) (h2 : n ≤ s.phases.length) : pad s n = s := by
  cases s with
  | mk map phases mus next offers wh rh faults =>
    cases map with
    | mk sh pcs =>
      have e1 : n - pcs.length = 0 := Nat.sub_eq_zero_of_le h1
      have e2 : n - phases.length = 0 := Nat.sub_eq_zero_of_le h2
      simp only [pad, e1, e2, List.replicate_zero, List.append_nil]

/-! ### one step -/

theorem mem_succ_iff {menu : List (KeyedMutexConc.Op Int)} {s : KS}
    {x : Option (KeyedMutexConc.Event Int) × KS} :
    x ∈ KeyedMutexConc.succ menu s ↔ ∃ t, t < s.phases.length ∧ x ∈ KeyedMutexConc.stepT menu s t := by
  unfold KeyedMutexConc.succ
  simp only [List.mem_flatMap, List.mem_range]

/-- an atomic action of the map call is accepted by `doStep` with the label `stepLabel` -/
theorem doStep_inMap_complete {st : St} (hg : Good st.s) {t : Nat} {kind : Kind} {k : Int} {sh' : Shared Int MId}
    {pc' : Pc Int MId} (hph : st.s.phase t = .inMap kind k)
    (hex : exec st.s.map.sh t (st.s.map.pc t) = some (sh', pc')) :
    doStep st t (stepLabel st.rw st.s t) = some (contMap st.s t kind k (setPc st.s.map t sh' pc')) := by
  have hrel : relabel (stepLabel st.rw st.s t) = (st.s.map.pc t).label := by
    unfold stepLabel
    rw [hph]
    simp only
    cases hpc : st.s.map.pc t with
    | start op =>
      obtain ⟨v, hv⟩ := hg.start t kind k op hph hpc
      simp only [hv]
      exact relabel_opLabel kind k v
    | _ => exact relabel_label_of_not_start _ (by intro op h; cases h)
  unfold doStep
  rw [hph]
  simp only
  have hrel' : (if (stepLabel st.rw st.s t).startsWith "op:" = true then
      if (stepLabel st.rw st.s t == "op:clear") = true then "op:delete" else "op:loadorstore"
      else stepLabel st.rw st.s t) = (st.s.map.pc t).label := hrel
  rw [hrel']
  unfold mapStep
  simp only [bne_self_eq_false, Bool.false_eq_true, if_false, hex]

/-- the line function of an internal step, dispatched on the kind of step -/
inductive Accepted (st : St) (s' : KS) : Prop where
  | step (t : Nat) : doStep st t (stepLabel st.rw st.s t) = some s' → Accepted st s'
  | iter (t : Nat) (k : Int) : doIter st t k = some s' → Accepted st s'

/-- **Every step of the composed model is accepted by the judge's line function for the corresponding line, with the
model's successor as the judge's new model state.** -/
theorem line_complete (menu : List (KeyedMutexConc.Op Int)) {st : St} (hg : Good st.s) {s' : KS}
    {l : Option (KeyedMutexConc.Event Int)} (h : (l, s') ∈ KeyedMutexConc.succ menu st.s) :
    (∃ t kind k, l = some (.inv t ⟨kind, k⟩) ∧ (⟨kind, k⟩ : KeyedMutexConc.Op Int) ∈ menu ∧
        doInv st t kind k = some s') ∨
    (∃ t r, l = some (.res t r) ∧ doRes st t (resStr r) = some s') ∨
    (l = none ∧ Accepted st s') := by
  obtain ⟨t, ht, hst⟩ := mem_succ_iff.mp h
  unfold KeyedMutexConc.stepT at hst
  cases hph : st.s.phase t with
  | idle =>
    rw [hph] at hst
    simp only at hst
    obtain ⟨op, hop, heq⟩ := List.mem_map.mp hst
    obtain ⟨hop1, hop2⟩ := List.mem_filter.mp hop
    obtain ⟨kind, k⟩ := op
    simp only [Prod.mk.injEq] at heq
    refine Or.inl ⟨t, kind, k, heq.1.symm, hop1, ?_⟩
    unfold doInv
    have hpad : pad st.s (t + 1) = st.s := pad_of_le (by rw [hg.len]; exact ht) ht
    simp only [hpad, hph, hop2, if_true]
    rw [heq.2]
  | ret r =>
    rw [hph] at hst
    simp only [List.mem_singleton, Prod.mk.injEq] at hst
    refine Or.inr (Or.inl ⟨t, r, hst.1, ?_⟩)
    unfold doRes
    simp only [hph, beq_self_eq_true, if_true]
    rw [hst.2]
  | atHook kind k m =>
    rw [hph] at hst
    simp only at hst
    cases hh : hookStep st.s t kind k m with
    | none => rw [hh] at hst; cases hst
    | some s1 =>
      rw [hh] at hst
      simp only [List.mem_singleton, Prod.mk.injEq] at hst
      refine Or.inr (Or.inr ⟨hst.1, .step t ?_⟩)
      unfold doStep stepLabel
      simp only [hph, bne_self_eq_false, Bool.false_eq_true, if_false, hh]
      rw [hst.2]
  | inMap kind k =>
    rw [hph] at hst
    simp only at hst
    obtain ⟨ms', hms, heq⟩ := List.mem_map.mp hst
    simp only [Prod.mk.injEq] at heq
    refine Or.inr (Or.inr ⟨heq.1.symm, ?_⟩)
    unfold mapSteps at hms
    rcases List.mem_append.mp hms with hm | hm
    · cases hex : exec st.s.map.sh t (st.s.map.pc t) with
      | none => rw [hex] at hm; cases hm
      | some p =>
        obtain ⟨sh', pc'⟩ := p
        rw [hex] at hm
        have e := List.mem_singleton.mp hm
        refine .step t ?_
        rw [doStep_inMap_complete hg hph hex, ← heq.2, e]
    · obtain ⟨c, hc, hc'⟩ := List.mem_map.mp hm
      refine .iter t c.1 ?_
      unfold doIter
      simp only [hph]
      rw [find?_key_of_mem (hg.picks t) hc]
      simp only
      rw [hc', heq.2]

/-! ### a trace: the pure fold of the judge's line functions -/

/-- a parsed line of a `km` step trace -/
inductive KLine where
  | inv (t : Nat) (kind : Kind) (k : Int)
  | step (t : Nat) (label : String)
  | iter (t : Nat) (k : Int)
  | res (t : Nat) (r : KeyedMutexConc.Res)

/-- the visible event of a line -/
def KLine.event : KLine → Option (KeyedMutexConc.Event Int)
  | .inv t kind k => some (.inv t ⟨kind, k⟩)
  | .res t r => some (.res t r)
  | _ => none

/-- what the judge does with a parsed line (the `go (doX …)` of `Drv.C09conc.step`): `none` = rejected -/
def applyK (st : St) : KLine → Option St
  | .inv t kind k => (doInv st t kind k).map (fun s' => { st with s := s' })
  | .step t label => (doStep st t label).map (fun s' => { st with s := s' })
  | .iter t k => (doIter st t k).map (fun s' => { st with s := s' })
  | .res t r => (doRes st t (resStr r)).map (fun s' => { st with s := s' })

def replayK (st : St) : List KLine → Option St
  | [] => some st
  | l :: ls =>
    match applyK st l with
    | some st' => replayK st' ls
    | none => none

/-- one step of the model, as a line accepted by `applyK` -/
theorem applyK_complete (menu : List (KeyedMutexConc.Op Int)) {st : St} (hg : Good st.s) {s' : KS}
    {l : Option (KeyedMutexConc.Event Int)} (h : (l, s') ∈ KeyedMutexConc.succ menu st.s) :
    ∃ ln, applyK st ln = some { st with s := s' } ∧ ln.event = l := by
  rcases line_complete menu hg h with ⟨t, kind, k, rfl, _, h1⟩ | ⟨t, r, rfl, h1⟩ | ⟨rfl, h1⟩
  · exact ⟨.inv t kind k, by simp only [applyK, h1, Option.map_some], rfl⟩
  · exact ⟨.res t r, by simp only [applyK, h1, Option.map_some], rfl⟩
  · cases h1 with
    | step t h2 => exact ⟨.step t (stepLabel st.rw st.s t), by simp only [applyK, h2, Option.map_some], rfl⟩
    | iter t k h2 => exact ⟨.iter t k, by simp only [applyK, h2, Option.map_some], rfl⟩

/-- **Every execution of the composed model from a reachable state is accepted by the fold of the judge's line
functions**, line for line, with the model's final state as the judge's final model state. -/
theorem replayK_complete (menu : List (KeyedMutexConc.Op Int)) (n : Nat)
    {s s' : (KeyedMutexConc.sys Int menu n).State} {evs : List (Option (KeyedMutexConc.sys Int menu n).Event)}
    (h : Exec (KeyedMutexConc.sys Int menu n) s evs s') :
    Reachable (KeyedMutexConc.sys Int menu n) s → ∀ st : St, st.s = s →
      ∃ ls : List KLine, replayK st ls = some { st with s := s' } ∧ ls.map KLine.event = evs := by
  induction h with
  | nil s =>
    intro _ st hst
    refine ⟨[], ?_, rfl⟩
    subst hst
    rfl
  | @cons s0 s1 s2 l ls0 hmem _ ih =>
    intro hr st hst
    subst hst
    have hmem' : (l, s1) ∈ KeyedMutexConc.succ menu st.s := hmem
    obtain ⟨ln, h1, h2⟩ := applyK_complete menu (good_of_reachable hr) hmem'
    obtain ⟨ls, h3, h4⟩ := ih (Reachable.step hr hmem) { st with s := s1 } rfl
    refine ⟨ln :: ls, ?_, ?_⟩
    · simp only [replayK, h1]; exact h3
    · simp only [List.map_cons, h2, h4]

/-! ### the judge creates goroutines on demand: commutation of the line functions with `pad` -/

/-- the map component of a padded state -/
theorem pad_map (s : KS) (n : Nat) : (pad s n).map = SyncMapTrace.pad s.map n := rfl
theorem pad_phases (s : KS) (n : Nat) :
    (pad s n).phases = s.phases ++ List.replicate (n - s.phases.length) .idle := rfl

@[simp] theorem pad_phase (s : KS) (n t : Nat) : (pad s n).phase t = s.phase t := by
  simp only [KeyedMutexConc.State.phase, pad_phases, List.getD_eq_getElem?_getD]
  by_cases ht : t < s.phases.length
  · rw [List.getElem?_append_left ht]
  · have ht' : s.phases.length ≤ t := Nat.le_of_not_lt ht
    rw [List.getElem?_append_right ht', List.getElem?_eq_none (l := s.phases) ht']
    simp only [List.getElem?_replicate]
    split <;> rfl

@[simp] theorem pad_mapPc (s : KS) (n t : Nat) : (pad s n).map.pc t = s.map.pc t := by
  rw [pad_map, pad_pc]
@[simp] theorem pad_mapSh (s : KS) (n : Nat) : (pad s n).map.sh = s.map.sh := rfl
@[simp] theorem pad_mu (s : KS) (n : Nat) (m : MId) : (pad s n).mu m = s.mu m := rfl
@[simp] theorem pad_next (s : KS) (n : Nat) : (pad s n).next = s.next := rfl
@[simp] theorem pad_invOk (s : KS) (n t : Nat) (op : KeyedMutexConc.Op Int) : invOk (pad s n) t op = invOk s t op := rfl

theorem lt_of_phase_ne_idle {s : KS} {t : Nat} (h : s.phase t ≠ .idle) : t < s.phases.length := by
  apply Classical.byContradiction
  intro hn
  exact h (KeyedMutexConc.phase_of_le (Nat.le_of_not_lt hn))

theorem pad_setPhase {s : KS} {t : Nat} (ht : t < s.phases.length) (n : Nat) (p : Phase Int) :
    pad (s.setPhase t p) n = (pad s n).setPhase t p := by
  simp only [pad, KeyedMutexConc.State.setPhase, List.length_set, List.set_append_left _ _ ht]

theorem pad_setMu (s : KS) (n : Nat) (m : MId) (x : KeyedMutexConc.Mu) : pad (s.setMu m x) n = (pad s n).setMu m x := rfl

theorem pad_withMap (s : KS) (n : Nat) (ms : SyncMapConc.State Int MId) :
    pad { s with map := ms } n = { pad s n with map := SyncMapTrace.pad ms n } := rfl

theorem pad_afterMap {s : KS} {t : Nat} (ht : t < s.phases.length) (n : Nat) (kind : Kind) (k : Int) (m : MId) :
    pad (afterMap s t kind k m) n = afterMap (pad s n) t kind k m := by
  cases kind <;>
    simp only [afterMap, pad, KeyedMutexConc.State.setPhase, KeyedMutexConc.State.setMu, KeyedMutexConc.State.mu,
      List.length_set, List.set_append_left _ _ ht] <;> rfl

theorem pad_finish {s : KS} {t : Nat} (ht : t < s.phases.length) (n : Nat) (kind : Kind) (k : Int) (o : Option MId) :
    pad (finish s t kind k o) n = finish (pad s n) t kind k o := by
  cases o with
  | none => exact pad_setPhase ht n _
  | some m => exact pad_afterMap ht n kind k m

theorem pad_contMap {s : KS} {t : Nat} (ht : t < s.phases.length) (n : Nat) (kind : Kind) (k : Int)
    (ms : SyncMapConc.State Int MId) :
    pad (contMap s t kind k ms) n = contMap (pad s n) t kind k (SyncMapTrace.pad ms n) := by
  unfold contMap
  rw [pad_pc]
  cases hr : retOf (ms.pc t) with
  | none => rfl
  | some r =>
    simp only
    have hpc : ms.pc t ≠ .idle := by
      intro hc; rw [hc] at hr; cases hr
    rw [pad_sh, ← pad_setPc (lt_of_pc_ne_idle hpc)]
    exact pad_finish (s := { s with map := setPc ms t ms.sh .idle }) ht n kind k (valOf r)

theorem pad_acqW {s : KS} {t : Nat} (ht : t < s.phases.length) (n : Nat) (k : Int) (m : MId) (r : KeyedMutexConc.Res) :
    pad (acqW s t k m r) n = acqW (pad s n) t k m r := by
  simp only [acqW, pad, KeyedMutexConc.State.setPhase, KeyedMutexConc.State.setMu, KeyedMutexConc.State.mu,
      List.length_set, List.set_append_left _ _ ht]

theorem pad_acqR {s : KS} {t : Nat} (ht : t < s.phases.length) (n : Nat) (k : Int) (m : MId) (r : KeyedMutexConc.Res) :
    pad (acqR s t k m r) n = acqR (pad s n) t k m r := by
  simp only [acqR, pad, KeyedMutexConc.State.setPhase, KeyedMutexConc.State.setMu, KeyedMutexConc.State.mu,
      List.length_set, List.set_append_left _ _ ht]

theorem pad_hookStep {s : KS} {t : Nat} (ht : t < s.phases.length) (n : Nat) (kind : Kind) (k : Int) (m : MId) :
    hookStep (pad s n) t kind k m = (hookStep s t kind k m).map (pad · n) := by
  have hm : (pad s n).mu m = s.mu m := rfl
  cases kind with
  | lock =>
    simp only [hookStep, hm]
    by_cases hf : (s.mu m).free
    · simp only [hf, if_true, Option.map_some, pad_acqW ht]
    · simp only [hf, if_false, Option.map_none]
  | rlock =>
    simp only [hookStep, hm]
    by_cases hf : (s.mu m).readable
    · simp only [hf, if_true, Option.map_some, pad_acqR ht]
    · simp only [hf, if_false, Option.map_none]
  | trylock =>
    simp only [hookStep, hm]
    by_cases hf : (s.mu m).free
    · simp only [hf, if_true, Option.map_some, pad_acqW ht]
    · simp only [hf, if_false, Option.map_some, pad_setPhase ht]
  | tryrlock =>
    simp only [hookStep, hm]
    by_cases hf : (s.mu m).readable
    · simp only [hf, if_true, Option.map_some, pad_acqR ht]
    · simp only [hf, if_false, Option.map_some, pad_setPhase ht]
  | unlock => rfl
  | runlock => rfl
  | clear => rfl


theorem pad_phases_length (s : KS) (n : Nat) : (pad s n).phases.length = max s.phases.length n := by
  simp only [pad_phases, List.length_append, List.length_replicate]; omega
theorem pad_pcs_length (s : KS) (n : Nat) : (pad s n).map.pcs.length = max s.map.pcs.length n := by
  rw [pad_map, SyncMapTrace.pad_length]

theorem pad_pad (s : KS) (a b : Nat) (h : a ≤ b) : pad (pad s a) b = pad s b := by
  cases s with
  | mk map phases mus next offers wh rh faults =>
    cases map with
    | mk sh pcs =>
      simp only [pad, List.length_append, List.length_replicate, List.append_assoc, List.replicate_append_replicate,
        KeyedMutexConc.State.mk.injEq, SyncMapConc.State.mk.injEq, true_and, and_true]
      constructor
      · congr 2; omega
      · congr 2; omega

theorem pad_invStep {s : KS} {t : Nat} (h1 : t < s.map.pcs.length) (h2 : t < s.phases.length) (n : Nat)
    (op : KeyedMutexConc.Op Int) : pad (invStep s t op) n = invStep (pad s n) t op := by
  simp only [invStep, pad, setPc, List.length_set, List.set_append_left _ _ h1, List.set_append_left _ _ h2]

theorem mapStep_pad {j : KS} {t : Nat} (ht : t < j.phases.length) (n : Nat) (kind : Kind) (k : Int) (label : String) :
    mapStep (pad j n) t kind k label = (mapStep j t kind k label).map (pad · n) := by
  unfold mapStep
  simp only [pad_mapPc, pad_mapSh]
  cases hl : ((j.map.pc t).label != label) with
  | true => simp only [if_true, Option.map_none]
  | false =>
    simp only [Bool.false_eq_true, if_false]
    cases hex : exec j.map.sh t (j.map.pc t) with
    | none => rfl
    | some p =>
      obtain ⟨sh', pc'⟩ := p
      simp only [Option.map_some]
      have hpc : j.map.pc t ≠ .idle := by
        intro hc; rw [hc] at hex; cases hex
      rw [pad_contMap ht, pad_setPc (lt_of_pc_ne_idle hpc)]
      rfl

theorem doStep_pad (st : St) (j : KS) (n t : Nat) (label : String) :
    doStep { st with s := pad j n } t label = (doStep { st with s := j } t label).map (pad · n) := by
  unfold doStep
  simp only [pad_phase]
  cases hph : j.phase t with
  | idle => rfl
  | ret r => rfl
  | atHook kind k m =>
    simp only
    have ht : t < j.phases.length := lt_of_phase_ne_idle (by rw [hph]; intro h; cases h)
    split
    · rfl
    · exact pad_hookStep ht n kind k m
  | inMap kind k =>
    have ht : t < j.phases.length := lt_of_phase_ne_idle (by rw [hph]; intro h; cases h)
    exact mapStep_pad ht n kind k _

theorem doIter_pad (st : St) (j : KS) (n t : Nat) (k : Int) :
    doIter { st with s := pad j n } t k = (doIter { st with s := j } t k).map (pad · n) := by
  unfold doIter
  simp only [pad_phase, pad_mapPc, pad_mapSh]
  cases hph : j.phase t with
  | idle => rfl
  | ret r => rfl
  | atHook kind k m => rfl
  | inMap kind k' =>
    simp only
    have ht : t < j.phases.length := lt_of_phase_ne_idle (by rw [hph]; intro h; cases h)
    cases hf : (picks (j.map.pc t)).find? (·.1 == k) with
    | none => rfl
    | some c =>
      simp only [Option.map_some]
      have hmem : c ∈ picks (j.map.pc t) := List.mem_of_find?_eq_some hf
      have hpc : j.map.pc t ≠ .idle := by
        intro hc; rw [hc] at hmem; cases hmem
      rw [pad_contMap ht, pad_setPc (lt_of_pc_ne_idle hpc)]
      rfl

theorem doRes_pad (st : St) (j : KS) (n t : Nat) (r : String) :
    doRes { st with s := pad j n } t r = (doRes { st with s := j } t r).map (pad · n) := by
  unfold doRes
  simp only [pad_phase]
  cases hph : j.phase t with
  | idle => rfl
  | inMap kind k => rfl
  | atHook kind k m => rfl
  | ret r' =>
    simp only
    have ht : t < j.phases.length := lt_of_phase_ne_idle (by rw [hph]; intro h; cases h)
    split
    · simp only [Option.map_some, pad_setPhase ht]
    · rfl

theorem doInv_pad (st : St) (j : KS) {n t : Nat} (ht : t < n) (kind : Kind) (k : Int) :
    doInv { st with s := pad j n } t kind k = (doInv { st with s := j } t kind k).map (pad · n) := by
  unfold doInv
  have h1 : pad (pad j n) (t + 1) = pad j n :=
    pad_of_le (by rw [pad_pcs_length]; omega) (by rw [pad_phases_length]; omega)
  simp only [h1, pad_phase]
  cases hph : j.phase t with
  | ret r => rfl
  | inMap kind k => rfl
  | atHook kind k m => rfl
  | idle =>
    simp only
    have e1 : invOk (pad j n) t ⟨kind, k⟩ = invOk j t ⟨kind, k⟩ := rfl
    have e2 : invOk (pad j (t + 1)) t ⟨kind, k⟩ = invOk j t ⟨kind, k⟩ := rfl
    rw [e1, e2]
    cases hok : invOk j t ⟨kind, k⟩ with
    | false => simp only [Bool.false_eq_true, if_false, Option.map_none]
    | true =>
      simp only [if_true, Option.map_some]
      rw [pad_invStep (by rw [pad_pcs_length]; omega) (by rw [pad_phases_length]; omega), pad_pad _ _ _ ht]


/-! ### the number of goroutines -/

/-- both goroutine lists have at most `n` entries -/
def LenLe (s : KS) (n : Nat) : Prop := s.phases.length ≤ n ∧ s.map.pcs.length ≤ n

theorem afterMap_lens (s : KS) (t : Nat) (kind : Kind) (k : Int) (m : MId) :
    (afterMap s t kind k m).phases.length = s.phases.length ∧ (afterMap s t kind k m).map = s.map := by
  cases kind <;> simp [afterMap, KeyedMutexConc.State.setPhase, KeyedMutexConc.State.setMu]

theorem finish_lens (s : KS) (t : Nat) (kind : Kind) (k : Int) (o : Option MId) :
    (finish s t kind k o).phases.length = s.phases.length ∧ (finish s t kind k o).map = s.map := by
  cases o with
  | none => simp [finish, KeyedMutexConc.State.setPhase]
  | some m => exact afterMap_lens s t kind k m

theorem contMap_lens (s : KS) (t : Nat) (kind : Kind) (k : Int) (ms : SyncMapConc.State Int MId) :
    (contMap s t kind k ms).phases.length = s.phases.length ∧
    (contMap s t kind k ms).map.pcs.length = ms.pcs.length := by
  unfold contMap
  cases retOf (ms.pc t) with
  | none => exact ⟨rfl, rfl⟩
  | some r =>
    simp only
    have h := finish_lens { s with map := setPc ms t ms.sh .idle } t kind k (valOf r)
    rw [h.1, h.2]
    simp [setPc]

theorem hookStep_lens {s s' : KS} {t : Nat} {kind : Kind} {k : Int} {m : MId} (h : hookStep s t kind k m = some s') :
    s'.phases.length = s.phases.length ∧ s'.map = s.map := by
  cases kind <;> simp only [hookStep] at h <;> (try split at h) <;> first | cases h | skip
  all_goals simp [acqW, acqR, KeyedMutexConc.State.setPhase, KeyedMutexConc.State.setMu]

theorem doStep_lens {st : St} {t : Nat} {label : String} {s' : KS} (h : doStep st t label = some s') :
    s'.phases.length = st.s.phases.length ∧ s'.map.pcs.length = st.s.map.pcs.length := by
  unfold doStep at h
  cases hph : st.s.phase t with
  | idle => rw [hph] at h; cases h
  | ret r => rw [hph] at h; cases h
  | atHook kind k m =>
    simp only [hph] at h
    split at h
    · cases h
    · have := hookStep_lens h
      rw [this.1, this.2]; exact ⟨rfl, rfl⟩
  | inMap kind k =>
    simp only [hph] at h
    obtain ⟨ms', hms, heq, _⟩ := KeyedMutexConc.mapStep_sound h
    obtain ⟨sh', pc', rfl⟩ := KeyedMutexConc.mapSteps_shape hms
    rw [heq]
    have := contMap_lens st.s t kind k (setPc st.s.map t sh' pc')
    rw [this.1, this.2]
    simp [setPc]

theorem doIter_lens {st : St} {t : Nat} {k : Int} {s' : KS} (h : doIter st t k = some s') :
    s'.phases.length = st.s.phases.length ∧ s'.map.pcs.length = st.s.map.pcs.length := by
  unfold doIter at h
  cases hph : st.s.phase t with
  | idle => rw [hph] at h; cases h
  | ret r => rw [hph] at h; cases h
  | atHook kind k m => rw [hph] at h; cases h
  | inMap kind k' =>
    simp only [hph] at h
    split at h
    · cases h
      rename_i pc' _
      have := contMap_lens st.s t kind k' (setPc st.s.map t st.s.map.sh pc')
      rw [this.1, this.2]
      simp [setPc]
    · cases h

theorem doRes_lens {st : St} {t : Nat} {r : String} {s' : KS} (h : doRes st t r = some s') :
    s'.phases.length = st.s.phases.length ∧ s'.map.pcs.length = st.s.map.pcs.length := by
  unfold doRes at h
  split at h
  · split at h
    · cases h; simp [KeyedMutexConc.State.setPhase]
    · cases h
  · cases h

theorem doInv_lens {st : St} {t : Nat} {kind : Kind} {k : Int} {s' : KS} (h : doInv st t kind k = some s') :
    s'.phases.length = max st.s.phases.length (t + 1) ∧ s'.map.pcs.length = max st.s.map.pcs.length (t + 1) := by
  unfold doInv at h
  simp only at h
  split at h
  · split at h
    · cases h
      simp only [invStep, setPc, List.length_set]
      exact ⟨pad_phases_length _ _, pad_pcs_length _ _⟩
    · cases h
  · cases h


/-! ### the judge's run from the empty state -/

theorem applyK_pad (st : St) (j : KS) (n : Nat) (ln : KLine) (hl : ∀ t kind k, ln = .inv t kind k → t < n) :
    applyK { st with s := pad j n } ln =
      (applyK { st with s := j } ln).map (fun st' => { st' with s := pad st'.s n }) := by
  cases ln with
  | inv t kind k =>
    simp only [applyK, doInv_pad st j (hl t kind k rfl), Option.map_map]; rfl
  | step t label => simp only [applyK, doStep_pad, Option.map_map]; rfl
  | iter t k => simp only [applyK, doIter_pad, Option.map_map]; rfl
  | res t r => simp only [applyK, doRes_pad, Option.map_map]; rfl

theorem applyK_fields {st st' : St} {ln : KLine} (h : applyK st ln = some st') :
    st' = { st with s := st'.s } := by
  cases ln <;> simp only [applyK, Option.map_eq_some_iff] at h <;> obtain ⟨s', _, rfl⟩ := h <;> rfl

theorem applyK_lenLe {st st' : St} {ln : KLine} {n : Nat} (h : applyK st ln = some st')
    (hl : ∀ t kind k, ln = .inv t kind k → t < n) (hn : LenLe st.s n) : LenLe st'.s n := by
  cases ln with
  | inv t kind k =>
    simp only [applyK, Option.map_eq_some_iff] at h
    obtain ⟨s', h1, rfl⟩ := h
    have := doInv_lens h1
    have ht := hl t kind k rfl
    exact ⟨by rw [this.1]; exact Nat.max_le.mpr ⟨hn.1, ht⟩, by rw [this.2]; exact Nat.max_le.mpr ⟨hn.2, ht⟩⟩
  | step t label =>
    simp only [applyK, Option.map_eq_some_iff] at h
    obtain ⟨s', h1, rfl⟩ := h
    have := doStep_lens h1
    exact ⟨by rw [this.1]; exact hn.1, by rw [this.2]; exact hn.2⟩
  | iter t k =>
    simp only [applyK, Option.map_eq_some_iff] at h
    obtain ⟨s', h1, rfl⟩ := h
    have := doIter_lens h1
    exact ⟨by rw [this.1]; exact hn.1, by rw [this.2]; exact hn.2⟩
  | res t r =>
    simp only [applyK, Option.map_eq_some_iff] at h
    obtain ⟨s', h1, rfl⟩ := h
    have := doRes_lens h1
    exact ⟨by rw [this.1]; exact hn.1, by rw [this.2]; exact hn.2⟩

/-- one step of the model, as a line accepted by `applyK`; an `inv` line names an existing goroutine -/
theorem applyK_complete' (menu : List (KeyedMutexConc.Op Int)) {st : St} (hg : Good st.s) {s' : KS}
    {l : Option (KeyedMutexConc.Event Int)} (h : (l, s') ∈ KeyedMutexConc.succ menu st.s) :
    ∃ ln, applyK st ln = some { st with s := s' } ∧ ln.event = l ∧
      ∀ t kind k, ln = .inv t kind k → t < st.s.phases.length := by
  obtain ⟨ln, h1, h2⟩ := applyK_complete menu hg h
  refine ⟨ln, h1, h2, ?_⟩
  intro t kind k e
  subst e
  simp only [applyK, Option.map_eq_some_iff] at h1
  obtain ⟨s1, h3, _⟩ := h1
  apply Classical.byContradiction
  intro hn
  have hle : st.s.phases.length ≤ t := Nat.le_of_not_lt hn
  -- the step is an invocation of goroutine `t`, which `succ` only offers for `t < phases.length`
  obtain ⟨u, hu, hst⟩ := mem_succ_iff.mp h
  have hl : l = some (.inv t ⟨kind, k⟩) := h2.symm
  subst hl
  unfold KeyedMutexConc.stepT at hst
  cases hph : st.s.phase u with
  | idle =>
    rw [hph] at hst
    simp only at hst
    obtain ⟨op, _, heq⟩ := List.mem_map.mp hst
    simp only [Prod.mk.injEq, Option.some.injEq, KeyedMutexConc.Event.inv.injEq] at heq
    obtain ⟨⟨e, _⟩, _⟩ := heq
    first | exact hn (e ▸ hu) | exact hn (e.symm ▸ hu)
  | ret r =>
    rw [hph] at hst
    simp only [List.mem_singleton, Prod.mk.injEq, Option.some.injEq, reduceCtorEq, false_and] at hst
  | atHook kind' k' m =>
    rw [hph] at hst
    simp only at hst
    cases hh : hookStep st.s u kind' k' m with
    | none => rw [hh] at hst; cases hst
    | some s2 =>
      rw [hh] at hst
      simp only [List.mem_singleton, Prod.mk.injEq, reduceCtorEq, false_and] at hst
  | inMap kind' k' =>
    rw [hph] at hst
    simp only at hst
    obtain ⟨ms', _, heq⟩ := List.mem_map.mp hst
    simp only [Prod.mk.injEq, reduceCtorEq, false_and] at heq

/-- **The judge follows every execution of the model.**  The model runs with `n` goroutines from a reachable state `s`;
the judge is in a state `j` that is `s` without some idle goroutines at the end of the goroutine lists (`pad j n = s`:
the judge creates goroutines when an `inv` line first names them).  Then the judge's line functions accept a line list
recording the execution, one line per step with exactly the execution's labels, and end in the model's final state up to
goroutines not yet created. -/
theorem replayK_follows (menu : List (KeyedMutexConc.Op Int)) (n : Nat)
    {s s' : (KeyedMutexConc.sys Int menu n).State} {evs : List (Option (KeyedMutexConc.sys Int menu n).Event)}
    (h : Exec (KeyedMutexConc.sys Int menu n) s evs s') :
    Reachable (KeyedMutexConc.sys Int menu n) s → ∀ (st : St) (j : KS), LenLe j n → pad j n = s →
      ∃ (ls : List KLine) (j' : KS), replayK { st with s := j } ls = some { st with s := j' } ∧
        ls.map KLine.event = evs ∧ LenLe j' n ∧ pad j' n = s' := by
  induction h with
  | nil s => intro _ st j hj hp; exact ⟨[], j, rfl, rfl, hj, hp⟩
  | @cons s0 s1 s2 l ls0 hmem _ ih =>
    intro hr st j hj hp
    subst hp
    have hmem' : (l, s1) ∈ KeyedMutexConc.succ menu ({ st with s := pad j n } : St).s := hmem
    obtain ⟨ln, h1, h2, h3⟩ := applyK_complete' menu (st := { st with s := pad j n }) (good_of_reachable hr) hmem'
    have hlt : ∀ t kind k, ln = .inv t kind k → t < n := by
      intro t kind k e
      have := h3 t kind k e
      simp only [pad_phases_length] at this
      have := hj.1
      omega
    rw [applyK_pad st j n ln hlt] at h1
    obtain ⟨st1, h4, h5⟩ := Option.map_eq_some_iff.mp h1
    have hf := applyK_fields h4
    have hj1 : LenLe st1.s n := applyK_lenLe h4 hlt hj
    have hp1 : pad st1.s n = s1 := by
      have := congrArg St.s h5
      exact this
    have hst1 : st1 = { st with s := st1.s } := hf
    obtain ⟨ls, j', h6, h7, h8, h9⟩ := ih (Reachable.step hr hmem) st st1.s hj1 hp1
    refine ⟨ln :: ls, j', ?_, ?_, h8, h9⟩
    · simp only [replayK, h4]
      rw [hst1]; exact h6
    · simp only [List.map_cons, h2, h7]

/-! ### tokens: what `Drv.C09conc.step` does with the lines -/

def KLine.toks : KLine → List Val
  | .inv t kind k => [.w "inv", .i t, .w (kindStr kind), .i k]
  | .step t label => [.w "step", .i t, .w label]
  | .iter t k => [.w "iter", .i t, .i k]
  | .res t r => [.w "res", .i t, .w (resStr r)]

theorem resStr_not_panic (r : KeyedMutexConc.Res) : (resStr r).startsWith "panic:" = false := by
  cases r <;> simp [resStr]

theorem step_toks (st : St) (impl : String) (hs : st.started = true) (hd : st.dead = false) (ln : KLine) :
    (Drv.C09conc.step st ln.toks impl).1 =
      match applyK st ln with
      | some st' => st'
      | none => { st with dead := true } := by
  cases ln with
  | inv t kind k =>
    simp only [KLine.toks, Drv.C09conc.step, hs, hd, applyK, kindOf_kindStr]
    split
    · rename_i h; simp at h
    · simp only [Int.toNat_natCast]
      cases doInv st t kind k <;> simp
  | step t label =>
    simp only [KLine.toks, Drv.C09conc.step, hs, hd, applyK]
    split
    · rename_i h; simp at h
    · simp only [Int.toNat_natCast]
      cases doStep st t label <;> simp
  | iter t k =>
    simp only [KLine.toks, Drv.C09conc.step, hs, hd, applyK]
    split
    · rename_i h; simp at h
    · simp only [Int.toNat_natCast]
      cases doIter st t k <;> simp
  | res t r =>
    simp only [KLine.toks, Drv.C09conc.step, hs, hd, applyK, resStr_not_panic]
    split
    · rename_i h; simp at h
    · simp only [Int.toNat_natCast]
      cases doRes st t (resStr r) <;> simp

theorem step_toks_ok (st : St) (impl : String) (hs : st.started = true) (hd : st.dead = false) (ln : KLine) {st' : St}
    (h : applyK st ln = some st') :
    (Drv.C09conc.step st ln.toks impl).1 = st' ∧ (Drv.C09conc.step st ln.toks impl).2.model = "ok" := by
  refine ⟨by rw [step_toks st impl hs hd ln, h], ?_⟩
  cases ln with
  | inv t kind k =>
    simp only [applyK, Option.map_eq_some_iff] at h
    obtain ⟨s', h1, _⟩ := h
    simp only [KLine.toks, Drv.C09conc.step, hs, hd, kindOf_kindStr]
    split
    · rename_i h; simp at h
    · simp only [Int.toNat_natCast, h1]; simp
  | step t label =>
    simp only [applyK, Option.map_eq_some_iff] at h
    obtain ⟨s', h1, _⟩ := h
    simp only [KLine.toks, Drv.C09conc.step, hs, hd]
    split
    · rename_i h; simp at h
    · simp only [Int.toNat_natCast, h1]; simp
  | iter t k =>
    simp only [applyK, Option.map_eq_some_iff] at h
    obtain ⟨s', h1, _⟩ := h
    simp only [KLine.toks, Drv.C09conc.step, hs, hd]
    split
    · rename_i h; simp at h
    · simp only [Int.toNat_natCast, h1]; simp
  | res t r =>
    simp only [applyK, Option.map_eq_some_iff] at h
    obtain ⟨s', h1, _⟩ := h
    simp only [KLine.toks, Drv.C09conc.step, hs, hd, resStr_not_panic]
    split
    · rename_i h; simp at h
    · simp only [Int.toNat_natCast, h1]; simp

/-- the judge's fold over token lines -/
def runLines (st : St) (lines : List (List Val × String)) : St :=
  lines.foldl (fun st l => (Drv.C09conc.step st l.1 l.2).1) st

theorem applyK_flags {st st' : St} {ln : KLine} (h : applyK st ln = some st') :
    st'.started = st.started ∧ st'.dead = st.dead ∧ st'.rw = st.rw := by
  rw [applyK_fields h]; exact ⟨rfl, rfl, rfl⟩

/-- an accepted line list, fed to `Drv.C09conc.step` as tokens: the fold ends in the replay's state, not dead, and
every line is answered `ok` -/
theorem runLines_replayK (impl : String) {st st' : St} {ls : List KLine} (hs : st.started = true) (hd : st.dead = false)
    (h : replayK st ls = some st') :
    runLines st (ls.map (fun l => (l.toks, impl))) = st' ∧
    ∀ (l1 : List KLine) (l : KLine) (l2 : List KLine), ls = l1 ++ l :: l2 →
      (Drv.C09conc.step (runLines st (l1.map (fun l => (l.toks, impl)))) l.toks impl).2.model = "ok" := by
  induction ls generalizing st with
  | nil =>
    simp only [replayK] at h
    cases h
    refine ⟨rfl, ?_⟩
    intro l1 l l2 e
    cases l1 <;> cases e
  | cons l ls ih =>
    simp only [replayK] at h
    split at h
    · rename_i st1 h1
      obtain ⟨hst, hok⟩ := step_toks_ok st impl hs hd l h1
      obtain ⟨f1, f2, _⟩ := applyK_flags h1
      obtain ⟨h2, h3⟩ := ih (st := st1) (by rw [f1]; exact hs) (by rw [f2]; exact hd) h
      refine ⟨?_, ?_⟩
      · simp only [List.map_cons, runLines, List.foldl_cons]
        rw [hst]; exact h2
      · intro l1 l' l2 e
        cases l1 with
        | nil =>
          simp only [List.nil_append, List.cons.injEq] at e
          obtain ⟨rfl, _⟩ := e
          exact hok
        | cons a l1 =>
          simp only [List.cons_append, List.cons.injEq] at e
          obtain ⟨rfl, e'⟩ := e
          simp only [List.map_cons, runLines, List.foldl_cons]
          rw [hst]
          exact h3 l1 l' l2 e'
    · cases h

/-- the header line -/
theorem step_header (st0 : St) (rwi : Int) (impl0 : String) :
    (Drv.C09conc.step st0 [.w "km", .i rwi] impl0).1 = { rw := rwi != 0, started := true } := rfl

theorem pad_empty (n : Nat) : pad ({} : KS) n = KeyedMutexConc.init n := by
  simp [pad, KeyedMutexConc.init, SyncMapConc.init]


end TypVerif.Lemmas.KmTrace
