import TypVerif.Lemmas.AvlWorld
/-
C02: the Fibonacci bound on the size of an AVL tree, its integer-exponent corollary, the comparator-call
counters (agreement with the plain functions, bound by the height); C01: the traversals of the erased tree.
-/
set_option linter.unusedSectionVars false
namespace TypVerif.Lemmas.Avl
open TypVerif.Model.Avl TypVerif.Model.Avl.Node TypVerif.Spec.Avl

variable {α : Type}

/-! ### traversals of one binary tree -/

theorem erase_pre (t : Node α) : (erase t).pre = preorder t := by
  induction t with
  | nil => rfl
  | node l v h r ihl ihr => simp [erase, BinTree.pre, preorder, ihl, ihr]

theorem erase_ino (t : Node α) : (erase t).ino = inorder t := by
  induction t with
  | nil => rfl
  | node l v h r ihl ihr => simp [erase, BinTree.ino, ihl, ihr]

theorem erase_post (t : Node α) : (erase t).post = postorder t := by
  induction t with
  | nil => rfl
  | node l v h r ihl ihr => simp [erase, BinTree.post, postorder, ihl, ihr]

/-! ### Fibonacci bound -/

theorem fib_add_two (n : Nat) : fib (n + 2) = fib n + fib (n + 1) := rfl

theorem fib_le_succ (n : Nat) : fib n ≤ fib (n + 1) := by
  cases n with
  | zero => decide
  | succ n => rw [fib_add_two]; omega

theorem fib_mono {n m : Nat} (h : n ≤ m) : fib n ≤ fib m := by
  induction m with
  | zero => have : n = 0 := by omega
            subst this; exact Nat.le_refl _
  | succ m ih =>
    by_cases e : n = m + 1
    · subst e; exact Nat.le_refl _
    · exact Nat.le_trans (ih (by omega)) (fib_le_succ m)

/-- C02.fib: an AVL tree of height `h` (nil = -1, leaf = 0) has at least `fib (h+3) - 1` nodes -/
theorem fib_le_size (t : Node α) (ht : AVL t) : fib (height t + 3).toNat ≤ size t + 1 := by
  induction t with
  | nil => show fib ((-1 : Int) + 3).toNat ≤ 0 + 1; decide
  | node l v h r ihl ihr =>
    simp only [AVL] at ht
    obtain ⟨al, ar, _, b1, b2⟩ := ht
    have i1 := ihl al
    have i2 := ihr ar
    have gl := height_ge l
    have gr := height_ge r
    obtain ⟨a, ha⟩ : ∃ a : Nat, height l = (a : Int) - 1 := ⟨(height l + 1).toNat, by omega⟩
    obtain ⟨b, hb⟩ : ∃ b : Nat, height r = (b : Int) - 1 := ⟨(height r + 1).toNat, by omega⟩
    have e1 : (height l + 3).toNat = a + 2 := by omega
    have e2 : (height r + 3).toNat = b + 2 := by omega
    rw [e1] at i1
    rw [e2] at i2
    simp only [height_node, size]
    by_cases c : a ≤ b
    · have e3 : (1 + max (height l) (height r) + 3).toNat = b + 3 := by omega
      have e4 : fib (b + 3) = fib (b + 1) + fib (b + 2) := fib_add_two (b + 1)
      rw [e3, e4]
      have : fib (b + 1) ≤ fib (a + 2) := fib_mono (by omega)
      omega
    · have e3 : (1 + max (height l) (height r) + 3).toNat = a + 3 := by omega
      have e4 : fib (a + 3) = fib (a + 1) + fib (a + 2) := fib_add_two (a + 1)
      rw [e3, e4]
      have : fib (a + 1) ≤ fib (b + 2) := fib_mono (by omega)
      omega

/-! ### integer-exponent corollary: 2^(9·height) ≤ (n+2)^13, i.e. height ≤ (13/9)·log2(n+2) = 1.4444…·log2(n+2) -/

/-- consecutive Fibonacci numbers have ratio in [8/5, 5/3] from index 4 on -/
theorem fib_ratio (k : Nat) : 8 * fib (k + 4) ≤ 5 * fib (k + 5) ∧ 3 * fib (k + 5) ≤ 5 * fib (k + 4) := by
  induction k with
  | zero => decide
  | succ k ih =>
    have e : fib (k + 1 + 5) = fib (k + 4) + fib (k + 5) := fib_add_two (k + 4)
    have e' : fib (k + 1 + 4) = fib (k + 5) := rfl
    rw [e, e']; omega

theorem fib_step13 (k : Nat) : 512 * fib (k + 4) ≤ fib (k + 17) := by
  have r := fib_ratio k
  have h2 : fib (k + 6) = fib (k + 4) + fib (k + 5) := fib_add_two _
  have h3 : fib (k + 7) = fib (k + 5) + fib (k + 6) := fib_add_two _
  have h4 : fib (k + 8) = fib (k + 6) + fib (k + 7) := fib_add_two _
  have h5 : fib (k + 9) = fib (k + 7) + fib (k + 8) := fib_add_two _
  have h6 : fib (k + 10) = fib (k + 8) + fib (k + 9) := fib_add_two _
  have h7 : fib (k + 11) = fib (k + 9) + fib (k + 10) := fib_add_two _
  have h8 : fib (k + 12) = fib (k + 10) + fib (k + 11) := fib_add_two _
  have h9 : fib (k + 13) = fib (k + 11) + fib (k + 12) := fib_add_two _
  have h10 : fib (k + 14) = fib (k + 12) + fib (k + 13) := fib_add_two _
  have h11 : fib (k + 15) = fib (k + 13) + fib (k + 14) := fib_add_two _
  have h12 : fib (k + 16) = fib (k + 14) + fib (k + 15) := fib_add_two _
  have h13 : fib (k + 17) = fib (k + 15) + fib (k + 16) := fib_add_two _
  omega

theorem pow_le_fib_pow : ∀ k : Nat, 2 ^ (9 * k) ≤ fib (k + 3) ^ 13
  | 0 => by decide
  | 1 => by decide
  | 2 => by decide
  | 3 => by decide
  | 4 => by decide
  | 5 => by decide
  | 6 => by decide
  | 7 => by decide
  | 8 => by decide
  | 9 => by decide
  | 10 => by decide
  | 11 => by decide
  | 12 => by decide
  | 13 => by decide
  | k + 14 => by
    have ih := pow_le_fib_pow (k + 1)
    have st := fib_step13 k
    have e1 : 2 ^ (9 * (k + 14)) = 2 ^ (9 * (k + 1)) * 512 ^ 13 := by
      rw [show 9 * (k + 14) = 9 * (k + 1) + 117 from by omega, Nat.pow_add]
    have e2 : fib (k + 1 + 3) ^ 13 * 512 ^ 13 = (512 * fib (k + 4)) ^ 13 := by
      rw [Nat.mul_pow, Nat.mul_comm]
    calc 2 ^ (9 * (k + 14)) = 2 ^ (9 * (k + 1)) * 512 ^ 13 := e1
      _ ≤ fib (k + 1 + 3) ^ 13 * 512 ^ 13 := Nat.mul_le_mul_right _ ih
      _ = (512 * fib (k + 4)) ^ 13 := e2
      _ ≤ fib (k + 17) ^ 13 := Nat.pow_le_pow_left st 13

/-- C02.depth_log_partial -/
theorem depth_pow (t : Node α) (ht : AVL t) : 2 ^ (9 * (height t).toNat) ≤ (size t + 2) ^ 13 := by
  have h1 := fib_le_size t ht
  have g := height_ge t
  have h2 := pow_le_fib_pow (height t).toNat
  have e : (height t + 3).toNat = (height t).toNat + 3 ∨ height t = -1 := by omega
  rcases e with e | e
  · rw [e] at h1
    exact Nat.le_trans h2 (Nat.pow_le_pow_left (by omega) 13)
  · rw [e]
    exact Nat.le_trans (by decide : 2 ^ (9 * (-1 : Int).toNat) ≤ 2 ^ 13) (Nat.pow_le_pow_left (by omega) 13)

/-! ### the constant 1.4405: 2^(84·height) ≤ (n+2)^121, i.e. height ≤ (121/84)·log2(n+2), 121/84 = 1.440476… < 1.4405 -/

theorem fib_add (m k : Nat) : fib (m + k + 1) = fib (m + 1) * fib (k + 1) + fib m * fib k := by
  induction m using Nat.strongRecOn with
  | _ m ih =>
    match m with
    | 0 => simp [fib]
    | 1 =>
      have : fib (1 + k + 1) = fib k + fib (k + 1) := by rw [show 1 + k + 1 = k + 2 from by omega]; rfl
      rw [this]; simp [fib]; omega
    | m + 2 =>
      have h0 := ih m (by omega)
      have h1 := ih (m + 1) (by omega)
      have e : fib (m + 2 + k + 1) = fib (m + k + 1) + fib (m + 1 + k + 1) := by
        rw [show m + 2 + k + 1 = (m + k + 1) + 2 from by omega, fib_add_two]
        rw [show m + k + 1 + 1 = m + 1 + k + 1 from by omega]
      have e3 : fib (m + 2 + 1) = fib (m + 1) + fib (m + 2) := fib_add_two (m + 1)
      have e2 : fib (m + 2) = fib m + fib (m + 1) := fib_add_two m
      rw [e, h0, h1, e3]
      simp only [Nat.add_mul]
      rw [show fib (m + 1 + 1) = fib (m + 2) from rfl]
      rw [e2]
      simp only [Nat.add_mul]
      omega

/-- consecutive Fibonacci numbers have ratio in [55/34, 34/21] from index 9 on -/
theorem fib_ratio9 (k : Nat) : 55 * fib (k + 9) ≤ 34 * fib (k + 10) ∧ 21 * fib (k + 10) ≤ 34 * fib (k + 9) := by
  induction k with
  | zero => decide
  | succ k ih =>
    have e : fib (k + 1 + 10) = fib (k + 9) + fib (k + 10) := fib_add_two (k + 9)
    have e' : fib (k + 1 + 9) = fib (k + 10) := rfl
    rw [e, e']; omega

theorem fib_120 : fib 120 = 5358359254990966640871840 := by decide
theorem fib_121 : fib 121 = 8670007398507948658051921 := by decide

theorem fib_step121 (k : Nat) : 2 ^ 84 * fib (k + 9) ≤ fib (k + 130) := by
  have r := (fib_ratio9 k).1
  have e := fib_add 120 (k + 9)
  rw [show 120 + (k + 9) + 1 = k + 130 from by omega, show 120 + 1 = 121 from rfl, fib_120, fib_121,
    show k + 9 + 1 = k + 10 from rfl] at e
  rw [e]
  have : (2 : Nat) ^ 84 = 19342813113834066795298816 := by decide
  rw [this]
  omega

/-- Boolean check of the base cases, evaluated by the kernel -/
def pow84Check : Nat → Bool
  | 0 => true
  | k + 1 => pow84Check k && decide (2 ^ (84 * k) ≤ fib (k + 3) ^ 121)

theorem pow84Check_sound (n : Nat) (h : pow84Check n = true) : ∀ k, k < n → 2 ^ (84 * k) ≤ fib (k + 3) ^ 121 := by
  induction n with
  | zero => intro k hk; omega
  | succ n ih =>
    simp only [pow84Check, Bool.and_eq_true, decide_eq_true_eq] at h
    intro k hk
    by_cases e : k = n
    · subst e; exact h.2
    · exact ih h.1 k (by omega)

theorem pow84_base : ∀ k, k < 127 → 2 ^ (84 * k) ≤ fib (k + 3) ^ 121 :=
  pow84Check_sound 127 (by decide +kernel)

theorem pow84_le_fib_pow (k : Nat) : 2 ^ (84 * k) ≤ fib (k + 3) ^ 121 := by
  induction k using Nat.strongRecOn with
  | _ k ih =>
    by_cases hk : k < 127
    · exact pow84_base k hk
    · obtain ⟨j, rfl⟩ : ∃ j, k = j + 127 := ⟨k - 127, by omega⟩
      have ih' := ih (j + 6) (by omega)
      have st := fib_step121 j
      have e0 : 84 * (j + 127) = 84 * (j + 6) + 84 * 121 := by omega
      have e1 : 2 ^ (84 * (j + 127)) = 2 ^ (84 * (j + 6)) * (2 ^ 84) ^ 121 := by
        rw [e0, Nat.pow_add, ← Nat.pow_mul]
      have e2 : fib (j + 6 + 3) ^ 121 * (2 ^ 84) ^ 121 = (2 ^ 84 * fib (j + 9)) ^ 121 := by
        rw [Nat.mul_pow, Nat.mul_comm]
      calc 2 ^ (84 * (j + 127)) = 2 ^ (84 * (j + 6)) * (2 ^ 84) ^ 121 := e1
        _ ≤ fib (j + 6 + 3) ^ 121 * (2 ^ 84) ^ 121 := Nat.mul_le_mul_right _ ih'
        _ = (2 ^ 84 * fib (j + 9)) ^ 121 := e2
        _ ≤ fib (j + 130) ^ 121 := Nat.pow_le_pow_left st 121

/-- C02.depth_log_int -/
theorem depth_pow121 (t : Node α) (ht : AVL t) : 2 ^ (84 * (height t).toNat) ≤ (size t + 2) ^ 121 := by
  have h1 := fib_le_size t ht
  have g := height_ge t
  have h2 := pow84_le_fib_pow (height t).toNat
  have e : (height t + 3).toNat = (height t).toNat + 3 ∨ height t = -1 := by omega
  rcases e with e | e
  · rw [e] at h1
    exact Nat.le_trans h2 (Nat.pow_le_pow_left (by omega) 121)
  · rw [e]
    exact Nat.le_trans (by decide : 2 ^ (84 * (-1 : Int).toNat) ≤ 2 ^ 121) (Nat.pow_le_pow_left (by omega) 121)

/-! ### comparator-call counters -/

section
variable [DecidableEq α]

theorem findC_fst (cmp : α → α → Int) (x : α) (t : Node α) : (findC cmp x t).1 = find cmp x t := by
  induction t with
  | nil => rfl
  | node l v h r ihl ihr =>
    unfold findC find
    split
    · rfl
    · simp only
      split
      · exact ihl
      · split
        · exact ihr
        · rfl

theorem addC_fst (cmp : α → α → Int) (x : α) (t : Node α) : (addC cmp x t).1 = add cmp x t := by
  induction t with
  | nil => rfl
  | node l v h r ihl ihr =>
    unfold addC add
    split
    · simp only [ihl]
    · simp only [ihr]

theorem removeC_fst (cmp : α → α → Int) (x : α) (t : Node α) : (removeC cmp x t).1 = remove cmp x t := by
  induction t with
  | nil => rfl
  | node l v h r ihl ihr =>
    unfold removeC
    split
    · rfl
    · rename_i hne
      conv => rhs; unfold remove
      simp only [hne, if_false]
      split
      · rw [← ihl]
        rcases removeC cmp x l with ⟨⟨n, ok⟩, k⟩
        cases ok <;> rfl
      · split
        · rw [← ihr]
          rcases removeC cmp x r with ⟨⟨n, ok⟩, k⟩
          cases ok <;> rfl
        · rfl

/-- C02.cost, `find`/`Contains`: at most one comparator call per level -/
theorem findC_cost (cmp : α → α → Int) (x : α) (t : Node α) : ((findC cmp x t).2 : Int) ≤ height t + 1 := by
  induction t with
  | nil => simp [findC]
  | node l v h r ihl ihr =>
    have gl := height_ge l
    have gr := height_ge r
    unfold findC
    simp only [height_node]
    split
    · show ((0 : Nat) : Int) ≤ _; omega
    · have hc : ((if l.isNil = true then 0 else 1 : Nat) : Int) ≤ 1 := by split <;> simp
      split
      · simp only [Int.natCast_add]; omega
      · split
        · simp only [Int.natCast_add]; omega
        · simp only; omega

theorem addC_cost (cmp : α → α → Int) (x : α) (t : Node α) : ((addC cmp x t).2 : Int) ≤ height t + 1 := by
  induction t with
  | nil => simp [addC]
  | node l v h r ihl ihr =>
    unfold addC
    simp only [height_node]
    split
    · simp only [Int.natCast_add]; omega
    · simp only [Int.natCast_add]; omega

theorem removeC_cost (cmp : α → α → Int) (x : α) (t : Node α) : ((removeC cmp x t).2 : Int) ≤ height t + 1 := by
  induction t with
  | nil => simp [removeC]
  | node l v h r ihl ihr =>
    have gl := height_ge l
    have gr := height_ge r
    unfold removeC
    simp only [height_node]
    split
    · show ((0 : Nat) : Int) ≤ _; omega
    · have hc : ((if l.isNil = true then 0 else 1 : Nat) : Int) ≤ 1 := by split <;> simp
      split
      · revert ihl
        rcases removeC cmp x l with ⟨⟨n, ok⟩, k⟩
        intro ihl
        cases ok <;> simp only [reduceIte, Bool.false_eq_true, Int.natCast_add] at ihl ⊢ <;> omega
      · split
        · revert ihr
          rcases removeC cmp x r with ⟨⟨n, ok⟩, k⟩
          intro ihr
          cases ok <;> simp only [reduceIte, Bool.false_eq_true, Int.natCast_add] at ihr ⊢ <;> omega
        · simp only; omega

/-! `Tree`-level counting wrappers -/

theorem ContainsC_fst (t : Tree α) (v : α) : (t.ContainsC v).1 = t.Contains v := by
  unfold Tree.ContainsC Tree.Contains
  split
  · rfl
  · simp only [contains, ← findC_fst]

theorem AddC_fst (t : Tree α) (v : α) : (t.AddC v).1 = t.Add v := by
  unfold Tree.AddC Tree.Add
  split
  · rfl
  · simp only [← addC_fst]

theorem RemoveC_fst (t : Tree α) (v : α) : (t.RemoveC v).1 = t.Remove v := by
  unfold Tree.RemoveC Tree.Remove
  split
  · rfl
  · rw [← removeC_fst]
    rcases removeC t.compare v t.root with ⟨⟨n, ok⟩, k⟩
    cases ok <;> rfl

theorem ContainsC_cost (t : Tree α) (v : α) : ((t.ContainsC v).2 : Int) ≤ height t.root + 1 := by
  unfold Tree.ContainsC
  have := height_ge t.root
  split
  · simp only; omega
  · exact findC_cost _ _ _

theorem AddC_cost (t : Tree α) (v : α) : ((t.AddC v).2 : Int) ≤ height t.root + 1 := by
  unfold Tree.AddC
  have := height_ge t.root
  split
  · simp only; omega
  · exact addC_cost _ _ _

theorem RemoveC_cost (t : Tree α) (v : α) : ((t.RemoveC v).2 : Int) ≤ height t.root + 1 := by
  unfold Tree.RemoveC
  have := height_ge t.root
  split
  · simp only; omega
  · have := removeC_cost t.compare v t.root
    revert this
    rcases removeC t.compare v t.root with ⟨⟨n, ok⟩, k⟩
    intro this
    cases ok <;> exact this

end

end TypVerif.Lemmas.Avl
