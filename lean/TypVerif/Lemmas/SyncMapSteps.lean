import TypVerif.Lemmas.SyncMapInv
/-
Preservation of `SeqInv` and the effect on `abs` of the composite state updates of `map.go`:
promotion / `missLocked`, `delete(m.dirty,k)`, unexpunge-and-store, new key (amended and first-new-key
with `dirtyLocked`).
-/
namespace TypVerif.Lemmas.SyncMap
open TypVerif.Model.SyncMap

set_option linter.unusedSectionVars false
set_option linter.unusedVariables false

variable {K V : Type} [DecidableEq K]

theorem dirty_some_of_ne {s : State K V} (h : s.dirty ≠ none) : ∃ d, s.dirty = some d := by
  cases hd : s.dirty with
  | none => exact absurd hd h
  | some d => exact ⟨d, rfl⟩

theorem dt_of_some {s : State K V} {d : List (K × EId)} (hd : s.dirty = some d) (k : K) : dt s k = alookup k d := by
  simp [dt, dirtyMap, hd]

/-! ### promotion and `missLocked` -/

@[simp] theorem getP_promote (s : State K V) (e : EId) : getP (promote s) e = getP s e := rfl
@[simp] theorem rd_promote (s : State K V) (k : K) : rd (promote s) k = dt s k := rfl
@[simp] theorem dt_promote (s : State K V) (k : K) : dt (promote s) k = none := rfl

theorem SeqInv.promote_ok {s : State K V} (h : SeqInv s) : SeqInv (promote s) where
  nofault := h.nofault
  readNodup := h.dirtyNodup
  dirtyNodup := by simp [promote, dirtyMap, akeys]
  readRange := fun k e hk => h.dirtyRange k e hk
  dirtyRange := fun k e hk => by simp at hk
  s1 := fun _ => rfl
  s2 := fun hd => absurd rfl hd
  s3 := fun _ k e hk => h.dirty_not_expunged hk
  s4 := fun _ k e hk => by simp at hk
  s5 := fun k e _ hk => by simp at hk
  s6 := fun k k' e h1 h2 => by
    simp only [rd_promote, dt_promote, reduceCtorEq, or_false] at h1 h2
    exact h.s6 k k' e (Or.inr h1) (Or.inr h2)
  s7 := fun hd => absurd rfl hd

/-- promotion of an existing dirty map does not change the abstraction (uses S2 and S4) -/
theorem abs_promote {s : State K V} (h : SeqInv s) (hdn : s.dirty ≠ none) (k : K) : abs (promote s) k = abs s k := by
  have hl : ∀ e, loadEntry (promote s) e = loadEntry s e := fun e => rfl
  unfold abs
  have hc : cur (promote s) k = dt s k := by
    unfold cur; simp only [rd_promote, dt_promote]
    cases dt s k <;> simp [promote]
  rw [hc]
  cases hr : rd s k with
  | some e =>
    rw [cur_of_rd hr]
    have h2 := h.s2 hdn k e hr
    by_cases hx : getP s e = .expunged
    · rw [h2.2 hx]; simp [loadEntry_eq, hx, pval]
    · rw [h2.1 hx]; simp [hl]
  | none =>
    cases ha : s.amended with
    | true => rw [cur_of_dt hr ha]; cases dt s k <;> simp [hl]
    | false =>
      rw [cur_of_clean_miss hr ha]
      cases hk : dt s k with
      | none => rfl
      | some e => have := h.s4 ha k e hk; rw [hr] at this; cases this

/-- changing only the miss counter -/
def withMisses (s : State K V) (m : Nat) : State K V := { s with misses := m }

theorem SeqInv.withMisses_ok {s : State K V} (h : SeqInv s) (m : Nat) : SeqInv (withMisses s m) :=
  { nofault := h.nofault, readNodup := h.readNodup, dirtyNodup := h.dirtyNodup, readRange := h.readRange,
    dirtyRange := h.dirtyRange, s1 := h.s1, s2 := h.s2, s3 := h.s3, s4 := h.s4, s5 := h.s5, s6 := h.s6, s7 := h.s7 }

theorem abs_withMisses (s : State K V) (m : Nat) (k : K) : abs (withMisses s m) k = abs s k := rfl

theorem missLocked_eq (s : State K V) :
    missLocked s = if s.misses + 1 < dirtyLen s then withMisses s (s.misses + 1)
                   else promote (withMisses s (s.misses + 1)) := rfl

theorem SeqInv.missLocked_ok {s : State K V} (h : SeqInv s) : SeqInv (missLocked s) := by
  rw [missLocked_eq]; split
  · exact h.withMisses_ok _
  · exact (h.withMisses_ok _).promote_ok

theorem abs_missLocked {s : State K V} (h : SeqInv s) (hdn : s.dirty ≠ none) (k : K) :
    abs (missLocked s) k = abs s k := by
  rw [missLocked_eq]; split
  · rfl
  · rw [abs_promote (h.withMisses_ok (s.misses + 1)) hdn]; rfl

theorem getP_missLocked (s : State K V) (e : EId) : getP (missLocked s) e = getP s e := by
  rw [missLocked_eq]; split <;> rfl

theorem loadEntry_missLocked (s : State K V) (e : EId) : loadEntry (missLocked s) e = loadEntry s e := by
  rw [loadEntry_eq, loadEntry_eq, getP_missLocked]

theorem length_missLocked (s : State K V) : (missLocked s).entries.length = s.entries.length := by
  rw [missLocked_eq]; split <;> rfl

/-- after `missLocked` every referenced entry was referenced before -/
theorem cur_missLocked_ref {s : State K V} (k : K) (e : EId) (hc : cur (missLocked s) k = some e) :
    rd s k = some e ∨ dt s k = some e := by
  rw [missLocked_eq] at hc
  split at hc
  · unfold cur at hc
    change (match rd s k with | some e => some e | none => if s.amended then dt s k else none) = some e at hc
    cases hr : rd s k with
    | some e0 => rw [hr] at hc; simp only at hc; left; exact hc
    | none => rw [hr] at hc; simp only at hc; split at hc; right; exact hc; cases hc
  · unfold cur at hc
    change (match dt s k with | some e => some e | none => if false then none else none) = some e at hc
    cases hr : dt s k with
    | some e0 => rw [hr] at hc; simp only at hc; right; exact hc
    | none => rw [hr] at hc; simp at hc

/-! ### `delete(m.dirty, k)` for a key that is not in `read.m` -/

theorem dirtyMap_delDirty (s : State K V) (k : K) : dirtyMap (delDirty s k) = aerase k (dirtyMap s) := by
  unfold delDirty dirtyMap
  cases s.dirty <;> simp [aerase]

@[simp] theorem rd_delDirty (s : State K V) (k k' : K) : rd (delDirty s k) k' = rd s k' := rfl
@[simp] theorem getP_delDirty (s : State K V) (k : K) (e : EId) : getP (delDirty s k) e = getP s e := rfl

theorem dt_delDirty (s : State K V) (k k' : K) : dt (delDirty s k) k' = if k' = k then none else dt s k' := by
  unfold dt; rw [dirtyMap_delDirty, alookup_aerase]

theorem delDirty_dirty_ne (s : State K V) (k : K) : (delDirty s k).dirty ≠ none ↔ s.dirty ≠ none := by
  unfold delDirty; cases s.dirty <;> simp

theorem delDirty_dirty_none (s : State K V) (k : K) : (delDirty s k).dirty = none ↔ s.dirty = none := by
  unfold delDirty; cases s.dirty <;> simp

theorem SeqInv.delDirty_ok {s : State K V} (h : SeqInv s) (k : K) (hk : rd s k = none) : SeqInv (delDirty s k) where
  nofault := h.nofault
  readNodup := h.readNodup
  dirtyNodup := by rw [dirtyMap_delDirty]; exact nodup_aerase h.dirtyNodup
  readRange := h.readRange
  dirtyRange := fun k' e hk' => by
    rw [dt_delDirty] at hk'; split at hk'; cases hk'; exact h.dirtyRange k' e hk'
  s1 := fun hd => h.s1 ((delDirty_dirty_none s k).mp hd)
  s2 := fun hd k' e hk' => by
    have hd' := (delDirty_dirty_ne s k).mp hd
    have hne : ¬ k' = k := fun h2 => by subst h2; rw [rd_delDirty, hk] at hk'; cases hk'
    rw [dt_delDirty]; simp only [hne, if_false]
    exact h.s2 hd' k' e hk'
  s3 := fun hd => h.s3 ((delDirty_dirty_none s k).mp hd)
  s4 := fun ha k' e hk' => by
    rw [dt_delDirty] at hk'; split at hk'; cases hk'; exact h.s4 ha k' e hk'
  s5 := fun k' e hr hk' => by
    rw [dt_delDirty] at hk'; split at hk'; cases hk'; exact h.s5 k' e hr hk'
  s6 := fun k1 k2 e h1 h2 => by
    apply h.s6 k1 k2 e
    · rcases h1 with h1 | h1
      · left; exact h1
      · rw [dt_delDirty] at h1; split at h1; cases h1; right; exact h1
    · rcases h2 with h2 | h2
      · left; exact h2
      · rw [dt_delDirty] at h2; split at h2; cases h2; right; exact h2
  s7 := fun hd => h.s7 ((delDirty_dirty_ne s k).mp hd)

theorem cur_delDirty {s : State K V} (k : K) (hk : rd s k = none) (k' : K) :
    cur (delDirty s k) k' = if k' = k then none else cur s k' := by
  unfold cur
  simp only [rd_delDirty, dt_delDirty]
  by_cases h1 : k' = k
  · subst h1; rw [hk]; simp
  · simp only [h1, if_false]; rfl

theorem abs_delDirty {s : State K V} (k : K) (hk : rd s k = none) (k' : K) :
    abs (delDirty s k) k' = if k' = k then none else abs s k' := by
  unfold abs; rw [cur_delDirty k hk]
  by_cases h1 : k' = k
  · simp [h1]
  · simp only [h1, if_false]; rfl

end TypVerif.Lemmas.SyncMap
