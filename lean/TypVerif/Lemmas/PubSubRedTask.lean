import TypVerif.Lemmas.PubSubRedStep
/-
C10, completeness of the judge's reduction: the commutation of a lag step with every step function of a task (other than the lagging one).
-/
set_option linter.unusedSectionVars false
namespace TypVerif.Lemmas.PubSubRed
open TypVerif TypVerif.Conc TypVerif.Model.PubSub TypVerif.Drv.C10

/-- side conditions on the other task `tk`, in the state `x` before the lag step on object `o`:
a reader of `o` is counted, a waiting writer of `o` is counted, an announcement on `o` is allowed only if `annOK`,
`WithOnly` is not about to construct `o` -/
def Side (o : Nat) (annOK : Prop) (x : State) : Task → Prop
  | .syncLoop _ o' _ _ => o = o' → 0 < (x.obj o).rw.readers
  | .waitWg _ o' _ => o = o' → 0 < (x.obj o).rw.readers
  | .asyncSend o' _ _ => o = o' → 0 < (x.obj o).rw.readers
  | .subWait o' _ _ => o = o' → 0 < (x.obj o).rw.waiting
  | .unsubWait _ o' _ => o = o' → 0 < (x.obj o).rw.waiting
  | .uaWait _ o' => o = o' → 0 < (x.obj o).rw.waiting
  | .subStart o' _ _ => o = o' → annOK
  | .unsubStart _ o' (some _) => o = o' → annOK
  | .uaStart _ o' => o = o' → annOK
  | .woStart w _ _ => w ≠ o
  | _ => True

section
variable {o : Nat} {f : RW → RW} {g : Nat} {t' : Task} {x : State} {annOK : Prop} {Q : ObjSt → Prop}

theorem lagT_withWgs (W : List Nat) (y : State) : ({ lagT o f g t' y with wgs := W } : State) = lagT o f g t' { y with wgs := W } := rfl
theorem lagT_withChans (W : List ChanSt) (y : State) : ({ lagT o f g t' y with chans := W } : State) = lagT o f g t' { y with chans := W } := rfl

theorem keeps_withWgs {y : State} (h : Keeps o g Q x y) (W : List Nat) : Keeps o g Q x { y with wgs := W } :=
  keeps_of_same h rfl rfl
theorem keeps_withChans {y : State} (h : Keeps o g Q x y) (W : List ChanSt) : Keeps o g Q x { y with chans := W } :=
  keeps_of_same h rfl rfl
theorem keeps_panic {y : State} (h : Keeps o g Q x y) (m : String) : Keeps o g Q x (y.panic m) :=
  keeps_of_same h rfl rfl
theorem keeps_wgDone {y : State} (h : Keeps o g Q x y) (w : Nat) : Keeps o g Q x (wgDone y w) := by
  unfold wgDone
  split
  · exact keeps_panic h _
  · exact keeps_of_same h rfl rfl

variable (hf : FOK f) (hQ : QOK f annOK Q) (ho : o < x.objs.length) (hgl : g < x.tasks.length) {k : Nat} (hk : k ≠ g)
include hf hQ ho hgl hk

theorem stepPubStart_lag (p o' : Nat) (v : Variant) (evs : List Int) :
    Sub (lagT o f g t') (Keeps o g Q x) (stepPubStart (lagT o f g t' x) k p o' v evs) (stepPubStart x k p o' v evs) := by
  unfold stepPubStart
  by_cases hc : ((lagT o f g t' x).obj o').rw.canRLock = true
  · have hc' := canRLock_of_lag hf ho hc
    simp only [hc, hc', Bool.not_true, Bool.false_eq_true, ↓reduceIte]
    rw [lagT_obj_subs _ _ _ _ _ ho]
    generalize mkItems p evs (x.obj o').subs = items
    have hgl' : g < (x.setTask k (Task.pubRet p)).tasks.length := by simpa [State.setTask] using hgl
    split
    · cases items with
      | nil => exact sub_single _ _ (lagT_setTask _ _ _ _ _ _ _ hk) (keeps_setTask (keeps_refl ho) hk _)
      | cons a r =>
        refine sub_single _ _ ?_ (keeps_setTask (keeps_rlock hQ (keeps_refl ho) _) hk _)
        rw [lagT_rlock hf ho, lagT_setTask _ _ _ _ _ _ _ hk]
    · split
      · refine sub_single _ _ ?_ (keeps_spawn (keeps_setTask (keeps_withWgs (keeps_rlock hQ (keeps_refl ho) _) _) hk _) hgl _)
        rw [lagT_rlock hf ho, lagT_wgs, lagT_withWgs, lagT_setTask _ _ _ _ _ _ _ hk,
          lagT_spawn _ _ _ _ _ _ (by simpa [State.setTask, State.rlock, State.setObj] using hgl)]
      · refine sub_single _ _ ?_ (keeps_spawn (keeps_setTask (keeps_refl ho) hk _) hgl _)
        rw [lagT_setTask _ _ _ _ _ _ _ hk, lagT_spawn _ _ _ _ _ _ hgl']
  · simp only [hc, Bool.not_false, ↓reduceIte]; exact sub_nil _ _ _

theorem syncAdvance_lag (p o' : Nat) (rest : List Item) (hr : o = o' → 0 < (x.obj o).rw.readers) (y : State) (hy : SameOT x y) :
    syncAdvance k p o' rest (lagT o f g t' y) = lagT o f g t' (syncAdvance k p o' rest y) ∧ Keeps o g Q x (syncAdvance k p o' rest y) := by
  have hoy : o < y.objs.length := by rw [hy.1]; exact ho
  have hky : Keeps o g Q x y := keeps_sameOT ho hy
  cases rest with
  | nil =>
    refine ⟨?_, keeps_setTask (keeps_runlock hQ hky _) hk _⟩
    show ((lagT o f g t' y).runlock o').setTask k _ = _
    rw [lagT_runlock hf hoy o' (by rw [sameOT_obj hy]; exact hr), lagT_setTask _ _ _ _ _ _ _ hk]
    rfl
  | cons a r =>
    exact ⟨lagT_setTask _ _ _ _ _ _ _ hk, keeps_setTask hky hk _⟩

theorem stepSyncLoop_lag (cfg : Cfg) (p o' : Nat) (work : List Item) (cb : Bool) (hr : o = o' → 0 < (x.obj o).rw.readers) :
    Sub (lagT o f g t') (Keeps o g Q x) (stepSyncLoop cfg (lagT o f g t' x) k p o' work cb) (stepSyncLoop cfg x k p o' work cb) := by
  unfold stepSyncLoop
  cases work with
  | nil => exact sub_nil _ _ _
  | cons it rest =>
    exact stepSend_lag cfg _ it cb _ _ (syncAdvance_lag hf hQ ho hgl hk p o' rest hr)
      (fun y hy => ⟨lagT_setTask _ _ _ _ _ _ _ hk, keeps_setTask (keeps_sameOT ho hy) hk _⟩) (keeps_panic (keeps_refl ho) _)

theorem stepWaitWg_lag (p o' w : Nat) (hr : o = o' → 0 < (x.obj o).rw.readers) :
    Sub (lagT o f g t') (Keeps o g Q x) (stepWaitWg (lagT o f g t' x) k p o' w) (stepWaitWg x k p o' w) := by
  unfold stepWaitWg
  rw [lagT_wgs]
  split
  · refine sub_single _ _ ?_ (keeps_setTask (keeps_runlock hQ (keeps_refl ho) _) hk _)
    rw [lagT_runlock hf ho o' hr, lagT_setTask _ _ _ _ _ _ _ hk]
  · exact sub_nil _ _ _

theorem stepAsyncStart_lag (o' : Nat) (it : Item) :
    Sub (lagT o f g t') (Keeps o g Q x) (stepAsyncStart (lagT o f g t' x) k o' it) (stepAsyncStart x k o' it) := by
  unfold stepAsyncStart
  by_cases hc : ((lagT o f g t' x).obj o').rw.canRLock = true
  · have hc' := canRLock_of_lag hf ho hc
    simp only [hc, hc', Bool.not_true, Bool.false_eq_true, ↓reduceIte]
    rw [lagT_obj_subs _ _ _ _ _ ho]
    split
    · refine sub_single _ _ ?_ (keeps_setTask (keeps_rlock hQ (keeps_refl ho) _) hk _)
      rw [lagT_rlock hf ho, lagT_setTask _ _ _ _ _ _ _ hk]
    · exact sub_single _ _ (lagT_setTask _ _ _ _ _ _ _ hk) (keeps_setTask (keeps_refl ho) hk _)
  · simp only [hc, Bool.not_false, ↓reduceIte]; exact sub_nil _ _ _

theorem stepAsyncSend_lag (cfg : Cfg) (o' : Nat) (it : Item) (cb : Bool) (hr : o = o' → 0 < (x.obj o).rw.readers) :
    Sub (lagT o f g t') (Keeps o g Q x) (stepAsyncSend cfg (lagT o f g t' x) k o' it cb) (stepAsyncSend cfg x k o' it cb) := by
  unfold stepAsyncSend
  refine stepSend_lag cfg _ it cb _ _ ?_
    (fun y hy => ⟨lagT_setTask _ _ _ _ _ _ _ hk, keeps_setTask (keeps_sameOT ho hy) hk _⟩) (keeps_panic (keeps_refl ho) _)
  intro y hy
  have hoy : o < y.objs.length := by rw [hy.1]; exact ho
  refine ⟨?_, keeps_setTask (keeps_runlock hQ (keeps_sameOT ho hy) _) hk _⟩
  show ((lagT o f g t' y).runlock o').setTask k _ = _
  rw [lagT_runlock hf hoy o' (by rw [sameOT_obj hy]; exact hr), lagT_setTask _ _ _ _ _ _ _ hk]

theorem stepWgSend_lag (cfg : Cfg) (o' w : Nat) (it : Item) (cb : Bool) :
    Sub (lagT o f g t') (Keeps o g Q x) (stepWgSend cfg (lagT o f g t' x) k o' w it cb) (stepWgSend cfg x k o' w it cb) := by
  unfold stepWgSend
  refine stepSend_lag cfg _ it cb _ _ ?_
    (fun y hy => ⟨lagT_setTask _ _ _ _ _ _ _ hk, keeps_setTask (keeps_sameOT ho hy) hk _⟩) (keeps_panic (keeps_refl ho) _)
  intro y hy
  refine ⟨?_, keeps_setTask (keeps_wgDone (keeps_sameOT ho hy) _) hk _⟩
  show (wgDone (lagT o f g t' y) w).setTask k _ = _
  rw [lagT_wgDone, lagT_setTask _ _ _ _ _ _ _ hk]


/-- a writer's critical section: `subs` replaced, Lock released -/
theorem lagT_writer (o' : Nat) (cs : List ChanSt) (S : List Chan)
    (hcl : ((lagT o f g t' x).obj o').rw.canLock = true) (hw : o = o' → 0 < (x.obj o).rw.waiting) :
    ({ lagT o f g t' x with chans := cs }).setObj o'
        { (lagT o f g t' x).obj o' with subs := S, rw := ((lagT o f g t' x).obj o').rw.lockUnlock }
      = lagT o f g t' (({ x with chans := cs }).setObj o' { x.obj o' with subs := S, rw := (x.obj o').rw.lockUnlock }) := by
  have e := lagT_updObj o f g t' { x with chans := cs } o' (fun ob => { ob with subs := S, rw := ob.rw.lockUnlock }) ho (by
    intro e
    subst e
    show ({ (x.obj o) with subs := S, rw := f (x.obj o).rw.lockUnlock } : ObjSt) = { (x.obj o) with subs := S, rw := (f (x.obj o).rw).lockUnlock }
    rw [lagT_obj_self _ _ _ _ _ ho] at hcl
    rw [hf.lu _ hcl (hw rfl)])
  exact e

theorem keeps_writer (o' : Nat) (cs : List ChanSt) (S : List Chan)
    (hcl : ((lagT o f g t' x).obj o').rw.canLock = true) :
    Keeps o g Q x (({ x with chans := cs }).setObj o' { x.obj o' with subs := S, rw := (x.obj o').rw.lockUnlock }) := by
  refine keeps_updObj (y := { x with chans := cs }) (keeps_withChans (keeps_refl ho) cs) o' (fun ob => { ob with subs := S, rw := ob.rw.lockUnlock }) ?_
  intro e hq
  subst e
  rw [lagT_obj_self _ _ _ _ _ ho] at hcl
  exact hQ.wr _ S hcl hq

theorem stepSubWait_lag (o' : Nat) (c : Chan) (cap : Nat) (hw : o = o' → 0 < (x.obj o).rw.waiting) :
    Sub (lagT o f g t') (Keeps o g Q x) (stepSubWait (lagT o f g t' x) k o' c cap) (stepSubWait x k o' c cap) := by
  unfold stepSubWait
  rw [lagT_chans]
  by_cases hc : ((lagT o f g t' x).obj o').rw.canLock = true
  · have hc' := canLock_of_lag hf ho hc
    simp only [hc, hc', Bool.not_true, Bool.false_or]
    split
    · exact sub_nil _ _ _
    · refine sub_single _ _ ?_ (keeps_setTask (keeps_writer hf hQ ho hgl hk o' _ _ hc) hk _)
      rw [lagT_obj_subs _ _ _ _ _ ho, lagT_writer hf hQ ho hgl hk o' _ _ hc hw, lagT_setTask _ _ _ _ _ _ _ hk]
  · simp only [hc, Bool.not_false, Bool.true_or, ↓reduceIte]; exact sub_nil _ _ _

theorem stepUnsubWait_lag (u o' : Nat) (c : Chan) (hw : o = o' → 0 < (x.obj o).rw.waiting) :
    Sub (lagT o f g t') (Keeps o g Q x) (stepUnsubWait (lagT o f g t' x) k u o' c) (stepUnsubWait x k u o' c) := by
  unfold stepUnsubWait
  rw [lagT_chans]
  by_cases hc : ((lagT o f g t' x).obj o').rw.canLock = true
  · have hc' := canLock_of_lag hf ho hc
    simp only [hc, hc', Bool.not_true, Bool.false_eq_true, ↓reduceIte]
    rw [lagT_obj_subs _ _ _ _ _ ho]
    split
    · split
      · exact sub_single _ _ (lagT_panic _ _ _ _ _ _) (keeps_panic (keeps_refl ho) _)
      · refine sub_single _ _ ?_ (keeps_setTask (keeps_writer hf hQ ho hgl hk o' _ _ hc) hk _)
        rw [lagT_writer hf hQ ho hgl hk o' _ _ hc hw, lagT_setTask _ _ _ _ _ _ _ hk]
    · have e1 := lagT_writer hf hQ ho hgl hk o' x.chans (x.obj o').subs hc hw
      have e2 := keeps_writer (Q := Q) hf hQ ho hgl hk o' x.chans (x.obj o').subs hc
      refine sub_single _ _ ?_ (keeps_setTask e2 hk _)
      rw [← lagT_setTask _ _ _ _ _ _ _ hk]
      exact congrArg (fun s => State.setTask s k _) e1
  · simp only [hc, Bool.not_false, ↓reduceIte]; exact sub_nil _ _ _

theorem stepUaWait_lag (u o' : Nat) (hw : o = o' → 0 < (x.obj o).rw.waiting) :
    Sub (lagT o f g t') (Keeps o g Q x) (stepUaWait (lagT o f g t' x) k u o') (stepUaWait x k u o') := by
  unfold stepUaWait
  rw [lagT_chans]
  by_cases hc : ((lagT o f g t' x).obj o').rw.canLock = true
  · have hc' := canLock_of_lag hf ho hc
    simp only [hc, hc', Bool.not_true, Bool.false_eq_true, ↓reduceIte]
    rw [lagT_obj_subs _ _ _ _ _ ho]
    split
    · exact sub_single _ _ (lagT_panic _ _ _ _ _ _) (keeps_panic (keeps_refl ho) _)
    · refine sub_single _ _ ?_ (keeps_setTask (keeps_writer hf hQ ho hgl hk o' _ _ hc) hk _)
      rw [lagT_writer hf hQ ho hgl hk o' _ _ hc hw, lagT_setTask _ _ _ _ _ _ _ hk]
  · simp only [hc, Bool.not_false, ↓reduceIte]; exact sub_nil _ _ _

theorem stepWoStart_lag (w o' : Nat) (c : Chan) (hwo : w ≠ o) :
    Sub (lagT o f g t') (Keeps o g Q x) (stepWoStart (lagT o f g t' x) k w o' c) (stepWoStart x k w o' c) := by
  unfold stepWoStart
  by_cases hc : ((lagT o f g t' x).obj o').rw.canRLock = true
  · have hc' := canRLock_of_lag hf ho hc
    simp only [hc, hc', Bool.not_true, Bool.false_eq_true, ↓reduceIte]
    rw [lagT_obj_subs _ _ _ _ _ ho]
    refine sub_single _ _ ?_ (keeps_setTask (keeps_updObj (keeps_refl ho) w (fun _ => _) (fun e => absurd e hwo)) hk _)
    have e := lagT_updObj o f g t' x w (fun _ => { subs := (x.obj o').subs.filter (fun x => x == c), rw := {}, only := some c, ready := true }) ho
      (fun e => absurd e.symm hwo)
    rw [← lagT_setTask _ _ _ _ _ _ _ hk]
    exact congrArg (fun s => State.setTask s k _) e
  · simp only [hc, Bool.not_false, ↓reduceIte]; exact sub_nil _ _ _

theorem stepTask_lag (cfg : Cfg) (tk : Task) (hs : Side o annOK x tk) :
    Sub (lagT o f g t') (Keeps o g Q x) (stepTask cfg (lagT o f g t' x) k tk) (stepTask cfg x k tk) := by
  have hdone : ∀ (l : Option Event), Sub (lagT o f g t') (Keeps o g Q x) [(l, (lagT o f g t' x).setTask k .done)] [(l, x.setTask k .done)] :=
    fun l => sub_single _ _ (lagT_setTask _ _ _ _ _ _ _ hk) (keeps_setTask (keeps_refl ho) hk _)
  have hann : ∀ (o' : Nat) (tk' : Task), (o = o' → annOK) →
      Sub (lagT o f g t') (Keeps o g Q x) [(none, ((lagT o f g t' x).announce o').setTask k tk')] [(none, (x.announce o').setTask k tk')] := by
    intro o' tk' ha
    refine sub_single _ _ ?_ (keeps_setTask (keeps_announce hQ (keeps_refl ho) o' ha) hk _)
    rw [lagT_announce hf ho, lagT_setTask _ _ _ _ _ _ _ hk]
  cases tk with
  | pubStart p o' v evs => exact stepPubStart_lag hf hQ ho hgl hk p o' v evs
  | syncLoop p o' work cb => exact stepSyncLoop_lag hf hQ ho hgl hk cfg p o' work cb hs
  | waitWg p o' w => exact stepWaitWg_lag hf hQ ho hgl hk p o' w hs
  | pubRet p => exact hdone _
  | asyncStart o' it => exact stepAsyncStart_lag hf hQ ho hgl hk o' it
  | asyncSend o' it cb => exact stepAsyncSend_lag hf hQ ho hgl hk cfg o' it cb hs
  | wgSend o' w it cb => exact stepWgSend_lag hf hQ ho hgl hk cfg o' w it cb
  | subStart o' c cap => exact hann o' _ hs
  | subWait o' c cap => exact stepSubWait_lag hf hQ ho hgl hk o' c cap hs
  | subRet c => exact hdone _
  | unsubStart u o' c =>
    cases c with
    | none => exact sub_single _ _ (lagT_setTask _ _ _ _ _ _ _ hk) (keeps_setTask (keeps_refl ho) hk _)
    | some c => exact hann o' _ hs
  | unsubWait u o' c => exact stepUnsubWait_lag hf hQ ho hgl hk u o' c hs
  | unsubRet u code => exact hdone _
  | uaStart u o' => exact hann o' _ hs
  | uaWait u o' => exact stepUaWait_lag hf hQ ho hgl hk u o' hs
  | uaRet u => exact hdone _
  | woStart w o' c => exact stepWoStart_lag hf hQ ho hgl hk w o' c hs
  | done => exact sub_nil _ _ _

theorem taskSteps_lag (cfg : Cfg) (hs : ∀ tk, x.tasks[k]? = some tk → Side o annOK x tk) :
    Sub (lagT o f g t') (Keeps o g Q x) (taskSteps cfg (lagT o f g t' x) k) (taskSteps cfg x k) := by
  unfold taskSteps
  rw [lagT_task_ne _ _ _ _ _ _ hk]
  cases h : x.tasks[k]? with
  | none => exact sub_nil _ _ _
  | some tk => exact stepTask_lag hf hQ ho hgl hk cfg tk (hs tk h)

end
end TypVerif.Lemmas.PubSubRed
