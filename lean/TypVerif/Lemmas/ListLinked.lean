import TypVerif.Lemmas.ListHeap
import TypVerif.Spec.Seq
/-
`Linked nx pv c`: consecutive entries `a, b` of the pointer list `c` satisfy `nx a = b ∧ pv b = a`.
A heap list `l` spells the sequence `xs` when `Linked h.next h.prev (cyc l xs)` with
`cyc l xs = root l :: elem x₁ :: … :: elem xₙ :: [root l]`.

The three pointer surgeries of list.go (link after `at`, unlink, and their composition `move`) are
shown to transform the spelled pointer list by `insP` / `List.erase`.
-/
namespace TypVerif.Lemmas.LinkedList
open TypVerif.Spec.ListOp
open TypVerif.Spec.Seq

def Linked (nx pv : Ptr → Ptr) : List Ptr → Prop
  | [] => True
  | [_] => True
  | a :: b :: rest => nx a = b ∧ pv b = a ∧ Linked nx pv (b :: rest)

theorem Linked_cons_cons {nx pv : Ptr → Ptr} {a b : Ptr} {rest : List Ptr} :
    Linked nx pv (a :: b :: rest) ↔ nx a = b ∧ pv b = a ∧ Linked nx pv (b :: rest) := Iff.rfl

theorem Linked.tail {nx pv : Ptr → Ptr} : ∀ {a : Ptr} {c : List Ptr}, Linked nx pv (a :: c) → Linked nx pv c
  | _, [], _ => trivial
  | _, _ :: _, h => h.2.2

/-- frame: only `nx` on all-but-last and `pv` on all-but-first entries matter -/
theorem Linked.frame {nx pv nx' pv' : Ptr → Ptr} : ∀ {c : List Ptr}, Linked nx pv c →
    (∀ a ∈ c.dropLast, nx' a = nx a) → (∀ b ∈ c.tail, pv' b = pv b) → Linked nx' pv' c
  | [], _, _, _ => trivial
  | [_], _, _, _ => trivial
  | a :: b :: rest, h, h1, h2 => by
    obtain ⟨ha, hb, hr⟩ := h
    refine ⟨?_, ?_, ?_⟩
    · rw [h1 a (by simp)]; exact ha
    · rw [h2 b (by simp)]; exact hb
    · apply Linked.frame hr
      · intro x hx; exact h1 x (by rw [List.dropLast_cons_cons]; exact List.mem_cons_of_mem _ hx)
      · intro x hx; exact h2 x (by
          have : x ∈ (b :: rest).tail := hx
          simp only [List.tail_cons] at this ⊢
          exact List.mem_cons_of_mem _ this)

theorem Linked.next_mem {nx pv : Ptr → Ptr} : ∀ {c : List Ptr} {p : Ptr}, Linked nx pv c →
    p ∈ c.dropLast → nx p ∈ c.tail
  | [], _, _, hp => by simp at hp
  | [_], _, _, hp => by simp at hp
  | a :: b :: rest, p, h, hp => by
    rw [List.dropLast_cons_cons] at hp
    rcases List.mem_cons.1 hp with rfl | hp
    · rw [h.1]; simp
    · have := Linked.next_mem h.2.2 hp
      simp only [List.tail_cons] at this ⊢
      exact List.mem_cons_of_mem _ this

theorem Linked.prev_mem {nx pv : Ptr → Ptr} : ∀ {c : List Ptr} {p : Ptr}, Linked nx pv c →
    p ∈ c.tail → pv p ∈ c.dropLast
  | [], _, _, hp => by simp at hp
  | [_], _, _, hp => by simp at hp
  | a :: b :: rest, p, h, hp => by
    rw [List.dropLast_cons_cons]
    simp only [List.tail_cons] at hp
    rcases List.mem_cons.1 hp with rfl | hp
    · rw [h.2.1]; simp
    · exact List.mem_cons_of_mem _ (Linked.prev_mem h.2.2 (by simpa using hp))

/-- symmetric view: the reversed list is linked with the roles of `next` and `prev` exchanged -/
theorem Linked.snoc {nx pv : Ptr → Ptr} : ∀ {c : List Ptr} {a b : Ptr}, Linked nx pv (c ++ [a]) →
    nx a = b → pv b = a → Linked nx pv (c ++ [a, b])
  | [], _, _, _, h1, h2 => ⟨h1, h2, trivial⟩
  | [x], _, _, h, h1, h2 => ⟨h.1, h.2.1, h1, h2, trivial⟩
  | x :: y :: rest, a, b, h, h1, h2 => by
    have h' : Linked nx pv (x :: y :: (rest ++ [a])) := h
    exact ⟨h'.1, h'.2.1, Linked.snoc (c := y :: rest) h'.2.2 h1 h2⟩

theorem Linked.reverse {nx pv : Ptr → Ptr} : ∀ {c : List Ptr}, Linked nx pv c → Linked pv nx c.reverse
  | [], _ => trivial
  | [_], _ => trivial
  | a :: b :: rest, h => by
    have ih : Linked pv nx ((b :: rest).reverse) := Linked.reverse h.2.2
    have e : (a :: b :: rest).reverse = rest.reverse ++ [b, a] := by simp
    rw [e]
    have e2 : (b :: rest).reverse = rest.reverse ++ [b] := by simp
    rw [e2] at ih
    exact Linked.snoc ih h.2.1 h.1

/-! ### link `e` after `at` -/

def insP (at' e : Ptr) : List Ptr → List Ptr
  | [] => []
  | a :: rest => if a = at' then a :: e :: rest else a :: insP at' e rest

theorem insP_head (at' e a : Ptr) (rest : List Ptr) : ∃ t, insP at' e (a :: rest) = a :: t := by
  unfold insP; split <;> exact ⟨_, rfl⟩

theorem Linked.insP {nx pv nx' pv' : Ptr → Ptr} {at' e : Ptr}
    (hnx : ∀ x, nx' x = if x = at' then e else if x = e then nx at' else nx x)
    (hpv : ∀ x, pv' x = if x = nx at' then e else if x = e then at' else pv x) :
    ∀ {c : List Ptr}, Linked nx pv c → at' ∈ c.dropLast → c.dropLast.Nodup → c.tail.Nodup → e ∉ c →
      Linked nx' pv' (insP at' e c)
  | [], _, hat, _, _, _ => by simp at hat
  | [_], _, hat, _, _, _ => by simp at hat
  | a :: b :: rest, h, hat, hnd1, hnd2, he => by
    obtain ⟨ha, hb, hr⟩ := h
    rw [List.dropLast_cons_cons] at hat hnd1
    simp only [List.tail_cons] at hnd2
    have hea : e ≠ a := fun h => he (by simp [h])
    have heb : e ≠ b := fun h => he (by simp [h])
    have her : e ∉ b :: rest := fun h => he (List.mem_cons_of_mem _ h)
    have hnd1' := (List.nodup_cons.1 hnd1)
    have hnd2' := (List.nodup_cons.1 hnd2)
    by_cases haa : a = at'
    · -- insertion right here
      subst haa
      have e1 : TypVerif.Lemmas.LinkedList.insP a e (a :: b :: rest) = a :: e :: b :: rest := by
        simp [TypVerif.Lemmas.LinkedList.insP]
      rw [e1]
      refine ⟨?_, ?_, ?_, ?_, ?_⟩
      · rw [hnx]; simp
      · rw [hpv, ha]; simp [heb]
      · rw [hnx, ha]; simp [hea]
      · rw [hpv, ha]; simp
      · apply Linked.frame hr
        · intro x hx
          have hxa : x ≠ a := fun h => hnd1'.1 (h ▸ hx)
          have hxe : x ≠ e := fun h => her (h ▸ List.dropLast_subset _ hx)
          rw [hnx]; simp [hxa, hxe]
        · intro x hx
          simp only [List.tail_cons] at hx
          have hxb : x ≠ b := fun h => hnd2'.1 (h ▸ hx)
          have hxe : x ≠ e := fun h => her (h ▸ List.mem_cons_of_mem _ hx)
          rw [hpv, ha]; simp [hxb, hxe]
    · have hat2 : at' ∈ (b :: rest).dropLast := by
        rcases List.mem_cons.1 hat with h | h
        · exact absurd h.symm haa
        · exact h
      have ih := Linked.insP hnx hpv hr hat2 hnd1'.2 (by
          simp only [List.tail_cons]; exact hnd2'.2) her
      have e1 : TypVerif.Lemmas.LinkedList.insP at' e (a :: b :: rest)
          = a :: TypVerif.Lemmas.LinkedList.insP at' e (b :: rest) := by
        simp [TypVerif.Lemmas.LinkedList.insP, haa]
      rw [e1]
      obtain ⟨t, ht⟩ := insP_head at' e b rest
      rw [ht] at ih ⊢
      refine ⟨?_, ?_, ih⟩
      · rw [hnx]; simp [haa, hea.symm, ha]
      · have hn : nx at' ∈ (b :: rest).tail := Linked.next_mem hr hat2
        simp only [List.tail_cons] at hn
        have hbn : b ≠ nx at' := fun h => hnd2'.1 (h ▸ hn)
        rw [hpv]; simp [hbn, heb.symm, hb]

/-! ### unlink `e` -/

theorem Linked.erase {nx pv nx' pv' : Ptr → Ptr} {e : Ptr}
    (hnx : ∀ x, nx' x = if x = pv e then nx e else nx x)
    (hpv : ∀ x, pv' x = if x = nx e then pv e else pv x) :
    ∀ {a : Ptr} {c : List Ptr}, Linked nx pv (a :: c) → e ∈ c.dropLast → e ≠ a →
      (a :: c).dropLast.Nodup → c.Nodup → Linked nx' pv' (a :: c.erase e)
  | _, [], _, he, _, _, _ => by simp at he
  | _, [_], _, he, _, _, _ => by simp at he
  | a, b :: b2 :: rest, h, he, hea, hnd1, hnd2 => by
    obtain ⟨ha, hb, hr⟩ := h
    rw [List.dropLast_cons_cons] at he
    rw [List.dropLast_cons_cons, List.dropLast_cons_cons] at hnd1
    have hnd1' := List.nodup_cons.1 hnd1
    have hnd2' := List.nodup_cons.1 hnd2
    by_cases hbe : b = e
    · subst hbe
      have e1 : (b :: b2 :: rest).erase b = b2 :: rest := by simp
      rw [e1]
      obtain ⟨hb2, hb3, hr2⟩ := hr
      refine ⟨?_, ?_, ?_⟩
      · rw [hnx, hb]; simp [hb2]
      · rw [hpv, hb2]; simp [hb]
      · apply Linked.frame hr2
        · intro x hx
          have hxa : x ≠ a := fun h => hnd1'.1 (h ▸ List.mem_cons_of_mem _ hx)
          rw [hnx, hb]; simp [hxa]
        · intro x hx
          simp only [List.tail_cons] at hx
          have : b2 ∉ rest := (List.nodup_cons.1 hnd2'.2).1
          have hxb : x ≠ b2 := fun h => this (h ▸ hx)
          rw [hpv, hb2]; simp [hxb]
    · have he2 : e ∈ (b2 :: rest).dropLast := by
        rcases List.mem_cons.1 he with h | h
        · exact absurd h.symm hbe
        · exact h
      have hbe' : e ≠ b := fun h => hbe h.symm
      have ih := Linked.erase hnx hpv (a := b) hr he2 hbe' (by
          rw [List.dropLast_cons_cons]; exact hnd1'.2) hnd2'.2
      have e1 : (b :: b2 :: rest).erase e = b :: (b2 :: rest).erase e := by
        rw [List.erase_cons]; simp [hbe]
      rw [e1]
      refine ⟨?_, ?_, ih⟩
      · have hp : pv e ∈ (b :: b2 :: rest).dropLast :=
          Linked.prev_mem (c := b :: b2 :: rest) hr (by simpa using List.dropLast_subset _ he2)
        have hap : a ≠ pv e := fun h => hnd1'.1 (by rw [← List.dropLast_cons_cons]; exact h ▸ hp)
        rw [hnx]; simp [hap, ha]
      · have hn : nx e ∈ (b2 :: rest).tail := Linked.next_mem hr.2.2 he2
        have hbn : b ≠ nx e := fun h => hnd2'.1 (h ▸ List.mem_of_mem_tail hn)
        rw [hpv]; simp [hbn, hb]

/-! ### the pointer cycle of an element sequence -/

def cyc (l : ListId) (xs : List ElemId) : List Ptr := .root l :: (xs.map .elem ++ [.root l])

theorem nodup_map_elem {xs : List ElemId} (h : xs.Nodup) : (xs.map Ptr.elem).Nodup := by
  induction xs with
  | nil => simp
  | cons x xs ih =>
    have := List.nodup_cons.1 h
    simp only [List.map_cons, List.nodup_cons, List.mem_map, Ptr.elem.injEq, exists_eq_right]
    exact ⟨this.1, ih this.2⟩

theorem cyc_dropLast (l : ListId) (xs : List ElemId) : (cyc l xs).dropLast = .root l :: xs.map .elem := by
  unfold cyc
  rw [List.dropLast_cons_of_ne_nil (by simp), List.dropLast_concat]

theorem cyc_tail (l : ListId) (xs : List ElemId) : (cyc l xs).tail = xs.map .elem ++ [.root l] := rfl

theorem cyc_dropLast_nodup {l : ListId} {xs : List ElemId} (h : xs.Nodup) : (cyc l xs).dropLast.Nodup := by
  rw [cyc_dropLast, List.nodup_cons]
  exact ⟨by simp, nodup_map_elem h⟩

theorem cyc_tail_nodup {l : ListId} {xs : List ElemId} (h : xs.Nodup) : (cyc l xs).tail.Nodup := by
  rw [cyc_tail, List.nodup_append]
  refine ⟨nodup_map_elem h, by simp, ?_⟩
  intro a ha b hb
  simp only [List.mem_map] at ha
  obtain ⟨x, _, rfl⟩ := ha
  simp only [List.mem_singleton] at hb
  subst hb; simp

theorem mem_cyc {l : ListId} {xs : List ElemId} {p : Ptr} :
    p ∈ cyc l xs ↔ p = .root l ∨ ∃ x ∈ xs, p = .elem x := by
  unfold cyc
  simp only [List.mem_cons, List.mem_append, List.mem_map, List.not_mem_nil, or_false]
  constructor
  · rintro (h | ⟨x, hx, rfl⟩ | h)
    · exact Or.inl h
    · exact Or.inr ⟨x, hx, rfl⟩
    · exact Or.inl h
  · rintro (h | ⟨x, hx, rfl⟩)
    · exact Or.inl h
    · exact Or.inr (Or.inl ⟨x, hx, rfl⟩)

theorem mem_cyc_dropLast {l : ListId} {xs : List ElemId} {p : Ptr} :
    p ∈ (cyc l xs).dropLast ↔ p = .root l ∨ ∃ x ∈ xs, p = .elem x := by
  rw [cyc_dropLast]
  simp only [List.mem_cons, List.mem_map]
  constructor
  · rintro (h | ⟨x, hx, rfl⟩)
    · exact Or.inl h
    · exact Or.inr ⟨x, hx, rfl⟩
  · rintro (h | ⟨x, hx, rfl⟩)
    · exact Or.inl h
    · exact Or.inr ⟨x, hx, rfl⟩

/-- the abstract counterpart of "insert after the pointer `at`" -/
def insAfter (at' : Ptr) (e : ElemId) (xs : List ElemId) : List ElemId :=
  match at' with
  | .elem a => insertAfterL a e xs
  | _ => e :: xs

theorem insP_map_elem (a e : ElemId) (l : ListId) (xs : List ElemId) :
    insP (.elem a) (.elem e) (xs.map .elem ++ [.root l]) = (insertAfterL a e xs).map .elem ++ [.root l] := by
  induction xs with
  | nil => simp [insP, insertAfterL]
  | cons x xs ih =>
    simp only [List.map_cons, List.cons_append, insP, insertAfterL, Ptr.elem.injEq]
    by_cases hx : x = a
    · simp [hx]
    · simp [hx, ih]

theorem insP_cyc {l : ListId} {xs : List ElemId} {at' : Ptr} (e : ElemId)
    (hat : at' = .root l ∨ ∃ a, at' = .elem a) :
    insP at' (.elem e) (cyc l xs) = cyc l (insAfter at' e xs) := by
  rcases hat with rfl | ⟨a, rfl⟩
  · simp [cyc, insP, insAfter]
  · simp only [cyc, insP, insAfter, root_ne_elem, if_false]
    rw [insP_map_elem]

theorem erase_map_elem (x : ElemId) (l : ListId) (xs : List ElemId) :
    (xs.map Ptr.elem ++ [Ptr.root l]).erase (.elem x) = (xs.erase x).map .elem ++ [.root l] := by
  induction xs with
  | nil => simp
  | cons y ys ih =>
    simp only [List.map_cons, List.cons_append, List.erase_cons]
    by_cases hy : y = x
    · simp [hy]
    · simp [hy, ih]

theorem cyc_erase (l : ListId) (xs : List ElemId) (x : ElemId) :
    cyc l (xs.erase x) = .root l :: (xs.map Ptr.elem ++ [Ptr.root l]).erase (.elem x) := by
  rw [erase_map_elem]; rfl

end TypVerif.Lemmas.LinkedList
