import TypVerif.Lemmas.ConcAcceptC10Closure
import TypVerif.Lemmas.ConcAcceptC10Norm
import TypVerif.Lemmas.ConcAcceptC10J
/-
C10 judge: soundness of `closure`, `advance` and of the fold of `advance` over a trace.
-/
namespace TypVerif.Lemmas.ConcAcceptC10
open TypVerif TypVerif.Conc TypVerif.Model.PubSub TypVerif.Drv.C10

theorem norm_init : norm ({} : State) = ({} : State) := rfl

/-- `closure` only adds `norm`s of states reachable by internal steps from the frontier it started with -/
theorem closure_sound (cfg : Cfg) (n : Nat) (seen : Std.HashSet State) (frontier : List State) :
    ∀ t, t ∈ closure cfg n seen frontier →
      t ∈ seen ∨ ∃ s ∈ frontier, ∃ (ls : List (Option Event)) (t' : State), Exec (sys cfg) s ls t' ∧ visible ls = [] ∧ norm t' = t := by
  refine closure_inv cfg
    (fun t => t ∈ seen ∨ ∃ s ∈ frontier, ∃ (ls : List (Option Event)) (t' : State), Exec (sys cfg) s ls t' ∧ visible ls = [] ∧ norm t' = t)
    (fun t => ∃ s ∈ frontier, ∃ (ls : List (Option Event)) (t' : State), Exec (sys cfg) s ls t' ∧ visible ls = [] ∧ norm t' = norm t)
    ?_ n seen frontier (fun t ht => Or.inl ht) (fun t ht => ⟨t, ht, [], t, Exec.nil _, rfl, rfl⟩)
  intro t u ⟨s, hs, ls, t', hex, hv, hn⟩ hu
  obtain ⟨(ls2 : List (Option Event)), hex2, hv2⟩ := succJ_exec cfg t u none hu
  obtain ⟨(u' : State), hex3, hn3⟩ := exec_norm_eq (a := t) (a' := t') hn.symm hex2
  have hex4 : Exec (sys cfg) s (ls ++ ls2) u' := Exec.append hex hex3
  have hv4 : visible (ls ++ ls2) = [] := by
    have hv2' : visible ls2 = [] := hv2
    rw [visible_append, hv, hv2']; rfl
  exact ⟨⟨s, hs, ls ++ ls2, u', hex4, hv4, (norm_norm u).symm ▸ hn3⟩, Or.inr ⟨s, hs, ls ++ ls2, u', hex4, hv4, hn3⟩⟩

/-- one judge step: every state of the new set is the `norm` of a state that the system offering only `e` reaches from a
state of the old set by an execution whose visible trace is exactly `[e]` -/
theorem advance_sound (cfg : Cfg) (ss : List State) (e : Event) :
    ∀ t ∈ advance cfg ss e, ∃ s ∈ ss, ∃ (ls : List (Option Event)) (t' : State),
      Exec (sys { cfg with env := [e] }) s ls t' ∧ visible ls = [e] ∧ norm t' = t := by
  intro t ht
  unfold advance at ht
  simp only at ht
  rw [Std.HashSet.mem_toList] at ht
  -- members of the initial hash set
  have hseen : ∀ x, x ∈ (List.foldl (fun (acc : Std.HashSet State) s => acc.insert s) {}
      (ss.flatMap (fun s => (succ { cfg with env := [e] } s).filterMap
        (fun p => if p.1 == some e then some (norm p.2) else none)))) →
      ∃ s ∈ ss, ∃ x', (some e, x') ∈ succ { cfg with env := [e] } s ∧ norm x' = x := by
    intro x hx
    have hx := mem_foldl_insert _ x hx
    obtain ⟨s, hs, hx⟩ := List.mem_flatMap.1 hx
    obtain ⟨p, hp, hpe⟩ := List.mem_filterMap.1 hx
    obtain ⟨l, x'⟩ := p
    split at hpe
    · rename_i heq
      have hl : l = some e := eq_of_beq heq
      subst hl
      simp only [Option.some.injEq] at hpe
      exact ⟨s, hs, x', hp, hpe⟩
    · cases hpe
  rcases closure_sound _ _ _ _ t ht with h | ⟨x, hx, ls, t', hex, hv, hn⟩
  · obtain ⟨s, hs, x', hp, hn⟩ := hseen t h
    exact ⟨s, hs, [some e], x', Exec.single hp, rfl, hn⟩
  · rw [Std.HashSet.mem_toList] at hx
    obtain ⟨s, hs, x', hp, hnx⟩ := hseen x hx
    obtain ⟨(t'' : State), hex2, hn2⟩ := exec_norm_eq (a := x) (a' := x') (by rw [← hnx]; exact norm_norm x') hex
    exact ⟨s, hs, some e :: ls, t'', Exec.cons hp hex2, by rw [visible_cons_some, hv], hn2.trans hn⟩

/-- the fold of `advance`, from a set of states that are `norm`s of states reached from the initial state -/
theorem foldl_advance_sound (cfg : Cfg) (E : List Event) :
    ∀ (tr : List Event), (∀ e ∈ tr, e ∈ E ∨ isInv e = false) → ∀ (ss : List State) (done : List Event),
      (∀ s ∈ ss, ∃ (ls : List (Option Event)) (s' : State), Exec (sys { cfg with env := E }) {} ls s' ∧ visible ls = done ∧ norm s' = s) →
      ∀ t ∈ tr.foldl (advance cfg) ss,
        ∃ (ls : List (Option Event)) (t' : State), Exec (sys { cfg with env := E }) {} ls t' ∧ visible ls = done ++ tr ∧ norm t' = t := by
  intro tr
  induction tr with
  | nil => intro _ ss done hss t ht; simpa using hss t ht
  | cons e tr ih =>
    intro hE ss done hss t ht
    rw [List.foldl_cons] at ht
    have := ih (fun e' he' => hE e' (List.mem_cons_of_mem _ he')) (advance cfg ss e) (done ++ [e]) ?_ t ht
    · simpa using this
    · intro x hx
      obtain ⟨s, hs, ls2, x', hex2, hv2, hn2⟩ := advance_sound cfg ss e x hx
      obtain ⟨ls1, s', hex1, hv1, hn1⟩ := hss s hs
      obtain ⟨(x'' : State), hex3, hn3⟩ := exec_norm_eq (a := s) (a' := s') (by rw [← hn1]; exact norm_norm s') hex2
      have hex4 := exec_env_mono cfg [e] E (by
        intro e' he'
        rw [List.mem_singleton.1 he']
        exact hE e List.mem_cons_self) hex3
      exact ⟨ls1 ++ ls2, x'', Exec.append hex1 hex4, by simp [hv1, hv2], hn3.trans hn2⟩

theorem judge_fold_sound (cfg : Cfg) (E : List Event) (tr : List Event) (hE : ∀ e ∈ tr, e ∈ E ∨ isInv e = false) :
    ∀ t ∈ tr.foldl (advance cfg) [{}],
      ∃ (ls : List (Option Event)) (t' : State), Exec (sys { cfg with env := E }) (sys { cfg with env := E }).init ls t' ∧ visible ls = tr ∧ norm t' = t := by
  intro t ht
  have := foldl_advance_sound cfg E tr hE [{}] [] (by
    intro s hs
    rw [List.mem_singleton.1 hs]
    exact ⟨[], {}, Exec.nil _, rfl, rfl⟩) t ht
  obtain ⟨ls, t', hex, hv, hn⟩ := this
  exact ⟨ls, t', hex, by simpa using hv, hn⟩

theorem mem_filter_isInv_or (tr : List Event) : ∀ e ∈ tr, e ∈ tr.filter isInv ∨ isInv e = false := by
  intro e he
  cases h : isInv e with
  | true => exact Or.inl (List.mem_filter.2 ⟨he, h⟩)
  | false => exact Or.inr rfl

end TypVerif.Lemmas.ConcAcceptC10
