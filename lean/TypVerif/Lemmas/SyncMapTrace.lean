import TypVerif.Model.SyncMapTrace
import TypVerif.Lemmas.SmcBasic
/-
Soundness of the pure step-trace replay `Model.SyncMapTrace.applyLine/replay` with respect to the transition system
`Model.SyncMapConc.sys`: an accepted line is a step of `succ` carrying the line's visible event, an accepted trace is
an execution whose visible events are the trace's `inv`/`res` lines.  And the judge's on-demand padding with idle
goroutines (`replayPad`) is the replay from `init n` for the final number `n` of goroutines.
-/
namespace TypVerif.Lemmas.SyncMapTrace
open TypVerif TypVerif.Conc TypVerif.Model TypVerif.Model.SyncMapConc TypVerif.Model.SyncMapTrace
open TypVerif.Lemmas.Smc (mem_stepT_iff)

set_option linter.unusedSectionVars false

variable {K V : Type} [DecidableEq K] [DecidableEq V] [Inhabited V]

/-! ### one line -/

/-- a goroutine that is not idle exists -/
theorem lt_of_pc_ne_idle {s : State K V} {t : Tid} (h : s.pc t ≠ .idle) : t < s.pcs.length := by
  apply Classical.byContradiction
  intro hn
  apply h
  have hn' : s.pcs.length ≤ t := Nat.le_of_not_lt hn
  simp only [State.pc, List.getD_eq_getElem?_getD]
  rw [List.getElem?_eq_none hn']
  rfl

theorem mem_succ_of_mem_stepT {menu : List (Op K V)} {s : State K V} {t : Tid}
    {x : Option (SyncMapConc.Event K V) × State K V} (ht : t < s.pcs.length) (h : x ∈ stepT menu s t) :
    x ∈ succ menu s :=
  List.mem_flatMap.mpr ⟨t, List.mem_range.mpr ht, h⟩

/-- **An accepted line is a step of the model**, labelled with the line's visible event (`inv`/`res` lines) or
internal (`step`/`iter` lines). -/
theorem applyLine_sound (menu : List (Op K V)) {s s' : State K V} {l : Line K V}
    (hop : ∀ t op, l = .inv t op → op ∈ menu) (h : applyLine s l = some s') :
    ∃ lab, (lab, s') ∈ succ menu s ∧ lab = l.event := by
  refine ⟨l.event, ?_, rfl⟩
  cases l with
  | inv t op =>
    simp only [applyLine] at h
    split at h
    · rename_i ht
      split at h
      · rename_i hpc
        cases h
        exact mem_succ_of_mem_stepT ht (mem_stepT_iff.mpr (Or.inl ⟨hpc, op, hop t op rfl, rfl, rfl⟩))
      · cases h
    · cases h
  | step t label =>
    simp only [applyLine] at h
    split at h
    · split at h
      · rename_i sh' pc' hex
        cases h
        have hi : s.pc t ≠ .idle := by
          intro hc; rw [hc] at hex; cases hex
        have hr : ∀ r, s.pc t ≠ .ret r := by
          intro r hc; rw [hc] at hex; cases hex
        exact mem_succ_of_mem_stepT (lt_of_pc_ne_idle hi)
          (mem_stepT_iff.mpr (Or.inr (Or.inr ⟨hi, hr, rfl, Or.inl ⟨sh', pc', hex, rfl⟩⟩)))
      · cases h
    · cases h
  | iter t k =>
    simp only [applyLine] at h
    split at h
    · rename_i c hc
      cases h
      have hmem : c ∈ picks (s.pc t) := List.mem_of_find?_eq_some hc
      have hi : s.pc t ≠ .idle := by
        intro hc'; rw [hc'] at hmem; cases hmem
      have hr : ∀ r, s.pc t ≠ .ret r := by
        intro r hc'; rw [hc'] at hmem; cases hmem
      exact mem_succ_of_mem_stepT (lt_of_pc_ne_idle hi)
        (mem_stepT_iff.mpr (Or.inr (Or.inr ⟨hi, hr, rfl, Or.inr ⟨c, hmem, rfl⟩⟩)))
    · cases h
  | res t r =>
    simp only [applyLine] at h
    split at h
    · rename_i r' hpc
      split at h
      · rename_i hrr
        cases h
        subst hrr
        have hi : s.pc t ≠ .idle := by rw [hpc]; intro hc; cases hc
        exact mem_succ_of_mem_stepT (lt_of_pc_ne_idle hi)
          (mem_stepT_iff.mpr (Or.inr (Or.inl ⟨r', hpc, rfl, rfl⟩)))
      · cases h
    · cases h

/-- accepted lines keep the number of goroutines -/
theorem applyLine_length {s s' : State K V} {l : Line K V} (h : applyLine s l = some s') :
    s'.pcs.length = s.pcs.length := by
  cases l <;> simp only [applyLine] at h <;> (repeat' split at h) <;> first | cases h | skip
  all_goals simp [setPc]

/-! ### a trace -/

theorem replay_eq_foldlM (s : State K V) (ls : List (Line K V)) : replay s ls = ls.foldlM applyLine s := by
  induction ls generalizing s with
  | nil => rfl
  | cons l ls ih =>
    simp only [replay, List.foldlM_cons]
    cases applyLine s l with
    | none => rfl
    | some s' => exact ih s'

theorem replay_length {s s' : State K V} {ls : List (Line K V)} (h : replay s ls = some s') :
    s'.pcs.length = s.pcs.length := by
  induction ls generalizing s with
  | nil => simp only [replay] at h; cases h; rfl
  | cons l ls ih =>
    simp only [replay] at h
    split at h
    · rename_i s1 h1
      rw [ih h, applyLine_length h1]
    · cases h

omit [DecidableEq K] [DecidableEq V] [Inhabited V] in
theorem mem_invoked {ls : List (Line K V)} {t : Tid} {op : Op K V} (h : Line.inv t op ∈ ls) : op ∈ invoked ls :=
  List.mem_filterMap.mpr ⟨_, h, rfl⟩

omit [DecidableEq K] [DecidableEq V] [Inhabited V] in
theorem visible_map_event (ls : List (Line K V)) : visible (ls.map Line.event) = eventsOf ls := by
  simp only [visible, eventsOf, List.filterMap_map]
  rfl

theorem filterMap_visible {α β : Type} (f : α → Option β) (evs : List (Option α)) :
    (visible evs).filterMap f = evs.filterMap (fun x => x.bind f) := by
  simp only [visible, List.filterMap_filterMap]
  rfl

/-- the execution of an accepted trace, with its labels spelled out: one model step per line.  (`succ` does not depend
on the number of goroutines `n` or on `zst`, only `init` does, so the statement holds for every `n`, `zst`.) -/
theorem replay_exec (menu : List (Op K V)) (n : Nat) (zst : Bool) {s s' : State K V} {ls : List (Line K V)}
    (hmenu : ∀ t op, Line.inv t op ∈ ls → op ∈ menu) (h : replay s ls = some s') :
    Exec (sys K V menu n zst) s (ls.map Line.event) s' := by
  induction ls generalizing s with
  | nil => simp only [replay] at h; cases h; exact Exec.nil _
  | cons l ls ih =>
    simp only [replay] at h
    split at h
    · rename_i s1 h1
      obtain ⟨lab, hmem, hlab⟩ := applyLine_sound menu
        (fun t op e => hmenu t op (by rw [e]; exact List.mem_cons_self)) h1
      subst hlab
      exact Exec.cons (sys := sys K V menu n zst) hmem
        (ih (fun t op hm => hmenu t op (List.mem_cons_of_mem _ hm)) h)
    · cases h

/-- **An accepted trace is an execution of the model** whose visible events are exactly the trace's `inv`/`res`
lines, in order. -/
theorem replay_sound (menu : List (Op K V)) (n : Nat) (zst : Bool) {s s' : State K V} {ls : List (Line K V)}
    (hmenu : ∀ t op, Line.inv t op ∈ ls → op ∈ menu) (h : replay s ls = some s') :
    ∃ evs, Exec (sys K V menu n zst) s evs s' ∧ evs.filterMap id = eventsOf ls :=
  ⟨_, replay_exec menu n zst hmenu h, visible_map_event ls⟩

/-! ### padding with idle goroutines -/

omit [DecidableEq K] [DecidableEq V] [Inhabited V] in
@[simp] theorem pad_sh (s : State K V) (n : Nat) : (pad s n).sh = s.sh := rfl

omit [DecidableEq K] [DecidableEq V] [Inhabited V] in
theorem pad_length (s : State K V) (n : Nat) : (pad s n).pcs.length = max s.pcs.length n := by
  simp only [pad, List.length_append, List.length_replicate]
  omega

omit [DecidableEq K] [DecidableEq V] [Inhabited V] in
/-- padding is invisible to `State.pc`: a missing goroutine already reads as idle -/
@[simp] theorem pad_pc (s : State K V) (n : Nat) (t : Tid) : (pad s n).pc t = s.pc t := by
  simp only [State.pc, pad, List.getD_eq_getElem?_getD]
  by_cases ht : t < s.pcs.length
  · rw [List.getElem?_append_left ht]
  · have ht' : s.pcs.length ≤ t := Nat.le_of_not_lt ht
    rw [List.getElem?_append_right ht', List.getElem?_eq_none (l := s.pcs) ht']
    simp only [List.getElem?_replicate]
    split <;> rfl

omit [DecidableEq K] [DecidableEq V] [Inhabited V] in
theorem pad_setPc {s : State K V} {t : Tid} (ht : t < s.pcs.length) (n : Nat) (sh : Shared K V) (pc : Pc K V) :
    pad (setPc s t sh pc) n = setPc (pad s n) t sh pc := by
  simp only [pad, setPc, List.length_set, List.set_append_left _ _ ht]

omit [DecidableEq K] [DecidableEq V] [Inhabited V] in
theorem pad_of_le {s : State K V} {n : Nat} (h : n ≤ s.pcs.length) : pad s n = s := by
  cases s with
  | mk sh pcs =>
    simp only [pad, State.mk.injEq, true_and]
    have h' : n ≤ pcs.length := h
    rw [Nat.sub_eq_zero_of_le h']
    simp

omit [DecidableEq K] [DecidableEq V] [Inhabited V] in
theorem pad_pad (s : State K V) (a b : Nat) (h : a ≤ b) : pad (pad s a) b = pad s b := by
  cases s with
  | mk sh pcs =>
    simp only [pad, State.mk.injEq, true_and, List.length_append, List.length_replicate, List.append_assoc,
      List.replicate_append_replicate]
    congr 2
    omega

omit [DecidableEq K] [DecidableEq V] [Inhabited V] in
theorem pad_init (n : Nat) (zst : Bool) : pad (SyncMapConc.init 0 zst : State K V) n = SyncMapConc.init n zst := by
  simp [pad, SyncMapConc.init]

/-- an accepted line is accepted, with the same effect, when more idle goroutines are around -/
theorem applyLine_pad {s s' : State K V} {l : Line K V} (h : applyLine s l = some s') (n : Nat) :
    applyLine (pad s n) l = some (pad s' n) := by
  have hlen : ∀ t, s.pc t ≠ .idle → t < s.pcs.length := fun t => lt_of_pc_ne_idle
  cases l with
  | inv t op =>
    simp only [applyLine] at h ⊢
    split at h
    · rename_i ht
      split at h
      · rename_i hpc
        cases h
        have ht' : t < (pad s n).pcs.length := by
          rw [pad_length]; exact Nat.lt_of_lt_of_le ht (Nat.le_max_left _ _)
        simp only [ht', if_true, pad_pc, hpc, pad_sh, pad_setPc ht]
      · cases h
    · cases h
  | step t label =>
    simp only [applyLine, pad_pc, pad_sh] at h ⊢
    split at h
    · rename_i hl
      split at h
      · rename_i sh' pc' hex
        cases h
        have hi : s.pc t ≠ .idle := by
          intro hc; rw [hc] at hex; cases hex
        simp only [hl, if_true, pad_setPc (hlen t hi)]
      · cases h
    · cases h
  | iter t k =>
    simp only [applyLine, pad_pc, pad_sh] at h ⊢
    split at h
    · rename_i c hc
      cases h
      have hmem : c ∈ picks (s.pc t) := List.mem_of_find?_eq_some hc
      have hi : s.pc t ≠ .idle := by
        intro hc'; rw [hc'] at hmem; cases hmem
      simp only [pad_setPc (hlen t hi)]
    · cases h
  | res t r =>
    simp only [applyLine, pad_pc, pad_sh] at h ⊢
    split at h
    · rename_i r' hpc
      split at h
      · rename_i hrr
        cases h
        have hi : s.pc t ≠ .idle := by rw [hpc]; intro hc; cases hc
        simp only [hrr, if_true, pad_setPc (hlen t hi)]
      · cases h
    · cases h

theorem replay_pad {s s' : State K V} {ls : List (Line K V)} (h : replay s ls = some s') (n : Nat) :
    replay (pad s n) ls = some (pad s' n) := by
  induction ls generalizing s with
  | nil => simp only [replay] at h ⊢; cases h; rfl
  | cons l ls ih =>
    simp only [replay] at h ⊢
    split at h
    · rename_i s1 h1
      rw [applyLine_pad h1 n]
      exact ih h
    · cases h

omit [DecidableEq K] [DecidableEq V] [Inhabited V] in
/-- the number of goroutines a line needs before it is replayed -/
def need : Line K V → Nat
  | .inv t _ => t + 1
  | _ => 0

/-- what the judge does with one line, as a padding followed by `applyLine` -/
theorem applyLinePad_eq (s : State K V) (l : Line K V) :
    applyLinePad s l = applyLine (pad s (need l)) l := by
  cases l <;> simp only [applyLinePad, need] <;> rw [pad_of_le (Nat.zero_le _)]

theorem applyLinePad_length {s s' : State K V} {l : Line K V} (h : applyLinePad s l = some s') :
    s.pcs.length ≤ s'.pcs.length := by
  rw [applyLinePad_eq] at h
  rw [applyLine_length h, pad_length]
  omega

theorem replayPad_length {s s' : State K V} {ls : List (Line K V)} (h : replayPad s ls = some s') :
    s.pcs.length ≤ s'.pcs.length := by
  induction ls generalizing s with
  | nil => simp only [replayPad] at h; cases h; exact Nat.le_refl _
  | cons l ls ih =>
    simp only [replayPad] at h
    split at h
    · rename_i s1 h1
      exact Nat.le_trans (applyLinePad_length h1) (ih h)
    · cases h

/-- **The judge's lazily padded replay is the replay with the final number of goroutines from the start.** -/
theorem replayPad_replay {s s' : State K V} {ls : List (Line K V)} (h : replayPad s ls = some s') :
    replay (pad s s'.pcs.length) ls = some s' := by
  induction ls generalizing s with
  | nil =>
    simp only [replayPad] at h; cases h
    simp only [replay, pad_of_le (Nat.le_refl _)]
  | cons l ls ih =>
    simp only [replayPad] at h
    split at h
    · rename_i s1 h1
      have hle : s1.pcs.length ≤ s'.pcs.length := replayPad_length h
      have h2 := ih h
      rw [applyLinePad_eq] at h1
      have hk : need l ≤ s'.pcs.length := by
        have := applyLine_length h1
        rw [pad_length] at this
        omega
      have h3 := applyLine_pad h1 s'.pcs.length
      rw [pad_pad _ _ _ hk] at h3
      simp only [replay, h3]
      exact h2
    · cases h

/-- from the judge's initial state `init 0` -/
theorem replayPad_init {zst : Bool} {s' : State K V} {ls : List (Line K V)}
    (h : replayPad (SyncMapConc.init 0 zst) ls = some s') :
    replay (SyncMapConc.init s'.pcs.length zst) ls = some s' := by
  have := replayPad_replay h
  rwa [pad_init] at this

end TypVerif.Lemmas.SyncMapTrace
