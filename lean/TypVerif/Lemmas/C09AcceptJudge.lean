import TypVerif.Lemmas.C09AcceptStep
/-
Acceptance soundness for the judge `Drv/C09.lean`: the fold of `Drv.C09.step` over the lines of a scenario.
-/
namespace TypVerif.Lemmas.C09Accept
open TypVerif TypVerif.Conc TypVerif.Model.KeyedMutex TypVerif.Drv.C09 TypVerif.Proto

/-- the event an `inv` / `res` line stands for (lines the judge answers with `bad-op`, the header and the `step` / `iter` lines
stand for none) -/
def lineEvent (toks : List Val) : Option Event :=
  match toks with
  | [.w "inv", .i t, .w kd, .i k] =>
    match kindOf kd with
    | some kind => if t < 0 || k < 0 then none else some (.inv t.toNat ⟨kind, k.toNat⟩)
    | none => none
  | [.w "res", .i t, .w r] =>
    match resOf r with
    | some res => if t < 0 then none else some (.res t.toNat res)
    | none => none
  | _ => none

def evT : Event → Nat
  | .inv t _ => t
  | .res t _ => t

/-- the alphabet the judge uses for the event: the operation of an invocation -/
def evOps : Event → List Op
  | .inv _ op => [op]
  | .res _ _ => []

/-- what `Drv.C09.modelStep` does to the state set: pad, then `Conc.stepEvent` (reference judge) or `Drv.C09.stepEvent` -/
def advance (ref : Bool) (rw : Bool) (ss : List State) (e : Event) : List State :=
  if ref then Conc.stepEvent (sys rw 0 (evOps e)) 64 (ss.map (pad (evT e))) e
  else Drv.C09.stepEvent rw (evOps e) (ss.map (pad (evT e))) e

/-- the fold the theorems are about -/
def runLines (ref : Bool) (st : St) (lines : List (List Val × String)) : St :=
  lines.foldl (fun st l => (step ref st l.1 l.2).1) st

/-! ### `step` on an event line -/

theorem specInv_model (st : St) (t : Nat) (kd : Kind) (k : Nat) :
    (specInv st t kd k).1.started = st.started ∧ (specInv st t kd k).1.rw = st.rw ∧
    (specInv st t kd k).1.ss = st.ss ∧ (specInv st t kd k).1.rejected = st.rejected ∧
    (specInv st t kd k).1.outside = st.outside := by
  unfold specInv
  simp only
  split
  · split <;> exact ⟨rfl, rfl, rfl, rfl, rfl⟩
  · split <;> exact ⟨rfl, rfl, rfl, rfl, rfl⟩
  · exact ⟨rfl, rfl, rfl, rfl, rfl⟩

theorem violate_model (st : St) (msg : String) :
    (violate st msg).started = st.started ∧ (violate st msg).rw = st.rw ∧
    (violate st msg).ss = st.ss ∧ (violate st msg).rejected = st.rejected ∧
    (violate st msg).outside = st.outside := by
  unfold violate
  split <;> exact ⟨rfl, rfl, rfl, rfl, rfl⟩

@[simp] theorem violate_started (st : St) (msg : String) : (violate st msg).started = st.started := (violate_model st msg).1
@[simp] theorem violate_rw (st : St) (msg : String) : (violate st msg).rw = st.rw := (violate_model st msg).2.1
@[simp] theorem violate_ss (st : St) (msg : String) : (violate st msg).ss = st.ss := (violate_model st msg).2.2.1
@[simp] theorem violate_rejected (st : St) (msg : String) : (violate st msg).rejected = st.rejected :=
  (violate_model st msg).2.2.2.1
@[simp] theorem violate_outside (st : St) (msg : String) : (violate st msg).outside = st.outside :=
  (violate_model st msg).2.2.2.2

theorem specRes_model (st : St) (t : Nat) (r : Res) :
    (specRes st t r).1.started = st.started ∧ (specRes st t r).1.rw = st.rw ∧
    (specRes st t r).1.ss = st.ss ∧ (specRes st t r).1.rejected = st.rejected ∧
    (specRes st t r).1.outside = st.outside := by
  unfold specRes
  split
  · exact ⟨rfl, rfl, rfl, rfl, rfl⟩
  · simp only
    split <;> (try split) <;> simp

theorem modelStep_model (ref : Bool) (st : St) (t : Nat) (ops : List Op) (e : Event) (name : String) :
    (modelStep ref st t ops e name).1.started = st.started ∧ (modelStep ref st t ops e name).1.rw = st.rw ∧
    (modelStep ref st t ops e name).1.outside = st.outside ∧
    ((modelStep ref st t ops e name).1.rejected = none → st.rejected = none ∧
      (modelStep ref st t ops e name).1.ss =
        (if ref then Conc.stepEvent (sys st.rw 0 ops) 64 (st.ss.map (pad t)) e
         else Drv.C09.stepEvent st.rw ops (st.ss.map (pad t)) e) ∧
      (modelStep ref st t ops e name).1.ss ≠ []) := by
  unfold modelStep
  split
  · rename_i r hr
    refine ⟨rfl, rfl, rfl, fun h => ?_⟩
    simp only at h
    rw [hr] at h
    cases h
  · rename_i hr
    simp only
    generalize (if ref then Conc.stepEvent (sys st.rw 0 ops) 64 (st.ss.map (pad t)) e
         else Drv.C09.stepEvent st.rw ops (st.ss.map (pad t)) e) = adv
    cases adv with
    | nil => exact ⟨rfl, rfl, rfl, fun h => by cases h⟩
    | cons y ys => exact ⟨rfl, rfl, rfl, fun _ => ⟨hr, rfl, List.cons_ne_nil _ _⟩⟩

/-- everything `Drv.C09.step` does to the model part of its state on a line that stands for an event -/
theorem step_parsed (ref : Bool) (st : St) (toks : List Val) (impl : String) (e : Event)
    (hp : lineEvent toks = some e) (hst : st.started = true) :
    (step ref st toks impl).1.started = true ∧ (step ref st toks impl).1.rw = st.rw ∧
    ((step ref st toks impl).1.outside = false → st.outside = false) ∧
    ((step ref st toks impl).1.rejected = none → st.rejected = none) ∧
    ((step ref st toks impl).1.outside = false → (step ref st toks impl).1.rejected = none →
      (step ref st toks impl).1.ss = advance ref st.rw st.ss e ∧ (step ref st toks impl).1.ss ≠ []) := by
  unfold lineEvent at hp
  split at hp
  · -- inv
    rename_i t kd k
    split at hp
    · rename_i kind hkind
      split at hp
      · cases hp
      · rename_i hneg
        simp only [Option.some.injEq] at hp
        subst hp
        simp only [step, hst, hkind, hneg, Bool.false_eq_true, if_false]
        split
        · rename_i hout
          refine ⟨rfl, rfl, fun h => ?_, fun h => h, fun h => ?_⟩
          · cases h
          · cases h
        · rename_i hout
          have hout' : st.outside = false := by
            cases ho : st.outside with
            | false => rfl
            | true => simp [ho] at hout
          obtain ⟨m1, m2, m3, m4⟩ := modelStep_model ref st t.toNat [⟨kind, k.toNat⟩] (.inv t.toNat ⟨kind, k.toNat⟩)
            s!"inv_{t.toNat}_{kd}_{k.toNat}"
          obtain ⟨s1, s2, s3, s4, s5⟩ := specInv_model
            (modelStep ref st t.toNat [⟨kind, k.toNat⟩] (.inv t.toNat ⟨kind, k.toNat⟩) s!"inv_{t.toNat}_{kd}_{k.toNat}").1
            t.toNat kind k.toNat
          simp only
          refine ⟨by rw [s1, m1]; exact hst, by rw [s2, m2], fun _ => hout', fun h => ?_, fun _ h => ?_⟩
          · rw [s4] at h
            exact (m4 h).1
          · rw [s4] at h
            rw [s3]
            exact ⟨(m4 h).2.1, (m4 h).2.2⟩
    · cases hp
  · -- res
    rename_i t r
    split at hp
    · rename_i res hres
      split at hp
      · cases hp
      · rename_i hneg
        simp only [Option.some.injEq] at hp
        subst hp
        simp only [step, hst, hres, hneg, if_false]
        split
        · rename_i hout
          refine ⟨hst, rfl, fun h => ?_, fun h => h, fun h => ?_⟩
          · rw [hout] at h; cases h
          · rw [hout] at h; cases h
        · rename_i hout
          have hout' : st.outside = false := by
            cases ho : st.outside with
            | false => rfl
            | true => exact absurd ho hout
          obtain ⟨m1, m2, m3, m4⟩ := modelStep_model ref st t.toNat [] (.res t.toNat res) s!"res_{t.toNat}_{r}"
          obtain ⟨s1, s2, s3, s4, s5⟩ := specRes_model
            (modelStep ref st t.toNat [] (.res t.toNat res) s!"res_{t.toNat}_{r}").1 t.toNat res
          simp only
          refine ⟨by rw [s1, m1]; exact hst, by rw [s2, m2], fun _ => hout', fun h => ?_, fun _ h => ?_⟩
          · rw [s4] at h
            exact (m4 h).1
          · rw [s4] at h
            rw [s3]
            exact ⟨(m4 h).2.1, (m4 h).2.2⟩
    · cases hp
  · cases hp

/-! ### tracking executions through the fold -/

/-- the judge state `x` stands (via `Q`) for a model state reached from an initial state by an execution with visible trace `tr` -/
def Track (Q : State → State → Prop) (rw : Bool) (tr : List Event) (x : State) : Prop :=
  ∃ (N : Nat) (ops : List Op) (ls : List (Option Event)) (a : State),
    Ex rw ops (init N) ls a ∧ visible ls = tr ∧ Q a x

theorem track_advance (Q : State → State → Prop) (hpad : ∀ t a x, Q a x → Q (pad t a) (pad t x))
    (rw : Bool) (ops : List Op) (e : Event) (t : Nat) (tr : List Event) (ss ss' : List State)
    (hall : ∀ x ∈ ss, Track Q rw tr x) (hs : StepSound Q rw ops e (ss.map (pad t)) ss') :
    ∀ y ∈ ss', Track Q rw (tr ++ [e]) y := by
  intro y hy
  obtain ⟨x', hx', hq⟩ := hs y hy
  obtain ⟨x, hx, rfl⟩ := List.mem_map.1 hx'
  obtain ⟨N, ops0, ls, a, hex, hv, hQ⟩ := hall x hx
  obtain ⟨ls', a', hex', hv', hQ'⟩ := hq (pad t a) (hpad t a x hQ)
  rw [pad_eq_padBy] at hex'
  have h1 := (hex.padBy (t + 1 - a.pcs.length)).ops_mono (ops' := ops0 ++ ops) (fun _ h => List.mem_append_left _ h)
  rw [padBy_init] at h1
  have h2 := hex'.ops_mono (ops' := ops0 ++ ops) (fun _ h => List.mem_append_right _ h)
  exact ⟨_, _, ls ++ ls', a', h1.append h2, by simp [hv, hv'], hQ'⟩

/-- invariant of the fold: while the judge is inside the property and has not rejected, its state set is non-empty and every state
stands for a model state reached by an execution with the events read so far as visible trace -/
def Inv (Q : State → State → Prop) (st : St) (tr : List Event) : Prop :=
  st.started = true ∧
  (st.outside = false → st.rejected = none → st.ss ≠ [] ∧ ∀ x ∈ st.ss, Track Q st.rw tr x)

theorem inv_runLines (ref : Bool) (Q : State → State → Prop) (hpad : ∀ t a x, Q a x → Q (pad t a) (pad t x))
    (hadv : ∀ rw ss e, StepSound Q rw (evOps e) e (ss.map (pad (evT e))) (advance ref rw ss e)) :
    ∀ (lines : List (List Val × String)) (tr : List Event) (st : St) (tr0 : List Event),
      Inv Q st tr0 → lines.map (fun l => lineEvent l.1) = tr.map some →
      Inv Q (runLines ref st lines) (tr0 ++ tr) ∧ (runLines ref st lines).rw = st.rw := by
  intro lines
  induction lines with
  | nil =>
    intro tr st tr0 hI hp
    cases tr with
    | nil => simpa [runLines] using hI
    | cons _ _ => simp at hp
  | cons l lines ih =>
    intro tr st tr0 hI hp
    cases tr with
    | nil => simp at hp
    | cons e tr =>
      simp only [List.map_cons, List.cons.injEq] at hp
      obtain ⟨hpe, hp⟩ := hp
      obtain ⟨p1, p2, p3, p4, p5⟩ := step_parsed ref st l.1 l.2 e hpe hI.1
      have hI' : Inv Q (step ref st l.1 l.2).1 (tr0 ++ [e]) := by
        refine ⟨p1, fun ho hr => ?_⟩
        obtain ⟨hss, hne⟩ := p5 ho hr
        refine ⟨hne, ?_⟩
        rw [hss, p2]
        exact track_advance Q hpad st.rw (evOps e) e (evT e) tr0 st.ss _ (hI.2 (p3 ho) (p4 hr)).2 (hadv st.rw st.ss e)
      obtain ⟨hfin, hrw⟩ := ih tr (step ref st l.1 l.2).1 (tr0 ++ [e]) hI' hp
      refine ⟨?_, ?_⟩
      · simpa [runLines, List.append_assoc] using hfin
      · show (runLines ref (step ref st l.1 l.2).1 lines).rw = st.rw
        rw [hrw, p2]

/-- `outside` and `rejected` are never reset by event lines -/
theorem mono_runLines (ref : Bool) :
    ∀ (lines : List (List Val × String)) (tr : List Event) (st : St), st.started = true →
      lines.map (fun l => lineEvent l.1) = tr.map some →
      (runLines ref st lines).started = true ∧
      ((runLines ref st lines).outside = false → st.outside = false) ∧
      ((runLines ref st lines).rejected = none → st.rejected = none) := by
  intro lines
  induction lines with
  | nil => intro tr st hs _; exact ⟨hs, fun h => h, fun h => h⟩
  | cons l lines ih =>
    intro tr st hs hp
    cases tr with
    | nil => simp at hp
    | cons e tr =>
      simp only [List.map_cons, List.cons.injEq] at hp
      obtain ⟨hpe, hp⟩ := hp
      obtain ⟨p1, _, p3, p4, _⟩ := step_parsed ref st l.1 l.2 e hpe hs
      obtain ⟨q1, q2, q3⟩ := ih tr (step ref st l.1 l.2).1 p1 hp
      exact ⟨q1, fun h => p3 (q2 h), fun h => p4 (q3 h)⟩

theorem runLines_append (ref : Bool) (st : St) (l1 l2 : List (List Val × String)) :
    runLines ref st (l1 ++ l2) = runLines ref (runLines ref st l1) l2 := by
  simp [runLines, List.foldl_append]

/-- the state after the header line `km <rw>` -/
theorem step_header (ref : Bool) (st0 : St) (rwi : Int) (impl0 : String) :
    (step ref st0 [.w "km", .i rwi] impl0).1 = { started := true, rw := rwi != 0, ss := [init 0] } := by
  simp [step]

theorem fold_sound (ref : Bool) (Q : State → State → Prop) (hQ0 : Q (init 0) (init 0))
    (hpad : ∀ t a x, Q a x → Q (pad t a) (pad t x))
    (hadv : ∀ rw ss e, StepSound Q rw (evOps e) e (ss.map (pad (evT e))) (advance ref rw ss e))
    (st0 : St) (rwi : Int) (impl0 : String) (lines1 lines2 : List (List Val × String)) (tr1 tr2 : List Event)
    (hp1 : lines1.map (fun l => lineEvent l.1) = tr1.map some)
    (hp2 : lines2.map (fun l => lineEvent l.1) = tr2.map some)
    (hout : (runLines ref (step ref st0 [.w "km", .i rwi] impl0).1 lines1).outside = false)
    (hok : (runLines ref (step ref st0 [.w "km", .i rwi] impl0).1 (lines1 ++ lines2)).rejected = none) :
    ∃ (N : Nat) (ops : List Op) (ls : List (Option Event)) (s : State),
      Exec (sys (rwi != 0) N ops) (sys (rwi != 0) N ops).init ls s ∧ visible ls = tr1 := by
  rw [step_header] at hout hok
  have hI0 : Inv Q ({ started := true, rw := rwi != 0, ss := [init 0] } : St) [] := by
    refine ⟨rfl, fun _ _ => ⟨by simp, ?_⟩⟩
    intro x hx
    rw [List.mem_singleton.1 hx]
    exact ⟨0, [], [], init 0, .nil _, rfl, hQ0⟩
  obtain ⟨hI, hrw⟩ := inv_runLines ref Q hpad hadv lines1 tr1 _ [] hI0 hp1
  rw [runLines_append] at hok
  have hrej := (mono_runLines ref lines2 tr2 _ hI.1 hp2).2.2 hok
  obtain ⟨hne, hall⟩ := hI.2 hout hrej
  cases hss : (runLines ref ({ started := true, rw := rwi != 0, ss := [init 0] } : St) lines1).ss with
  | nil => exact absurd hss hne
  | cons x _ =>
    obtain ⟨N, ops, ls, a, hex, hv, _⟩ := hall x (by rw [hss]; exact List.mem_cons_self)
    rw [hrw] at hex
    exact ⟨N, ops, ls, a, exec_of_ex N hex, by simpa using hv⟩

/-! ### the two instances -/

theorem renPc_id (p : Pc) : renPc (fun m => m) p = p := by
  cases p <;> rfl

theorem R_refl {a : State} (hw : WF a) : R a a := by
  refine ⟨hw, fun m => m, ?_, ?_, fun _ _ _ _ h => h, hw.liveLt, ?_, List.Perm.refl _, List.Perm.refl _⟩
  · show a.pcs = a.pcs.map (renPc fun m => m)
    rw [show (renPc fun m => m) = id from funext renPc_id, List.map_id]
  · show a.map.Perm (a.map.map (fun p => (p.1, p.2)))
    rw [show (fun p : Nat × Nat => (p.1, p.2)) = id from rfl, List.map_id]
  · intro m _
    exact ⟨rfl, List.Perm.refl _, List.Perm.refl _, List.Perm.refl _⟩

theorem advance_ref_sound (rw : Bool) (ss : List State) (e : Event) :
    StepSound Eq rw (evOps e) e (ss.map (pad (evT e))) (advance true rw ss e) :=
  stepEvent_ref_sound rw 0 (evOps e) 64 _ e

theorem advance_fast_sound (hcl : ∀ rw, CloseSound rw (close rw)) (rw : Bool) (ss : List State) (e : Event) :
    StepSound R rw (evOps e) e (ss.map (pad (evT e))) (advance false rw ss e) := by
  show StepSound R rw (evOps e) e _ (Drv.C09.stepEvent rw (evOps e) (ss.map (pad (evT e))) e)
  rw [stepEvent_eq]
  exact stepEventWith_sound (close rw) rw (hcl rw) _ _ e

end TypVerif.Lemmas.C09Accept
