import TypVerif.Lemmas.SetConc
/-
C09 on the REAL (step-level, concurrent) map: what `KeyedMutex`/`KeyedRWMutex` need from the embedded `sync2.Map`.

`LockKey(k)` is `m, _ := km.m.LoadOrStore(k, &sync.Mutex{}); m.Lock()`, `ClearKey(k)` is `km.m.Delete(k)`.  As long as
nobody clears `k`, all goroutines must end up with ONE mutex for `k` — also when they use a never-seen key simultaneously.
Here this is derived for every linearizable history of the ordinary map (hence, by `C04.conc_linearizable`, for every
execution of the step-level model of `sync2.Map`):

* `NoClear k op`   `op` is not `Store(k, _)`, `Delete(k)`, `LoadAndDelete(k)` (everything else is allowed: `LoadOrStore` on
                   any key, `Load` on any key, `Range`, and `Store`/`Delete`/`LoadAndDelete` on OTHER keys).
* `KInv`/`kinv_seqRun`  the sequential fact: in a sequential run of `NoClear k` operations, once `m k = some w` it stays
                   `some w`; every `LoadOrStore(k, v)` entry returned `(w, true)`, except exactly one, which offered `v = w`
                   and returned `(w, false)`.
* `call_has_point` every completed call of a well-formed log has a linearization entry with the same goroutine, operation
                   and result (from `SetConc.calls_le_lins`).
* `log_agree`      the two combined, for a linearization witness `log`.
* `schedRun`       a tiny scheduler-driven runner of `Conc.Sys` (for non-vacuity examples: `schedRun_exec`).
-/
namespace TypVerif.Lemmas.KeyedMapConc
open TypVerif TypVerif.Conc TypVerif.Model TypVerif.Model.AtomicObj
open TypVerif.Model.SyncMapConc (Op Res)
open TypVerif.Lemmas.Smc (mapSpec applyOp put del)
open TypVerif.Lemmas.AtomicObj
open TypVerif.Lemmas.SetConc

set_option linter.unusedSectionVars false
set_option linter.unusedVariables false
set_option linter.unusedSimpArgs false

variable {K V : Type} [DecidableEq K] [DecidableEq V]

/-- `op` neither overwrites nor removes key `k`: it is not `Store(k, _)`, `Delete(k)` or `LoadAndDelete(k)`
(`KeyedMutex` never calls `Store`; `Delete(k)` is `ClearKey(k)`) -/
def NoClear (k : K) : Op K V → Prop
  | .store k' _ => k' ≠ k
  | .loadAndDelete k' => k' ≠ k
  | .delete k' => k' ≠ k
  | .load _ => True
  | .loadOrStore _ _ => True
  | .range => True

instance (k : K) (op : Op K V) : Decidable (NoClear k op) := by
  cases op <;> unfold NoClear <;> infer_instance

/-- a `LoadOrStore` on `k` that reported `loaded = false` (its value was stored) -/
def storedK (k : K) : Op K V × Res K V → Bool
  | (.loadOrStore k' _, .pair _ false) => decide (k' = k)
  | _ => false

theorem storedK_iff (k : K) (op : Op K V) (r : Res K V) :
    storedK k (op, r) = true ↔ ∃ v a, op = .loadOrStore k v ∧ r = .pair a false := by
  constructor
  · intro h
    cases op with
    | loadOrStore k' v =>
      cases r with
      | pair a l =>
        cases l with
        | false =>
          simp only [storedK, decide_eq_true_eq] at h
          subst h
          exact ⟨v, a, rfl, rfl⟩
        | true => simp [storedK] at h
      | done => simp [storedK] at h
      | val _ => simp [storedK] at h
      | pairs _ => simp [storedK] at h
    | load _ => simp [storedK] at h
    | store _ _ => simp [storedK] at h
    | loadAndDelete _ => simp [storedK] at h
    | delete _ => simp [storedK] at h
    | range => simp [storedK] at h
  · rintro ⟨v, a, rfl, rfl⟩
    simp [storedK]

/-! ### the sequential fact -/

/-- what a sequential history `h` (newest first) of `NoClear k` operations ending in the map `σ` looks like at key `k` -/
structure KInv (k : K) (h : List (Op K V × Res K V)) (σ : K → Option V) : Prop where
  /-- as long as `k` is absent no `LoadOrStore(k, _)` has taken effect -/
  absent : σ k = none → (∀ v r, (Op.loadOrStore k v, r) ∉ h) ∧ h.countP (storedK k) = 0
  /-- once `k ↦ w`: every `LoadOrStore(k, v)` returned `(w, true)`, or `(w, false)` with `v = w`; the storing call is there;
  and it is the only one that reported `loaded = false` -/
  present : ∀ w, σ k = some w →
    (∀ v r, (Op.loadOrStore k v, r) ∈ h → r = .pair w true ∨ (r = .pair w false ∧ v = w)) ∧
    (Op.loadOrStore k w, Res.pair w false) ∈ h ∧ h.countP (storedK k) = 1

theorem kinv_nil (k : K) : KInv k ([] : List (Op K V × Res K V)) (fun _ => none) :=
  ⟨fun _ => ⟨fun _ _ h => by simp at h, rfl⟩, fun w h => by simp at h⟩

/-- an operation that is not a `LoadOrStore` on `k` and leaves `σ k` alone keeps the invariant -/
theorem kinv_other {k : K} {h : List (Op K V × Res K V)} {σ σ' : K → Option V} {op : Op K V} {r : Res K V}
    (hi : KInv k h σ) (hk : σ' k = σ k) (hop : ∀ v, op ≠ .loadOrStore k v) : KInv k ((op, r) :: h) σ' := by
  have hst : storedK k (op, r) = false := by
    cases hs : storedK k (op, r) with
    | false => rfl
    | true =>
      obtain ⟨v, a, h1, _⟩ := (storedK_iff k op r).mp hs
      exact absurd h1 (hop v)
  have hmem : ∀ v r', (Op.loadOrStore k v, r') ∈ (op, r) :: h → (Op.loadOrStore k v, r') ∈ h := by
    intro v r' hm
    rcases List.mem_cons.mp hm with hm | hm
    · injection hm with h1 h2
      exact absurd h1.symm (hop v)
    · exact hm
  have hcnt : ((op, r) :: h).countP (storedK k) = h.countP (storedK k) := by
    rw [List.countP_cons, hst]; simp
  constructor
  · intro hn
    rw [hk] at hn
    obtain ⟨h1, h2⟩ := hi.absent hn
    exact ⟨fun v r' hm => h1 v r' (hmem v r' hm), by rw [hcnt, h2]⟩
  · intro w hw
    rw [hk] at hw
    obtain ⟨h1, h2, h3⟩ := hi.present w hw
    exact ⟨fun v r' hm => h1 v r' (hmem v r' hm), List.mem_cons_of_mem _ h2, by rw [hcnt, h3]⟩

/-- `LoadOrStore(k, v)` on a map that has `k ↦ w`: returns `(w, true)`, nothing changes -/
theorem kinv_hit {k : K} {h : List (Op K V × Res K V)} {σ : K → Option V} {v w : V}
    (hi : KInv k h σ) (hw : σ k = some w) : KInv k ((Op.loadOrStore k v, Res.pair w true) :: h) σ := by
  obtain ⟨h1, h2, h3⟩ := hi.present w hw
  constructor
  · intro hn; rw [hw] at hn; cases hn
  · intro w' hw'
    rw [hw] at hw'
    injection hw' with hw'
    subst hw'
    refine ⟨?_, List.mem_cons_of_mem _ h2, ?_⟩
    · intro v' r' hm
      rcases List.mem_cons.mp hm with hm | hm
      · injection hm with _ h5
        exact Or.inl h5
      · exact h1 v' r' hm
    · rw [List.countP_cons, h3]; simp [storedK]

/-- `LoadOrStore(k, v)` on a map without `k`: stores `v`, returns `(v, false)` — the first call on `k` -/
theorem kinv_miss {k : K} {h : List (Op K V × Res K V)} {σ : K → Option V} {v : V}
    (hi : KInv k h σ) (hn : σ k = none) : KInv k ((Op.loadOrStore k v, Res.pair v false) :: h) (put σ k v) := by
  obtain ⟨h1, h2⟩ := hi.absent hn
  have hp : put σ k v k = some v := by simp [put]
  constructor
  · intro hn'; rw [hp] at hn'; cases hn'
  · intro w hw
    rw [hp] at hw
    injection hw with hw
    subst hw
    refine ⟨?_, List.mem_cons_self, ?_⟩
    · intro v' r' hm
      rcases List.mem_cons.mp hm with hm | hm
      · injection hm with h4 h5
        injection h4 with _ h6
        exact Or.inr ⟨h5, h6⟩
      · exact absurd hm (h1 v' r')
    · rw [List.countP_cons, h2]; simp [storedK]

/-- one step of the sequential map on a `NoClear k` operation keeps the invariant -/
theorem kinv_step {k : K} {h : List (Op K V × Res K V)} {σ σ' : K → Option V} {op : Op K V} {r : Res K V}
    (hi : KInv k h σ) (hs : NoClear k op) (happ : (σ', r) ∈ applyOp σ op) : KInv k ((op, r) :: h) σ' := by
  cases op with
  | load k' =>
    simp only [applyOp, List.mem_singleton, Prod.mk.injEq] at happ
    obtain ⟨h1, _⟩ := happ
    subst h1
    exact kinv_other hi rfl (fun v hv => by cases hv)
  | store k' v' =>
    simp only [applyOp, List.mem_singleton, Prod.mk.injEq] at happ
    obtain ⟨h1, _⟩ := happ
    subst h1
    have hne : k' ≠ k := hs
    have hne' : ¬ k = k' := fun e => hne e.symm
    exact kinv_other hi (by simp [put, hne']) (fun v hv => by cases hv)
  | loadAndDelete k' =>
    simp only [applyOp, List.mem_singleton, Prod.mk.injEq] at happ
    obtain ⟨h1, _⟩ := happ
    subst h1
    have hne : k' ≠ k := hs
    have hne' : ¬ k = k' := fun e => hne e.symm
    exact kinv_other hi (by simp [del, hne']) (fun v hv => by cases hv)
  | delete k' =>
    simp only [applyOp, List.mem_singleton, Prod.mk.injEq] at happ
    obtain ⟨h1, _⟩ := happ
    subst h1
    have hne : k' ≠ k := hs
    have hne' : ¬ k = k' := fun e => hne e.symm
    exact kinv_other hi (by simp [del, hne']) (fun v hv => by cases hv)
  | range => simp [applyOp] at happ
  | loadOrStore k' v' =>
    simp only [applyOp, List.mem_singleton] at happ
    by_cases hk : k' = k
    · subst hk
      cases hm : σ k' with
      | none =>
        rw [hm] at happ
        injection happ with h1 h2
        subst h1; subst h2
        exact kinv_miss hi hm
      | some w =>
        rw [hm] at happ
        injection happ with h1 h2
        subst h1; subst h2
        exact kinv_hit hi hm
    · have hne' : ¬ k = k' := fun e => hk e.symm
      have hop : ∀ v, Op.loadOrStore k' v' ≠ Op.loadOrStore k v := by
        intro v hv
        injection hv with h1 _
        exact hk h1
      cases hm : σ k' with
      | none =>
        rw [hm] at happ
        injection happ with h1 h2
        subst h1
        exact kinv_other hi (by simp [put, hne']) hop
      | some w =>
        rw [hm] at happ
        injection happ with h1 h2
        subst h1
        exact kinv_other hi rfl hop

/-- **The sequential fact.**  A sequential run of the ordinary map consisting of `NoClear k` operations satisfies `KInv k`. -/
theorem kinv_seqRun (k : K) : ∀ (h : List (Op K V × Res K V)) (σ : K → Option V),
    SeqRun (mapSpec K V) h σ → (∀ x ∈ h, NoClear k x.1) → KInv k h σ := by
  intro h
  induction h with
  | nil =>
    intro σ hs _
    have := seqRun_nil_inv hs
    subst this
    exact kinv_nil k
  | cons x h ih =>
    intro σ' hs hsafe
    obtain ⟨op, r⟩ := x
    obtain ⟨σ, hs0, happ⟩ := seqRun_cons_inv hs
    have hi := ih σ hs0 (fun y hy => hsafe y (List.mem_cons_of_mem _ hy))
    exact kinv_step hi (hsafe (op, r) List.mem_cons_self) happ

/-! ### completed calls and their linearization entries -/
section Calls
variable {O R : Type}

theorem mem_linsT (t : Nat) (op : O) (r : R) : ∀ log : List (Entry O R), (t, op, r) ∈ linsT log → Entry.lin t op r ∈ log := by
  intro log
  induction log with
  | nil => intro h; simp [linsT] at h
  | cons e rest ih =>
    intro h
    cases e with
    | inv t' op' => exact List.mem_cons_of_mem _ (ih h)
    | res t' r' => exact List.mem_cons_of_mem _ (ih h)
    | lin t' op' r' =>
      rcases List.mem_cons.mp (show (t, op, r) ∈ (t', op', r') :: linsT rest from h) with h | h
      · injection h with h1 h2
        injection h2 with h2 h3
        subst h1; subst h2; subst h3
        exact List.mem_cons_self
      · exact List.mem_cons_of_mem _ (ih h)

theorem lin_mem_linsOf (t : Nat) (op : O) (r : R) (log : List (Entry O R)) (h : Entry.lin t op r ∈ log) :
    (op, r) ∈ linsOf log := by
  unfold linsOf
  exact List.mem_filterMap.mpr ⟨_, h, rfl⟩

variable [DecidableEq O] [DecidableEq R]

/-- **Every completed call has a linearization entry** with the same goroutine, operation and result -/
theorem call_has_point (log : List (Entry O R)) (hthr : ∀ t, (runThread t log).isSome = true)
    (x : Nat × O × R) (hx : x ∈ callsOf log) : Entry.lin x.1 x.2.1 x.2.2 ∈ log := by
  have h1 := calls_le_lins log hthr (fun c => decide (c = x))
  have h2 : 0 < (callsOf log).countP (fun c => decide (c = x)) :=
    List.countP_pos_iff.mpr ⟨x, hx, by simp⟩
  have h3 : 0 < (linsT log).countP (fun c => decide (c = x)) := by omega
  obtain ⟨y, hy, hyx⟩ := List.countP_pos_iff.mp h3
  have : y = x := by simpa using hyx
  subst this
  exact mem_linsT _ _ _ log hy

/-- the invocation a linearization entry belongs to -/
theorem lin_has_inv (log : List (Entry O R)) (hthr : ∀ t, (runThread t log).isSome = true) (t : Nat) (op : O) (r : R)
    (h : Entry.lin t op r ∈ log) : Entry.inv t op ∈ log := by
  obtain ⟨post, pre, rfl⟩ := List.append_of_mem h
  obtain ⟨hpre, _⟩ := lin_in_interval t op r pre post (hthr t)
  have h1 := lastInv_of_run t pre _ hpre op rfl
  have h2 := lastInv_mem t op pre h1
  exact List.mem_append_right _ (List.mem_cons_of_mem _ h2)

end Calls

/-! ### the fact, for a linearization witness -/

/-- For a linearization witness `log` (well-formed; its points form a sequential run of the ordinary map ending in `σ`) all
of whose invocations are `NoClear k`:
* every completed `LoadOrStore(k, v)` call returned `(w, loaded)` where `w` is THE value `σ k = some w` — so all completed
  calls on `k` return the same `actual` — and `loaded = false` only if `v = w`;
* at most one completed call on `k` reported `loaded = false`;
* if `k` is present with value `w`, some goroutine invoked `LoadOrStore(k, w)` (the call that stored; it may still be pending)
  and its point `(LoadOrStore(k, w), (w, false))` is in the sequential history. -/
theorem log_agree (k : K) (log : List (Entry (Op K V) (Res K V))) (σ : K → Option V)
    (hseq : SeqRun (mapSpec K V) (linsOf log) σ) (hthr : ∀ t, (runThread t log).isSome = true)
    (hsafe : ∀ t op, Entry.inv t op ∈ log → NoClear k op) :
    (∀ t v r, (t, Op.loadOrStore k v, r) ∈ callsOf log →
        ∃ w, σ k = some w ∧ (r = .pair w true ∨ (r = .pair w false ∧ v = w))) ∧
    (callsOf log).countP (fun c => storedK k c.2) ≤ 1 ∧
    (∀ w, σ k = some w → ∃ t, Entry.inv t (Op.loadOrStore k w) ∈ log ∧ Entry.lin t (Op.loadOrStore k w) (.pair w false) ∈ log) := by
  have hlins : ∀ x ∈ linsOf log, NoClear k x.1 := by
    intro x hx
    obtain ⟨op, r⟩ := x
    obtain ⟨t, ht⟩ := lin_mem_of_linsOf log op r hx
    exact lin_of_inv (NoClear k) log hthr hsafe t op r ht
  have hi := kinv_seqRun k (linsOf log) σ hseq hlins
  refine ⟨?_, ?_, ?_⟩
  · intro t v r hc
    have hp := call_has_point log hthr _ hc
    have hl := lin_mem_linsOf _ _ _ log hp
    cases hm : σ k with
    | none => exact absurd hl ((hi.absent hm).1 v r)
    | some w => exact ⟨w, rfl, (hi.present w hm).1 v r hl⟩
  · have h1 := calls_le_lins log hthr (fun c => storedK k c.2)
    have h2 : (linsT log).countP (fun c => storedK k c.2) = (linsOf log).countP (storedK k) := by
      rw [linsOf_eq_linsT, countP_map_snd]
    have h3 : (linsOf log).countP (storedK k) ≤ 1 := by
      cases hm : σ k with
      | none => rw [(hi.absent hm).2]; omega
      | some w => rw [(hi.present w hm).2.2]; omega
    omega
  · intro w hw
    obtain ⟨_, h2, _⟩ := hi.present w hw
    obtain ⟨t, ht⟩ := lin_mem_of_linsOf log _ _ h2
    exact ⟨t, lin_has_inv log hthr t _ _ ht, ht⟩

/-! ### a scheduler-driven runner (for non-vacuity examples) -/

/-- follow a list of choices (`i`: the index of the successor to take) as far as they are valid -/
def schedRun (sy : Sys) : List Nat → sy.State → List (Option sy.Event) × sy.State
  | [], s => ([], s)
  | i :: rest, s =>
    match (sy.succ s)[i]? with
    | some (l, s') => let r := schedRun sy rest s'; (l :: r.1, r.2)
    | none => ([], s)

theorem schedRun_exec (sy : Sys) : ∀ (sched : List Nat) (s : sy.State),
    Exec sy s (schedRun sy sched s).1 (schedRun sy sched s).2 := by
  intro sched
  induction sched with
  | nil => intro s; exact Exec.nil s
  | cons i rest ih =>
    intro s
    unfold schedRun
    cases hx : (sy.succ s)[i]? with
    | none => exact Exec.nil s
    | some p =>
      obtain ⟨l, s'⟩ := p
      exact Exec.cons (List.mem_of_getElem? hx) (ih s')

end TypVerif.Lemmas.KeyedMapConc
