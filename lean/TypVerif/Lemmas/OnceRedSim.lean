import TypVerif.Lemmas.OnceRedStep
/-
The reduced system simulates the model up to normalisation: `s ↦ nf s` maps every step of `Model.Once.sys` to at most two
steps of `red` with the same visible label.
-/
namespace TypVerif.Lemmas.OnceRed
open TypVerif TypVerif.Conc TypVerif.Model.Once TypVerif.Drv.C17 TypVerif.Lemmas.Once

theorem pick_step (x x' : State) (hg : GoodX x) (h : pick x = some x') :
    GoodX x' ∧ nf x' = nf x ∧ nu x' < nu x := by
  obtain ⟨t, ht, hu, hm⟩ := pick_spec (fun _ => []) x x' h
  obtain ⟨_, h2, h3⟩ := urgent_step_nf _ x t none x' hg ht hu hm
  exact ⟨goodX_step _ x none x' hg (mem_succ.2 ⟨t, ht, hm⟩), h2, h3⟩

theorem normalize_props : ∀ (fuel : Nat) (x : State), GoodX x →
    GoodX (normalize fuel x) ∧ nf (normalize fuel x) = nf x ∧ (nu x ≤ fuel → pick (normalize fuel x) = none) := by
  intro fuel
  induction fuel with
  | zero =>
    intro x hg
    refine ⟨hg, rfl, ?_⟩
    intro h
    show pick x = none
    cases hp : pick x with
    | none => rfl
    | some x' =>
      have := (pick_step x x' hg hp).2.2
      omega
  | succ fuel ih =>
    intro x hg
    unfold normalize
    cases hp : pick x with
    | none => exact ⟨hg, rfl, fun _ => hp⟩
    | some x' =>
      obtain ⟨h1, h2, h3⟩ := pick_step x x' hg hp
      obtain ⟨i1, i2, i3⟩ := ih x' h1
      exact ⟨i1, i2.trans h2, fun h => i3 (by omega)⟩

/-- the fuel of `normalize` in `red` is sufficient: it computes the normal form -/
theorem normalize_eq_nf (x : State) (hg : GoodX x) (fuel : Nat) (h : nu x ≤ fuel) : normalize fuel x = nf x := by
  obtain ⟨h1, h2, h3⟩ := normalize_props fuel x hg
  rw [← h2]
  exact (nf_fix _ h1 (pick_none_iff _ (h3 h))).symm

theorem normalize_red_eq_nf (x : State) (hg : GoodX x) : normalize (4 * x.pcs.length + 8) x = nf x :=
  normalize_eq_nf x hg _ (by have := nu_le x; omega)

theorem goodX_nf (x : State) (hg : GoodX x) : GoodX (nf x) := by
  rw [← normalize_red_eq_nf x hg]
  exact (normalize_props _ x hg).1

theorem red_succ_some (n a : Nat) (res : Nat → List Int) (x x' : State) (h : pick x = some x') :
    (red n a res).succ x = [(none, normalize (4 * x.pcs.length + 8) x)] := by
  show (match pick x with
      | some _ => [((none : Option Event), normalize (4 * x.pcs.length + 8) x)]
      | none => succ res x) = _
  rw [h]
  rfl

theorem red_succ_none (n a : Nat) (res : Nat → List Int) (x : State) (h : pick x = none) :
    (red n a res).succ x = succ res x := by
  show (match pick x with
      | some _ => [((none : Option Event), normalize (4 * x.pcs.length + 8) x)]
      | none => succ res x) = _
  rw [h]

/-- from any good state the reduced system reaches the normal form by at most one internal step -/
theorem red_to_nf (n a : Nat) (res : Nat → List Int) (x : State) (hg : GoodX x) :
    ∃ ls, Exec (red n a res) x ls (nf x) ∧ visible ls = [] ∧ ls.length ≤ 1 := by
  cases hp : pick x with
  | none =>
    have : nf x = x := nf_fix x hg (pick_none_iff x hp)
    rw [this]
    exact ⟨[], Exec.nil _, rfl, by simp⟩
  | some x' =>
    refine ⟨[none], Exec.single ?_, rfl, by simp⟩
    rw [red_succ_some n a res x x' hp, normalize_red_eq_nf x hg]
    exact List.mem_singleton.2 rfl

/-- the simulation step -/
theorem sim_step (n a : Nat) (res : Nat → List Int) (s s1 : State) (l : Option Event) (hg : GoodX s)
    (hm : (l, s1) ∈ succ res s) :
    ∃ ls, Exec (red n a res) (nf s) ls (nf s1) ∧ visible ls = visible [l] ∧ ls.length ≤ 2 := by
  obtain ⟨t, ht, hstep⟩ := mem_succ.mp hm
  cases hu : urgent s t with
  | true =>
    obtain ⟨rfl, h2, _⟩ := urgent_step_nf res s t l s1 hg ht hu hstep
    rw [h2]
    exact ⟨[], Exec.nil _, rfl, by simp⟩
  | false =>
    obtain ⟨r1, hr1, hnf⟩ := nonurgent_step res s t l s1 hg ht hu hstep
    have hpn : pick (nf s) = none := pick_none_of _ (urgent_nf s)
    have hmem : (l, r1) ∈ (red n a res).succ (nf s) := by
      rw [red_succ_none n a res _ hpn]
      exact mem_succ.2 ⟨t, by simpa [nf_len] using ht, hr1⟩
    have hgr1 : GoodX r1 := by
      have := hmem
      rw [red_succ_none n a res _ hpn] at this
      exact goodX_step res _ l r1 (goodX_nf s hg) this
    obtain ⟨ls, hex, hv, hlen⟩ := red_to_nf n a res r1 hgr1
    rw [hnf] at hex
    refine ⟨l :: ls, Exec.cons hmem hex, ?_, Nat.succ_le_succ hlen⟩
    cases l with
    | none => exact hv
    | some e => exact congrArg (List.cons e) hv

theorem nf_init (n a : Nat) : nf (init n a) = init n a :=
  nf_fix _ (goodX_init n a) (by
    intro t
    unfold urgent
    rw [pc_init])

theorem red_complete_from (n a : Nat) (res : Nat → List Int) {s s' : State} {ls : List (Option Event)}
    (h : Exec (sys n a res) s ls s') (hg : GoodX s) :
    ∃ ls', Exec (red n a res) (nf s) ls' (nf s') ∧ visible ls' = visible ls := by
  refine Exec.rel_induct (sys' := sys n a res)
    (fun s ls s' => GoodX s → ∃ ls', Exec (red n a res) (nf s) ls' (nf s') ∧ visible ls' = visible ls) ?_ ?_ h hg
  · intro s _
    exact ⟨[], Exec.nil _, rfl⟩
  · intro s l s1 ls s'' hm ih hg
    obtain ⟨ls2, hex2, hv2⟩ := ih (goodX_step res s l s1 hg hm)
    obtain ⟨ls1, hex1, hv1, _⟩ := sim_step n a res s s1 l hg hm
    refine ⟨ls1 ++ ls2, Exec.append hex1 hex2, ?_⟩
    rw [visible_append, hv1, hv2]
    cases l <;> rfl

theorem red_complete (n arity : Nat) (res : Nat → List Int) (ls : List (Option Event)) (s : State)
    (h : Exec (sys n arity res) (sys n arity res).init ls s) :
    ∃ ls' s', Exec (red n arity res) (red n arity res).init ls' s' ∧ visible ls' = visible ls := by
  obtain ⟨ls', hex, hv⟩ := red_complete_from n arity res h (goodX_init n arity)
  have hi : nf (init n arity) = init n arity := nf_init n arity
  have : nf ((sys n arity res).init) = (red n arity res).init := hi
  rw [this] at hex
  exact ⟨ls', nf s, hex, hv⟩

end TypVerif.Lemmas.OnceRed
