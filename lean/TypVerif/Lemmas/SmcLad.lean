import TypVerif.Lemmas.SmcQuiet
import TypVerif.Lemmas.SmcEntry
import TypVerif.Lemmas.SmcMaps
/-
C04 concurrent half: `StepOK` for the two non-quiet pcs of LoadAndDelete / Delete:

* `ladRead2 d k`   the locked re-read of `read`; on a miss with `amended` the *unlink* `delete(m.dirty, k)`
                   (the linearization step when `dirty[k]` exists), then `missLocked`'s head;
* `delCas d k e p` the CAS of `entry.delete()`: pending mode (success = linearization step) and unlinker mode
                   (the call has already taken effect at the unlink; the CAS just clears the orphan).
-/
namespace TypVerif.Lemmas.Smc
open TypVerif.Model TypVerif.Model.SyncMapConc TypVerif.Model.RelObj
open TypVerif.Model.SyncMap (alookup ainsert aerase akeys)
open TypVerif.Lemmas.SyncMap

set_option linter.unusedSimpArgs false
set_option linter.unusedVariables false
set_option linter.unusedSectionVars false

variable {K V : Type} [DecidableEq K] [DecidableEq V] [Inhabited V]
variable {menu : List (Op K V)} {s : State K V} {a : AState K V} {t : Tid}

/-! ### helpers -/

/-- assembly of `R` after a step of `t` that changes the shared data: every part is supplied by the caller -/
theorem R_build (hR : R s a) (ht : t < s.pcs.length) {a' : AState K V} {sh' : Shared K V} {pc' : Pc K V}
    (hGS : GS sh' (unprocessed (setPc s t sh' pc')))
    (hmu : ∀ u, sh'.mu = some u → u < s.pcs.length)
    (hunlO : ∀ u, u ≠ t → unlinkedPc (s.pc u) (a'.pcs u) = unlinkedPc (s.pc u) (a.pcs u))
    (hunlS : ∀ e ∈ unlinkedPc pc' (a'.pcs t), e ∈ unlinkedPc (s.pc t) (a.pcs t) ∨
      ∀ u, u ≠ t → u < s.pcs.length → e ∉ unlinkedPc (s.pc u) (a.pcs u))
    (habs : ∀ k, a'.obj k = absOf sh' k)
    (hself : T sh' t pc' (a'.pcs t))
    (hoth : ∀ u, u ≠ t → T sh' u (s.pc u) (a'.pcs u))
    (hobs : Obs a'.obj a'.pcs) : R (setPc s t sh' pc') a' := by
  apply R_of_parts
  · rw [G_iff]
    refine ⟨hGS, ⟨?_, hR.g.unlinked_setPc sh' hunlO hunlS⟩⟩
    intro u hu
    rw [setPc_pcs_length]
    exact hmu u hu
  · exact habs
  · intro u
    simp only [setPc_sh]
    by_cases hut : u = t
    · subst hut
      rw [pc_setPc_self ht]
      exact hself
    · rw [pc_setPc_ne hut]
      exact hoth u hut
  · exact hobs

theorem Pend.exists_seen {p : APc K V} {op : Op K V} (h : Pend p op) : ∃ seen, p = .pending op seen := by
  cases p with
  | idle => exact h.elim
  | done op' r' => exact h.elim
  | pending op' seen =>
    have : op' = op := h
    subst this
    exact ⟨seen, rfl⟩

theorem DoneWith.retOk {p : APc K V} {f : Op K V → Bool} {r : Res K V} (h : DoneWith p f r) : RetOk p r := by
  cases p with
  | idle => exact h.elim
  | pending op' seen => exact h.elim
  | done op' r' => exact h.2

theorem delRes_ne_pairs (d : Bool) (v : V) (l : List (K × V)) : (delRes d v : Res K V) ≠ .pairs l := by
  cases d <;> simp [delRes]

/-- the outcome of LoadAndDelete / Delete on a present key -/
theorem applyOp_ladOp_some {m : K → Option V} {d : Bool} {k : K} {v : V} (h : m k = some v) :
    applyOp m (ladOp d k) = [(del m k, delRes d v)] := by
  cases d <;> simp [ladOp, delRes, h]

/-- what `delete()` returns after a successful CAS -/
theorem delCas_res_eq {d : Bool} {o : Option V} {v : V} (h : o = some v) :
    (if d then (Res.done : Res K V) else .val o) = delRes d v := by
  subst h; rfl

/-- a goroutine that has unlinked `e` is its `Unlinker` -/
theorem unlinker_of_mem_unlinkedPc {sh : Shared K V} {u : Tid} {pc : Pc K V} {q : APc K V} (hT : T sh u pc q)
    {e : EId} (he : e ∈ unlinkedPc pc q) : ∃ d k, Unlinker sh d k e q := by
  cases pc with
  | ladMiss d k eo =>
    cases eo with
    | none => cases q <;> simp [unlinkedPc] at he
    | some e' =>
      have : e = e' := by cases q <;> simpa [unlinkedPc] using he
      subst this
      simp only [T] at hT
      exact ⟨d, k, hT.2.2.2⟩
  | delLoad d k e' =>
    cases q with
    | done op r =>
      have : e = e' := by simpa [unlinkedPc] using he
      subst this
      simp only [T, DelHold] at hT
      rcases hT.2 with ⟨hp, _⟩ | h
      · exact hp.elim
      · exact ⟨d, k, h⟩
    | idle => simp [unlinkedPc] at he
    | pending op seen => simp [unlinkedPc] at he
  | delCas d k e' p =>
    cases q with
    | done op r =>
      have : e = e' := by simpa [unlinkedPc] using he
      subst this
      simp only [T, DelHold] at hT
      rcases hT.1.2 with ⟨hp, _⟩ | h
      · exact hp.elim
      · exact ⟨d, k, h⟩
    | idle => simp [unlinkedPc] at he
    | pending op seen => simp [unlinkedPc] at he
  | _ => cases q <;> simp [unlinkedPc] at he

/-- `delete(m.dirty, k)` of an absent key changes nothing -/
theorem sameData_delDirty_of_none {sh : Shared K V} {k : K} (h : alookup k (dirtyMap sh) = none) :
    SameData (delDirty sh k) sh := by
  refine ⟨rfl, rfl, rfl, ?_⟩
  rw [delDirty_dirty]
  cases hd : sh.dirty with
  | none => rfl
  | some dm =>
    rw [dirtyMap_of_some hd] at h
    simp [aerase_of_none h]

/-! ### `ladRead2` -/

/-- the unlink (`dirty[k] = some e`): the linearization step of the slow path.  `sh'` is the state after
`delete(m.dirty, k); m.misses++` with or without the `Unlock`, `pc'` the next pc. -/
theorem R_ladRead2_unlink {d : Bool} {k : K} {e : EId} (hR : R s a) (ht : t < s.pcs.length)
    (hpc : s.pc t = .ladRead2 d k) (hr : alookup k s.sh.readM = none) (ha : s.sh.amended = true)
    (hdm : alookup k (dirtyMap s.sh) = some e) {sh' : Shared K V} {pc' : Pc K V}
    (hsd : SameData sh' (delDirty s.sh k)) (hfault : sh'.fault = s.sh.fault)
    (hmu : sh'.mu = s.sh.mu ∨ sh'.mu = none)
    (hunp : unprocPc pc' = [])
    (hunl : ∀ q : APc K V, ∀ e' ∈ unlinkedPc pc' q, e' = e)
    (hself : ∀ q : APc K V, Unlinker sh' d k e q → T sh' t pc' q) :
    R (setPc s t sh' pc') (witness s t none a) := by
  have hT := hR.thr t
  rw [hpc] at hT
  simp only [T] at hT
  obtain ⟨hpend, hown⟩ := hT
  have hlin : isLin s.sh (s.pc t) (a.pcs t) = true := by rw [hpc]; simp [isLin, hr, ha, hdm]
  have hU : unprocessed s = [] := unprocessed_eq_nil_of_amended hR.thr ha
  have hg0 : GS s.sh [] := by
    have := ((G_iff s a.pcs).mp hR.g).1
    rwa [hU] at this
  obtain ⟨helt, henr, hend, hval, habsk⟩ := unlink_entry_facts hg0 ha hr hdm
  obtain ⟨v, hv⟩ := isVal_iff_value?.mp hval
  obtain ⟨seen, hp⟩ := hpend.exists_seen
  have hobjk : a.obj k = some v := by rw [hR.abs k, habsk, hv]
  have happ := applyOp_ladOp_some (d := d) hobjk
  have hobj' := witness_obj_lin s t a hlin hp happ
  have hpcs_t := witness_pcs_lin_self s t a hlin hp happ
  have hpcs_o : ∀ u, u ≠ t → (witness s t none a).pcs u = observePc (del a.obj k) (a.pcs u) :=
    fun u hu => witness_pcs_lin_other s t a hlin hp happ hu
  have hUL : Unlinker (delDirty s.sh k) d k e (.done (ladOp d k) (delRes d v)) := by
    rw [Unlinker_iff]
    refine ⟨helt, henr, hend, v, hv, ?_, rfl⟩
    simp [isOp]
  have hGS' : GS sh' [] := by
    have h1 : GS (delDirty s.sh k) [] := GS_unlink hg0 hr
    exact (GS_sameData_iff hsd (by rw [hfault]; rfl) []).mpr h1
  apply R_build hR ht
  · exact hGS'.weaken (by intro p hp; cases hp)
  · intro u hu
    rcases hmu with h | h
    · exact hR.g.muBound u (h ▸ hu)
    · rw [h] at hu; cases hu
  · intro u hu
    rw [hpcs_o u hu, unlinkedPc_observePc]
  · intro e' he'
    have := hunl _ e' he'
    subst this
    right
    intro u hu hul hmem
    obtain ⟨d', k', hUu⟩ := unlinker_of_mem_unlinkedPc (hR.thr u) hmem
    exact hUu.2.2.1 (mem_vals_of_alookup hdm)
  · intro k'
    rw [hobj', absOf_congr hsd k', absOf_unlink_del hr]
    have : a.obj = absOf s.sh := funext hR.abs
    rw [this]
  · rw [hpcs_t]
    exact hself _ ((Unlinker_congr hsd d k e _).mpr hUL)
  · intro u hu
    rw [hpcs_o u hu]
    have hnu : ¬ Own s.sh u := not_Own_of_ne hown hu
    have h1 : T (delDirty s.sh k) u (s.pc u) (observePc (del a.obj k) (a.pcs u)) :=
      T_unlink hg0 ha hr (hR.abs k) (hR.thr u) hnu (hR.obs.obsPc u)
    have hnu1 : ¬ Own (delDirty s.sh k) u := by simpa using hnu
    have hnu' : ¬ Own sh' u := by
      unfold Own
      rcases hmu with h | h
      · rw [h]; exact hnu
      · rw [h]; intro h2; cases h2
    exact (T_sameData_of_not_own hsd hnu1 hnu' _ _).mpr h1
  · exact obs_witness s t none a

theorem stepOK_ladRead2 {d : Bool} {k : K} (hR : R s a) (ht : t < s.pcs.length) (hpc : s.pc t = .ladRead2 d k) :
    StepOK menu s a t := by
  have hT := hR.thr t
  rw [hpc] at hT
  simp only [T] at hT
  obtain ⟨hpend, hown⟩ := hT
  have hunp : ∀ pc' : Pc K V, ∀ p, p ∈ unprocPc (s.pc t) → p ∈ unprocPc pc' := by
    intro pc' p hp; rw [hpc] at hp; cases hp
  have hunl : ∀ pc' : Pc K V, (∀ d k e, pc' ≠ .ladMiss d k e) →
      ∀ e ∈ unlinkedPc pc' (a.pcs t), e ∈ unlinkedPc (s.pc t) (a.pcs t) := by
    intro pc' h e he; rw [unlinkedPc_of_pend hpend h] at he; cases he
  apply stepOK_of_internal hR ht (by rw [hpc]; simp) (by rw [hpc]; simp) _ (pickOK_of_nil (by rw [hpc]; rfl))
  intro sh' pc' hex
  rw [hpc] at hex
  simp only [exec] at hex
  cases hr : alookup k s.sh.readM with
  | some e =>
    have hlin : isLin s.sh (s.pc t) (a.pcs t) = false := by rw [hpc]; simp [isLin, hr]
    simp only [hr, Option.some.injEq, Prod.mk.injEq] at hex
    obtain ⟨rfl, rfl⟩ := hex
    refine R_quiet' hR ht hlin (sameData_unlock _) hR.g.nofault (MuStep.unlock hown rfl) ?_ (hunp _)
      (hunl _ (by intro d k e h; cases h))
    simp only [T]
    exact ⟨Own_unlock _ _, Or.inl ⟨hpend, (HoldDel_congr (sameData_unlock _) d k e _).mpr
      ⟨hR.g.read_lt_length hr, Or.inl hr⟩⟩⟩
  | none =>
    cases ha : s.sh.amended with
    | false =>
      have hlin : isLin s.sh (s.pc t) (a.pcs t) = false := by rw [hpc]; simp [isLin, hr, ha]
      simp only [hr, ha, Bool.false_eq_true, if_false, Option.some.injEq, Prod.mk.injEq] at hex
      obtain ⟨rfl, rfl⟩ := hex
      refine R_quiet' hR ht hlin (sameData_unlock _) hR.g.nofault (MuStep.unlock hown rfl) ?_ (hunp _)
        (hunl _ (by intro d k e h; cases h))
      rw [T_ret_iff (noneRes_ne_pairs d)]
      refine ⟨hR.obs.retOk hpend (pureRes_ladOp_none ?_), Own_unlock _ _⟩
      rw [hR.abs k, absOf_of_not_amended hr ha]
    | true =>
      simp only [hr, ha, if_true] at hex
      cases hdm : alookup k (dirtyMap s.sh) with
      | none =>
        have hlin : isLin s.sh (s.pc t) (a.pcs t) = false := by rw [hpc]; simp [isLin, hr, ha, hdm]
        have hsd : SameData (delDirty s.sh k) s.sh := sameData_delDirty_of_none hdm
        simp only [hdm] at hex
        by_cases hm : (missStep (delDirty s.sh k)).2 = true
        · rw [if_pos hm] at hex
          simp only [Option.some.injEq, Prod.mk.injEq] at hex
          obtain ⟨rfl, rfl⟩ := hex
          refine R_quiet' hR ht hlin ((sameData_missStep_fst _).trans hsd) hR.g.nofault (MuStep.of_eq rfl) ?_
            (hunp _) ?_
          · simp only [T]
            refine ⟨⟨hown, ha, ?_⟩, hr, ?_, hpend⟩
            · have := hR.g.dirty_isSome_of_amended ha
              simpa [delDirty_dirty_isSome] using this
            · simp
          · intro e he
            cases hq : a.pcs t <;> rw [hq] at he <;> simp [unlinkedPc] at he
        · rw [if_neg hm] at hex
          simp only [Option.some.injEq, Prod.mk.injEq] at hex
          obtain ⟨rfl, rfl⟩ := hex
          refine R_quiet' hR ht hlin ((sameData_unlock_missStep_fst _).trans hsd) hR.g.nofault
            (MuStep.unlock hown rfl) ?_ (hunp _) (hunl _ (by intro d k e h; simp [ladAfter] at h))
          simp only [ladAfter]
          rw [T_ret_iff (noneRes_ne_pairs d)]
          refine ⟨hR.obs.retOk hpend (pureRes_ladOp_none ?_), Own_unlock _ _⟩
          rw [hR.abs k, absOf_of_none_none hr hdm]
      | some e =>
        simp only [hdm] at hex
        by_cases hm : (missStep (delDirty s.sh k)).2 = true
        · rw [if_pos hm] at hex
          simp only [Option.some.injEq, Prod.mk.injEq] at hex
          obtain ⟨rfl, rfl⟩ := hex
          refine R_ladRead2_unlink hR ht hpc hr ha hdm (sameData_missStep_fst _) rfl (Or.inl rfl) rfl ?_ ?_
          · intro q e' he'
            cases q <;> simpa [unlinkedPc] using he'
          · intro q hq
            simp only [T]
            refine ⟨⟨hown, ha, ?_⟩, hr, by simp, hq⟩
            have := hR.g.dirty_isSome_of_amended ha
            simpa [delDirty_dirty_isSome] using this
        · rw [if_neg hm] at hex
          simp only [Option.some.injEq, Prod.mk.injEq] at hex
          obtain ⟨rfl, rfl⟩ := hex
          refine R_ladRead2_unlink hR ht hpc hr ha hdm (sameData_unlock_missStep_fst _) rfl (Or.inr rfl) rfl ?_ ?_
          · intro q e' he'
            cases q <;> simp [ladAfter, unlinkedPc] at he' ⊢
            exact he'
          · intro q hq
            simp only [ladAfter, T]
            exact ⟨Own_unlock _ _, Or.inr hq⟩

/-! ### `delCas` -/

theorem stepOK_delCas {d : Bool} {k : K} {e : EId} {p : Ptr V} (hR : R s a) (ht : t < s.pcs.length)
    (hpc : s.pc t = .delCas d k e p) : StepOK menu s a t := by
  have hT := hR.thr t
  rw [hpc] at hT
  simp only [T] at hT
  obtain ⟨⟨hnown, hmode⟩, hpv, hsameU⟩ := hT
  have hGS0 : GS s.sh (unprocessed s) := ((G_iff s a.pcs).mp hR.g).1
  have hGT0 : GT s a.pcs := ((G_iff s a.pcs).mp hR.g).2
  apply stepOK_of_internal hR ht (by rw [hpc]; simp) (by rw [hpc]; simp) _ (pickOK_of_nil (by rw [hpc]; rfl))
  intro sh' pc' hex
  rw [hpc] at hex
  simp only [exec] at hex
  rcases hmode with ⟨hpend, hhold⟩ | hU
  · -- pending mode
    obtain ⟨seen, hp⟩ := hpend.exists_seen
    cases hs : (getP s.sh e).same p with
    | false =>
      have hlin : isLin s.sh (s.pc t) (a.pcs t) = false := by rw [hpc]; simp [isLin, hs]
      simp only [hs, Bool.false_eq_true, if_false, Option.some.injEq, Prod.mk.injEq] at hex
      obtain ⟨rfl, rfl⟩ := hex
      refine R_quiet_same hR ht hlin ?_ ?_ ?_
      · simp only [T]
        exact ⟨hnown, Or.inl ⟨hpend, hhold⟩⟩
      · intro q hq; rw [hpc] at hq; cases hq
      · intro e' he'; rw [hpc, unlinkedPc_delCas]; exact he'
    | true =>
      have hlin : isLin s.sh (s.pc t) (a.pcs t) = true := by rw [hpc, hp]; simp [isLin, hs, isPending]
      simp only [hs, if_true, Option.some.injEq, Prod.mk.injEq] at hex
      obtain ⟨rfl, rfl⟩ := hex
      have hvalE : isVal (getP s.sh e) = true := by rw [same_isVal hs]; exact hpv
      have hrd : alookup k s.sh.readM = some e := hhold.read_of_not_expunged (not_isExpunged_of_isVal hvalE)
      obtain ⟨hTall, hGS, habs', hbefore⟩ := delNil_all hGS0 hR.thr hrd hvalE
      obtain ⟨v, hv⟩ := isVal_iff_value?.mp hvalE
      have hobjk : a.obj k = some v := by rw [hR.abs k, hbefore, hv]
      have happ := applyOp_ladOp_some (d := d) hobjk
      have hobj' := witness_obj_lin s t a hlin hp happ
      have hpcs_t := witness_pcs_lin_self s t a hlin hp happ
      have hpcs_o : ∀ u, u ≠ t → (witness s t none a).pcs u = observePc (del a.obj k) (a.pcs u) :=
        fun u hu => witness_pcs_lin_other s t a hlin hp happ hu
      rw [delCas_res_eq hv]
      apply R_build hR ht
      · exact hGS.congr (fun q => mem_unprocessed_setPc_of_not_own hR.thr hnown rfl)
      · intro u hu
        exact hR.g.muBound u hu
      · intro u hu
        rw [hpcs_o u hu, unlinkedPc_observePc]
      · intro e' he'
        rw [unlinkedPc_ret] at he'; cases he'
      · intro k'
        rw [hobj', habs' k', del_apply, hR.abs k']
      · rw [hpcs_t, T_ret_iff (delRes_ne_pairs d v)]
        exact ⟨rfl, hnown⟩
      · intro u hu
        rw [hpcs_o u hu]
        exact T_observePc (hTall u) _
      · exact obs_witness s t none a
  · -- unlinker mode: the call took effect at the unlink
    have hs := hsameU hU
    obtain ⟨op, r, hdone⟩ := hU.done
    have hlin : isLin s.sh (s.pc t) (a.pcs t) = false := by rw [hpc, hdone]; simp [isLin, isPending]
    simp only [hs, if_true, Option.some.injEq, Prod.mk.injEq] at hex
    obtain ⟨rfl, rfl⟩ := hex
    obtain ⟨v, hv, hdw⟩ := hU.spec
    have hvalE : isVal (getP s.sh e) = true := isVal_iff_value?.mpr ⟨v, hv⟩
    have hmem : e ∈ unlinkedPc (s.pc t) (a.pcs t) := by rw [hpc, hdone]; simp [unlinkedPc]
    obtain ⟨hToth, hGS, habs'⟩ := unlinkedNil_all hGS0 hGT0 hR.thr hU.2.1 hU.2.2.1 hvalE hmem
    have hobj' := witness_obj_tau s t a hlin
    have hpcs := witness_pcs_tau s t a hlin
    rw [delCas_res_eq hv]
    apply R_build hR ht
    · exact hGS.congr (fun q => mem_unprocessed_setPc_of_not_own hR.thr hnown rfl)
    · intro u hu
      exact hR.g.muBound u hu
    · intro u hu
      rw [hpcs u, unlinkedPc_observePc]
    · intro e' he'
      rw [unlinkedPc_ret] at he'; cases he'
    · intro k'
      rw [hobj', habs' k', hR.abs k']
    · rw [hpcs t, T_ret_iff (delRes_ne_pairs d v)]
      exact ⟨retOk_observePc hdw.retOk, hnown⟩
    · intro u hu
      rw [hpcs u]
      exact T_observePc (hToth u hu) _
    · exact obs_witness s t none a

end TypVerif.Lemmas.Smc
