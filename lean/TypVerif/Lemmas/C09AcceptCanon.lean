import TypVerif.Lemmas.C09AcceptNorm
import TypVerif.Lemmas.C09AcceptSim1
namespace TypVerif.Lemmas.C09Accept
open TypVerif TypVerif.Conc TypVerif.Model.KeyedMutex TypVerif.Drv.C09

/-! ### sorting is canonical -/

theorem can_sorted_perm_eq {α : Type} {le : α → α → Prop} (anti : ∀ a b, le a b → le b a → a = b) :
    ∀ {l1 l2 : List α}, l1.Pairwise le → l2.Pairwise le → l1.Perm l2 → l1 = l2 := by
  intro l1
  induction l1 with
  | nil =>
    intro l2 _ _ hp
    exact hp.nil_eq
  | cons a l1 ih =>
    intro l2 h1 h2 hp
    cases l2 with
    | nil => exact absurd hp.eq_nil (List.cons_ne_nil _ _)
    | cons b l2 =>
      rw [List.pairwise_cons] at h1 h2
      have hab : a = b := by
        have ha : a ∈ b :: l2 := hp.mem_iff.mp List.mem_cons_self
        have hb : b ∈ a :: l1 := hp.mem_iff.mpr List.mem_cons_self
        rcases List.mem_cons.mp ha with e | ha
        · exact e
        · rcases List.mem_cons.mp hb with e | hb
          · exact e.symm
          · exact anti a b (h1.1 b hb) (h2.1 a ha)
      subst hab
      rw [ih h1.2 h2.2 hp.cons_inv]

theorem can_pairLe_iff (a b : Nat × Nat) : pairLe a b = true ↔ (a.1 < b.1 ∨ (a.1 = b.1 ∧ a.2 ≤ b.2)) := by
  unfold pairLe
  simp only [Bool.or_eq_true, Bool.and_eq_true, decide_eq_true_eq, beq_iff_eq]

theorem can_pairLe_total {a b : Nat × Nat} (h : ¬ pairLe a b = true) : pairLe b a = true := by
  rw [can_pairLe_iff] at h ⊢
  omega

theorem can_pairLe_trans {a b c : Nat × Nat} (h1 : pairLe a b = true) (h2 : pairLe b c = true) :
    pairLe a c = true := by
  rw [can_pairLe_iff] at h1 h2 ⊢
  omega

theorem can_pairLe_anti (a b : Nat × Nat) (h1 : pairLe a b = true) (h2 : pairLe b a = true) : a = b := by
  rw [can_pairLe_iff] at h1 h2
  apply Prod.ext <;> omega

theorem can_insertPair_sorted (x : Nat × Nat) {l : List (Nat × Nat)} (h : l.Pairwise (fun a b => pairLe a b = true)) :
    (insertPair x l).Pairwise (fun a b => pairLe a b = true) := by
  induction l with
  | nil => exact List.pairwise_singleton _ _
  | cons y ys ih =>
    unfold insertPair
    rw [List.pairwise_cons] at h
    split
    · rename_i hxy
      rw [List.pairwise_cons]
      refine ⟨?_, List.pairwise_cons.mpr h⟩
      intro z hz
      rcases List.mem_cons.mp hz with e | hz
      · rw [e]; exact hxy
      · exact can_pairLe_trans hxy (h.1 z hz)
    · rename_i hxy
      rw [List.pairwise_cons]
      refine ⟨?_, ih h.2⟩
      intro z hz
      have hz' : z ∈ x :: ys := (nrm_insertPair_perm x ys).mem_iff.mp hz
      rcases List.mem_cons.mp hz' with e | hz'
      · rw [e]; exact can_pairLe_total hxy
      · exact h.1 z hz'

theorem can_sortPairs_sorted (l : List (Nat × Nat)) : (sortPairs l).Pairwise (fun a b => pairLe a b = true) := by
  induction l with
  | nil => exact List.Pairwise.nil
  | cons y ys ih => exact can_insertPair_sorted y ih

theorem can_sortPairs_perm {l1 l2 : List (Nat × Nat)} (h : l1.Perm l2) : sortPairs l1 = sortPairs l2 :=
  can_sorted_perm_eq can_pairLe_anti (can_sortPairs_sorted l1) (can_sortPairs_sorted l2)
    (((nrm_sortPairs_perm l1).trans h).trans (nrm_sortPairs_perm l2).symm)

theorem can_insertSorted_sorted (x : Nat) {l : List Nat} (h : l.Pairwise (fun a b => a ≤ b)) :
    (insertSorted x l).Pairwise (fun a b => a ≤ b) := by
  induction l with
  | nil => exact List.pairwise_singleton _ _
  | cons y ys ih =>
    unfold insertSorted
    rw [List.pairwise_cons] at h
    split
    · rename_i hxy
      rw [List.pairwise_cons]
      refine ⟨?_, List.pairwise_cons.mpr h⟩
      intro z hz
      rcases List.mem_cons.mp hz with e | hz
      · rw [e]; exact hxy
      · exact Nat.le_trans hxy (h.1 z hz)
    · rename_i hxy
      rw [List.pairwise_cons]
      refine ⟨?_, ih h.2⟩
      intro z hz
      have hz' : z ∈ x :: ys := (nrm_insertSorted_perm x ys).mem_iff.mp hz
      rcases List.mem_cons.mp hz' with e | hz'
      · rw [e]; omega
      · exact h.1 z hz'

theorem can_sortNat_sorted (l : List Nat) : (sortNat l).Pairwise (fun a b => a ≤ b) := by
  induction l with
  | nil => exact List.Pairwise.nil
  | cons y ys ih => exact can_insertSorted_sorted y ih

theorem can_sortNat_perm {l1 l2 : List Nat} (h : l1.Perm l2) : sortNat l1 = sortNat l2 :=
  can_sorted_perm_eq (fun _ _ h1 h2 => Nat.le_antisymm h1 h2) (can_sortNat_sorted l1) (can_sortNat_sorted l2)
    (((nrm_sortNat_perm l1).trans h).trans (nrm_sortNat_perm l2).symm)

/-! ### sorting commutes with a renaming of the values (distinct keys) -/

theorem can_pairLe_ren (f : Nat → Nat) {a b : Nat × Nat} (h : a.1 ≠ b.1) :
    pairLe (a.1, f a.2) (b.1, f b.2) = pairLe a b := by
  unfold pairLe
  have e : (a.1 == b.1) = false := by simp [h]
  simp only [e, Bool.false_and]

theorem can_insertPair_ren (f : Nat → Nat) (p : Nat × Nat) (l : List (Nat × Nat)) (h : p.1 ∉ l.map (·.1)) :
    insertPair (p.1, f p.2) (l.map (fun q => (q.1, f q.2))) = (insertPair p l).map (fun q => (q.1, f q.2)) := by
  induction l with
  | nil => rfl
  | cons y ys ih =>
    rw [List.map_cons, List.mem_cons, not_or] at h
    rw [List.map_cons]
    unfold insertPair
    rw [can_pairLe_ren f h.1]
    split
    · rfl
    · rw [List.map_cons, ih h.2]

theorem can_sortPairs_ren (f : Nat → Nat) (l : List (Nat × Nat)) (h : (l.map (·.1)).Nodup) :
    sortPairs (l.map (fun q => (q.1, f q.2))) = (sortPairs l).map (fun q => (q.1, f q.2)) := by
  induction l with
  | nil => rfl
  | cons y ys ih =>
    rw [List.map_cons, List.nodup_cons] at h
    show insertPair (y.1, f y.2) (sortPairs (ys.map (fun q => (q.1, f q.2)))) =
      (insertPair y (sortPairs ys)).map (fun q => (q.1, f q.2))
    rw [ih h.2]
    apply can_insertPair_ren
    intro hm
    exact h.1 (((nrm_sortPairs_perm ys).map (·.1)).mem_iff.mp hm)

/-! ### the liveness list commutes with a renaming injective on the live ids -/

theorem can_contains_map {f : Nat → Nat} {P : Nat → Prop} (hinj : ∀ m m', P m → P m' → f m = f m' → m = m')
    {acc : List Nat} (hacc : ∀ m ∈ acc, P m) {m : Nat} (hm : P m) : (acc.map f).contains (f m) = acc.contains m := by
  rw [Bool.eq_iff_iff, List.contains_iff_mem, List.contains_iff_mem, List.mem_map]
  constructor
  · rintro ⟨m', hm', e⟩
    rw [← hinj m' m (hacc m' hm') hm e]
    exact hm'
  · intro h
    exact ⟨m, h, rfl⟩

theorem can_step_ren {f : Nat → Nat} {P : Nat → Prop} (hinj : ∀ m m', P m → P m' → f m = f m' → m = m')
    {acc : List Nat} (hacc : ∀ m ∈ acc, P m) {p : Pc} (hp : ∀ m, pcLocal p = some m → P m) :
    nrm_step (acc.map f) (renPc f p) = (nrm_step acc p).map f := by
  unfold nrm_step
  rw [nrm_pcLocal_renPc]
  cases hl : pcLocal p with
  | none => rfl
  | some m =>
    show (if (acc.map f).contains (f m) then acc.map f else acc.map f ++ [f m]) =
      (if acc.contains m then acc else acc ++ [m]).map f
    rw [can_contains_map hinj hacc (hp m hl)]
    split
    · rfl
    · rw [List.map_append]
      rfl

theorem can_step_P {P : Nat → Prop} {acc : List Nat} (hacc : ∀ m ∈ acc, P m) {p : Pc}
    (hp : ∀ m, pcLocal p = some m → P m) : ∀ m ∈ nrm_step acc p, P m := by
  unfold nrm_step
  cases hl : pcLocal p with
  | none => exact hacc
  | some m =>
    show ∀ m' ∈ (if acc.contains m then acc else acc ++ [m]), P m'
    split
    · exact hacc
    · intro m' hm'
      rcases List.mem_append.mp hm' with h | h
      · exact hacc m' h
      · rw [List.mem_singleton.mp h]
        exact hp m hl

theorem can_fold_ren {f : Nat → Nat} {P : Nat → Prop} (hinj : ∀ m m', P m → P m' → f m = f m' → m = m')
    (ps : List Pc) {acc : List Nat} (hacc : ∀ m ∈ acc, P m) (hps : ∀ p ∈ ps, ∀ m, pcLocal p = some m → P m) :
    (ps.map (renPc f)).foldl nrm_step (acc.map f) = (ps.foldl nrm_step acc).map f := by
  induction ps generalizing acc with
  | nil => rfl
  | cons p ps ih =>
    rw [List.map_cons, List.foldl_cons, List.foldl_cons, can_step_ren hinj hacc (hps p List.mem_cons_self)]
    exact ih (can_step_P hacc (hps p List.mem_cons_self)) (fun q hq => hps q (List.mem_cons_of_mem _ hq))

theorem can_fold_P {P : Nat → Prop} (ps : List Pc) {acc : List Nat} (hacc : ∀ m ∈ acc, P m)
    (hps : ∀ p ∈ ps, ∀ m, pcLocal p = some m → P m) : ∀ m ∈ ps.foldl nrm_step acc, P m := by
  induction ps generalizing acc with
  | nil => exact hacc
  | cons p ps ih =>
    rw [List.foldl_cons]
    exact ih (can_step_P hacc (hps p List.mem_cons_self)) (fun q hq => hps q (List.mem_cons_of_mem _ hq))

theorem can_findIdx_map {f : Nat → Nat} {P : Nat → Prop} (hinj : ∀ m m', P m → P m' → f m = f m' → m = m')
    {l : List Nat} (hl : ∀ m ∈ l, P m) {m : Nat} (hm : P m) :
    (l.map f).findIdx? (· == f m) = l.findIdx? (· == m) := by
  induction l with
  | nil => rfl
  | cons y ys ih =>
    rw [List.map_cons, List.findIdx?_cons, List.findIdx?_cons, ih (fun m' h => hl m' (List.mem_cons_of_mem _ h))]
    by_cases e : y = m
    · subst e
      simp
    · have e' : f y ≠ f m := fun h => e (hinj y m (hl y List.mem_cons_self) hm h)
      simp [e, e']

/-! ### the components of `norm` under `Rel` -/

theorem can_normMap_live {a : State} {p : Nat × Nat} (h : p ∈ normMap a) : Live a p.2 :=
  .inl ⟨p.1, (nrm_sortPairs_perm a.map).mem_iff.mp h⟩

theorem can_normLive_live (a : State) : ∀ m ∈ normLive a, Live a m := by
  rw [nrm_normLive_eq]
  apply can_fold_P
  · intro m hm
    obtain ⟨p, hp, e⟩ := List.mem_map.mp hm
    rw [← e]
    exact can_normMap_live hp
  · intro p hp m hl
    exact .inr ⟨p, hp, hl⟩

theorem can_normMap_rel {f : Nat → Nat} {a x : State} (hw : WF a) (h : Rel f a x) :
    normMap x = (normMap a).map (fun q => (q.1, f q.2)) := by
  unfold normMap
  rw [can_sortPairs_perm h.map]
  exact can_sortPairs_ren f a.map hw.keysNd

theorem can_normLive_rel {f : Nat → Nat} {a x : State} (hw : WF a) (h : Rel f a x) :
    normLive x = (normLive a).map f := by
  rw [nrm_normLive_eq, nrm_normLive_eq, can_normMap_rel hw h, h.pcs, List.map_map]
  have e : (normMap a).map ((fun q : Nat × Nat => q.2) ∘ fun q => (q.1, f q.2)) = ((normMap a).map (·.2)).map f := by
    rw [List.map_map]
    rfl
  rw [e]
  apply can_fold_ren h.inj
  · intro m hm
    obtain ⟨p, hp, e⟩ := List.mem_map.mp hm
    rw [← e]
    exact can_normMap_live hp
  · intro p hp m hl
    exact .inr ⟨p, hp, hl⟩

theorem can_normF_rel {f : Nat → Nat} {a x : State} (hw : WF a) (h : Rel f a x) {m : Nat} (hm : Live a m) :
    normF x (f m) = normF a m := by
  unfold normF
  rw [can_normLive_rel hw h, can_findIdx_map h.inj (can_normLive_live a) hm]
  cases hf : (normLive a).findIdx? (· == m) with
  | none =>
    have := List.findIdx?_eq_none_iff.mp hf m (nrm_live_mem hm)
    simp at this
  | some i => rfl

theorem can_normCell_rel {f : Nat → Nat} {a x : State} (h : Rel f a x) {m : Nat} (hm : Live a m) :
    normCell x (f m) = normCell a m := by
  have hmu := h.mu m hm
  unfold normCell
  rw [hmu.1, can_sortNat_perm hmu.2.1, can_sortNat_perm hmu.2.2.1, can_sortNat_perm hmu.2.2.2]

/-- states that are equal up to renaming of live ids, garbage and order have the same normal form -/
theorem norm_eq_of_rel {f : Nat → Nat} {a x : State} (hw : WF a) (h : Rel f a x) : norm x = norm a := by
  have h1 : x.pcs.map (renPc (normF x)) = a.pcs.map (renPc (normF a)) := by
    rw [h.pcs, List.map_map]
    apply List.map_congr_left
    intro p hp
    show renPc (normF x) (renPc f p) = renPc (normF a) p
    rw [nrm_renPc_comp]
    apply sim_renPc_congr
    intro m hl
    exact can_normF_rel hw h (.inr ⟨p, hp, hl⟩)
  have h2 : (normMap x).map (fun p => (p.1, normF x p.2)) = (normMap a).map (fun p => (p.1, normF a p.2)) := by
    rw [can_normMap_rel hw h, List.map_map]
    apply List.map_congr_left
    intro p hp
    show (p.1, normF x (f p.2)) = (p.1, normF a p.2)
    rw [can_normF_rel hw h (can_normMap_live hp)]
  have h3 : (normLive x).map (normCell x) = (normLive a).map (normCell a) := by
    rw [can_normLive_rel hw h, List.map_map]
    apply List.map_congr_left
    intro m hm
    exact can_normCell_rel h (can_normLive_live a m hm)
  rw [norm_eq, norm_eq, h1, h2, h3, can_sortPairs_perm h.wh, can_sortPairs_perm h.rh]

theorem norm_eq_of_R {a x : State} (h : R a x) : norm x = norm a := by
  obtain ⟨hw, f, hf⟩ := h
  exact norm_eq_of_rel hw hf

end TypVerif.Lemmas.C09Accept
