import TypVerif.Lemmas.C09AcceptSim1
import TypVerif.Lemmas.C09AcceptSim2
/-
Acceptance soundness for the judge `Drv/C09.lean`: the relation `R` (`C09AcceptRel.lean`) is a backward simulation —
every step of the renamed / reordered state is matched by a step of the model state with the same label.
-/
namespace TypVerif.Lemmas.C09Accept
open TypVerif TypVerif.Conc TypVerif.Model.KeyedMutex TypVerif.Drv.C09
open TypVerif.Lemmas.KeyedMutex

/-! ### the guards -/

theorem sim_invOk {f : Nat → Nat} {a x : State} (hr : Rel f a x) (rw : Bool) (t : Nat) (op : Op) :
    invOk rw x t op = invOk rw a t op := by
  have e1 : decide ((t, op.key) ∈ x.wh) = decide ((t, op.key) ∈ a.wh) := decide_eq_decide.mpr hr.wh.mem_iff
  have e2 : decide ((t, op.key) ∈ x.rh) = decide ((t, op.key) ∈ a.rh) := decide_eq_decide.mpr hr.rh.mem_iff
  have e3 : decide ((t, op.key) ∉ x.rh) = decide ((t, op.key) ∉ a.rh) :=
    decide_eq_decide.mpr (not_congr hr.rh.mem_iff)
  unfold invOk
  rw [e1, e2, e3]

theorem sim_clearOk {f : Nat → Nat} {a x : State} (hr : Rel f a x) (k : Nat) : clearOk x k = clearOk a k := by
  unfold clearOk
  have e : ((fun p => !onKey k p) ∘ renPc f) = (fun p => !onKey k p) := by
    funext p
    show (!onKey k (renPc f p)) = !onKey k p
    rw [sim_onKey_renPc]
  rw [hr.wh.all_eq, hr.rh.all_eq, hr.pcs, List.all_map, e]

/-! ### `losStep` by case -/

theorem sim_losStep_clear (g : Bool) (s : State) (t k : Nat) :
    losStep g s t .clear k =
      if !g || clearOk s k then [(none, ⟨s.pcs.set t (.ret .done), del s.map k, s.heap, s.wh, s.rh⟩)] else [] := by
  unfold losStep; rw [if_pos rfl]

theorem sim_losStep_hit (g : Bool) (s : State) (t : Nat) {kd : Kind} {k m : Nat} (hkd : kd ≠ .clear)
    (hg : get s.map k = some m) :
    losStep g s t kd k = [(none, ⟨s.pcs.set t (.act kd k m), s.map, s.heap ++ [Mu.free], s.wh, s.rh⟩)] := by
  unfold losStep; rw [if_neg hkd, hg]

theorem sim_losStep_miss (g : Bool) (s : State) (t : Nat) {kd : Kind} {k : Nat} (hkd : kd ≠ .clear)
    (hg : get s.map k = none) :
    losStep g s t kd k =
      [(none, ⟨s.pcs.set t (.act kd k s.heap.length), (k, s.heap.length) :: s.map, s.heap ++ [Mu.free], s.wh, s.rh⟩)] := by
  unfold losStep; rw [if_neg hkd, hg]

/-! ### `Rel` after each kind of step -/

theorem sim_rel_clear {f : Nat → Nat} {a x : State} (hr : Rel f a x) (t k : Nat) :
    Rel f ⟨a.pcs.set t (.ret .done), del a.map k, a.heap, a.wh, a.rh⟩
      ⟨x.pcs.set t (.ret .done), del x.map k, x.heap, x.wh, x.rh⟩ := by
  have hlive : ∀ m', Live ⟨a.pcs.set t (.ret .done), del a.map k, a.heap, a.wh, a.rh⟩ m' → Live a m' := by
    intro m' h
    rcases sim_live_set h with ⟨k', hm⟩ | hm | hm
    · exact .inl ⟨k', sim_mem_del hm⟩
    · exact .inr hm
    · cases hm
  refine ⟨?_, ?_, ?_, ?_, ?_, hr.wh, hr.rh⟩
  · show x.pcs.set t (.ret .done) = (a.pcs.set t (.ret .done)).map (renPc f)
    rw [List.map_set, hr.pcs]; rfl
  · show (del x.map k).Perm ((del a.map k).map (fun p => (p.1, f p.2)))
    rw [← sim_del_map]
    exact sim_del_perm hr.map k
  · intro m1 m2 h1 h2
    exact hr.inj m1 m2 (hlive _ h1) (hlive _ h2)
  · intro m1 h1
    exact hr.ltX m1 (hlive _ h1)
  · intro m1 h1
    exact hr.mu m1 (hlive _ h1)

theorem sim_rel_hit {f : Nat → Nat} {a x : State} (hr : Rel f a x) (t : Nat) (kd : Kind) (k : Nat) {m : Nat}
    (hm : Live a m) :
    Rel f ⟨a.pcs.set t (.act kd k m), a.map, a.heap ++ [Mu.free], a.wh, a.rh⟩
      ⟨x.pcs.set t (.act kd k (f m)), x.map, x.heap ++ [Mu.free], x.wh, x.rh⟩ := by
  have hlive : ∀ m', Live ⟨a.pcs.set t (.act kd k m), a.map, a.heap ++ [Mu.free], a.wh, a.rh⟩ m' → Live a m' :=
    fun m' h => sim_live_set_same (fun m' hm' => by cases hm'; exact hm) h
  refine ⟨?_, hr.map, ?_, ?_, ?_, hr.wh, hr.rh⟩
  · show x.pcs.set t (.act kd k (f m)) = (a.pcs.set t (.act kd k m)).map (renPc f)
    rw [List.map_set, hr.pcs]; rfl
  · intro m1 m2 h1 h2
    exact hr.inj m1 m2 (hlive _ h1) (hlive _ h2)
  · intro m1 h1
    show f m1 < (x.heap ++ [Mu.free]).length
    rw [List.length_append]
    exact Nat.lt_of_lt_of_le (hr.ltX m1 (hlive _ h1)) (Nat.le_add_right _ _)
  · intro m1 h1
    rw [mu_mk_append x, mu_mk_append a]
    exact hr.mu m1 (hlive _ h1)

theorem sim_mu_fresh (s : State) pcs mp wh rh :
    State.mu ⟨pcs, mp, s.heap ++ [Mu.free], wh, rh⟩ s.heap.length = Mu.free := by
  unfold State.mu
  simp [List.getD_eq_getElem?_getD]

theorem sim_rel_miss {f : Nat → Nat} {a x : State} (hw : WF a) (hr : Rel f a x) (t : Nat) (kd : Kind) (k : Nat) :
    Rel (fun m => if m = a.heap.length then x.heap.length else f m)
      ⟨a.pcs.set t (.act kd k a.heap.length), (k, a.heap.length) :: a.map, a.heap ++ [Mu.free], a.wh, a.rh⟩
      ⟨x.pcs.set t (.act kd k x.heap.length), (k, x.heap.length) :: x.map, x.heap ++ [Mu.free], x.wh, x.rh⟩ := by
  have hold : ∀ m, Live a m → (if m = a.heap.length then x.heap.length else f m) = f m := by
    intro m h
    rw [if_neg (Nat.ne_of_lt (hw.liveLt m h))]
  have hlive : ∀ m',
      Live ⟨a.pcs.set t (.act kd k a.heap.length), (k, a.heap.length) :: a.map, a.heap ++ [Mu.free], a.wh, a.rh⟩ m' →
      m' = a.heap.length ∨ Live a m' := by
    intro m' h
    rcases sim_live_set h with ⟨k', hm⟩ | hm | hm
    · rcases List.mem_cons.mp hm with hm | hm
      · cases hm; exact .inl rfl
      · exact .inr (.inl ⟨k', hm⟩)
    · exact .inr (.inr hm)
    · cases hm; exact .inl rfl
  refine ⟨?_, ?_, ?_, ?_, ?_, hr.wh, hr.rh⟩
  · show x.pcs.set t (.act kd k x.heap.length) = (a.pcs.set t (.act kd k a.heap.length)).map (renPc _)
    rw [List.map_set, hr.pcs]
    have e : a.pcs.map (renPc (fun m => if m = a.heap.length then x.heap.length else f m)) = a.pcs.map (renPc f) := by
      apply List.map_congr_left
      intro p hp
      exact sim_renPc_congr (fun m hm => hold m (.inr ⟨p, hp, hm⟩))
    rw [e]
    simp only [renPc, if_true]
  · show ((k, x.heap.length) :: x.map).Perm
      (((k, a.heap.length) :: a.map).map (fun p => (p.1, if p.2 = a.heap.length then x.heap.length else f p.2)))
    rw [List.map_cons]
    simp only [if_true]
    apply List.Perm.cons
    have e : a.map.map (fun p => (p.1, if p.2 = a.heap.length then x.heap.length else f p.2)) =
        a.map.map (fun p => (p.1, f p.2)) := by
      apply List.map_congr_left
      intro p hp
      show (p.1, _) = (p.1, _)
      rw [hold p.2 (.inl ⟨p.1, hp⟩)]
    rw [e]
    exact hr.map
  · intro m1 m2 h1 h2
    rcases hlive _ h1 with e1 | h1 <;> rcases hlive _ h2 with e2 | h2
    · intro _; rw [e1, e2]
    · subst e1
      rw [hold m2 h2]
      simp only [if_true]
      intro e
      exact absurd e.symm (Nat.ne_of_lt (hr.ltX m2 h2))
    · subst e2
      rw [hold m1 h1]
      simp only [if_true]
      intro e
      exact absurd e (Nat.ne_of_lt (hr.ltX m1 h1))
    · rw [hold m1 h1, hold m2 h2]
      exact hr.inj m1 m2 h1 h2
  · intro m1 h1
    show _ < (x.heap ++ [Mu.free]).length
    rw [List.length_append, List.length_singleton]
    rcases hlive _ h1 with e1 | h1
    · subst e1
      simp only [if_true]
      exact Nat.lt_succ_self _
    · rw [hold m1 h1]
      exact Nat.lt_succ_of_lt (hr.ltX m1 h1)
  · intro m1 h1
    rcases hlive _ h1 with e1 | h1
    · subst e1
      simp only [if_true]
      rw [sim_mu_fresh x, sim_mu_fresh a]
      exact sim_muEq_refl _
    · rw [hold m1 h1, mu_mk_append x, mu_mk_append a]
      exact hr.mu m1 h1

theorem sim_rel_acqW {f : Nat → Nat} {a x : State} (hw : WF a) (hr : Rel f a x) (t k : Nat) {m : Nat} (r : Res)
    (hm : Live a m) : Rel f (acqW a t k m r) (acqW x t k (f m) r) := by
  have hμ := hr.mu m hm
  exact sim_rel_update hw hr t m (.ret r) _ _ _ _ _ _ hm (fun m' h => by cases h)
    ⟨rfl, hμ.2.1, hμ.2.2.1.filter _, hμ.2.2.2⟩ (hr.wh.cons _) hr.rh

theorem sim_rel_acqR {f : Nat → Nat} {a x : State} (hw : WF a) (hr : Rel f a x) (t k : Nat) {m : Nat} (r : Res)
    (hm : Live a m) : Rel f (acqR a t k m r) (acqR x t k (f m) r) := by
  have hμ := hr.mu m hm
  exact sim_rel_update hw hr t m (.ret r) _ _ _ _ _ _ hm (fun m' h => by cases h)
    ⟨hμ.1, hμ.2.1.cons t, hμ.2.2.1, hμ.2.2.2⟩ hr.wh (hr.rh.cons _)

theorem sim_rel_queue {f : Nat → Nat} {a x : State} (hw : WF a) (hr : Rel f a x) (t : Nat) {m : Nat} (p' : Pc)
    {pd wq pd' wq' : List Nat} (hm : Live a m) (hp' : ∀ m', pcLocal p' = some m' → Live a m')
    (hpd : pd'.Perm pd) (hwq : wq'.Perm wq) :
    Rel f (queueStep a t m p' pd wq) (queueStep x t (f m) (renPc f p') pd' wq') := by
  have hμ := hr.mu m hm
  exact sim_rel_update hw hr t m p' _ _ _ _ _ _ hm hp' ⟨hμ.1, hμ.2.1, hpd, hwq⟩ hr.wh hr.rh

theorem sim_rel_relW {f : Nat → Nat} {a x : State} (hw : WF a) (hr : Rel f a x) (t k : Nat) {m : Nat} (p' : Pc)
    {wq wq' : List Nat} (hm : Live a m) (hp' : ∀ m', pcLocal p' = some m' → Live a m') (hwq : wq'.Perm wq) :
    Rel f (relW a t k m p' wq) (relW x t k (f m) (renPc f p') wq') := by
  have hμ := hr.mu m hm
  exact sim_rel_update hw hr t m p' _ _ _ _ _ _ hm hp' ⟨rfl, hμ.2.1, hμ.2.2.1, hwq⟩ (hr.wh.erase _) hr.rh

theorem sim_rel_runlock {f : Nat → Nat} {a x : State} (hw : WF a) (hr : Rel f a x) (t k : Nat) {m : Nat}
    (hm : Live a m) :
    Rel f ⟨a.pcs.set t (.ret .done), a.map,
        a.heap.set m ⟨(a.mu m).writer, (a.mu m).readers.erase t, (a.mu m).pending, (a.mu m).wq⟩, a.wh, a.rh.erase (t, k)⟩
      ⟨x.pcs.set t (.ret .done), x.map,
        x.heap.set (f m) ⟨(x.mu (f m)).writer, (x.mu (f m)).readers.erase t, (x.mu (f m)).pending, (x.mu (f m)).wq⟩,
        x.wh, x.rh.erase (t, k)⟩ := by
  have hμ := hr.mu m hm
  exact sim_rel_update hw hr t m (.ret .done) _ _ _ _ _ _ hm (fun m' h => by cases h)
    ⟨hμ.1, hμ.2.1.erase t, hμ.2.2.1, hμ.2.2.2⟩ hr.wh (hr.rh.erase _)

/-! ### the simulation, by program counter -/

theorem sim_finish {f : Nat → Nat} {l : Option Event} {z A Z : State} {L : List (Option Event × State)}
    (h : (l, z) ∈ [(none, Z)]) (hA : (none, A) ∈ L) (hr : Rel f A Z) :
    ∃ (a' : State) (f' : Nat → Nat), (l, a') ∈ L ∧ Rel f' a' z := by
  obtain ⟨rfl, rfl⟩ := Prod.mk.inj (List.mem_singleton.mp h)
  exact ⟨A, f, hA, hr⟩

theorem sim_idle {rw g : Bool} {ops : List Op} {f : Nat → Nat} {a x z : State} {l : Option Event} {t : Nat}
    (hr : Rel f a x) (hpc : a.pc t = .idle) (h : (l, z) ∈ stepT rw g ops x t) :
    ∃ (a' : State) (f' : Nat → Nat), (l, a') ∈ stepT rw g ops a t ∧ Rel f' a' z := by
  have hx : x.pc t = .idle := by rw [sim_pc_ren hr, hpc]; rfl
  rw [sim_stepT_idle hx] at h
  rw [sim_stepT_idle hpc]
  obtain ⟨op, hop, e⟩ := List.mem_map.mp h
  obtain ⟨hop, hok⟩ := List.mem_filter.mp hop
  obtain ⟨rfl, rfl⟩ := Prod.mk.inj e
  rw [sim_invOk hr] at hok
  exact ⟨a.setPc t (.los op.kind op.key), f, List.mem_map.mpr ⟨op, List.mem_filter.mpr ⟨hop, hok⟩, rfl⟩,
    sim_rel_setPc hr t (.los op.kind op.key) (fun m' hm => by cases hm)⟩

theorem sim_ret {rw g : Bool} {ops : List Op} {f : Nat → Nat} {a x z : State} {l : Option Event} {t : Nat} {r : Res}
    (hr : Rel f a x) (hpc : a.pc t = .ret r) (h : (l, z) ∈ stepT rw g ops x t) :
    ∃ (a' : State) (f' : Nat → Nat), (l, a') ∈ stepT rw g ops a t ∧ Rel f' a' z := by
  have hx : x.pc t = .ret r := by rw [sim_pc_ren hr, hpc]; rfl
  rw [sim_stepT_ret hx] at h
  rw [sim_stepT_ret hpc]
  obtain ⟨rfl, rfl⟩ := Prod.mk.inj (List.mem_singleton.mp h)
  exact ⟨a.setPc t .idle, f, List.mem_singleton.mpr rfl, sim_rel_setPc hr t .idle (fun m' hm => by cases hm)⟩

theorem sim_los {rw g : Bool} {ops : List Op} {f : Nat → Nat} {a x z : State} {l : Option Event} {t : Nat}
    {kd : Kind} {k : Nat} (hw : WF a) (hr : Rel f a x) (hpc : a.pc t = .los kd k)
    (h : (l, z) ∈ stepT rw g ops x t) :
    ∃ (a' : State) (f' : Nat → Nat), (l, a') ∈ stepT rw g ops a t ∧ Rel f' a' z := by
  have hx : x.pc t = .los kd k := by rw [sim_pc_ren hr, hpc]; rfl
  rw [sim_stepT_los hx] at h
  rw [sim_stepT_los hpc]
  by_cases hkd : kd = .clear
  · subst hkd
    rw [sim_losStep_clear, sim_clearOk hr] at h
    rw [sim_losStep_clear]
    by_cases hg : (!g || clearOk a k) = true
    · rw [if_pos hg] at h ⊢
      exact sim_finish h (List.mem_singleton.mpr rfl) (sim_rel_clear hr t k)
    · rw [if_neg hg] at h
      cases h
  · have hget : get x.map k = (get a.map k).map f := by
      rw [sim_get_perm hr.map (by rw [sim_keys_map]; exact hw.keysNd), sim_get_map]
    cases hga : get a.map k with
    | none =>
      rw [hga] at hget
      rw [sim_losStep_miss g x t hkd hget] at h
      rw [sim_losStep_miss g a t hkd hga]
      exact sim_finish h (List.mem_singleton.mpr rfl) (sim_rel_miss hw hr t kd k)
    | some m =>
      rw [hga] at hget
      rw [sim_losStep_hit g x t hkd hget] at h
      rw [sim_losStep_hit g a t hkd hga]
      exact sim_finish h (List.mem_singleton.mpr rfl) (sim_rel_hit hr t kd k (sim_live_map hga))

theorem sim_act {rw g : Bool} {ops : List Op} {f : Nat → Nat} {a x z : State} {l : Option Event} {t : Nat}
    {kd : Kind} {k m : Nat} (hw : WF a) (hr : Rel f a x) (ht : t < a.pcs.length) (hpc : a.pc t = .act kd k m)
    (h : (l, z) ∈ stepT rw g ops x t) :
    ∃ (a' : State) (f' : Nat → Nat), (l, a') ∈ stepT rw g ops a t ∧ Rel f' a' z := by
  have hx : x.pc t = .act kd k (f m) := by rw [sim_pc_ren hr, hpc]; rfl
  have hm : Live a m := sim_live_pc ht (by rw [hpc]; rfl)
  have hμ := hr.mu m hm
  have hno : ∀ (r : Res) (m' : Nat), pcLocal (.ret r) = some m' → Live a m' := fun r m' h => by cases h
  have hself : ∀ (p : Pc), pcLocal p = some m → ∀ m', pcLocal p = some m' → Live a m' := by
    intro p hp m' hp'
    rw [hp] at hp'; cases hp'; exact hm
  rw [sim_stepT_act hx] at h
  rw [sim_stepT_act hpc]
  cases kd with
  | lock =>
    simp only [actStep] at h ⊢
    by_cases hrw : rw = true
    · rw [if_pos hrw] at h ⊢
      exact sim_finish h (List.mem_singleton.mpr rfl)
        (sim_rel_queue hw hr t (.ann k m) hm (hself _ rfl) hμ.2.2.1 (hμ.2.2.2.cons t))
    · rw [if_neg hrw] at h ⊢
      by_cases hc : (a.mu m).writer = none ∧ (a.mu m).readers = []
      · rw [if_pos ((sim_muEq_acq hμ).mpr hc)] at h
        rw [if_pos hc]
        exact sim_finish h (List.mem_singleton.mpr rfl) (sim_rel_acqW hw hr t k .done hm)
      · rw [if_neg (fun h' => hc ((sim_muEq_acq hμ).mp h'))] at h
        cases h
  | trylock =>
    simp only [actStep] at h ⊢
    by_cases hc : (a.mu m).writer = none ∧ (a.mu m).readers = [] ∧ (a.mu m).pending = [] ∧ (a.mu m).wq = []
    · rw [if_pos ((sim_muEq_try hμ).mpr hc)] at h
      rw [if_pos hc]
      exact sim_finish h (List.mem_singleton.mpr rfl) (sim_rel_acqW hw hr t k .tt hm)
    · rw [if_neg (fun h' => hc ((sim_muEq_try hμ).mp h'))] at h
      rw [if_neg hc]
      exact sim_finish h (List.mem_singleton.mpr rfl) (sim_rel_setPc hr t (.ret .ff) (hno _))
  | unlock =>
    simp only [actStep] at h ⊢
    by_cases hrw : rw = true
    · rw [if_pos hrw] at h ⊢
      exact sim_finish h (List.mem_singleton.mpr rfl)
        (sim_rel_relW hw hr t k (.rel k m) hm (hself _ rfl) (hμ.2.2.2.cons t))
    · rw [if_neg hrw] at h ⊢
      exact sim_finish h (List.mem_singleton.mpr rfl)
        (sim_rel_relW hw hr t k (.ret .done) hm (hno _) hμ.2.2.2)
  | rlock =>
    simp only [actStep] at h ⊢
    by_cases hc : (a.mu m).writer = none ∧ (a.mu m).pending = []
    · rw [if_pos ((sim_muEq_rd hμ).mpr hc)] at h
      rw [if_pos hc]
      exact sim_finish h (List.mem_singleton.mpr rfl) (sim_rel_acqR hw hr t k .done hm)
    · rw [if_neg (fun h' => hc ((sim_muEq_rd hμ).mp h'))] at h
      cases h
  | tryrlock =>
    simp only [actStep] at h ⊢
    by_cases hc : (a.mu m).writer = none ∧ (a.mu m).pending = []
    · rw [if_pos ((sim_muEq_rd hμ).mpr hc)] at h
      rw [if_pos hc]
      exact sim_finish h (List.mem_singleton.mpr rfl) (sim_rel_acqR hw hr t k .tt hm)
    · rw [if_neg (fun h' => hc ((sim_muEq_rd hμ).mp h'))] at h
      rw [if_neg hc]
      exact sim_finish h (List.mem_singleton.mpr rfl) (sim_rel_setPc hr t (.ret .ff) (hno _))
  | runlock =>
    simp only [actStep] at h ⊢
    exact sim_finish h (List.mem_singleton.mpr rfl) (sim_rel_runlock hw hr t k hm)
  | clear =>
    simp only [actStep] at h
    cases h

theorem sim_ann {rw g : Bool} {ops : List Op} {f : Nat → Nat} {a x z : State} {l : Option Event} {t : Nat}
    {k m : Nat} (hw : WF a) (hr : Rel f a x) (ht : t < a.pcs.length) (hpc : a.pc t = .ann k m)
    (h : (l, z) ∈ stepT rw g ops x t) :
    ∃ (a' : State) (f' : Nat → Nat), (l, a') ∈ stepT rw g ops a t ∧ Rel f' a' z := by
  have hx : x.pc t = .ann k (f m) := by rw [sim_pc_ren hr, hpc]; rfl
  have hm : Live a m := sim_live_pc ht (by rw [hpc]; rfl)
  have hμ := hr.mu m hm
  rw [sim_stepT_ann hx] at h
  rw [sim_stepT_ann hpc]
  exact sim_finish h (List.mem_singleton.mpr rfl)
    (sim_rel_queue hw hr t (.wait k m) hm (fun m' h' => by cases h'; exact hm) (hμ.2.2.1.cons t) (hμ.2.2.2.filter _))

theorem sim_wait {rw g : Bool} {ops : List Op} {f : Nat → Nat} {a x z : State} {l : Option Event} {t : Nat}
    {k m : Nat} (hw : WF a) (hr : Rel f a x) (ht : t < a.pcs.length) (hpc : a.pc t = .wait k m)
    (h : (l, z) ∈ stepT rw g ops x t) :
    ∃ (a' : State) (f' : Nat → Nat), (l, a') ∈ stepT rw g ops a t ∧ Rel f' a' z := by
  have hx : x.pc t = .wait k (f m) := by rw [sim_pc_ren hr, hpc]; rfl
  have hm : Live a m := sim_live_pc ht (by rw [hpc]; rfl)
  have hμ := hr.mu m hm
  rw [sim_stepT_wait hx] at h
  rw [sim_stepT_wait hpc]
  by_cases hc : (a.mu m).writer = none ∧ (a.mu m).readers = []
  · rw [if_pos ((sim_muEq_acq hμ).mpr hc)] at h
    rw [if_pos hc]
    exact sim_finish h (List.mem_singleton.mpr rfl) (sim_rel_acqW hw hr t k .done hm)
  · rw [if_neg (fun h' => hc ((sim_muEq_acq hμ).mp h'))] at h
    cases h

theorem sim_rel_pc {rw g : Bool} {ops : List Op} {f : Nat → Nat} {a x z : State} {l : Option Event} {t : Nat}
    {k m : Nat} (hw : WF a) (hr : Rel f a x) (ht : t < a.pcs.length) (hpc : a.pc t = .rel k m)
    (h : (l, z) ∈ stepT rw g ops x t) :
    ∃ (a' : State) (f' : Nat → Nat), (l, a') ∈ stepT rw g ops a t ∧ Rel f' a' z := by
  have hx : x.pc t = .rel k (f m) := by rw [sim_pc_ren hr, hpc]; rfl
  have hm : Live a m := sim_live_pc ht (by rw [hpc]; rfl)
  have hμ := hr.mu m hm
  rw [sim_stepT_rel hx] at h
  rw [sim_stepT_rel hpc]
  exact sim_finish h (List.mem_singleton.mpr rfl)
    (sim_rel_queue hw hr t (.ret .done) hm (fun m' h' => by cases h') hμ.2.2.1 (hμ.2.2.2.filter _))

/-! ### the theorems -/

/-- backward simulation: a step of the renamed state `x` is matched by a step of `a` with the same label -/
theorem sim_succ {rw g : Bool} {ops : List Op} {f : Nat → Nat} {a x z : State} {l : Option Event}
    (hw : WF a) (hr : Rel f a x) (h : (l, z) ∈ succ rw g ops x) :
    ∃ (a' : State) (f' : Nat → Nat), (l, a') ∈ succ rw g ops a ∧ Rel f' a' z := by
  obtain ⟨t, ht, hs⟩ := mem_succ.mp h
  rw [sim_len hr] at ht
  have key : ∃ (a' : State) (f' : Nat → Nat), (l, a') ∈ stepT rw g ops a t ∧ Rel f' a' z := by
    cases hpc : a.pc t with
    | idle => exact sim_idle hr hpc hs
    | los kd k => exact sim_los hw hr hpc hs
    | act kd k m => exact sim_act hw hr ht hpc hs
    | ann k m => exact sim_ann hw hr ht hpc hs
    | wait k m => exact sim_wait hw hr ht hpc hs
    | rel k m => exact sim_rel_pc hw hr ht hpc hs
    | ret r => exact sim_ret hr hpc hs
  obtain ⟨a', f', hm, hr'⟩ := key
  exact ⟨a', f', mem_succ.mpr ⟨t, ht, hm⟩, hr'⟩

theorem R_succ {rw g : Bool} {ops : List Op} {a x z : State} {l : Option Event}
    (hr : R a x) (h : (l, z) ∈ succ rw g ops x) : ∃ a', (l, a') ∈ succ rw g ops a ∧ R a' z := by
  obtain ⟨hw, f, hrel⟩ := hr
  obtain ⟨a', f', hm, hr'⟩ := sim_succ hw hrel h
  exact ⟨a', hm, wf_succ hw hm, f', hr'⟩

end TypVerif.Lemmas.C09Accept
