import TypVerif.Lemmas.SmcQuiet
import TypVerif.Lemmas.SmcEntry
import TypVerif.Lemmas.SmcMaps
/-
C04 concurrent half: the locked new-key tail of Store / LoadOrStore — the `dirtyLocked` loop
(`dirtyRead`, `expLoad`, `expCas`, `expLoad2`; the loop head `dirtyPick` is in `SmcQuiet`) and the final insertion
(`readStore`, the linearization step of a Store / LoadOrStore of a new key).

The acting goroutine owns `mu` and is the only builder, so `unprocessed s` has exactly the members of
`unprocPc (s.pc t)`; bystanders do not own `mu`.

General lemma: `R_own_tau` (a non-linearization step of the owner that keeps `mu`, changes maps/entries, keeps
`absOf`).
-/
namespace TypVerif.Lemmas.Smc
open TypVerif.Model TypVerif.Model.SyncMapConc TypVerif.Model.RelObj
open TypVerif.Model.SyncMap (alookup ainsert aerase akeys)

set_option linter.unusedSimpArgs false
set_option linter.unusedVariables false
set_option linter.unusedSectionVars false

variable {K V : Type} [DecidableEq K] [DecidableEq V] [Inhabited V]
variable {menu : List (Op K V)} {s : State K V} {a : AState K V} {t : Tid}

/-! ### helpers -/

omit [Inhabited V] in
theorem T_dirtyNext_iff {sh : Shared K V} {t : Tid} {c : NewCtx} {k : K} {v : V} {rm todo : List (K × EId)}
    {p : APc K V} :
    T sh t (dirtyNext c k v rm todo) p ↔ NewTail sh t c k v rm p ∧ sh.dirty.isSome = true ∧ Building sh todo := by
  cases todo with
  | nil =>
    rw [dirtyNext_nil]
    simp only [T]
    constructor
    · intro h; exact ⟨h.1, h.2, Building_nil sh⟩
    · intro h; exact ⟨h.1, h.2.1⟩
  | cons q rest =>
    rw [dirtyNext_cons]
    simp only [T]

omit [DecidableEq K] [DecidableEq V] [Inhabited V] in
theorem unlinkedPc_dirtyNext (c : NewCtx) (k : K) (v : V) (rm todo : List (K × EId)) (q : APc K V) :
    unlinkedPc (dirtyNext c k v rm todo) q = [] := by
  cases todo <;> cases q <;> rfl

omit [Inhabited V] in
/-- `NewTail` looks at `mu`, `read.m`, `amended` only -/
theorem NewTail_of_eq {sh sh' : Shared K V} {t : Tid} {c : NewCtx} {k : K} {v : V} {rm : List (K × EId)} {p : APc K V}
    (h : NewTail sh t c k v rm p) (hmu : sh'.mu = sh.mu) (hr : sh'.readM = sh.readM)
    (ha : sh'.amended = sh.amended) : NewTail sh' t c k v rm p := by
  obtain ⟨h1, h2, h3, h4, h5⟩ := h
  refine ⟨h1, ?_, ?_, ?_, ?_⟩
  · unfold Own at h2 ⊢; rw [hmu]; exact h2
  · rw [hr]; exact h3
  · rw [ha]; exact h4
  · rw [hr]; exact h5

omit [DecidableEq K] [DecidableEq V] [Inhabited V] in
theorem newRes_ne_pairs (c : NewCtx) (v : V) (l : List (K × V)) : (newRes c v : Res K V) ≠ .pairs l := by
  cases c <;> (intro h; cases h)

omit [Inhabited V] in
/-- the shared-state half of `G` for the owner's unprocessed list -/
theorem GS_of_own (hR : R s a) (ho : Own s.sh t) : GS s.sh (unprocPc (s.pc t)) :=
  ((G_iff s a.pcs).mp hR.g).1.congr (fun p => (mem_unprocessed_of_own hR.thr ho).symm)

omit [Inhabited V] in
/-- A step of the owner `t` of `mu` that is not a linearization step: `t` keeps `mu`, the new shared state satisfies
`GS` for `t`'s new unprocessed list, represents the same abstract map, `T` holds for `t` and for all bystanders. -/
theorem R_own_tau (hR : R s a) (ht : t < s.pcs.length) (hlin : isLin s.sh (s.pc t) (a.pcs t) = false)
    (ho : Own s.sh t) {sh' : Shared K V} {pc' : Pc K V}
    (hmu : sh'.mu = s.sh.mu)
    (hgs : GS sh' (unprocPc pc'))
    (habs : ∀ k, absOf sh' k = absOf s.sh k)
    (hself : T sh' t pc' (a.pcs t))
    (hby : ∀ u, u ≠ t → T sh' u (s.pc u) (a.pcs u))
    (hunl : ∀ e ∈ unlinkedPc pc' (a.pcs t), e ∈ unlinkedPc (s.pc t) (a.pcs t)) :
    R (setPc s t sh' pc') (witness s t none a) := by
  apply R_of_parts
  · rw [G_iff]
    refine ⟨?_, ?_, ?_⟩
    · simp only [setPc_sh]
      exact hgs.congr (fun p => mem_unprocessed_setPc_of_own hR.thr ho ht)
    · intro u hu
      rw [setPc_pcs_length]
      simp only [setPc_sh] at hu
      rw [hmu] at hu
      exact hR.g.muBound u hu
    · apply hR.g.unlinked_setPc sh'
      · intro u hu
        rw [witness_pcs_tau s t a hlin, unlinkedPc_observePc]
      · intro e he
        rw [witness_pcs_tau s t a hlin, unlinkedPc_observePc] at he
        exact Or.inl (hunl e he)
  · intro k
    rw [witness_obj_tau s t a hlin, hR.abs k]
    exact (habs k).symm
  · intro u
    simp only [setPc_sh]
    rw [witness_pcs_tau s t a hlin]
    by_cases hut : u = t
    · subst hut
      rw [pc_setPc_self ht]
      exact T_observePc hself a.obj
    · rw [pc_setPc_ne hut]
      exact T_observePc (hby u hut) a.obj
  · exact obs_witness s t none a

/-! ### `dirtyRead`: `m.dirty = make(map)`; all of `read.m` is unprocessed now -/

theorem stepOK_dirtyRead {c : NewCtx} {k : K} {v : V} {rm : List (K × EId)}
    (hR : R s a) (ht : t < s.pcs.length) (hpc : s.pc t = .dirtyRead c k v rm) : StepOK menu s a t := by
  have hT := hR.thr t
  rw [hpc] at hT
  simp only [T] at hT
  obtain ⟨hNT, hd⟩ := hT
  have ho : Own s.sh t := hNT.own
  have hlin : isLin s.sh (s.pc t) (a.pcs t) = false := by rw [hpc]; rfl
  apply stepOK_of_internal hR ht (by rw [hpc]; simp) (by rw [hpc]; simp) _ (pickOK_of_nil (by rw [hpc]; rfl))
  intro sh' pc' hex
  rw [hpc] at hex
  simp only [exec, Option.some.injEq, Prod.mk.injEq] at hex
  obtain ⟨rfl, rfl⟩ := hex
  have hg := GS_of_own hR ho
  rw [hpc] at hg
  have hU : ∀ p ∈ unprocPc (Pc.dirtyRead c k v rm : Pc K V), (getP s.sh p.2).isExpunged = false := by
    intro p hp; cases hp
  refine R_own_tau hR ht hlin ho rfl ?_ (absOf_dirtyInit hd) ?_ (bystanders_dirtyInit hR.thr ho hd) ?_
  · rw [unprocPc_dirtyNext]
    exact GS_dirtyInit hg hd (fun p hp => hp)
  · rw [T_dirtyNext_iff]
    exact ⟨NewTail_of_eq hNT rfl rfl rfl, rfl, Building_dirtyInit hg hd hU⟩
  · intro e he; rw [unlinkedPc_dirtyNext] at he; cases he

/-! ### `expLoad` / `expLoad2`: `p := atomic.LoadPointer(&e.p)` in `tryExpungeLocked` -/

omit [DecidableEq V] [Inhabited V] in
theorem expLoaded_of_nil {sh : Shared K V} {e' : EId} (h : (getP sh e').isNil = true) (c : NewCtx) (k : K) (v : V)
    (rm todo : List (K × EId)) (k' : K) :
    expLoaded sh c k v rm todo k' e' = (sh, .expCas c k v rm todo k' e') := by
  unfold expLoaded
  simp only [h, if_true]

omit [DecidableEq V] [Inhabited V] in
theorem expLoaded_of_not_nil {sh : Shared K V} {e' : EId} (h : (getP sh e').isNil = false) (c : NewCtx) (k : K) (v : V)
    (rm todo : List (K × EId)) (k' : K) :
    expLoaded sh c k v rm todo k' e' = (expDone sh (getP sh e') k' e', dirtyNext c k v rm todo) := by
  unfold expLoaded
  simp only [h, Bool.false_eq_true, if_false]

omit [Inhabited V] in
/-- both load sites: nil ⇒ go on to the CAS; otherwise the pointer is a value (the pair is unprocessed, hence not
expunged) and the pair is copied into the dirty map -/
theorem R_expLoaded {c : NewCtx} {k : K} {v : V} {rm todo : List (K × EId)} {k' : K} {e' : EId}
    (hR : R s a) (ht : t < s.pcs.length) (hlin : isLin s.sh (s.pc t) (a.pcs t) = false)
    (hun : unprocPc (s.pc t) = (k', e') :: todo)
    (hNT : NewTail s.sh t c k v rm (a.pcs t)) (hds : s.sh.dirty.isSome = true)
    (hb : Building s.sh ((k', e') :: todo)) :
    R (setPc s t (expLoaded s.sh c k v rm todo k' e').1 (expLoaded s.sh c k v rm todo k' e').2)
      (witness s t none a) := by
  have ho : Own s.sh t := hNT.own
  have ha : s.sh.amended = false := hNT.2.2.2.1
  have hunl : ∀ pc' : Pc K V, (∀ d k e, pc' ≠ .ladMiss d k e) →
      ∀ e ∈ unlinkedPc pc' (a.pcs t), e ∈ unlinkedPc (s.pc t) (a.pcs t) := by
    intro pc' h e he; rw [unlinkedPc_of_pend hNT.1 h] at he; cases he
  cases hnil : (getP s.sh e').isNil with
  | true =>
    rw [expLoaded_of_nil hnil]
    refine R_quiet_same hR ht hlin ?_ ?_ (hunl _ (by intro d k e h; cases h))
    · simp only [T]
      exact ⟨hNT, hds, hb⟩
    · intro p hp; rw [hun] at hp; exact hp
  | false =>
    have hlive : (getP s.sh e').isExpunged = false := hb.head.2.2.2
    rw [expLoaded_of_not_nil hnil, expDone_of_live s.sh hlive]
    have hg := GS_of_own hR ho
    rw [hun] at hg
    have hmr : (k', e') ∈ s.sh.readM := hb.head.1
    refine R_own_tau hR ht hlin ho (setDirty_mu _ _ _) ?_ (absOf_setDirty_of_not_amended ha k' e') ?_
      (bystanders_expDone hR.thr ho hds hmr) ?_
    · rw [unprocPc_dirtyNext]
      exact GS_expDone_cons hg hds ha hb
    · rw [T_dirtyNext_iff]
      refine ⟨NewTail_of_eq hNT (setDirty_mu _ _ _) (setDirty_readM _ _ _) (setDirty_amended _ _ _), ?_,
        Building_expDone hg hds hb⟩
      rw [setDirty_dirty_isSome]; exact hds
    · intro e he; rw [unlinkedPc_dirtyNext] at he; cases he

theorem stepOK_expLoad {c : NewCtx} {k : K} {v : V} {rm todo : List (K × EId)} {k' : K} {e' : EId}
    (hR : R s a) (ht : t < s.pcs.length) (hpc : s.pc t = .expLoad c k v rm todo k' e') : StepOK menu s a t := by
  have hT := hR.thr t
  rw [hpc] at hT
  simp only [T] at hT
  obtain ⟨hNT, hds, hb⟩ := hT
  have hlin : isLin s.sh (s.pc t) (a.pcs t) = false := by rw [hpc]; rfl
  apply stepOK_of_internal hR ht (by rw [hpc]; simp) (by rw [hpc]; simp) _ (pickOK_of_nil (by rw [hpc]; rfl))
  intro sh' pc' hex
  rw [hpc] at hex
  simp only [exec, Option.some.injEq] at hex
  have h1 : (expLoaded s.sh c k v rm todo k' e').1 = sh' := by rw [hex]
  have h2 : (expLoaded s.sh c k v rm todo k' e').2 = pc' := by rw [hex]
  rw [← h1, ← h2]
  exact R_expLoaded hR ht hlin (by rw [hpc]; rfl) hNT hds hb

theorem stepOK_expLoad2 {c : NewCtx} {k : K} {v : V} {rm todo : List (K × EId)} {k' : K} {e' : EId}
    (hR : R s a) (ht : t < s.pcs.length) (hpc : s.pc t = .expLoad2 c k v rm todo k' e') : StepOK menu s a t := by
  have hT := hR.thr t
  rw [hpc] at hT
  simp only [T] at hT
  obtain ⟨hNT, hds, hb⟩ := hT
  have hlin : isLin s.sh (s.pc t) (a.pcs t) = false := by rw [hpc]; rfl
  apply stepOK_of_internal hR ht (by rw [hpc]; simp) (by rw [hpc]; simp) _ (pickOK_of_nil (by rw [hpc]; rfl))
  intro sh' pc' hex
  rw [hpc] at hex
  simp only [exec, Option.some.injEq] at hex
  have h1 : (expLoaded s.sh c k v rm todo k' e').1 = sh' := by rw [hex]
  have h2 : (expLoaded s.sh c k v rm todo k' e').2 = pc' := by rw [hex]
  rw [← h1, ← h2]
  exact R_expLoaded hR ht hlin (by rw [hpc]; rfl) hNT hds hb

/-! ### `expCas`: `atomic.CompareAndSwapPointer(&e.p, nil, expunged)` -/

theorem stepOK_expCas {c : NewCtx} {k : K} {v : V} {rm todo : List (K × EId)} {k' : K} {e' : EId}
    (hR : R s a) (ht : t < s.pcs.length) (hpc : s.pc t = .expCas c k v rm todo k' e') : StepOK menu s a t := by
  have hT := hR.thr t
  rw [hpc] at hT
  simp only [T] at hT
  obtain ⟨hNT, hds, hb⟩ := hT
  have ho : Own s.sh t := hNT.own
  have hlin : isLin s.sh (s.pc t) (a.pcs t) = false := by rw [hpc]; rfl
  have hunl : ∀ pc' : Pc K V, (∀ d k e, pc' ≠ .ladMiss d k e) →
      ∀ e ∈ unlinkedPc pc' (a.pcs t), e ∈ unlinkedPc (s.pc t) (a.pcs t) := by
    intro pc' h e he; rw [unlinkedPc_of_pend hNT.1 h] at he; cases he
  apply stepOK_of_internal hR ht (by rw [hpc]; simp) (by rw [hpc]; simp) _ (pickOK_of_nil (by rw [hpc]; rfl))
  intro sh' pc' hex
  rw [hpc] at hex
  simp only [exec] at hex
  cases hnil : (getP s.sh e').isNil with
  | false =>
    simp only [hnil, Bool.false_eq_true, if_false, Option.some.injEq, Prod.mk.injEq] at hex
    obtain ⟨rfl, rfl⟩ := hex
    refine R_quiet_same hR ht hlin ?_ ?_ (hunl _ (by intro d k e h; cases h))
    · simp only [T]
      exact ⟨hNT, hds, hb⟩
    · intro p hp; rw [hpc] at hp; exact hp
  | true =>
    simp only [hnil, if_true, Option.some.injEq, Prod.mk.injEq] at hex
    obtain ⟨rfl, rfl⟩ := hex
    have hG : GS s.sh (unprocessed s) := ((G_iff s a.pcs).mp hR.g).1
    have hm : (k', e') ∈ unprocessed s := by
      rw [mem_unprocessed_of_own hR.thr ho, hpc]; exact List.mem_cons_self ..
    have hU' : ∀ q, q ∈ todo ↔ q ∈ unprocessed s ∧ q ≠ (k', e') := by
      intro q
      rw [mem_unprocessed_of_own hR.thr ho, hpc]
      exact hb.mem_tail_iff q
    obtain ⟨hby, hgs, _, habs⟩ := expunge_all hG hR.thr ho hm hnil hU'
    refine R_own_tau hR ht hlin ho (setP_mu _ _ _) ?_ habs ?_ hby ?_
    · rw [unprocPc_dirtyNext]
      exact hgs
    · rw [T_dirtyNext_iff]
      exact ⟨NewTail_of_eq hNT (setP_mu _ _ _) (setP_readM _ _ _) (setP_amended _ _ _), hds,
        expunge_building hG hb⟩
    · intro e he; rw [unlinkedPc_dirtyNext] at he; cases he

/-! ### `readStore`: `m.read.Store(readOnly{m: read.m, amended: true}); m.dirty[key] = newEntry(value); Unlock` —
the linearization step of a Store / LoadOrStore of a new key -/

theorem stepOK_readStore {c : NewCtx} {k : K} {v : V} {rm : List (K × EId)}
    (hR : R s a) (ht : t < s.pcs.length) (hpc : s.pc t = .readStore c k v rm) : StepOK menu s a t := by
  have hT := hR.thr t
  rw [hpc] at hT
  simp only [T] at hT
  obtain ⟨⟨hpend, ho, hrm, ha, hrk⟩, hds⟩ := hT
  subst hrm
  have hlin : isLin s.sh (s.pc t) (a.pcs t) = true := by rw [hpc]; rfl
  apply stepOK_of_internal hR ht (by rw [hpc]; simp) (by rw [hpc]; simp) _ (pickOK_of_nil (by rw [hpc]; rfl))
  intro sh' pc' hex
  rw [hpc] at hex
  simp only [exec, Option.some.injEq] at hex
  have h1 : (finishNew { s.sh with readM := s.sh.readM, amended := true } c k v).1 = sh' := by rw [hex]
  have h2 : Pc.ret (newRes c v) = pc' := by
    rw [← finishNew_snd { s.sh with readM := s.sh.readM, amended := true } c k v, hex]
  rw [← h1, ← h2]
  -- the abstract goroutine is pending with the operation of the call
  obtain ⟨seen, hp⟩ : ∃ seen, a.pcs t = .pending (newOp c k v) seen := by
    cases hq : a.pcs t with
    | idle => rw [hq] at hpend; exact hpend.elim
    | done op' r' => rw [hq] at hpend; exact hpend.elim
    | pending op' seen =>
      rw [hq] at hpend
      have : op' = newOp c k v := hpend
      subst this
      exact ⟨seen, rfl⟩
  -- the key is absent from the abstract map
  have hobjk : a.obj k = none := by rw [hR.abs k, absOf_of_not_amended hrk ha]
  have happ : applyOp a.obj (newOp c k v) = [(put a.obj k v, newRes c v)] := by
    cases c with
    | store => rfl
    | los => exact applyOp_loadOrStore_none v hobjk
  have hobj := witness_obj_lin s t a hlin hp happ
  have hself := witness_pcs_lin_self s t a hlin hp happ
  have hother : ∀ u, u ≠ t → (witness s t none a).pcs u = observePc (put a.obj k v) (a.pcs u) :=
    fun u hu => witness_pcs_lin_other s t a hlin hp happ hu
  have hG : GS s.sh (unprocessed s) := ((G_iff s a.pcs).mp hR.g).1
  apply R_of_parts
  · rw [G_iff]
    refine ⟨?_, ?_, ?_⟩
    · simp only [setPc_sh]
      refine (GS_finishNew_readStore hG hds ha hrk c v).congr (fun p => ?_)
      rw [mem_unprocessed_setPc_of_own hR.thr ho ht, unprocessed_eq_nil_of_own hR.thr ho (by rw [hpc]; rfl)]
      exact Iff.rfl
    · intro u hu
      simp only [setPc_sh] at hu
      rw [finishNew_fst, unlock_mu] at hu
      cases hu
    · apply hR.g.unlinked_setPc
      · intro u hu
        rw [hother u hu, unlinkedPc_observePc]
      · intro e he
        rw [unlinkedPc_ret] at he
        cases he
  · intro k2
    simp only [setPc_sh]
    rw [hobj, absOf_finishNew_readStore hG hds ha hrk c v k2, put_apply, hR.abs k2]
  · intro u
    simp only [setPc_sh]
    by_cases hut : u = t
    · subst hut
      rw [pc_setPc_self ht, hself, T_ret_iff (newRes_ne_pairs c v)]
      refine ⟨rfl, ?_⟩
      rw [finishNew_fst]
      exact Own_unlock _ _
    · rw [pc_setPc_ne hut, hother u hut]
      exact T_mono (bystanders_finishNew_readStore hG hR.thr ho hds ha hrk c v u hut) (SeenLe_observePc _ _)
  · exact obs_witness s t none a

end TypVerif.Lemmas.Smc
