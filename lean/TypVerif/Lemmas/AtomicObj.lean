import TypVerif.Model.AtomicObj
/-
Linearizability of the generic atomic-object system, for every execution (all schedules, any number of
goroutines, any operations).
-/
namespace TypVerif.Lemmas.AtomicObj
open TypVerif TypVerif.Conc TypVerif.Model.AtomicObj

variable {σ Op Res : Type}

theorem pc_mk (s : State σ Op Res) (t t' : Nat) (p : TPc Op Res) (ht : t < s.pcs.length) (o : σ) l :
    State.pc ⟨s.pcs.set t p, o, l⟩ t' = if t' = t then p else s.pc t' := by
  unfold State.pc
  simp only [List.getD_eq_getElem?_getD, List.getElem?_set]
  by_cases h : t' = t
  · subst h; simp [ht]
  · have h' : ¬ t = t' := fun e => h e.symm
    simp [h, h']

theorem mem_succ {apply : σ → Op → List (σ × Res)} {menu : List Op} {s : State σ Op Res}
    {p : Option (Event Op Res) × State σ Op Res} :
    p ∈ succ apply menu s ↔ ∃ t, t < s.pcs.length ∧ p ∈ stepT apply menu s t := by
  unfold succ
  simp [List.mem_flatMap, List.mem_range]

/-- the shape of a step: which goroutine, which log entry -/
theorem step_shape {apply : σ → Op → List (σ × Res)} {menu : List Op} {s s' : State σ Op Res}
    {l : Option (Event Op Res)} (h : (l, s') ∈ succ apply menu s) :
    ∃ t, t < s.pcs.length ∧
      ((∃ op, s.pc t = .idle ∧ l = some (.inv t op) ∧ op ∈ menu ∧
          s' = ⟨s.pcs.set t (.pending op), s.obj, .inv t op :: s.log⟩) ∨
       (∃ op o r, s.pc t = .pending op ∧ l = none ∧ (o, r) ∈ apply s.obj op ∧
          s' = ⟨s.pcs.set t (.done op r), o, .lin t op r :: s.log⟩) ∨
       (∃ op r, s.pc t = .done op r ∧ l = some (.res t r) ∧
          s' = ⟨s.pcs.set t .idle, s.obj, .res t r :: s.log⟩)) := by
  obtain ⟨t, ht, hstep⟩ := mem_succ.mp h
  refine ⟨t, ht, ?_⟩
  unfold stepT at hstep
  split at hstep
  · left
    obtain ⟨op, hop, heq⟩ := List.mem_map.mp hstep
    injection heq with h1 h2
    exact ⟨op, by assumption, h1.symm, hop, h2.symm⟩
  · right; left
    obtain ⟨p, hp, heq⟩ := List.mem_map.mp hstep
    injection heq with h1 h2
    exact ⟨_, p.1, p.2, by assumption, h1.symm, hp, h2.symm⟩
  · right; right
    simp only [List.mem_singleton] at hstep
    injection hstep with h1 h2
    exact ⟨_, _, by assumption, h1, h2⟩

theorem linsOf_inv (t : Nat) (op : Op) (log : List (Entry Op Res)) :
    linsOf (Entry.inv t op :: log) = linsOf log := rfl
theorem linsOf_res (t : Nat) (r : Res) (log : List (Entry Op Res)) :
    linsOf (Entry.res t r :: log) = linsOf log := rfl
theorem linsOf_lin (t : Nat) (op : Op) (r : Res) (log : List (Entry Op Res)) :
    linsOf (Entry.lin t op r :: log) = (op, r) :: linsOf log := rfl
theorem histOf_inv (t : Nat) (op : Op) (log : List (Entry Op Res)) :
    histOf (Entry.inv t op :: log) = histOf log ++ [Event.inv t op] := by
  show (Event.inv t op :: log.filterMap Entry.event?).reverse = _
  simp [histOf]
theorem histOf_res (t : Nat) (r : Res) (log : List (Entry Op Res)) :
    histOf (Entry.res t r :: log) = histOf log ++ [Event.res t r] := by
  show (Event.res t r :: log.filterMap Entry.event?).reverse = _
  simp [histOf]
theorem histOf_lin (t : Nat) (op : Op) (r : Res) (log : List (Entry Op Res)) :
    histOf (Entry.lin t op r :: log) = histOf log := rfl

/-- the ghost log records exactly the visible events -/
theorem hist_step {apply : σ → Op → List (σ × Res)} {menu : List Op} {s s' : State σ Op Res}
    {l : Option (Event Op Res)} (h : (l, s') ∈ succ apply menu s) :
    histOf s'.log = histOf s.log ++ (match l with | some e => [e] | none => []) := by
  obtain ⟨t, _, hcase⟩ := step_shape h
  rcases hcase with ⟨op, _, rfl, _, rfl⟩ | ⟨op, o, r, _, rfl, _, rfl⟩ | ⟨op, r, _, rfl, rfl⟩
  · exact histOf_inv _ _ _
  · simpa using histOf_lin t op r s.log
  · exact histOf_res _ _ _

theorem hist_exec (S : Spec) (menu : List S.Op) (n : Nat) {ls : List (Option (Event S.Op S.Res))}
    {s s' : (sys S menu n).State} (he : Exec (sys S menu n) s ls s') :
    histOf s'.log = histOf s.log ++ visible ls := by
  induction he with
  | nil s => simp [visible]
  | @cons s s1 s2 l ls hmem _ ih =>
    rw [ih, hist_step hmem]
    cases l <;> simp [visible]

theorem reachable_exec {sys : Sys} {s s' : sys.State} {ls : List (Option sys.Event)}
    (hr : Reachable sys s) (he : Exec sys s ls s') : Reachable sys s' := by
  induction he with
  | nil s => exact hr
  | cons hmem _ ih => exact ih (Reachable.step hr hmem)

variable [DecidableEq Op] [DecidableEq Res]

structure Good (S : Spec) [DecidableEq S.Op] [DecidableEq S.Res] (s : State S.σ S.Op S.Res) : Prop where
  seq : SeqRun S (linsOf s.log) s.obj
  thread : ∀ t, runThread t s.log = some (s.pc t)

theorem good_init (S : Spec) [DecidableEq S.Op] [DecidableEq S.Res] (n : Nat) : Good S (init S n) := by
  refine ⟨SeqRun.nil, ?_⟩
  intro t
  have : (init S n).pc t = .idle := by
    unfold State.pc init
    simp only [List.getD_eq_getElem?_getD, List.getElem?_replicate]
    split <;> rfl
  rw [this]; rfl

theorem runThread_cons_other (t : Nat) (e : Entry Op Res) (log : List (Entry Op Res)) (p : TPc Op Res)
    (h : runThread t log = some p) (hne : e.tid ≠ t) : runThread t (e :: log) = some p := by
  simp [runThread, h, hne]

theorem runThread_cons_self (t : Nat) (e : Entry Op Res) (log : List (Entry Op Res)) (p : TPc Op Res)
    (h : runThread t log = some p) (he : e.tid = t) : runThread t (e :: log) = advance p e := by
  simp [runThread, h, he]

theorem good_step (S : Spec) [DecidableEq S.Op] [DecidableEq S.Res] (menu : List S.Op)
    (s : State S.σ S.Op S.Res) (l : Option (Event S.Op S.Res)) (s' : State S.σ S.Op S.Res)
    (hg : Good S s) (hmem : (l, s') ∈ succ S.apply menu s) : Good S s' := by
  obtain ⟨t, ht, hcase⟩ := step_shape hmem
  have hthr : ∀ (e : Entry S.Op S.Res) (p : TPc S.Op S.Res) (o : S.σ), e.tid = t →
      advance (s.pc t) e = some p →
      ∀ t', runThread t' (e :: s.log) = some (State.pc ⟨s.pcs.set t p, o, e :: s.log⟩ t') := by
    intro e p o he hadv t'
    rw [pc_mk _ _ _ _ ht]
    by_cases h : t' = t
    · subst h
      rw [runThread_cons_self _ _ _ _ (hg.thread t') he, hadv]; simp
    · have hne : e.tid ≠ t' := by rw [he]; exact fun x => h x.symm
      rw [runThread_cons_other _ _ _ _ (hg.thread t') hne]; simp [h]
  rcases hcase with ⟨op, hpc, _, _, rfl⟩ | ⟨op, o, r, hpc, _, happ, rfl⟩ | ⟨op, r, hpc, _, rfl⟩
  · exact ⟨hg.seq, hthr _ _ _ rfl (by rw [hpc]; rfl)⟩
  · refine ⟨?_, hthr _ _ _ rfl (by rw [hpc]; simp [advance])⟩
    exact SeqRun.cons hg.seq happ
  · exact ⟨hg.seq, hthr _ _ _ rfl (by rw [hpc]; simp [advance])⟩

theorem good_reachable (S : Spec) [DecidableEq S.Op] [DecidableEq S.Res] (menu : List S.Op) (n : Nat) :
    ∀ s, Reachable (sys S menu n) s → Good S s :=
  Conc.invariant (sys S menu n) (Good S) (good_init S n) (fun s l s' h hm => good_step S menu s l s' h hm)

/-- **Linearizability**: the visible history of every execution of the atomic-object system (any number of
goroutines, any schedule, any operations) is linearizable with respect to the sequential specification;
the witness is the order of the linearization steps. -/
theorem linearizable (S : Spec) [DecidableEq S.Op] [DecidableEq S.Res] (menu : List S.Op) (n : Nat)
    {ls : List (Option (Event S.Op S.Res))} {s : (sys S menu n).State}
    (he : Exec (sys S menu n) (sys S menu n).init ls s) : Linearizable S (visible ls) := by
  have hr : Reachable (sys S menu n) s := reachable_exec Reachable.init he
  have hg := good_reachable S menu n s hr
  refine ⟨s.log, ?_, ⟨s.obj, hg.seq⟩, ?_⟩
  · have := hist_exec S menu n he
    simpa [init, histOf] using this
  · intro t; rw [hg.thread t]; rfl

/-! ### what the thread protocol means: the point lies inside the interval -/

theorem runThread_append_isSome (t : Nat) (a b : List (Entry Op Res))
    (h : (runThread t (a ++ b)).isSome = true) : (runThread t b).isSome = true := by
  induction a with
  | nil => simpa using h
  | cons e a ih =>
    apply ih
    simp only [List.cons_append, runThread] at h
    cases hx : runThread t (a ++ b) with
    | none => rw [hx] at h; simp at h
    | some p => rfl

theorem runThread_skip (t : Nat) (a b : List (Entry Op Res)) (hno : ∀ x ∈ a, x.tid ≠ t) :
    runThread t (a ++ b) = runThread t b := by
  induction a with
  | nil => rfl
  | cons e a ih =>
    have h1 : e.tid ≠ t := hno e (by simp)
    have h2 := ih (fun x hx => hno x (by simp [hx]))
    simp only [List.cons_append, runThread, h2]
    cases runThread t b with
    | none => rfl
    | some p => simp [h1]

/-- In a well-formed log a linearization point `lin t op r` lies after the invocation `inv t op` that is still
unanswered at that point, and the next entry of goroutine `t`, if any, is the response `res t r` carrying the
same result.  (Hence if `res` of A precedes `inv` of B in the history, A's point precedes B's.) -/
theorem lin_in_interval (t : Nat) (op : Op) (r : Res) (pre post : List (Entry Op Res))
    (h : (runThread t (post ++ Entry.lin t op r :: pre)).isSome = true) :
    runThread t pre = some (.pending op) ∧
    ∀ post1 e post2, post = post2 ++ e :: post1 → e.tid = t → (∀ x ∈ post1, x.tid ≠ t) → e = Entry.res t r := by
  have h0 := runThread_append_isSome t post _ h
  have hpre : runThread t pre = some (.pending op) := by
    simp only [runThread] at h0
    cases hx : runThread t pre with
    | none => rw [hx] at h0; simp at h0
    | some p =>
      rw [hx] at h0
      simp only [Entry.tid, if_true] at h0
      cases p with
      | idle => simp [advance] at h0
      | done _ _ => simp [advance] at h0
      | pending op' =>
        simp only [advance] at h0
        by_cases e : op' = op
        · rw [e]
        · simp [e] at h0
  refine ⟨hpre, ?_⟩
  intro post1 e post2 hp he hno
  subst hp
  have h1 : (runThread t (e :: (post1 ++ Entry.lin t op r :: pre))).isSome = true := by
    apply runThread_append_isSome t post2
    simpa using h
  have h2 : runThread t (post1 ++ Entry.lin t op r :: pre) = some (.done op r) := by
    rw [runThread_skip t post1 _ hno]
    simp [runThread, hpre, Entry.tid, advance]
  simp only [runThread, h2, he, if_true] at h1
  cases e with
  | inv _ _ => simp [advance] at h1
  | lin _ _ _ => simp [advance] at h1
  | res t' r' =>
    simp only [Entry.tid] at he
    subst he
    simp only [advance] at h1
    by_cases e : r = r'
    · rw [e]
    · simp [e] at h1

end TypVerif.Lemmas.AtomicObj
