import TypVerif.Lemmas.PubSubRedLag
import TypVerif.Lemmas.PubSubLogDefs
/-
C10, completeness of the judge's reduction: the invariant `Good` holds in every reachable state of the PubSub system for EVERY
configuration (clones allowed).  `Good` is not inductive; it follows from the inductive invariant `GInv`:
* the holders of the read lock of `o` are at most `readers(o)`, the writers inside `Lock()` of `o` at most `waiting(o)`;
* every object a task refers to (`refOf`; for a `woStart w via c` that is `via`) exists and is `ready`;
* the `woStart w` tasks are at most one, and then `w` exists and is NOT `ready` (and none otherwise);
* object 0 exists and is `ready` (`Sub` is always invoked on object 0).
`GInv` only looks at `tasks` and `objs`.
-/
set_option linter.unusedSectionVars false
set_option linter.unusedVariables false
namespace TypVerif.Lemmas.PubSubRed
open TypVerif TypVerif.Conc TypVerif.Model.PubSub TypVerif.Drv.C10

/-- the object a task works on (for a `woStart w via c`: the object `via` it copies from, not the clone `w` it constructs) -/
def refOf : Task → Option Nat
  | .pubStart _ o _ _ => some o
  | .syncLoop _ o _ _ => some o
  | .waitWg _ o _ => some o
  | .asyncStart o _ => some o
  | .asyncSend o _ _ => some o
  | .wgSend o _ _ _ => some o
  | .subStart o _ _ => some o
  | .subWait o _ _ => some o
  | .unsubStart _ o _ => some o
  | .unsubWait _ o _ => some o
  | .uaStart _ o => some o
  | .uaWait _ o => some o
  | .woStart _ o _ => some o
  | _ => none

/-- the clone a `woStart` task is constructing -/
def woOf : Task → Option Nat
  | .woStart w _ _ => some w
  | _ => none

/-- the inductive invariant behind `Good` -/
structure GInv (x : State) : Prop where
  z : 0 < x.objs.length ∧ (x.obj 0).ready = true
  rdc : ∀ o, x.tasks.countP (fun t => readsOn t == some o) ≤ (x.obj o).rw.readers
  wtc : ∀ o, x.tasks.countP (fun t => waitsOn t == some o) ≤ (x.obj o).rw.waiting
  ref : ∀ t ∈ x.tasks, ∀ o, refOf t = some o → o < x.objs.length ∧ (x.obj o).ready = true
  woc : ∀ w, x.tasks.countP (fun t => woOf t == some w) ≤ (if w < x.objs.length ∧ (x.obj w).ready = false then 1 else 0)

theorem readsOn_refOf {t : Task} {o : Nat} (h : readsOn t = some o) : refOf t = some o := by
  cases t <;> first | exact h | cases h

theorem waitsOn_refOf {t : Task} {o : Nat} (h : waitsOn t = some o) : refOf t = some o := by
  cases t <;> first | exact h | cases h

theorem lagObj_refOf {t : Task} {o : Nat} (h : lagObj t = some o) : refOf t = some o := by
  cases t with
  | asyncStart o' it => exact h
  | subStart o' c cap => exact h
  | unsubStart u o' c =>
    cases c with
    | none => cases h
    | some c => exact h
  | uaStart u o' => exact h
  | _ => cases h

theorem woOf_eq {t : Task} {w : Nat} (h : woOf t = some w) : ∃ o c, t = .woStart w o c := by
  cases t with
  | woStart w' o c => simp only [woOf, Option.some.injEq] at h; subst h; exact ⟨_, _, rfl⟩
  | _ => cases h

/-! ### `Good` from `GInv` -/

theorem good_of_ginv {x : State} (hG : GInv x) : Good x := by
  constructor
  · intro k tk o hk hr
    have hm : tk ∈ x.tasks := List.mem_of_getElem? hk
    have : 0 < x.tasks.countP (fun t => readsOn t == some o) :=
      List.countP_pos_iff.mpr ⟨tk, hm, by simp [hr]⟩
    exact Nat.lt_of_lt_of_le this (hG.rdc o)
  · intro k tk o hk hr
    have hm : tk ∈ x.tasks := List.mem_of_getElem? hk
    have : 0 < x.tasks.countP (fun t => waitsOn t == some o) :=
      List.countP_pos_iff.mpr ⟨tk, hm, by simp [hr]⟩
    exact Nat.lt_of_lt_of_le this (hG.wtc o)
  · intro k w o c g t hk hg hl
    have hm : Task.woStart w o c ∈ x.tasks := List.mem_of_getElem? hk
    have hpos : 0 < x.tasks.countP (fun t => woOf t == some w) :=
      List.countP_pos_iff.mpr ⟨_, hm, by simp [woOf]⟩
    have hle := hG.woc w
    have hw : w < x.objs.length ∧ (x.obj w).ready = false := by
      by_cases hc : w < x.objs.length ∧ (x.obj w).ready = false
      · exact hc
      · rw [if_neg hc] at hle; omega
    have := (hG.ref t (List.mem_of_getElem? hg) w (lagObj_refOf hl)).2
    rw [hw.2] at this; cases this
  · intro g t o hg hl
    exact (hG.ref t (List.mem_of_getElem? hg) o (lagObj_refOf hl)).1

theorem ginv_init : GInv ({} : State) := by
  constructor <;> simp [State.obj]

/-! ### list helpers -/

theorem countP_set_le {α} (p : α → Bool) (l : List α) (i : Nat) (t t' : α) (hi : l[i]? = some t)
    (h : p t' = true → p t = true) : (l.set i t').countP p ≤ l.countP p := by
  have h1 := PubSubSafe.countP_set_eq p l i t t' hi
  by_cases h2 : p t' = true
  · rw [if_pos h2, if_pos (h h2)] at h1; omega
  · rw [if_neg h2] at h1
    split at h1 <;> omega

theorem countP_zero_of {α} (p : α → Bool) (l : List α) (h : ∀ a ∈ l, p a = false) : l.countP p = 0 := by
  rw [List.countP_eq_zero]
  intro a ha
  simp [h a ha]

theorem ite_some_le {a b : Option Nat} {o : Nat} (h : a = some o → b = some o) :
    (if (a == some o) = true then 1 else 0) ≤ (if (b == some o) = true then 1 else 0) := by
  by_cases ha : a = some o
  · simp [ha, h ha]
  · simp [ha]

theorem beq_some_imp {a b : Option Nat} {o : Nat} (h : a = some o → b = some o) :
    (a == some o) = true → (b == some o) = true := by
  intro h1
  have : a = some o := by simpa using h1
  simp [h this]

/-! ### states that agree on `tasks` and `objs` -/

theorem ginv_congr {s s' : State} (hG : GInv s) (ht : s'.tasks = s.tasks) (ho : s'.objs = s.objs) : GInv s' := by
  have hobj : ∀ o, s'.obj o = s.obj o := fun o => by simp only [State.obj, ho]
  refine ⟨?_, ?_, ?_, ?_, ?_⟩
  · rw [ho, hobj]; exact hG.z
  · intro o; rw [ht, hobj]; exact hG.rdc o
  · intro o; rw [ht, hobj]; exact hG.wtc o
  · intro t hm o h; rw [ho, hobj]; exact hG.ref t (ht ▸ hm) o h
  · intro w; rw [ht, ho, hobj]; exact hG.woc w

/-! ### the generic task step -/

/-- task `i` goes from `t` to `t'` and spawns `new`; the objects keep their number and `ready`; the counters follow the task -/
theorem ginv_task {s s' : State} {i : Nat} {t t' : Task} {new : List Task} (hG : GInv s) (hi : s.tasks[i]? = some t)
    (htasks : s'.tasks = s.tasks.set i t' ++ new)
    (hlen : s'.objs.length = s.objs.length)
    (hready : ∀ o, (s'.obj o).ready = (s.obj o).ready)
    (hrd : ∀ o, (s.obj o).rw.readers + (if (readsOn t' == some o) = true then 1 else 0)
        ≤ (s'.obj o).rw.readers + (if (readsOn t == some o) = true then 1 else 0))
    (hwt : ∀ o, (s.obj o).rw.waiting + (if (waitsOn t' == some o) = true then 1 else 0)
        ≤ (s'.obj o).rw.waiting + (if (waitsOn t == some o) = true then 1 else 0))
    (href : ∀ o, refOf t' = some o → refOf t = some o)
    (hwo : ∀ w, woOf t' = some w → woOf t = some w)
    (hnew : ∀ n ∈ new, readsOn n = none ∧ waitsOn n = none ∧ woOf n = none ∧ ∀ o, refOf n = some o → refOf t = some o) :
    GInv s' := by
  have hm : t ∈ s.tasks := List.mem_of_getElem? hi
  refine ⟨?_, ?_, ?_, ?_, ?_⟩
  · rw [hlen, hready]; exact hG.z
  · intro o
    rw [htasks, List.countP_append]
    have h0 : new.countP (fun t => readsOn t == some o) = 0 :=
      countP_zero_of _ _ (fun n hn => by simp [(hnew n hn).1])
    have h1 := PubSubSafe.countP_set_eq (fun t => readsOn t == some o) s.tasks i t t' hi
    have h2 := hG.rdc o
    have h3 := hrd o
    omega
  · intro o
    rw [htasks, List.countP_append]
    have h0 : new.countP (fun t => waitsOn t == some o) = 0 :=
      countP_zero_of _ _ (fun n hn => by simp [(hnew n hn).2.1])
    have h1 := PubSubSafe.countP_set_eq (fun t => waitsOn t == some o) s.tasks i t t' hi
    have h2 := hG.wtc o
    have h3 := hwt o
    omega
  · intro t'' hm'' o ho
    rw [hlen, hready]
    rw [htasks] at hm''
    rcases List.mem_append.1 hm'' with h | h
    · rcases List.mem_or_eq_of_mem_set h with h1 | h1
      · exact hG.ref t'' h1 o ho
      · subst h1; exact hG.ref t hm o (href o ho)
    · exact hG.ref t hm o ((hnew t'' h).2.2.2 o ho)
  · intro w
    rw [htasks, List.countP_append, hlen, hready]
    have h0 : new.countP (fun t => woOf t == some w) = 0 :=
      countP_zero_of _ _ (fun n hn => by simp [(hnew n hn).2.2.1])
    have h1 := countP_set_le (fun t => woOf t == some w) s.tasks i t t' hi (beq_some_imp (hwo w))
    have h2 := hG.woc w
    omega


/-! ### task steps by their effect on the objects -/

theorem obj_of_objs_set {s s' : State} {o : Nat} {A : ObjSt} (hobjs : s'.objs = s.objs.set o A) (o' : Nat) :
    s'.obj o' = if o = o' ∧ o < s.objs.length then A else s.obj o' := by
  have : s'.obj o' = (s.setObj o A).obj o' := by simp only [State.obj, State.setObj, hobjs]
  rw [this, obj_setObj]

/-- the step rewrites object `o`, the object of the task, keeping `ready` -/
theorem ginv_setObj {s s' : State} {i : Nat} {t t' : Task} {new : List Task} {o : Nat} {A : ObjSt}
    (hG : GInv s) (hi : s.tasks[i]? = some t)
    (htasks : s'.tasks = s.tasks.set i t' ++ new) (hobjs : s'.objs = s.objs.set o A)
    (ho : refOf t = some o) (hA : A.ready = (s.obj o).ready)
    (hrd : (s.obj o).rw.readers + (if (readsOn t' == some o) = true then 1 else 0)
        ≤ A.rw.readers + (if (readsOn t == some o) = true then 1 else 0))
    (hrdo : ∀ o', o' ≠ o → readsOn t' = some o' → readsOn t = some o')
    (hwt : (s.obj o).rw.waiting + (if (waitsOn t' == some o) = true then 1 else 0)
        ≤ A.rw.waiting + (if (waitsOn t == some o) = true then 1 else 0))
    (hwto : ∀ o', o' ≠ o → waitsOn t' = some o' → waitsOn t = some o')
    (href : ∀ o, refOf t' = some o → refOf t = some o)
    (hwo : ∀ w, woOf t' = some w → woOf t = some w)
    (hnew : ∀ n ∈ new, readsOn n = none ∧ waitsOn n = none ∧ woOf n = none ∧ ∀ o, refOf n = some o → refOf t = some o) :
    GInv s' := by
  have hm : t ∈ s.tasks := List.mem_of_getElem? hi
  have hol : o < s.objs.length := (hG.ref t hm o ho).1
  have hobj := obj_of_objs_set hobjs
  have hself : s'.obj o = A := by rw [hobj, if_pos ⟨rfl, hol⟩]
  have hother : ∀ o', o ≠ o' → s'.obj o' = s.obj o' := fun o' h => by rw [hobj, if_neg (fun hh => h hh.1)]
  refine ginv_task hG hi htasks (by rw [hobjs, List.length_set]) ?_ ?_ ?_ href hwo hnew
  · intro o'
    by_cases h : o = o'
    · subst h; rw [hself]; exact hA
    · rw [hother o' h]
  · intro o'
    by_cases h : o = o'
    · subst h; rw [hself]; exact hrd
    · rw [hother o' h]
      exact Nat.add_le_add_left (ite_some_le (hrdo o' (Ne.symm h))) _
  · intro o'
    by_cases h : o = o'
    · subst h; rw [hself]; exact hwt
    · rw [hother o' h]
      exact Nat.add_le_add_left (ite_some_le (hwto o' (Ne.symm h))) _

/-- the step leaves the objects alone -/
theorem ginv_pure {s s' : State} {i : Nat} {t t' : Task} {new : List Task} (hG : GInv s) (hi : s.tasks[i]? = some t)
    (htasks : s'.tasks = s.tasks.set i t' ++ new) (hobjs : s'.objs = s.objs)
    (hr : ∀ o, readsOn t' = some o → readsOn t = some o)
    (hw : ∀ o, waitsOn t' = some o → waitsOn t = some o)
    (href : ∀ o, refOf t' = some o → refOf t = some o)
    (hwo : ∀ w, woOf t' = some w → woOf t = some w)
    (hnew : ∀ n ∈ new, readsOn n = none ∧ waitsOn n = none ∧ woOf n = none ∧ ∀ o, refOf n = some o → refOf t = some o) :
    GInv s' := by
  have hobj : ∀ o, s'.obj o = s.obj o := fun o => by simp only [State.obj, hobjs]
  refine ginv_task hG hi htasks (by rw [hobjs]) (fun o => by rw [hobj]) ?_ ?_ href hwo hnew
  · intro o; rw [hobj]; exact Nat.add_le_add_left (ite_some_le (hr o)) _
  · intro o; rw [hobj]; exact Nat.add_le_add_left (ite_some_le (hw o)) _

/-- the step takes the read lock of the object of the task -/
theorem ginv_rlock {s s' : State} {i : Nat} {t t' : Task} {new : List Task} {o : Nat} {A : ObjSt}
    (hG : GInv s) (hi : s.tasks[i]? = some t)
    (htasks : s'.tasks = s.tasks.set i t' ++ new) (hobjs : s'.objs = s.objs.set o A)
    (ho : refOf t = some o) (hA : A.ready = (s.obj o).ready) (hrw : A.rw = (s.obj o).rw.rlock)
    (hr : ∀ o', readsOn t' = some o' → o = o')
    (hw : ∀ o, waitsOn t' = some o → waitsOn t = some o)
    (href : ∀ o, refOf t' = some o → refOf t = some o)
    (hwo : ∀ w, woOf t' = some w → woOf t = some w)
    (hnew : ∀ n ∈ new, readsOn n = none ∧ waitsOn n = none ∧ woOf n = none ∧ ∀ o, refOf n = some o → refOf t = some o) :
    GInv s' := by
  refine ginv_setObj hG hi htasks hobjs ho hA ?_ ?_ ?_ (fun o' _ => hw o') href hwo hnew
  · rw [hrw]; simp only [RW.rlock]; split <;> split <;> omega
  · intro o' hne h; exact (hne (hr o' h).symm).elim
  · rw [hrw]; simp only [RW.rlock]; exact Nat.add_le_add_left (ite_some_le (hw o)) _

/-- the step releases the read lock the task holds -/
theorem ginv_runlock {s s' : State} {i : Nat} {t t' : Task} {new : List Task} {o : Nat} {A : ObjSt}
    (hG : GInv s) (hi : s.tasks[i]? = some t)
    (htasks : s'.tasks = s.tasks.set i t' ++ new) (hobjs : s'.objs = s.objs.set o A)
    (ht : readsOn t = some o) (hA : A.ready = (s.obj o).ready) (hrw : A.rw = (s.obj o).rw.runlock)
    (hr : readsOn t' = none)
    (hw : ∀ o, waitsOn t' = some o → waitsOn t = some o)
    (href : ∀ o, refOf t' = some o → refOf t = some o)
    (hwo : ∀ w, woOf t' = some w → woOf t = some w)
    (hnew : ∀ n ∈ new, readsOn n = none ∧ waitsOn n = none ∧ woOf n = none ∧ ∀ o, refOf n = some o → refOf t = some o) :
    GInv s' := by
  refine ginv_setObj hG hi htasks hobjs (readsOn_refOf ht) hA ?_ ?_ ?_ (fun o' _ => hw o') href hwo hnew
  · have e1 : (readsOn t' == some o) = false := by rw [hr]; rfl
    have e2 : (readsOn t == some o) = true := by rw [ht]; simp
    simp only [hrw, e1, e2, Bool.false_eq_true, if_false, if_true, RW.runlock]
    omega
  · intro o' _ h; rw [hr] at h; cases h
  · rw [hrw]; simp only [RW.runlock]; exact Nat.add_le_add_left (ite_some_le (hw o)) _

/-- the step announces a writer on the object of the task -/
theorem ginv_announce {s s' : State} {i : Nat} {t t' : Task} {new : List Task} {o : Nat} {A : ObjSt}
    (hG : GInv s) (hi : s.tasks[i]? = some t)
    (htasks : s'.tasks = s.tasks.set i t' ++ new) (hobjs : s'.objs = s.objs.set o A)
    (ho : refOf t = some o) (hA : A.ready = (s.obj o).ready) (hrw : A.rw = (s.obj o).rw.announce)
    (hr : ∀ o, readsOn t' = some o → readsOn t = some o)
    (hw : ∀ o', waitsOn t' = some o' → o = o')
    (href : ∀ o, refOf t' = some o → refOf t = some o)
    (hwo : ∀ w, woOf t' = some w → woOf t = some w)
    (hnew : ∀ n ∈ new, readsOn n = none ∧ waitsOn n = none ∧ woOf n = none ∧ ∀ o, refOf n = some o → refOf t = some o) :
    GInv s' := by
  refine ginv_setObj hG hi htasks hobjs ho hA ?_ (fun o' _ => hr o') ?_ ?_ href hwo hnew
  · rw [hrw]; simp only [RW.announce]; exact Nat.add_le_add_left (ite_some_le (hr o)) _
  · rw [hrw]; simp only [RW.announce]; split <;> split <;> omega
  · intro o' hne h; exact (hne (hw o' h).symm).elim

/-- the writer gets the lock, does its critical section and unlocks -/
theorem ginv_lockUnlock {s s' : State} {i : Nat} {t t' : Task} {new : List Task} {o : Nat} {A : ObjSt}
    (hG : GInv s) (hi : s.tasks[i]? = some t)
    (htasks : s'.tasks = s.tasks.set i t' ++ new) (hobjs : s'.objs = s.objs.set o A)
    (ht : waitsOn t = some o) (hA : A.ready = (s.obj o).ready) (hrw : A.rw = (s.obj o).rw.lockUnlock)
    (hr : ∀ o, readsOn t' = some o → readsOn t = some o)
    (hw : waitsOn t' = none)
    (href : ∀ o, refOf t' = some o → refOf t = some o)
    (hwo : ∀ w, woOf t' = some w → woOf t = some w)
    (hnew : ∀ n ∈ new, readsOn n = none ∧ waitsOn n = none ∧ woOf n = none ∧ ∀ o, refOf n = some o → refOf t = some o) :
    GInv s' := by
  refine ginv_setObj hG hi htasks hobjs (waitsOn_refOf ht) hA ?_ (fun o' _ => hr o') ?_ ?_ href hwo hnew
  · rw [hrw]; simp only [RW.lockUnlock]; exact Nat.add_le_add_left (ite_some_le (hr o)) _
  · have e1 : (waitsOn t' == some o) = false := by rw [hw]; rfl
    have e2 : (waitsOn t == some o) = true := by rw [ht]; simp
    simp only [hrw, e1, e2, Bool.false_eq_true, if_false, if_true, RW.lockUnlock]
    omega
  · intro o' _ h; rw [hw] at h; cases h

/-! ### the construction of a clone -/

theorem ginv_wo {s s' : State} {i w o : Nat} {c : Chan} {A : ObjSt} (hG : GInv s) (hi : s.tasks[i]? = some (.woStart w o c))
    (htasks : s'.tasks = s.tasks.set i .done) (hobjs : s'.objs = s.objs.set w A) (hA : A.ready = true) : GInv s' := by
  have hm : Task.woStart w o c ∈ s.tasks := List.mem_of_getElem? hi
  have hobj := obj_of_objs_set hobjs
  have hlen : s'.objs.length = s.objs.length := by rw [hobjs, List.length_set]
  -- `w` exists and is not ready
  have hset := PubSubSafe.countP_set_eq (fun t => woOf t == some w) s.tasks i _ Task.done hi
  have hw : w < s.objs.length ∧ (s.obj w).ready = false := by
    have hle := hG.woc w
    by_cases hc : w < s.objs.length ∧ (s.obj w).ready = false
    · exact hc
    · rw [if_neg hc] at hle
      have : 0 < s.tasks.countP (fun t => woOf t == some w) := List.countP_pos_iff.mpr ⟨_, hm, by simp [woOf]⟩
      omega
  -- a ready object is not `w`
  have hne : ∀ o', (s.obj o').ready = true → w ≠ o' := by
    intro o' h e; subst e; rw [hw.2] at h; cases h
  -- no task refers to `w`
  have hnoref : ∀ t ∈ s.tasks, refOf t ≠ some w := by
    intro t ht h
    exact hne w (hG.ref t ht w h).2 rfl
  refine ⟨?_, ?_, ?_, ?_, ?_⟩
  · rw [hlen, hobj]
    refine ⟨hG.z.1, ?_⟩
    split
    · exact hA
    · exact hG.z.2
  · intro o'
    rw [htasks, hobj]
    have hle := countP_set_le (fun t => readsOn t == some o') s.tasks i _ Task.done hi (by simp [readsOn])
    by_cases h : w = o'
    · subst h
      have : s.tasks.countP (fun t => readsOn t == some w) = 0 :=
        countP_zero_of _ _ (fun t ht => by
          cases hr : readsOn t == some w with
          | false => rfl
          | true => exact (hnoref t ht (readsOn_refOf (by simpa using hr))).elim)
      omega
    · rw [if_neg (fun hh => h hh.1)]
      exact Nat.le_trans hle (hG.rdc o')
  · intro o'
    rw [htasks, hobj]
    have hle := countP_set_le (fun t => waitsOn t == some o') s.tasks i _ Task.done hi (by simp [waitsOn])
    by_cases h : w = o'
    · subst h
      have : s.tasks.countP (fun t => waitsOn t == some w) = 0 :=
        countP_zero_of _ _ (fun t ht => by
          cases hr : waitsOn t == some w with
          | false => rfl
          | true => exact (hnoref t ht (waitsOn_refOf (by simpa using hr))).elim)
      omega
    · rw [if_neg (fun hh => h hh.1)]
      exact Nat.le_trans hle (hG.wtc o')
  · intro t ht o' ho'
    rw [htasks] at ht
    have hold : o' < s.objs.length ∧ (s.obj o').ready = true := by
      rcases List.mem_or_eq_of_mem_set ht with h1 | h1
      · exact hG.ref t h1 o' ho'
      · subst h1; cases ho'
    rw [hlen, hobj, if_neg (fun hh => hne o' hold.2 hh.1)]
    exact hold
  · intro w'
    rw [htasks, hlen]
    by_cases h : w = w'
    · subst h
      have hle := hG.woc w
      rw [if_pos hw] at hle
      rw [if_pos (show (woOf (Task.woStart w o c) == some w) = true by simp [woOf]),
        if_neg (show ¬ (woOf Task.done == some w) = true by simp [woOf])] at hset
      omega
    · have : s'.obj w' = s.obj w' := by rw [hobj, if_neg (fun hh => h hh.1)]
      rw [this]
      exact Nat.le_trans (countP_set_le (fun t => woOf t == some w') s.tasks i _ Task.done hi (by simp [woOf])) (hG.woc w')

/-! ### invocations -/

/-- a new task on a valid object -/
theorem ginv_spawn {s s' : State} {t : Task} (hG : GInv s) (htasks : s'.tasks = s.tasks ++ [t]) (hobjs : s'.objs = s.objs)
    (hr : readsOn t = none) (hw : waitsOn t = none) (hwo : woOf t = none)
    (href : ∀ o, refOf t = some o → o < s.objs.length ∧ (s.obj o).ready = true) : GInv s' := by
  have hobj : ∀ o, s'.obj o = s.obj o := fun o => by simp only [State.obj, hobjs]
  refine ⟨?_, ?_, ?_, ?_, ?_⟩
  · rw [hobjs, hobj]; exact hG.z
  · intro o; rw [htasks, hobj, List.countP_append]
    have : [t].countP (fun t => readsOn t == some o) = 0 := by simp [hr]
    have := hG.rdc o
    omega
  · intro o; rw [htasks, hobj, List.countP_append]
    have : [t].countP (fun t => waitsOn t == some o) = 0 := by simp [hw]
    have := hG.wtc o
    omega
  · intro t' ht' o ho
    rw [hobjs, hobj]
    rw [htasks] at ht'
    rcases List.mem_append.1 ht' with h | h
    · exact hG.ref t' h o ho
    · rw [List.mem_singleton] at h; subst h; exact href o ho
  · intro w; rw [htasks, hobjs, hobj, List.countP_append]
    have : [t].countP (fun t => woOf t == some w) = 0 := by simp [hwo]
    have := hG.woc w
    omega

theorem obj_of_objs_append {s s' : State} {A : ObjSt} (hobjs : s'.objs = s.objs ++ [A]) (o : Nat) (h : o < s.objs.length) :
    s'.obj o = s.obj o := by
  simp only [State.obj, hobjs, List.getD_eq_getElem?_getD, List.getElem?_append_left h]

/-- `WithOnly` is invoked: a new object, not ready, and the task that will construct it -/
theorem ginv_withonly {s s' : State} {via : Nat} {c : Chan} {A : ObjSt} (hG : GInv s)
    (htasks : s'.tasks = s.tasks ++ [.woStart s.objs.length via c]) (hobjs : s'.objs = s.objs ++ [A])
    (hA : A.ready = false) (hvia : via < s.objs.length ∧ (s.obj via).ready = true) : GInv s' := by
  have hobj := obj_of_objs_append hobjs
  have hlen : s'.objs.length = s.objs.length + 1 := by rw [hobjs]; simp
  have hnew : s'.obj s.objs.length = A := by
    simp [State.obj, hobjs]
  refine ⟨?_, ?_, ?_, ?_, ?_⟩
  · rw [hlen, hobj 0 hG.z.1]; exact ⟨Nat.succ_pos _, hG.z.2⟩
  · intro o; rw [htasks, List.countP_append]
    have h0 : [Task.woStart s.objs.length via c].countP (fun t => readsOn t == some o) = 0 := by simp [readsOn]
    by_cases h : o < s.objs.length
    · rw [hobj o h]
      have := hG.rdc o
      omega
    · have : s.tasks.countP (fun t => readsOn t == some o) = 0 :=
        countP_zero_of _ _ (fun t ht => by
          cases hr : readsOn t == some o with
          | false => rfl
          | true => exact (h (hG.ref t ht o (readsOn_refOf (by simpa using hr))).1).elim)
      omega
  · intro o; rw [htasks, List.countP_append]
    have h0 : [Task.woStart s.objs.length via c].countP (fun t => waitsOn t == some o) = 0 := by simp [waitsOn]
    by_cases h : o < s.objs.length
    · rw [hobj o h]
      have := hG.wtc o
      omega
    · have : s.tasks.countP (fun t => waitsOn t == some o) = 0 :=
        countP_zero_of _ _ (fun t ht => by
          cases hr : waitsOn t == some o with
          | false => rfl
          | true => exact (h (hG.ref t ht o (waitsOn_refOf (by simpa using hr))).1).elim)
      omega
  · intro t ht o ho
    rw [htasks] at ht
    have hold : o < s.objs.length ∧ (s.obj o).ready = true := by
      rcases List.mem_append.1 ht with h | h
      · exact hG.ref t h o ho
      · rw [List.mem_singleton] at h; subst h
        simp only [refOf, Option.some.injEq] at ho; subst ho; exact hvia
    rw [hlen, hobj o hold.1]
    exact ⟨Nat.lt_succ_of_lt hold.1, hold.2⟩
  · intro w; rw [htasks, List.countP_append, hlen]
    have hle := hG.woc w
    by_cases h : w < s.objs.length
    · have h0 : [Task.woStart s.objs.length via c].countP (fun t => woOf t == some w) = 0 := by
        have : s.objs.length ≠ w := by omega
        simp [woOf, this]
      rw [hobj w h, h0]
      by_cases hc : (s.obj w).ready = false
      · rw [if_pos ⟨h, hc⟩] at hle; rw [if_pos ⟨Nat.lt_succ_of_lt h, hc⟩]; omega
      · rw [if_neg (fun hh => hc hh.2)] at hle; omega
    · rw [if_neg (fun hh => h hh.1)] at hle
      by_cases he : w = s.objs.length
      · subst he
        rw [hnew, if_pos ⟨Nat.lt_succ_self _, hA⟩]
        have h1 : [Task.woStart s.objs.length via c].countP (fun t => woOf t == some s.objs.length) = 1 := by simp [woOf]
        omega
      · have h0 : [Task.woStart s.objs.length via c].countP (fun t => woOf t == some w) = 0 := by
          have : s.objs.length ≠ w := fun e => he e.symm
          simp [woOf, this]
        omega


/-! ### the versions without spawned tasks -/

theorem nil_new (t : Task) :
    ∀ n ∈ ([] : List Task), readsOn n = none ∧ waitsOn n = none ∧ woOf n = none ∧ ∀ o, refOf n = some o → refOf t = some o :=
  fun _ h => by cases h

theorem ginv_pure0 {s s' : State} {i : Nat} {t t' : Task} (hG : GInv s) (hi : s.tasks[i]? = some t)
    (htasks : s'.tasks = s.tasks.set i t') (hobjs : s'.objs = s.objs)
    (hr : ∀ o, readsOn t' = some o → readsOn t = some o)
    (hw : ∀ o, waitsOn t' = some o → waitsOn t = some o)
    (href : ∀ o, refOf t' = some o → refOf t = some o)
    (hwo : ∀ w, woOf t' = some w → woOf t = some w) : GInv s' :=
  ginv_pure hG hi (new := []) (by rw [htasks, List.append_nil]) hobjs hr hw href hwo (nil_new t)

theorem ginv_rlock0 {s s' : State} {i : Nat} {t t' : Task} {o : Nat} {A : ObjSt}
    (hG : GInv s) (hi : s.tasks[i]? = some t)
    (htasks : s'.tasks = s.tasks.set i t') (hobjs : s'.objs = s.objs.set o A)
    (ho : refOf t = some o) (hA : A.ready = (s.obj o).ready) (hrw : A.rw = (s.obj o).rw.rlock)
    (hr : ∀ o', readsOn t' = some o' → o = o')
    (hw : ∀ o, waitsOn t' = some o → waitsOn t = some o)
    (href : ∀ o, refOf t' = some o → refOf t = some o)
    (hwo : ∀ w, woOf t' = some w → woOf t = some w) : GInv s' :=
  ginv_rlock hG hi (new := []) (by rw [htasks, List.append_nil]) hobjs ho hA hrw hr hw href hwo (nil_new t)

theorem ginv_runlock0 {s s' : State} {i : Nat} {t t' : Task} {o : Nat} {A : ObjSt}
    (hG : GInv s) (hi : s.tasks[i]? = some t)
    (htasks : s'.tasks = s.tasks.set i t') (hobjs : s'.objs = s.objs.set o A)
    (ht : readsOn t = some o) (hA : A.ready = (s.obj o).ready) (hrw : A.rw = (s.obj o).rw.runlock)
    (hr : readsOn t' = none)
    (hw : ∀ o, waitsOn t' = some o → waitsOn t = some o)
    (href : ∀ o, refOf t' = some o → refOf t = some o)
    (hwo : ∀ w, woOf t' = some w → woOf t = some w) : GInv s' :=
  ginv_runlock hG hi (new := []) (by rw [htasks, List.append_nil]) hobjs ht hA hrw hr hw href hwo (nil_new t)

theorem ginv_announce0 {s s' : State} {i : Nat} {t t' : Task} {o : Nat} {A : ObjSt}
    (hG : GInv s) (hi : s.tasks[i]? = some t)
    (htasks : s'.tasks = s.tasks.set i t') (hobjs : s'.objs = s.objs.set o A)
    (ho : refOf t = some o) (hA : A.ready = (s.obj o).ready) (hrw : A.rw = (s.obj o).rw.announce)
    (hr : ∀ o, readsOn t' = some o → readsOn t = some o)
    (hw : ∀ o', waitsOn t' = some o' → o = o')
    (href : ∀ o, refOf t' = some o → refOf t = some o)
    (hwo : ∀ w, woOf t' = some w → woOf t = some w) : GInv s' :=
  ginv_announce hG hi (new := []) (by rw [htasks, List.append_nil]) hobjs ho hA hrw hr hw href hwo (nil_new t)

theorem ginv_lockUnlock0 {s s' : State} {i : Nat} {t t' : Task} {o : Nat} {A : ObjSt}
    (hG : GInv s) (hi : s.tasks[i]? = some t)
    (htasks : s'.tasks = s.tasks.set i t') (hobjs : s'.objs = s.objs.set o A)
    (ht : waitsOn t = some o) (hA : A.ready = (s.obj o).ready) (hrw : A.rw = (s.obj o).rw.lockUnlock)
    (hr : ∀ o, readsOn t' = some o → readsOn t = some o)
    (hw : waitsOn t' = none)
    (href : ∀ o, refOf t' = some o → refOf t = some o)
    (hwo : ∀ w, woOf t' = some w → woOf t = some w) : GInv s' :=
  ginv_lockUnlock hG hi (new := []) (by rw [htasks, List.append_nil]) hobjs ht hA hrw hr hw href hwo (nil_new t)

/-! ### what `sendTo` / `wgDone` leave alone -/

theorem sendTo_sent_to {s s1 : State} {it : Item} (h : sendTo s it = .sent s1) : s1.tasks = s.tasks ∧ s1.objs = s.objs := by
  unfold sendTo at h
  split at h
  · cases h
  · split at h
    · cases h
    · split at h
      · injection h with h; subst h; exact ⟨rfl, rfl⟩
      · split at h
        · injection h with h; subst h; exact ⟨rfl, rfl⟩
        · cases h

theorem wgDone_to (s : State) (w : Nat) : (wgDone s w).tasks = s.tasks ∧ (wgDone s w).objs = s.objs := by
  unfold wgDone
  split <;> exact ⟨rfl, rfl⟩

macro "gs" : tactic => `(tactic| simp [readsOn, waitsOn, refOf, woOf])

/-! ### the steps of the tasks -/

theorem ginv_pubStart {s s' : State} {i p o : Nat} {v : Variant} {evs : List Int} {l : Option Event} (hG : GInv s)
    (hi : s.tasks[i]? = some (.pubStart p o v evs)) (h : (l, s') ∈ stepPubStart s i p o v evs) : GInv s' := by
  unfold stepPubStart at h
  split at h
  · simp at h
  · simp only at h
    split at h
    · split at h
      · simp only [List.mem_singleton, Prod.mk.injEq] at h
        obtain ⟨_, rfl⟩ := h
        exact ginv_pure0 hG hi (t' := .pubRet p) rfl rfl (by gs) (by gs) (by gs) (by gs)
      · simp only [List.mem_singleton, Prod.mk.injEq] at h
        obtain ⟨_, rfl⟩ := h
        exact ginv_rlock0 hG hi (t' := .syncLoop p o _ false) (o := o) rfl rfl rfl rfl rfl (by gs) (by gs) (by gs) (by gs)
    · split at h
      · simp only [List.mem_singleton, Prod.mk.injEq] at h
        obtain ⟨_, rfl⟩ := h
        refine ginv_rlock hG hi (t' := .waitWg p o s.wgs.length) (o := o) rfl rfl rfl rfl rfl (by gs) (by gs) (by gs) (by gs) ?_
        intro n hn
        obtain ⟨it, _, rfl⟩ := List.mem_map.1 hn
        gs
      · simp only [List.mem_singleton, Prod.mk.injEq] at h
        obtain ⟨_, rfl⟩ := h
        refine ginv_pure hG hi (t' := .pubRet p) rfl rfl (by gs) (by gs) (by gs) (by gs) ?_
        intro n hn
        obtain ⟨it, _, rfl⟩ := List.mem_map.1 hn
        gs

theorem ginv_syncAdvance {s : State} {i p o : Nat} {it : Item} {rest : List Item} {cb : Bool} (hG : GInv s)
    (hi : s.tasks[i]? = some (.syncLoop p o (it :: rest) cb)) : GInv (syncAdvance i p o rest s) := by
  cases rest with
  | nil => exact ginv_runlock0 hG hi (t' := .pubRet p) (o := o) rfl rfl rfl rfl rfl rfl (by gs) (by gs) (by gs)
  | cons a r => exact ginv_pure0 hG hi (t' := .syncLoop p o (a :: r) false) rfl rfl (by gs) (by gs) (by gs) (by gs)

theorem ginv_syncLoop {cfg : Cfg} {s s' : State} {i p o : Nat} {work : List Item} {cb : Bool} {l : Option Event} (hG : GInv s)
    (hi : s.tasks[i]? = some (.syncLoop p o work cb)) (h : (l, s') ∈ stepSyncLoop cfg s i p o work cb) : GInv s' := by
  cases work with
  | nil => simp [stepSyncLoop] at h
  | cons it rest =>
    simp only [stepSyncLoop] at h
    rcases PubSubLog.mem_stepSend' h with ⟨rfl, rfl⟩ | ⟨rfl, s1, hst, rfl⟩ | ⟨rfl, rfl⟩ | ⟨rfl, htm, rfl⟩
    · exact ginv_syncAdvance hG hi
    · obtain ⟨h1, h2⟩ := sendTo_sent_to hst
      exact ginv_syncAdvance (ginv_congr hG h1 h2) (by rw [h1]; exact hi)
    · exact ginv_congr hG rfl rfl
    · exact ginv_pure0 hG hi (t' := .syncLoop p o (it :: rest) true) rfl rfl (by gs) (by gs) (by gs) (by gs)

theorem ginv_waitWg {s s' : State} {i p o w : Nat} {l : Option Event} (hG : GInv s)
    (hi : s.tasks[i]? = some (.waitWg p o w)) (h : (l, s') ∈ stepWaitWg s i p o w) : GInv s' := by
  unfold stepWaitWg at h
  split at h
  · simp only [List.mem_singleton, Prod.mk.injEq] at h
    obtain ⟨_, rfl⟩ := h
    exact ginv_runlock0 hG hi (t' := .pubRet p) (o := o) rfl rfl rfl rfl rfl rfl (by gs) (by gs) (by gs)
  · simp at h

theorem ginv_asyncStart {s s' : State} {i o : Nat} {it : Item} {l : Option Event} (hG : GInv s)
    (hi : s.tasks[i]? = some (.asyncStart o it)) (h : (l, s') ∈ stepAsyncStart s i o it) : GInv s' := by
  unfold stepAsyncStart at h
  split at h
  · simp at h
  · split at h
    · simp only [List.mem_singleton, Prod.mk.injEq] at h
      obtain ⟨_, rfl⟩ := h
      exact ginv_rlock0 hG hi (t' := .asyncSend o it false) (o := o) rfl rfl rfl rfl rfl (by gs) (by gs) (by gs) (by gs)
    · simp only [List.mem_singleton, Prod.mk.injEq] at h
      obtain ⟨_, rfl⟩ := h
      exact ginv_pure0 hG hi (t' := .done) rfl rfl (by gs) (by gs) (by gs) (by gs)

theorem ginv_asyncFin {s : State} {i o : Nat} {it : Item} {cb : Bool} (hG : GInv s)
    (hi : s.tasks[i]? = some (.asyncSend o it cb)) : GInv ((s.runlock o).setTask i .done) :=
  ginv_runlock0 hG hi (t' := .done) (o := o) rfl rfl rfl rfl rfl rfl (by gs) (by gs) (by gs)

theorem ginv_asyncSend {cfg : Cfg} {s s' : State} {i o : Nat} {it : Item} {cb : Bool} {l : Option Event} (hG : GInv s)
    (hi : s.tasks[i]? = some (.asyncSend o it cb)) (h : (l, s') ∈ stepAsyncSend cfg s i o it cb) : GInv s' := by
  simp only [stepAsyncSend] at h
  rcases PubSubLog.mem_stepSend' h with ⟨rfl, rfl⟩ | ⟨rfl, s1, hst, rfl⟩ | ⟨rfl, rfl⟩ | ⟨rfl, htm, rfl⟩
  · exact ginv_asyncFin hG hi
  · obtain ⟨h1, h2⟩ := sendTo_sent_to hst
    exact ginv_asyncFin (ginv_congr hG h1 h2) (by rw [h1]; exact hi)
  · exact ginv_congr hG rfl rfl
  · exact ginv_pure0 hG hi (t' := .asyncSend o it true) rfl rfl (by gs) (by gs) (by gs) (by gs)

theorem ginv_wgFin {s : State} {i o w : Nat} {it : Item} {cb : Bool} (hG : GInv s)
    (hi : s.tasks[i]? = some (.wgSend o w it cb)) : GInv ((wgDone s w).setTask i .done) := by
  obtain ⟨h1, h2⟩ := wgDone_to s w
  exact ginv_pure0 (ginv_congr hG h1 h2) (by rw [h1]; exact hi) (t' := .done) rfl rfl (by gs) (by gs) (by gs) (by gs)

theorem ginv_wgSend {cfg : Cfg} {s s' : State} {i o w : Nat} {it : Item} {cb : Bool} {l : Option Event} (hG : GInv s)
    (hi : s.tasks[i]? = some (.wgSend o w it cb)) (h : (l, s') ∈ stepWgSend cfg s i o w it cb) : GInv s' := by
  simp only [stepWgSend] at h
  rcases PubSubLog.mem_stepSend' h with ⟨rfl, rfl⟩ | ⟨rfl, s1, hst, rfl⟩ | ⟨rfl, rfl⟩ | ⟨rfl, htm, rfl⟩
  · exact ginv_wgFin hG hi
  · obtain ⟨h1, h2⟩ := sendTo_sent_to hst
    exact ginv_wgFin (ginv_congr hG h1 h2) (by rw [h1]; exact hi)
  · exact ginv_congr hG rfl rfl
  · exact ginv_pure0 hG hi (t' := .wgSend o w it true) rfl rfl (by gs) (by gs) (by gs) (by gs)

theorem ginv_subWait {s s' : State} {i o : Nat} {c : Chan} {cap : Nat} {l : Option Event} (hG : GInv s)
    (hi : s.tasks[i]? = some (.subWait o c cap)) (h : (l, s') ∈ stepSubWait s i o c cap) : GInv s' := by
  unfold stepSubWait at h
  split at h
  · simp at h
  · simp only [List.mem_singleton, Prod.mk.injEq] at h
    obtain ⟨_, rfl⟩ := h
    exact ginv_lockUnlock0 hG hi (t' := .subRet c) (o := o) rfl rfl rfl rfl rfl (by gs) rfl (by gs) (by gs)

theorem ginv_unsubWait {s s' : State} {i u o : Nat} {c : Chan} {l : Option Event} (hG : GInv s)
    (hi : s.tasks[i]? = some (.unsubWait u o c)) (h : (l, s') ∈ stepUnsubWait s i u o c) : GInv s' := by
  unfold stepUnsubWait at h
  split at h
  · simp at h
  · split at h
    · split at h
      · simp only [List.mem_singleton, Prod.mk.injEq] at h
        obtain ⟨_, rfl⟩ := h
        exact ginv_congr hG rfl rfl
      · simp only [List.mem_singleton, Prod.mk.injEq] at h
        obtain ⟨_, rfl⟩ := h
        exact ginv_lockUnlock0 hG hi (t' := .unsubRet u .nil) (o := o) rfl rfl rfl rfl rfl (by gs) rfl (by gs) (by gs)
    · simp only [List.mem_singleton, Prod.mk.injEq] at h
      obtain ⟨_, rfl⟩ := h
      exact ginv_lockUnlock0 hG hi (t' := .unsubRet u .already) (o := o) rfl rfl rfl rfl rfl (by gs) rfl (by gs) (by gs)

theorem ginv_uaWait {s s' : State} {i u o : Nat} {l : Option Event} (hG : GInv s)
    (hi : s.tasks[i]? = some (.uaWait u o)) (h : (l, s') ∈ stepUaWait s i u o) : GInv s' := by
  unfold stepUaWait at h
  split at h
  · simp at h
  · split at h
    · simp only [List.mem_singleton, Prod.mk.injEq] at h
      obtain ⟨_, rfl⟩ := h
      exact ginv_congr hG rfl rfl
    · simp only [List.mem_singleton, Prod.mk.injEq] at h
      obtain ⟨_, rfl⟩ := h
      exact ginv_lockUnlock0 hG hi (t' := .uaRet u) (o := o) rfl rfl rfl rfl rfl (by gs) rfl (by gs) (by gs)

theorem ginv_woStart {s s' : State} {i w o : Nat} {c : Chan} {l : Option Event} (hG : GInv s)
    (hi : s.tasks[i]? = some (.woStart w o c)) (h : (l, s') ∈ stepWoStart s i w o c) : GInv s' := by
  unfold stepWoStart at h
  split at h
  · simp at h
  · simp only [List.mem_singleton, Prod.mk.injEq] at h
    obtain ⟨_, rfl⟩ := h
    exact ginv_wo hG hi rfl rfl rfl

/-- every step of a task keeps `GInv` -/
theorem ginv_stepTask {cfg : Cfg} {s s' : State} {i : Nat} {t : Task} {l : Option Event} (hG : GInv s)
    (hi : s.tasks[i]? = some t) (h : (l, s') ∈ stepTask cfg s i t) : GInv s' := by
  cases t with
  | pubStart p o v evs => exact ginv_pubStart hG hi h
  | syncLoop p o work cb => exact ginv_syncLoop hG hi h
  | waitWg p o w => exact ginv_waitWg hG hi h
  | pubRet p =>
    simp only [stepTask, List.mem_singleton, Prod.mk.injEq] at h
    obtain ⟨_, rfl⟩ := h
    exact ginv_pure0 hG hi (t' := .done) rfl rfl (by gs) (by gs) (by gs) (by gs)
  | asyncStart o it => exact ginv_asyncStart hG hi h
  | asyncSend o it cb => exact ginv_asyncSend hG hi h
  | wgSend o w it cb => exact ginv_wgSend hG hi h
  | subStart o c cap =>
    simp only [stepTask, List.mem_singleton, Prod.mk.injEq] at h
    obtain ⟨_, rfl⟩ := h
    exact ginv_announce0 hG hi (t' := .subWait o c cap) (o := o) rfl rfl rfl rfl rfl (by gs) (by gs) (by gs) (by gs)
  | subWait o c cap => exact ginv_subWait hG hi h
  | subRet c =>
    simp only [stepTask, List.mem_singleton, Prod.mk.injEq] at h
    obtain ⟨_, rfl⟩ := h
    exact ginv_pure0 hG hi (t' := .done) rfl rfl (by gs) (by gs) (by gs) (by gs)
  | unsubStart u o c =>
    cases c with
    | none =>
      simp only [stepTask, List.mem_singleton, Prod.mk.injEq] at h
      obtain ⟨_, rfl⟩ := h
      exact ginv_pure0 hG hi (t' := .unsubRet u .notinit) rfl rfl (by gs) (by gs) (by gs) (by gs)
    | some c =>
      simp only [stepTask, List.mem_singleton, Prod.mk.injEq] at h
      obtain ⟨_, rfl⟩ := h
      exact ginv_announce0 hG hi (t' := .unsubWait u o c) (o := o) rfl rfl rfl rfl rfl (by gs) (by gs) (by gs) (by gs)
  | unsubWait u o c => exact ginv_unsubWait hG hi h
  | unsubRet u code =>
    simp only [stepTask, List.mem_singleton, Prod.mk.injEq] at h
    obtain ⟨_, rfl⟩ := h
    exact ginv_pure0 hG hi (t' := .done) rfl rfl (by gs) (by gs) (by gs) (by gs)
  | uaStart u o =>
    simp only [stepTask, List.mem_singleton, Prod.mk.injEq] at h
    obtain ⟨_, rfl⟩ := h
    exact ginv_announce0 hG hi (t' := .uaWait u o) (o := o) rfl rfl rfl rfl rfl (by gs) (by gs) (by gs) (by gs)
  | uaWait u o => exact ginv_uaWait hG hi h
  | uaRet u =>
    simp only [stepTask, List.mem_singleton, Prod.mk.injEq] at h
    obtain ⟨_, rfl⟩ := h
    exact ginv_pure0 hG hi (t' := .done) rfl rfl (by gs) (by gs) (by gs) (by gs)
  | woStart w o c => exact ginv_woStart hG hi h
  | done => simp [stepTask] at h


/-! ### environment, receivers, exit -/

theorem validObj_spec {s : State} {o : Nat} (h : s.validObj o = true) : o < s.objs.length ∧ (s.obj o).ready = true := by
  simpa [State.validObj] using h

theorem ginv_envStep {cfg : Cfg} {s s' : State} {e : Event} (hG : GInv s) (h : envStep cfg s e = some s') : GInv s' := by
  cases e with
  | sub c cap =>
    simp only [envStep] at h
    split at h
    · cases h
    · injection h with h; subst h
      refine ginv_spawn hG (t := .subStart 0 c _) rfl rfl rfl rfl rfl ?_
      intro o ho
      simp only [refOf, Option.some.injEq] at ho
      subst ho; exact hG.z
  | mkchan c =>
    simp only [envStep] at h
    split at h
    · cases h
    · injection h with h; subst h
      exact ginv_congr hG rfl rfl
  | withonly w via c =>
    simp only [envStep] at h
    split at h
    · rename_i hc
      injection h with h; subst h
      simp only [Bool.and_eq_true, beq_iff_eq] at hc
      obtain ⟨⟨_, hw⟩, hv⟩ := hc
      subst hw
      exact ginv_withonly hG (via := via) (c := c) rfl rfl rfl (validObj_spec hv)
    · cases h
  | pubinv p via v evs =>
    simp only [envStep] at h
    split at h
    · cases h
    · rename_i hg
      injection h with h; subst h
      have hv : s.validObj via = true := by
        simp only [Bool.or_eq_true, not_or] at hg
        simpa using hg.2
      refine ginv_spawn hG (t := .pubStart p via v evs) rfl rfl rfl rfl rfl ?_
      intro o ho
      simp only [refOf, Option.some.injEq] at ho
      subst ho; exact validObj_spec hv
  | allow c n =>
    simp only [envStep] at h
    split at h
    · injection h with h; subst h
      exact ginv_congr hG rfl rfl
    · cases h
  | unsubinv u via c =>
    simp only [envStep] at h
    split at h
    · rename_i hv
      injection h with h; subst h
      refine ginv_spawn hG (t := .unsubStart u via _) rfl rfl rfl rfl rfl ?_
      intro o ho
      simp only [refOf, Option.some.injEq] at ho
      subst ho; exact validObj_spec hv
    · cases h
  | unsuballinv u via =>
    simp only [envStep] at h
    split at h
    · rename_i hv
      injection h with h; subst h
      refine ginv_spawn hG (t := .uaStart u via) rfl rfl rfl rfl rfl ?_
      intro o ho
      simp only [refOf, Option.some.injEq] at ho
      subst ho; exact validObj_spec hv
    · cases h
  | _ => simp [envStep] at h

theorem ginv_recvSteps {s s' : State} {ch : ChanSt} {l : Option Event} (hG : GInv s) (h : (l, s') ∈ recvSteps s ch) : GInv s' := by
  unfold recvSteps at h
  split at h
  · simp at h
  · split at h
    · simp only [List.mem_singleton, Prod.mk.injEq] at h
      obtain ⟨_, rfl⟩ := h
      exact ginv_congr hG rfl rfl
    · split at h
      · simp at h
      · split at h
        · simp only [List.mem_singleton, Prod.mk.injEq] at h
          obtain ⟨_, rfl⟩ := h
          exact ginv_congr hG rfl rfl
        · split at h
          · simp only [List.mem_singleton, Prod.mk.injEq] at h
            obtain ⟨_, rfl⟩ := h
            exact ginv_congr hG rfl rfl
          · simp at h

/-- `GInv` is inductive -/
theorem ginv_succ {cfg : Cfg} {s s' : State} {l : Option Event} (hG : GInv s) (h : (l, s') ∈ succ cfg s) : GInv s' := by
  unfold succ at h
  split at h
  · simp at h
  · split at h
    · simp only [List.mem_singleton, Prod.mk.injEq] at h
      obtain ⟨_, rfl⟩ := h
      exact ginv_congr hG rfl rfl
    · simp only [List.mem_append] at h
      rcases h with ((h | h) | h) | h
      · simp only [envSteps, List.mem_filterMap] at h
        obtain ⟨e, _, he⟩ := h
        cases hes : envStep cfg s e with
        | none => simp [hes] at he
        | some s1 =>
          simp [hes] at he
          obtain ⟨_, rfl⟩ := he
          exact ginv_envStep hG hes
      · simp only [List.mem_flatMap, List.mem_range] at h
        obtain ⟨i, _, hi⟩ := h
        unfold taskSteps at hi
        split at hi
        · simp at hi
        · rename_i t ht
          exact ginv_stepTask hG ht hi
      · simp only [List.mem_flatMap] at h
        obtain ⟨ch, _, hch⟩ := h
        exact ginv_recvSteps hG hch
      · simp only [exitSteps, List.mem_map] at h
        obtain ⟨r, _, hr⟩ := h
        injection hr with _ hr; subst hr
        exact ginv_congr hG rfl rfl

theorem ginv_reachable (cfg : Cfg) : ∀ x, Reachable (sys cfg) x → GInv x :=
  Conc.invariant (sys cfg) GInv ginv_init (fun _ _ _ hG h => ginv_succ hG h)

/-- `Good` is an invariant of the PubSub system, for every configuration (clones allowed) -/
theorem good_reachable (cfg : Cfg) : ∀ x, Reachable (sys cfg) x → Good x :=
  fun x hr => good_of_ginv (ginv_reachable cfg x hr)

end TypVerif.Lemmas.PubSubRed

#print axioms TypVerif.Lemmas.PubSubRed.good_reachable
